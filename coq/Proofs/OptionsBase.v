(** Facts about the association-list dicts of Model/Options.v and about task construction. *)
From Coq Require Import List ZArith NArith Bool Lia.
From RV Require Import Model.Options.
Import ListNotations.
Open Scope list_scope.

Definition orelse {A} (a b : option A) : option A := match a with Some _ => a | None => b end.
Infix "<|>" := orelse (at level 61, right associativity).

Lemma lookup_app : forall V (k : key) (b a : dict V),
  lookup k (b ++ a) = lookup k b <|> lookup k a.
Proof.
  induction b as [|[k' v] b IH]; intros; simpl; [reflexivity|].
  destruct (N.eqb k k'); [reflexivity|apply IH].
Qed.

Lemma lookup_update : forall V (k : key) (a b : dict V),
  lookup k (update a b) = lookup k b <|> lookup k a.
Proof. intros. apply lookup_app. Qed.

Lemma lookup_filter_keys : forall V (P : key -> bool) (k : key) (d : dict V),
  lookup k (filter (fun kv => P (fst kv)) d) = if P k then lookup k d else None.
Proof.
  induction d as [|[k' v] d IH]; simpl.
  - destruct (P k); reflexivity.
  - destruct (P k') eqn:E; simpl.
    + destruct (N.eqb k k') eqn:K.
      * apply N.eqb_eq in K. subst. rewrite E. reflexivity.
      * exact IH.
    + destruct (N.eqb k k') eqn:K.
      * apply N.eqb_eq in K. subst. rewrite E in *. exact IH.
      * exact IH.
Qed.

Lemma lookup_restrict : forall V ks (k : key) (d : dict V),
  lookup k (restrict ks d) = if mem k ks then lookup k d else None.
Proof. intros. unfold restrict. apply (lookup_filter_keys V (fun k => mem k ks)). Qed.

Lemma lookup_removek : forall V (k0 k : key) (d : dict V),
  lookup k (removek k0 d) = if N.eqb k0 k then None else lookup k d.
Proof.
  intros. unfold removek. rewrite (lookup_filter_keys V (fun x => negb (N.eqb k0 x))).
  destruct (N.eqb k0 k); reflexivity.
Qed.

Lemma lookup_map_vals : forall V W (f : V -> W) (k : key) (d : dict V),
  lookup k (map_vals f d) = option_map f (lookup k d).
Proof.
  induction d as [|[k' v] d IH]; simpl; [reflexivity|].
  destruct (N.eqb k k'); [reflexivity|exact IH].
Qed.

Lemma lookup_setk : forall V (k0 k : key) (v : V) (d : dict V),
  lookup k (setk k0 v d) = if N.eqb k k0 then Some v else lookup k d.
Proof. reflexivity. Qed.

Lemma mem_app : forall k a b, mem k (a ++ b) = mem k a || mem k b.
Proof.
  induction a as [|x a IH]; intros; simpl; [reflexivity|].
  rewrite IH. apply orb_assoc.
Qed.

Lemma mem_In : forall k l, mem k l = true <-> In k l.
Proof.
  induction l as [|x l IH]; simpl.
  - split; [discriminate|tauto].
  - rewrite orb_true_iff, IH, N.eqb_eq. split; intros [H|H]; auto.
Qed.

Lemma has_key_update : forall V (k : key) (a b : dict V),
  has_key k (update a b) = has_key k b || has_key k a.
Proof.
  intros. unfold has_key. rewrite lookup_update.
  destruct (lookup k b); reflexivity.
Qed.

(** ** the result of [norm] *)
Lemma norm_lookup : forall d d', norm d = Ok d' ->
  forall k, N.eqb k k_cache = false -> N.eqb k k_cache_scope = false -> lookup k d' = lookup k d.
Proof.
  unfold norm, bind. intros d d' H k Hc Hs.
  destruct (lookup k_cache d) as [[a|e]|] eqn:E; try discriminate.
  - destruct (lookup k_cache_scope _) as [[[]|]|] eqn:E2; try discriminate; inversion H; subst;
      rewrite lookup_setk, Hs, lookup_removek; rewrite N.eqb_sym, Hc; reflexivity.
  - destruct (lookup k_cache_scope d) as [[[]|]|] eqn:E2; try discriminate; inversion H; subst; reflexivity.
Qed.

Lemma norm_has_prov : forall d d', norm d = Ok d' -> has_key k_prov d' = has_key k_prov d.
Proof. intros. unfold has_key. rewrite (norm_lookup d d' H); reflexivity. Qed.

(** after normalisation there is no `cache` entry and `cache_scope`, if present, is a CacheScope *)
Lemma norm_no_cache : forall d d', norm d = Ok d' -> lookup k_cache d' = None.
Proof.
  unfold norm, bind. intros d d' H.
  destruct (lookup k_cache d) as [[a|e]|] eqn:E; try discriminate.
  - destruct (lookup k_cache_scope _) as [[[]|]|] eqn:E2; try discriminate; inversion H; subst;
      rewrite lookup_setk; simpl; rewrite lookup_removek; reflexivity.
  - destruct (lookup k_cache_scope d) as [[[]|]|] eqn:E2; try discriminate; inversion H; subst; exact E.
Qed.

Lemma norm_scope : forall d d' v, norm d = Ok d' -> lookup k_cache_scope d' = Some v -> exists s, v = OLit (AScope s).
Proof.
  unfold norm, bind. intros d d' v H L.
  destruct (lookup k_cache d) as [[a|e]|] eqn:E; try discriminate.
  - destruct (lookup k_cache_scope _) as [[[]|]|] eqn:E2; try discriminate; inversion H; subst.
    rewrite E2 in L. inversion L. eauto.
  - destruct (lookup k_cache_scope d) as [[[]|]|] eqn:E2; try discriminate; inversion H; subst.
    + rewrite E2 in L. inversion L. eauto.
    + rewrite E2 in L. discriminate.
Qed.

(** legacy synonym: `cache=v` becomes `cache_scope=BACKEND` if v is true, `CSE` otherwise, and wins over a
    `cache_scope` given in the same dict *)
Lemma norm_cache_synonym : forall d d' a, norm d = Ok d' -> lookup k_cache d = Some (OLit a) ->
  lookup k_cache_scope d' = Some (OLit (AScope (if truthy a then SBackend else SCse))).
Proof.
  unfold norm, bind. intros d d' a H L. rewrite L in H.
  destruct (lookup k_cache_scope _) as [[[]|]|] eqn:E2; try discriminate; inversion H; subst; reflexivity.
Qed.

(** ** errors: only the root-expression crash is [ERootExpr] *)
Definition no_root_err {A} (r : res A) : Prop := r <> Err ERootExpr.

Lemma no_root_err_bind : forall A B (r : res A) (f : A -> res B),
  no_root_err r -> (forall a, no_root_err (f a)) -> no_root_err (bind r f).
Proof.
  intros A B [a|e] f H1 H2; simpl; [apply H2|].
  intros E. apply H1. inversion E. reflexivity.
Qed.

Lemma no_root_err_bind_eq : forall A B (r : res A) (f : A -> res B),
  no_root_err r -> (forall a, r = Ok a -> no_root_err (f a)) -> no_root_err (bind r f).
Proof.
  intros A B [a|e] f H1 H2; simpl; [apply H2; reflexivity|].
  intros E. apply H1. inversion E. reflexivity.
Qed.

Lemma norm_no_root_err : forall d, no_root_err (norm d).
Proof.
  intros d. unfold norm. apply no_root_err_bind.
  - destruct (lookup k_cache d) as [[a|e]|]; discriminate.
  - intros d1. destruct (lookup k_cache_scope d1) as [[[]|]|]; discriminate.
Qed.

Lemma chain_run_no_root_err : forall c base ops st, no_root_err (chain_run c base st ops).
Proof.
  induction ops as [|op r IH]; intros st; simpl; [discriminate|].
  apply no_root_err_bind; [|intros; apply IH].
  destruct st as [over ex]. destruct op; simpl; (apply no_root_err_bind; [apply norm_no_root_err|discriminate]).
Qed.

(** ** visible expressions *)
Lemma visible_exprs_nil : forall d seen,
  (forall k e, mem k seen = false -> lookup k d <> Some (OExpr e)) -> visible_exprs seen d = [].
Proof.
  induction d as [|[k v] d IH]; intros seen H; simpl; [reflexivity|].
  destruct (mem k seen) eqn:M.
  - apply IH. intros k' e M' L. apply (H k' e M'). simpl.
    destruct (N.eqb k' k) eqn:K; [|exact L]. apply N.eqb_eq in K. subst. congruence.
  - destruct v as [a|e].
    + simpl. apply IH. intros k' e M' L. simpl in M'. apply orb_false_iff in M'. destruct M' as [K M'].
      apply (H k' e M'). simpl. rewrite K. exact L.
    + exfalso. apply (H k e M). simpl. rewrite N.eqb_refl. reflexivity.
Qed.

Lemma visible_exprs_nil_inv : forall d seen, visible_exprs seen d = [] ->
  forall k e, mem k seen = false -> lookup k d <> Some (OExpr e).
Proof.
  induction d as [|[k v] d IH]; intros seen H k' e M; simpl; [discriminate|].
  simpl in H. destruct (N.eqb k' k) eqn:K.
  - apply N.eqb_eq in K. subst. rewrite M in H. destruct v; [discriminate|]. simpl in H. discriminate.
  - destruct (mem k seen) eqn:M2.
    + apply (IH seen H k' e M).
    + apply app_eq_nil in H. destruct H as [_ H]. apply (IH (k :: seen) H k' e). simpl. rewrite K, M. reflexivity.
Qed.

Lemma has_expr_false : forall d, has_expr d = false <-> (forall k e, lookup k d <> Some (OExpr e)).
Proof.
  intros d. unfold has_expr. split.
  - intros H k e. destruct (visible_exprs [] d) eqn:E; [|discriminate].
    apply (visible_exprs_nil_inv d [] E k e). reflexivity.
  - intros H. rewrite visible_exprs_nil; [reflexivity|]. intros k e _. apply H.
Qed.
