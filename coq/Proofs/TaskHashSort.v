(** Facts about [sort_b] (sorted() on hash strings): it is a function of the multiset. *)
From Coq Require Import List ZArith Ascii Bool Permutation.
From RV Require Import Base.Decimal Model.Bencode Proofs.BencodeSort Model.TaskHash.
Import ListNotations.
Open Scope list_scope.

Lemma leb_total x y : bytes_leb x y = false -> bytes_leb y x = true.
Proof.
  unfold bytes_leb. intros E. apply negb_false_iff in E. apply ltb_asym in E. now rewrite E.
Qed.

Lemma leb_antisym x y : bytes_leb x y = true -> bytes_leb y x = true -> x = y.
Proof.
  unfold bytes_leb. intros E1 E2. apply negb_true_iff in E1, E2. now apply ltb_total.
Qed.

Lemma leb_trans x y z : bytes_leb x y = true -> bytes_leb y z = true -> bytes_leb x z = true.
Proof.
  unfold bytes_leb. intros E1 E2. apply negb_true_iff in E1, E2. apply negb_true_iff.
  destruct (bytes_ltb z x) eqn:E3; auto.
  destruct (bytes_ltb x y) eqn:E4.
  - generalize (ltb_trans _ _ _ E3 E4). congruence.
  - assert (x = y) by now apply ltb_total. subst. congruence.
Qed.

Lemma leb_refl x : bytes_leb x x = true.
Proof. unfold bytes_leb. now rewrite ltb_irrefl. Qed.

Inductive sorted : list bytes -> Prop :=
| sorted_nil : sorted []
| sorted_cons x l : Forall (fun y => bytes_leb x y = true) l -> sorted l -> sorted (x :: l).

Lemma insert_b_perm x l : Permutation (insert_b x l) (x :: l).
Proof.
  induction l as [|y l IH]; simpl; auto.
  destruct (bytes_leb x y); auto.
  eapply perm_trans; [apply perm_skip, IH|apply perm_swap].
Qed.

Lemma sort_b_perm l : Permutation (sort_b l) l.
Proof.
  induction l as [|x l IH]; simpl; auto.
  eapply perm_trans; [apply insert_b_perm|]. now apply perm_skip.
Qed.

Lemma insert_b_sorted x l : sorted l -> sorted (insert_b x l).
Proof.
  induction 1 as [|y l Hall Hs IH]; simpl.
  - constructor; constructor.
  - destruct (bytes_leb x y) eqn:E.
    + constructor; [|constructor; auto]. constructor; auto.
      eapply Forall_impl; [|exact Hall]. intros z Hz. eapply leb_trans; eauto.
    + constructor; auto. apply leb_total in E.
      rewrite Forall_forall. intros z Hz.
      apply (Permutation_in _ (insert_b_perm x l)) in Hz. destruct Hz as [<-|Hz]; auto.
      rewrite Forall_forall in Hall. auto.
Qed.

Lemma sort_b_sorted l : sorted (sort_b l).
Proof. induction l; simpl; [constructor|now apply insert_b_sorted]. Qed.

Lemma sorted_perm_eq_b : forall l l', sorted l -> sorted l' -> Permutation l l' -> l = l'.
Proof.
  induction l as [|x l IH]; intros l' Hs Hs' Hp.
  - apply Permutation_nil in Hp. now subst.
  - destruct l' as [|x' l']; [apply Permutation_sym, Permutation_nil in Hp; discriminate|].
    inversion Hs as [|? ? Ha Hs1]; subst. inversion Hs' as [|? ? Ha' Hs1']; subst.
    assert (E : x = x').
    { assert (H1 : In x (x' :: l')) by (eapply Permutation_in; [exact Hp|now left]).
      assert (H2 : In x' (x :: l)) by (eapply Permutation_in; [apply Permutation_sym; exact Hp|now left]).
      destruct H1 as [H1|H1]; auto. destruct H2 as [H2|H2]; auto.
      rewrite Forall_forall in Ha, Ha'. apply leb_antisym; auto. }
    subst x'. f_equal. apply IH; auto. eapply Permutation_cons_inv; eauto.
Qed.

Theorem sort_b_perm_iff l l' : Permutation l l' <-> sort_b l = sort_b l'.
Proof.
  split.
  - intros Hp. apply sorted_perm_eq_b; try apply sort_b_sorted.
    eapply perm_trans; [apply sort_b_perm|]. eapply perm_trans; [exact Hp|].
    apply Permutation_sym, sort_b_perm.
  - intros E. eapply perm_trans; [apply Permutation_sym, sort_b_perm|]. rewrite E. apply sort_b_perm.
Qed.

Lemma sorted_app_last l x : sorted (l ++ [x]) -> Forall (fun y => bytes_leb y x = true) l.
Proof.
  induction l as [|y l IH]; simpl; intros Hs; [constructor|].
  inversion Hs as [|? ? Ha Hs1]; subst. constructor; auto.
  rewrite Forall_forall in Ha. apply Ha. apply in_or_app. right. now left.
Qed.
