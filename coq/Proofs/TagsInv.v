(** C24: well-formedness of the tag table in every reachable state (any variant), hence the
    edit graph is acyclic and the superseded walk of record_tags terminates. *)
From Coq Require Import List Arith Bool PeanoNat Lia.
From RV Require Import Model.Tags Proofs.TagsBase.
Import ListNotations.
Open Scope list_scope.

Definition valid_parents (s : state) (ps : list nat) : Prop := Forall (fun p => p < length (rows s)) ps.

(** parents precede their children; every edit is a parent link of an existing row *)
Definition LI (s : state) : Prop :=
  (forall i r, nth_error (rows s) i = Some r -> Forall (fun p => p < i) (r_par r)) /\
  (forall p c, In (p, c) (edits s) -> exists r, nth_error (rows s) c = Some r /\ In p (r_par r)).

(** [s'] keeps the rows of [s] (content and parents) at their positions *)
Definition ext (s s' : state) : Prop :=
  length (rows s) <= length (rows s') /\
  forall i r, nth_error (rows s) i = Some r ->
              exists r', nth_error (rows s') i = Some r' /\ r_c r' = r_c r /\ r_par r' = r_par r.

Lemma ext_refl s : ext s s.
Proof. split; [lia|]. intros i r H. exists r. tauto. Qed.

Lemma ext_trans a b c : ext a b -> ext b c -> ext a c.
Proof.
  intros [L1 H1] [L2 H2]. split; [lia|]. intros i r H. destruct (H1 _ _ H) as [r' [A [B C]]].
  destruct (H2 _ _ A) as [r'' [A' [B' C']]]. exists r''. split; [assumption|]. split; congruence.
Qed.

Lemma ext_valid s s' ps : ext s s' -> valid_parents s ps -> valid_parents s' ps.
Proof. intros [L _] H. unfold valid_parents in *. eapply Forall_impl; [|exact H]. simpl. intros. lia. Qed.

Lemma LI_init : LI init.
Proof. split; simpl; [intros [|i] r H; discriminate|intros p c []]. Qed.

(* ------------------------------------------------------------------ commit_batch *)
Definition cb_new_cs s cs ps := filter (fun c => negb (exists_row s c ps)) cs.
Definition cb_rows1 s cs ps := rows s ++ map (fun c => mkRow c ps true) (cb_new_cs s cs ps).
Definition cb_idx s cs ps c := match find_from 0 c ps (cb_rows1 s cs ps) with Some i => i | None => 0 end.
Definition cb_new_es s cs ps :=
  filter (fun pe => negb (mem_edit pe (edits s)))
         (flat_map (fun c => map (fun p => (p, cb_idx s cs ps c)) ps) cs).
Definition cb_state s cs ps := mkSt (inval_from 0 ps (cb_rows1 s cs ps)) (edits s ++ cb_new_es s cs ps).

Lemma commit_batch_unfold s cs ps :
  commit_batch s cs ps =
  if has_dup content_eqb (cb_new_cs s cs ps) then DbError s else
  if has_dup edit_eqb (cb_new_es s cs ps) then DbError s else
  match cb_new_cs s cs ps, cb_new_es s cs ps with
  | [], [] => Done s
  | _, _ => Done (cb_state s cs ps)
  end.
Proof. reflexivity. Qed.

Lemma commit_batch_cases s cs ps :
  commit_batch s cs ps = DbError s \/ commit_batch s cs ps = Done s \/
  commit_batch s cs ps = Done (cb_state s cs ps).
Proof.
  rewrite commit_batch_unfold. destruct (has_dup content_eqb _); [tauto|].
  destruct (has_dup edit_eqb _); [tauto|]. destruct (cb_new_cs s cs ps), (cb_new_es s cs ps); tauto.
Qed.

Lemma inval_nth_inv i ps l n r :
  nth_error (inval_from i ps l) n = Some r ->
  exists r0, nth_error l n = Some r0 /\ r_c r = r_c r0 /\ r_par r = r_par r0 /\
             r_cur r = r_cur r0 && negb (mem (i + n) ps).
Proof.
  rewrite inval_from_nth. destruct (nth_error l n) as [r0|]; simpl; [|discriminate].
  intros [= <-]. exists r0. destruct (mem (i + n) ps); simpl; rewrite ?andb_true_r, ?andb_false_r; repeat split; reflexivity.
Qed.

Lemma cb_rows1_nth s cs ps i r0 :
  nth_error (cb_rows1 s cs ps) i = Some r0 ->
  nth_error (rows s) i = Some r0 \/
  (length (rows s) <= i /\ exists c, In c (cb_new_cs s cs ps) /\ r0 = mkRow c ps true).
Proof.
  unfold cb_rows1. intros H. destruct (Nat.lt_ge_cases i (length (rows s))) as [L|L].
  - left. now rewrite nth_error_app1 in H.
  - right. split; [assumption|]. rewrite nth_error_app2 in H by assumption.
    apply nth_error_In in H. apply in_map_iff in H. destruct H as [c [<- Hc]]. eauto.
Qed.

Lemma cb_idx_found s cs ps c :
  In c cs -> exists j, find_from 0 c ps (cb_rows1 s cs ps) = Some j.
Proof.
  intros Hc. unfold cb_rows1. rewrite find_from_app.
  destruct (find_from 0 c ps (rows s)) as [j|] eqn:E; [eauto|].
  destruct (find_from (0 + length (rows s)) c ps (map (fun c0 => mkRow c0 ps true) (cb_new_cs s cs ps))) as [j|] eqn:E2; [eauto|].
  exfalso. rewrite find_from_None in E2. apply (E2 (mkRow c ps true)); [|simpl; tauto].
  apply in_map_iff. exists c. split; [reflexivity|]. unfold cb_new_cs. apply filter_In. split; [assumption|].
  unfold exists_row, find_id. now rewrite E.
Qed.

Lemma cb_state_ext s cs ps : ext s (cb_state s cs ps).
Proof.
  split.
  - simpl. rewrite inval_from_length. unfold cb_rows1. rewrite app_length. lia.
  - intros i r H. simpl. rewrite inval_from_nth. unfold cb_rows1.
    rewrite nth_error_app1 by (apply nth_error_Some; congruence). rewrite H. simpl.
    eexists. split; [reflexivity|]. destruct (mem _ ps); simpl; split; reflexivity.
Qed.

Lemma cb_state_LI s cs ps : LI s -> valid_parents s ps -> LI (cb_state s cs ps).
Proof.
  intros [W E] V. split.
  - intros i r H. simpl in H. apply inval_nth_inv in H. destruct H as [r0 [H [_ [-> _]]]].
    apply cb_rows1_nth in H. destruct H as [H|[L [c [_ ->]]]]; [now apply (W i)|]. simpl.
    eapply Forall_impl; [|exact V]. simpl. intros. lia.
  - intros p c H. simpl in H. apply in_app_or in H. destruct H as [H|H].
    + destruct (E _ _ H) as [r [H1 H2]]. destruct (cb_state_ext s cs ps) as [_ X].
      destruct (X _ _ H1) as [r' [A [_ B]]]. exists r'. split; [assumption|congruence].
    + unfold cb_new_es in H. apply filter_In in H. destruct H as [H _]. apply in_flat_map in H.
      destruct H as [c0 [Hc0 H]]. apply in_map_iff in H. destruct H as [p0 [[= -> <-] Hp]].
      destruct (cb_idx_found s cs ps c0 Hc0) as [j Hj]. unfold cb_idx. rewrite Hj.
      apply find_from_Some in Hj. destruct Hj as [n [r [-> [Hn [_ Hpar]]]]]. simpl.
      rewrite inval_from_nth, Hn. simpl. eexists. split; [reflexivity|].
      destruct (mem (0 + n) ps); simpl; congruence.
Qed.

Definition out_ok (P : state -> Prop) (o : outcome) : Prop :=
  match o with Done s | DbError s | CliError s => P s | OutOfFuel => True end.

Lemma commit_batch_LI s cs ps :
  LI s -> valid_parents s ps -> out_ok (fun s' => LI s' /\ ext s s') (commit_batch s cs ps).
Proof.
  intros H V. destruct (commit_batch_cases s cs ps) as [-> | [-> | ->]]; simpl.
  - split; [assumption|apply ext_refl].
  - split; [assumption|apply ext_refl].
  - split; [now apply cb_state_LI|apply cb_state_ext].
Qed.

(* ------------------------------------------------------------------ record_tags *)
Lemma ids_from_valid s p : valid_parents s (ids_from 0 p (rows s)).
Proof. apply Forall_forall. intros j H. apply ids_from_ge in H. lia. Qed.

Lemma find_id_lt s c ps i : find_id s c ps = Some i -> i < length (rows s).
Proof. intros H. apply find_from_lt in H. lia. Qed.

(** the loop over the superseded candidates, as a function of the recursive call *)
Fixpoint go_sup (rec : state -> content -> nat -> outcome) (s0 : state) (ps : list nat)
         (s' : state) (l : list content) : outcome :=
  match l with
  | [] => Done s'
  | c :: l' =>
    match find_id s0 c ps with
    | Some i => match rec s' c i with Done s'' => go_sup rec s0 ps s'' l' | o => o end
    | None => go_sup rec s0 ps s' l'
    end
  end.

Definition rt_tags g (tags : list content) := if dedupe g then nodupc tags else tags.
Definition rt_parents g s e tags parents (update : bool) :=
  if update then parents ++ ids_from 0 (cur_match e (fun k _ => mem k (keys_of (rt_tags g tags)))) (rows s)
  else parents.
Definition rt_tags2 g s e tags parents update :=
  if skip_current g
  then filter (fun c => negb (current_elsewhere s c (rt_parents g s e tags parents update))) (rt_tags g tags)
  else rt_tags g tags.

Lemma record_tags_unfold g f s e tags parents update new :
  record_tags g (S f) s e tags parents update new =
  match tags with
  | [] => Done s
  | _ :: _ =>
    let ps := rt_parents g s e tags parents update in
    if update || new then
      let t2 := rt_tags2 g s e tags parents update in
      match go_sup (fun s' c i => record_tags g f s' e [c] [i] false true) s ps s (filter (is_sup s ps) t2) with
      | Done s1 => commit_batch s1 (filter (fun c => negb (is_sup s ps c)) t2) ps
      | o => o
      end
    else commit_batch s (rt_tags g tags) ps
  end.
Proof.
  destruct tags as [|c0 tags]; [reflexivity|]. cbn [record_tags]. unfold rt_parents, rt_tags2, rt_tags.
  cbv zeta. destruct (update || new); [|reflexivity].
  set (ps := if update then _ else _). set (t2 := if skip_current g then _ else _).
  generalize (filter (is_sup s ps) t2) as l. generalize s at 2 4 as s'.
  intros s' l. 
  match goal with |- match ?A with _ => _ end = match ?B with _ => _ end => assert (A = B) as -> end; [|reflexivity].
  revert s'. induction l as [|c l IH]; intros s'; simpl; [reflexivity|].
  destruct (find_id s c ps); [|apply IH].
  destruct (record_tags g f s' e [c] [i] false true); try reflexivity. apply IH.
Qed.

Lemma rt_parents_valid g s e tags parents update :
  valid_parents s parents -> valid_parents s (rt_parents g s e tags parents update).
Proof.
  intros V. unfold rt_parents. destruct update; [|assumption].
  apply Forall_app. split; [assumption|apply ids_from_valid].
Qed.

Lemma record_tags_LI g f : forall s e tags parents update new,
  LI s -> valid_parents s parents ->
  out_ok (fun s' => LI s' /\ ext s s') (record_tags g f s e tags parents update new).
Proof.
  induction f as [|f IH]; intros s e tags parents update new HL HV; [exact I|].
  rewrite record_tags_unfold. destruct tags as [|c0 tags0]; [simpl; split; [assumption|apply ext_refl]|].
  set (tags := c0 :: tags0) in *. cbv zeta.
  assert (HV' := rt_parents_valid g s e tags parents update HV).
  set (ps := rt_parents g s e tags parents update) in *.
  destruct (update || new).
  - set (l := filter (is_sup s ps) _).
    assert (forall s', LI s' -> ext s s' ->
              out_ok (fun s1 => LI s1 /\ ext s s1)
                     (go_sup (fun s' c i => record_tags g f s' e [c] [i] false true) s ps s' l)) as Hgo.
    { induction l as [|c l IHl]; intros s' L' E'; simpl; [tauto|].
      destruct (find_id s c ps) as [i|] eqn:Ei; [|now apply IHl].
      assert (valid_parents s' [i]) as Vi.
      { constructor; [|constructor]. apply find_id_lt in Ei. destruct E' as [LL _]. lia. }
      specialize (IH s' e [c] [i] false true L' Vi).
      destruct (record_tags g f s' e [c] [i] false true) as [s''| s''| s''|]; simpl in IH |- *; try exact I.
      - destruct IH as [L'' E'']. apply IHl; [assumption|]. eapply ext_trans; eassumption.
      - destruct IH as [L'' E'']. split; [assumption|]. eapply ext_trans; eassumption.
      - destruct IH as [L'' E'']. split; [assumption|]. eapply ext_trans; eassumption. }
    specialize (Hgo s HL (ext_refl s)).
    destruct (go_sup _ s ps s l) as [s1|s1|s1|]; simpl in Hgo |- *; try assumption.
    destruct Hgo as [L1 E1].
    assert (X := commit_batch_LI s1 (filter (fun c => negb (is_sup s ps c)) (rt_tags2 g s e tags parents update)) ps L1 (ext_valid _ _ _ E1 HV')).
    destruct (commit_batch s1 _ ps); simpl in X |- *; try exact I;
      (destruct X as [X1 X2]; split; [assumption|eapply ext_trans; eassumption]).
  - apply commit_batch_LI; assumption.
Qed.
