(** C24: well-formedness of the tag table in every reachable state (any variant), hence the
    edit graph is acyclic and the superseded walk of record_tags terminates. *)
From Coq Require Import List Arith Bool PeanoNat Lia.
From RV Require Import Model.Tags Proofs.TagsBase.
Import ListNotations.
Open Scope list_scope.

Definition valid_parents (s : state) (ps : list nat) : Prop := Forall (fun p => p < length (rows s)) ps.

(** parents precede their children; every edit is a parent link of an existing row *)
Definition LI (s : state) : Prop :=
  (forall i r, nth_error (rows s) i = Some r -> Forall (fun p => p < i) (r_par r)) /\
  (forall p c, In (p, c) (edits s) -> exists r, nth_error (rows s) c = Some r /\ In p (r_par r)).

(** [s'] keeps the rows of [s] (content and parents) at their positions *)
Definition ext (s s' : state) : Prop :=
  length (rows s) <= length (rows s') /\
  forall i r, nth_error (rows s) i = Some r ->
              exists r', nth_error (rows s') i = Some r' /\ r_c r' = r_c r /\ r_par r' = r_par r.

Lemma ext_refl s : ext s s.
Proof. split; [lia|]. intros i r H. exists r. tauto. Qed.

Lemma ext_trans a b c : ext a b -> ext b c -> ext a c.
Proof.
  intros [L1 H1] [L2 H2]. split; [lia|]. intros i r H. destruct (H1 _ _ H) as [r' [A [B C]]].
  destruct (H2 _ _ A) as [r'' [A' [B' C']]]. exists r''. split; [assumption|]. split; congruence.
Qed.

Lemma ext_valid s s' ps : ext s s' -> valid_parents s ps -> valid_parents s' ps.
Proof. intros [L _] H. unfold valid_parents in *. eapply Forall_impl; [|exact H]. simpl. intros. lia. Qed.

Lemma LI_init : LI init.
Proof. split; simpl; [intros [|i] r H; discriminate|intros p c []]. Qed.

(* ------------------------------------------------------------------ commit_batch *)
Definition cb_new_cs s cs ps := filter (fun c => negb (exists_row s c ps)) cs.
Definition cb_rows1 s cs ps := rows s ++ map (fun c => mkRow c ps true) (cb_new_cs s cs ps).
Definition cb_idx s cs ps c := match find_from 0 c ps (cb_rows1 s cs ps) with Some i => i | None => 0 end.
Definition cb_new_es s cs ps :=
  filter (fun pe => negb (mem_edit pe (edits s)))
         (flat_map (fun c => map (fun p => (p, cb_idx s cs ps c)) ps) cs).
Definition cb_state s cs ps := mkSt (inval_from 0 ps (cb_rows1 s cs ps)) (edits s ++ cb_new_es s cs ps).

Lemma commit_batch_unfold s cs ps :
  commit_batch s cs ps =
  if has_dup content_eqb (cb_new_cs s cs ps) then DbError s else
  if has_dup edit_eqb (cb_new_es s cs ps) then DbError s else
  match cb_new_cs s cs ps, cb_new_es s cs ps with
  | [], [] => Done s
  | _, _ => Done (cb_state s cs ps)
  end.
Proof. reflexivity. Qed.

Lemma commit_batch_cases s cs ps :
  commit_batch s cs ps = DbError s \/ commit_batch s cs ps = Done s \/
  commit_batch s cs ps = Done (cb_state s cs ps).
Proof.
  rewrite commit_batch_unfold. destruct (has_dup content_eqb _); [tauto|].
  destruct (has_dup edit_eqb _); [tauto|]. destruct (cb_new_cs s cs ps), (cb_new_es s cs ps); tauto.
Qed.

Lemma inval_nth_inv i ps l n r :
  nth_error (inval_from i ps l) n = Some r ->
  exists r0, nth_error l n = Some r0 /\ r_c r = r_c r0 /\ r_par r = r_par r0 /\
             r_cur r = r_cur r0 && negb (mem (i + n) ps).
Proof.
  rewrite inval_from_nth. destruct (nth_error l n) as [r0|]; simpl; [|discriminate].
  intros [= <-]. exists r0. destruct (mem (i + n) ps); simpl; rewrite ?andb_true_r, ?andb_false_r; repeat split; reflexivity.
Qed.

Lemma cb_rows1_nth s cs ps i r0 :
  nth_error (cb_rows1 s cs ps) i = Some r0 ->
  nth_error (rows s) i = Some r0 \/
  (length (rows s) <= i /\ exists c, In c (cb_new_cs s cs ps) /\ r0 = mkRow c ps true).
Proof.
  unfold cb_rows1. intros H. destruct (Nat.lt_ge_cases i (length (rows s))) as [L|L].
  - left. now rewrite nth_error_app1 in H.
  - right. split; [assumption|]. rewrite nth_error_app2 in H by assumption.
    apply nth_error_In in H. apply in_map_iff in H. destruct H as [c [<- Hc]]. eauto.
Qed.

Lemma cb_idx_found s cs ps c :
  In c cs -> exists j, find_from 0 c ps (cb_rows1 s cs ps) = Some j.
Proof.
  intros Hc. unfold cb_rows1. rewrite find_from_app.
  destruct (find_from 0 c ps (rows s)) as [j|] eqn:E; [eauto|].
  destruct (find_from (0 + length (rows s)) c ps (map (fun c0 => mkRow c0 ps true) (cb_new_cs s cs ps))) as [j|] eqn:E2; [eauto|].
  exfalso. rewrite find_from_None in E2. apply (E2 (mkRow c ps true)); [|simpl; tauto].
  apply in_map_iff. exists c. split; [reflexivity|]. unfold cb_new_cs. apply filter_In. split; [assumption|].
  unfold exists_row, find_id. now rewrite E.
Qed.

Lemma cb_state_ext s cs ps : ext s (cb_state s cs ps).
Proof.
  split.
  - simpl. rewrite inval_from_length. unfold cb_rows1. rewrite app_length. lia.
  - intros i r H. simpl. rewrite inval_from_nth. unfold cb_rows1.
    rewrite nth_error_app1 by (apply nth_error_Some; congruence). rewrite H. simpl.
    eexists. split; [reflexivity|]. destruct (mem _ ps); simpl; split; reflexivity.
Qed.

Lemma cb_state_LI s cs ps : LI s -> valid_parents s ps -> LI (cb_state s cs ps).
Proof.
  intros [W E] V. split.
  - intros i r H. simpl in H. apply inval_nth_inv in H. destruct H as [r0 [H [_ [-> _]]]].
    apply cb_rows1_nth in H. destruct H as [H|[L [c [_ ->]]]]; [now apply (W i)|]. simpl.
    eapply Forall_impl; [|exact V]. simpl. intros. lia.
  - intros p c H. simpl in H. apply in_app_or in H. destruct H as [H|H].
    + destruct (E _ _ H) as [r [H1 H2]]. destruct (cb_state_ext s cs ps) as [_ X].
      destruct (X _ _ H1) as [r' [A [_ B]]]. exists r'. split; [assumption|congruence].
    + unfold cb_new_es in H. apply filter_In in H. destruct H as [H _]. apply in_flat_map in H.
      destruct H as [c0 [Hc0 H]]. apply in_map_iff in H. destruct H as [p0 [[= -> <-] Hp]].
      destruct (cb_idx_found s cs ps c0 Hc0) as [j Hj]. unfold cb_idx. rewrite Hj.
      apply find_from_Some in Hj. destruct Hj as [n [r [-> [Hn [_ Hpar]]]]]. simpl.
      rewrite inval_from_nth, Hn. simpl. eexists. split; [reflexivity|].
      destruct (mem _ ps); simpl; rewrite Hpar; assumption.
Qed.

Definition out_ok (P : state -> Prop) (o : outcome) : Prop :=
  match o with Done s | DbError s | CliError s => P s | OutOfFuel => True end.

Lemma commit_batch_LI s cs ps :
  LI s -> valid_parents s ps -> out_ok (fun s' => LI s' /\ ext s s') (commit_batch s cs ps).
Proof.
  intros H V. destruct (commit_batch_cases s cs ps) as [-> | [-> | ->]]; simpl.
  - split; [assumption|apply ext_refl].
  - split; [assumption|apply ext_refl].
  - split; [now apply cb_state_LI|apply cb_state_ext].
Qed.

(* ------------------------------------------------------------------ record_tags *)
Lemma ids_from_valid s p : valid_parents s (ids_from 0 p (rows s)).
Proof. apply Forall_forall. intros j H. apply ids_from_ge in H. lia. Qed.

Lemma find_id_lt s c ps i : find_id s c ps = Some i -> i < length (rows s).
Proof. intros H. apply find_from_lt in H. lia. Qed.

Definition rt_tags g (tags : list content) := if dedupe g then nodupc tags else tags.
Definition rt_parents g s e tags parents (update : bool) :=
  if update then parents ++ ids_from 0 (cur_match e (fun k _ => mem k (keys_of (rt_tags g tags)))) (rows s)
  else parents.
Definition rt_tags2 g s e tags parents update :=
  if skip_current g
  then filter (fun c => negb (current_elsewhere s c (rt_parents g s e tags parents update))) (rt_tags g tags)
  else rt_tags g tags.

Lemma record_tags_unfold g f s e tags parents update new :
  record_tags g (S f) s e tags parents update new =
  match tags with
  | [] => Done s
  | _ :: _ =>
    let ps := rt_parents g s e tags parents update in
    if update || new then
      let t2 := rt_tags2 g s e tags parents update in
      match go_sup (fun s' c i => record_tags g f s' e [c] [i] false true) s ps s (filter (is_sup s ps) t2) with
      | Done s1 => commit_batch s1 (filter (fun c => negb (is_sup s ps c)) t2) ps
      | o => o
      end
    else commit_batch s (rt_tags g tags) ps
  end.
Proof.
  destruct tags as [|c0 tags]; reflexivity.
Qed.

Lemma rt_parents_valid g s e tags parents update :
  valid_parents s parents -> valid_parents s (rt_parents g s e tags parents update).
Proof.
  intros V. unfold rt_parents. destruct update; [|assumption].
  apply Forall_app. split; [assumption|apply ids_from_valid].
Qed.

Lemma record_tags_LI g f : forall s e tags parents update new,
  LI s -> valid_parents s parents ->
  out_ok (fun s' => LI s' /\ ext s s') (record_tags g f s e tags parents update new).
Proof.
  induction f as [|f IH]; intros s e tags parents update new HL HV; [exact I|].
  rewrite record_tags_unfold. destruct tags as [|c0 tags0]; [simpl; split; [assumption|apply ext_refl]|].
  set (tags := c0 :: tags0) in *. cbv zeta.
  assert (HV' := rt_parents_valid g s e tags parents update HV).
  set (ps := rt_parents g s e tags parents update) in *.
  destruct (update || new).
  - set (l := filter (is_sup s ps) _).
    assert (forall s', LI s' -> ext s s' ->
              out_ok (fun s1 => LI s1 /\ ext s s1)
                     (go_sup (fun s' c i => record_tags g f s' e [c] [i] false true) s ps s' l)) as Hgo.
    { induction l as [|c l IHl]; intros s' L' E'; simpl; [tauto|].
      destruct (find_id s c ps) as [i|] eqn:Ei; [|now apply IHl].
      assert (valid_parents s' [i]) as Vi.
      { constructor; [|constructor]. apply find_id_lt in Ei. destruct E' as [LL _]. lia. }
      specialize (IH s' e [c] [i] false true L' Vi).
      destruct (record_tags g f s' e [c] [i] false true) as [s''| s''| s''|]; simpl in IH |- *; try exact I.
      - destruct IH as [L'' E'']. apply IHl; [assumption|]. eapply ext_trans; eassumption.
      - destruct IH as [L'' E'']. split; [assumption|]. eapply ext_trans; eassumption.
      - destruct IH as [L'' E'']. split; [assumption|]. eapply ext_trans; eassumption. }
    specialize (Hgo s HL (ext_refl s)).
    destruct (go_sup _ s ps s l) as [s1|s1|s1|]; simpl in Hgo |- *; try assumption.
    destruct Hgo as [L1 E1].
    assert (X := commit_batch_LI s1 (filter (fun c => negb (is_sup s ps c)) (rt_tags2 g s e tags parents update)) ps L1 (ext_valid _ _ _ E1 HV')).
    destruct (commit_batch s1 _ ps); simpl in X |- *; try exact I;
      (destruct X as [X1 X2]; split; [assumption|eapply ext_trans; eassumption]).
  - apply commit_batch_LI; assumption.
Qed.

(* ------------------------------------------------------------------ commands and histories *)
Lemma step_LI g s o : LI s -> out_ok (fun s' => LI s' /\ ext s s') (step g s o).
Proof.
  intros H. destruct o as [e tags|e tags|e pairs keys]; simpl.
  - apply record_tags_LI; [assumption|constructor].
  - apply record_tags_LI; [assumption|constructor].
  - destruct pairs, keys; simpl; try (split; [assumption|apply ext_refl]);
      (apply record_tags_LI; [assumption|apply ids_from_valid]).
Qed.

Lemma run_LI g ops : forall s s', LI s -> run g s ops = Some s' -> LI s'.
Proof.
  induction ops as [|o ops IH]; intros s s' H; simpl.
  - now intros [= <-].
  - assert (X := step_LI g s o H). destruct (step g s o) as [s1|s1|s1|]; simpl in X; try discriminate;
      intros R; apply (IH s1 s'); try assumption; apply X.
Qed.

(** the tag edit graph: an edge from a superseded tag to the tag that supersedes it *)
Definition edge (s : state) (p c : nat) : Prop := In (p, c) (edits s).
Inductive path (s : state) : nat -> nat -> Prop :=
  | path_one p c : edge s p c -> path s p c
  | path_cons p m c : edge s p m -> path s m c -> path s p c.
Definition acyclic (s : state) : Prop := forall x, ~ path s x x.

Lemma LI_edge_lt s p c : LI s -> edge s p c -> p < c.
Proof.
  intros [W E] H. destruct (E _ _ H) as [r [H1 H2]]. specialize (W _ _ H1).
  rewrite Forall_forall in W. now apply W.
Qed.

Lemma LI_acyclic s : LI s -> acyclic s.
Proof.
  intros H x P. assert (forall a b, path s a b -> a < b) as L.
  { induction 1 as [p c E|p m c E _ IH]; [now apply (LI_edge_lt s)|].
    apply (LI_edge_lt s) in E; [lia|assumption]. }
  apply L in P. lia.
Qed.

(* ------------------------------------------------------------------ fuel *)
Lemma filter_length_le' {A} (p : A -> bool) l : length (filter p l) <= length l.
Proof. induction l; simpl; [lia|]. destruct (p a); simpl; lia. Qed.

Lemma nodupc_acc_length seen l : length (nodupc_acc seen l) <= length l.
Proof.
  revert seen. induction l as [|c l IH]; intros seen; simpl; [lia|].
  destruct (memc c seen); simpl; [specialize (IH seen)|specialize (IH (c :: seen))]; lia.
Qed.

Lemma rt_tags_length g tags : length (rt_tags g tags) <= length tags.
Proof. unfold rt_tags. destruct (dedupe g); [apply nodupc_acc_length|lia]. Qed.

Lemma rt_tags2_length g s e tags parents update : length (rt_tags2 g s e tags parents update) <= length tags.
Proof.
  unfold rt_tags2. destruct (skip_current g).
  - etransitivity; [apply filter_length_le'|apply rt_tags_length].
  - apply rt_tags_length.
Qed.

Lemma rt_tags2_single g s e c parents update :
  rt_tags2 g s e [c] parents update = [c] \/ rt_tags2 g s e [c] parents update = [].
Proof.
  unfold rt_tags2, rt_tags. assert (nodupc [c] = [c]) as E by reflexivity.
  destruct (dedupe g), (skip_current g); rewrite ?E; simpl; try tauto;
    destruct (negb _); tauto.
Qed.

Lemma commit_batch_nil s ps : commit_batch s [] ps = Done s.
Proof. reflexivity. Qed.

Lemma commit_batch_length s cs ps :
  match commit_batch s cs ps with
  | OutOfFuel => False
  | Done s' | DbError s' | CliError s' => length (rows s') <= length (rows s) + length cs
  end.
Proof.
  destruct (commit_batch_cases s cs ps) as [-> | [-> | ->]]; try lia.
  simpl. rewrite inval_from_length. unfold cb_rows1. rewrite app_length, map_length.
  unfold cb_new_cs. assert (X := filter_length_le' (fun c => negb (exists_row s c ps)) cs). lia.
Qed.

Definition no_oof (bound : nat) (o : outcome) : Prop :=
  match o with
  | OutOfFuel => False
  | Done s' | DbError s' | CliError s' => length (rows s') <= bound
  end.

Lemma walk_fuel g f : forall s e c i,
  LI s -> i < length (rows s) -> length (rows s) - i + 1 <= f ->
  no_oof (length (rows s) + 1) (record_tags g f s e [c] [i] false true).
Proof.
  induction f as [|f IH]; intros s e c i HL Hi Hf; [lia|].
  rewrite record_tags_unfold. cbv zeta. unfold rt_parents. simpl orb. cbv iota.
  destruct (rt_tags2_single g s e c [i] false) as [-> | ->].
  - simpl filter. destruct (is_sup s [i] c) eqn:Es; simpl.
    + unfold is_sup in Es. destruct (find_id s c [i]) as [j|] eqn:Ej; [|discriminate].
      assert (Hj := find_id_lt _ _ _ _ Ej).
      unfold find_id in Ej. apply find_from_Some in Ej. destruct Ej as [n [r [-> [Hn [_ Hp]]]]]. simpl in *.
      destruct HL as [W E]. assert (X := W _ _ Hn). rewrite Hp in X. inversion X as [|? ? Hlt _]; subst.
      assert (HL : LI s) by (split; assumption).
      specialize (IH s e c n HL Hj ltac:(lia)).
      destruct (record_tags g f s e [c] [n] false true); simpl in IH |- *; try assumption.
    + assert (X := commit_batch_length s [c] [i]).
      destruct (commit_batch s [c] [i]); simpl in X |- *; try assumption.
  - simpl. lia.
Qed.

Lemma go_sup_fuel g f s e ps : forall l s' k,
  LI s' -> ext s s' -> length (rows s') <= length (rows s) + k ->
  length (rows s) + k + length l + 1 <= f ->
  match go_sup (fun s' c i => record_tags g f s' e [c] [i] false true) s ps s' l with
  | OutOfFuel => False
  | Done s1 => LI s1 /\ ext s s1
  | _ => True
  end.
Proof.
  induction l as [|c l IHl]; intros s' k HL HE Hk Hf; simpl; [tauto|].
  destruct (find_id s c ps) as [i|] eqn:Ei.
  - assert (Hi := find_id_lt _ _ _ _ Ei). destruct HE as [LL HE'].
    assert (X := walk_fuel g f s' e c i HL ltac:(lia) ltac:(simpl in Hf; lia)).
    assert (V : valid_parents s' [i]) by (constructor; [lia|constructor]).
    assert (Y := record_tags_LI g f s' e [c] [i] false true HL V).
    destruct (record_tags g f s' e [c] [i] false true) as [s''|s''|s''|]; simpl in X, Y |- *; try exact I; try assumption.
    destruct Y as [Y1 Y2]. apply (IHl s'' (S k)); try assumption.
    + eapply ext_trans; [split; eassumption|assumption].
    + lia.
    + simpl in Hf. lia.
  - apply (IHl s' k); try assumption. simpl in Hf. lia.
Qed.

Lemma record_tags_top_fuel g s e tags parents update new f :
  LI s -> valid_parents s parents -> length (rows s) + length tags + 2 <= f ->
  record_tags g (S f) s e tags parents update new <> OutOfFuel.
Proof.
  intros HL HV Hf. rewrite record_tags_unfold. destruct tags as [|c0 tags0]; [discriminate|].
  set (tags := c0 :: tags0) in *. cbv zeta.
  assert (commit_ok : forall s1 cs ps, commit_batch s1 cs ps <> OutOfFuel).
  { intros s1 cs ps. destruct (commit_batch_cases s1 cs ps) as [-> | [-> | ->]]; discriminate. }
  destruct (update || new); [|apply commit_ok].
  set (ps := rt_parents g s e tags parents update).
  set (t2 := rt_tags2 g s e tags parents update).
  assert (X := go_sup_fuel g f s e ps (filter (is_sup s ps) t2) s 0 HL (ext_refl s) ltac:(lia)).
  assert (length (filter (is_sup s ps) t2) <= length tags) as Hl.
  { etransitivity; [apply filter_length_le'|apply rt_tags2_length]. }
  specialize (X ltac:(lia)).
  destruct (go_sup _ s ps s _); try discriminate; [apply commit_ok|contradiction].
Qed.

Lemma step_no_oof g s o : LI s -> step g s o <> OutOfFuel.
Proof.
  intros HL. destruct o as [e tags|e tags|e pairs keys]; simpl; unfold fuel_for.
  - replace (length (rows s) + length tags + 3) with (S (length (rows s) + length tags + 2)) by lia.
    apply record_tags_top_fuel; [assumption|constructor|rewrite map_length; lia].
  - replace (length (rows s) + length tags + 3) with (S (length (rows s) + length tags + 2)) by lia.
    apply record_tags_top_fuel; [assumption|constructor|rewrite map_length; lia].
  - replace (length (rows s) + 1 + 3) with (S (length (rows s) + 1 + 2)) by lia.
    destruct pairs, keys; try discriminate;
      (apply record_tags_top_fuel; [assumption|apply ids_from_valid|simpl; lia]).
Qed.

Lemma run_total g ops : forall s, LI s -> exists s', run g s ops = Some s'.
Proof.
  induction ops as [|o ops IH]; intros s HL; simpl; [eauto|].
  assert (X := step_LI g s o HL). assert (Y := step_no_oof g s o HL).
  destruct (step g s o); simpl in X; try contradiction; apply IH; tauto.
Qed.

(** Note.  The stronger invariant of the reachable states ((E') every parent link is an edit,
    (C) a row is not current iff it is superseded) is proved in Proofs/TagsFull.v, and the
    refinement `current tags = key-value model`, command by command, in Proofs/TagsRefine.v:
      - `add`: the effective parents are [] at the top and [i] with i superseded in the walk, so no
        current row is invalidated; a candidate that exists and is not superseded is current by (C),
        a superseded one is walked to a leaf that is new or current, a missing one is inserted current;
      - `update`: the parents are the current rows of the given keys; if there are any, the candidate
        rows (content, parents) cannot exist (parents of existing rows are not current), so they are
        inserted and the parents invalidated;
      - `rm`: likewise with the single delete marker. *)
