(** The set of recorded call nodes of a complete execution is exactly the set of nodes of the root's
    call-node tree — so equal root nodes mean equal recorded graphs. *)
From Coq Require Import List ZArith Bool Arith Lia.
From RV Require Import Model.Timing Proofs.TimingBase Proofs.TimingSem Proofs.TimingStep Proofs.TimingInv.
Import ListNotations.
Open Scope list_scope.

Definition node_kids (n : cnode) : list cnode := match n with CN _ _ _ ks => ks end.

Lemma all_sub_self n : In n (all_sub n).
Proof. destruct n. simpl. auto. Qed.

Lemma all_sub_kid n k m : In k (node_kids n) -> In m (all_sub k) -> In m (all_sub n).
Proof. destruct n as [t a r ks]. simpl. intros Hk Hm. right. apply in_flat_map. eauto. Qed.

Lemma all_sub_trans : forall n m x, In m (all_sub n) -> In x (all_sub m) -> In x (all_sub n).
Proof.
  induction n as [t a r ks IH] using cnode_ind'. intros m x Hm Hx. simpl in Hm. destruct Hm as [<-|Hm]; auto.
  apply in_flat_map in Hm as (k & Hk & Hm). simpl. right. apply in_flat_map. exists k. split; auto.
  rewrite Forall_forall in IH. eapply IH; eauto.
Qed.

Lemma recorded_In s m : In m (recorded s) <-> exists j r, job_res s j = Some (r, m).
Proof.
  unfold recorded, job_res. split.
  - intro H. apply in_flat_map in H as (jb & Hj & Hm). apply In_nth_error in Hj as (j & Hj).
    exists j. rewrite Hj. destruct (st_res (j_st jb)) as [[r n]|]; simpl in Hm; try contradiction.
    destruct Hm as [<-|[]]. eauto.
  - intros (j & r & H). destruct (nth_error s j) as [jb|] eqn:Hj; try discriminate.
    apply in_flat_map. exists jb. split; [eapply nth_error_In; eauto|]. rewrite H. simpl. auto.
Qed.

Section Graph.
  Variable c : cfg.
  Variable body : nat -> list value -> expr.

  Record GInv (s : state) : Prop := {
    G_root : forall j jb, get s j = Some jb -> j_parent jb = None -> j = 0;
    G_parent : forall j jb p, get s j = Some jb -> j_parent jb = Some p ->
        p < j /\ exists pb, get s p = Some pb /\ has_kid (j_st pb) j;
    G_kids : forall j jb raw pre r n kids, get s j = Some jb -> j_st jb = SRes raw pre r n kids ->
        forall k, In k kids -> exists r' n', job_res s k = Some (r', n') /\ In n' (node_kids n);
    G_sub : forall j r n, job_res s j = Some (r, n) ->
        forall m, In m (all_sub n) -> exists j' r', job_res s j' = Some (r', m)
  }.

  Lemma GInv_init t0 args0 : GInv (init t0 args0).
  Proof.
    constructor.
    - intros [|[|j]] jb G; simpl in G; try discriminate. auto.
    - intros [|[|j]] jb p G; simpl in G; try discriminate. inversion G. subst. discriminate.
    - intros [|[|j]] jb raw pre r n kids G; simpl in G; try discriminate. inversion G. subst. discriminate.
    - intros [|[|j]] r n G; simpl in G; discriminate.
  Qed.

  Lemma job_res_mono s o s' j x : step_ok c body s o s' -> job_res s j = Some x -> job_res s' j = Some x.
  Proof.
    intros (_ & A & _). unfold job_res. destruct (nth_error s j) as [jb|] eqn:G; try discriminate. intro R.
    destruct (A _ _ G) as (jb' & G' & _ & [E|JS]).
    - unfold get in G'. rewrite G', E. auto.
    - apply jstep_res in JS. rewrite JS in R. discriminate.
  Qed.

  Lemma step_done_parent s j s' jb raw pre :
    step c body s (ODone j) = Some s' -> get s j = Some jb -> j_st jb = SRun raw pre ->
    exists jb', get s' j = Some jb' /\
      j_st jb' = SEval raw pre (post_e (j_task jb) pre (body (j_task jb) pre))
                       (seq (length s) (length (calls_of (post_e (j_task jb) pre (body (j_task jb) pre))))) [].
  Proof.
    simpl. unfold get. intros St G S. rewrite G, S in St. inversion St. subst s'. clear St.
    rewrite nth_error_app1.
    - fold (get (set_st s j (SEval raw pre (post_e (j_task jb) pre (body (j_task jb) pre))
                (seq (length s) (length (calls_of (post_e (j_task jb) pre (body (j_task jb) pre))))) [])) j).
      rewrite (get_set_st_same _ _ _ _ G). eexists. split; reflexivity.
    - rewrite set_st_length. apply nth_error_Some. congruence.
  Qed.

  Theorem GInv_step s o s' : GInv s -> step c body s o = Some s' -> GInv s'.
  Proof.
    intros I St0. pose proof (step_inv _ _ _ _ _ St0) as St. constructor.
    - (* only job 0 has no parent *)
      intros j jb' G P.
      destruct (job_origin _ _ _ _ _ _ _ St G) as [(jb & Gj & (P' & _ & _) & _)|(_ & NJ)].
      + eapply G_root; eauto. congruence.
      + destruct NJ as (j0 & jb0 & raw0 & pre0 & i & ca & _ & _ & _ & _ & _ & ->). discriminate.
    - (* parent links *)
      intros j jb' p G P.
      destruct (job_origin _ _ _ _ _ _ _ St G) as [(jb & Gj & (P' & _ & _) & _)|(Lj & NJ)].
      + rewrite <- P' in P. destruct (G_parent _ I _ _ _ Gj P) as (Lt & pb & Gp & HK). split; auto.
        destruct St as (_ & A & _). destruct (A _ _ Gp) as (pb' & Gp' & _ & [E|JS]).
        * exists pb'. rewrite E. auto.
        * exists pb'. split; auto. eapply jstep_has_kid; eauto.
      + destruct NJ as (j0 & jb0 & raw0 & pre0 & i & ca & -> & G0 & S0 & -> & N & ->). simpl in P.
        inversion P. subst p.
        assert (j0 < length s) by (apply nth_error_Some; unfold get in G0; congruence). split; [lia|].
        destruct (step_done_parent _ _ _ _ _ _ St0 G0 S0) as (jb' & G' & S').
        exists jb'. split; auto. rewrite S'. simpl. apply in_seq. split; [lia|].
        assert (i < length (calls_of (post_e (j_task jb0) pre0 (body (j_task jb0) pre0))))
          by (apply nth_error_Some; congruence). lia.
    - (* children of a resolved job *)
      intros j jb' raw pre r n kids G S k Hk.
      destruct (job_origin _ _ _ _ _ _ _ St G) as [(jb & Gj & _ & [E|JS])|(_ & NJ)].
      + rewrite E in S. destruct (G_kids _ I _ _ _ _ _ _ _ Gj S k Hk) as (r' & n' & JR & Hn).
        exists r', n'. split; auto. eapply job_res_mono; eauto.
      + inversion JS as [raw0 pre0 st1 Hst Hps Hen Heq
                        | raw0 pre0 e0 kids0 f0 f1 Hst Heq
                        | raw0 pre0 Hst Hnew Heq
                        | raw0 pre0 e0 kids0 f0 r0 rns0 Hst Hsu Hm Heq
                        | raw0 pre0 k0 r0 n0 Hst Hjr Heq]; rewrite S in *; try discriminate.
        * destruct Hen as [Hen|[Hen|(k' & Hen & _)]]; discriminate.
        * inversion Heq. subst. apply In_nth_error in Hk as (i & Hi).
          destruct (mapM_nth _ _ _ _ _ Hm Hi) as ([r' n'] & JR & Nr).
          exists r', n'. split; [eapply job_res_mono; eauto|]. simpl.
          apply in_map_iff. exists (r', n'). split; auto. eapply nth_error_In; eauto.
        * inversion Heq. subst. contradiction.
      + destruct NJ as (j0 & jb0 & raw0 & pre0 & i & ca & _ & _ & _ & _ & _ & ->). discriminate.
    - (* every node below a recorded node is recorded *)
      intros j r n JR m Hm.
      assert (Old : forall j0 r0 n0, job_res s j0 = Some (r0, n0) -> In m (all_sub n0) ->
                                      exists j' r', job_res s' j' = Some (r', m)).
      { intros j0 r0 n0 JR0 H0. destruct (G_sub _ I _ _ _ JR0 _ H0) as (j' & r' & JR').
        exists j', r'. eapply job_res_mono; eauto. }
      pose proof JR as JR'. apply job_res_SRes in JR' as (jb' & raw & pre & kids & G & S).
      destruct (job_origin _ _ _ _ _ _ _ St G) as [(jb & Gj & _ & [E|JS])|(_ & NJ)].
      + eapply (Old j r n); auto. unfold job_res. unfold get in Gj. rewrite Gj, <- E, S. reflexivity.
      + inversion JS as [raw0 pre0 st1 Hst Hps Hen Heq
                        | raw0 pre0 e0 kids0 f0 f1 Hst Heq
                        | raw0 pre0 Hst Hnew Heq
                        | raw0 pre0 e0 kids0 f0 r0 rns0 Hst Hsu Hm' Heq
                        | raw0 pre0 k0 r0 n0 Hst Hjr Heq]; rewrite S in *; try discriminate.
        * destruct Hen as [Hen|[Hen|(k' & Hen & _)]]; discriminate.
        * inversion Heq. subst. simpl in Hm. destruct Hm as [<-|Hm]; [eauto|].
          apply in_flat_map in Hm as (nk & Hnk & Hm). apply in_map_iff in Hnk as ([rk nk'] & <- & Hin).
          apply In_nth_error in Hin as (i & Hi).
          assert (Lk : i < length kids).
          { rewrite <- (mapM_length _ _ _ Hm'). apply nth_error_Some. congruence. }
          destruct (nth_error kids i) as [k|] eqn:Nk; [|apply nth_error_None in Nk; lia].
          destruct (mapM_nth _ _ _ _ _ Hm' Nk) as (y & JRk & Ny). rewrite Hi in Ny. inversion Ny. subst y.
          eapply Old; eauto.
        * inversion Heq. subst. eapply Old; eauto.
      + destruct NJ as (j0 & jb0 & raw0 & pre0 & i & ca & _ & _ & _ & _ & _ & ->). discriminate.
  Qed.

  Lemma GInv_run ops : forall s s', GInv s -> run c body s ops = Some s' -> GInv s'.
  Proof.
    induction ops as [|o r IH]; intros s s' I R; simpl in *.
    - inversion R. now subst.
    - destruct (step c body s o) as [s1|] eqn:St; try discriminate. eapply IH; [|exact R]. eapply GInv_step; eauto.
  Qed.

  (** In a complete execution every job is resolved and its node lies in the root's tree. *)
  Lemma all_below_root s r n :
    GInv s -> outcome s = Some (r, n) ->
    forall j jb, get s j = Some jb -> exists rj nj, job_res s j = Some (rj, nj) /\ In nj (all_sub n).
  Proof.
    intros I O. induction j as [j IH] using lt_wf_ind. intros jb G.
    destruct (j_parent jb) as [p|] eqn:P.
    - destruct (G_parent _ I _ _ _ G P) as (Lt & pb & Gp & HK).
      destruct (IH p Lt pb Gp) as (rp & np & JRp & Hp).
      pose proof JRp as JR'. apply job_res_SRes in JR' as (pb' & raw & pre & kids & Gp' & Sp).
      rewrite Gp in Gp'. inversion Gp'. subst pb'. rewrite Sp in HK. simpl in HK.
      destruct (G_kids _ I _ _ _ _ _ _ _ Gp Sp j HK) as (r' & n' & JR & Hn).
      exists r', n'. split; auto. eapply all_sub_trans; eauto. eapply all_sub_kid; eauto. apply all_sub_self.
    - assert (j = 0) by (eapply G_root; eauto). subst. exists r, n. split; auto. apply all_sub_self.
  Qed.

  Theorem recorded_is_root_tree ops t0 args0 s r n :
    run c body (init t0 args0) ops = Some s -> outcome s = Some (r, n) ->
    forall m, In m (recorded s) <-> In m (all_sub n).
  Proof.
    intros R O m.
    assert (I : GInv s) by (eapply GInv_run; eauto; apply GInv_init).
    split.
    - intro H. apply recorded_In in H as (j & rj & JR).
      pose proof JR as JR'. apply job_res_SRes in JR' as (jb & raw & pre & kids & G & S).
      destruct (all_below_root _ _ _ I O _ _ G) as (rj' & nj & JR2 & Hn). rewrite JR in JR2. inversion JR2. now subst.
    - intro H. apply recorded_In. eapply G_sub; eauto.
  Qed.
End Graph.
