From Coq Require Import List ZArith Bool Arith Lia.
From RV Require Import Model.JobMachine Proofs.JobBase Proofs.JobOnce Proofs.JobOnce3 Proofs.JobDry.
Import ListNotations.
Open Scope list_scope.

Section D.
Variable c : config.
Hypothesis Hdry : dryrun c = true.
Hypothesis Hfix : release_if_holds (vr c) = true.

Lemma hframe_setj s j x y : getj s j = Some x -> jholds y = jholds x -> hframe s (setj s j y).
Proof. intros Hx Hy. unfold hframe. simpl. unfold getj in Hx. eapply map_set_nth_same; eauto. Qed.

Lemma hframe_trans s1 s2 s3 : hframe s1 s2 -> hframe s2 s3 -> hframe s1 s3.
Proof. unfold hframe. congruence. Qed.

Lemma hframe_settle_one s j o : hframe s (settle_one c s j o).
Proof.
  unfold settle_one. destruct (getj s j) as [x|] eqn:Hx; [|reflexivity].
  set (s1 := if jprov x then add_recorded s (jkey x, jctx x) o else s).
  assert (Hx1 : getj s1 j = Some x) by (unfold s1; destruct (jprov x); exact Hx).
  unfold finalize. rewrite (getj_setj_same _ _ _ _ Hx1). unfold hframe. simpl.
  transitivity (map jholds (jobs s1)).
  - unfold getj in Hx1. eapply map_set_nth_same; [exact Hx1|reflexivity].
  - unfold s1. destruct (jprov x); reflexivity.
Qed.

Lemma hframe_notify o s sub : hframe s (notify_sub c o s sub).
Proof.
  unfold notify_sub. destruct (getj s sub) as [y|] eqn:Hy; [|reflexivity]. destruct o as [v|e].
  - exact (hframe_setj s sub y (mark_cached y (Some v) PCacheQ) Hy eq_refl).
  - eapply hframe_trans; [apply (hframe_setj s sub y (mark_cached y None (jphase y)) Hy eq_refl)|apply hframe_settle_one].
Qed.

Lemma hframe_settle s j o : hframe s (settle c s j o).
Proof.
  unfold settle. destruct (getj s j); [|reflexivity].
  eapply hframe_trans; [apply (hframe_settle_one s j o)|].
  generalize (map snd (filter (fun p : nat * nat => Nat.eqb (fst p) j) (subs (settle_one c s j o)))).
  generalize (settle_one c s j o). intros s0 l. revert s0.
  induction l as [|a l IH]; intros s0; simpl; [reflexivity|].
  eapply hframe_trans; [apply (hframe_notify o s0 a)|apply IH].
Qed.

Lemma dry_step s o : Dry s /\ NoHold s -> Dry (step c s o) /\ NoHold (step c s o).
Proof.
  intros [D N]. destruct o as [key ctx l nocse prov bad|k j0 co|j ok e|j o].
  - cbn [step]. set (nj := new_job key ctx l nocse prov bad).
    assert (Hg : forall k z, nth_error (jobs s ++ [nj]) k = Some z -> z = nj \/ getj s k = Some z).
    { intros k z. unfold getj. destruct (Nat.lt_ge_cases k (length (jobs s))) as [Hlt|Hge].
      - rewrite nth_error_app1 by assumption. auto.
      - rewrite nth_error_app2 by assumption. destruct (k - length (jobs s)) as [|n]; simpl.
        + intros [= <-]. now left.
        + destruct n; discriminate. }
    destruct D as [a1 a2 a3]. split.
    + constructor; auto. intros k z Hz. destruct (Hg _ _ Hz) as [->|Hz']; [reflexivity|eauto].
    + intros k z Hz. destruct (Hg _ _ Hz) as [->|Hz']; [reflexivity|eauto].
  - cbn [step]. destruct (nth_error (queue s) _) as [[j|j|j e|j v]|]; auto.
    + destruct (dry_exec_job c Hdry (pop_queue s (find_event (queue s) k j0 0)) j co) as [F1 F2].
      split; [eapply Dry_dframe; [exact F1|]; eapply Dry_dframe; [|exact D]; repeat split
             |eapply NoHold_hframe; [exact F2|exact N]].
    + unfold done_job. set (s0 := pop_queue s (find_event (queue s) k j0 0)).
      rewrite (maybe_release_noop c Hfix s0 j (N : NoHold s0)).
      assert (D0 : Dry s0) by (eapply Dry_dframe; [|exact D]; repeat split).
      assert (N0 : NoHold s0) by exact N.
      destruct (getj s0 j) as [x|] eqn:Hx; auto. destruct (jpreset x).
      * split.
        -- eapply Dry_dframe; [|exact D0].
           eapply dframe_trans; [apply (dframe_setj s0 j x (with_phase x PEvalQ) Hx eq_refl)|repeat split].
        -- eapply NoHold_hframe; [|exact N0]. exact (hframe_setj s0 j x (with_phase x PEvalQ) Hx eq_refl).
      * split.
        -- eapply Dry_dframe; [|exact D0]. apply (dframe_setj s0 j x (with_phase x PEvaluating) Hx eq_refl).
        -- eapply NoHold_hframe; [|exact N0]. exact (hframe_setj s0 j x (with_phase x PEvaluating) Hx eq_refl).
    + unfold reject_job. set (s0 := pop_queue s (find_event (queue s) k j0 0)).
      rewrite (maybe_release_noop c Hfix s0 j (N : NoHold s0)). split.
      * eapply Dry_dframe; [apply dframe_settle|]. eapply Dry_dframe; [|exact D]. repeat split.
      * eapply NoHold_hframe; [apply hframe_settle|]. exact N.
    + unfold resolve_job. split.
      * eapply Dry_dframe; [apply dframe_settle|]. eapply Dry_dframe; [|exact D]. repeat split.
      * eapply NoHold_hframe; [apply hframe_settle|]. exact N.
  - cbn [step]. destruct (phase_is s j _); auto. destruct (getj s j) as [x|] eqn:Hx; auto. split.
    + eapply Dry_dframe; [|exact D].
      eapply dframe_trans; [apply (dframe_setj s j x (with_phase x PReported) Hx eq_refl)|repeat split].
    + eapply NoHold_hframe; [|exact N]. exact (hframe_setj s j x (with_phase x PReported) Hx eq_refl).
  - cbn [step]. destruct (phase_is s j _); auto. destruct (getj s j) as [x|] eqn:Hx; auto. split.
    + eapply Dry_dframe; [|exact D].
      eapply dframe_trans; [apply (dframe_setj s j x (with_phase x PEvalQ) Hx eq_refl)|repeat split].
    + eapply NoHold_hframe; [|exact N]. exact (hframe_setj s j x (with_phase x PEvalQ) Hx eq_refl).
Qed.

Theorem dry_run_from s ops : Dry s /\ NoHold s -> Dry (fold_left (step c) ops s) /\ NoHold (fold_left (step c) ops s).
Proof. revert s. induction ops as [|o ops IH]; intros s H; simpl; auto. apply IH. now apply dry_step. Qed.

Theorem dry_run ops : Dry (run c ops) /\ NoHold (run c ops).
Proof.
  apply dry_run_from. split.
  - constructor; auto. intros j x. unfold getj. simpl. destruct j; discriminate.
  - intros j x. unfold getj. simpl. destruct j; discriminate.
Qed.

(** * Agreement with the real run until the first job that would be executed *)
Definition clean (s : state) : Prop :=
  forall j x, getj s j = Some x -> jphase x <> PDryStop /\ jbadexec x = false.

Lemma split_ready_real s w : forall lim, split_ready (real_of c) s w lim = split_ready c s w lim.
Proof.
  induction w as [|k w IH]; intros lim; simpl; auto. destruct (getj s k) as [x|]; auto.
  change (within (real_of c) (used s) (add_limits (jlimits x) lim)) with (within c (used s) (add_limits (jlimits x) lim)).
  destruct (within c (used s) (add_limits (jlimits x) lim)); rewrite IH; reflexivity.
Qed.

Lemma check_pending_real s : check_pending_limits (real_of c) s = check_pending_limits c s.
Proof. unfold check_pending_limits. now rewrite split_ready_real. Qed.

Lemma skip_real s : skip_wakeup (real_of c) s = skip_wakeup c s.
Proof. unfold skip_wakeup. cbn [vr real_of]. now rewrite check_pending_real. Qed.

Lemma maybe_release_real s j : maybe_release (real_of c) s j = maybe_release c s j.
Proof.
  unfold maybe_release. destruct (getj s j) as [x|]; auto. cbn [vr real_of].
  destruct (if release_if_holds (vr c) then jholds x else negb (jcached x)); auto. apply check_pending_real.
Qed.

Lemma exec_agree s j co :
  exec_job c s j co = exec_job (real_of c) s j co \/
  (exists x, getj s j = Some x /\
     (jbadexec x = true \/ getj (exec_job c s j co) j = Some (with_phase x PDryStop))).
Proof.
  unfold exec_job. destruct (getj s j) as [x|] eqn:Hx; [|left; reflexivity].
  change (cse_eff (real_of c) s (jkey x) (jctx x)) with (cse_eff c s (jkey x) (jctx x)).
  destruct (if jnocse x then None else lookup_pending s (jkey x, jctx x)) as [t|]; [left; now rewrite skip_real|].
  match goal with |- (match ?h with _ => _ end) = _ \/ _ => destruct h as [[v|e]|] end; [left; now rewrite skip_real|left; now rewrite skip_real|].
  right. exists x. split; auto. rewrite Hdry. destruct (jbadexec x); [now left|right].
  apply (getj_setj_same _ _ _ _ Hx).
Qed.

Lemma step_agree s o :
  step c s o = step (real_of c) s o \/
  (exists j x, getj s j = Some x /\ (jbadexec x = true \/ getj (step c s o) j = Some (with_phase x PDryStop))).
Proof.
  destruct o as [key ctx l nocse prov bad|k j0 co|j ok e|j o]; try (left; reflexivity).
  cbn [step]. destruct (nth_error (queue s) _) as [[j|j|j e|j v]|]; try (left; reflexivity).
  2:{ left. unfold done_job. now rewrite maybe_release_real. }
  2:{ left. unfold reject_job. now rewrite maybe_release_real. }
  destruct (exec_agree (pop_queue s (find_event (queue s) k j0 0)) j co) as [E|(x & Hx & H)]; [now left|].
  right. exists j, x. auto.
Qed.

Theorem dry_agrees_from ops : forall s,
  (forall n, clean (fold_left (step c) (firstn n ops) s)) ->
  fold_left (step (real_of c)) ops s = fold_left (step c) ops s.
Proof.
  induction ops as [|o ops IH]; intros s H; simpl; auto.
  destruct (step_agree s o) as [E|(j & x & Hx & [Hb|Hd])].
  - rewrite <- E. apply IH. intros n. apply (H (S n)).
  - exfalso. destruct (H 0 j x Hx) as [_ B]. congruence.
  - exfalso. destruct (H 1 j _ Hd) as [A _]. apply A. reflexivity.
Qed.

Theorem dry_agrees ops :
  (forall n, clean (run c (firstn n ops))) -> run (real_of c) ops = run c ops.
Proof. intros H. unfold run. apply dry_agrees_from. exact H. Qed.

(** the first job the dry run stops at is handed to an executor by the real run *)
Lemma within_zero s l : (forall r, used s r = 0%Z) -> within c (fun _ => 0%Z) l = true -> within (real_of c) (used s) l = true.
Proof.
  intros H F. unfold within in *. rewrite forallb_forall in *. intros p Hp. specialize (F p Hp).
  simpl. rewrite H. exact F.
Qed.

Definition miss_branch (s : state) (x : job) (co : cache_outcome) : Prop :=
  (if jnocse x then None else lookup_pending s (jkey x, jctx x)) = None /\
  (jnocse x = true \/ (cse_eff c s (jkey x) (jctx x) = None /\ co = CMiss)).

Theorem dry_stop_means_work s j co x :
  Dry s -> getj s j = Some x -> jbadexec x = false -> within c (fun _ => 0%Z) (jlimits x) = true ->
  miss_branch s x co ->
  getj (exec_job c s j co) j = Some (with_phase x PDryStop) /\
  exists y, getj (exec_job (real_of c) s j co) j = Some y /\ jsubmits y = S (jsubmits x) /\ jphase y = PSubmitted.
Proof.
  intros D Hx Hb Hf [Ht Hh]. unfold exec_job. rewrite Hx, Ht.
  assert (Hhit : (if jnocse x then None
                  else match cse_eff c s (jkey x) (jctx x) with
                       | Some (Ok v) => Some (inl (Some v)) | Some (Ko e) => Some (inr e)
                       | None => match co with CMiss => None | CHitFinal v => Some (inl (Some v)) | CHitExpr => Some (inl None) end
                       end) = (None : option (option Z + Z))).
  { destruct Hh as [->|[-> ->]]; [reflexivity|]. destruct (jnocse x); reflexivity. }
  change (cse_eff (real_of c) s (jkey x) (jctx x)) with (cse_eff c s (jkey x) (jctx x)).
  rewrite Hhit, Hdry, Hb. split; [apply (getj_setj_same _ _ _ _ Hx)|].
  cbn [dryrun real_of]. rewrite (within_zero s (jlimits x) (d_used _ D) Hf). cbn [negb].
  exists (mark_submitted (mark_holds x PSubmitted)). split; [|split; reflexivity].
  unfold getj. simpl. unfold getj in Hx. apply (nth_error_set_nth_same _ _ _ _ Hx).
Qed.
End D.
