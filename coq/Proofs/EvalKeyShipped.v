(** The key as shipped: where it coincides with the repaired key, and concrete calls on which
    it violates the property. *)
From Coq Require Import List ZArith Ascii Bool Arith Permutation Lia.
From Coq Require String.
From RV Require Import Base.Decimal Model.Bencode Base.HashSpec Proofs.BencodeFacts Proofs.BencodeSort
     Model.EvalKey Proofs.EvalKeyBase Proofs.EvalKeyDict Proofs.EvalKeyFixed Proofs.EvalKeyInv.
Import ListNotations.
Open Scope list_scope.

(** * Simple calls: no *var parameter, config_args name ordinary parameters only, no JobInfo
      passed positionally.  On these the shipped code computes the repaired key. *)
Definition simple_call (sg : sigt) (conf : list bytes) (c : call) : Prop :=
  s_var sg = None /\
  (forall x, In x conf -> In x (named_names sg)) /\
  opt_mem (s_varkw sg) conf = false /\
  length (c_args c) <= length (s_pos sg) /\
  Forall (fun a => is_info a = false) (c_args c).

Lemma zip_args_noinfo m m' b b' conf : forall ps args,
  Forall (fun a => is_info a = false) args ->
  zip_args m b conf ps args = zip_args m' b' conf ps args.
Proof.
  induction ps as [|p ps IH]; intros args F; [reflexivity|]. destruct args as [|a args]; [reflexivity|].
  inversion F; subst. simpl. rewrite (IH args H2). destruct a; [reflexivity|discriminate].
Qed.

Lemma zip_args_app_short m b conf qs : forall ps args, length args <= length ps ->
  zip_args m b conf (ps ++ qs) args = zip_args m b conf ps args.
Proof.
  induction ps as [|p ps IH]; intros args L.
  - destruct args; [|simpl in L; lia]. now destruct qs.
  - destruct args as [|a args]; [reflexivity|]. simpl. rewrite IH; [reflexivity|]. simpl in L. lia.
Qed.

Lemma defaults_shipped_fixed sg c : NoDup (all_names sg) -> length (c_args c) <= length (s_pos sg) ->
  defaults shipped sg c = defaults fixed sg c.
Proof.
  intros N L. unfold defaults, params. cbn [defaults_pairing shipped fixed].
  assert (Np : NoDup (map fst (s_pos sg))).
  { rewrite all_names_eq in N. now apply NoDup_app_l in N. }
  rewrite (defaults_from_app PairAllParams), (defaults_from_app PairPositional).
  rewrite !(defaults_from_pos _ _ _ _ 0 Np). f_equal.
  apply defaults_from_indep. rewrite map_length. lia.
Qed.

Theorem shipped_simple_eq_fixed blank blank' sg conf c :
  NoDup (all_names sg) -> simple_call sg conf c ->
  call_args_struct shipped blank sg conf c = call_args_struct fixed blank' sg conf c.
Proof.
  intros N [V [Cn [Ck [L F]]]]. unfold call_args_struct, merged_kwargs.
  rewrite (defaults_shipped_fixed _ _ N L).
  change (args_struct shipped) with (args_struct fixed). f_equal.
  - unfold args2. cbn [pair_names args_pairing zip_info extras_info shipped fixed].
    rewrite V. simpl opt_mem. cbv iota.
    rewrite !skipn_short, all_names_eq; cycle 1.
    { unfold pos_names. rewrite map_length. lia. }
    { rewrite all_names_eq, app_length. unfold pos_names. rewrite map_length. lia. }
    simpl. rewrite !app_nil_r.
    rewrite zip_args_app_short by (unfold pos_names; rewrite map_length; lia).
    now apply zip_args_noinfo.
  - unfold kwargs2. apply flat_map_ext. intros [k a]. cbn [fst snd kw_param kwargs_by shipped fixed].
    unfold bound_kw_param. destruct (mem k (named_names sg)) eqn:M; [reflexivity|].
    rewrite Ck. simpl.
    assert (E : mem k conf = false).
    { apply mem_false. intros Hin. apply mem_false in M. auto. }
    now rewrite E.
Qed.

(** a hash that differs from every value hash in a list (used only to instantiate [blank]) *)
Definition fresh (l : list aval) : bytes :=
  repeat "a"%char (S (list_max (map (fun a => length (match a with AVal h | AInfo h => h end)) l))).

Lemma fresh_ok l l' : incl l' l -> Forall (blank_ok (fresh l)) l'.
Proof.
  intros I. apply Forall_forall. intros a Hin. apply I in Hin. destruct a; simpl; auto.
  intros E. assert (Len : length h = length (fresh l)) by now rewrite E.
  unfold fresh in Len. rewrite repeat_length in Len.
  assert (X : length h <= list_max (map (fun a => length (match a with AVal h | AInfo h => h end)) l)).
  { assert (Y := proj1 (list_max_le (map (fun a => length (match a with AVal h | AInfo h => h end)) l) _) (le_n _)).
    rewrite Forall_forall in Y.
    apply Y. change (length h) with ((fun a => length (match a with AVal h | AInfo h => h end)) (AVal h)).
    now apply in_map. }
  lia.
Qed.

Section Key.
  Variable H : bytes -> bytes.
  Hypothesis H_inj : forall a b, H a = H b -> a = b.

  Theorem shipped_simple_sensitive blank sg conf th th' c c' :
    NoDup (all_names sg) ->
    NoDup (map fst (c_kwargs c)) -> NoDup (map fst (c_kwargs c')) ->
    simple_call sg conf c -> simple_call sg conf c' ->
    call_eval_hash H shipped blank sg conf th c = call_eval_hash H shipped blank sg conf th' c' ->
    th = th' /\ forall s, arg_hash sg conf c s = arg_hash sg conf c' s.
  Proof.
    intros N Nk Nk' S S' E.
    set (b := fresh (c_args c ++ c_args c')).
    apply (fixed_key_determines H H_inj b sg conf th th' c c'); auto.
    - apply fresh_ok. apply incl_appl, incl_refl.
    - apply fresh_ok. apply incl_appr, incl_refl.
    - unfold call_eval_hash, call_args_hash, call_args_pre in *.
      now rewrite <- (shipped_simple_eq_fixed blank b sg conf c N S),
                  <- (shipped_simple_eq_fixed blank b sg conf c' N S').
  Qed.
End Key.

(** * Witnesses (evaluated by the kernel) *)
Import String.
Local Open Scope list_scope.
Definition nm (s : String.string) : bytes := String.list_ascii_of_string s.
Definition hv (s : String.string) : aval := AVal (nm s).
Arguments nm s%string_scope.
Arguments hv s%string_scope.

(** f(a, *rest, cfg=None), config_args=["cfg"]:  f(1,2,3) and f(1,2,4) *)
Definition w1_sig : sigt :=
  {| s_pos := [(nm "a", None)]; s_var := Some (nm "rest"); s_kwonly := [(nm "cfg", Some (hv "hNone"))]; s_varkw := None |}.
Definition w1_c : call := {| c_args := [hv "h1"; hv "h2"; hv "h3"]; c_kwargs := [] |}.
Definition w1_c' : call := {| c_args := [hv "h1"; hv "h2"; hv "h4"]; c_kwargs := [] |}.

Theorem shipped_sensitive_refuted :
  sig_ok w1_sig = true /\ bind_ok w1_sig w1_c = true /\ bind_ok w1_sig w1_c' = true /\
  arg_hash w1_sig [nm "cfg"] w1_c (SExtra 1) <> arg_hash w1_sig [nm "cfg"] w1_c' (SExtra 1) /\
  forall H blank th,
    call_eval_hash H shipped blank w1_sig [nm "cfg"] th w1_c = call_eval_hash H shipped blank w1_sig [nm "cfg"] th w1_c'.
Proof.
  repeat (match goal with |- _ /\ _ => split end);try (vm_compute; reflexivity); try (vm_compute; discriminate).
  all: intros H blank th; apply struct_eq_hash_eq; vm_compute; reflexivity.
Qed.

(** g(a, *rest, k=5):  g(1,2,3) and g(1,2,3,k=5) *)
Definition w2_sig : sigt :=
  {| s_pos := [(nm "a", None)]; s_var := Some (nm "rest"); s_kwonly := [(nm "k", Some (hv "h5"))]; s_varkw := None |}.
Definition w2_c : call := {| c_args := [hv "h1"; hv "h2"; hv "h3"]; c_kwargs := [] |}.

Theorem shipped_default_refuted :
  sig_ok w2_sig = true /\ bind_ok w2_sig w2_c = true /\
  assoc (nm "k") (named_params w2_sig) = Some (Some (hv "h5")) /\
  pos_bound w2_sig (List.length (c_args w2_c)) (nm "k") = false /\
  ~ In (nm "k") (map fst (c_kwargs w2_c)) /\
  forall H, (forall a b, H a = H b -> a = b) -> forall blank th,
    call_eval_hash H shipped blank w2_sig [] th w2_c <>
    call_eval_hash H shipped blank w2_sig [] th
      {| c_args := c_args w2_c; c_kwargs := c_kwargs w2_c ++ [(nm "k", hv "h5")] |}.
Proof.
  repeat (match goal with |- _ /\ _ => split end);try (vm_compute; reflexivity); try (simpl; tauto).
  intros H Hinj blank th E. apply (eval_hash_inj H Hinj) in E; [|reflexivity].
  destruct E as [_ E]. vm_compute in E. discriminate E.
Qed.

(** h( *rest, b=0), config_args=["rest"]:  h(1,2,3) and h(1,5,3) *)
Definition w3_sig : sigt :=
  {| s_pos := []; s_var := Some (nm "rest"); s_kwonly := [(nm "b", Some (hv "h0"))]; s_varkw := None |}.
Definition w3_c : call := {| c_args := [hv "h1"; hv "h2"; hv "h3"]; c_kwargs := [] |}.
Definition w3_c' : call := {| c_args := [hv "h1"; hv "h5"; hv "h3"]; c_kwargs := [] |}.

Lemma sim3 (P : nat -> aval -> aval -> Prop) (a b c a' b' c' : aval) :
  P 0 a a' -> P 1 b b' -> P 2 c c' ->
  forall i x x', nth_error [a; b; c] i = Some x -> nth_error [a'; b'; c'] i = Some x' -> P i x x'.
Proof.
  intros P0 P1 P2 i x x'. destruct i as [|[|[|i]]]; simpl; try (intros [= <-] [= <-]; assumption).
  destruct i; discriminate.
Qed.

Theorem shipped_config_refuted :
  sig_ok w3_sig = true /\ bind_ok w3_sig w3_c = true /\ bind_ok w3_sig w3_c' = true /\
  calls_sim w3_sig [nm "rest"] w3_c w3_c' /\
  forall H, (forall a b, H a = H b -> a = b) -> forall blank th,
    call_eval_hash H shipped blank w3_sig [nm "rest"] th w3_c <>
    call_eval_hash H shipped blank w3_sig [nm "rest"] th w3_c'.
Proof.
  unfold calls_sim. repeat (match goal with |- _ /\ _ => split end); try (vm_compute; reflexivity).
  - apply sim3; right; right; reflexivity.
  - constructor.
  - intros H Hinj blank th E. apply (eval_hash_inj H Hinj) in E; [|reflexivity].
    destruct E as [_ E]. vm_compute in E. discriminate E.
Qed.

(** p(x, y):  p(JobInfo(), 1) and p(1, JobInfo()) *)
Definition w4_sig : sigt := {| s_pos := [(nm "x", None); (nm "y", None)]; s_var := None; s_kwonly := []; s_varkw := None |}.
Definition w4_c : call := {| c_args := [AInfo (nm "j"); hv "h1"]; c_kwargs := [] |}.
Definition w4_c' : call := {| c_args := [hv "h1"; AInfo (nm "j")]; c_kwargs := [] |}.

Theorem shipped_placeholder_shift_refuted :
  sig_ok w4_sig = true /\ bind_ok w4_sig w4_c = true /\ bind_ok w4_sig w4_c' = true /\
  arg_hash w4_sig [] w4_c (SNamed (nm "x")) <> arg_hash w4_sig [] w4_c' (SNamed (nm "x")) /\
  forall H blank th,
    call_eval_hash H shipped blank w4_sig [] th w4_c = call_eval_hash H shipped blank w4_sig [] th w4_c'.
Proof.
  repeat (match goal with |- _ /\ _ => split end);try (vm_compute; reflexivity); try (vm_compute; discriminate).
  all: intros H blank th; apply struct_eq_hash_eq; vm_compute; reflexivity.
Qed.

(** q(a, *rest):  q(1, 2, JobInfo(..)) with two different JobInfo objects *)
Definition w5_sig : sigt := {| s_pos := [(nm "a", None)]; s_var := Some (nm "rest"); s_kwonly := []; s_varkw := None |}.
Definition w5_c : call := {| c_args := [hv "h1"; hv "h2"; AInfo (nm "j1")]; c_kwargs := [] |}.
Definition w5_c' : call := {| c_args := [hv "h1"; hv "h2"; AInfo (nm "j2")]; c_kwargs := [] |}.

Theorem shipped_placeholder_extras_refuted :
  sig_ok w5_sig = true /\ bind_ok w5_sig w5_c = true /\ bind_ok w5_sig w5_c' = true /\
  calls_sim w5_sig [] w5_c w5_c' /\
  forall H, (forall a b, H a = H b -> a = b) -> forall blank th,
    call_eval_hash H shipped blank w5_sig [] th w5_c <> call_eval_hash H shipped blank w5_sig [] th w5_c'.
Proof.
  unfold calls_sim. repeat (match goal with |- _ /\ _ => split end); try (vm_compute; reflexivity).
  - apply sim3; [left; reflexivity|left; reflexivity|right; left; split; reflexivity].
  - constructor.
  - intros H Hinj blank th E. apply (eval_hash_inj H Hinj) in E; [|reflexivity].
    destruct E as [_ E]. vm_compute in E. discriminate E.
Qed.

(** r(a, **kw), config_args=["kw"]:  r(1, x=2) and r(1, x=3) *)
Definition w6_sig : sigt := {| s_pos := [(nm "a", None)]; s_var := None; s_kwonly := []; s_varkw := Some (nm "kw") |}.
Definition w6_c : call := {| c_args := [hv "h1"]; c_kwargs := [(nm "x", hv "h2")] |}.
Definition w6_c' : call := {| c_args := [hv "h1"]; c_kwargs := [(nm "x", hv "h3")] |}.

Theorem shipped_config_varkw_refuted :
  sig_ok w6_sig = true /\ bind_ok w6_sig w6_c = true /\ bind_ok w6_sig w6_c' = true /\
  calls_sim w6_sig [nm "kw"] w6_c w6_c' /\
  forall H, (forall a b, H a = H b -> a = b) -> forall blank th,
    call_eval_hash H shipped blank w6_sig [nm "kw"] th w6_c <>
    call_eval_hash H shipped blank w6_sig [nm "kw"] th w6_c'.
Proof.
  unfold calls_sim. repeat (match goal with |- _ /\ _ => split end); try (vm_compute; reflexivity).
  - intros i x x'. destruct i as [|i]; simpl; [intros [= <-] [= <-]; left; reflexivity|destruct i; discriminate].
  - constructor; [|constructor]. split; [reflexivity|]. right; right. reflexivity.
  - intros H Hinj blank th E. apply (eval_hash_inj H Hinj) in E; [|reflexivity].
    destruct E as [_ E]. vm_compute in E. discriminate E.
Qed.

(** the repaired key separates / identifies the same witnesses (non-vacuity of the fixed theorems) *)
Example fixed_on_witnesses :
  (call_args_struct fixed (nm "blank") w1_sig [nm "cfg"] w1_c <> call_args_struct fixed (nm "blank") w1_sig [nm "cfg"] w1_c') /\
  (call_args_struct fixed (nm "blank") w2_sig [] w2_c =
   call_args_struct fixed (nm "blank") w2_sig [] {| c_args := c_args w2_c; c_kwargs := [(nm "k", hv "h5")] |}) /\
  (call_args_struct fixed (nm "blank") w3_sig [nm "rest"] w3_c = call_args_struct fixed (nm "blank") w3_sig [nm "rest"] w3_c') /\
  (call_args_struct fixed (nm "blank") w4_sig [] w4_c <> call_args_struct fixed (nm "blank") w4_sig [] w4_c') /\
  (call_args_struct fixed (nm "blank") w5_sig [] w5_c = call_args_struct fixed (nm "blank") w5_sig [] w5_c') /\
  (call_args_struct fixed (nm "blank") w6_sig [nm "kw"] w6_c = call_args_struct fixed (nm "blank") w6_sig [nm "kw"] w6_c').
Proof.
  repeat (match goal with |- _ /\ _ => split end);try (vm_compute; reflexivity); vm_compute; discriminate.
Qed.
