(** C23 — what a transfer does to the destination: new records arrive in canonical form,
    existing ones are untouched, nothing else is added, a repeat is a no-op, tag status. *)
From Coq Require Import List NArith Bool Arith Lia Permutation.
From RV Require Import Model.Transfer Proofs.TransferBase Proofs.TransferWalk.
Import ListNotations.
Open Scope list_scope.

(** ** canonical form *)
Definition equiv (cfg : config) (i : id) (e e' : entity) : Prop := canon cfg i e = canon cfg i e'.

Lemma canon_strip : forall cfg i e, canon cfg i (strip e) = canon cfg i e.
Proof. intros cfg i e. destruct e; reflexivity. Qed.
Lemma strip_canon : forall cfg i e, strip (canon cfg i e) = canon cfg i e.
Proof. intros cfg i e. destruct e; reflexivity. Qed.
Lemma tag_parents_canon : forall cfg i e, tag_parents (canon cfg i e) = tag_parents e.
Proof. intros cfg i e. destruct e; reflexivity. Qed.
Lemma kind_of_canon : forall cfg i e, kind_of (canon cfg i e) = kind_of e.
Proof. intros cfg i e. destruct e; reflexivity. Qed.
Lemma equiv_tag_parents : forall cfg i e e', equiv cfg i e e' -> tag_parents e' = tag_parents e.
Proof.
  intros cfg i e e' H. rewrite <- (tag_parents_canon cfg i e), <- (tag_parents_canon cfg i e'), H. reflexivity.
Qed.
Lemma equiv_kind : forall cfg i e e', equiv cfg i e e' -> kind_of e' = kind_of e.
Proof.
  intros cfg i e e' H. rewrite <- (kind_of_canon cfg i e), <- (kind_of_canon cfg i e'), H. reflexivity.
Qed.

Lemma ser_deser_arg : forall a, ser_arg (deser_arg (ser_arg a)) = ser_arg a.
Proof.
  intros a. unfold ser_arg, deser_arg. simpl. rewrite sortN_idem.
  destruct (a_loc a); reflexivity.
Qed.

Lemma canon_idem : forall cfg i e,
  cfg_child_order cfg = ByCallOrder -> canon cfg i (canon cfg i e) = canon cfg i e.
Proof.
  intros cfg i e Hord. destruct e as [x|j|c|v|t]; try reflexivity.
  - unfold canon. simpl. rewrite Hord. simpl. f_equal. f_equal.
    + rewrite enumerate_isort, enumerate_snd. reflexivity.
    + rewrite !map_map. apply map_ext. intros a.
      change (deser_arg (ser_arg (deser_arg (ser_arg a))) = deser_arg (ser_arg a)).
      rewrite ser_deser_arg. reflexivity.
    + destruct (cfg_carry_subtree cfg); [apply sortN_idem | reflexivity].
  - unfold canon. simpl. rewrite sortN_idem. reflexivity.
Qed.

(** ** the destination after put_records *)
Section Put.
  Variables (cfg : config) (src dst : repo) (l : list id).
  Let recs := get_records cfg src l.
  Let new := new_records (ids dst) recs.
  Let D := dst ++ map deserialize new.

  Lemma deserialize_eta : forall i e, deserialize (serialize cfg i e) = (i, canon cfg i e).
  Proof.
    intros i e. unfold canon. rewrite (surjective_pairing (deserialize (serialize cfg i e))).
    rewrite deserialize_fst, serialize_pk. reflexivity.
  Qed.

  Lemma new_ids_nodup : NoDup (ids (map deserialize new)).
  Proof.
    unfold ids. rewrite map_map.
    rewrite (map_ext (fun x => fst (deserialize x)) get_pk deserialize_fst).
    apply new_records_nodup.
  Qed.

  Lemma find_D_old : forall i, In i (ids dst) -> find D i = find dst i.
  Proof.
    intros i Hi. unfold D. rewrite find_app. destruct (ids_find dst i Hi) as [e He]. rewrite He. reflexivity.
  Qed.

  Lemma find_D_new : forall i e,
    NoDup l -> In i l -> find src i = Some e -> ~ In i (ids dst) -> find D i = Some (canon cfg i e).
  Proof.
    intros i e Hnd Hi Hf Hn. unfold D. rewrite find_app.
    assert (Hnone : find dst i = None) by (apply find_None; exact Hn). rewrite Hnone.
    apply In_find; [apply new_ids_nodup|].
    rewrite <- deserialize_eta. apply in_map. unfold new.
    apply new_records_complete.
    - unfold recs. rewrite get_records_pks. apply NoDup_filter. exact Hnd.
    - unfold recs. apply get_records_In. exists i, e. auto.
    - rewrite serialize_pk. exact Hn.
  Qed.

  Lemma in_new_inv : forall i e',
    In (i, e') (map deserialize new) ->
    exists e, In i l /\ find src i = Some e /\ e' = canon cfg i e /\ ~ In i (ids dst).
  Proof.
    intros i e' H. apply in_map_iff in H. destruct H as [rc [Hd Hrc]].
    unfold new in Hrc. apply new_records_spec in Hrc. destruct Hrc as [Hrc Hnot].
    unfold recs in Hrc. apply get_records_In in Hrc. destruct Hrc as [i0 [e0 [Hi0 [Hf0 ->]]]].
    rewrite deserialize_eta in Hd. inversion Hd. subst. rewrite serialize_pk in Hnot.
    exists e0. auto.
  Qed.

  Lemma find_D_inv : forall i e',
    find D i = Some e' -> ~ In i (ids dst) ->
    exists e, In i l /\ find src i = Some e /\ e' = canon cfg i e.
  Proof.
    intros i e' H Hn. unfold D in H. rewrite find_app in H.
    assert (Hnone : find dst i = None) by (apply find_None; exact Hn). rewrite Hnone in H.
    apply find_In in H. destruct (in_new_inv i e' H) as [e [H1 [H2 [H3 _]]]]. eauto.
  Qed.

  Lemma ids_D : forall i, In i (ids D) -> In i (ids dst) \/ (In i l /\ In i (ids src)).
  Proof.
    intros i H. unfold D, ids in H. rewrite map_app in H. apply in_app_iff in H.
    destruct H as [H|H]; [left; exact H|]. right.
    apply in_map_iff in H. destruct H as [[k e'] [Hk Hin]]. simpl in Hk. subst k.
    destruct (in_new_inv i e' Hin) as [e [H1 [H2 _]]]. split; [exact H1|]. eapply find_Some_ids; eauto.
  Qed.

  Lemma new_tags_current : forall i t, In (i, ETag t) (map deserialize new) -> t_current t = true.
  Proof.
    intros i t H. destruct (in_new_inv i _ H) as [e [_ [_ [He _]]]].
    destruct e; unfold canon in He; simpl in He; try discriminate. inversion He. reflexivity.
  Qed.
End Put.

Lemma sync_unfold : forall cfg src dst roots d n,
  sync cfg src dst roots = Synced d n ->
  exists l, iter_record_ids src roots = WalkIds l
    /\ d = postprocess (dst ++ map deserialize (new_records (ids dst) (get_records cfg src l)))
    /\ n = length (new_records (ids dst) (get_records cfg src l)).
Proof.
  intros cfg src dst roots d n H. unfold sync in H.
  destruct (iter_record_ids src roots) as [l|]; [|discriminate].
  unfold put_records in H. inversion H. exists l. auto.
Qed.

Lemma iter_nodup : forall r roots l, iter_record_ids r roots = WalkIds l -> NoDup l.
Proof.
  intros r roots l H. unfold iter_record_ids in H.
  destruct (walk_closed r roots (walk_fuel r) [] (root_nodes r roots) l) as [P [_ [Hnl _]]];
    [constructor | intros n [] | intros n Hn; apply reach_root; exact Hn | intros n m [] | exact H | exact Hnl].
Qed.

Theorem sync_never_out_of_fuel : forall cfg src dst roots, sync cfg src dst roots <> SyncOutOfFuel.
Proof.
  intros cfg src dst roots H. unfold sync in H.
  destruct (iter_record_ids src roots) eqn:E.
  - destruct (put_records dst (get_records cfg src l)). discriminate.
  - exact (walk_terminates src roots E).
Qed.

(** a record that was absent arrives in canonical form (tags: is_current decided afterwards) *)
Theorem transfer_new : forall cfg src dst roots d n l i e,
  sync cfg src dst roots = Synced d n -> iter_record_ids src roots = WalkIds l ->
  In i l -> find src i = Some e -> ~ In i (ids dst) ->
  exists e', find d i = Some e' /\ strip e' = canon cfg i e.
Proof.
  intros cfg src dst roots d n l i e Hs Hl Hi Hf Hn.
  destruct (sync_unfold _ _ _ _ _ _ Hs) as [l' [Hl' [Hd _]]]. rewrite Hl in Hl'. inversion Hl'. subst l'.
  subst d. rewrite find_postprocess.
  rewrite (find_D_new cfg src dst l i e (iter_nodup _ _ _ Hl) Hi Hf Hn). simpl.
  eexists. split; [reflexivity|]. rewrite strip_pp. apply strip_canon.
Qed.

(** a record that was present is left alone (only is_current of a tag may change) *)
Theorem transfer_old : forall cfg src dst roots d n i e0,
  sync cfg src dst roots = Synced d n -> find dst i = Some e0 ->
  exists e', find d i = Some e' /\ strip e' = strip e0.
Proof.
  intros cfg src dst roots d n i e0 Hs Hf.
  destruct (sync_unfold _ _ _ _ _ _ Hs) as [l [_ [Hd _]]]. subst d.
  rewrite find_postprocess. rewrite find_D_old; [|eapply find_Some_ids; eauto]. rewrite Hf. simpl.
  eexists. split; [reflexivity|]. apply strip_pp.
Qed.

(** nothing but reachable source records is added, and the count is the growth *)
Theorem transfer_only : forall cfg src dst roots d n l i,
  sync cfg src dst roots = Synced d n -> iter_record_ids src roots = WalkIds l ->
  In i (ids d) -> In i (ids dst) \/ (In i l /\ In i (ids src)).
Proof.
  intros cfg src dst roots d n l i Hs Hl Hi.
  destruct (sync_unfold _ _ _ _ _ _ Hs) as [l' [Hl' [Hd _]]]. rewrite Hl in Hl'. inversion Hl'. subst l'.
  subst d. rewrite postprocess_ids in Hi. eapply ids_D. exact Hi.
Qed.
Theorem transfer_count : forall cfg src dst roots d n,
  sync cfg src dst roots = Synced d n -> length d = length dst + n.
Proof.
  intros cfg src dst roots d n Hs.
  destruct (sync_unfold _ _ _ _ _ _ Hs) as [l [_ [Hd Hn]]]. subst d n.
  rewrite <- (map_length fst (postprocess _)). fold (ids (postprocess (dst ++ map deserialize
    (new_records (ids dst) (get_records cfg src l))))).
  rewrite postprocess_ids. unfold ids. rewrite map_length, app_length, map_length. reflexivity.
Qed.

(** ** the main statement: after the transfer every reachable source record is present in the
       destination and equal to it up to canonical form *)
Definition compat (cfg : config) (src dst : repo) : Prop :=
  forall i e e0, find src i = Some e -> find dst i = Some e0 -> equiv cfg i e e0.

Theorem transfer_preserves : forall cfg src dst roots d n l i e,
  cfg_child_order cfg = ByCallOrder -> compat cfg src dst ->
  sync cfg src dst roots = Synced d n -> iter_record_ids src roots = WalkIds l ->
  In i l -> find src i = Some e ->
  exists e', find d i = Some e' /\ equiv cfg i e e'.
Proof.
  intros cfg src dst roots d n l i e Hord Hc Hs Hl Hi Hf.
  destruct (in_dec N.eq_dec i (ids dst)) as [Hin|Hn].
  - destruct (ids_find dst i Hin) as [e0 He0].
    destruct (transfer_old _ _ _ _ _ _ _ _ Hs He0) as [e' [H1 H2]].
    exists e'. split; [exact H1|]. unfold equiv.
    rewrite <- (canon_strip cfg i e'), H2, canon_strip. apply Hc; assumption.
  - destruct (transfer_new _ _ _ _ _ _ _ _ _ Hs Hl Hi Hf Hn) as [e' [H1 H2]].
    exists e'. split; [exact H1|]. unfold equiv.
    rewrite <- (canon_strip cfg i e'), H2. symmetry. apply canon_idem. exact Hord.
Qed.

Theorem compat_preserved : forall cfg src dst roots d n,
  cfg_child_order cfg = ByCallOrder -> compat cfg src dst ->
  sync cfg src dst roots = Synced d n -> compat cfg src d.
Proof.
  intros cfg src dst roots d n Hord Hc Hs i e e' Hf Hd.
  destruct (sync_unfold _ _ _ _ _ _ Hs) as [l [Hl [Hdd _]]].
  destruct (in_dec N.eq_dec i (ids dst)) as [Hin|Hn].
  - destruct (ids_find dst i Hin) as [e0 He0].
    destruct (transfer_old _ _ _ _ _ _ _ _ Hs He0) as [e'' [H1 H2]].
    rewrite Hd in H1. inversion H1. subst e''. unfold equiv.
    rewrite <- (canon_strip cfg i e'), H2, canon_strip. apply Hc; assumption.
  - subst d. rewrite find_postprocess in Hd.
    destruct (find (dst ++ map deserialize (new_records (ids dst) (get_records cfg src l))) i) as [x|] eqn:E;
      [|discriminate].
    simpl in Hd. inversion Hd. subst e'.
    destruct (find_D_inv cfg src dst l i x E Hn) as [e1 [_ [Hf1 Hx]]].
    rewrite Hf in Hf1. inversion Hf1. subst e1. unfold equiv.
    rewrite <- (canon_strip cfg i (pp_ent _ i x)), strip_pp, canon_strip. subst x.
    symmetry. apply canon_idem. exact Hord.
Qed.

(** ** repeating *)
Lemma pp_ent_idem : forall r k e, pp_ent (postprocess r) k (pp_ent r k e) = pp_ent r k e.
Proof.
  intros r k e. destruct e; simpl; try reflexivity.
  destruct (is_parent r k) eqn:E; simpl; rewrite is_parent_postprocess, E; reflexivity.
Qed.
Lemma postprocess_idem : forall r, postprocess (postprocess r) = postprocess r.
Proof.
  intros r. rewrite (postprocess_as_map (postprocess r)).
  rewrite (postprocess_as_map r) at 1 2. rewrite map_map. apply map_ext. intros [k e]. simpl.
  rewrite pp_ent_idem. reflexivity.
Qed.

Theorem put_existing_noop : forall r recs,
  postprocess r = r -> (forall rc, In rc recs -> In (get_pk rc) (ids r)) -> put_records r recs = (r, 0).
Proof.
  intros r recs Hpp H. unfold put_records. rewrite (new_records_all_existing recs (ids r) H).
  simpl. rewrite app_nil_r, Hpp. reflexivity.
Qed.

Theorem transfer_idempotent : forall cfg src dst roots d n,
  sync cfg src dst roots = Synced d n -> sync cfg src d roots = Synced d 0.
Proof.
  intros cfg src dst roots d n Hs.
  destruct (sync_unfold _ _ _ _ _ _ Hs) as [l [Hl [Hd _]]].
  unfold sync. rewrite Hl. rewrite put_existing_noop; [reflexivity| |].
  - subst d. apply postprocess_idem.
  - intros rc Hrc. apply get_records_In in Hrc. destruct Hrc as [i [e [Hi [Hf ->]]]].
    rewrite serialize_pk.
    destruct (in_dec N.eq_dec i (ids dst)) as [Hin|Hn].
    + destruct (ids_find dst i Hin) as [e0 He0].
      destruct (transfer_old _ _ _ _ _ _ _ _ Hs He0) as [e' [H1 _]]. eapply find_Some_ids; eauto.
    + destruct (transfer_new _ _ _ _ _ _ _ _ _ Hs Hl Hi Hf Hn) as [e' [H1 _]]. eapply find_Some_ids; eauto.
Qed.

(** ** tags: current / superseded *)
Definition wf_tags (r : repo) : Prop :=
  forall i t, find r i = Some (ETag t) -> t_current t = negb (is_parent r i).

Theorem put_wf_tags : forall cfg src dst roots d n,
  wf_tags dst -> sync cfg src dst roots = Synced d n -> wf_tags d.
Proof.
  intros cfg src dst roots d n Hwf Hs i t Hf.
  destruct (sync_unfold _ _ _ _ _ _ Hs) as [l [_ [Hd _]]].
  set (D := dst ++ map deserialize (new_records (ids dst) (get_records cfg src l))) in *.
  subst d. rewrite is_parent_postprocess. rewrite find_postprocess in Hf.
  destruct (find D i) as [e|] eqn:E; [|discriminate]. simpl in Hf. inversion Hf as [Hpp].
  destruct e as [x|j|c|v|t0]; simpl in Hpp; try discriminate.
  destruct (is_parent D i) eqn:Ep.
  - inversion Hpp. reflexivity.
  - inversion Hpp. subst t0. simpl.
    unfold D in E. rewrite find_app in E. destruct (find dst i) as [e0|] eqn:E0.
    + inversion E. subst e0. rewrite (Hwf i t E0).
      unfold D in Ep. rewrite is_parent_app in Ep. apply orb_false_iff in Ep. destruct Ep as [Ep _].
      rewrite Ep. reflexivity.
    + apply find_In in E. eapply new_tags_current. exact E.
Qed.

Theorem tags_status : forall cfg src dst roots d n l i t,
  NoDup (ids src) -> wf_tags src -> wf_tags dst ->
  (forall i m, In i l -> In m (expand src i) -> In (snd m) l) ->
  compat cfg src dst ->
  (* the destination has no edits of the transferred tags that the source does not know *)
  (forall c e0 p, In (c, e0) dst -> In p (tag_parents e0) -> In p l ->
                  exists e, find src c = Some e /\ In p (tag_parents e)) ->
  sync cfg src dst roots = Synced d n -> iter_record_ids src roots = WalkIds l ->
  In i l -> find src i = Some (ETag t) ->
  exists t', find d i = Some (ETag t') /\ t_current t' = t_current t.
Proof.
  intros cfg src dst roots d n l i t Hnd Hws Hwd Hcl Hc Hindep Hs Hl Hi Hf.
  pose proof (put_wf_tags _ _ _ _ _ _ Hwd Hs) as Hwf'.
  destruct (sync_unfold _ _ _ _ _ _ Hs) as [l' [Hl' [Hd _]]]. rewrite Hl in Hl'. inversion Hl'. subst l'.
  set (D := dst ++ map deserialize (new_records (ids dst) (get_records cfg src l))) in *.
  (* the record is there and is a tag *)
  assert (Hex : exists t', find d i = Some (ETag t')).
  { destruct (in_dec N.eq_dec i (ids dst)) as [Hin|Hn].
    - destruct (ids_find dst i Hin) as [e0 He0].
      destruct (transfer_old _ _ _ _ _ _ _ _ Hs He0) as [e' [H1 H2]].
      pose proof (equiv_kind _ _ _ _ (Hc i _ _ Hf He0)) as Hk. simpl in Hk.
      destruct e0; simpl in Hk; try discriminate. destruct e'; simpl in H2; try discriminate. eauto.
    - destruct (transfer_new _ _ _ _ _ _ _ _ _ Hs Hl Hi Hf Hn) as [e' [H1 H2]].
      destruct e'; unfold canon in H2; simpl in H2; try discriminate. eauto. }
  destruct Hex as [t' Ht']. exists t'. split; [exact Ht'|].
  rewrite (Hwf' i t' Ht'), (Hws i t Hf). f_equal.
  subst d. rewrite is_parent_postprocess.
  (* is superseded in the destination iff it is in the source *)
  assert (Hiff : is_parent D i = true <-> is_parent src i = true).
  { rewrite !is_parent_spec. split.
    - intros [c [e' [Hin Hp]]]. unfold D in Hin. apply in_app_iff in Hin. destruct Hin as [Hin|Hin].
      + destruct (Hindep c e' i Hin Hp Hi) as [e [He Hpe]]. exists c, e. split; [apply find_In; exact He|exact Hpe].
      + destruct (in_new_inv cfg src dst l c e' Hin) as [e [_ [He [Hce _]]]].
        exists c, e. split; [apply find_In; exact He|]. subst e'. rewrite tag_parents_canon in Hp. exact Hp.
    - intros [c [e [Hin Hp]]].
      assert (Hfc : find src c = Some e) by (apply In_find; assumption).
      assert (Hcl' : In c l).
      { destruct e as [x|j|cc|v|tc]; simpl in Hp; try contradiction.
        apply (Hcl i (KTag, c) Hi). unfold expand. rewrite Hf. unfold children_of. simpl.
        apply in_app_iff. left. unfold own_edges. rewrite Hf. apply in_app_iff. right.
        apply in_map. apply child_tags_spec. exists tc. auto. }
      destruct (in_dec N.eq_dec c (ids dst)) as [Hcd|Hcn].
      + destruct (ids_find dst c Hcd) as [e0 He0]. exists c, e0. split.
        * unfold D. apply in_app_iff. left. apply find_In. exact He0.
        * rewrite (equiv_tag_parents _ _ _ _ (Hc c _ _ Hfc He0)). exact Hp.
      + exists c, (canon cfg c e). split.
        * apply find_In. apply (find_D_new cfg src dst l c e (iter_nodup _ _ _ Hl) Hcl' Hfc Hcn).
        * rewrite tag_parents_canon. exact Hp. }
  destruct (is_parent D i), (is_parent src i); try reflexivity.
  - destruct Hiff as [H _]. specialize (H eq_refl). discriminate.
  - destruct Hiff as [_ H]. specialize (H eq_refl). discriminate.
Qed.
