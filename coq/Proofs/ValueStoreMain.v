(** C31 — read-back after record (any history, fixed configuration), rejection of too-large
    values, missing bytes read as absent, persistence, idempotence of recording, and the two
    edges that show which premises are necessary. *)
From Coq Require Import List ZArith Bool Ascii Lia.
From RV Require Import Base.Decimal Base.Lit Model.ValueStore Proofs.ValueStoreBase Proofs.ValueStoreInv.
Import ListNotations.
Open Scope list_scope.

Section Main.
  Variable V : Type.
  Variable pickle : V -> bytes.
  Variable unpickle : bytes -> option V.
  Variable kind_of : V -> kind.
  Variables H Hb : bytes -> bytes.

  Notation ser_data := (ser_data V pickle kind_of Hb).
  Notation ser_files := (ser_files V pickle kind_of Hb).
  Notation rhash := (rhash V pickle kind_of H Hb).
  Notation tag_of := (tag_of V kind_of).
  Notation fc_path := (fc_path V pickle Hb).
  Notation record := (record V pickle kind_of H Hb).
  Notation get := (get V unpickle).
  Notation step := (step V pickle unpickle kind_of H Hb).
  Notation run := (run V pickle unpickle kind_of H Hb).
  Notation deserialize := (deserialize V unpickle).
  Notation Inv := (Inv V pickle kind_of H Hb).
  Notation reach := (reach V pickle unpickle kind_of H Hb).
  Notation good := (good V pickle kind_of H Hb).

  Hypothesis roundtrip : forall v, unpickle (pickle v) = Some v.
  Hypothesis pickle_nonempty : forall v, pickle v <> [].
  Hypothesis Hb_nonempty : forall d, Hb d <> [].
  Hypothesis compat : hash_compat V pickle kind_of H Hb.

  Lemma sdn v : ser_data v <> [].
  Proof. exact (ser_data_nonempty V pickle kind_of Hb pickle_nonempty Hb_nonempty v). Qed.

  (* ---------------------------------------------------------------- size limit *)
  Lemma too_large_spec cf d : too_large shipped cf d = true <-> (blen d > max_size cf)%Z.
  Proof. unfold too_large. simpl. rewrite Z.gtb_lt. lia. Qed.

  Theorem too_large_rejected cf s v : (blen (ser_data v) > max_size cf)%Z ->
    snd (record shipped cf s v) = RTooLarge
    /\ rows (fst (record shipped cf s v)) = rows s /\ store (fst (record shipped cf s v)) = store s.
  Proof.
    intros L. apply too_large_spec in L. unfold ValueStore.record. rewrite L. simpl. auto.
  Qed.

  Theorem within_limit_accepted cf s v : (blen (ser_data v) <= max_size cf)%Z ->
    snd (record shipped cf s v) = RHash (rhash v).
  Proof.
    intros L. unfold ValueStore.record.
    destruct (too_large shipped cf (ser_data v)) eqn:T; [apply too_large_spec in T; lia|]. reflexivity.
  Qed.

  Lemma record_result cf s v s' h : record shipped cf s v = (s', RHash h) ->
    h = rhash v /\ too_large shipped cf (ser_data v) = false.
  Proof.
    unfold ValueStore.record. destruct (too_large shipped cf (ser_data v)); [discriminate|].
    intros [= _ <-]. auto.
  Qed.

  (** a value that is accepted is kept whole, in exactly one of the two places *)
  Theorem stored_whole cf s v s' h : record shipped cf s v = (s', RHash h) ->
    lookup h (rows s) = None -> lookup h (store s) = None ->
    (offload shipped cf (ser_data v) = false /\
       lookup h (rows s') = Some {| r_tag := tag_of v; r_value := ser_data v |} /\ lookup h (store s') = None)
    \/ (offload shipped cf (ser_data v) = true /\
       lookup h (rows s') = Some {| r_tag := tag_of v; r_value := [] |} /\ lookup h (store s') = Some (ser_data v)).
  Proof.
    intros R. destruct (record_result _ _ _ _ _ R) as [-> T]. revert R.
    unfold ValueStore.record. rewrite T. intros [= <-] Lr Ls. simpl. rewrite Lr.
    destruct (offload shipped cf (ser_data v)); [right|left]; split; auto; rewrite lookup_set_same; split; auto.
    unfold store_put. simpl. rewrite Ls. apply lookup_set_same.
  Qed.

  (* ---------------------------------------------------------------- fixed configuration *)
  Lemma offload_len cf d d' : length d = length d' -> offload shipped cf d = offload shipped cf d'.
  Proof. unfold offload, meas, blen. simpl. now intros ->. Qed.

  (** placeholder rows were written for values that this configuration offloads *)
  Definition Inv2 (cf : conf) (s : state) : Prop :=
    forall h r, In (h, r) (rows s) -> r_value r = [] ->
      exists w, rhash w = h /\ offload shipped cf (ser_data w) = true.

  Lemma Inv2_step cf s e : Inv2 cf s -> Inv2 cf (fst (step shipped cf s e)).
  Proof.
    intros I. destruct e; simpl; auto.
    unfold ValueStore.record. destruct (too_large shipped cf (ser_data v)); simpl; auto.
    intros h r In1 E.
    assert (New : In (h, r) (set_kv (rhash v) {| r_tag := tag_of v;
                   r_value := if offload shipped cf (ser_data v) then placeholder shipped else ser_data v |} (rows s)) ->
                  exists w, rhash w = h /\ offload shipped cf (ser_data w) = true).
    { intros I0. apply In_set_kv in I0. destruct I0 as [[-> ->]|I0]; [|now apply (I h r)].
      simpl in E. destruct (offload shipped cf (ser_data v)) eqn:O; eauto.
      exfalso. now apply (sdn v). }
    destruct (lookup (rhash v) (rows s)); auto. now apply (I h r).
  Qed.

  Lemma Inv2_run cf evs s : Inv2 cf s -> Inv2 cf (run shipped cf evs s).
  Proof. revert s. induction evs; simpl; auto. intros s I. apply IHevs. now apply Inv2_step. Qed.

  Lemma lookup_store_put h d st : exists d', lookup h (store_put shipped h d st) = Some d'.
  Proof.
    unfold store_put. simpl. destruct (lookup h st) eqn:L; eauto. rewrite lookup_set_same. eauto.
  Qed.

  (** after [v] was serialized, deserializing what any same-hash value left behind gives a value *)
  Lemma deserialize_present u v fs : rhash u = rhash v ->
    exists x, deserialize (tag_of u) (ser_data u) (ser_files v fs) = RValue x.
  Proof.
    intros E. destruct (compat u v E) as [T [_ S]].
    unfold ValueStore.deserialize. destruct (tag_of u) eqn:Tu.
    - assert (ser_data u = pickle u) as ->.
      { unfold ValueStore.ser_data. unfold ValueStore.tag_of in Tu. destruct (kind_of u); auto. discriminate. }
      rewrite roundtrip. eauto.
    - rewrite (S eq_refl). symmetry in T.
      unfold ValueStore.ser_data, ValueStore.ser_files. unfold ValueStore.tag_of in T.
      destruct (kind_of v); try discriminate. rewrite lookup_set_same, roundtrip. eauto.
  Qed.

  Theorem read_back cf s v s' h :
    Inv (has_store cf) s -> Inv2 cf s -> record shipped cf s v = (s', RHash h) ->
    exists v', get shipped cf s' h = RValue v' /\ rhash v' = h.
  Proof.
    intros I I2 R.
    assert (I' : Inv (has_store cf) s').
    { replace s' with (fst (record shipped cf s v)) by now rewrite R. now apply Inv_record. }
    assert (G := get_good V pickle unpickle kind_of H Hb roundtrip pickle_nonempty Hb_nonempty compat
                   (has_store cf) cf s' h I' eq_refl).
    cut (exists x, get shipped cf s' h = RValue x).
    { intros [x E]. rewrite E in G. exists x. auto. }
    clear G. destruct (record_result _ _ _ _ _ R) as [-> T]. revert R I'.
    unfold ValueStore.record. rewrite T. intros [= <-] I'. unfold ValueStore.get. simpl.
    (* data found in the value store after a put *)
    assert (FromStore : offload shipped cf (ser_data v) = true -> forall t, (exists w, rhash w = rhash v /\ t = tag_of w) ->
              exists x, (if has_store cf then
                  match lookup (rhash v) (store_put shipped (rhash v) (ser_data v) (store s)) with
                  | Some d => deserialize t d (ser_files v (files s))
                  | None => if missing_is_absent shipped then RAbsent else deserialize t [] (ser_files v (files s))
                  end else RAssert) = RValue x).
    { intros O t [w [Hw ->]]. rewrite (offload_has_store _ _ O).
      destruct (lookup_store_put (rhash v) (ser_data v) (store s)) as [d L]. rewrite L.
      assert (In (rhash v, d) (store_put shipped (rhash v) (ser_data v) (store s))) by now apply lookup_In.
      apply In_store_put in H0. destruct H0 as [[_ ->]|I0].
      - destruct (compat w v Hw) as [-> _]. now apply deserialize_present.
      - destruct (inv_store _ _ _ _ _ _ _ I _ _ I0) as [u [-> Hu]].
        destruct (compat w u) as [-> _]; [congruence|]. now apply deserialize_present. }
    destruct (lookup (rhash v) (rows s)) as [r|] eqn:L; simpl.
    - (* an existing row is kept *)
      rewrite L. apply lookup_In in L. destruct (inv_rows _ _ _ _ _ _ _ I _ _ L) as [w [Hw [Tw Dw]]].
      destruct (in_value_store shipped r) eqn:P.
      + apply in_value_store_nil in P. destruct (I2 _ _ L P) as [w' [Hw' O']].
        assert (O : offload shipped cf (ser_data v) = true).
        { rewrite <- O'. apply offload_len. destruct (compat v w') as [_ [Le _]]; congruence. }
        rewrite O. apply FromStore; auto. exists w. auto.
      + destruct Dw as [Dw|[Dw _]]; [|apply in_value_store_nil in Dw; congruence].
        rewrite Dw, Tw. now apply deserialize_present.
    - rewrite lookup_set_same. unfold in_value_store. simpl.
      destruct (offload shipped cf (ser_data v)) eqn:O; simpl.
      + apply FromStore; auto. exists v. auto.
      + destruct (blen (ser_data v) =? 0)%Z eqn:Z0.
        { apply Z.eqb_eq, blen_nil in Z0. exfalso. now apply (sdn v). }
        now apply deserialize_present.
  Qed.

  Lemma fixed_Inv cf evs : Inv (has_store cf) (run shipped cf evs init) /\ Inv2 cf (run shipped cf evs init).
  Proof.
    split.
    - apply (reach_Inv V pickle unpickle kind_of H Hb). apply reach_run; auto. constructor.
    - apply Inv2_run. intros h r [].
  Qed.

  (** the headline: under any configuration, after ANY history, a recorded value reads back
      with the hash it was recorded under — and that hash does not depend on where it went *)
  Theorem read_back_same_hash cf evs v s' h :
    record shipped cf (run shipped cf evs init) v = (s', RHash h) ->
    h = rhash v /\ exists v', get shipped cf s' h = RValue v' /\ rhash v' = h.
  Proof.
    intros R. split; [now apply record_result in R|].
    destruct (fixed_Inv cf evs). eapply read_back; eauto.
  Qed.

  (** the hash, and the fact that the value reads back with it, do not depend on the
      configuration (no store / store with any thresholds) nor on the earlier history *)
  Theorem location_transparent cf1 cf2 evs1 evs2 v s1 s2 h1 h2 :
    record shipped cf1 (run shipped cf1 evs1 init) v = (s1, RHash h1) ->
    record shipped cf2 (run shipped cf2 evs2 init) v = (s2, RHash h2) ->
    h1 = h2 /\ exists v1 v2, get shipped cf1 s1 h1 = RValue v1 /\ get shipped cf2 s2 h2 = RValue v2
                             /\ rhash v1 = h1 /\ rhash v2 = h1.
  Proof.
    intros R1 R2. apply read_back_same_hash in R1. apply read_back_same_hash in R2.
    destruct R1 as [E1 [v1 [G1 Hv1]]]. destruct R2 as [E2 [v2 [G2 Hv2]]].
    split; [congruence|]. exists v1, v2. repeat split; auto. congruence.
  Qed.

  (* ---------------------------------------------------------------- missing bytes *)
  Theorem missing_store_reads_absent b cf s h r : reach b s -> has_store cf = b ->
    lookup h (rows s) = Some r -> r_value r = [] ->
    get shipped cf (fst (step shipped cf s (ELoseStored h))) h = RAbsent.
  Proof.
    intros R Hb' L E. apply (reach_Inv V pickle unpickle kind_of H Hb) in R.
    destruct (inv_rows _ _ _ _ _ _ _ R _ _ (lookup_In _ _ _ L)) as [w [_ [_ Dw]]].
    destruct Dw as [Dw|[_ Bt]]; [exfalso; apply (sdn w); congruence|].
    simpl. unfold ValueStore.get. simpl. rewrite L.
    apply in_value_store_nil in E. rewrite E, Hb', Bt, lookup_remove_same. reflexivity.
  Qed.

  (** FileCache: when the file of the value that [h] reads as disappears, [h] reads absent *)
  Theorem missing_file_reads_absent b cf s h v bs : reach b s -> has_store cf = b ->
    get shipped cf s h = RValue v -> kind_of v = KFileCache bs ->
    get shipped cf (fst (step shipped cf s (ELoseFile (fc_path bs v)))) h = RAbsent.
  Proof.
    intros R Hb' G K. apply (reach_Inv V pickle unpickle kind_of H Hb) in R. destruct R as [I1 I2 I3].
    revert G. simpl. unfold ValueStore.get. simpl.
    destruct (lookup h (rows s)) as [r|] eqn:L; [|discriminate].
    assert (Des : forall t u, t = tag_of u -> deserialize t (ser_data u) (files s) = RValue v ->
              deserialize t (ser_data u) (remove_k (fc_path bs v) (files s)) = RAbsent).
    { intros t u -> D. revert D. unfold ValueStore.deserialize, ValueStore.tag_of, ValueStore.ser_data.
      destruct (kind_of u) eqn:Ku.
      - rewrite roundtrip. intros [= ->]. congruence.
      - rewrite roundtrip. intros [= ->]. congruence.
      - destruct (lookup (fc_path base u) (files s)) as [c|] eqn:Lf; [|discriminate].
        apply lookup_In in Lf. destruct (I3 _ _ Lf) as [u' [bs' [K' [P ->]]]].
        rewrite roundtrip. intros [= ->]. rewrite K in K'. injection K' as <-.
        rewrite P, lookup_remove_same. reflexivity. }
    apply lookup_In in L. destruct (I1 _ _ L) as [w [Hw [Tw Dw]]].
    destruct (in_value_store shipped r) eqn:P.
    - destruct (has_store cf); [|discriminate].
      destruct (lookup h (store s)) as [d|] eqn:Ls; [|simpl; discriminate].
      apply lookup_In in Ls. destruct (I2 _ _ Ls) as [u [-> Hu]].
      apply Des. destruct (compat u w) as [T _]; congruence.
    - destruct Dw as [Dw|[Dw _]]; [|apply in_value_store_nil in Dw; congruence].
      rewrite Dw. now apply Des.
  Qed.

  (* ---------------------------------------------------------------- persistence *)
  Definition not_loss (e : event V) : bool :=
    match e with ELoseStored _ | ELoseFile _ => false | _ => true end.

  Definition readable cf s h : Prop := exists x, get shipped cf s h = RValue x.

  Lemma ser_files_some v fs p c : lookup p fs = Some c -> exists c', lookup p (ser_files v fs) = Some c'.
  Proof.
    unfold ValueStore.ser_files. destruct (kind_of v); eauto. apply lookup_set_some.
  Qed.

  Lemma store_put_keeps h d st k x : lookup k st = Some x -> lookup k (store_put shipped h d st) = Some x.
  Proof.
    intros L. unfold store_put. simpl. destruct (lookup h st) eqn:L2; auto.
    rewrite lookup_set_other; auto. intros ->. congruence.
  Qed.

  Lemma readable_step b cf s e h : Inv b s -> has_store cf = b -> not_loss e = true ->
    readable cf s h -> readable cf (fst (step shipped cf s e)) h.
  Proof.
    intros I Hb' NL Rd. destruct e; try discriminate; simpl; auto.
    assert (I' := Inv_record V pickle kind_of H Hb b cf s v I Hb').
    assert (G := get_good V pickle unpickle kind_of H Hb roundtrip pickle_nonempty Hb_nonempty compat
                   b cf _ h I' Hb').
    destruct Rd as [x Rd]. unfold readable.
    cut (get shipped cf (fst (record shipped cf s v)) h <> RAbsent).
    { intros NA. destruct (get shipped cf (fst (record shipped cf s v)) h); simpl in G; try contradiction; eauto. }
    clear G I'. revert Rd. unfold ValueStore.record.
    destruct (too_large shipped cf (ser_data v)); unfold ValueStore.get; simpl.
    - destruct (lookup h (rows s)) as [r|]; [|discriminate].
      assert (D : forall t d, deserialize t d (files s) = RValue x -> deserialize t d (ser_files v (files s)) <> RAbsent).
      { intros t d. unfold ValueStore.deserialize. destruct t; [congruence|].
        destruct (lookup d (files s)) eqn:Lf; [|discriminate].
        destruct (ser_files_some v _ _ _ Lf) as [c' ->]. destruct (unpickle c'); discriminate. }
      destruct (in_value_store shipped r); [|apply D].
      destruct (has_store cf); [|discriminate]. destruct (lookup h (store s)); [apply D|discriminate].
    - assert (D : forall t d, deserialize t d (files s) = RValue x -> deserialize t d (ser_files v (files s)) <> RAbsent).
      { intros t d. unfold ValueStore.deserialize. destruct t; [congruence|].
        destruct (lookup d (files s)) eqn:Lf; [|discriminate].
        destruct (ser_files_some v _ _ _ Lf) as [c' ->]. destruct (unpickle c'); discriminate. }
      destruct (lookup h (rows s)) as [r|] eqn:L; [|discriminate].
      assert (L' : lookup h (match lookup (rhash v) (rows s) with
                             | Some _ => rows s
                             | None => set_kv (rhash v) {| r_tag := tag_of v;
                                  r_value := if offload shipped cf (ser_data v) then [] else ser_data v |} (rows s)
                             end) = Some r).
      { destruct (lookup (rhash v) (rows s)) eqn:L2; auto.
        rewrite lookup_set_other; auto. intros E. rewrite E in L2. congruence. }
      rewrite L'. destruct (in_value_store shipped r); [|apply D].
      destruct (has_store cf); [|discriminate].
      destruct (lookup h (store s)) as [d|] eqn:Ls; [|discriminate].
      destruct (offload shipped cf (ser_data v)); [|rewrite Ls; apply D].
      rewrite (store_put_keeps _ _ _ _ _ Ls). apply D.
  Qed.

  (** a readable value stays readable (with its hash) as long as no bytes are lost *)
  Theorem persists b cf evs s h : reach b s -> has_store cf = b -> forallb not_loss evs = true ->
    readable cf s h ->
    exists v', get shipped cf (run shipped cf evs s) h = RValue v' /\ rhash v' = h.
  Proof.
    intros R Hb' NL Rd.
    assert (R' : reach b (run shipped cf evs s)) by now apply reach_run.
    assert (Rd' : readable cf (run shipped cf evs s) h).
    { clear R'. revert s R Rd. induction evs as [|e evs IH]; simpl; auto. intros s R Rd.
      simpl in NL. apply andb_true_iff in NL. destruct NL as [N1 N2]. apply IH; auto.
      - now constructor.
      - eapply readable_step; eauto. now apply (reach_Inv V pickle unpickle kind_of H Hb). }
    destruct Rd' as [x E]. exists x. split; auto.
    assert (G := read_sound V pickle unpickle kind_of H Hb roundtrip pickle_nonempty Hb_nonempty compat
                   b _ cf h R' Hb'). now rewrite E in G.
  Qed.

  (* ---------------------------------------------------------------- recorded twice *)
  Lemma ser_files_idem v fs : ser_files v (ser_files v fs) = ser_files v fs.
  Proof. unfold ValueStore.ser_files. destruct (kind_of v); auto. apply set_kv_idem. Qed.

  Lemma store_put_idem h d st : store_put shipped h d (store_put shipped h d st) = store_put shipped h d st.
  Proof.
    unfold store_put. simpl. destruct (lookup h st) eqn:L.
    - now rewrite L.
    - now rewrite lookup_set_same.
  Qed.

  Theorem record_twice_idempotent cf s v :
    record shipped cf (fst (record shipped cf s v)) v = record shipped cf s v.
  Proof.
    unfold ValueStore.record. destruct (too_large shipped cf (ser_data v)) eqn:T; simpl.
    - now rewrite ser_files_idem.
    - rewrite ser_files_idem. f_equal. f_equal.
      + destruct (lookup (rhash v) (rows s)) eqn:L; [now rewrite L|]. now rewrite lookup_set_same.
      + destruct (offload shipped cf (ser_data v)); auto. apply store_put_idem.
  Qed.
End Main.
