(** The configuration [mixed]: _get_call_node requires the node's own task among its rows and every
    replayed job inherits the recorded subtree tasks, but record_call_node is as shipped (rows can be
    lost by a retry or a crash, imported nodes have none).  Shallow hits are sound for all histories
    in which no job is replayed by CSE; a CSE hit onto a call node whose rows were lost breaks it
    again (witness below). *)
From Coq Require Import List Arith Bool PeanoNat Lia.
From RV Require Import Model.Recording Proofs.RecordingBase Proofs.RecordingGen Proofs.RecordingSub Proofs.RecordingWitness.
Import ListNotations.
Open Scope list_scope.

Lemma rcn_loop_ok2 : forall R ss p fuel s pl s' pl', rcn_loop fuel R ss p s pl = ROk s' pl' ->
  exists s1 pl1, run_steps R p ss s1 pl1 = ROk s' pl' /\ (s1 = s \/ pen s1 = db0).
Proof.
  induction fuel as [|f IH]; intros s pl s' pl' H; cbn [rcn_loop] in H; [discriminate|].
  destruct (run_steps R p ss s pl) as [s1 pl1|s1 pl1|s1|] eqn:E; try discriminate.
  - inversion H; subst. exists s, pl. auto.
  - destruct (R <? att (caught s1)); [discriminate|]. apply IH in H. destruct H as (s2 & pl2 & H & [->|Hp]).
    + exists (caught s1), pl2. split; [exact H|right; reflexivity].
    + exists s2, pl2. auto.
Qed.

Lemma try_commit_clean : forall s pl s' pl', try_commit s pl = ROk s' pl' -> pen s' = db0.
Proof. intros s [|[| |] pl] s' pl' H; cbn [try_commit] in H; inversion H; subst; reflexivity. Qed.

Lemma shipped_post : forall R p s pl s' pl', run_steps R p rcn_shipped s pl = ROk s' pl' -> pen s = db0 -> pen s' = db0.
Proof.
  intros R p s pl s' pl' H Hp. unfold rcn_shipped in H. cbn [run_steps] in H.
  destruct (memt (p_call p) (nodes (vis s))); [inversion H; subst; exact Hp|].
  apply bind_ok in H. destruct H as (s1 & pl1 & H & E). inversion E; subst; clear E.
  cbn [run_bs] in H.
  do 5 (apply bind_ok in H; destruct H as (? & ? & _ & H)).
  apply bind_ok in H. destruct H as (s6 & pl6 & H & E). inversion E; subst.
  cbn [run_b] in H. eapply try_commit_clean. exact H.
Qed.

Definition jobs_ok2 (s : state) : Prop :=
  forall c S, In (c, S) (jobs s) -> incl (tasks_of c) S /\ incl (tasks_of c) (reg s).
Definition Inv2 (s : state) : Prop := good s /\ pen s = db0 /\ jobs_ok2 s.

Lemma Inv2_st0 : Inv2 st0.
Proof. split; [split; [apply atomic_db0|intros c; left; reflexivity]|]. split; [reflexivity|]. intros c S []. Qed.

Lemma jobs_ok2_add : forall s c S, jobs_ok2 s -> incl (tasks_of c) S -> incl (tasks_of c) (reg s) ->
  jobs_ok2 (set_jobs s (jobs s ++ [(c, S)])).
Proof.
  intros s c S H H1 H2 c' S' Hin. simpl in Hin. apply in_app_or in Hin. destruct Hin as [Hin|[E|[]]].
  - apply H. exact Hin.
  - inversion E; subst. auto.
Qed.

Definition is_cse (e : event) : bool := match e with EHitCSE _ _ | EHitCSEC _ _ => true | _ => false end.

Lemma Inv2_step : forall R s e, is_cse e = false -> Inv2 s -> Inv2 (step_event (mixed R) s e).
Proof.
  intros R s e He (Hg & Hp & Hj).
  assert (Hinv : Inv2 s) by (split; [exact Hg|split; [exact Hp|exact Hj]]).
  destruct e as [rg|v pl|t a r kids pl|t a|j full|roots|t a|j full]; cbn [step_event]; try discriminate.
  - split; [|split; [reflexivity|intros c S []]].
    destruct Hg as [H1 H2]. split; [exact H1|]. unfold vis. simpl. rewrite db_app_db0_l. exact H1.
  - destruct (negb (alive s)); [exact Hinv|].
    pose proof (op_good_value R v s pl Hg) as Hh. simpl.
    destruct (record_value_top R v s pl) as [s' pl'|s' pl'|s'|] eqn:E; unfold holds in Hh.
    + destruct Hh as (G1 & [K1 K1r] & [K2 K3] & _). split; [exact G1|]. split.
      * unfold record_value_top in E. destruct (rec_value R v s pl) eqn:E2; try discriminate.
        inversion E; subst. eapply rec_value_clean; eassumption.
      * intros c S Hin. rewrite K2 in Hin. rewrite K1r. apply Hj. exact Hin.
    + destruct Hh as (G1 & _). split; [apply good_die; exact G1|]. split; [reflexivity|]. intros c S [].
    + destruct Hh as (G1 & K1 & P1 & J1 & _). split; [exact G1|]. split; [exact P1|].
      intros c S Hin. rewrite J1 in Hin. destruct Hin.
    + destruct Hh.
  - destruct (negb (alive s)); [exact Hinv|].
    destruct (lookup_jobs (jobs s) kids) as [js|] eqn:El; [|exact Hinv].
    destruct (negb (memn t (reg s))) eqn:Et; [exact Hinv|].
    apply negb_false_iff in Et. apply memn_In in Et.
    set (c := Node t a r (map fst js)). set (sub := t :: flat_map snd js).
    assert (Hjs : forall x, In x js -> incl (tasks_of (fst x)) (snd x) /\ incl (tasks_of (fst x)) (reg s)).
    { intros [k Sk] Hx. pose proof (lookup_jobs_In _ _ _ El _ Hx) as Hin. apply (Hj k Sk Hin). }
    assert (Hsub : incl (tasks_of c) sub).
    { subst c sub. rewrite tasks_of_unfold. apply incl_cons; [left; reflexivity|].
      apply incl_tl. apply flat_map_tasks_incl. intros x Hx. apply Hjs. exact Hx. }
    assert (Hreg : incl (tasks_of c) (reg s)).
    { subst c. rewrite tasks_of_unfold. apply incl_cons; [exact Et|].
      intros x Hx. apply in_flat_map in Hx. destruct Hx as (k & Hk & Hx). apply in_map_iff in Hk.
      destruct Hk as (j & <- & Hj'). eapply (proj2 (Hjs j Hj')). exact Hx. }
    simpl c_retries. simpl c_rcn.
    pose proof (op_good_value R r s pl Hg) as Hv.
    destruct (record_value_top R r s pl) as [s1 pl1|s1 pl1|s1|] eqn:Ev; unfold holds in Hv; cbn [bind].
    + destruct Hv as (G1 & K1 & KO1 & _).
      assert (P1 : pen s1 = db0).
      { unfold record_value_top in Ev. destruct (rec_value R r s pl) eqn:E2; try discriminate.
        inversion Ev; subst. eapply rec_value_clean; eassumption. }
      pose proof (op_good_rcn (mkp c sub) R Hsub rcn_shipped s1 pl1 G1) as Hr.
      destruct (record_call_node R rcn_shipped (mkp c sub) s1 pl1) as [s2 pl2|s2 pl2|s2|] eqn:Er; unfold holds in Hr.
      * destruct Hr as (G2 & K2 & KO2 & _).
        assert (K : keeps s s2) by (eapply keeps_trans; eassumption).
        assert (KO : keeps_ok s s2) by (eapply keeps_ok_trans; eassumption).
        unfold record_call_node in Er. apply rcn_loop_ok2 in Er. destruct Er as (sa & pla & Er & Hsa).
        assert (Pa : pen sa = db0) by (destruct Hsa as [->|Hsa]; [exact P1|exact Hsa]).
        pose proof (shipped_post _ _ _ _ _ _ Er Pa) as Pc.
        split; [exact G2|]. split; [exact Pc|].
        destruct K as [_ Kr]. destruct KO as [Kj _].
        apply jobs_ok2_add; [|exact Hsub|rewrite Kr; exact Hreg].
        intros c' S' Hin. rewrite Kj in Hin. rewrite Kr. apply Hj. exact Hin.
      * destruct Hr as (G2 & _). split; [apply good_die; exact G2|]. split; [reflexivity|]. intros c' S' [].
      * destruct Hr as (G2 & _ & P2 & J2 & _). split; [exact G2|]. split; [exact P2|].
        intros c' S' Hin. rewrite J2 in Hin. destruct Hin.
      * destruct Hr.
    + destruct Hv as (G1 & _). split; [apply good_die; exact G1|]. split; [reflexivity|]. intros c' S' [].
    + destruct Hv as (G1 & _ & P1 & J1 & _). split; [exact G1|]. split; [exact P1|].
      intros c' S' Hin. rewrite J1 in Hin. destruct Hin.
    + destruct Hv.
  - destruct (negb (alive s)); [exact Hinv|]. simpl c_own.
    destruct (get_call_node true (vis s) t a (reg s)) as [c|] eqn:Eg; [|exact Hinv].
    apply get_call_node_In in Eg. destruct Eg as (_ & _ & _ & Hc).
    destruct Hg as [Hg1 Hg2]. destruct (current_sound _ _ _ Hg2 Hc) as [Hr Hrows].
    split; [split; assumption|]. split; [exact Hp|].
    apply jobs_ok2_add; [exact Hj| |exact Hr].
    intros x Hx. unfold hit_subtree. simpl. right. apply filter_In.
    split; [apply Hrows; exact Hx|apply memn_In; apply Hr; exact Hx].
  - (* import: rows untouched *)
    set (l := dedupt (flat_map subtrees roots)).
    destruct (import_fold_shape l (do_rollback s)) as (A1 & A2 & A3 & A4 & A5).
    set (s1 := fold_left import_one l (do_rollback s)) in *.
    assert (Hg1 : good s1) by (eapply good_same_subs; [exact A1|exact A2|apply good_rollback; exact Hg]).
    split; [apply good_commit; exact Hg1|]. split; [reflexivity|].
    intros c S Hin. simpl in Hin. rewrite A3 in Hin. simpl. rewrite A4. apply Hj. exact Hin.
  - destruct (negb (alive s)); [exact Hinv|]. simpl c_own.
    destruct (get_call_node true (vis s) t a (reg s)) as [c|] eqn:Eg; [|exact Hinv].
    apply get_call_node_In in Eg. destruct Eg as (_ & _ & _ & Hc).
    destruct Hg as [Hg1 Hg2]. destruct (current_sound _ _ _ Hg2 Hc) as [Hr Hrows].
    split; [split; assumption|]. split; [exact Hp|].
    apply jobs_ok2_add; [exact Hj| |exact Hr].
    intros x Hx. unfold hit_subtree. simpl. right. apply filter_In.
    split; [apply Hrows; exact Hx|apply memn_In; apply Hr; exact Hx].
Qed.

Theorem shallow_hit_sound_mixed_nocse : forall R es, forallb (fun e => negb (is_cse e)) es = true ->
  forall t a rg c, shallow_hit (mixed R) (run (mixed R) es) t a rg = Some c ->
  In c (nodes (com (run (mixed R) es))) /\ t_task c = t /\ t_args c = a /\ incl (tasks_of c) rg.
Proof.
  intros R es Hn.
  assert (HI : Inv2 (run (mixed R) es)).
  { unfold run. generalize Inv2_st0. generalize st0. revert Hn.
    induction es as [|e es IH]; intros Hn s H; simpl; [exact H|].
    simpl in Hn. apply andb_true_iff in Hn. destruct Hn as [He Hn]. apply negb_true_iff in He.
    apply IH; [exact Hn|]. apply Inv2_step; assumption. }
  intros t a rg c H. destruct HI as ([Hg _] & _ & _).
  unfold shallow_hit in H. simpl c_own in H. apply get_call_node_In in H. destruct H as (H1 & H2 & H3 & H4).
  destruct (current_sound _ _ _ Hg H4) as [H5 _]. auto.
Qed.

(** The four witnesses against [shipped] are harmless in [mixed] ... *)
Lemma mixed_old_witnesses : stale (mixed 3) h_retry 1 [10] [1; 3] = false /\ stale (mixed 3) h_crash 1 [10] [1; 3] = false /\
  stale (mixed 3) h_import 1 [10] [1; 3] = false /\ stale (mixed 3) h_cse 5 [10] [3; 4; 5; 6] = false /\
  shallow_hit (mixed 3) (run (mixed 3) h_cse) 5 [10] [2; 4; 5; 6] = Some pc.
Proof. repeat split; vm_compute; reflexivity. Qed.

(** ... but a transient error at the last commit of record_call_node(mid) still loses mid's rows
    (early exit on retry), and a job replayed by CSE from that call node then inherits nothing:
    p's rows are {p, mid}, they contain p's own task, and an edit of leaf is ignored. *)
Definition h_mixed : list event :=
  [ENewExec [2; 4; 5; 6]; ERecord 2 [10] 20 [] []; ERecord 6 [10] 20 [0] [FOk; FFail]; ERecord 4 [10] 20 [1] [];
   EHitCSE 1 true; ERecord 5 [10] 20 [3] []].
Lemma w_mixed : stale (mixed 3) h_mixed 5 [10] [3; 4; 5; 6] = true /\ stale (fixed 3) h_mixed 5 [10] [3; 4; 5; 6] = false.
Proof. split; vm_compute; reflexivity. Qed.

(** record_call_node itself is as shipped: the C22 witnesses carry over *)
Lemma retry_loses_rows_mixed :
  idem_ok (mixed 3) (mkp topc [1; 2]) (s_base (mixed 3)) [FOk; FFail] = false /\
  ok_with_rows (resolve_op (mixed 3) (mkp topc [1; 2]) (s_base (mixed 3)) [FOk; FFail]) topc [] = true /\
  ok_with_args (resolve_op (mixed 3) p_two_args (s_base (mixed 3)) [FOk; FOk; FFail]) (p_call p_two_args) 1 = true /\
  died_clean (resolve_op (mixed 3) p_two_args (s_base (mixed 3)) [FOk; FFail]) (p_call p_two_args) = true.
Proof. repeat split; vm_compute; reflexivity. Qed.

(** Configuration [guarded]: a replayed job fetches its recorded subtree tasks only if its parent job was not
    itself served from the cache.  A parent that is a single-reduction hit re-evaluates its children and records
    a NEW call node; its replayed child then contributes only its own task.  History: run 1 records
    top(1) -> [mid(6) -> leaf(2), side(4)]; side is edited (4 -> 7) and run 2 replays top's body (single
    reduction), replays mid by ultimate reduction (EHitUltC), runs the new side and records a new call node of
    top with rows {1, 6, 7}; then leaf is edited (2 -> 3): the shallow lookup of top still hits. *)
Definition h_guarded : list event :=
  [ENewExec [1; 2; 4; 6]; ERecord 2 [10] 20 [] []; ERecord 6 [10] 20 [0] []; ERecord 4 [10] 30 [] [];
   ERecord 1 [10] 40 [1; 2] [];
   ENewExec [1; 2; 7; 6]; EHitUltC 6 [10]; ERecord 7 [10] 31 [] []; ERecord 1 [10] 41 [0; 1] []].
Lemma w_guarded : stale (guarded 3) h_guarded 1 [10] [1; 3; 7; 6] = true /\ stale (mixed 3) h_guarded 1 [10] [1; 3; 7; 6] = false /\
  stale (fixed 3) h_guarded 1 [10] [1; 3; 7; 6] = false.
Proof. repeat split; vm_compute; reflexivity. Qed.
