(** Pre-images of different record kinds differ: every tagged pre-image starts with the
    bencoded list opener and its type tag, and the tags of distinct kinds are distinct. *)
From Coq Require Import List Ascii String Bool.
From RV Require Import Base.Decimal Model.Bencode Base.HashSpec Proofs.BencodeFacts Model.EvalKeyTags.
Import ListNotations.
Open Scope list_scope.

Lemma pre_of_head f tag fields payload : f <> FUntagged ->
  exists r, pre_of f tag fields payload = "l"%char :: enc_str tag ++ r.
Proof.
  destruct f; intros Hf; [| |congruence].
  - exists (flat_map enc fields ++ ["e"%char]). unfold pre_of, pre_struct, layout. simpl.
    now rewrite <- app_assoc.
  - exists ("e"%char :: payload). unfold pre_of, pre_tag_bytes. simpl.
    rewrite app_nil_r, <- app_assoc. reflexivity.
Qed.

Theorem leading_tag_inj f f' t t' fs fs' p p' :
  f <> FUntagged -> f' <> FUntagged -> pre_of f t fs p = pre_of f' t' fs' p' -> t = t'.
Proof.
  intros Hf Hf' E.
  destruct (pre_of_head f t fs p Hf) as [r Hr]. destruct (pre_of_head f' t' fs' p' Hf') as [r' Hr'].
  rewrite Hr, Hr' in E. injection E as E. now apply enc_str_prefix_free in E.
Qed.

Lemma list_ascii_of_string_inj s s' : list_ascii_of_string s = list_ascii_of_string s' -> s = s'.
Proof.
  intros E. rewrite <- (string_of_list_ascii_of_string s), <- (string_of_list_ascii_of_string s'). now rewrite E.
Qed.

Lemma shipped_kinds_separated : kinds_separated shipped_sites = true.
Proof. vm_compute. reflexivity. Qed.

Theorem shipped_tags_distinct s1 s2 :
  In s1 shipped_sites -> In s2 shipped_sites -> tagged s1 = true -> tagged s2 = true ->
  ts_kind s1 <> ts_kind s2 -> tag_bytes s1 <> tag_bytes s2.
Proof.
  intros I1 I2 T1 T2 K E. apply list_ascii_of_string_inj in E.
  assert (X := shipped_kinds_separated). unfold kinds_separated in X.
  rewrite forallb_forall in X. specialize (X s1 I1). rewrite forallb_forall in X. specialize (X s2 I2).
  rewrite T1, T2, E, String.eqb_refl in X. simpl in X. apply String.eqb_eq in X. contradiction.
Qed.

Theorem shipped_kinds_pre_images_differ s1 s2 fs1 p1 fs2 p2 :
  In s1 shipped_sites -> In s2 shipped_sites -> tagged s1 = true -> tagged s2 = true ->
  ts_kind s1 <> ts_kind s2 ->
  pre_of (ts_form s1) (tag_bytes s1) fs1 p1 <> pre_of (ts_form s2) (tag_bytes s2) fs2 p2.
Proof.
  intros I1 I2 T1 T2 K E. apply (shipped_tags_distinct s1 s2 I1 I2 T1 T2 K).
  eapply leading_tag_inj; [| |exact E]; unfold tagged in *; intros F; rewrite F in *; discriminate.
Qed.
