(** Termination of the tree machine (C09, closed programs): every schedule makes at most
    2 * (number of calls of the program) steps that change the state, and a state in which no
    step changes anything has every created call settled. *)
From Coq Require Import List ZArith Bool Arith Lia.
From RV Require Import Model.EvalTree Proofs.EvalTreeWF Proofs.EvalTreeRun.
Import ListNotations.
Open Scope list_scope.

Definition sumsz (cs : list spec) : nat := fold_right (fun c a => ssize c + a) 0 cs.

(** children of a sequence that have not been created yet *)
Definition rest (sp : spec) (kids : list node) : list spec :=
  match sp with SSeq cs => skipn (length kids) cs | _ => [] end.

Fixpoint pot (n : node) : nat :=
  match n with
  | Node sp ph kids =>
      match ph with
      | PIdle => 2 * ssize sp
      | PRun => 2 * ssize sp - 1
      | _ => list_sum (map pot kids) + 2 * sumsz (rest sp kids)
      end
  end.

Lemma ssize_pos s : 1 <= ssize s.
Proof. destruct s; simpl; lia. Qed.

Lemma pot_idle s : pot (idle s) = 2 * ssize s.
Proof. reflexivity. Qed.

Lemma list_sum_app l1 l2 : list_sum (l1 ++ l2) = list_sum l1 + list_sum l2.
Proof. induction l1; simpl; lia. Qed.

Lemma skipn_nth_cons {A} (l : list A) : forall n c, nth_error l n = Some c -> skipn n l = c :: skipn (S n) l.
Proof.
  induction l as [|a r IH]; intros [|n] c H; simpl in *; try discriminate.
  - injection H as ->. reflexivity.
  - apply IH. exact H.
Qed.

Lemma pots_idle cs : list_sum (map pot (map idle cs)) = 2 * sumsz cs.
Proof. induction cs as [|c cs IH]; simpl; [reflexivity|]. simpl in IH. rewrite IH. unfold sumsz. simpl. lia. Qed.

(** recombine never changes the potential *)
Lemma recombine_pot n : pot (recombine n) = pot n.
Proof.
  destruct n as [sp ph kids]. destruct ph; try reflexivity.
  destruct sp as [z|e|p cs|cs|c|cs|cs]; cbn [recombine]; try reflexivity.
  - destruct (first_ko kids); [reflexivity|]. destruct (all_ok kids); reflexivity.
  - destruct (first_ko kids); [reflexivity|]. destruct (all_ok kids); [|reflexivity].
    destruct (nth_error cs (length kids)) as [c|] eqn:En; [|reflexivity].
    cbn [pot rest]. rewrite map_app, list_sum_app, app_length. simpl.
    replace (length kids + 1) with (S (length kids)) by lia.
    rewrite (skipn_nth_cons cs (length kids) c En). unfold sumsz. simpl. lia.
  - destruct kids as [|k [|k2 r]]; try reflexivity. destruct (nphase k) as [| | |[v|e]]; reflexivity.
  - destruct (forallb kid_done kids); [|reflexivity].
    destruct (first_ko kids); [reflexivity|]. destruct (all_ok kids); reflexivity.
  - destruct (forallb kid_done kids); [|reflexivity]. destruct (all_ok kids); reflexivity.
Qed.

(** * the two actions decrease the potential or do nothing *)
Definition dec_action (f : node -> node) : Prop := forall n, WF n -> f n = n \/ pot (f n) < pot n.

Lemma dec_start : dec_action do_start.
Proof.
  intros [sp ph kids] H. destruct ph; try (left; reflexivity). right. cbn [do_start pot].
  pose proof (ssize_pos sp). lia.
Qed.

Lemma dec_finish : dec_action do_finish.
Proof.
  intros [sp ph kids] H. destruct ph; try (left; reflexivity). right.
  destruct sp as [z|e|p cs|cs|c|cs|cs]; cbn [do_finish].
  - simpl. lia.
  - simpl. lia.
  - rewrite recombine_pot. cbn [pot rest]. rewrite pots_idle. simpl. unfold sumsz. lia.
  - rewrite recombine_pot. cbn [pot rest map list_sum length skipn]. simpl. unfold sumsz. lia.
  - cbn [pot rest map list_sum idle]. simpl. lia.
  - rewrite recombine_pot. cbn [pot rest]. rewrite pots_idle. simpl. unfold sumsz. lia.
  - rewrite recombine_pot. cbn [pot rest]. rewrite pots_idle. simpl. unfold sumsz. lia.
Qed.

(** * stability: every node in evaluation has been recombined *)
Definition ok_eval (n : node) : Prop :=
  match n with
  | Node (SLeaf _) PEval _ | Node (SRaise _) PEval _ => False
  | _ => recombine n = n
  end.

Inductive RS : node -> Prop :=
| RS_node sp ph kids : Forall RS kids -> ok_eval (Node sp ph kids) -> RS (Node sp ph kids).

Lemma RS_inv sp ph kids : RS (Node sp ph kids) -> Forall RS kids /\ ok_eval (Node sp ph kids).
Proof. inversion 1; subst; auto. Qed.

Lemma ok_eval_not_eval sp ph kids : ph <> PEval -> ok_eval (Node sp ph kids).
Proof. intros H. destruct ph; try congruence; destruct sp; reflexivity. Qed.

Lemma all_ok_app_idle kids c : all_ok (kids ++ [idle c]) = None.
Proof. induction kids as [|k r IH]; simpl; [reflexivity|]. rewrite IH. destruct (kid_ok k); reflexivity. Qed.

Lemma first_ko_app_idle kids c : first_ko (kids ++ [idle c]) = first_ko kids.
Proof. induction kids as [|k r IH]; simpl; [reflexivity|]. rewrite IH. reflexivity. Qed.

Lemma recombine_idem sp kids : recombine (recombine (Node sp PEval kids)) = recombine (Node sp PEval kids).
Proof.
  destruct sp as [z|e|p cs|cs|c|cs|cs]; cbn [recombine]; try reflexivity.
  - destruct (first_ko kids) eqn:E1; [reflexivity|]. destruct (all_ok kids) eqn:E2; [reflexivity|].
    cbn [recombine]. rewrite E1, E2. reflexivity.
  - destruct (first_ko kids) eqn:E1; [reflexivity|]. destruct (all_ok kids) eqn:E2.
    + destruct (nth_error cs (length kids)) eqn:E3; [|reflexivity].
      cbn [recombine]. rewrite first_ko_app_idle, E1, all_ok_app_idle. reflexivity.
    + cbn [recombine]. rewrite E1, E2. reflexivity.
  - destruct kids as [|k [|k2 r]]; try reflexivity. destruct (nphase k) as [| | |[v|e]] eqn:E; try reflexivity;
      cbn [recombine]; rewrite E; reflexivity.
  - destruct (forallb kid_done kids) eqn:E0; [|cbn [recombine]; rewrite E0; reflexivity].
    destruct (first_ko kids) eqn:E1; [reflexivity|]. destruct (all_ok kids) eqn:E2; [reflexivity|].
    cbn [recombine]. rewrite E0, E1, E2. reflexivity.
  - destruct (forallb kid_done kids) eqn:E0; [|cbn [recombine]; rewrite E0; reflexivity].
    destruct (all_ok kids); reflexivity.
Qed.

Lemma nkids_recombine_RS sp kids : Forall RS kids -> Forall RS (nkids (recombine (Node sp PEval kids))).
Proof.
  intros H. destruct sp as [z|e|p cs|cs|c|cs|cs]; cbn [recombine]; auto.
  - destruct (first_ko kids); auto. destruct (all_ok kids); auto.
  - destruct (first_ko kids); auto. destruct (all_ok kids); auto. destruct (nth_error cs (length kids)); auto.
    cbn [nkids]. apply Forall_app. split; auto. constructor; [|constructor].
    constructor; [constructor|apply ok_eval_not_eval; discriminate].
  - destruct kids as [|k [|k2 r]]; auto. destruct (nphase k) as [| | |[v|e]]; auto.
  - destruct (forallb kid_done kids); auto. destruct (first_ko kids); auto. destruct (all_ok kids); auto.
  - destruct (forallb kid_done kids); auto. destruct (all_ok kids); auto.
Qed.

Lemma RS_recombine sp kids : (forall z, sp <> SLeaf z) -> (forall e, sp <> SRaise e) ->
  Forall RS kids -> RS (recombine (Node sp PEval kids)).
Proof.
  intros N1 N2 H.
  pose proof (nkids_recombine_RS sp kids H) as HK. pose proof (recombine_idem sp kids) as HI.
  pose proof (nspec_recombine (Node sp PEval kids)) as HS.
  destruct (recombine (Node sp PEval kids)) as [sp' ph' kids'] eqn:E. simpl in HS, HK. subst sp'.
  constructor; auto. destruct ph'; try (apply ok_eval_not_eval; discriminate).
  destruct sp; try exact HI; [exfalso; eapply N1; eauto|exfalso; eapply N2; eauto].
Qed.

Lemma RS_idle s : RS (idle s).
Proof. constructor; [constructor|apply ok_eval_not_eval; discriminate]. Qed.

Lemma RS_start n : RS n -> RS (do_start n).
Proof.
  destruct n as [sp ph kids]. intros H. destruct ph; simpl; auto. apply RS_inv in H. destruct H as [A _].
  constructor; auto. apply ok_eval_not_eval. discriminate.
Qed.

Lemma RS_finish n : RS n -> RS (do_finish n).
Proof.
  destruct n as [sp ph kids]. intros H. destruct ph; try exact H. destruct sp as [z|e|p cs|cs|c|cs|cs]; cbn [do_finish].
  - constructor; [constructor|apply ok_eval_not_eval; discriminate].
  - constructor; [constructor|apply ok_eval_not_eval; discriminate].
  - apply RS_recombine; try discriminate. apply Forall_forall. intros x Hx. apply in_map_iff in Hx.
    destruct Hx as (c & <- & _). apply RS_idle.
  - apply RS_recombine; try discriminate. constructor.
  - constructor; [constructor; [apply RS_idle|constructor]|reflexivity].
  - apply RS_recombine; try discriminate. apply Forall_forall. intros x Hx. apply in_map_iff in Hx.
    destruct Hx as (c & <- & _). apply RS_idle.
  - apply RS_recombine; try discriminate. apply Forall_forall. intros x Hx. apply in_map_iff in Hx.
    destruct Hx as (c & <- & _). apply RS_idle.
Qed.

Lemma upd_nth_id {A} (l : list A) g : forall i, (forall x, nth_error l i = Some x -> g x = x) -> upd_nth l i g = l.
Proof.
  induction l as [|a r IH]; intros [|i] H; simpl; auto.
  - rewrite (H a eq_refl). reflexivity.
  - f_equal. apply IH. exact H.
Qed.

Lemma list_sum_upd_nth (l : list node) g : forall i x,
  nth_error l i = Some x -> list_sum (map pot (upd_nth l i g)) + pot x = list_sum (map pot l) + pot (g x).
Proof.
  induction l as [|a r IH]; intros [|i] x H; simpl in *; try discriminate.
  - injection H as ->. lia.
  - specialize (IH i x H). lia.
Qed.

Section Upd.
Variable f : node -> node.
Hypothesis Hf : good_action f.
Hypothesis HfR : forall n, RS n -> RS (f n).
Hypothesis HfD : dec_action f.

Lemma upd_RS p : forall n, WF n -> RS n -> RS (upd p f n).
Proof.
  induction p as [|i p IH]; intros n HW H; cbn [upd]; [apply HfR; exact H|].
  destruct n as [sp ph kids]. apply RS_inv in H. destruct H as (HK & HO).
  apply WF_inv in HW. destruct HW as (HWk & HM & _).
  set (kids' := upd_nth kids i (upd p f)).
  assert (HK' : Forall RS kids').
  { apply Forall_forall. intros x Hx. apply In_nth_error in Hx. destruct Hx as (j & Hj).
    unfold kids' in Hj. rewrite upd_nth_nth in Hj. rewrite Forall_forall in HK, HWk.
    destruct (Nat.eqb i j).
    - destruct (nth_error kids j) as [y|] eqn:Ey; [|discriminate]. simpl in Hj. injection Hj as <-.
      apply IH; [apply HWk|apply HK]; eapply nth_error_In; eauto.
    - apply HK. eapply nth_error_In; eauto. }
  destruct ph.
  - rewrite recombine_not_eval by discriminate. constructor; auto. apply ok_eval_not_eval. discriminate.
  - rewrite recombine_not_eval by discriminate. constructor; auto. apply ok_eval_not_eval. discriminate.
  - apply RS_recombine; auto; intros z ->; exact HO.
  - rewrite recombine_not_eval by discriminate. constructor; auto. apply ok_eval_not_eval. discriminate.
Qed.

Lemma upd_dec p : forall n, WF n -> RS n -> upd p f n = n \/ pot (upd p f n) < pot n.
Proof.
  induction p as [|i p IH]; intros n HW H; cbn [upd]; [apply HfD; exact HW|].
  destruct n as [sp ph kids]. apply RS_inv in H. destruct H as (HK & HO).
  pose proof HW as HW0. apply WF_inv in HW. destruct HW as (HWk & HM & _).
  destruct (nth_error kids i) as [x|] eqn:Ex.
  - assert (HWx : WF x) by (rewrite Forall_forall in HWk; apply HWk; eapply nth_error_In; eauto).
    assert (HRx : RS x) by (rewrite Forall_forall in HK; apply HK; eapply nth_error_In; eauto).
    destruct (IH x HWx HRx) as [Heq|Hlt].
    + left. rewrite upd_nth_id.
      * destruct ph; try (apply recombine_not_eval; discriminate).
        destruct sp; try exact HO; contradiction.
      * intros y Hy. rewrite Ex in Hy. injection Hy as <-. exact Heq.
    + destruct ph.
      * simpl in HM. subst kids. destruct i; discriminate.
      * simpl in HM. subst kids. destruct i; discriminate.
      * right. rewrite recombine_pot. cbn [pot]. unfold rest. rewrite upd_nth_length.
        pose proof (list_sum_upd_nth kids (upd p f) i x Ex). lia.
      * right. rewrite recombine_not_eval by discriminate. cbn [pot]. unfold rest. rewrite upd_nth_length.
        pose proof (list_sum_upd_nth kids (upd p f) i x Ex). lia.
  - left. rewrite upd_nth_id.
    + destruct ph; try (apply recombine_not_eval; discriminate). destruct sp; try exact HO; contradiction.
    + intros y Hy. congruence.
Qed.
End Upd.

Definition Inv (n : node) : Prop := WF n /\ RS n.

Lemma Inv_idle s : Inv (idle s).
Proof. split; [apply WF_idle|apply RS_idle]. Qed.

Lemma Inv_step n o : Inv n -> Inv (step n o).
Proof.
  intros [HW HR]. split; [now apply step_WF|]. destruct o; simpl.
  - apply upd_RS; auto using good_start, RS_start.
  - apply upd_RS; auto using good_finish, RS_finish.
Qed.

Lemma Inv_run s ops : Inv (run s ops).
Proof.
  unfold run. generalize (Inv_idle s). generalize (idle s). induction ops as [|o ops IH]; intros n H; simpl; auto.
  apply IH. now apply Inv_step.
Qed.

Lemma step_dec n o : Inv n -> step n o = n \/ pot (step n o) < pot n.
Proof.
  intros [HW HR]. destruct o; simpl.
  - apply upd_dec; auto using good_start, RS_start, dec_start.
  - apply upd_dec; auto using good_finish, RS_finish, dec_finish.
Qed.

(** a sequence of steps each of which changes the state *)
Inductive progressing : node -> list op -> Prop :=
| pg_nil n : progressing n []
| pg_cons n o r : step n o <> n -> progressing (step n o) r -> progressing n (o :: r).

Theorem progressing_bound n ops : Inv n -> progressing n ops -> length ops <= pot n.
Proof.
  intros HI H. induction H as [n|n o r Hne _ IH]; simpl; [lia|].
  destruct (step_dec n o HI) as [E|L]; [contradiction|]. specialize (IH (Inv_step n o HI)). lia.
Qed.

(** C09 (closed programs): at most two effective steps per call of the program, whatever the schedule *)
Theorem run_terminates s ops : progressing (idle s) ops -> length ops <= 2 * ssize s.
Proof. intros H. rewrite <- pot_idle. apply progressing_bound; [apply Inv_idle|exact H]. Qed.

(** * a state that no step changes has every created call settled *)
Inductive Settled : node -> Prop :=
| St_node sp o kids : Forall Settled kids -> Settled (Node sp (PDone o) kids).

Section NodeInd.
  Variable P : node -> Prop.
  Hypothesis H : forall sp ph kids, Forall P kids -> P (Node sp ph kids).
  Fixpoint node_ind2 (n : node) : P n :=
    match n with
    | Node sp ph kids => H sp ph kids ((fix go l := match l return Forall P l with
                                                 | [] => Forall_nil _ | x :: r => Forall_cons _ (node_ind2 x) (go r) end) kids)
    end.
End NodeInd.

Lemma recombine_kids sp ph kids :
  nkids (recombine (Node sp ph kids)) = kids \/ exists c, nkids (recombine (Node sp ph kids)) = kids ++ [idle c].
Proof.
  destruct ph; try (left; reflexivity).
  destruct sp as [z|e|p cs|cs|c|cs|cs]; cbn [recombine]; try (left; reflexivity).
  - destruct (first_ko kids); [left; reflexivity|]. destruct (all_ok kids); left; reflexivity.
  - destruct (first_ko kids); [left; reflexivity|]. destruct (all_ok kids); [|left; reflexivity].
    destruct (nth_error cs (length kids)) as [c|]; [right; exists c; reflexivity|left; reflexivity].
  - destruct kids as [|k [|k2 r]]; try (left; reflexivity). destruct (nphase k) as [| | |[v|e]]; left; reflexivity.
  - destruct (forallb kid_done kids); [|left; reflexivity].
    destruct (first_ko kids); [left; reflexivity|]. destruct (all_ok kids); left; reflexivity.
  - destruct (forallb kid_done kids); [|left; reflexivity]. destruct (all_ok kids); left; reflexivity.
Qed.

Lemma upd_cons_fix f i p sp ph kids :
  upd (i :: p) f (Node sp ph kids) = Node sp ph kids -> upd_nth kids i (upd p f) = kids.
Proof.
  cbn [upd]. intros E. set (kids' := upd_nth kids i (upd p f)) in *.
  assert (Hl : length kids' = length kids) by apply upd_nth_length.
  pose proof (f_equal nkids E) as Ek. cbn [nkids] in Ek.
  destruct (recombine_kids sp ph kids') as [H|(c & H)]; rewrite H in Ek; [exact Ek|].
  exfalso. apply (f_equal (@length node)) in Ek. rewrite app_length in Ek. simpl in Ek. lia.
Qed.

Lemma quiescent_kid n : (forall o, step n o = n) ->
  forall i k, nth_error (nkids n) i = Some k -> forall o, step k o = k.
Proof.
  destruct n as [sp ph kids]. intros Q i k Hk o. cbn [nkids] in Hk.
  assert (G : forall f p, upd (i :: p) f (Node sp ph kids) = Node sp ph kids -> upd p f k = k).
  { intros f p E. apply upd_cons_fix in E. apply (f_equal (fun l => nth_error l i)) in E.
    rewrite upd_nth_nth, Nat.eqb_refl, Hk in E. simpl in E. congruence. }
  destruct o as [p|p]; simpl.
  - apply G. exact (Q (OStart (i :: p))).
  - apply G. exact (Q (OFinish (i :: p))).
Qed.

Lemma done_no_ko_all_ok kids :
  Forall Settled kids -> first_ko kids = None -> exists vs, all_ok kids = Some vs.
Proof.
  induction 1 as [|k r Hk _ IH]; simpl; intros Hf; [eauto|].
  destruct Hk as [sp o kk _]. unfold kid_ko, kid_ok in *. simpl in *. destruct o as [v|e]; [|discriminate].
  destruct (IH Hf) as (vs & ->). eauto.
Qed.

Lemma settled_kid_done kids : Forall Settled kids -> forallb kid_done kids = true.
Proof. induction 1 as [|k r Hk _ IH]; simpl; auto. destruct Hk. simpl. exact IH. Qed.

Lemma recombine_phase_not_run sp kids : nphase (recombine (Node sp PEval kids)) <> PRun.
Proof.
  destruct sp as [z|e|p cs|cs|c|cs|cs]; cbn [recombine]; try (simpl; discriminate).
  - destruct (first_ko kids); [simpl; discriminate|]. destruct (all_ok kids); simpl; discriminate.
  - destruct (first_ko kids); [simpl; discriminate|]. destruct (all_ok kids); [|simpl; discriminate].
    destruct (nth_error cs (length kids)); simpl; discriminate.
  - destruct kids as [|k [|k2 r]]; try (simpl; discriminate). destruct (nphase k) as [| | |[v|e]]; simpl; discriminate.
  - destruct (forallb kid_done kids); [|simpl; discriminate].
    destruct (first_ko kids); [simpl; discriminate|]. destruct (all_ok kids); simpl; discriminate.
  - destruct (forallb kid_done kids); [|simpl; discriminate]. destruct (all_ok kids); simpl; discriminate.
Qed.

Theorem quiescent_settled n : Inv n -> (forall o, step n o = n) -> Settled n.
Proof.
  induction n as [sp ph kids IH] using node_ind2. intros [HW HR] Q.
  pose proof (WF_inv _ _ _ HW) as (HWk & HM & _). pose proof (RS_inv _ _ _ HR) as (HRk & HO).
  assert (HS : Forall Settled kids).
  { apply Forall_forall. intros k Hin. apply In_nth_error in Hin. destruct Hin as (i & Hi).
    rewrite Forall_forall in IH, HWk, HRk. apply IH; [eapply nth_error_In; eauto|split|].
    - apply HWk. eapply nth_error_In; eauto.
    - apply HRk. eapply nth_error_In; eauto.
    - eapply (quiescent_kid (Node sp ph kids)); eauto. }
  destruct ph as [| | |o].
  - exfalso. specialize (Q (OStart [])). simpl in Q. discriminate.
  - exfalso. specialize (Q (OFinish [])). cbn [step upd] in Q. apply (f_equal nphase) in Q. cbn [nphase] in Q.
    destruct sp as [z|e|p cs|cs|c|cs|cs]; cbn [do_finish] in Q; try discriminate;
      try (eapply recombine_phase_not_run; exact Q).
  - exfalso. destruct sp as [z|e|p cs|cs|c|cs|cs]; try exact HO; cbn [ok_eval recombine] in HO.
    + destruct (first_ko kids) eqn:E1; [discriminate|].
      destruct (done_no_ko_all_ok kids HS E1) as (vs & E2). rewrite E2 in HO. discriminate.
    + destruct (first_ko kids) eqn:E1; [discriminate|].
      destruct (done_no_ko_all_ok kids HS E1) as (vs & E2). rewrite E2 in HO.
      destruct (nth_error cs (length kids)); [|discriminate].
      injection HO as HO. apply (f_equal (@length node)) in HO. rewrite app_length in HO. simpl in HO. lia.
    + simpl in HM. destruct kids as [|k [|k2 r]]; try discriminate.
      inversion HS as [|? ? Hk _]; subst. destruct Hk as [spk ok kk _]. simpl in HO. destruct ok; discriminate.
    + rewrite (settled_kid_done kids HS) in HO. destruct (first_ko kids) eqn:E1; [discriminate|].
      destruct (done_no_ko_all_ok kids HS E1) as (vs & E2). rewrite E2 in HO. discriminate.
    + rewrite (settled_kid_done kids HS) in HO. destruct (all_ok kids); discriminate.
  - constructor. exact HS.
Qed.

(** every reachable quiescent state is settled: the root has its outcome and so has every created call *)
Theorem run_quiescent_settled s ops :
  (forall o, step (run s ops) o = run s ops) -> Settled (run s ops) /\ exists o, result (run s ops) = Some o.
Proof.
  intros Q. pose proof (quiescent_settled _ (Inv_run s ops) Q) as H. split; [exact H|].
  destruct H as [sp o kids _]. exists o. reflexivity.
Qed.
