(** Event/phase consistency of the job machine, for the deadlock-freedom half of C09:
    a job that holds units is with an executor (phase PSubmitted) or its completion event
    (Done / Reject) is queued. *)
From Coq Require Import List ZArith Bool Arith Lia Permutation.
From RV Require Import Model.JobMachine Proofs.JobBase Proofs.JobRes Proofs.JobRes2 Proofs.JobRes3.
Import ListNotations.
Open Scope list_scope.

Definition good (x : job) : Prop := jcached x = true \/ 1 <= jreleases x.
Definition good' (x : job) : Prop := good x \/ jholds x = true.

Definition evjob (e : event) : nat :=
  match e with EvExec j | EvDone j | EvReject j _ | EvResolve j _ => j end.

(** [ex]: the job whose event has just been popped and whose handler is running; the
    holder clause is re-established for it by the handler. *)
Record Live (s : state) (ex : option nat) : Prop := {
  l_sub : forall j x, getj s j = Some x -> jphase x = PSubmitted -> jholds x = true \/ 1 <= jreleases x;
  l_eval : forall j x, getj s j = Some x -> jphase x = PEvaluating \/ jphase x = PEvalQ -> good x;
  l_done : forall j x, getj s j = Some x -> In (EvDone j) (queue s) -> good' x;
  l_res : forall j x v, getj s j = Some x -> In (EvResolve j v) (queue s) -> good x;
  l_hold : forall j x, getj s j = Some x -> jholds x = true -> ex <> Some j ->
           jphase x = PSubmitted \/ In (EvDone j) (queue s) \/ exists e, In (EvReject j e) (queue s);
  l_bound : forall e, In e (queue s) -> evjob e < length (jobs s)
}.

Lemma in_remove_nth {A} (q : list A) i e : In e (remove_nth q i) -> In e q.
Proof.
  revert i. induction q as [|a q IH]; intros [|i]; simpl; auto.
  intros H. destruct H as [H|H]; auto. right. eapply IH; eauto.
Qed.

Lemma in_remove_nth_other {A} (q : list A) i e0 e :
  nth_error q i = Some e0 -> In e q -> e <> e0 -> In e (remove_nth q i).
Proof.
  revert i. induction q as [|a q IH]; intros [|i]; simpl; try discriminate.
  - intros [= ->] [H|H] Hne; auto; congruence.
  - intros Hn [H|H] Hne; [auto|right; eauto].
Qed.

Section L.

Lemma live_setj s ex j x y :
  getj s j = Some x -> Live s ex ->
  (good x -> good y) -> (jholds x = true -> jholds y = true \/ good y) ->
  (jphase y = PSubmitted -> jholds y = true \/ 1 <= jreleases y) ->
  (jphase y = PEvaluating \/ jphase y = PEvalQ -> good y) ->
  (jholds y = true -> ex <> Some j ->
     jphase y = PSubmitted \/ In (EvDone j) (queue s) \/ exists e, In (EvReject j e) (queue s)) ->
  Live (setj s j y) ex.
Proof.
  intros Hx L G Hxy P1 P2 P3.
  assert (Hg : forall k z, getj (setj s j y) k = Some z ->
                 (k = j /\ z = y) \/ (k <> j /\ getj s k = Some z)).
  { intros k z H. destruct (Nat.eq_dec j k) as [->|Hne].
    - rewrite (getj_setj_same _ _ _ _ Hx) in H. injection H as <-. auto.
    - rewrite getj_setj_other in H by assumption. auto. }
  destruct L as [a1 a2 a3 a4 a5 a6].
  constructor; change (queue (setj s j y)) with (queue s).
  - intros k z Hz Hp. destruct (Hg _ _ Hz) as [[-> ->]|[Hne Hz']]; eauto.
  - intros k z Hz Hp. destruct (Hg _ _ Hz) as [[-> ->]|[Hne Hz']]; eauto.
  - intros k z Hz Hin. destruct (Hg _ _ Hz) as [[-> ->]|[Hne Hz']]; eauto.
    destruct (a3 _ _ Hx Hin) as [Hgd|Hh]; [left; auto|]. destruct (Hxy Hh); [now right|now left].
  - intros k z v Hz Hin. destruct (Hg _ _ Hz) as [[-> ->]|[Hne Hz']]; eauto.
  - intros k z Hz Hh He. destruct (Hg _ _ Hz) as [[-> ->]|[Hne Hz']]; eauto.
  - intros e He. simpl. rewrite length_set_nth. auto.
Qed.

(** a phase change of a job that does not hold units *)
Lemma live_phase s ex j x p :
  getj s j = Some x -> Live s ex -> jholds x = false ->
  p <> PSubmitted -> (p = PEvaluating \/ p = PEvalQ -> good x) -> Live (setj s j (with_phase x p)) ex.
Proof.
  intros Hx L Hh Hp Hg. apply (live_setj s ex j x); auto; simpl; try congruence; try tauto.
Qed.

Lemma live_enqueue s ex e :
  Live s ex ->
  (exists x, getj s (evjob e) = Some x) ->
  (forall j x, e = EvDone j -> getj s j = Some x -> good' x) ->
  (forall j v x, e = EvResolve j v -> getj s j = Some x -> good x) ->
  Live (enqueue s e) ex.
Proof.
  intros L [x0 H0] H1 H2. destruct L as [a1 a2 a3 a4 a5 a6].
  constructor; change (getj (enqueue s e)) with (getj s); simpl queue; simpl jobs; eauto.
  - intros j x Hx Hin. apply in_app_or in Hin. destruct Hin as [Hin|[E|[]]]; eauto.
  - intros j x v Hx Hin. apply in_app_or in Hin. destruct Hin as [Hin|[E|[]]]; eauto.
  - intros j x Hx Hh He. destruct (a5 _ _ Hx Hh He) as [H|[H|(e0 & H)]]; auto.
    + right. left. apply in_or_app. now left.
    + right. right. exists e0. apply in_or_app. now left.
  - intros e1 He. apply in_app_or in He. destruct He as [He|[<-|[]]]; auto. eapply getj_lt; eauto.
Qed.

Lemma live_frame s s' ex :
  jobs s' = jobs s -> queue s' = queue s -> Live s ex -> Live s' ex.
Proof.
  intros Hj Hq L. assert (Hg : forall k, getj s' k = getj s k) by (intros; unfold getj; now rewrite Hj).
  destruct L. constructor; intros *; rewrite ?Hg, ?Hq, ?Hj; eauto.
Qed.

(** popping the event of job [evjob e]: its holder clause is suspended *)
Lemma live_pop s i e :
  nth_error (queue s) i = Some e -> Live s None -> Live (pop_queue s i) (Some (evjob e)).
Proof.
  intros Hn L. destruct L as [a1 a2 a3 a4 a5 a6].
  constructor; change (getj (pop_queue s i)) with (getj s); simpl queue; simpl jobs; eauto using in_remove_nth.
  intros j x Hx Hh Hne.
  assert (Hj : j <> evjob e) by congruence.
  destruct (a5 _ _ Hx Hh) as [H|[H|(r & H)]]; auto; try discriminate.
  - right. left. apply (in_remove_nth_other _ _ e _ Hn H). intros <-. apply Hj. reflexivity.
  - right. right. exists r. apply (in_remove_nth_other _ _ e _ Hn H). intros <-. apply Hj. reflexivity.
Qed.

(** the handler is over: the popped job does not hold (or satisfies the clause again) *)
Lemma live_close s j :
  Live s (Some j) ->
  (forall x, getj s j = Some x -> jholds x = true ->
     jphase x = PSubmitted \/ In (EvDone j) (queue s) \/ exists e, In (EvReject j e) (queue s)) ->
  Live s None.
Proof.
  intros L H. destruct L as [a1 a2 a3 a4 a5 a6]. constructor; eauto.
  intros k x Hx Hh _. destruct (Nat.eq_dec k j) as [->|Hne]; eauto. apply a5; auto. congruence.
Qed.

Lemma live_weaken s j : Live s None -> Live s (Some j).
Proof. intros L. destruct L as [a1 a2 a3 a4 a5 a6]. constructor; eauto. intros k x Hx Hh _. apply a5; auto. discriminate. Qed.
End L.
