(** Deadlock freedom of the limits queue (C09): at quiescence nobody waits for resources.
    For the variant that releases iff the job holds units and re-checks waiting jobs when a
    nominated job ends up collapsed or cached. *)
From Coq Require Import List ZArith Bool Arith Lia Permutation.
From RV Require Import Model.JobMachine Proofs.JobBase Proofs.JobRes Proofs.JobRes2 Proofs.JobRes3.
Import ListNotations.
Open Scope list_scope.

Definition good (x : job) : Prop := jcached x = true \/ 1 <= jreleases x.
Definition good' (x : job) : Prop := good x \/ jholds x = true.

Record Live (c : config) (s : state) : Prop := {
  l_sub : forall j x, getj s j = Some x -> jphase x = PSubmitted -> jholds x = true \/ 1 <= jreleases x;
  l_eval : forall j x, getj s j = Some x -> jphase x = PEvaluating \/ jphase x = PEvalQ -> good x;
  l_done : forall j x, getj s j = Some x -> In (EvDone j) (queue s) -> good' x;
  l_res : forall j x v, getj s j = Some x -> In (EvResolve j v) (queue s) -> good x;
  l_hold : forall j x, getj s j = Some x -> jholds x = true ->
           jphase x = PSubmitted \/ In (EvDone j) (queue s) \/ exists e, In (EvReject j e) (queue s);
  l_feas : forall j x, getj s j = Some x -> within c (fun _ => 0%Z) (jlimits x) = true
}.

Definition Wake (s : state) : Prop :=
  waiting s <> [] -> (exists j x, getj s j = Some x /\ jholds x = true) \/ exec_ids (queue s) <> [].

Lemma in_remove_nth {A} (q : list A) i e : In e (remove_nth q i) -> In e q.
Proof.
  revert i. induction q as [|a q IH]; intros [|i]; simpl; auto.
  intros H. destruct H as [H|H]; auto. right. eapply IH; eauto.
Qed.

Lemma in_remove_nth_other {A} (q : list A) i e0 e :
  nth_error q i = Some e0 -> In e q -> e <> e0 -> In e (remove_nth q i).
Proof.
  revert i. induction q as [|a q IH]; intros [|i]; simpl; try discriminate.
  - intros [= ->] [H|H] Hne; auto; congruence.
  - intros Hn [H|H] Hne; [auto|right; eauto].
Qed.

(** ** Generic preservation lemmas *)
Section L.
Variable c : config.

(** replacing job j by y *)
Lemma live_setj s j x y :
  getj s j = Some x -> Live c s ->
  (good x -> good y) -> (jholds y = true -> jholds x = true) -> (jholds x = true -> jholds y = true \/ good y) ->
  jlimits y = jlimits x ->
  (jphase y = PSubmitted -> jholds y = true \/ 1 <= jreleases y) ->
  (jphase y = PEvaluating \/ jphase y = PEvalQ -> good y) ->
  (jholds y = true -> jphase y = PSubmitted \/ In (EvDone j) (queue s) \/ exists e, In (EvReject j e) (queue s)) ->
  Live c (setj s j y).
Proof.
  intros Hx L G Hyx Hxy Hl P1 P2 P3.
  assert (Hg : forall k z, getj (setj s j y) k = Some z ->
                 (k = j /\ z = y) \/ (k <> j /\ getj s k = Some z)).
  { intros k z H. destruct (Nat.eq_dec j k) as [->|Hne].
    - rewrite (getj_setj_same _ _ _ _ Hx) in H. injection H as <-. auto.
    - rewrite getj_setj_other in H by assumption. auto. }
  destruct L as [a1 a2 a3 a4 a5 a7].
  constructor; change (queue (setj s j y)) with (queue s); change (waiting (setj s j y)) with (waiting s).
  - intros k z Hz Hp. destruct (Hg _ _ Hz) as [[-> ->]|[Hne Hz']]; eauto.
  - intros k z Hz Hp. destruct (Hg _ _ Hz) as [[-> ->]|[Hne Hz']]; eauto.
  - intros k z Hz Hin. destruct (Hg _ _ Hz) as [[-> ->]|[Hne Hz']]; eauto.
    destruct (a3 _ _ Hx Hin) as [Hgd|Hh]; [left; auto|]. destruct (Hxy Hh); [now right|now left].
  - intros k z v Hz Hin. destruct (Hg _ _ Hz) as [[-> ->]|[Hne Hz']]; eauto.
  - intros k z Hz Hh. destruct (Hg _ _ Hz) as [[-> ->]|[Hne Hz']]; eauto.
  - intros k z Hz. destruct (Hg _ _ Hz) as [[-> ->]|[Hne Hz']]; eauto. rewrite Hl. eauto.
Qed.

(** a phase change of a job that does not hold units *)
Lemma live_phase s j x p :
  getj s j = Some x -> Live c s -> jholds x = false ->
  p <> PSubmitted -> (p = PEvaluating \/ p = PEvalQ -> good x) -> Live c (setj s j (with_phase x p)).
Proof.
  intros Hx L Hh Hp Hg. apply (live_setj s j x); auto; simpl; try congruence; try tauto.
Qed.

Lemma live_enqueue s e :
  Live c s ->
  (forall j x, e = EvDone j -> getj s j = Some x -> good' x) ->
  (forall j v x, e = EvResolve j v -> getj s j = Some x -> good x) ->
  Live c (enqueue s e).
Proof.
  intros L H1 H2. destruct L as [a1 a2 a3 a4 a5 a7].
  constructor; change (getj (enqueue s e)) with (getj s);
    simpl queue; eauto.
  - intros j x Hx Hin. apply in_app_or in Hin. destruct Hin as [Hin|[E|[]]]; eauto.
  - intros j x v Hx Hin. apply in_app_or in Hin. destruct Hin as [Hin|[E|[]]]; eauto.
  - intros j x Hx Hh. destruct (a5 _ _ Hx Hh) as [H|[H|(e0 & H)]]; auto.
    + right. left. apply in_or_app. now left.
    + right. right. exists e0. apply in_or_app. now left.
Qed.

Lemma live_frame s s' :
  jobs s' = jobs s -> queue s' = queue s -> Live c s -> Live c s'.
Proof.
  intros Hj Hq L. assert (Hg : forall k, getj s' k = getj s k) by (intros; unfold getj; now rewrite Hj).
  destruct L. constructor; intros *; rewrite ?Hg, ?Hq; eauto.
Qed.

(** popping an event *)
Lemma live_pop s i e :
  nth_error (queue s) i = Some e -> Live c s ->
  (forall j x, getj s j = Some x -> jholds x = true ->
     (e = EvDone j \/ exists r, e = EvReject j r) -> False) ->
  Live c (pop_queue s i).
Proof.
  intros Hn L Hne. destruct L as [a1 a2 a3 a4 a5 a7].
  constructor; change (getj (pop_queue s i)) with (getj s); simpl queue; eauto using in_remove_nth.
  intros j x Hx Hh. destruct (a5 _ _ Hx Hh) as [H|[H|(r & H)]]; auto.
  - right. left. apply (in_remove_nth_other _ _ e _ Hn H). intros E. apply (Hne j x Hx Hh). left. now symmetry.
  - right. right. exists r. apply (in_remove_nth_other _ _ e _ Hn H). intros E. apply (Hne j x Hx Hh). right. exists r. now symmetry.
Qed.
End L.
