(** Concrete job trees: the three deviations of the code as shipped, and a non-vacuity example (C27). *)
From Coq Require Import List ZArith NArith Bool.
From RV Require Import Model.Options Proofs.OptionsBase Proofs.OptionsJob Proofs.OptionsChain.
Import ListNotations.
Open Scope list_scope.

Definition k_memory : key := 3%N.
Definition k_a : key := 4%N.
Definition k_b : key := 5%N.

Definition plain (uid : N) (kids : list jtree) : jtree := JNode uid empty_node kids.

(** parent.export_options(a=1).options(b=2)(...) with one child *)
Definition w_d1 : jtree :=
  JNode 1%N {| nd_def := {| td_opts := []; td_export := [] |};
              nd_chain := [CExport [(k_a, OLit (AInt 1))]; COpt [(k_b, OLit (AInt 2))]] |}
        [plain 2%N []].

Lemma d1_refuted : forall ev,
  In (CExport [(k_a, OLit (AInt 1))]) (nd_chain (root_node w_d1)) /\
  (exists uid st es par, walk ev shipped false None w_d1 [0%nat] = Ok (uid, st, es, par) /\
                         lookup k_a (js_opts st) = None /\ mem k_a (js_export st) = false) /\
  (exists uid st es par, walk ev fixed false None w_d1 [0%nat] = Ok (uid, st, es, par) /\
                         lookup k_a (js_opts st) = Some (AInt 1) /\ mem k_a (js_export st) = true).
Proof.
  intros ev. split; [left; reflexivity|].
  split; eexists _, _, _, _; (split; [reflexivity|split; reflexivity]).
Qed.

(** @task(export_options={"cache": False}) parent with one child *)
Definition w_d2 : jtree :=
  JNode 1%N {| nd_def := {| td_opts := []; td_export := [(k_cache, OLit (ABool false))] |}; nd_chain := [] |}
        [plain 2%N []].

Lemma d2_refuted : forall ev,
  (exists uid st es par, walk ev shipped false None w_d2 [] = Ok (uid, st, es, par) /\
                         lookup k_cache_scope (js_opts st) = Some (AScope SCse)) /\
  (exists uid st es par, walk ev shipped false None w_d2 [0%nat] = Ok (uid, st, es, par) /\
                         lookup k_cache_scope (js_opts st) = None) /\
  (exists uid st es par, walk ev fixed false None w_d2 [0%nat] = Ok (uid, st, es, par) /\
                         lookup k_cache_scope (js_opts st) = Some (AScope SCse)).
Proof.
  intros ev. split; [|split]; eexists _, _, _, _; (split; reflexivity).
Qed.

(** @task(memory=<expression>) called as the root of the execution *)
Definition w_d3 : jtree :=
  JNode 1%N {| nd_def := {| td_opts := [(k_memory, OExpr 3%N)]; td_export := [] |}; nd_chain := [] |} [].

Lemma d3_refuted : forall ev,
  run_execution ev shipped false false w_d3 = Err ERootExpr /\
  run_execution ev fixed false false w_d3 = Ok [(1%N, [(k_memory, ev 3%N)], []); (3%N, [], [])].
Proof. intros ev. split; reflexivity. Qed.

(** non-vacuity: three generations; the grandparent exports memory=<expression 9> (evaluated to 7)
    and sets a=1 without exporting it; the parent overrides memory at call time and turns
    provenance off; the child defines memory=5, a=0 and asks for cache_scope=BACKEND at call time.
    run(cache=False). *)
Definition ex_tree : jtree :=
  JNode 1%N {| nd_def := {| td_opts := [(k_a, OLit (AInt 1))]; td_export := [(k_memory, OExpr 9%N)] |}; nd_chain := [] |}
    [JNode 2%N {| nd_def := {| td_opts := []; td_export := [] |};
                 nd_chain := [COpt [(k_memory, OLit (AInt 2)); (k_prov, OLit (ABool false))]] |}
       [JNode 3%N {| nd_def := {| td_opts := [(k_memory, OLit (AInt 5)); (k_a, OLit (AInt 0))]; td_export := [] |};
                    nd_chain := [COpt [(k_cache_scope, OLit (AScope SBackend))]] |} []];
     plain 4%N []].

Definition ex_ev : N -> atom := ev_table [(9%N, AInt 7)].

Definition ex_expected : list obs :=
  [ (1%N, [(k_cache_scope, AScope SCse); (k_a, AInt 1); (k_memory, AInt 7)], [k_memory]);
    (9%N, [(k_cache_scope, AScope SCse)], []);
    (2%N, [(k_cache_scope, AScope SNone); (k_memory, AInt 2); (k_prov, ABool false)], [k_prov; k_memory]);
    (3%N, [(k_cache_scope, AScope SNone); (k_prov, ABool false); (k_memory, AInt 2); (k_a, AInt 0)], [k_prov; k_memory]);
    (4%N, [(k_cache_scope, AScope SCse); (k_memory, AInt 7)], [k_memory]) ].

(** the model's run, compared as mappings ([res_obs_match]: same jobs, same options, same exported names) *)
Lemma ex_run : res_obs_match (run_execution ex_ev shipped true true ex_tree) (Ok ex_expected) = true.
Proof. vm_compute. reflexivity. Qed.

(** the hypotheses of the tree theorems are satisfiable on it: the grandchild exists *)
Lemma ex_walk : exists uid st es par, walk ex_ev shipped true None ex_tree [0%nat; 0%nat] = Ok (uid, st, es, par)
  /\ lookup k_memory (js_opts st) = Some (AInt 2) /\ lookup k_a (js_opts st) = Some (AInt 0)
  /\ lookup k_cache_scope (js_opts st) = Some (AScope SNone) /\ lookup k_prov (js_opts st) = Some (ABool false).
Proof. eexists _, _, _, _. split; [vm_compute; reflexivity|]. repeat split. Qed.
