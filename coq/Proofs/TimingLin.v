(** `_preprocess_args` once per job (the repaired call site): if no Handle state is passed to two
    sibling calls, every fork is a first fork, every reachable state is "good", and all complete
    runs agree — whatever the completion order and whoever waited for limits. *)
From Coq Require Import List ZArith Bool Arith Lia.
From RV Require Import Model.Timing Proofs.TimingBase Proofs.TimingSem Proofs.TimingStep Proofs.TimingInv
  Proofs.TimingHF Proofs.TimingGraph.
Import ListNotations.
Open Scope list_scope.

(* ------------------------------------------------------------------------------------------ *)
(** * Counting *)
Lemma count_app h l m : count_v h (l ++ m) = count_v h l + count_v h m.
Proof. induction l; simpl; auto. rewrite IHl. lia. Qed.

Lemma count_single h x : count_v h [x] = if value_eqb x h then 1 else 0.
Proof. simpl. lia. Qed.

Section Count.
  Variable c : cfg.

  Lemma lookup_incr f v h : lookup (incr f v) h = lookup f h + count_v h [v].
  Proof.
    rewrite count_single. destruct (value_eq_dec v h) as [->|N].
    - rewrite lookup_incr_same, value_eqb_refl. lia.
    - rewrite lookup_incr_other, value_eqb_neq; auto.
  Qed.

  Lemma prep_count : forall v f h, lookup (fst (prep_v c f v)) h = lookup f h + count_v h (handles_v v).
  Proof.
    induction v as [n|l IH|n|hh k0 IH|n t l IH] using value_ind'; intros f h;
      try (simpl; apply lookup_incr); try (simpl; lia).
    rewrite prep_v_VList. simpl handles_v.
    assert (E : forall f, lookup (fst (prep_l c f l)) h = lookup f h + count_v h (flat_map handles_v l)).
    { clear f. induction IH as [|x l Hx Hl IHl]; intro f; simpl; [lia|].
      specialize (Hx f h). destruct (prep_v c f x) as [f1 x'] eqn:P1. simpl in Hx.
      specialize (IHl f1). destruct (prep_l c f1 l) as [f2 l'] eqn:P2. simpl in *.
      rewrite count_app. lia. }
    specialize (E f). destruct (prep_l c f l) as [f' l']. simpl in *. exact E.
  Qed.

  Lemma prep_l_count l : forall f h, lookup (fst (prep_l c f l)) h = lookup f h + count_v h (handles_l l).
  Proof.
    unfold handles_l. induction l as [|x l IH]; intros f h; simpl; [lia|].
    pose proof (prep_count x f h) as Hx. destruct (prep_v c f x) as [f1 x'] eqn:P1. simpl in Hx.
    specialize (IH f1 h). destruct (prep_l c f1 l) as [f2 l'] eqn:P2. simpl in *.
    rewrite count_app. lia.
  Qed.

  (** when none of the Handles of [v] was forked before and none occurs twice, every fork is a first fork *)
  Lemma first_keys : forall v f,
      (forall h, 0 < count_v h (handles_v v) -> lookup f h = 0) ->
      (forall h, count_v h (handles_v v) <= 1) ->
      snd (prep_v c f v) = keys_v c (first_order c) v.
  Proof.
    assert (Leaf : forall v f, is_handle v = true -> handles_v v = [v] ->
                               (forall h, 0 < count_v h [v] -> lookup f h = 0) ->
                               lookup (if read_after_incr c then incr f v else f) v = first_order c).
    { intros v f _ _ Z. assert (lookup f v = 0) by (apply Z; rewrite count_single, value_eqb_refl; lia).
      unfold first_order. destruct (read_after_incr c); auto. rewrite lookup_incr_same. lia. }
    induction v as [n|l IH|n|hh k0 IH|n t l IH] using value_ind'; intros f Z U;
      try reflexivity; try (simpl; unfold fork_with; f_equal; f_equal; apply Leaf; auto; fail).
    rewrite prep_v_VList. simpl handles_v in *. simpl keys_v.
    assert (E : forall f, (forall h, 0 < count_v h (flat_map handles_v l) -> lookup f h = 0) ->
                          snd (prep_l c f l) = map (keys_v c (first_order c)) l).
    { clear f Z. induction IH as [|x l Hx Hl IHl]; intros f Z; simpl in *; auto.
      assert (Ux : forall h, count_v h (handles_v x) <= 1).
      { intro h. specialize (U h). rewrite count_app in U. lia. }
      assert (Ul : forall h, count_v h (flat_map handles_v l) <= 1).
      { intro h. specialize (U h). rewrite count_app in U. lia. }
      assert (Zx : forall h, 0 < count_v h (handles_v x) -> lookup f h = 0).
      { intros h H. apply Z. rewrite count_app. lia. }
      specialize (Hx f Zx Ux). pose proof (fun h => prep_count x f h) as Cx.
      destruct (prep_v c f x) as [f1 x'] eqn:P1. simpl in Hx, Cx.
      assert (Z1 : forall h, 0 < count_v h (flat_map handles_v l) -> lookup f1 h = 0).
      { intros h H. rewrite Cx. specialize (U h). rewrite count_app in U.
        rewrite Z by (rewrite count_app; lia). lia. }
      specialize (IHl Ul f1 Z1). destruct (prep_l c f1 l) as [f2 l'] eqn:P2. simpl in *. congruence. }
    specialize (E f Z). destruct (prep_l c f l) as [f' l']. simpl in *. now rewrite E.
  Qed.

  Lemma first_keys_l l : forall f,
      (forall h, 0 < count_v h (handles_l l) -> lookup f h = 0) ->
      (forall h, count_v h (handles_l l) <= 1) ->
      snd (prep_l c f l) = keys_l c (first_order c) l.
  Proof.
    unfold handles_l, keys_l. induction l as [|x l IH]; intros f Z U; simpl in *; auto.
    assert (Ux : forall h, count_v h (handles_v x) <= 1).
    { intro h. specialize (U h). rewrite count_app in U. lia. }
    assert (Ul : forall h, count_v h (flat_map handles_v l) <= 1).
    { intro h. specialize (U h). rewrite count_app in U. lia. }
    assert (Zx : forall h, 0 < count_v h (handles_v x) -> lookup f h = 0).
    { intros h H. apply Z. rewrite count_app. lia. }
    pose proof (first_keys x f Zx Ux) as Hx. pose proof (fun h => prep_count x f h) as Cx.
    destruct (prep_v c f x) as [f1 x'] eqn:P1. simpl in Hx, Cx.
    assert (Z1 : forall h, 0 < count_v h (flat_map handles_v l) -> lookup f1 h = 0).
    { intros h H. rewrite Cx. specialize (U h). rewrite count_app in U.
      rewrite Z by (rewrite count_app; lia). lia. }
    specialize (IH f1 Z1 Ul). destruct (prep_l c f1 l) as [f2 l'] eqn:P2. simpl in *. congruence.
  Qed.
End Count.

(* ------------------------------------------------------------------------------------------ *)
(** * [uses] under state updates *)
Lemma count_flat_upd {A} (g : A -> list value) h l k old x :
  nth_error l k = Some old ->
  count_v h (flat_map g (upd l k x)) + count_v h (g old) = count_v h (flat_map g l) + count_v h (g x).
Proof.
  revert k. induction l as [|y l IH]; intros [|k] N; simpl in *; try discriminate.
  - inversion N. subst. rewrite !count_app. lia.
  - rewrite !count_app. specialize (IH k N). lia.
Qed.

Lemma uses_set_st s k kb st' p h :
  get s k = Some kb ->
  count_v h (uses (set_st s k st') p) + count_v h (contrib p kb)
  = count_v h (uses s p) + count_v h (contrib p (with_st kb st')).
Proof.
  intro G. unfold uses, set_st. unfold get in G. rewrite G. now apply count_flat_upd.
Qed.

Lemma contrib_same_raw p kb st' : st_raw st' = st_raw (j_st kb) -> contrib p (with_st kb st') = contrib p kb.
Proof. unfold contrib. simpl. now intros ->. Qed.

Lemma uses_set_st_same s k kb st' p h :
  get s k = Some kb -> st_raw st' = st_raw (j_st kb) ->
  count_v h (uses (set_st s k st') p) = count_v h (uses s p).
Proof.
  intros G R. pose proof (uses_set_st s k kb st' p h G) as E. rewrite (contrib_same_raw _ _ _ R) in E. lia.
Qed.

Lemma uses_app s t p : uses (s ++ t) p = uses s p ++ uses t p.
Proof. unfold uses. apply flat_map_app. Qed.

Lemma uses_created p (cs : list call) j :
  uses (map (fun ca : call => mkJob (Some j) (fst ca) (snd ca) SCreated) cs) p = [].
Proof. unfold uses. induction cs; simpl; auto. Qed.

Lemma uses_nil s p : (forall k kb, get s k = Some kb -> j_parent kb <> Some p) -> uses s p = [].
Proof.
  unfold uses, get. induction s as [|jb s IH]; intro H; simpl; auto.
  rewrite IH.
  - rewrite app_nil_r. unfold contrib. specialize (H 0 jb eq_refl).
    destruct (j_parent jb) as [p'|]; auto. destruct (st_raw (j_st jb)); auto.
    destruct (Nat.eqb_spec p' p); auto. congruence.
  - intros k kb G. apply (H (S k) kb G).
Qed.

(* ------------------------------------------------------------------------------------------ *)
Section Lin.
  Variable c : cfg.
  Variable body : nat -> list value -> expr.
  Variable t0 : nat.
  Variable args0 : list value.
  Hypothesis once : pre_every_entry c = false.
  Hypothesis per_parent : forks_per_parent c = true.

  Record LInv (s : state) : Prop := {
    L_forks : forall p pb raw pre e kids f, get s p = Some pb -> j_st pb = SEval raw pre e kids f ->
        forall h, lookup f h = count_v h (uses s p);
    L_pre : forall k kb p raw pre, get s k = Some kb -> j_parent kb = Some p ->
        st_raw (j_st kb) = Some raw -> st_pre (j_st kb) = Some pre ->
        exists f0, pre = snd (prep_l c f0 raw) /\
                   forall h, lookup f0 h + count_v h (handles_l raw) <= count_v h (uses s p);
    L_root : forall k kb raw pre, get s k = Some kb -> j_parent kb = None ->
        st_raw (j_st kb) = Some raw -> st_pre (j_st kb) = Some pre -> pre = keys_l c (root_order c) raw
  }.

  Lemma LInv_init : LInv (init t0 args0).
  Proof.
    constructor.
    - intros [|[|p]] pb raw pre e kids f G S; simpl in G; try discriminate. inversion G. subst. discriminate.
    - intros [|[|p]] kb p0 raw pre G P; simpl in G; try discriminate. inversion G. subst. discriminate.
    - intros [|[|p]] kb raw pre G P R; simpl in G; try discriminate. inversion G. subst. discriminate.
  Qed.

  Lemma LInv_good s : LInv s -> linear s -> good c s.
  Proof.
    intros I Lin j jb raw pre G R P. destruct (j_parent jb) as [p|] eqn:Pa.
    - destruct (L_pre _ I _ _ _ _ _ G Pa R P) as (f0 & -> & B). unfold pre1. apply first_keys_l.
      + intros h H. specialize (B h). specialize (Lin p h). lia.
      + intro h. specialize (B h). specialize (Lin p h). lia.
    - eapply L_root; eauto.
  Qed.

  (** the Handle uses only grow *)
  Lemma uses_mono s o s' p h : step c body s o = Some s' -> count_v h (uses s p) <= count_v h (uses s' p).
  Proof.
    intro St. apply step_inv in St. destruct St as (L & A & _).
    assert (Gen : forall (s s' : state),
               (forall k kb, nth_error s k = Some kb ->
                             exists kb', nth_error s' k = Some kb' /\ count_v h (contrib p kb) <= count_v h (contrib p kb')) ->
               count_v h (flat_map (contrib p) s) <= count_v h (flat_map (contrib p) s')).
    { clear. induction s as [|x s IH]; intros s' H; simpl; [lia|].
      destruct (H 0 x eq_refl) as (x' & N & Le). destruct s' as [|y s']; simpl in N; try discriminate.
      inversion N. subst y. simpl. rewrite !count_app.
      assert (count_v h (flat_map (contrib p) s) <= count_v h (flat_map (contrib p) s')).
      { apply IH. intros k kb Nk. apply (H (S k) kb Nk). }
      lia. }
    apply Gen. intros k kb G. destruct (A _ _ G) as (kb' & G' & (P & _ & _) & D). exists kb'. split; auto.
    unfold contrib. rewrite <- P. destruct (j_parent kb) as [p'|]; [|lia].
    destruct (st_raw (j_st kb)) as [raw|] eqn:R.
    - assert (st_raw (j_st kb') = Some raw).
      { destruct D as [E|JS]; [now rewrite E|]. eapply jstep_raw; eauto. }
      rewrite H. lia.
    - simpl. lia.
  Qed.

  Lemma linear_back s o s' : step c body s o = Some s' -> linear s' -> linear s.
  Proof. intros St L p h. pose proof (uses_mono _ _ _ p h St). specialize (L p h). lia. Qed.

  Lemma linear_back_run ops : forall s s', run c body s ops = Some s' -> linear s' -> linear s.
  Proof.
    induction ops as [|o r IH]; intros s s' R L; simpl in R.
    - inversion R. now subst.
    - destruct (step c body s o) as [s1|] eqn:St; try discriminate. eapply linear_back; eauto.
  Qed.

  (** a job that is not evaluating its result has no children yet *)
  Lemma no_kids_no_uses s p pb :
    GInv s -> get s p = Some pb -> (forall j, ~ has_kid (j_st pb) j) -> uses s p = [].
  Proof.
    intros GI G NK. apply uses_nil. intros k kb Gk P.
    destruct (G_parent _ GI _ _ _ Gk P) as (_ & pb' & Gp & HK). rewrite G in Gp. inversion Gp. subst pb'.
    eapply NK; eauto.
  Qed.

  Definition entered_st (raw pre : list value) (st' : status) : Prop :=
    st' = SWait raw pre \/ st' = SRun raw pre \/ exists k', st' = SColl raw pre k'.

  Lemma enter_shape s j d s' :
    step c body s (OEnter j d) = Some s' ->
    exists jb raw pre st' s1,
      get s j = Some jb /\ s' = set_st s1 j st' /\ entered_st raw pre st' /\
      ((j_st jb = SCreated /\ preprocess c s jb raw = Some (s1, pre)) \/
       (j_st jb = SWait raw pre /\ s1 = s)).
  Proof.
    simpl. unfold get. destruct (nth_error s j) as [jb|] eqn:G; try discriminate.
    destruct (j_st jb) eqn:S; try discriminate.
    - destruct (raw_args s jb) as [raw|]; try discriminate.
      destruct (preprocess c s jb raw) as [[s1 pre]|] eqn:PP; try discriminate.
      intro D. apply decide_spec in D as (st' & -> & En).
      exists jb, raw, pre, st', s1. repeat split; auto.
      destruct En as [->|[->|(k' & -> & _)]]; [left|right; left|right; right]; eauto.
    - rewrite once. intro D. apply decide_spec in D as (st' & -> & En).
      exists jb, raw, pre, st', s. repeat split; auto.
      destruct En as [->|[->|(k' & -> & _)]]; [left|right; left|right; right]; eauto.
  Qed.

  Lemma entered_raw_pre raw pre st' : entered_st raw pre st' -> st_raw st' = Some raw /\ st_pre st' = Some pre.
  Proof. intros [->|[->|(k' & ->)]]; auto. Qed.

  Lemma entered_not_eval raw pre a b e ks f : ~ entered_st raw pre (SEval a b e ks f).
  Proof. intros [H|[H|(k' & H)]]; discriminate. Qed.

  (** one job's status is replaced; no Handle use is added; its arguments stay (or it is the root
      being entered); if it becomes SEval it either was SEval with the same counter or starts
      with an empty counter and no children *)
  Lemma LInv_upd s j jb st' :
    LInv s -> get s j = Some jb ->
    (forall p h, count_v h (uses (set_st s j st') p) = count_v h (uses s p)) ->
    ((st_raw st' = st_raw (j_st jb) /\ st_pre st' = st_pre (j_st jb)) \/
     (j_parent jb = None /\ exists raw, st_raw st' = Some raw /\ st_pre st' = Some (keys_l c (root_order c) raw))) ->
    (forall a b e ks f, st' = SEval a b e ks f ->
                        (exists a0 b0 e0 ks0, j_st jb = SEval a0 b0 e0 ks0 f) \/ (f = [] /\ uses s j = [])) ->
    LInv (set_st s j st').
  Proof.
    intros I G U RP EV. constructor.
    - intros p pb raw pre e kids f Gp Sp h. rewrite U.
      destruct (Nat.eq_dec p j) as [->|N].
      + rewrite (get_set_st_same _ _ _ _ G) in Gp. inversion Gp. subst pb. simpl in Sp.
        destruct (EV _ _ _ _ _ Sp) as [(a0 & b0 & e0 & ks0 & S0)|[-> E]].
        * eapply L_forks; eauto.
        * rewrite E. reflexivity.
      + rewrite get_set_st_other in Gp by auto. eapply L_forks; eauto.
    - intros k kb p raw pre Gk Pk Rk Pk'.
      destruct (Nat.eq_dec k j) as [->|N].
      + rewrite (get_set_st_same _ _ _ _ G) in Gk. inversion Gk. subst kb. simpl in *.
        destruct RP as [[E1 E2]|[Pn _]]; [|congruence]. rewrite E1 in Rk. rewrite E2 in Pk'.
        destruct (L_pre _ I _ _ _ _ _ G Pk Rk Pk') as (f0 & E & B). exists f0. split; auto.
        intro h. rewrite U. auto.
      + rewrite get_set_st_other in Gk by auto.
        destruct (L_pre _ I _ _ _ _ _ Gk Pk Rk Pk') as (f0 & E & B). exists f0. split; auto.
        intro h. rewrite U. auto.
    - intros k kb raw pre Gk Pk Rk Pk'.
      destruct (Nat.eq_dec k j) as [->|N].
      + rewrite (get_set_st_same _ _ _ _ G) in Gk. inversion Gk. subst kb. simpl in *.
        destruct RP as [[E1 E2]|[_ (raw1 & E1 & E2)]].
        * rewrite E1 in Rk. rewrite E2 in Pk'. eapply L_root; eauto.
        * congruence.
      + rewrite get_set_st_other in Gk by auto. eapply L_root; eauto.
  Qed.

  Lemma LInv_app s j cs :
    LInv s -> LInv (s ++ map (fun ca : call => mkJob (Some j) (fst ca) (snd ca) SCreated) cs).
  Proof.
    intro I.
    assert (U : forall p, uses (s ++ map (fun ca : call => mkJob (Some j) (fst ca) (snd ca) SCreated) cs) p = uses s p).
    { intro p. rewrite uses_app, uses_created. apply app_nil_r. }
    assert (Old : forall k kb, get (s ++ map (fun ca : call => mkJob (Some j) (fst ca) (snd ca) SCreated) cs) k = Some kb ->
                               get s k = Some kb \/ j_st kb = SCreated).
    { intros k kb Gk. unfold get in *. destruct (le_lt_dec (length s) k) as [L|L].
      - right. rewrite nth_error_app2 in Gk by auto. apply nth_error_In in Gk. apply in_map_iff in Gk as (ca & <- & _).
        reflexivity.
      - left. now rewrite nth_error_app1 in Gk. }
    constructor.
    - intros p pb raw pre e kids f Gp Sp h. rewrite U. destruct (Old _ _ Gp) as [G0|E].
      + eapply L_forks; eauto.
      + rewrite E in Sp. discriminate.
    - intros k kb p raw pre Gk Pk Rk Pk'. rewrite U. destruct (Old _ _ Gk) as [G0|E].
      + eapply L_pre; eauto.
      + rewrite E in Rk. discriminate.
    - intros k kb raw pre Gk Pk Rk Pk'. destruct (Old _ _ Gk) as [G0|E].
      + eapply L_root; eauto.
      + rewrite E in Rk. discriminate.
  Qed.

  Theorem LInv_step s o s' : LInv s -> GInv s -> step c body s o = Some s' -> LInv s'.
  Proof.
    intros I GI St. destruct o as [j d|j|j].
    - (* OEnter *)
      apply enter_shape in St as (jb & raw & pre & st' & s1 & G & -> & En & [[S PP]|[S ->]]).
      + (* first entry *)
        destruct (entered_raw_pre _ _ _ En) as [R' P'].
        apply preprocess_spec in PP as [(Pa & -> & ->)|(q & pb & praw & ppre & e & kids & f & (p & Pa & Eq) & Gp & Sp & -> & ->)];
          [|rewrite per_parent in Eq; subst q].
        * (* the root job *)
          apply LInv_upd with (jb := jb); auto.
          -- intros p h. pose proof (uses_set_st s j jb st' p h G) as E. unfold contrib in E. simpl in E.
             rewrite Pa in E. simpl in E. lia.
          -- right. split; auto. exists raw. auto.
          -- intros a b e ks f ->. exfalso. eapply entered_not_eval; eauto.
        * (* a child of p: the parent's counter advances by exactly the Handles passed *)
          set (f' := fst (prep_l c f raw)).
          set (s1 := set_st s p (SEval praw ppre e kids f')).
          assert (Npj : p <> j).
          { intros ->. rewrite G in Gp. inversion Gp. subst pb. rewrite S in Sp. discriminate. }
          assert (G1 : get s1 j = Some jb) by (unfold s1; rewrite get_set_st_other; auto).
          assert (U1 : forall q h, count_v h (uses s1 q) = count_v h (uses s q)).
          { intros q h. unfold s1. eapply uses_set_st_same; eauto. rewrite Sp. reflexivity. }
          assert (U : forall q h, count_v h (uses (set_st s1 j st') q)
                                  = count_v h (uses s q) + (if Nat.eqb p q then count_v h (handles_l raw) else 0)).
          { intros q h. pose proof (uses_set_st s1 j jb st' q h G1) as E. unfold contrib in E. simpl in E.
            rewrite Pa, S, R' in E. simpl in E. rewrite U1 in E. destruct (p =? q); simpl in E; lia. }
          (* every job of the new state but j and p is an old one *)
          assert (Old : forall k kb, k <> j -> get (set_st s1 j st') k = Some kb ->
                     exists kb0, get s k = Some kb0 /\ j_parent kb0 = j_parent kb /\
                                 st_raw (j_st kb0) = st_raw (j_st kb) /\ st_pre (j_st kb0) = st_pre (j_st kb) /\
                                 (k <> p -> kb0 = kb)).
          { intros k kb N Gk. rewrite get_set_st_other in Gk by auto. unfold s1 in Gk.
            destruct (Nat.eq_dec k p) as [->|Nk].
            - rewrite (get_set_st_same _ _ _ _ Gp) in Gk. inversion Gk. subst kb. exists pb. simpl.
              rewrite Sp. repeat split; auto. congruence.
            - rewrite get_set_st_other in Gk by auto. exists kb. repeat split; auto. }
          constructor.
          -- intros q qb raw0 pre0 e0 kids0 f0 Gq Sq h. rewrite U.
             destruct (Nat.eq_dec q j) as [->|Nq].
             ++ rewrite (get_set_st_same _ _ _ _ G1) in Gq. inversion Gq. subst qb. simpl in Sq.
                exfalso. rewrite Sq in En. eapply entered_not_eval; eauto.
             ++ destruct (Nat.eq_dec q p) as [->|Nqp].
                ** rewrite get_set_st_other in Gq by auto. unfold s1 in Gq.
                   rewrite (get_set_st_same _ _ _ _ Gp) in Gq. inversion Gq. subst qb. simpl in Sq.
                   inversion Sq. subst. rewrite Nat.eqb_refl. unfold f'. rewrite prep_l_count.
                   rewrite (L_forks _ I _ _ _ _ _ _ _ Gp Sp). reflexivity.
                ** destruct (Old _ _ Nq Gq) as (qb0 & Gq0 & _ & _ & _ & E). rewrite <- (E Nqp) in Sq.
                   destruct (Nat.eqb_spec p q); [congruence|]. rewrite Nat.add_0_r. eapply L_forks; eauto.
          -- intros k kb q raw0 pre0 Gk Pk Rk Pk'.
             destruct (Nat.eq_dec k j) as [->|N].
             ++ rewrite (get_set_st_same _ _ _ _ G1) in Gk. inversion Gk. subst kb. simpl in *.
                rewrite Pa in Pk. inversion Pk. subst q. rewrite R' in Rk. inversion Rk. subst raw0.
                rewrite P' in Pk'. inversion Pk'. subst pre0.
                exists f. split; auto. intro h. rewrite U, Nat.eqb_refl.
                rewrite (L_forks _ I _ _ _ _ _ _ _ Gp Sp). lia.
             ++ destruct (Old _ _ N Gk) as (kb0 & Gk0 & E1 & E2 & E3 & _).
                rewrite <- E1 in Pk. rewrite <- E2 in Rk. rewrite <- E3 in Pk'.
                destruct (L_pre _ I _ _ _ _ _ Gk0 Pk Rk Pk') as (f0 & E & B). exists f0. split; auto.
                intro h. rewrite U. specialize (B h). lia.
          -- intros k kb raw0 pre0 Gk Pk Rk Pk'.
             destruct (Nat.eq_dec k j) as [->|N].
             ++ rewrite (get_set_st_same _ _ _ _ G1) in Gk. inversion Gk. subst kb. simpl in *. congruence.
             ++ destruct (Old _ _ N Gk) as (kb0 & Gk0 & E1 & E2 & E3 & _).
                rewrite <- E1 in Pk. rewrite <- E2 in Rk. rewrite <- E3 in Pk'. eapply L_root; eauto.
      + (* re-entry after waiting: arguments kept, nothing forked *)
        destruct (entered_raw_pre _ _ _ En) as [R' P'].
        apply LInv_upd with (jb := jb); auto.
        * intros p h. eapply uses_set_st_same; eauto. rewrite S. simpl. auto.
        * left. rewrite S. simpl. auto.
        * intros a b e ks f ->. exfalso. eapply entered_not_eval; eauto.
    - (* ODone *)
      simpl in St. destruct (nth_error s j) as [jb|] eqn:G; try discriminate.
      destruct (j_st jb) eqn:S; try discriminate. inversion St. subst s'. clear St.
      apply LInv_app. apply LInv_upd with (jb := jb); auto.
      + intros p h. eapply uses_set_st_same; eauto. rewrite S. reflexivity.
      + left. rewrite S. auto.
      + intros a b e ks f E. inversion E. subst. right. split; auto.
        eapply no_kids_no_uses; eauto. rewrite S. simpl. auto.
    - (* OResolve *)
      simpl in St. destruct (nth_error s j) as [jb|] eqn:G; try discriminate.
      destruct (j_st jb) eqn:S; try discriminate.
      + destruct (subst (calls_of e) (results s kids) e); try discriminate.
        destruct (mapM (job_res s) kids); try discriminate. inversion St. subst s'.
        apply LInv_upd with (jb := jb); auto.
        * intros p h. eapply uses_set_st_same; eauto. rewrite S. reflexivity.
        * left. rewrite S. auto.
        * intros; discriminate.
      + destruct (job_res s into) as [[r n]|]; try discriminate. inversion St. subst s'.
        apply LInv_upd with (jb := jb); auto.
        * intros p h. eapply uses_set_st_same; eauto. rewrite S. reflexivity.
        * left. rewrite S. auto.
        * intros; discriminate.
  Qed.

  Lemma lin_good_run ops : forall s s', LInv s -> GInv s -> run c body s ops = Some s' -> linear s' ->
                                        good_run c body s ops.
  Proof.
    induction ops as [|o r IH]; intros s s' I GI R L; simpl in *.
    - inversion R. subst. split; auto. now apply LInv_good.
    - destruct (step c body s o) as [s1|] eqn:St; try discriminate. split.
      + apply LInv_good; auto. eapply linear_back; eauto. eapply linear_back_run; eauto.
      + eapply IH; eauto. eapply LInv_step; eauto. eapply GInv_step; eauto.
  Qed.

  (** With `_preprocess_args` once per job: complete executions in which no Handle state was passed
      to two sibling calls agree on the returned value and on the root call node — for every
      completion order and every pattern of waiting for limits. *)
  Theorem linear_runs_agree ops1 ops2 s1 s2 r1 n1 r2 n2 :
    run c body (init t0 args0) ops1 = Some s1 -> outcome s1 = Some (r1, n1) -> linear s1 ->
    run c body (init t0 args0) ops2 = Some s2 -> outcome s2 = Some (r2, n2) -> linear s2 ->
    r1 = r2 /\ n1 = n2.
  Proof.
    intros R1 O1 L1 R2 O2 L2.
    eapply (good_runs_agree c body t0 args0 ops1 ops2 s1 s2); eauto;
      eapply lin_good_run; eauto; try apply LInv_init; apply GInv_init.
  Qed.
End Lin.

Lemma count_pos_In h l : 0 < count_v h l -> In h l.
Proof.
  induction l as [|x l IH]; simpl; [lia|]. destruct (value_eqb x h) eqn:E.
  - intros _. left. now apply value_eqb_eq.
  - intro H. right. apply IH. lia.
Qed.

Lemma linear_b_sound s : linear_b s = true -> linear s.
Proof.
  unfold linear_b, linear. intros H p h. apply andb_true_iff in H as [HP H].
  destruct (le_lt_dec (length s) p) as [L|L].
  - rewrite uses_nil; [simpl; lia|]. intros k kb G P.
    rewrite forallb_forall in HP. specialize (HP kb (nth_error_In _ _ G)). rewrite P in HP.
    apply Nat.ltb_lt in HP. lia.
  - destruct (count_v h (uses s p)) as [|n] eqn:E; [lia|].
    assert (I : In h (uses s p)) by (apply count_pos_In; lia).
    rewrite forallb_forall in H. specialize (H p). rewrite in_seq in H.
    assert (HQ : forallb (fun h0 => count_v h0 (uses s p) <=? 1) (uses s p) = true) by (apply H; lia).
    rewrite forallb_forall in HQ. specialize (HQ h I). apply Nat.leb_le in HQ. lia.
Qed.
