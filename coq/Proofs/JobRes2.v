From Coq Require Import List ZArith Bool Arith Lia Permutation.
From RV Require Import Model.JobMachine Proofs.JobBase Proofs.JobRes.
Import ListNotations.
Open Scope list_scope.

Section Fixed.
Variable c : config.
Hypothesis Hfix : release_if_holds (vr c) = true.
Hypothesis Hlim : forall r, (0 <= limit_of c r)%Z.

(** * release *)
Lemma inv_release s j x :
  getj s j = Some x -> jholds x = true -> Inv c s ->
  Inv c (set_used (setj s j (bump_release x)) (release (used s) (jlimits x))).
Proof.
  intros Hx Hh I.
  assert (Hnp : ~ In j (pend s)).
  { intros Hin. destruct (i_pend _ _ I j x Hin Hx) as (_ & E & _). congruence. }
  assert (Hns : ~ In j (map snd (subs s))).
  { intros Hin. pose proof (i_subs _ _ I j x Hin Hx). congruence. }
  destruct (i_wf _ _ I j x Hx) as [Hnd Hnn].
  destruct (i_rel _ _ I j x Hx) as [R1 R2]. rewrite Hh in R1, R2. simpl in R1, R2.
  assert (Hg : forall k z, getj (setj s j (bump_release x)) k = Some z ->
                 (k = j /\ z = bump_release x) \/ (k <> j /\ getj s k = Some z)).
  { intros k z H. destruct (Nat.eq_dec j k) as [->|Hne].
    - rewrite (getj_setj_same _ _ _ _ Hx) in H. injection H as <-. auto.
    - rewrite getj_setj_other in H by assumption. auto. }
  assert (Hheld : forall r, held (setj s j (bump_release x)) r = (held s r - demand (jlimits x) r)%Z).
  { intros r. rewrite !held_eq. simpl. unfold getj in Hx.
    rewrite (held_list_set_nth _ _ _ (bump_release x) r Hx). unfold contrib. rewrite Hh. simpl. lia. }
  set (S' := set_used (setj s j (bump_release x)) (release (used s) (jlimits x))).
  assert (E1 : pend S' = pend s) by reflexivity.
  assert (E2 : map snd (subs S') = map snd (subs s)) by reflexivity.
  assert (E3 : forall k, getj S' k = getj (setj s j (bump_release x)) k) by reflexivity.
  assert (E4 : forall r, held S' r = held (setj s j (bump_release x)) r) by reflexivity.
  assert (E5 : used S' = release (used s) (jlimits x)) by reflexivity.
  assert (E6 : length (jobs S') = length (jobs s)) by (simpl; apply length_set_nth).
  destruct I as [i_bound0 i_nodup0 i_pend0 i_subs0 i_cached0 i_used0 i_le0 i_wf0 i_rel0].
  constructor; intros; rewrite ?E1, ?E2, ?E3, ?E4, ?E5, ?E6 in *.
  - auto.
  - auto.
  - destruct (Hg _ _ H0) as [[-> ->]|[Hne Hz]]; [contradiction|]. eauto.
  - destruct (Hg _ _ H0) as [[-> ->]|[Hne Hz]]; [reflexivity|]. eauto.
  - destruct (Hg _ _ H) as [[-> ->]|[Hne Hz]]; [reflexivity|]. eauto.
  - rewrite Hheld, release_spec by assumption. rewrite i_used0. reflexivity.
  - rewrite Hheld. pose proof (demand_nonneg (jlimits x) r Hnn). pose proof (i_le0 r). lia.
  - destruct (Hg _ _ H) as [[-> ->]|[Hne Hz]]; [simpl; split; assumption|]. eauto.
  - destruct (Hg _ _ H) as [[-> ->]|[Hne Hz]]; [simpl; lia|]. eauto.
Qed.

Lemma inv_maybe_release s j : Inv c s -> Inv c (maybe_release c s j).
Proof.
  intros I. unfold maybe_release. destruct (getj s j) as [x|] eqn:Hx; auto.
  rewrite Hfix. destruct (jholds x) eqn:Hh; auto.
  apply inv_check_pending. now apply inv_release.
Qed.

(** * settle *)
Lemma inv_finalize s j : Inv c s -> Inv c (finalize c s j).
Proof. intros I. unfold finalize. destruct (getj s j); auto. now apply inv_set_pending. Qed.

Lemma inv_settle_one s j o : Inv c s -> Inv c (settle_one c s j o).
Proof.
  intros I. unfold settle_one. destruct (getj s j) as [x|] eqn:Hx; auto.
  apply inv_finalize.
  destruct (jprov x).
  - apply (inv_setj_core c _ j x); [exact Hx|apply same_core_phase|]. now apply inv_add_recorded.
  - apply (inv_setj_core c _ j x); [exact Hx|apply same_core_phase|]. exact I.
Qed.

Lemma subs_settle_one s j o : subs (settle_one c s j o) = subs s.
Proof.
  unfold settle_one. destruct (getj s j) as [x|]; auto.
  unfold finalize. destruct (jprov x); simpl.
  - destruct (getj _ j); reflexivity.
  - destruct (getj _ j); reflexivity.
Qed.

Lemma inv_mark_cached s j y v p :
  getj s j = Some y -> In j (map snd (subs s)) -> Inv c s -> Inv c (setj s j (mark_cached y v p)).
Proof.
  intros Hy Hin I.
  assert (Hh : jholds y = false) by (eapply i_subs; eauto).
  assert (Hnp : ~ In j (pend s)).
  { intros Hp. destruct (i_pend _ _ I j y Hp Hy) as (_ & _ & _ & _ & E). contradiction. }
  assert (Hg : forall k z, getj (setj s j (mark_cached y v p)) k = Some z ->
                 (k = j /\ z = mark_cached y v p) \/ (k <> j /\ getj s k = Some z)).
  { intros k z H. destruct (Nat.eq_dec j k) as [->|Hne].
    - rewrite (getj_setj_same _ _ _ _ Hy) in H. injection H as <-. auto.
    - rewrite getj_setj_other in H by assumption. auto. }
  assert (Hheld : forall r, held (setj s j (mark_cached y v p)) r = held s r).
  { intros r. rewrite !held_eq. simpl. unfold getj in Hy.
    rewrite (held_list_set_nth _ _ _ (mark_cached y v p) r Hy). unfold contrib. simpl. lia. }
  set (S' := setj s j (mark_cached y v p)).
  assert (E1 : pend S' = pend s) by reflexivity.
  assert (E2 : map snd (subs S') = map snd (subs s)) by reflexivity.
  assert (E5 : used S' = used s) by reflexivity.
  assert (E6 : length (jobs S') = length (jobs s)) by (simpl; apply length_set_nth).
  destruct I as [i_bound0 i_nodup0 i_pend0 i_subs0 i_cached0 i_used0 i_le0 i_wf0 i_rel0].
  constructor; intros; rewrite ?E1, ?E2, ?E5, ?E6 in *.
  - auto.
  - auto.
  - destruct (Hg _ _ H0) as [[-> ->]|[Hne Hz]]; [contradiction|]. eauto.
  - destruct (Hg _ _ H0) as [[-> ->]|[Hne Hz]]; [exact Hh|]. eauto.
  - destruct (Hg _ _ H) as [[-> ->]|[Hne Hz]]; [exact Hh|]. eauto.
  - rewrite Hheld. auto.
  - rewrite Hheld. auto.
  - destruct (Hg _ _ H) as [[-> ->]|[Hne Hz]]; [simpl; eauto|]. eauto.
  - destruct (Hg _ _ H) as [[-> ->]|[Hne Hz]]; [simpl; eauto|]. eauto.
Qed.

Lemma inv_notify_sub o s sub :
  In sub (map snd (subs s)) -> Inv c s ->
  Inv c (notify_sub c o s sub) /\ subs (notify_sub c o s sub) = subs s.
Proof.
  intros Hin I. unfold notify_sub. destruct (getj s sub) as [y|] eqn:Hy; auto.
  destruct o as [v|e].
  - split; [|reflexivity]. apply inv_enqueue_nonexec; [reflexivity|]. now apply inv_mark_cached.
  - split; [|now rewrite subs_settle_one]. apply inv_settle_one. now apply inv_mark_cached.
Qed.

Lemma inv_notify_list o l : forall s,
  (forall x, In x l -> In x (map snd (subs s))) -> Inv c s -> Inv c (fold_left (notify_sub c o) l s).
Proof.
  induction l as [|a l IH]; intros s Hl I; simpl; auto.
  destruct (inv_notify_sub o s a) as [I1 E]; auto; [apply Hl; now left|].
  apply IH; auto. intros x Hx. rewrite E. apply Hl. now right.
Qed.

Lemma inv_settle s j o : Inv c s -> Inv c (settle c s j o).
Proof.
  intros I. unfold settle. destruct (getj s j) as [x|] eqn:Hx; auto.
  apply inv_notify_list; [|now apply inv_settle_one].
  intros y Hy. apply in_map_iff in Hy. destruct Hy as (p & <- & Hp).
  apply filter_In in Hp. destruct Hp as [Hp _]. apply in_map. exact Hp.
Qed.

Lemma inv_reject_job s j e : Inv c s -> Inv c (reject_job c s j e).
Proof. intros I. unfold reject_job. apply inv_settle. now apply inv_maybe_release. Qed.

Lemma inv_resolve_job s j v : Inv c s -> Inv c (resolve_job c s j v).
Proof. intros I. unfold resolve_job. now apply inv_settle. Qed.

Lemma inv_done_job s j : Inv c s -> Inv c (done_job c s j).
Proof.
  intros I. unfold done_job. pose proof (inv_maybe_release s j I) as I1.
  destruct (getj (maybe_release c s j) j) as [x|] eqn:Hx; auto.
  destruct (jpreset x).
  - apply inv_enqueue_nonexec; [reflexivity|].
    apply (inv_setj_core c _ j x); [exact Hx|apply same_core_phase|exact I1].
  - apply (inv_setj_core c _ j x); [exact Hx|apply same_core_phase|exact I1].
Qed.
End Fixed.
