(** C32 — the scratch-file protocol reproduces local execution (single jobs and array elements). *)
From Coq Require Import List Arith NArith Ascii String Bool Lia.
From RV Require Import Base.Decimal Base.Lit Model.Scratch Proofs.ScratchStr.
Import ListNotations.
Open Scope list_scope.

Section Run.
  Variable V : Type.
  Variable pbytes : Type.
  Variable dump : obj V -> pbytes.
  Variable load : pbytes -> option (obj V).
  Variable f : obj V -> obj V -> outcome V.
  Variable valid : obj V -> bool.
  Variable tb_of : obj V -> obj V.
  (** premise: pickle round trip on every object the protocol writes *)
  Hypothesis RT : forall o, load (dump o) = Some o.
  Variable c : cfg.
  Hypothesis OK : cfg_ok c.
  Variable prefix : str.     (* scratch prefix *)

  Notation fs_t := (fs_t pbytes).
  Notation rd := (fs_read pbytes).
  Notation rm := (fs_remove pbytes).
  Notation wr := (fs_write pbytes).
  Notation BP := (BPickle pbytes).

  (** ** File system *)
  Lemma rd_rm_same (fs : fs_t) p : rd (rm fs p) p = None.
  Proof.
    induction fs as [|[q b] fs IH]; simpl; [reflexivity|].
    destruct (str_eqb p q) eqn:E; [assumption|]. simpl. rewrite E. assumption.
  Qed.
  Lemma rd_rm_other (fs : fs_t) p q : p <> q -> rd (rm fs q) p = rd fs p.
  Proof.
    intros H. induction fs as [|[x b] fs IH]; simpl; [reflexivity|].
    destruct (str_eqb q x) eqn:E.
    - apply str_eqb_spec in E. subst x. rewrite (str_eqb_neq p q H). assumption.
    - simpl. destruct (str_eqb p x); [reflexivity|assumption].
  Qed.
  Lemma rd_wr_same (fs : fs_t) p b : rd (wr fs p b) p = Some b.
  Proof. unfold fs_write. simpl. rewrite str_eqb_refl. reflexivity. Qed.
  Lemma rd_wr_other (fs : fs_t) p q b : p <> q -> rd (wr fs q b) p = rd fs p.
  Proof. intros H. unfold fs_write. simpl. rewrite (str_eqb_neq p q H). apply rd_rm_other. assumption. Qed.

  (** ** Paths of one job *)
  Definition inp h := job_file c prefix h (f_input c).
  Definition outp h := job_file c prefix h (f_output c).
  Definition errp h := job_file c prefix h (f_error c).

  Lemma job_file_neq h f1 f2 : Name h -> Name f1 -> Name f2 -> f1 <> f2 ->
    job_file c prefix h f1 <> job_file c prefix h f2.
  Proof. intros Hh H1 H2 Hn E. apply (job_file_inj c OK) in E; try assumption. tauto. Qed.

  Lemma out_err_neq h h' : Name h -> Name h' -> outp h <> errp h'.
  Proof.
    intros Hh Hh' E. apply (job_file_inj c OK) in E; try assumption; try solve [apply OK].
    destruct E as [_ E]. exact (ok_oe c OK E).
  Qed.

  (** ** The end of the try block: cache check, call, write *)
  Notation clr := (clear_prev pbytes c).

  Lemma clr_cases nc fs op : clr nc fs op = fs \/ clr nc fs op = rm fs op.
  Proof. unfold clear_prev. destruct (clear_output c); auto. destruct nc; auto. Qed.
  Lemma clr_other nc fs op q : q <> op -> rd (clr nc fs op) q = rd fs q.
  Proof. intros H. destruct (clr_cases nc fs op) as [-> | ->]; [reflexivity|apply rd_rm_other; assumption]. Qed.

  Definition tail (nc : bool) (fs : fs_t) (op : str) (ta tk : obj V) : fs_t * run V :=
    let cached : step (fs_t * option (obj V)) :=
      if nc then SOk (clr true fs op, None)
      else match rd fs op with
           | None => SOk (clr false fs op, None)
           | Some (BPickle _ b) =>
               match load b with
               | None => SRaise ELoad
               | Some r => if valid r then SOk (fs, Some r) else SOk (clr false fs op, None)
               end
           | Some _ => SRaise ELoad
           end in
    match cached with
    | SUnmodelled => (fs, Unmodelled V)
    | SRaise e => (fs, Raised V (PErr e))
    | SOk (fs1, Some r) => (fs1, Returned V r)
    | SOk (fs1, None) =>
        match f ta tk with
        | Exc _ e => (fs1, Raised V e)
        | Ret _ r => (wr fs1 op (BP (dump r)), Returned V r)
        end
    end.

  (** what may be in the output file before the run: nothing, or (when the cache is consulted) a
      loadable value that, if the type registry accepts it, is what the task returns. *)
  Definition prior (nc : bool) (fs : fs_t) (op : str) (ta tk : obj V) : Prop :=
    match rd fs op with
    | None => True
    | Some (BPickle _ b) => nc = true \/ exists r, load b = Some r /\ (valid r = true -> f ta tk = Ret V r)
    | Some _ => nc = true
    end.

  Lemma prior_clr nc b fs op ta tk : prior nc fs op ta tk -> prior nc (clr b fs op) op ta tk.
  Proof.
    intros P. destruct (clr_cases b fs op) as [-> | ->]; [exact P|]. unfold prior. rewrite rd_rm_same. exact I.
  Qed.

  Lemma tail_spec nc fs op ta tk fs' r :
    prior nc fs op ta tk -> tail nc fs op ta tk = (fs', r) ->
    match r with
    | Returned _ x => f ta tk = Ret V x /\ exists b, rd fs' op = Some (BP b) /\ load b = Some x
    | Raised _ e => f ta tk = Exc V e
    | Unmodelled _ => False
    end
    /\ (forall q, q <> op -> rd fs' q = rd fs q)
    /\ prior nc fs' op ta tk.
  Proof.
    unfold tail. intros P H.
    assert (CALL : forall fs1, (forall q, q <> op -> rd fs1 q = rd fs q) ->
              prior nc fs1 op ta tk ->
              match f ta tk with
              | Exc _ e => (fs1, Raised V e)
              | Ret _ r0 => (wr fs1 op (BP (dump r0)), Returned V r0)
              end = (fs', r) ->
              match r with
              | Returned _ x => f ta tk = Ret V x /\ exists b, rd fs' op = Some (BP b) /\ load b = Some x
              | Raised _ e => f ta tk = Exc V e
              | Unmodelled _ => False
              end
              /\ (forall q, q <> op -> rd fs' q = rd fs q)
              /\ prior nc fs' op ta tk).
    { intros fs1 FR P1 E. destruct (f ta tk) as [r0|e0] eqn:Ef; inversion E; subst; clear E.
      - split; [split; [reflexivity|]|split].
        + exists (dump r0). rewrite rd_wr_same. auto.
        + intros q Hq. rewrite rd_wr_other by assumption. apply FR. assumption.
        + unfold prior. rewrite rd_wr_same. right. exists r0. auto.
      - split; [reflexivity|split; assumption]. }
    destruct nc.
    - apply (CALL (clr true fs op)); auto using prior_clr. intros q Hq. apply clr_other. assumption.
    - unfold prior in P. destruct (rd fs op) as [[b| |]|] eqn:Eo.
      + destruct P as [P|[r0 [L Vd]]]; [discriminate|]. rewrite L in H.
        destruct (valid r0) eqn:Ev.
        * inversion H; subst; clear H. split; [split; [auto|exists b; auto]|split; [auto|]].
          unfold prior. rewrite Eo. right. exists r0. auto.
        * apply (CALL (clr false fs op)); auto.
          -- intros q Hq. apply clr_other. assumption.
          -- apply prior_clr. unfold prior. rewrite Eo. right. exists r0.
             split; [exact L|intros X; rewrite Ev in X; discriminate X].
      + discriminate P.
      + discriminate P.
      + apply (CALL (clr false fs op)); auto.
        * intros q Hq. apply clr_other. assumption.
        * apply prior_clr. unfold prior. rewrite Eo. exact I.
  Qed.

  (** a clearing configuration: the previous output is removed on every path that calls the task *)
  Definition clears (nc : bool) : Prop :=
    clear_output c = ClearAlways \/ (clear_output c = ClearCached /\ nc = false).

  Lemma clr_rm nc fs op : clears nc -> clr nc fs op = rm fs op.
  Proof. unfold clears, clear_prev. intros [-> | [-> ->]]; reflexivity. Qed.

  (** after the try block: an output file exists iff the run succeeded *)
  Lemma tail_out_iff nc fs op ta tk fs' r :
    clears nc -> prior nc fs op ta tk -> tail nc fs op ta tk = (fs', r) ->
    match r with
    | Returned _ _ => rd fs' op <> None
    | Raised _ _ => rd fs' op = None
    | Unmodelled _ => False
    end.
  Proof.
    unfold tail. intros C P H.
    assert (CALL : match f ta tk with
              | Exc _ e => (rm fs op, Raised V e)
              | Ret _ r0 => (wr (rm fs op) op (BP (dump r0)), Returned V r0)
              end = (fs', r) ->
              match r with Returned _ _ => rd fs' op <> None | Raised _ _ => rd fs' op = None | Unmodelled _ => False end).
    { intros E. destruct (f ta tk); inversion E; subst; [rewrite rd_wr_same; discriminate|apply rd_rm_same]. }
    destruct nc.
    - rewrite (clr_rm true fs op C) in H. apply CALL. exact H.
    - rewrite (clr_rm false fs op C) in H. unfold prior in P. destruct (rd fs op) as [[b| |]|] eqn:Eo.
      + destruct P as [P|[r0 [L _]]]; [discriminate|]. rewrite L in H.
        destruct (valid r0); [inversion H; subst; rewrite Eo; discriminate|apply CALL; exact H].
      + discriminate P.
      + discriminate P.
      + apply CALL. exact H.
  Qed.

  (** the error handler around the try block, for an error path [ep] different from [op] *)
  Lemma wrap_spec nc fs h ep op ta tk fs2 r :
    op = outp h -> ep = errp h -> Name h ->
    prior nc fs op ta tk ->
    tail nc (rm fs ep) op ta tk = (fs2, r) ->
    let fs3 := match r with Raised _ e => wr fs2 ep (BP (dump (Seq [e; tb_of e]))) | _ => fs2 end in
    collect V pbytes load c prefix h fs3 r = match f ta tk with Ret _ x => CDone V x | Exc _ e => CReject V e end
    /\ (forall q, q <> op -> q <> ep -> rd fs3 q = rd fs q)
    /\ prior nc fs3 op ta tk.
  Proof.
    intros -> -> Hh P T.
    assert (NE : outp h <> errp h) by (apply out_err_neq; assumption).
    assert (P1 : prior nc (rm fs (errp h)) (outp h) ta tk).
    { unfold prior in *. rewrite rd_rm_other by assumption. exact P. }
    destruct (tail_spec _ _ _ _ _ _ _ P1 T) as [R [FR P2]].
    destruct r as [x|e|]; [| |contradiction]; cbv zeta.
    - destruct R as [Ef [b [Rb Lb]]]. rewrite Ef. split; [|split].
      + unfold collect, parse_job_result. fold (outp h). rewrite Rb, Lb. reflexivity.
      + intros q H1 H2. rewrite FR by assumption. apply rd_rm_other. assumption.
      + exact P2.
    - rewrite R. split; [|split].
      + unfold collect, parse_job_error. fold (errp h). rewrite rd_wr_same, RT. reflexivity.
      + intros q H1 H2. rewrite rd_wr_other by assumption. rewrite FR by assumption. apply rd_rm_other. assumption.
      + unfold prior in *. rewrite rd_wr_other by assumption. exact P2.
  Qed.

  (** the same for executors that judge the job by its scratch files; also: exactly one of the
      output / error file exists afterwards, the output iff the run succeeded *)
  Lemma wrap_by_output nc fs h ep op ta tk fs2 r :
    op = outp h -> ep = errp h -> Name h -> clears nc ->
    prior nc fs op ta tk ->
    tail nc (rm fs ep) op ta tk = (fs2, r) ->
    let fs3 := match r with Raised _ e => wr fs2 ep (BP (dump (Seq [e; tb_of e]))) | _ => fs2 end in
    collect_by_output V pbytes load c prefix h fs3 = match f ta tk with Ret _ x => CDone V x | Exc _ e => CReject V e end
    /\ match r with
       | Returned _ _ => rd fs3 op <> None /\ rd fs3 ep = None
       | _ => rd fs3 op = None /\ rd fs3 ep <> None
       end.
  Proof.
    intros -> -> Hh C P T.
    assert (NE : outp h <> errp h) by (apply out_err_neq; assumption).
    assert (NE' : errp h <> outp h) by (intro X; apply NE; symmetry; exact X).
    assert (P1 : prior nc (rm fs (errp h)) (outp h) ta tk).
    { unfold prior in *. rewrite rd_rm_other by assumption. exact P. }
    destruct (tail_spec _ _ _ _ _ _ _ P1 T) as [R [FR _]].
    pose proof (tail_out_iff _ _ _ _ _ _ _ C P1 T) as O.
    destruct r as [x|e|]; [| |contradiction]; cbv zeta.
    - destruct R as [Ef [b [Rb Lb]]]. rewrite Ef. split.
      + unfold collect_by_output, parse_job_result. fold (outp h). rewrite Rb, Lb. reflexivity.
      + split; [exact O|]. rewrite FR by assumption. apply rd_rm_same.
    - rewrite R. split.
      + unfold collect_by_output, parse_job_result. fold (outp h).
        rewrite rd_wr_other by assumption. rewrite O.
        unfold parse_job_error. fold (errp h). rewrite rd_wr_same, RT. reflexivity.
      + split; [rewrite rd_wr_other by assumption; exact O|rewrite rd_wr_same; discriminate].
  Qed.

  (** ** One job through the single-job protocol *)
  Notation oneshot' := (oneshot V pbytes dump load f valid tb_of c).

  Definition prior_ok (nc : bool) (j : job V) (fs : fs_t) : Prop :=
    prior nc fs (outp (j_hash j)) (j_args j) (j_kwargs j).

  Lemma write_single_ow (j : job V) fs :
    write_single V pbytes dump c prefix j fs = wr fs (inp (j_hash j)) (BP (dump (Seq [j_args j; j_kwargs j]))).
  Proof. unfold write_single. rewrite (ok_stage c OK). reflexivity. Qed.

  (** shape of one single-job run: the input staged by THIS attempt is what the try block reads *)
  Lemma single_run_form nc (j : job V) fs : Name (j_hash j) ->
    oneshot' [] (args_single c prefix (j_hash j) nc) (write_single V pbytes dump c prefix j fs) =
    match tail nc (rm (write_single V pbytes dump c prefix j fs) (errp (j_hash j))) (outp (j_hash j)) (j_args j) (j_kwargs j) with
    | (fs2, Raised _ e) => (wr fs2 (errp (j_hash j)) (BP (dump (Seq [e; tb_of e]))), Raised V e)
    | other => other
    end.
  Proof.
    intros Hh. unfold oneshot. cbn [args_single a_array a_error a_rank_env].
    fold (errp (j_hash j)).
    set (fs0 := write_single V pbytes dump c prefix j fs) in *.
    assert (NIE : inp (j_hash j) <> errp (j_hash j)) by (apply job_file_neq; try solve [apply OK]; assumption).
    assert (B : oneshot_body V pbytes dump load f valid c (args_single c prefix (j_hash j) nc) 0 (rm fs0 (errp (j_hash j)))
                = tail nc (rm fs0 (errp (j_hash j))) (outp (j_hash j)) (j_args j) (j_kwargs j)).
    { unfold oneshot_body. cbn [args_single a_array a_output a_input a_no_cache].
      fold (inp (j_hash j)). unfold read_input.
      rewrite rd_rm_other by assumption. unfold fs0. rewrite write_single_ow.
      rewrite rd_wr_same, RT. fold (outp (j_hash j)). unfold tail.
      destruct nc; reflexivity. }
    rewrite B. reflexivity.
  Qed.

  Lemma write_single_out (j : job V) fs : Name (j_hash j) ->
    rd (write_single V pbytes dump c prefix j fs) (outp (j_hash j)) = rd fs (outp (j_hash j)).
  Proof.
    intros Hh. rewrite write_single_ow. apply rd_wr_other.
    intro X. symmetry in X. revert X. apply job_file_neq; try solve [apply OK]; assumption.
  Qed.

  Theorem single_eq_local nc (j : job V) fs :
    Name (j_hash j) -> prior_ok nc j fs ->
    snd (remote_single V pbytes dump load f valid tb_of c prefix nc j fs) = local V f j.
  Proof.
    intros Hh P. unfold remote_single. rewrite (single_run_form nc j fs Hh).
    set (fs0 := write_single V pbytes dump c prefix j fs) in *.
    assert (P0 : prior nc fs0 (outp (j_hash j)) (j_args j) (j_kwargs j)).
    { unfold prior_ok, prior in *. unfold fs0. rewrite write_single_out by assumption. exact P. }
    destruct (tail nc (rm fs0 (errp (j_hash j))) (outp (j_hash j)) (j_args j) (j_kwargs j)) as [fs2 r2] eqn:T.
    pose proof (wrap_spec nc fs0 (j_hash j) _ _ _ _ fs2 r2 eq_refl eq_refl Hh P0 T) as [C _].
    unfold local. destruct r2; simpl snd; exact C.
  Qed.

  Definition one_of_out_err (fs : fs_t) (h : str) : Prop :=
    (rd fs (outp h) <> None /\ rd fs (errp h) = None) \/ (rd fs (outp h) = None /\ rd fs (errp h) <> None).

  Theorem single_by_output nc (j : job V) fs :
    Name (j_hash j) -> clears nc -> prior_ok nc j fs ->
    let fs' := fst (remote_single V pbytes dump load f valid tb_of c prefix nc j fs) in
    collect_by_output V pbytes load c prefix (j_hash j) fs' = local V f j /\ one_of_out_err fs' (j_hash j).
  Proof.
    intros Hh C P. unfold remote_single. rewrite (single_run_form nc j fs Hh).
    set (fs0 := write_single V pbytes dump c prefix j fs) in *.
    assert (P0 : prior nc fs0 (outp (j_hash j)) (j_args j) (j_kwargs j)).
    { unfold prior_ok, prior in *. unfold fs0. rewrite write_single_out by assumption. exact P. }
    destruct (tail nc (rm fs0 (errp (j_hash j))) (outp (j_hash j)) (j_args j) (j_kwargs j)) as [fs2 r2] eqn:T.
    pose proof (wrap_by_output nc fs0 (j_hash j) _ _ _ _ fs2 r2 eq_refl eq_refl Hh C P0 T) as [A B].
    cbv zeta in A, B. unfold local, one_of_out_err. destruct r2; simpl fst; (split; [exact A|tauto]).
  Qed.

  (** an attempt that raises leaves no output file behind (so it cannot feed the cache of a later
      attempt of the same evaluation hash) *)
  Lemma tail_exc_absent nc fs op ta tk fs' r e :
    rd fs op = None -> f ta tk = Exc V e -> tail nc fs op ta tk = (fs', r) -> rd fs' op = None /\ r = Raised V e.
  Proof.
    unfold tail. intros H Hf T.
    assert (A : forall b, rd (clr b fs op) op = None).
    { intros b. destruct (clr_cases b fs op) as [-> | ->]; [exact H|apply rd_rm_same]. }
    destruct nc.
    - rewrite Hf in T. inversion T; subst. auto.
    - rewrite H, Hf in T. inversion T; subst. auto.
  Qed.

  Theorem single_exc_keeps_fresh nc (j : job V) fs e :
    Name (j_hash j) -> rd fs (outp (j_hash j)) = None -> f (j_args j) (j_kwargs j) = Exc V e ->
    rd (fst (remote_single V pbytes dump load f valid tb_of c prefix nc j fs)) (outp (j_hash j)) = None.
  Proof.
    intros Hh Hn Hf. unfold remote_single. rewrite (single_run_form nc j fs Hh).
    set (fs0 := write_single V pbytes dump c prefix j fs) in *.
    assert (NE : outp (j_hash j) <> errp (j_hash j)) by (apply out_err_neq; assumption).
    destruct (tail nc (rm fs0 (errp (j_hash j))) (outp (j_hash j)) (j_args j) (j_kwargs j)) as [fs2 r2] eqn:T.
    assert (Hn0 : rd (rm fs0 (errp (j_hash j))) (outp (j_hash j)) = None).
    { rewrite rd_rm_other by assumption. unfold fs0. rewrite write_single_out by assumption. exact Hn. }
    destruct (tail_exc_absent _ _ _ _ _ _ _ e Hn0 Hf T) as [A ->].
    simpl fst. rewrite rd_wr_other by assumption. exact A.
  Qed.

  (** attempt histories on one scratch directory: any sequence of earlier attempts (any arguments,
      e.g. other config_args / JobInfo under the same evaluation hash) *)
  Fixpoint run_attempts nc (hist : list (job V)) (fs : fs_t) : fs_t :=
    match hist with
    | [] => fs
    | a :: r => run_attempts nc r (fst (remote_single V pbytes dump load f valid tb_of c prefix nc a fs))
    end.

  Theorem attempts_after_failures nc hist (j : job V) fs :
    Name (j_hash j) -> rd fs (outp (j_hash j)) = None ->
    Forall (fun a => j_hash a = j_hash j /\ exists e, f (j_args a) (j_kwargs a) = Exc V e) hist ->
    snd (remote_single V pbytes dump load f valid tb_of c prefix nc j (run_attempts nc hist fs)) = local V f j.
  Proof.
    intros Hh Hn H. apply single_eq_local; [assumption|].
    unfold prior_ok, prior.
    assert (A : rd (run_attempts nc hist fs) (outp (j_hash j)) = None).
    { revert fs Hn. induction H as [|a r [Ea [e He]] Hr IH]; intros fs Hn; [exact Hn|].
      simpl. apply IH. rewrite <- Ea. apply single_exc_keeps_fresh with (e := e); rewrite ?Ea; assumption. }
    rewrite A. exact I.
  Qed.

  (** ** Array jobs *)
  Variable aid : str.
  Hypothesis AID : Name aid.
  Variable jobs : list (job V).
  Hypothesis HASHES : Forall (fun j => Name (j_hash j)) jobs.
  (** an evaluation hash determines the arguments (it is a hash of task and arguments) *)
  Hypothesis SAMEHASH : forall j j', In j jobs -> In j' jobs -> j_hash j = j_hash j' ->
                                     j_args j = j_args j' /\ j_kwargs j = j_kwargs j'.
  Variable nc : bool.

  Definition AI := array_file c prefix aid (f_input c).
  Definition AO := array_file c prefix aid (f_output c).
  Definition AE := array_file c prefix aid (f_error c).
  Definition AH := array_file c prefix aid (f_hashes c).

  Record Inv (fs : fs_t) : Prop := {
    inv_in : rd fs AI = Some (BP (dump (Seq [Seq (map (@j_args V) jobs); Seq (map (@j_kwargs V) jobs)])));
    inv_out : rd fs AO = Some (BJson pbytes (map (fun j => outp (j_hash j)) jobs));
    inv_err : rd fs AE = Some (BJson pbytes (map (fun j => errp (j_hash j)) jobs));
    inv_prior : forall j, In j jobs -> prior_ok nc j fs
  }.

  Lemma arr_neq_job f1 h f2 : Name f1 -> Name h -> Name f2 ->
    array_file c prefix aid f1 <> job_file c prefix h f2.
  Proof. intros H1 Hh H2 E. symmetry in E. revert E. apply (job_array_file_neq c OK); assumption. Qed.

  Lemma arr_neq f1 f2 : Name f1 -> Name f2 -> f1 <> f2 -> array_file c prefix aid f1 <> array_file c prefix aid f2.
  Proof. intros H1 H2 Hn E. apply (array_file_inj c OK) in E; try assumption. tauto. Qed.

  Theorem write_array_inv fs inc :
    (forall j, In j jobs -> prior_ok nc j fs) ->
    Inv (write_array V pbytes dump c prefix aid jobs inc fs).
  Proof.
    intros P. unfold write_array. rewrite (ok_oo c OK), (ok_ee c OK).
    fold AI AO AE AH.
    assert (N1 : AI <> AO) by (apply arr_neq; apply OK).
    assert (N2 : AI <> AE) by (apply arr_neq; apply OK).
    assert (N3 : AO <> AE) by (apply arr_neq; apply OK).
    assert (N4 : AI <> AH) by (apply arr_neq; try solve [apply OK]; intro X; symmetry in X; revert X; apply OK).
    assert (N5 : AO <> AH) by (apply arr_neq; try solve [apply OK]; intro X; symmetry in X; revert X; apply OK).
    assert (N6 : AE <> AH) by (apply arr_neq; try solve [apply OK]; intro X; symmetry in X; revert X; apply OK).
    assert (PR : forall fs1 p b j, In j jobs -> (exists g, Name g /\ p = array_file c prefix aid g) ->
                 prior_ok nc j fs1 -> prior_ok nc j (wr fs1 p b)).
    { intros fs1 p b j Hj [g [Hg ->]] Q. unfold prior_ok, prior in *.
      rewrite rd_wr_other; [exact Q|]. intro X. symmetry in X. revert X. apply arr_neq_job; try assumption; try solve [apply OK].
      rewrite Forall_forall in HASHES. apply HASHES. assumption. }
    destruct inc; constructor;
      repeat first [ rewrite rd_wr_same; reflexivity
                   | rewrite rd_wr_other by (assumption || (intro X; symmetry in X; contradiction)) ];
      try reflexivity;
      intros j Hj; repeat (apply PR; [assumption|eexists; split; [|reflexivity]; apply OK|]); apply P; assumption.
  Qed.

  Lemma nth_map {A B} (g : A -> B) l i x : nth_error l i = Some x -> nth_error (map g l) i = Some (g x).
  Proof. intros H. rewrite nth_error_map, H. reflexivity. Qed.

  Theorem run_elem_spec env i j fs fs' r :
    Inv fs -> nth_error jobs i = Some j -> get_index c env None = IdxOk (N.of_nat i) ->
    run_elem V pbytes dump load f valid tb_of c prefix aid nc env fs = (fs', r) ->
    collect V pbytes load c prefix (j_hash j) fs' r = local V f j
    /\ (forall q, q <> outp (j_hash j) -> q <> errp (j_hash j) -> rd fs' q = rd fs q)
    /\ Inv fs'.
  Proof.
    intros I Hn Hidx E. unfold run_elem, oneshot in E. cbn [args_array a_array a_error a_rank_env] in E.
    rewrite Hidx in E. fold AE in E.
    assert (Hj : In j jobs) by (eapply nth_error_In; eassumption).
    assert (Hh : Name (j_hash j)) by (rewrite Forall_forall in HASHES; apply HASHES; assumption).
    unfold read_spec in E. rewrite (inv_err _ I), Nat2N.id in E.
    rewrite (nth_map (fun j => errp (j_hash j)) _ _ _ Hn) in E.
    assert (NAI : AI <> errp (j_hash j)) by (apply arr_neq_job; try solve [apply OK]; assumption).
    assert (NAO : AO <> errp (j_hash j)) by (apply arr_neq_job; try solve [apply OK]; assumption).
    assert (B : oneshot_body V pbytes dump load f valid c (args_array c prefix aid nc) (N.of_nat i) (rm fs (errp (j_hash j)))
                = tail nc (rm fs (errp (j_hash j))) (outp (j_hash j)) (j_args j) (j_kwargs j)).
    { unfold oneshot_body. cbn [args_array a_array a_output a_input a_no_cache].
      fold AO AI. unfold read_spec, read_input.
      rewrite !rd_rm_other by assumption. rewrite (inv_out _ I), (inv_in _ I), RT, Nat2N.id.
      rewrite (nth_map (fun j => outp (j_hash j)) _ _ _ Hn).
      rewrite (nth_map (@j_args V) _ _ _ Hn), (nth_map (@j_kwargs V) _ _ _ Hn).
      unfold tail. destruct nc; reflexivity. }
    rewrite B in E. clear B.
    destruct (tail nc (rm fs (errp (j_hash j))) (outp (j_hash j)) (j_args j) (j_kwargs j)) as [fs2 r2] eqn:T.
    pose proof (wrap_spec nc fs (j_hash j) _ _ _ _ fs2 r2 eq_refl eq_refl Hh (inv_prior _ I j Hj) T) as W.
    cbv zeta in W.
    assert (E' : (match r2 with Raised _ e => wr fs2 (errp (j_hash j)) (BP (dump (Seq [e; tb_of e]))) | _ => fs2 end, r2) = (fs', r)).
    { destruct r2; exact E. }
    inversion E'; subst; clear E' E.
    destruct W as [C [FR P]]. split; [|split].
    - unfold local. exact C.
    - exact FR.
    - constructor.
      + rewrite FR; [apply I| |]; apply arr_neq_job; try solve [apply OK]; assumption.
      + rewrite FR; [apply I| |]; apply arr_neq_job; try solve [apply OK]; assumption.
      + rewrite FR; [apply I| |]; apply arr_neq_job; try solve [apply OK]; assumption.
      + intros j' Hj'.
        assert (Hh' : Name (j_hash j')) by (rewrite Forall_forall in HASHES; apply HASHES; assumption).
        destruct (str_eqb (j_hash j') (j_hash j)) eqn:Eh.
        * apply str_eqb_spec in Eh. destruct (SAMEHASH j' j Hj' Hj Eh) as [Ea Ek].
          unfold prior_ok. rewrite Eh, Ea, Ek. exact P.
        * apply str_eqb_false in Eh. unfold prior_ok, prior.
          rewrite FR; [apply (inv_prior _ I j' Hj')| |].
          -- intro X. apply (job_file_inj c OK) in X; try assumption; try solve [apply OK]. tauto.
          -- apply out_err_neq; assumption.
  Qed.

  Lemma run_elem_form env i j fs :
    Inv fs -> nth_error jobs i = Some j -> get_index c env None = IdxOk (N.of_nat i) ->
    run_elem V pbytes dump load f valid tb_of c prefix aid nc env fs =
    match tail nc (rm fs (errp (j_hash j))) (outp (j_hash j)) (j_args j) (j_kwargs j) with
    | (fs2, Raised _ e) => (wr fs2 (errp (j_hash j)) (BP (dump (Seq [e; tb_of e]))), Raised V e)
    | other => other
    end.
  Proof.
    intros I Hn Hidx. unfold run_elem, oneshot. cbn [args_array a_array a_error a_rank_env].
    rewrite Hidx. fold AE.
    assert (Hj : In j jobs) by (eapply nth_error_In; eassumption).
    assert (Hh : Name (j_hash j)) by (rewrite Forall_forall in HASHES; apply HASHES; assumption).
    unfold read_spec. rewrite (inv_err _ I), Nat2N.id.
    rewrite (nth_map (fun j => errp (j_hash j)) _ _ _ Hn).
    assert (NAI : AI <> errp (j_hash j)) by (apply arr_neq_job; try solve [apply OK]; assumption).
    assert (NAO : AO <> errp (j_hash j)) by (apply arr_neq_job; try solve [apply OK]; assumption).
    assert (B : oneshot_body V pbytes dump load f valid c (args_array c prefix aid nc) (N.of_nat i) (rm fs (errp (j_hash j)))
                = tail nc (rm fs (errp (j_hash j))) (outp (j_hash j)) (j_args j) (j_kwargs j)).
    { unfold oneshot_body. cbn [args_array a_array a_output a_input a_no_cache].
      fold AO AI. unfold read_spec, read_input.
      rewrite !rd_rm_other by assumption. rewrite (inv_out _ I), (inv_in _ I), RT, Nat2N.id.
      rewrite (nth_map (fun j => outp (j_hash j)) _ _ _ Hn).
      rewrite (nth_map (@j_args V) _ _ _ Hn), (nth_map (@j_kwargs V) _ _ _ Hn).
      unfold tail. destruct nc; reflexivity. }
    rewrite B. reflexivity.
  Qed.

  Theorem run_elem_by_output env i j fs :
    Inv fs -> nth_error jobs i = Some j -> get_index c env None = IdxOk (N.of_nat i) -> clears nc ->
    let fs' := fst (run_elem V pbytes dump load f valid tb_of c prefix aid nc env fs) in
    collect_by_output V pbytes load c prefix (j_hash j) fs' = local V f j /\ one_of_out_err fs' (j_hash j).
  Proof.
    intros I Hn Hidx C. rewrite (run_elem_form env i j fs I Hn Hidx).
    assert (Hj : In j jobs) by (eapply nth_error_In; eassumption).
    assert (Hh : Name (j_hash j)) by (rewrite Forall_forall in HASHES; apply HASHES; assumption).
    destruct (tail nc (rm fs (errp (j_hash j))) (outp (j_hash j)) (j_args j) (j_kwargs j)) as [fs2 r2] eqn:T.
    pose proof (wrap_by_output nc fs (j_hash j) _ _ _ _ fs2 r2 eq_refl eq_refl Hh C (inv_prior _ I j Hj) T) as [A B].
    cbv zeta in A, B. unfold local, one_of_out_err. destruct r2; simpl fst; (split; [exact A|tauto]).
  Qed.

  (** any sequential schedule of element runs (any order, repetitions = retries) *)
  Variable envs : nat -> env_t.
  Hypothesis ENVS : forall i, i < List.length jobs -> get_index c (envs i) None = IdxOk (N.of_nat i).

  Fixpoint run_seq (l : list nat) (fs : fs_t) : fs_t :=
    match l with
    | [] => fs
    | i :: r => run_seq r (fst (run_elem V pbytes dump load f valid tb_of c prefix aid nc (envs i) fs))
    end.

  Theorem run_seq_inv l : Forall (fun i => i < List.length jobs) l -> forall fs, Inv fs -> Inv (run_seq l fs).
  Proof.
    induction 1 as [|i l Hi Hl IH]; intros fs I; [exact I|].
    simpl. apply IH.
    destruct (nth_error jobs i) as [j|] eqn:Hn; [|apply nth_error_None in Hn; lia].
    destruct (run_elem V pbytes dump load f valid tb_of c prefix aid nc (envs i) fs) as [fs' r] eqn:E.
    destruct (run_elem_spec (envs i) i j fs fs' r I Hn (ENVS i Hi) E) as [_ [_ I']]. exact I'.
  Qed.

  Theorem array_elem_eq_local fs0 inc before i j :
    (forall j, In j jobs -> prior_ok nc j fs0) ->
    Forall (fun i => i < List.length jobs) before ->
    nth_error jobs i = Some j ->
    let fs := run_seq before (write_array V pbytes dump c prefix aid jobs inc fs0) in
    let '(fs', r) := run_elem V pbytes dump load f valid tb_of c prefix aid nc (envs i) fs in
    collect V pbytes load c prefix (j_hash j) fs' r = local V f j
    /\ (forall q, q <> outp (j_hash j) -> q <> errp (j_hash j) -> rd fs' q = rd fs q).
  Proof.
    intros P Hb Hn fs.
    assert (I : Inv fs) by (apply run_seq_inv; [assumption|apply write_array_inv; assumption]).
    destruct (run_elem V pbytes dump load f valid tb_of c prefix aid nc (envs i) fs) as [fs' r] eqn:E.
    assert (Hi : i < List.length jobs) by (apply nth_error_Some; congruence).
    destruct (run_elem_spec (envs i) i j fs fs' r I Hn (ENVS i Hi) E) as [C [FR _]]. auto.
  Qed.

  Theorem array_elem_by_output fs0 inc before i j :
    (forall j, In j jobs -> prior_ok nc j fs0) ->
    Forall (fun i => i < List.length jobs) before ->
    nth_error jobs i = Some j -> clears nc ->
    let fs := run_seq before (write_array V pbytes dump c prefix aid jobs inc fs0) in
    let fs' := fst (run_elem V pbytes dump load f valid tb_of c prefix aid nc (envs i) fs) in
    collect_by_output V pbytes load c prefix (j_hash j) fs' = local V f j /\ one_of_out_err fs' (j_hash j).
  Proof.
    intros P Hb Hn C fs.
    assert (I : Inv fs) by (apply run_seq_inv; [assumption|apply write_array_inv; assumption]).
    assert (Hi : i < List.length jobs) by (apply nth_error_Some; congruence).
    exact (run_elem_by_output (envs i) i j fs I Hn (ENVS i Hi) C).
  Qed.

  (** the eval-hash file pairs array index i with the hash of the job whose arguments element i runs *)
  Theorem write_array_hashes fs i j :
    Forall (fun j => hexstr (j_hash j) = true) jobs -> nth_error jobs i = Some j ->
    exists t, rd (write_array V pbytes dump c prefix aid jobs true fs) AH = Some (BText pbytes t)
              /\ nth_error (splitlines t) i = Some (j_hash j).
  Proof.
    intros HX Hn. unfold write_array. fold AH. rewrite rd_wr_same. eexists; split; [reflexivity|].
    rewrite splitlines_join.
    - apply nth_map. assumption.
    - apply Forall_forall. intros h Hin. apply in_map_iff in Hin. destruct Hin as [j' [<- Hj']].
      rewrite Forall_forall in HX. specialize (HX j' Hj'). apply hexstr_facts in HX. tauto.
  Qed.
End Run.

(** ** get_job_array_index *)
Lemma index_chain_only vars v x : In v vars -> index_chain vars [(v, x)] = parse_index x.
Proof.
  induction vars as [|v' r IH]; intros H; [contradiction|].
  simpl. destruct (str_eqb v' v) eqn:E; [reflexivity|].
  destruct H as [->|H]; [rewrite str_eqb_refl in E; discriminate|auto].
Qed.

Theorem array_index_env c v n : In v (env_vars c) -> (n < 10000)%nat ->
  get_index c [(v, dec_of_nat n)] None = IdxOk (N.of_nat n).
Proof. intros Hv Hn. unfold get_index. rewrite index_chain_only by assumption. apply parse_index_decimal_10000. assumption. Qed.
