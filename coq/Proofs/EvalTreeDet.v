(** Schedule independence (C01/C07 for the tree machine): a program in which no parallel container has two
    failing children has exactly one admissible outcome, so every schedule that finishes yields it. *)
From Coq Require Import List ZArith Bool Arith Lia.
From RV Require Import Model.EvalTree Proofs.EvalTreeWF Proofs.EvalTreeRun Proofs.EvalTreeRef.
Import ListNotations.
Open Scope list_scope.

Fixpoint nfail (cs : list spec) : nat := match cs with [] => 0 | c :: r => (if fails c then 1 else 0) + nfail r end.

(** no [SList] (all children in parallel, first rejection observed wins) has two failing children *)
Fixpoint detb (s : spec) : bool :=
  match s with
  | SLeaf _ | SRaise _ => true
  | SList _ cs => (nfail cs <=? 1) && (fix all (l : list spec) : bool := match l with [] => true | c :: r => detb c && all r end) cs
  | SSeq cs | SAll cs | SAllRec cs => (fix all (l : list spec) : bool := match l with [] => true | c :: r => detb c && all r end) cs
  | SCatch c => detb c
  end.

Fixpoint detall (l : list spec) : bool := match l with [] => true | c :: r => detb c && detall r end.

Lemma detall_eq cs :
  (fix all (l : list spec) : bool := match l with [] => true | c :: r => detb c && all r end) cs = detall cs.
Proof. induction cs as [|c r IH]; [reflexivity|]. cbn [detall]. rewrite <- IH. reflexivity. Qed.
Lemma detb_list p cs : detb (SList p cs) = (nfail cs <=? 1) && detall cs.
Proof. cbn [detb]. rewrite detall_eq. reflexivity. Qed.
Lemma detb_seq cs : detb (SSeq cs) = detall cs.
Proof. cbn [detb]. apply detall_eq. Qed.
Lemma detb_all cs : detb (SAll cs) = detall cs.
Proof. cbn [detb]. apply detall_eq. Qed.
Lemma detb_allrec cs : detb (SAllRec cs) = detall cs.
Proof. cbn [detb]. apply detall_eq. Qed.

Definition UNI (s : spec) : Prop := detb s = true -> forall o1 o2, adm s o1 -> adm s o2 -> o1 = o2.

Lemma uni_oks cs : Forall UNI cs -> detall cs = true ->
  forall vs1 vs2, Forall2 (fun c v => adm c (Ok v)) cs vs1 -> Forall2 (fun c v => adm c (Ok v)) cs vs2 -> vs1 = vs2.
Proof.
  induction 1 as [|c r Hc _ IH]; intros Hd vs1 vs2 H1 H2.
  - inversion H1; inversion H2; reflexivity.
  - simpl in Hd. apply andb_true_iff in Hd. destruct Hd as [Dc Dr].
    inversion H1 as [|? v1 ? r1 A1 B1]; subst. inversion H2 as [|? v2 ? r2 A2 B2]; subst.
    assert (E : Ok v1 = Ok v2) by (apply (Hc Dc); assumption). injection E as ->. f_equal. eapply IH; eauto.
Qed.

(** positional first failure: prefix all ok, then a failing child *)
Lemma uni_first cs : Forall UNI cs -> detall cs = true ->
  forall pre1 c1 post1 vs1 e1 pre2 c2 post2 vs2 e2,
  cs = pre1 ++ c1 :: post1 -> Forall2 (fun c v => adm c (Ok v)) pre1 vs1 -> adm c1 (Ko e1) ->
  cs = pre2 ++ c2 :: post2 -> Forall2 (fun c v => adm c (Ok v)) pre2 vs2 -> adm c2 (Ko e2) -> e1 = e2.
Proof.
  induction 1 as [|c r Hc _ IH]; intros Hd pre1 c1 post1 vs1 e1 pre2 c2 post2 vs2 e2 E1 P1 K1 E2 P2 K2.
  - destruct pre1; discriminate.
  - simpl in Hd. apply andb_true_iff in Hd. destruct Hd as [Dc Dr].
    destruct pre1 as [|a1 pre1]; destruct pre2 as [|a2 pre2]; simpl in E1, E2.
    + injection E1 as Ea Eb. injection E2 as Ec Ed. subst c1 c2.
      assert (E : Ko e1 = Ko e2) by (apply (Hc Dc); assumption). congruence.
    + injection E1 as Ea Eb. injection E2 as Ec Ed. subst c1 a2. inversion P2 as [|? v ? ? A _]; subst.
      exfalso. eapply fails_true_no_ok; [|exact A]. destruct (fails c) eqn:F; auto.
      exfalso. eapply fails_false_no_ko; eauto.
    + injection E1 as Ea Eb. injection E2 as Ec Ed. subst a1 c2. inversion P1 as [|? v ? ? A _]; subst.
      exfalso. eapply fails_true_no_ok; [|exact A]. destruct (fails c) eqn:F; auto.
      exfalso. eapply fails_false_no_ko; eauto.
    + injection E1 as Ea Eb. injection E2 as Ec Ed. subst a1 a2.
      inversion P1 as [|? ? ? vs1' _ P1']; subst. inversion P2 as [|? ? ? vs2' _ P2']; subst.
      eapply (IH Dr pre1 c1 post1 vs1' e1 pre2 c2 post2 vs2' e2); eauto.
Qed.

(** with at most one failing child, any failing child's error is the same *)
Lemma uni_any cs : Forall UNI cs -> detall cs = true -> nfail cs <= 1 ->
  forall c1 c2 e1 e2, In c1 cs -> adm c1 (Ko e1) -> In c2 cs -> adm c2 (Ko e2) -> e1 = e2.
Proof.
  induction 1 as [|c r Hc _ IH]; intros Hd Hn c1 c2 e1 e2 I1 K1 I2 K2; [contradiction|].
  simpl in Hd, Hn. apply andb_true_iff in Hd. destruct Hd as [Dc Dr].
  assert (Fk : forall x e, adm x (Ko e) -> fails x = true).
  { intros x e K. destruct (fails x) eqn:F; auto. exfalso. eapply fails_false_no_ko; eauto. }
  assert (Nz : forall x e, In x r -> adm x (Ko e) -> 1 <= nfail r).
  { clear - Fk. induction r as [|y r IHr]; intros x e Hin K; [contradiction|]. simpl. destruct Hin as [->|Hin].
    - rewrite (Fk _ _ K). lia.
    - specialize (IHr x e Hin K). lia. }
  destruct I1 as [->|I1]; destruct I2 as [->|I2].
  - assert (E : Ko e1 = Ko e2) by (apply (Hc Dc); assumption). congruence.
  - rewrite (Fk _ _ K1) in Hn. pose proof (Nz _ _ I2 K2). lia.
  - rewrite (Fk _ _ K2) in Hn. pose proof (Nz _ _ I1 K1). lia.
  - apply (IH Dr) with (c1 := c1) (c2 := c2); auto. destruct (fails c); lia.
Qed.

(** if every child has a value, no admissible outcome list contains an error *)
Lemma oks_no_ko cs vs outs e :
  Forall2 (fun c v => adm c (Ok v)) cs vs -> Forall2 (fun c o => adm c o) cs outs -> In (Ko e) outs -> False.
Proof.
  intros F. revert outs. induction F as [|c v cs vs Hv _ IH]; intros outs O I.
  - inversion O; subst. contradiction.
  - inversion O as [|? o ? outs' Ho Hos]; subst. destruct I as [->|I].
    + eapply fails_true_no_ok; [|exact Hv]. destruct (fails c) eqn:F0; auto. exfalso. eapply fails_false_no_ko; eauto.
    + eapply IH; eauto.
Qed.

Lemma uni_outs cs : Forall UNI cs -> detall cs = true ->
  forall o1 o2, Forall2 (fun c o => adm c o) cs o1 -> Forall2 (fun c o => adm c o) cs o2 -> o1 = o2.
Proof.
  induction 1 as [|c r Hc _ IH]; intros Hd o1 o2 H1 H2.
  - inversion H1; inversion H2; reflexivity.
  - simpl in Hd. apply andb_true_iff in Hd. destruct Hd as [Dc Dr].
    inversion H1 as [|? a1 ? r1 A1 B1]; subst. inversion H2 as [|? a2 ? r2 A2 B2]; subst.
    rewrite (Hc Dc a1 a2 A1 A2). f_equal. eapply IH; eauto.
Qed.

Theorem adm_unique s : UNI s.
Proof.
  induction s as [z|e|p cs IH|cs IH|c IH|cs IH|cs IH] using spec_ind'; intros Hd o1 o2 H1 H2.
  - inversion H1; inversion H2; subst; reflexivity.
  - inversion H1; inversion H2; subst; reflexivity.
  - rewrite detb_list in Hd. apply andb_true_iff in Hd. destruct Hd as [Hn Hd]. apply Nat.leb_le in Hn.
    inversion H1 as [ | |p1 cs1 vs1 F1|p1 cs1 c1 e1 I1 K1| | | | | | | | ]; subst;
    inversion H2 as [ | |p2 cs2 vs2 F2|p2 cs2 c2 e2 I2 K2| | | | | | | | ]; subst.
    + rewrite (uni_oks cs IH Hd vs1 vs2 F1 F2). reflexivity.
    + exfalso. destruct (fails (SList p cs)) eqn:F.
      * eapply fails_true_no_ok; [exact F|exact H1].
      * eapply fails_false_no_ko; [exact F|exact H2].
    + exfalso. destruct (fails (SList p cs)) eqn:F.
      * eapply fails_true_no_ok; [exact F|exact H2].
      * eapply fails_false_no_ko; [exact F|exact H1].
    + f_equal. exact (uni_any cs IH Hd Hn c1 c2 e1 e2 I1 K1 I2 K2).
  - rewrite detb_seq in Hd.
    inversion H1 as [ | | | |cs1 vs1 F1|cs1 pre1 c1 post1 vs1 e1 E1 P1 K1| | | | | | ]; subst;
    inversion H2 as [ | | | |cs2 vs2 F2|cs2 pre2 c2 post2 vs2 e2 E2 P2 K2| | | | | | ]; subst.
    + rewrite (uni_oks _ IH Hd vs1 vs2 F1 F2). reflexivity.
    + exfalso. destruct (fails (SSeq (pre2 ++ c2 :: post2))) eqn:F.
      * eapply fails_true_no_ok; [exact F|exact H1].
      * eapply fails_false_no_ko; [exact F|exact H2].
    + exfalso. destruct (fails (SSeq (pre1 ++ c1 :: post1))) eqn:F.
      * eapply fails_true_no_ok; [exact F|exact H2].
      * eapply fails_false_no_ko; [exact F|exact H1].
    + f_equal. eapply (uni_first _ IH Hd pre1 c1 post1 vs1 e1 pre2 c2 post2 vs2 e2); eauto.
  - cbn [detb] in Hd.
    inversion H1 as [ | | | | | |c1 v1 A1|c1 e1 A1| | | | ]; subst; inversion H2 as [ | | | | | |c2 v2 A2|c2 e2 A2| | | | ]; subst.
    + apply (IH Hd); assumption.
    + exfalso. assert (E : Ok v1 = Ko e2) by (apply (IH Hd); assumption). discriminate.
    + exfalso. assert (E : Ko e1 = Ok v2) by (apply (IH Hd); assumption). discriminate.
    + assert (E : Ko e1 = Ko e2) by (apply (IH Hd); assumption). congruence.
  - rewrite detb_all in Hd.
    inversion H1 as [ | | | | | | | |cs1 vs1 F1|cs1 pre1 c1 post1 vs1 e1 E1 P1 K1| | ]; subst;
    inversion H2 as [ | | | | | | | |cs2 vs2 F2|cs2 pre2 c2 post2 vs2 e2 E2 P2 K2| | ]; subst.
    + rewrite (uni_oks _ IH Hd vs1 vs2 F1 F2). reflexivity.
    + exfalso. destruct (fails (SAll (pre2 ++ c2 :: post2))) eqn:F.
      * eapply fails_true_no_ok; [exact F|exact H1].
      * eapply fails_false_no_ko; [exact F|exact H2].
    + exfalso. destruct (fails (SAll (pre1 ++ c1 :: post1))) eqn:F.
      * eapply fails_true_no_ok; [exact F|exact H2].
      * eapply fails_false_no_ko; [exact F|exact H1].
    + f_equal. eapply (uni_first _ IH Hd pre1 c1 post1 vs1 e1 pre2 c2 post2 vs2 e2); eauto.
  - rewrite detb_allrec in Hd.
    inversion H1 as [ | | | | | | | | | |cs1 vs1 F1|cs1 outs1 e1 O1 I1]; subst;
    inversion H2 as [ | | | | | | | | | |cs2 vs2 F2|cs2 outs2 e2 O2 I2]; subst.
    + rewrite (uni_oks _ IH Hd vs1 vs2 F1 F2). reflexivity.
    + exfalso. exact (oks_no_ko cs vs1 outs2 e2 F1 O2 I2).
    + exfalso. exact (oks_no_ko cs vs2 outs1 e1 F2 O1 I1).
    + rewrite (uni_outs _ IH Hd outs1 outs2 O1 O2). reflexivity.
Qed.

(** every schedule that finishes yields the same outcome *)
Theorem run_schedule_independent s ops1 ops2 o1 o2 :
  detb s = true -> result (run s ops1) = Some o1 -> result (run s ops2) = Some o2 -> o1 = o2.
Proof. intros Hd H1 H2. apply (adm_unique s Hd); eapply run_sound; eauto. Qed.
