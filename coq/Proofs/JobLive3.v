From Coq Require Import List ZArith Bool Arith Lia Permutation.
From RV Require Import Model.JobMachine Proofs.JobBase Proofs.JobRes Proofs.JobRes2 Proofs.JobRes3
  Proofs.JobLive Proofs.JobLive2.
Import ListNotations.
Open Scope list_scope.

Section L.
Variable c : config.
Hypothesis Hfix : release_if_holds (vr c) = true.
Hypothesis Hlim : forall r, (0 <= limit_of c r)%Z.

(** * settling *)
Lemma live_settle_one s ex j o :
  (forall x, getj s j = Some x -> jholds x = false) -> Live s ex -> Live (settle_one c s j o) ex.
Proof.
  intros Hn L. unfold settle_one. destruct (getj s j) as [x|] eqn:Hx; auto.
  set (s1 := if jprov x then add_recorded s (jkey x, jctx x) o else s).
  assert (Hx1 : getj s1 j = Some x) by (unfold s1; destruct (jprov x); exact Hx).
  assert (L1 : Live s1 ex) by (unfold s1; destruct (jprov x); [apply (live_frame s); [reflexivity|reflexivity|exact L]|exact L]).
  unfold finalize. rewrite (getj_setj_same _ _ _ _ Hx1).
  apply (live_frame (setj s1 j (with_phase x (PSettled o)))); [reflexivity|reflexivity|].
  apply live_phase; auto; try discriminate. intros [H|H]; discriminate.
Qed.

Lemma live_mark_cached s ex j y v p :
  getj s j = Some y -> jholds y = false -> p <> PSubmitted \/ (jphase y = p) ->
  Live s ex -> Live (setj s j (mark_cached y v p)) ex.
Proof.
  intros Hy Hh Hp L. apply (live_setj s ex j y); auto; unfold good; simpl; auto; try congruence.
  intros E. destruct Hp as [Hp|Hp]; [congruence|]. subst p.
  destruct (l_sub _ _ L j y Hy E) as [H|H]; [congruence|auto].
Qed.

Lemma live_notify ex o s sub :
  (forall y, getj s sub = Some y -> jholds y = false) -> Live s ex -> Live (notify_sub c o s sub) ex.
Proof.
  intros Hn L. unfold notify_sub. destruct (getj s sub) as [y|] eqn:Hy; auto. destruct o as [v|e].
  - apply live_enqueue; try discriminate.
    + apply live_mark_cached; auto. left. discriminate.
    + simpl. rewrite (getj_setj_same _ _ _ _ Hy). eauto.
    + intros j x [= <-]. change (getj (setj s sub (mark_cached y (Some v) PCacheQ)) sub = Some x -> good' x).
      rewrite (getj_setj_same _ _ _ _ Hy). intros [= <-]. left. left. reflexivity.
  - apply live_settle_one.
    + intros x. rewrite (getj_setj_same _ _ _ _ Hy). intros [= <-]. simpl. auto.
    + apply live_mark_cached; auto.
Qed.

Lemma live_notify_list ex o l : forall s,
  (forall x, In x l -> In x (map snd (subs s))) -> Inv c s -> Live s ex ->
  Live (fold_left (notify_sub c o) l s) ex.
Proof.
  induction l as [|a l IH]; intros s Hl I L; simpl; auto.
  assert (Ha : In a (map snd (subs s))) by (apply Hl; now left).
  destruct (inv_notify_sub c o s a Ha I) as [I1 E].
  apply IH; auto.
  - intros x Hx. rewrite E. apply Hl. now right.
  - apply live_notify; auto. intros y Hy. exact (i_subs _ _ I a y Ha Hy).
Qed.

Lemma live_settle s ex j o :
  (forall x, getj s j = Some x -> jholds x = false) -> Inv c s -> Live s ex -> Live (settle c s j o) ex.
Proof.
  intros Hn I L. unfold settle. destruct (getj s j) as [x|] eqn:Hx; auto.
  apply live_notify_list.
  - intros y Hy. apply in_map_iff in Hy. destruct Hy as (p & <- & Hp).
    apply filter_In in Hp. destruct Hp as [Hp _]. apply in_map. exact Hp.
  - now apply inv_settle_one.
  - apply live_settle_one; auto. intros x0. rewrite Hx. intros [= <-]. eauto.
Qed.

(** the popped job does not hold after settle (settle never sets holds) — used to close the handler *)
Lemma settle_one_core s j o k z :
  getj (settle_one c s j o) k = Some z -> exists z', getj s k = Some z' /\ same_core z' z.
Proof.
  unfold settle_one. destruct (getj s j) as [x|] eqn:Hx; [|intros H; exists z; repeat split; auto].
  set (s1 := if jprov x then add_recorded s (jkey x, jctx x) o else s).
  assert (Hx1 : getj s1 j = Some x) by (unfold s1; destruct (jprov x); exact Hx).
  assert (Hg : forall k, getj s1 k = getj s k) by (intros; unfold s1; destruct (jprov x); reflexivity).
  unfold finalize. rewrite (getj_setj_same _ _ _ _ Hx1).
  change (getj (set_pending (setj s1 j (with_phase x (PSettled o))) _) k) with (getj (setj s1 j (with_phase x (PSettled o))) k).
  destruct (Nat.eq_dec j k) as [->|Hne].
  - rewrite (getj_setj_same _ _ _ _ Hx1). intros [= <-]. exists x. split; [now rewrite <- Hg|apply same_core_phase].
  - rewrite getj_setj_other by assumption. rewrite Hg. intros H. exists z. repeat split; auto.
Qed.

Lemma notify_holds o s sub k z :
  getj (notify_sub c o s sub) k = Some z -> exists z', getj s k = Some z' /\ jholds z' = jholds z.
Proof.
  unfold notify_sub. destruct (getj s sub) as [y|] eqn:Hy; [|eauto]. destruct o as [v|e].
  - change (getj (enqueue (setj s sub (mark_cached y (Some v) PCacheQ)) (EvDone sub)) k)
      with (getj (setj s sub (mark_cached y (Some v) PCacheQ)) k).
    destruct (Nat.eq_dec sub k) as [->|Hne].
    + rewrite (getj_setj_same _ _ _ _ Hy). intros [= <-]. eauto.
    + rewrite getj_setj_other by assumption. eauto.
  - intros H. destruct (settle_one_core _ _ _ _ _ H) as (z1 & H1 & (_ & E & _)).
    destruct (Nat.eq_dec sub k) as [->|Hne].
    + rewrite (getj_setj_same _ _ _ _ Hy) in H1. injection H1 as <-. exists y. split; auto.
    + rewrite getj_setj_other in H1 by assumption. eauto.
Qed.

Lemma settle_holds s j o k z :
  getj (settle c s j o) k = Some z -> exists z', getj s k = Some z' /\ jholds z' = jholds z.
Proof.
  unfold settle. destruct (getj s j) as [x|]; [|eauto].
  generalize (map snd (filter (fun p : nat * nat => Nat.eqb (fst p) j) (subs (settle_one c s j o)))).
  intros l H.
  assert (G : exists z1, getj (settle_one c s j o) k = Some z1 /\ jholds z1 = jholds z).
  { revert H. generalize (settle_one c s j o). induction l as [|a l IH]; intros s0 H; simpl in H; [eauto|].
    destruct (IH _ H) as (z1 & H1 & E1). destruct (notify_holds _ _ _ _ _ H1) as (z2 & H2 & E2).
    exists z2. split; auto. congruence. }
  destruct G as (z1 & H1 & E1). destruct (settle_one_core _ _ _ _ _ H1) as (z2 & H2 & (_ & E2 & _)).
  exists z2. split; auto. congruence.
Qed.
End L.
