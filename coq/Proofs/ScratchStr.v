(** C32 — string-level facts: job names, the hash regex, splitlines/join, scratch paths. *)
From Coq Require Import List Arith NArith Ascii String Bool Lia.
From RV Require Import Base.Decimal Base.Lit Model.Scratch.
Import ListNotations.
Open Scope list_scope.

Lemma str_eqb_spec a b : str_eqb a b = true <-> a = b.
Proof.
  unfold str_eqb. revert b. induction a as [|x a IH]; intros [|y b]; simpl; split; try easy.
  - rewrite andb_true_iff, Ascii.eqb_eq, IH. intros [-> ->]; reflexivity.
  - intros [= -> ->]. rewrite andb_true_iff, Ascii.eqb_eq, IH. auto.
Qed.
Lemma str_eqb_refl a : str_eqb a a = true.
Proof. apply str_eqb_spec; reflexivity. Qed.
Lemma str_eqb_neq a b : a <> b -> str_eqb a b = false.
Proof. intros H. destruct (str_eqb a b) eqn:E; [apply str_eqb_spec in E; contradiction|reflexivity]. Qed.
Lemma str_eqb_false a b : str_eqb a b = false -> a <> b.
Proof. intros H ->. rewrite str_eqb_refl in H. discriminate. Qed.

Definition NoDash (x : str) := Forall (fun c => is_dash c = false) x.
Definition NoSlash (x : str) := Forall (fun c => is_slash c = false) x.
Definition NoNl (x : str) := Forall (fun c => is_nl c = false) x.
Definition NoBreak (x : str) := Forall (fun c => is_linebreak c = false) x.

(** ** Hex strings *)
Lemma is_hex_facts c : is_hex c = true ->
  is_dash c = false /\ is_slash c = false /\ is_nl c = false /\ is_linebreak c = false.
Proof.
  destruct c as [[] [] [] [] [] [] [] []]; vm_compute; intros H; try discriminate H; repeat split.
Qed.

Lemma hexstr_facts h : hexstr h = true -> h <> [] /\ NoDash h /\ NoSlash h /\ NoNl h /\ NoBreak h.
Proof.
  unfold hexstr. destruct h as [|c h]; [discriminate|]. intros H. split; [discriminate|].
  rewrite forallb_forall in H.
  repeat split; apply Forall_forall; intros x Hx; apply H in Hx; apply is_hex_facts in Hx; tauto.
Qed.

(** ** starts_with / ends_with / strip_suffix *)
Lemma starts_with_app p x : starts_with (p ++ x) p = true.
Proof. induction p; simpl; [reflexivity|]. rewrite Ascii.eqb_refl. exact IHp. Qed.

Lemma ends_with_app x suf : ends_with (x ++ suf) suf = true.
Proof. unfold ends_with. rewrite rev_app_distr. apply starts_with_app. Qed.

Lemma strip_suffix_app x suf : strip_suffix (x ++ suf) suf = x.
Proof.
  unfold strip_suffix. rewrite ends_with_app, app_length, Nat.add_sub.
  rewrite firstn_app, firstn_all, Nat.sub_diag. simpl. apply app_nil_r.
Qed.

Lemma starts_with_sep (d : ascii) a : forall x b,
  Forall (fun c => Ascii.eqb c d = false) a -> Forall (fun c => Ascii.eqb c d = false) x ->
  starts_with (a ++ d :: b) (x ++ [d]) = true -> a = x.
Proof.
  induction a as [|c a IH]; intros [|y x] b Ha Hx H; simpl in H.
  - reflexivity.
  - apply andb_true_iff in H. destruct H as [H _]. inversion Hx; subst.
    apply Ascii.eqb_eq in H. subst y. rewrite Ascii.eqb_refl in H2. discriminate.
  - apply andb_true_iff in H. destruct H as [H _]. inversion Ha; subst. congruence.
  - apply andb_true_iff in H. destruct H as [H1 H2]. apply Ascii.eqb_eq in H1. subst y.
    inversion Ha; inversion Hx; subst. f_equal. eapply IH; eauto.
Qed.

Lemma ends_with_dash_suffix p h suf :
  NoDash h -> NoDash suf -> ends_with (p ++ ch_dash :: h) (ch_dash :: suf) = true -> h = suf.
Proof.
  unfold ends_with. intros Hh Hs H.
  rewrite rev_app_distr in H. simpl in H. rewrite <- app_assoc in H. simpl in H.
  apply starts_with_sep in H; try (apply Forall_rev; assumption).
  rewrite <- (rev_involutive h), <- (rev_involutive suf). f_equal. exact H.
Qed.

(** ** The hash regex *)
Lemma take_nodash_id h : NoDash h -> take_nodash h = h.
Proof. induction 1; simpl; [reflexivity|]. rewrite H. f_equal. assumption. Qed.

Lemma re_hash_go_nodash h acc : NoDash h -> re_hash_go h acc = acc.
Proof.
  induction 1; simpl; [reflexivity|]. destruct (is_nl x); [reflexivity|]. rewrite H. assumption.
Qed.

Lemma re_hash_go_cons c t acc : is_nl c = false -> t <> [] ->
  exists acc', re_hash_go (c :: t) acc = re_hash_go t acc'.
Proof.
  intros Hc Ht. destruct t as [|d r]; [contradiction|].
  cbn [re_hash_go]. rewrite Hc. destruct (is_dash c).
  - destruct (is_dash d); eexists; reflexivity.
  - eexists; reflexivity.
Qed.

Lemma re_hash_go_name p h : NoNl p -> h <> [] -> NoDash h ->
  forall acc, re_hash_go (p ++ ch_dash :: h) acc = Some h.
Proof.
  intros Hp Hne Hh. induction Hp as [|c p Hc Hp IH]; intros acc.
  - destruct h as [|d h']; [contradiction|]. inversion Hh; subst.
    cbn [app re_hash_go]. change (is_nl ch_dash) with false. change (is_dash ch_dash) with true.
    cbv iota. rewrite H1. rewrite re_hash_go_nodash by assumption.
    rewrite take_nodash_id by assumption. destruct (is_nl d); reflexivity.
  - rewrite <- app_comm_cons.
    destruct (re_hash_go_cons c (p ++ ch_dash :: h) acc Hc) as [acc' E].
    { destruct p; discriminate. }
    rewrite E. apply IH.
Qed.

Theorem jobname_roundtrip c p h a :
  NoNl p -> h <> [] -> NoDash h -> NoDash (arr_suffix c) -> h <> arr_suffix c ->
  hash_of_job_name c (batch_job_name c p h a) = Some h.
Proof.
  intros Hp Hne Hh Hs Hd. unfold hash_of_job_name, batch_job_name. destruct a.
  - replace (p ++ ch_dash :: h ++ ch_dash :: arr_suffix c)
      with ((p ++ ch_dash :: h) ++ ch_dash :: arr_suffix c) by (rewrite <- app_assoc; reflexivity).
    rewrite strip_suffix_app. apply re_hash_go_name; assumption.
  - rewrite app_nil_r. unfold strip_suffix.
    destruct (ends_with (p ++ ch_dash :: h) (ch_dash :: arr_suffix c)) eqn:E.
    + apply ends_with_dash_suffix in E; try assumption. contradiction.
    + apply re_hash_go_name; assumption.
Qed.

Theorem is_array_name_roundtrip c p h a :
  NoDash h -> NoDash (arr_suffix c) -> h <> arr_suffix c ->
  is_array_job_name c (batch_job_name c p h a) = a.
Proof.
  intros Hh Hs Hd. unfold is_array_job_name, batch_job_name. destruct a.
  - replace (p ++ ch_dash :: h ++ ch_dash :: arr_suffix c)
      with ((p ++ ch_dash :: h) ++ ch_dash :: arr_suffix c) by (rewrite <- app_assoc; reflexivity).
    apply ends_with_app.
  - rewrite app_nil_r. destruct (ends_with _ _) eqn:E; [|reflexivity].
    apply ends_with_dash_suffix in E; try assumption. contradiction.
Qed.

(** ** splitlines / join *)
Lemma linebreak_cr c : is_linebreak c = false -> N.eqb (N_of_ascii c) 13 = false.
Proof. unfold is_linebreak. cbv zeta. intros H. repeat (apply orb_false_iff in H; destruct H as [H ?]). assumption. Qed.

Lemma splitlines_go_app h : NoBreak h -> forall cur x,
  splitlines_go cur (h ++ x) = splitlines_go (rev h ++ cur) x.
Proof.
  induction 1 as [|c h Hc Hh IH]; intros cur x; [reflexivity|].
  cbn [app splitlines_go]. rewrite (linebreak_cr c Hc), Hc, IH. simpl. rewrite <- app_assoc. reflexivity.
Qed.

Theorem splitlines_join hs : Forall (fun h => h <> [] /\ NoBreak h) hs -> splitlines (join_nl hs) = hs.
Proof.
  unfold splitlines. induction 1 as [|h t [Hne Hb] Ht IH]; [reflexivity|].
  destruct t as [|h2 t'].
  - simpl. rewrite <- (app_nil_r h) at 1. rewrite splitlines_go_app by assumption. rewrite app_nil_r.
    cbn [splitlines_go]. destruct (rev h) eqn:E.
    + exfalso. apply Hne. rewrite <- (rev_involutive h), E. reflexivity.
    + rewrite <- E, rev_involutive. reflexivity.
  - change (join_nl (h :: h2 :: t')) with (h ++ ch_nl :: join_nl (h2 :: t')).
    rewrite splitlines_go_app by assumption. rewrite app_nil_r.
    cbn [splitlines_go]. change (N.eqb (N_of_ascii ch_nl) 13) with false. change (is_linebreak ch_nl) with true.
    cbv iota. rewrite rev_involutive, IH. reflexivity.
Qed.

(** ** Paths *)
Definition pbase (p : str) : str :=
  match p with [] => [] | _ => if is_slash (last p ch_dash) then p else p ++ [ch_slash] end.

Definition Name (x : str) := x <> [] /\ NoSlash x.

Lemma pjoin_name p d : Name d -> pjoin p d = pbase p ++ d.
Proof.
  intros [Hne Hs]. destruct d as [|c d]; [contradiction|]. inversion Hs; subst.
  unfold pjoin, pbase. rewrite H1. destruct p; [reflexivity|].
  destruct (is_slash (last (a :: p) ch_dash)); [reflexivity|]. rewrite <- app_assoc. reflexivity.
Qed.

Lemma last_app_cons (a : str) c b d : last (a ++ c :: b) d = last (c :: b) d.
Proof. induction a as [|x a IH]; [reflexivity|]. simpl app. rewrite <- IH. simpl. destruct (a ++ c :: b) eqn:E; [destruct a; discriminate|reflexivity]. Qed.

Lemma last_noslash b d : b <> [] -> NoSlash b -> is_slash (last b d) = false.
Proof.
  intros Hne H. induction H as [|c b Hc Hb IH]; [contradiction|].
  destruct b as [|c' b']; [exact Hc|]. change (last (c :: c' :: b') d) with (last (c' :: b') d). apply IH. discriminate.
Qed.

Lemma pbase_after x d : Name d -> pbase (x ++ d) = x ++ d ++ [ch_slash].
Proof.
  intros [Hne Hs]. unfold pbase. destruct d as [|c d]; [contradiction|].
  destruct (x ++ c :: d) eqn:E; [destruct x; discriminate|]. rewrite <- E.
  rewrite last_app_cons. rewrite last_noslash by (assumption || discriminate). rewrite <- app_assoc. reflexivity.
Qed.

Lemma path3 p d h f : Name d -> Name h -> Name f ->
  pjoin (pjoin (pjoin p d) h) f = pbase p ++ d ++ ch_slash :: h ++ ch_slash :: f.
Proof.
  intros Hd Hh Hf. rewrite (pjoin_name p d Hd). rewrite (pjoin_name _ h Hh). rewrite (pbase_after _ d Hd).
  rewrite (pjoin_name _ f Hf).
  replace ((pbase p ++ d ++ [ch_slash]) ++ h) with ((pbase p ++ d ++ [ch_slash]) ++ h) by reflexivity.
  rewrite (pbase_after _ h Hh). repeat rewrite <- app_assoc. simpl. reflexivity.
Qed.

Lemma app_sep_inj (d : ascii) a : forall a' b b',
  Forall (fun c => Ascii.eqb c d = false) a -> Forall (fun c => Ascii.eqb c d = false) a' ->
  a ++ d :: b = a' ++ d :: b' -> a = a' /\ b = b'.
Proof.
  induction a as [|c a IH]; intros [|c' a'] b b' Ha Ha' H; simpl in H.
  - inversion H; auto.
  - inversion H; subst. inversion Ha'; subst. rewrite Ascii.eqb_refl in H2. discriminate.
  - inversion H; subst. inversion Ha; subst. rewrite Ascii.eqb_refl in H2. discriminate.
  - inversion H; subst. inversion Ha; inversion Ha'; subst.
    destruct (IH a' b b' ltac:(assumption) ltac:(assumption) H2) as [-> ->]. auto.
Qed.

Lemma split_last x y f f' : NoSlash f -> NoSlash f' ->
  x ++ ch_slash :: f = y ++ ch_slash :: f' -> x = y /\ f = f'.
Proof.
  intros Hf Hf' H. apply (f_equal (@rev ascii)) in H.
  rewrite !rev_app_distr in H. simpl in H. rewrite <- !app_assoc in H. simpl in H.
  apply app_sep_inj in H; try (apply Forall_rev; assumption).
  destruct H as [H1 H2]. split.
  - rewrite <- (rev_involutive x), <- (rev_involutive y). f_equal. exact H2.
  - rewrite <- (rev_involutive f), <- (rev_involutive f'). f_equal. exact H1.
Qed.

(** path = base ++ dir ++ "/" ++ id ++ "/" ++ file is injective in (dir, id, file) *)
Lemma path3_inj b d d' h h' f f' :
  NoSlash d -> NoSlash d' -> NoSlash h -> NoSlash h' -> NoSlash f -> NoSlash f' ->
  b ++ d ++ ch_slash :: h ++ ch_slash :: f = b ++ d' ++ ch_slash :: h' ++ ch_slash :: f' ->
  d = d' /\ h = h' /\ f = f'.
Proof.
  intros Hd Hd' Hh Hh' Hf Hf' H. apply app_inv_head in H.
  replace (d ++ ch_slash :: h ++ ch_slash :: f) with ((d ++ ch_slash :: h) ++ ch_slash :: f) in H
    by (rewrite <- app_assoc; reflexivity).
  replace (d' ++ ch_slash :: h' ++ ch_slash :: f') with ((d' ++ ch_slash :: h') ++ ch_slash :: f') in H
    by (rewrite <- app_assoc; reflexivity).
  apply split_last in H; try assumption. destruct H as [H ->].
  apply split_last in H; try assumption. destruct H as [-> ->]. auto.
Qed.

(** ** Well-formed configuration *)
Record cfg_ok (c : cfg) : Prop := {
  ok_in : Name (f_input c); ok_out : Name (f_output c); ok_err : Name (f_error c); ok_hs : Name (f_hashes c);
  ok_dj : Name (d_jobs c); ok_da : Name (d_array c);
  ok_io : f_input c <> f_output c; ok_ie : f_input c <> f_error c; ok_oe : f_output c <> f_error c;
  ok_hi : f_hashes c <> f_input c; ok_ho : f_hashes c <> f_output c; ok_he : f_hashes c <> f_error c;
  ok_dd : d_jobs c <> d_array c;
  ok_oo : arr_out_elem c = f_output c; ok_ee : arr_err_elem c = f_error c;
  ok_sd : NoDash (arr_suffix c); ok_sh : hexstr (arr_suffix c) = false;
  ok_stage : stage_input c = Overwrite
}.

Lemma shipped_ok : cfg_ok shipped.
Proof.
  constructor; try (split; [discriminate|repeat constructor]); try discriminate; try reflexivity.
  repeat constructor.
Qed.

Section Paths.
  Variable c : cfg.
  Hypothesis OK : cfg_ok c.

  Lemma job_file_inj p h h' f f' : Name h -> Name h' -> Name f -> Name f' ->
    job_file c p h f = job_file c p h' f' -> h = h' /\ f = f'.
  Proof.
    intros Hh Hh' Hf Hf' H. unfold job_file in H. rewrite !path3 in H; try assumption; try apply OK.
    apply path3_inj in H; try tauto; try apply Hh; try apply Hh'; try apply Hf; try apply Hf'; apply OK.
  Qed.

  Lemma array_file_inj p h h' f f' : Name h -> Name h' -> Name f -> Name f' ->
    array_file c p h f = array_file c p h' f' -> h = h' /\ f = f'.
  Proof.
    intros Hh Hh' Hf Hf' H. unfold array_file in H. rewrite !path3 in H; try assumption; try apply OK.
    apply path3_inj in H; try tauto; try apply Hh; try apply Hh'; try apply Hf; try apply Hf'; apply OK.
  Qed.

  Lemma job_array_file_neq p h a f g : Name h -> Name a -> Name f -> Name g ->
    job_file c p h f <> array_file c p a g.
  Proof.
    intros Hh Ha Hf Hg H. unfold job_file, array_file in H.
    rewrite !path3 in H; try assumption; try exact (ok_dj c OK); try exact (ok_da c OK).
    apply path3_inj in H; try exact (proj2 Hh); try exact (proj2 Ha); try exact (proj2 Hf); try exact (proj2 Hg);
      try exact (proj2 (ok_dj c OK)); try exact (proj2 (ok_da c OK)).
    destruct H as [H _]. apply (ok_dd c OK). exact H.
  Qed.
End Paths.

Lemma hex_name h : hexstr h = true -> Name h.
Proof. intros H. apply hexstr_facts in H. split; tauto. Qed.

(** ** Array index parsing on the decimal strings a batch system provides (swept up to
    MAX_ARRAY_SIZE = 10000, redun/job_array.py) *)
Definition idx_eqb (a b : idx_res) : bool :=
  match a, b with IdxOk x, IdxOk y => N.eqb x y | _, _ => false end.

Lemma parse_index_decimal_10000 :
  forall n, (n < 10000)%nat -> parse_index (dec_of_nat n) = IdxOk (N.of_nat n).
Proof.
  assert (H : forallb (fun n => idx_eqb (parse_index (dec_of_nat n)) (IdxOk (N.of_nat n))) (seq 0 10000) = true)
    by (vm_compute; reflexivity).
  rewrite forallb_forall in H. intros n Hn. specialize (H n). rewrite in_seq in H.
  assert (E : idx_eqb (parse_index (dec_of_nat n)) (IdxOk (N.of_nat n)) = true) by (apply H; lia).
  destruct (parse_index (dec_of_nat n)); simpl in E; try discriminate.
  apply N.eqb_eq in E. subst. reflexivity.
Qed.
