(** The documented option precedence, stated per option name, and the proof that the model of
    Job / _evaluate_apply computes it (C27). *)
From Coq Require Import List ZArith NArith Bool Lia.
From RV Require Import Model.Options Proofs.OptionsBase.
Import ListNotations.
Open Scope list_scope.

(** ** the documented meaning: per option name, the first source that defines it *)
Record sstate := { ss_opt : key -> option atom; ss_exp : key -> bool }.

Definition truthy_default (o : option atom) : bool := match o with Some a => truthy a | None => true end.

(** settings the scheduler imposes that do not depend on the job's own options *)
Definition spec_imposed (nocache : bool) (parent : option sstate) (k : key) : option atom :=
  (if N.eqb k k_prov && match parent with Some p => negb (truthy_default (ss_opt p k_prov)) | None => false end
   then Some (ABool false) else None)
  <|> (if N.eqb k k_cache_scope && nocache then Some (AScope SCse) else None).

(** exported by the parent: the value the parent runs with, for the names the parent exports *)
Definition spec_inherited (parent : option sstate) (k : key) : option atom :=
  match parent with Some p => if ss_exp p k then ss_opt p k else None | None => None end.

Section Spec.
  Variable ev : N -> atom.

  (** scheduler-imposed, else call-time, else exported by the parent, else definition *)
  Definition spec_pre (nocache : bool) (parent : option sstate) (def call : dict oval) (k : key) : option atom :=
    spec_imposed nocache parent k
    <|> option_map (evv ev) (lookup k call)
    <|> spec_inherited parent k
    <|> option_map (evv ev) (lookup k def).

  (** [decl]: the names this call exports (task definition and call site) *)
  Definition spec_job (nocache : bool) (parent : option sstate) (def call : dict oval) (decl : list key) : sstate :=
    {| ss_opt := fun k =>
         if N.eqb k k_cache_scope && negb (truthy_default (spec_pre nocache parent def call k_prov))
         then Some (AScope SNone)            (* imposed: a job that does not record provenance uses no cache *)
         else spec_pre nocache parent def call k;
       ss_exp := fun k => mem k decl || match parent with Some p => ss_exp p k | None => false end |}.

  Definition agrees (st : jstate) (ss : sstate) : Prop :=
    (forall k, lookup k (js_opts st) = ss_opt ss k) /\ (forall k, mem k (js_export st) = ss_exp ss k).

  Definition agrees_opt (p : option jstate) (ps : option sstate) : Prop :=
    match p, ps with
    | Some a, Some b => agrees a b
    | None, None => True
    | _, _ => False
    end.

  Lemma recording_spec : forall o f, (forall k, lookup k o = f k) -> recording o = truthy_default (f k_prov).
  Proof. intros o f H. unfold recording, truthy_default. rewrite H. reflexivity. Qed.

  Lemma lookup_imposed : forall nocache parent ps k, agrees_opt parent ps ->
    option_map (evv ev) (lookup k (imposed nocache parent)) = spec_imposed nocache ps k.
  Proof.
    intros nocache parent ps k A. unfold imposed, spec_imposed. rewrite lookup_app.
    destruct parent as [p|], ps as [s|]; simpl in A; try contradiction.
    - destruct A as [A _]. rewrite (recording_spec (js_opts p) (ss_opt s) A).
      destruct (truthy_default (ss_opt s k_prov)); simpl.
      + rewrite andb_false_r. simpl. destruct nocache; simpl.
        * destruct (N.eqb k k_cache_scope); reflexivity.
        * rewrite andb_false_r. reflexivity.
      + rewrite andb_true_r. destruct (N.eqb k k_prov) eqn:K; simpl; [reflexivity|].
        destruct nocache; simpl.
        * destruct (N.eqb k k_cache_scope); reflexivity.
        * rewrite andb_false_r. reflexivity.
    - simpl. rewrite andb_false_r. simpl. destruct nocache; simpl.
      + destruct (N.eqb k k_cache_scope); reflexivity.
      + rewrite andb_false_r. reflexivity.
  Qed.

  Lemma lookup_inherited : forall parent ps k, agrees_opt parent ps ->
    lookup k (inherited parent) = spec_inherited ps k.
  Proof.
    intros parent ps k A. unfold inherited, spec_inherited.
    destruct parent as [p|], ps as [s|]; simpl in A; try contradiction; [|reflexivity].
    destruct A as [A1 A2]. rewrite lookup_restrict, A2, A1. reflexivity.
  Qed.

  Lemma option_map_orelse : forall A B (f : A -> B) (a b : option A),
    option_map f (a <|> b) = option_map f a <|> option_map f b.
  Proof. intros A B f [x|] b; reflexivity. Qed.

  Lemma raw_lookup : forall c def inh call imp k, merge_order c = std_order ->
    lookup k (raw_options c def inh call imp) = lookup k imp <|> lookup k call <|> lookup k inh <|> lookup k def.
  Proof.
    intros c def inh call imp k H. unfold raw_options. rewrite H. simpl.
    rewrite !lookup_update. simpl. destruct (lookup k imp), (lookup k call), (lookup k inh), (lookup k def); reflexivity.
  Qed.

  (** one job: what [mk_job] computes is the documented precedence *)
  Lemma mk_job_spec : forall c nocache parent ps n st es,
    merge_order c = std_order -> agrees_opt parent ps ->
    mk_job ev c nocache parent n = Ok (st, es) ->
    exists base call cex,
      td_base (nd_def n) = Ok base /\
      chain_run c base ([], td_exports c (nd_def n) base) (nd_chain n) = Ok (call, cex) /\
      agrees st (spec_job nocache ps base call (td_exports c (nd_def n) base ++ cex)).
  Proof.
    intros c nocache parent ps n st es Hc A H. unfold mk_job in H.
    destruct (td_base (nd_def n)) as [base|] eqn:B; simpl in H; [|discriminate].
    destruct (chain_run c base ([], td_exports c (nd_def n) base) (nd_chain n)) as [[call cex]|] eqn:C; simpl in H;
      [|discriminate].
    exists base, call, cex. split; [reflexivity|]. split; [exact C|].
    inversion H; subst; clear H.
    set (raw := raw_options c base (map_vals OLit (inherited parent)) call (imposed nocache parent)).
    assert (P : forall k, lookup k (map_vals (evv ev) raw) = spec_pre nocache ps base call k).
    { intros k. rewrite lookup_map_vals. unfold raw. rewrite (raw_lookup c _ _ _ _ k Hc).
      rewrite !option_map_orelse. rewrite (lookup_imposed nocache parent ps k A).
      rewrite lookup_map_vals. rewrite (lookup_inherited parent ps k A). unfold spec_pre.
      destruct (spec_inherited ps k); reflexivity. }
    split.
    - intros k. simpl. rewrite (recording_spec _ _ P).
      destruct (truthy_default (spec_pre nocache ps base call k_prov)); simpl.
      + rewrite andb_false_r. apply P.
      + rewrite andb_true_r. destruct (N.eqb k k_cache_scope); [reflexivity|apply P].
    - intros k. simpl. rewrite !mem_app. rewrite <- orb_assoc. f_equal. f_equal.
      destruct parent as [p|], ps as [s|]; simpl in A; try contradiction; [apply A|reflexivity].
  Qed.

  (** ** whole trees *)
  Fixpoint spec_walk (c : opt_cfg) (nocache : bool) (parent : option sstate) (t : jtree) (p : list nat)
    : option sstate :=
    match t with
    | JNode _ n kids =>
        match td_base (nd_def n) with
        | Ok base =>
            match chain_run c base ([], td_exports c (nd_def n) base) (nd_chain n) with
            | Ok (call, cex) =>
                let ss := spec_job nocache parent base call (td_exports c (nd_def n) base ++ cex) in
                match p with
                | [] => Some ss
                | i :: p' =>
                    match nth_error kids i with
                    | Some k => spec_walk c nocache (Some ss) k p'
                    | None => None
                    end
                end
            | Err _ => None
            end
        | Err _ => None
        end
    end.

  Lemma walk_spec : forall c nocache p t parent ps uid st es par,
    merge_order c = std_order -> agrees_opt parent ps ->
    walk ev c nocache parent t p = Ok (uid, st, es, par) ->
    exists ss, spec_walk c nocache ps t p = Some ss /\ agrees st ss.
  Proof.
    induction p as [|i p IH]; intros [u n kids] parent ps uid st es par Hc A H; simpl in H.
    - destruct (mk_job ev c nocache parent n) as [[st' es']|] eqn:M; simpl in H; [|discriminate].
      inversion H; subst; clear H.
      destruct (mk_job_spec c nocache _ ps n st es Hc A M) as [base [call [cex [B [C G]]]]].
      simpl. rewrite B, C. eexists. split; [reflexivity|exact G].
    - destruct (mk_job ev c nocache parent n) as [[st' es']|] eqn:M; simpl in H; [|discriminate].
      destruct (mk_job_spec c nocache parent ps n st' es' Hc A M) as [base [call [cex [B [C G]]]]].
      simpl. rewrite B, C.
      destruct (nth_error kids i) as [k|]; [|discriminate].
      apply (IH k (Some st') _ uid st es par Hc); [exact G|exact H].
  Qed.

  (** ** exported names accumulate: closed form along the path *)
  Definition node_decl (c : opt_cfg) (n : node) : list key :=
    match td_base (nd_def n) with
    | Ok base =>
        match chain_run c base ([], td_exports c (nd_def n) base) (nd_chain n) with
        | Ok (_, cex) => td_exports c (nd_def n) base ++ cex
        | Err _ => []
        end
    | Err _ => []
    end.

  (** the calls on the path from the root of [t] to the job at [p] (inclusive) *)
  Fixpoint nodes_on (t : jtree) (p : list nat) : list node :=
    match t with
    | JNode _ n kids =>
        n :: match p with
             | [] => []
             | i :: p' => match nth_error kids i with Some k => nodes_on k p' | None => [] end
             end
    end.

  Lemma mk_job_export : forall c nocache parent n st es, mk_job ev c nocache parent n = Ok (st, es) ->
    forall k, mem k (js_export st) = mem k (node_decl c n) || match parent with Some p => mem k (js_export p) | None => false end.
  Proof.
    intros c nocache parent n st es H k. unfold mk_job in H. unfold node_decl.
    destruct (td_base (nd_def n)) as [base|]; simpl in H; [|discriminate].
    destruct (chain_run c base ([], td_exports c (nd_def n) base) (nd_chain n)) as [[call cex]|]; simpl in H; [|discriminate].
    inversion H; subst; clear H. simpl. rewrite !mem_app. rewrite <- orb_assoc.
    destruct parent; reflexivity.
  Qed.

  Lemma walk_exports : forall c nocache p t parent uid st es par,
    walk ev c nocache parent t p = Ok (uid, st, es, par) ->
    forall k, mem k (js_export st) =
              existsb (fun n => mem k (node_decl c n)) (nodes_on t p)
              || match parent with Some q => mem k (js_export q) | None => false end.
  Proof.
    induction p as [|i p IH]; intros [u n kids] parent uid st es par H k; simpl in H.
    - destruct (mk_job ev c nocache parent n) as [[st' es']|] eqn:M; simpl in H; [|discriminate].
      inversion H; subst; clear H. simpl. rewrite orb_false_r. apply (mk_job_export _ _ _ _ _ _ M).
    - destruct (mk_job ev c nocache parent n) as [[st' es']|] eqn:M; simpl in H; [|discriminate].
      simpl. destruct (nth_error kids i) as [kid|]; [|discriminate].
      rewrite (IH kid (Some st') uid st es par H k). simpl.
      rewrite (mk_job_export _ _ _ _ _ _ M k).
      destruct (mem k (node_decl c n)), (existsb (fun n0 => mem k (node_decl c n0)) (nodes_on kid p)); simpl;
        try reflexivity; destruct parent; try reflexivity; rewrite ?orb_true_r; reflexivity.
  Qed.

  (** ** readable consequences of the precedence *)
  Lemma spec_imposed_wins : forall nocache parent def call decl k a,
    spec_imposed nocache parent k = Some a ->
    ss_opt (spec_job nocache parent def call decl) k =
      if N.eqb k k_cache_scope && negb (truthy_default (spec_pre nocache parent def call k_prov))
      then Some (AScope SNone) else Some a.
  Proof.
    intros. simpl. destruct (_ && _); [reflexivity|]. unfold spec_pre. rewrite H. reflexivity.
  Qed.

  Lemma spec_call_wins : forall nocache parent def call decl k v,
    spec_imposed nocache parent k = None -> lookup k call = Some v ->
    (N.eqb k k_cache_scope && negb (truthy_default (spec_pre nocache parent def call k_prov))) = false ->
    ss_opt (spec_job nocache parent def call decl) k = Some (evv ev v).
  Proof. intros. simpl. rewrite H1. unfold spec_pre. rewrite H, H0. reflexivity. Qed.

  Lemma spec_exported_wins : forall nocache p def call decl k a,
    spec_imposed nocache (Some p) k = None -> lookup k call = None ->
    ss_exp p k = true -> ss_opt p k = Some a ->
    (N.eqb k k_cache_scope && negb (truthy_default (spec_pre nocache (Some p) def call k_prov))) = false ->
    ss_opt (spec_job nocache (Some p) def call decl) k = Some a.
  Proof. intros. simpl ss_opt. rewrite H3. unfold spec_pre, spec_inherited. rewrite H, H0, H1, H2. reflexivity. Qed.

  Lemma spec_definition_last : forall nocache parent def call decl k,
    spec_imposed nocache parent k = None -> lookup k call = None -> spec_inherited parent k = None ->
    (N.eqb k k_cache_scope && negb (truthy_default (spec_pre nocache parent def call k_prov))) = false ->
    ss_opt (spec_job nocache parent def call decl) k = option_map (evv ev) (lookup k def).
  Proof. intros. simpl ss_opt. rewrite H2. unfold spec_pre. rewrite H, H0, H1. reflexivity. Qed.

  (** ** the root call: no crash when the call is wrapped, when the options are searched for
      expressions, or when there is no option expression *)
  Lemma mk_job_no_root_err : forall c nocache parent n, no_root_err (mk_job ev c nocache parent n).
  Proof.
    intros. unfold mk_job. apply no_root_err_bind; [apply norm_no_root_err|]. intros base.
    apply no_root_err_bind; [apply chain_run_no_root_err|]. intros [call cex]. discriminate.
  Qed.

  Lemma expr_jobs_no_root_err : forall c nocache parent es, no_root_err (expr_jobs ev c nocache parent es).
  Proof.
    induction es as [|e r IH]; cbn [expr_jobs]; [discriminate|].
    apply no_root_err_bind; [apply mk_job_no_root_err|]. intros je.
    apply no_root_err_bind; [exact IH|]. discriminate.
  Qed.

  Lemma walk_no_root_err : forall c nocache p t parent, no_root_err (walk ev c nocache parent t p).
  Proof.
    induction p as [|i p IH]; intros [u n kids] parent; simpl.
    - apply no_root_err_bind; [apply mk_job_no_root_err|]. discriminate.
    - apply no_root_err_bind; [apply mk_job_no_root_err|]. intros je.
      destruct (nth_error kids i); [apply IH|discriminate].
  Qed.

  Lemma collect_no_root_err : forall c nocache parent t ps, no_root_err (collect ev c nocache parent t ps).
  Proof.
    induction ps as [|p r IH]; simpl; [discriminate|].
    apply no_root_err_bind; [apply walk_no_root_err|]. intros [[[uid st] es] par].
    apply no_root_err_bind; [apply expr_jobs_no_root_err|]. intros ej.
    apply no_root_err_bind; [exact IH|]. discriminate.
  Qed.

  Lemma run_no_root_err : forall c nocache wrap t,
    merge_order c = std_order ->
    (wrap = true \/ root_checks_options c = true \/
     (forall base st, td_base (nd_def (root_node t)) = Ok base ->
        chain_run c base ([], td_exports c (nd_def (root_node t)) base) (nd_chain (root_node t)) = Ok st ->
        has_expr base = false /\ has_expr (fst st) = false)) ->
    no_root_err (run_execution ev c nocache wrap t).
  Proof.
    intros c nocache wrap t Hc H. unfold run_execution.
    apply no_root_err_bind_eq; [apply norm_no_root_err|]. intros base B.
    apply no_root_err_bind_eq; [apply chain_run_no_root_err|]. intros st C.
    destruct (wrap || root_checks_options c && (has_expr base || has_expr (fst st))) eqn:W.
    - apply no_root_err_bind; [apply mk_job_no_root_err|]. intros rt. apply collect_no_root_err.
    - assert (NE : has_expr base = false /\ has_expr (fst st) = false).
      { destruct H as [H|[H|H]].
        - subst. discriminate.
        - rewrite H in W. destruct wrap; [discriminate|]. simpl in W. apply orb_false_iff in W. exact W.
        - apply (H base st); assumption. }
      destruct NE as [NB NC].
      unfold mk_job. rewrite B. simpl. rewrite C. simpl.
      destruct st as [call cex]. simpl.
      rewrite visible_exprs_nil; [simpl; destruct (recording _); apply collect_no_root_err|].
      intros k e _. rewrite (raw_lookup c _ _ _ _ k Hc). simpl.
      rewrite has_expr_false in NB, NC. simpl in NC.
      unfold imposed. simpl. destruct nocache; simpl.
      + destruct (N.eqb k k_cache_scope); [discriminate|].
        destruct (lookup k call) eqn:L; simpl; [rewrite <- L; apply NC|apply NB].
      + destruct (lookup k call) eqn:L; simpl; [rewrite <- L; apply NC|apply NB].
  Qed.
End Spec.
