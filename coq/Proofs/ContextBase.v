(** C26 — basic facts: keys, lookup, well-formedness, depth, and the deep merge [dmerge]. *)
From Coq Require Import List ZArith Ascii Bool Lia PeanoNat.
From RV Require Import Base.Decimal Base.Lit Model.Context.
Import ListNotations.
Open Scope list_scope.

(** ** keys *)
Lemma keqb_eq : forall a b, keqb a b = true <-> a = b.
Proof.
  unfold keqb. induction a as [|x a IH]; destruct b as [|y b]; simpl; split; intros H;
    try reflexivity; try discriminate.
  - apply andb_true_iff in H. destruct H as [H1 H2]. apply Ascii.eqb_eq in H1. apply IH in H2. congruence.
  - injection H as -> ->. apply andb_true_iff. split; [apply Ascii.eqb_refl|apply IH; reflexivity].
Qed.

Lemma keqb_refl : forall a, keqb a a = true.
Proof. intros a. apply keqb_eq. reflexivity. Qed.

Lemma keqb_neq : forall a b, keqb a b = false <-> a <> b.
Proof.
  intros a b. split.
  - intros H E. apply keqb_eq in E. congruence.
  - intros H. destruct (keqb a b) eqn:E; [apply keqb_eq in E; contradiction|reflexivity].
Qed.

Lemma keqb_sym : forall a b, keqb a b = keqb b a.
Proof.
  intros a b. destruct (keqb a b) eqn:E.
  - apply keqb_eq in E. subst. symmetry. apply keqb_refl.
  - symmetry. apply keqb_neq. apply keqb_neq in E. congruence.
Qed.

Ltac keq k k' :=
  let E := fresh "E" in
  destruct (keqb k k') eqn:E; [apply keqb_eq in E; try subst|].

Lemma mem_key_In : forall k ks, mem_key k ks = true <-> In k ks.
Proof.
  induction ks as [|k' r IH]; simpl.
  - split; [discriminate|tauto].
  - rewrite orb_true_iff, IH, keqb_eq. split; intros [H|H]; auto.
Qed.

Lemma mem_key_false : forall k ks, mem_key k ks = false <-> ~ In k ks.
Proof.
  intros. rewrite <- mem_key_In. destruct (mem_key k ks); split; congruence.
Qed.

Lemma nodup_keys_NoDup : forall ks, nodup_keys ks = true <-> NoDup ks.
Proof.
  induction ks as [|k r IH]; simpl.
  - split; [constructor|reflexivity].
  - rewrite andb_true_iff, negb_true_iff, mem_key_false, IH. split.
    + intros [H1 H2]. constructor; assumption.
    + intros H. inversion H; subst. split; assumption.
Qed.

Lemma mem_key_app : forall k a b, mem_key k (a ++ b) = mem_key k a || mem_key k b.
Proof. induction a; simpl; intros; [reflexivity|rewrite IHa, orb_assoc; reflexivity]. Qed.

(** ** lookup *)
Section Lookup.
  Context {A : Type}.
  Implicit Types l : list (key * A).

  Lemma has_key_mem : forall k l, has_key k l = mem_key k (map fst l).
  Proof.
    unfold has_key. induction l as [|[k' v] r IH]; simpl; [reflexivity|].
    destruct (keqb k k'); simpl; [reflexivity|exact IH].
  Qed.

  Lemma lookup_None : forall k l, lookup k l = None <-> ~ In k (map fst l).
  Proof.
    intros. rewrite <- mem_key_false, <- has_key_mem. unfold has_key.
    destruct (lookup k l); split; congruence.
  Qed.

  Lemma lookup_In : forall k l v, lookup k l = Some v -> In (k, v) l.
  Proof.
    induction l as [|[k' x] r IH]; simpl; intros v H; [discriminate|].
    keq k k'.
    - injection H as ->. left. reflexivity.
    - right. apply IH. exact H.
  Qed.

  Lemma In_lookup : forall k v l, NoDup (map fst l) -> In (k, v) l -> lookup k l = Some v.
  Proof.
    induction l as [|[k' x] r IH]; simpl; intros ND H; [contradiction|].
    apply NoDup_cons_iff in ND. destruct ND as [Hn ND]. destruct H as [H|H].
    - injection H as -> ->. rewrite keqb_refl. reflexivity.
    - keq k k'.
      + exfalso. apply Hn. apply in_map_iff. exists (k', v). split; [reflexivity|assumption].
      + apply IH; assumption.
  Qed.

  Lemma lookup_app : forall k l1 l2,
    lookup k (l1 ++ l2) = match lookup k l1 with Some x => Some x | None => lookup k l2 end.
  Proof.
    induction l1 as [|[k' x] r IH]; simpl; intros; [reflexivity|].
    destruct (keqb k k'); [reflexivity|apply IH].
  Qed.

  (** an association list without duplicate keys is determined by its key order and lookups *)
  Lemma kvs_ext : forall l1 l2,
    map fst l1 = map fst l2 -> NoDup (map fst l1) ->
    (forall k, lookup k l1 = lookup k l2) -> l1 = l2.
  Proof.
    induction l1 as [|[k x] r IH]; destruct l2 as [|[k' y] r']; simpl; intros HK ND HL;
      try discriminate; [reflexivity|].
    injection HK as <- HK. apply NoDup_cons_iff in ND. destruct ND as [Hn ND].
    pose proof (HL k) as Hk. rewrite keqb_refl in Hk. injection Hk as <-.
    f_equal. apply IH; try assumption.
    intros k0. specialize (HL k0). keq k0 k.
    - assert (E1 : lookup k r = None) by (apply lookup_None; assumption).
      assert (E2 : lookup k r' = None) by (apply lookup_None; rewrite <- HK; assumption).
      congruence.
    - exact HL.
  Qed.
End Lookup.

Lemma lookup_map : forall {A B} (f : A -> B) k (l : list (key * A)),
  lookup k (map (fun g => (fst g, f (snd g))) l) = option_map f (lookup k l).
Proof.
  induction l as [|[k' x] r IH]; simpl; [reflexivity|].
  destruct (keqb k k'); [reflexivity|exact IH].
Qed.

Lemma lookup_filter_not_mem : forall {A} k (ks : list key) (l : list (key * A)),
  lookup k (filter (fun kv => negb (mem_key (fst kv) ks)) l) =
  if mem_key k ks then None else lookup k l.
Proof.
  induction l as [|[k' x] r IH]; simpl.
  - destruct (mem_key k ks); reflexivity.
  - destruct (mem_key k' ks) eqn:M; simpl.
    + rewrite IH. keq k k'; [rewrite M|]; reflexivity.
    + keq k k'; [rewrite M; reflexivity|exact IH].
Qed.

(** ** NoDup of  a ++ (b without a) *)
Lemma NoDup_app_filter : forall (a b : list key),
  NoDup a -> NoDup b -> NoDup (a ++ filter (fun k => negb (mem_key k a)) b).
Proof.
  intros a b Ha Hb. induction Ha as [|x a Hx Ha IH] in b, Hb |- *; simpl.
  - apply NoDup_filter. assumption.
  - constructor.
    + rewrite in_app_iff. intros [H|H]; [contradiction|].
      apply filter_In in H. destruct H as [_ H]. rewrite keqb_refl in H. discriminate.
    + assert (E : filter (fun k => negb (keqb k x || mem_key k a)) b =
                  filter (fun k => negb (mem_key k a)) (filter (fun k => negb (keqb k x)) b)).
      { clear. induction b as [|y b IH]; simpl; [reflexivity|].
        destruct (keqb y x); simpl; [exact IH|].
        destruct (mem_key y a); simpl; [exact IH|f_equal; exact IH]. }
      rewrite E. apply IH. apply NoDup_filter. assumption.
Qed.

(** ** well-formedness and depth *)
Definition wf (v : value) : Prop := wfb v = true.

Lemma wfb_dict : forall kvs,
  wfb (VDict kvs) = true <-> NoDup (map fst kvs) /\ Forall (fun kv => wf (snd kv)) kvs.
Proof.
  intros kvs. simpl. rewrite andb_true_iff, nodup_keys_NoDup.
  assert (H : (fix go (l : list (key * value)) : bool :=
                 match l with [] => true | (_, x) :: r => wfb x && go r end) kvs = true
              <-> Forall (fun kv => wf (snd kv)) kvs).
  { induction kvs as [|[k x] r IH]; simpl.
    - split; [constructor|reflexivity].
    - rewrite andb_true_iff, IH. split.
      + intros [H1 H2]. constructor; assumption.
      + intros H. inversion H; subst. split; assumption. }
  rewrite H. reflexivity.
Qed.

Lemma wf_atom : forall a, wf (VAtom a).
Proof. reflexivity. Qed.

Lemma wf_empty : wf empty_dict.
Proof. reflexivity. Qed.

Lemma wf_lookup : forall kvs k v, wf (VDict kvs) -> lookup k kvs = Some v -> wf v.
Proof.
  intros kvs k v H L. apply wfb_dict in H. destruct H as [_ H].
  apply lookup_In in L. rewrite Forall_forall in H. exact (H _ L).
Qed.

Lemma depth_dict : forall kvs,
  depth (VDict kvs) = S (fold_right (fun kv m => Nat.max (depth (snd kv)) m) 0 kvs).
Proof.
  intros. simpl. f_equal. induction kvs as [|[k x] r IH]; simpl; [reflexivity|rewrite IH; reflexivity].
Qed.

Lemma depth_in : forall kvs k v, In (k, v) kvs -> S (depth v) <= depth (VDict kvs).
Proof.
  intros kvs k v H. rewrite depth_dict. apply le_n_S.
  induction kvs as [|[k' x] r IH]; simpl in *; [contradiction|].
  destruct H as [H|H]; [injection H as -> ->; lia|specialize (IH H); lia].
Qed.

Lemma depth_list_in : forall ds d, In d ds -> depth d <= depth_list ds.
Proof.
  induction ds as [|x r IH]; simpl; intros d H; [contradiction|].
  destruct H as [->|H]; [lia|specialize (IH _ H); lia].
Qed.

Lemma depth_list_app : forall a b, depth_list (a ++ b) = Nat.max (depth_list a) (depth_list b).
Proof. induction a; simpl; intros; [reflexivity|rewrite IHa; lia]. Qed.

(** induction on values with the hypothesis for every entry of a mapping *)
Section value_ind.
  Variable P : value -> Prop.
  Hypothesis Hatom : forall a, P (VAtom a).
  Hypothesis Hdict : forall kvs, Forall (fun kv => P (snd kv)) kvs -> P (VDict kvs).
  Fixpoint value_ind' (v : value) : P v :=
    match v with
    | VAtom a => Hatom a
    | VDict kvs =>
        Hdict kvs ((fix go (l : list (key * value)) : Forall (fun kv => P (snd kv)) l :=
                      match l with
                      | [] => Forall_nil _
                      | kv :: r => Forall_cons kv (value_ind' (snd kv)) (go r)
                      end) kvs)
    end.
End value_ind.

(** ** the deep merge *)
Definition dm_entry (lb : list (key * value)) (kv : key * value) : key * value :=
  (fst kv, match lookup (fst kv) lb with Some y => dmerge (snd kv) y | None => snd kv end).

Lemma dmerge_dict : forall la lb,
  dmerge (VDict la) (VDict lb) =
  VDict (map (dm_entry lb) la ++ filter (fun kv => negb (mem_key (fst kv) (map fst la))) lb).
Proof.
  intros. simpl. f_equal. f_equal.
  - induction la as [|[k x] r IH]; simpl; [reflexivity|]. f_equal. exact IH.
  - apply filter_ext. intros kv. rewrite has_key_mem. reflexivity.
Qed.

Lemma dmerge_atom_r : forall a x, dmerge a (VAtom x) = VAtom x.
Proof. destruct a; reflexivity. Qed.

Lemma dmerge_atom_l : forall x b, dmerge (VAtom x) b = b.
Proof. reflexivity. Qed.

Lemma dmerge_nondict_r : forall a b, is_dict b = false -> dmerge a b = b.
Proof. intros a [x|l] H; [apply dmerge_atom_r|discriminate]. Qed.

Lemma dmerge_nondict_l : forall a b, is_dict a = false -> dmerge a b = b.
Proof. intros [x|l] b H; [reflexivity|discriminate]. Qed.

Lemma filter_true : forall {A} (l : list A), filter (fun _ => true) l = l.
Proof. induction l; simpl; congruence. Qed.

Lemma dmerge_empty_l : forall b, dmerge empty_dict b = b.
Proof.
  intros [x|lb]; [reflexivity|]. unfold empty_dict. rewrite dmerge_dict. simpl.
  rewrite filter_true. reflexivity.
Qed.

Lemma dmerge_empty_r : forall a, is_dict a = true -> dmerge a empty_dict = a.
Proof.
  intros [x|la] H; [discriminate|]. unfold empty_dict. rewrite dmerge_dict. simpl.
  rewrite app_nil_r. f_equal. clear H. induction la as [|[k x] r IH]; simpl; [reflexivity|].
  f_equal. exact IH.
Qed.

Lemma dmerge_is_dict : forall a b, is_dict b = true -> is_dict a = true -> is_dict (dmerge a b) = true.
Proof. intros [x|la] [y|lb] H1 H2; try discriminate. reflexivity. Qed.

Lemma map_fst_dm : forall lb la, map fst (map (dm_entry lb) la) = map fst la.
Proof. intros. rewrite map_map. reflexivity. Qed.

(** keys of  a (+) b : those of [a], then the new ones of [b] *)
Lemma dmerge_keys : forall la lb,
  map fst (map (dm_entry lb) la ++ filter (fun kv => negb (mem_key (fst kv) (map fst la))) lb) =
  map fst la ++ filter (fun k => negb (mem_key k (map fst la))) (map fst lb).
Proof.
  intros. rewrite map_app, map_fst_dm. f_equal.
  induction lb as [|[k y] r IH]; simpl; [reflexivity|].
  destruct (mem_key k (map fst la)); simpl; [exact IH|f_equal; exact IH].
Qed.

(** the documented meaning, key by key: present in both -> merged (recursively) / later wins;
    present in one -> that value *)
Lemma dmerge_lookup : forall la lb k,
  lookup k (map (dm_entry lb) la ++ filter (fun kv => negb (mem_key (fst kv) (map fst la))) lb) =
  match lookup k la, lookup k lb with
  | Some x, Some y => Some (dmerge x y)
  | Some x, None => Some x
  | None, r => r
  end.
Proof.
  intros. rewrite lookup_app.
  assert (H1 : lookup k (map (dm_entry lb) la) =
               option_map (fun x => match lookup k lb with Some y => dmerge x y | None => x end)
                          (lookup k la)).
  { induction la as [|[k' x] r IH]; simpl; [reflexivity|].
    keq k k'; [reflexivity|exact IH]. }
  rewrite H1, lookup_filter_not_mem, <- has_key_mem. unfold has_key.
  destruct (lookup k la); simpl; [destruct (lookup k lb); reflexivity|reflexivity].
Qed.

Lemma dmerge_wf : forall a b, wf a -> wf b -> wf (dmerge a b).
Proof.
  induction a as [x|la IH] using value_ind'; intros b Ha Hb; [exact Hb|].
  destruct b as [y|lb]; [exact Hb|].
  rewrite dmerge_dict. apply wfb_dict in Ha. apply wfb_dict in Hb.
  destruct Ha as [NDa Fa]. destruct Hb as [NDb Fb]. apply wfb_dict. split.
  - rewrite dmerge_keys. apply NoDup_app_filter; assumption.
  - apply Forall_app. split.
    + rewrite Forall_forall in *. intros kv Hin. apply in_map_iff in Hin.
      destruct Hin as [[k x] [<- Hin]]. unfold dm_entry. simpl.
      destruct (lookup k lb) eqn:L.
      * apply (IH _ Hin); [exact (Fa _ Hin)|]. apply lookup_In in L. exact (Fb _ L).
      * exact (Fa _ Hin).
    + rewrite Forall_forall in *. intros kv Hin. apply filter_In in Hin. apply Fb. tauto.
Qed.

Lemma dmerge_all_snoc : forall ds d, dmerge_all (ds ++ [d]) = dmerge (dmerge_all ds) d.
Proof. intros. unfold dmerge_all. rewrite fold_left_app. reflexivity. Qed.

Lemma fold_dmerge_wf : forall ds a, wf a -> Forall wf ds -> wf (fold_left dmerge ds a).
Proof.
  induction ds as [|d r IH]; simpl; intros a Ha H; [exact Ha|].
  inversion H; subst. apply IH; [apply dmerge_wf; assumption|assumption].
Qed.

Lemma dmerge_all_wf : forall ds, Forall wf ds -> wf (dmerge_all ds).
Proof. intros. apply fold_dmerge_wf; [apply wf_empty|assumption]. Qed.

Lemma dmerge_all_two : forall a b, dmerge_all [a; b] = dmerge a b.
Proof. intros. unfold dmerge_all. cbn [fold_left]. rewrite dmerge_empty_l. reflexivity. Qed.

Lemma dmerge_all_three : forall a b c, dmerge_all [a; b; c] = dmerge (dmerge a b) c.
Proof. intros. unfold dmerge_all. cbn [fold_left]. rewrite dmerge_empty_l. reflexivity. Qed.
