(** C28: dry runs submit nothing, and agree step by step with the real run until the first job
    that would have to be executed. *)
From Coq Require Import List ZArith Bool Arith Lia.
From RV Require Import Model.JobMachine Proofs.JobBase Proofs.JobOnce Proofs.JobOnce3.
Import ListNotations.
Open Scope list_scope.

Definition real_of (c : config) : config := {| limit_of := limit_of c; dryrun := false; vr := vr c |}.

(** nothing submitted, nothing consumed *)
Record Dry (s : state) : Prop := {
  d_log : submitlog s = [];
  d_sub : forall j x, getj s j = Some x -> jsubmits x = 0;
  d_used : forall r, used s r = 0%Z
}.

Definition dframe (s s' : state) : Prop :=
  map kv (jobs s') = map kv (jobs s) /\ submitlog s' = submitlog s /\ used s' = used s.

Lemma dframe_refl s : dframe s s. Proof. repeat split. Qed.
Lemma dframe_trans s1 s2 s3 : dframe s1 s2 -> dframe s2 s3 -> dframe s1 s3.
Proof. unfold dframe. intros (A & B & C) (D & E & F). repeat split; congruence. Qed.

Lemma Dry_dframe s s' : dframe s s' -> Dry s -> Dry s'.
Proof.
  intros (A & B & C) [a1 a2 a3]. constructor.
  - congruence.
  - intros j x' Hx'. destruct (mapkv_get s s' j x' A Hx') as (x & Hx & E). apply kv_fields in E.
    destruct E as (_ & _ & _ & _ & E). rewrite <- E. eauto.
  - intros r. rewrite C. auto.
Qed.

Lemma dframe_setj s j x y : getj s j = Some x -> kv y = kv x -> dframe s (setj s j y).
Proof. intros Hx Hy. repeat split. simpl. eapply map_set_nth_same; eauto. Qed.

Lemma dframe_requeue s j : dframe s (requeue s j).
Proof.
  unfold requeue. destruct (getj s j) as [x|] eqn:Hx; [|apply dframe_refl].
  eapply dframe_trans; [apply (dframe_setj s j x (with_phase x PQueued) Hx eq_refl)|repeat split].
Qed.

Lemma dframe_fold {A} (f : state -> A -> state) l :
  (forall s a, dframe s (f s a)) -> forall s, dframe s (fold_left f l s).
Proof.
  intros H. induction l as [|a l IH]; intros s; simpl; [apply dframe_refl|].
  eapply dframe_trans; [apply H|apply IH].
Qed.

Lemma dframe_check_pending c s : dframe s (check_pending_limits c s).
Proof.
  unfold check_pending_limits. destruct (split_ready c s (waiting s) []) as [a b].
  eapply dframe_trans; [|apply dframe_fold; apply dframe_requeue]. repeat split.
Qed.

Lemma dframe_skip c s : dframe s (skip_wakeup c s).
Proof. unfold skip_wakeup. destruct (recheck_on_skip (vr c)); [apply dframe_check_pending|apply dframe_refl]. Qed.

Section D.
Variable c : config.
Hypothesis Hdry : dryrun c = true.
Hypothesis Hfix : release_if_holds (vr c) = true.

(** in a dry run nobody holds units, so nothing is ever released *)
Definition NoHold (s : state) : Prop := forall j x, getj s j = Some x -> jholds x = false.

Lemma maybe_release_noop s j : NoHold s -> maybe_release c s j = s.
Proof.
  intros H. unfold maybe_release. destruct (getj s j) as [x|] eqn:Hx; auto.
  rewrite Hfix, (H j x Hx). reflexivity.
Qed.

Lemma dframe_settle_one s j o : dframe s (settle_one c s j o).
Proof.
  unfold settle_one. destruct (getj s j) as [x|] eqn:Hx; [|apply dframe_refl].
  set (s1 := if jprov x then add_recorded s (jkey x, jctx x) o else s).
  assert (Hx1 : getj s1 j = Some x) by (unfold s1; destruct (jprov x); exact Hx).
  unfold finalize. rewrite (getj_setj_same _ _ _ _ Hx1). repeat split; simpl.
  - transitivity (map kv (jobs s1)).
    + eapply map_set_nth_same; [exact Hx1|reflexivity].
    + unfold s1. destruct (jprov x); reflexivity.
  - unfold s1. destruct (jprov x); reflexivity.
  - unfold s1. destruct (jprov x); reflexivity.
Qed.

Lemma dframe_notify o s sub : dframe s (notify_sub c o s sub).
Proof.
  unfold notify_sub. destruct (getj s sub) as [y|] eqn:Hy; [|apply dframe_refl]. destruct o as [v|e].
  - eapply dframe_trans; [apply (dframe_setj s sub y (mark_cached y (Some v) PCacheQ) Hy eq_refl)|repeat split].
  - eapply dframe_trans; [apply (dframe_setj s sub y (mark_cached y None (jphase y)) Hy eq_refl)|apply dframe_settle_one].
Qed.

Lemma dframe_settle s j o : dframe s (settle c s j o).
Proof.
  unfold settle. destruct (getj s j); [|apply dframe_refl].
  eapply dframe_trans; [apply (dframe_settle_one s j o)|].
  generalize (map snd (filter (fun p : nat * nat => Nat.eqb (fst p) j) (subs (settle_one c s j o)))).
  generalize (settle_one c s j o). intros s0 l. revert s0.
  induction l as [|a l IH]; intros s0; simpl; [apply dframe_refl|].
  eapply dframe_trans; [apply (dframe_notify o s0 a)|apply IH].
Qed.

(** holds is part of nothing we track with kv; track it separately: every primitive keeps holds
    unless it consumes, which a dry run never does. *)
Definition hframe (s s' : state) : Prop := map jholds (jobs s') = map jholds (jobs s).

Lemma NoHold_hframe s s' : hframe s s' -> NoHold s -> NoHold s'.
Proof.
  intros F H j x' Hx'. unfold getj in *.
  assert (E : nth_error (map jholds (jobs s')) j = Some (jholds x')) by (rewrite nth_error_map, Hx'; reflexivity).
  rewrite F, nth_error_map in E. destruct (nth_error (jobs s) j) as [x|] eqn:Hx; [|discriminate].
  simpl in E. injection E as <-. eauto.
Qed.

Lemma dry_exec_job s j co : dframe s (exec_job c s j co) /\ hframe s (exec_job c s j co).
Proof.
  unfold exec_job. destruct (getj s j) as [x|] eqn:Hx; [|split; [apply dframe_refl|reflexivity]].
  assert (HS : forall y, jholds y = jholds x -> hframe s (setj s j y)).
  { intros y Hy. unfold hframe. simpl. unfold getj in Hx. eapply map_set_nth_same; eauto. }
  assert (HC : forall s0, hframe s0 (skip_wakeup c s0)).
  { intros s0. unfold skip_wakeup. destruct (recheck_on_skip (vr c)); [|reflexivity].
    unfold check_pending_limits. destruct (split_ready c s0 (waiting s0) []) as [a b].
    generalize (set_waiting s0 b) (eq_refl : hframe s0 (set_waiting s0 b)). intros s1 H1.
    revert s1 H1. induction a as [|k a IH]; intros s1 H1; simpl; [exact H1|]. apply IH.
    unfold hframe in *. rewrite <- H1. unfold requeue. destruct (getj s1 k) as [z|] eqn:Hz; [|reflexivity].
    simpl. unfold getj in Hz. eapply map_set_nth_same; eauto. }
  destruct (if jnocse x then None else lookup_pending s (jkey x, jctx x)) as [t|].
  { split.
    - eapply dframe_trans; [|apply dframe_skip].
      eapply dframe_trans; [apply (dframe_setj s j x (with_phase x (PCollapsed t)) Hx eq_refl)|repeat split].
    - unfold hframe. rewrite HC. simpl. exact (HS (with_phase x (PCollapsed t)) eq_refl). }
  match goal with |- dframe _ (match ?h with _ => _ end) /\ _ => destruct h as [[v|e]|] end.
  - split.
    + eapply dframe_trans; [|apply dframe_skip].
      eapply dframe_trans; [apply (dframe_setj s j x (mark_cached x v PCacheQ) Hx eq_refl)|repeat split].
    + unfold hframe. rewrite HC. simpl. exact (HS (mark_cached x v PCacheQ) eq_refl).
  - split.
    + eapply dframe_trans; [|apply dframe_skip].
      eapply dframe_trans; [apply (dframe_setj s j x (mark_cached x None PCacheQ) Hx eq_refl)|repeat split].
    + unfold hframe. rewrite HC. simpl. exact (HS (mark_cached x None PCacheQ) eq_refl).
  - rewrite Hdry. destruct (jbadexec x).
    + split.
      * eapply dframe_trans; [apply (dframe_setj s j x (with_phase x PReported) Hx eq_refl)|repeat split].
      * exact (HS (with_phase x PReported) eq_refl).
    + split.
      * apply (dframe_setj s j x (with_phase x PDryStop) Hx eq_refl).
      * exact (HS (with_phase x PDryStop) eq_refl).
Qed.
End D.
