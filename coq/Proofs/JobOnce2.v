From Coq Require Import List ZArith Bool Arith Lia.
From RV Require Import Model.JobMachine Proofs.JobBase Proofs.JobOnce.
Import ListNotations.
Open Scope list_scope.

Section O.
Variable c : config.
Hypothesis Hsafe : pending_owner_safe (vr c) = true.
(* the invariant, with coverage and uniqueness conditional on an exact same-execution look-up *)
Local Notation K := (JobOnce.K (ctx_exact (vr c))).

Lemma cse_eff_eq s key ctx : ctx_exact (vr c) = true -> cse_eff c s key ctx = cse_lookup c s key ctx.
Proof. intros Hexact. unfold cse_eff. rewrite Hexact. reflexivity. Qed.

Lemma key_eqb_spec a b : key_eqb a b = true <-> a = b.
Proof.
  unfold key_eqb. destruct a as [a1 a2], b as [b1 b2]. simpl.
  rewrite andb_true_iff, !Nat.eqb_eq. split; [intros [-> ->]; reflexivity|intros [= -> ->]; auto].
Qed.

Lemma lookup_pending_in s k j : In (k, j) (pending s) -> lookup_pending s k <> None.
Proof.
  unfold lookup_pending. intros Hin.
  destruct (find (fun p => key_eqb (fst p) k) (pending s)) eqn:E; [discriminate|].
  exfalso. eapply find_none in E; eauto. simpl in E.
  assert (key_eqb k k = true) by (apply key_eqb_spec; reflexivity). congruence.
Qed.

Lemma cse_lookup_in s key ctx o : In ((key, ctx), o) (recorded s) -> cse_lookup c s key ctx <> None.
Proof.
  unfold cse_lookup. intros Hin.
  match goal with |- option_map _ (find ?f _) <> None => destruct (find f (recorded s)) eqn:E end; [discriminate|].
  exfalso. eapply find_none in E; eauto. simpl in E. rewrite !Nat.eqb_refl in E.
  destruct (ctx_strict (vr c)); simpl in E; try discriminate. rewrite orb_true_r in E. discriminate.
Qed.

(** * settle_one: record, then drop one's own _pending_jobs entry *)
Lemma K_settle_one s j o : K s -> K (settle_one c s j o).
Proof.
  intros Ks. unfold settle_one. destruct (getj s j) as [x|] eqn:Hx; auto.
  set (s1 := if jprov x then add_recorded s (jkey x, jctx x) o else s).
  assert (Hx1 : getj s1 j = Some x) by (unfold s1; destruct (jprov x); exact Hx).
  unfold finalize. rewrite (getj_setj_same _ _ _ _ Hx1), Hsafe.
  set (s2 := setj s1 j (with_phase x (PSettled o))).
  assert (F2 : map kv (jobs s2) = map kv (jobs s)).
  { unfold s2. simpl. transitivity (map kv (jobs s1)).
    - eapply map_set_nth_same; [exact Hx1|reflexivity].
    - unfold s1. destruct (jprov x); reflexivity. }
  assert (Hget : forall k z', getj s2 k = Some z' -> exists z, getj s k = Some z /\ kv z = kv z').
  { intros k z' H. exact (mapkv_get s s2 k z' F2 H). }
  assert (Hget' : forall k z, getj s k = Some z -> exists z', getj s2 k = Some z' /\ kv z' = kv z).
  { intros k z H. exact (mapkv_get s2 s k z (eq_sym F2) H). }
  set (flt := fun p : nat * nat * nat => negb (key_eqb (fst p) (jkey (with_phase x (PSettled o)), jctx (with_phase x (PSettled o))) && Nat.eqb (snd p) j)).
  set (S' := set_pending s2 (filter flt (pending s2))).
  assert (Hrec : forall e, In e (recorded s) -> In e (recorded S')).
  { intros e He. unfold S', s2, s1. destruct (jprov x); simpl; auto. }
  assert (Hrecj : jprov x = true -> In (kc x, o) (recorded S')).
  { intros Hp. unfold S', s2, s1. rewrite Hp. simpl. now left. }
  assert (Hpend : pending S' = filter flt (pending s)) by (unfold S', s2, s1; destruct (jprov x); reflexivity).
  assert (HgS : forall k, getj S' k = getj s2 k) by reflexivity.
  destruct Ks as [a1 a2 a3 a4].
  constructor.
  - intros k z' Hz' Hn. rewrite HgS in Hz'. destruct (Hget _ _ Hz') as (z & Hz & E). apply kv_fields in E.
    destruct E as (E1 & E2 & E3 & E4 & E5). rewrite <- E4. apply (a1 k z Hz). congruence.
  - intros k k0 Hin. rewrite Hpend in Hin. apply filter_In in Hin. destruct Hin as [Hin _].
    destruct (a2 _ _ Hin) as (z & Hz & Hk & Hs & Hnz). destruct (Hget' _ _ Hz) as (z' & Hz' & E).
    apply kv_fields in E. destruct E as (E1 & E2 & E3 & E4 & E5).
    exists z'. rewrite HgS. unfold kc in *. repeat split; auto; congruence.
  - intros Hb k z' Hz' Hn Hs. rewrite HgS in Hz'. destruct (Hget _ _ Hz') as (z & Hz & E). apply kv_fields in E.
    destruct E as (E1 & E2 & E3 & E4 & E5).
    assert (Ek : kc z' = kc z) by (unfold kc; congruence). rewrite Ek.
    destruct (Nat.eq_dec k j) as [->|Hne].
    + rewrite Hx in Hz. injection Hz as <-. right. exists o. apply Hrecj. apply (a1 j x Hx). congruence.
    + destruct (a3 Hb k z Hz) as [Hin|(o' & Hin)]; try congruence.
      * left. rewrite Hpend. apply filter_In. split; [exact Hin|]. unfold flt. simpl.
        destruct (Nat.eqb_spec k j); [contradiction|]. now rewrite andb_false_r.
      * right. exists o'. auto.
  - intros Hb j1 j2 y1 y2 H1 H2 N1 N2 S1 S2 Ek. rewrite HgS in H1, H2.
    destruct (Hget _ _ H1) as (x1 & Hx1' & E1). destruct (Hget _ _ H2) as (x2 & Hx2' & E2).
    apply kv_fields in E1. apply kv_fields in E2.
    destruct E1 as (P1 & P2 & P3 & P4 & P5). destruct E2 as (Q1 & Q2 & Q3 & Q4 & Q5).
    apply (a4 Hb j1 j2 x1 x2 Hx1' Hx2'); try congruence. unfold kc in *. congruence.
Qed.

Lemma K_notify o s sub : K s -> K (notify_sub c o s sub).
Proof.
  intros Ks. unfold notify_sub. destruct (getj s sub) as [y|] eqn:Hy; auto. destruct o as [v|e].
  - eapply K_kframe; [|exact Ks].
    eapply kframe_trans; [apply (kframe_setj s sub y (mark_cached y (Some v) PCacheQ) Hy eq_refl)|repeat split].
  - apply K_settle_one. eapply K_kframe; [|exact Ks].
    apply (kframe_setj s sub y (mark_cached y None (jphase y)) Hy eq_refl).
Qed.

Lemma K_settle s j o : K s -> K (settle c s j o).
Proof.
  intros Ks. unfold settle. destruct (getj s j); auto.
  generalize (K_settle_one s j o Ks).
  generalize (map snd (filter (fun p : nat * nat => Nat.eqb (fst p) j) (subs (settle_one c s j o)))).
  generalize (settle_one c s j o). intros s0 l. revert s0.
  induction l as [|a l IH]; intros s0 K0; simpl; auto. apply IH. now apply K_notify.
Qed.

(** * _exec_job_main_thread *)
Lemma K_exec_job s j co : K s -> K (exec_job c s j co).
Proof.
  intros Ks. unfold exec_job. destruct (getj s j) as [x|] eqn:Hx; auto.
  destruct (if jnocse x then None else lookup_pending s (jkey x, jctx x)) as [t|] eqn:Etwin.
  { eapply K_kframe; [|exact Ks]. eapply kframe_trans; [|apply kframe_skip].
    eapply kframe_trans; [apply (kframe_setj s j x (with_phase x (PCollapsed t)) Hx eq_refl)|repeat split]. }
  match goal with |- K (match ?h with _ => _ end) => destruct h as [[v|e]|] eqn:Ehit end.
  - eapply K_kframe; [|exact Ks]. eapply kframe_trans; [|apply kframe_skip].
    eapply kframe_trans; [apply (kframe_setj s j x (mark_cached x v PCacheQ) Hx eq_refl)|repeat split].
  - eapply K_kframe; [|exact Ks]. eapply kframe_trans; [|apply kframe_skip].
    eapply kframe_trans; [apply (kframe_setj s j x (mark_cached x None PCacheQ) Hx eq_refl)|repeat split].
  - destruct (dryrun c).
    + destruct (jbadexec x).
      * eapply K_kframe; [|exact Ks].
        eapply kframe_trans; [apply (kframe_setj s j x (with_phase x PReported) Hx eq_refl)|repeat split].
      * eapply K_kframe; [|exact Ks]. apply (kframe_setj s j x (with_phase x PDryStop) Hx eq_refl).
    + destruct (negb (within c (used s) (jlimits x))).
      * eapply K_kframe; [|exact Ks].
        eapply kframe_trans; [apply (kframe_setj s j x (with_phase x PWaiting) Hx eq_refl)|repeat split].
      * destruct (jbadexec x).
        -- eapply K_kframe; [|exact Ks]. eapply kframe_trans; [|repeat split].
           apply (kframe_setj (set_used s (consume (used s) (jlimits x))) j x (mark_holds x PReported) Hx eq_refl).
        -- (* handed to an executor *)
           rewrite Hsafe.
           set (s1 := set_used s (consume (used s) (jlimits x))).
           set (y := mark_submitted (mark_holds x PSubmitted)).
           set (s2 := setj s1 j y).
           assert (Hy : getj s2 j = Some y) by (apply (getj_setj_same _ _ _ _ (Hx : getj s1 j = Some x))).
           assert (Hoth : forall k, k <> j -> getj s2 k = getj s k).
           { intros k Hk. unfold s2. rewrite getj_setj_other; auto. }
           assert (Hlk : lookup_pending s2 (jkey x, jctx x) = lookup_pending s (jkey x, jctx x)) by reflexivity.
           (* no other cse job with this key was ever submitted *)
           assert (Hfresh : ctx_exact (vr c) = true -> jnocse x = false -> forall k z, k <> j -> getj s k = Some z ->
                     jnocse z = false -> 1 <= jsubmits z -> kc z <> kc x).
           { intros Hb Hn k z Hk Hz Hnz Hsz Ek. rewrite Hn in Etwin.
             destruct (k_cov _ _ Ks Hb k z Hz Hnz Hsz) as [Hin|(o & Hin)].
             - rewrite Ek in Hin. apply lookup_pending_in in Hin. unfold kc in Hin. simpl in Hin. congruence.
             - rewrite Ek in Hin. unfold kc in Hin. apply cse_lookup_in in Hin. rewrite Hn, (cse_eff_eq _ _ _ Hb) in Ehit.
               destruct (cse_lookup c s (jkey x) (jctx x)) as [[?|?]|]; try discriminate; congruence. }
           assert (HP : (if jnocse x then pending s2
                         else (jkey x, jctx x, j) :: filter (fun p => negb (key_eqb (fst p) (jkey x, jctx x))) (pending s2))
                        = (if jnocse x then pending s else (jkey x, jctx x, j) :: pending s)).
           { destruct (jnocse x) eqn:Hn; [reflexivity|]. f_equal. change (pending s2) with (pending s).
             unfold lookup_pending in Etwin.
             destruct (find (fun p => key_eqb (fst p) (jkey x, jctx x)) (pending s)) eqn:Ef; [discriminate|].
             clear - Ef. induction (pending s) as [|p l IH]; simpl in *; auto.
             destruct (key_eqb (fst p) (jkey x, jctx x)); [discriminate|]. simpl. f_equal. auto. }
           match goal with |- K (add_submit (set_pending _ ?P) _) =>
             change (K (add_submit (set_pending s2 P) j)); replace P with (if jnocse x then pending s else (jkey x, jctx x, j) :: pending s) by (symmetry; exact HP) end.
           apply (K_kframe _ (set_pending s2 (if jnocse x then pending s else (jkey x, jctx x, j) :: pending s)));
             [repeat split|].
           destruct Ks as [a1 a2 a3 a4].
           constructor; simpl pending; simpl recorded; change (getj (set_pending s2 _)) with (getj s2).
           ++ intros k z Hz Hn. destruct (Nat.eq_dec k j) as [->|Hk].
              ** rewrite Hy in Hz. injection Hz as <-. simpl in *. eauto.
              ** rewrite Hoth in Hz by assumption. eauto.
           ++ intros k k0 Hin.
              assert (Hcases : In (k, k0) (pending s) \/ (k, k0) = (jkey x, jctx x, j)).
              { destruct (jnocse x); [left; exact Hin|]. destruct Hin as [<-|Hin]; auto. }
              destruct Hcases as [Hin'|Heq].
              ** destruct (a2 _ _ Hin') as (z & Hz & Hk & Hs & Hnz). destruct (Nat.eq_dec k0 j) as [->|Hne].
                 --- exists y. rewrite Hx in Hz. injection Hz as <-. split; [exact Hy|]. split; [exact Hk|]. simpl. split; [lia|exact Hnz].
                 --- exists z. rewrite Hoth by assumption. auto.
              ** destruct (jnocse x) eqn:Hnx.
                 --- exfalso. injection Heq as -> ->. destruct (a2 _ _ Hin) as (z & Hz & Hk & Hs & Hnz).
                     rewrite Hx in Hz. injection Hz as <-. congruence.
                 --- injection Heq as -> ->. exists y. split; [exact Hy|]. split; [reflexivity|]. simpl. split; [lia|exact Hnx].
           ++ intros Hb k z Hz Hn Hs. destruct (Nat.eq_dec k j) as [->|Hk].
              ** rewrite Hy in Hz. injection Hz as <-. left. change (kc y) with (jkey x, jctx x).
                 simpl in Hn. rewrite Hn. now left.
              ** rewrite Hoth in Hz by assumption. destruct (a3 Hb k z Hz Hn Hs) as [Hin|Hr]; [|right; exact Hr].
                 left. destruct (jnocse x); [exact Hin|now right].
           ++ intros Hb j1 j2 y1 y2 H1 H2 N1 N2 S1 S2 Ek.
              destruct (Nat.eq_dec j1 j) as [->|Hk1]; destruct (Nat.eq_dec j2 j) as [->|Hk2]; auto.
              ** rewrite Hy in H1. injection H1 as <-. rewrite Hoth in H2 by assumption. exfalso.
                 simpl in N1. apply (Hfresh Hb N1 j2 y2 Hk2 H2 N2 S2). symmetry. exact Ek.
              ** rewrite Hy in H2. injection H2 as <-. rewrite Hoth in H1 by assumption. exfalso.
                 simpl in N2. apply (Hfresh Hb N2 j1 y1 Hk1 H1 N1 S1). exact Ek.
              ** rewrite Hoth in H1, H2 by assumption. eapply (a4 Hb); eauto.
Qed.

Lemma K_init : K init.
Proof. constructor; unfold getj; simpl; intros; try (destruct j; discriminate); try (destruct j1; discriminate); contradiction. Qed.

Lemma K_step s o : K s -> K (step c s o).
Proof.
  intros Ks. destruct o as [key ctx l nocse prov bad|k j0 co|j ok e|j o].
  - cbn [step]. set (nj := new_job key ctx l nocse prov bad).
    assert (Hg : forall k z, nth_error (jobs s ++ [nj]) k = Some z -> z = nj \/ getj s k = Some z).
    { intros k z. unfold getj. destruct (Nat.lt_ge_cases k (length (jobs s))) as [Hlt|Hge].
      - rewrite nth_error_app1 by assumption. auto.
      - rewrite nth_error_app2 by assumption. destruct (k - length (jobs s)) as [|n]; simpl.
        + intros [= <-]. now left.
        + destruct n; discriminate. }
    assert (Hg' : forall k z, getj s k = Some z -> nth_error (jobs s ++ [nj]) k = Some z).
    { intros k z H. unfold getj in H. rewrite nth_error_app1; auto. apply nth_error_Some. congruence. }
    destruct Ks as [a1 a2 a3 a4].
    constructor; unfold getj; simpl jobs; simpl pending; simpl recorded.
    + intros k z Hz Hn. destruct (Hg _ _ Hz) as [->|Hz']; [|eauto]. simpl in *.
      destruct prov; auto. rewrite orb_true_r in Hn. discriminate.
    + intros k k0 Hin. destruct (a2 _ _ Hin) as (z & Hz & R). exists z. split; auto.
    + intros Hb k z Hz Hn Hs. destruct (Hg _ _ Hz) as [->|Hz']; [simpl in Hs; lia|eapply (a3 Hb); eauto].
    + intros Hb j1 j2 y1 y2 H1 H2 N1 N2 S1 S2 Ek.
      destruct (Hg _ _ H1) as [->|H1']; [simpl in S1; lia|]. destruct (Hg _ _ H2) as [->|H2']; [simpl in S2; lia|].
      eapply (a4 Hb); eauto.
  - cbn [step]. destruct (nth_error (queue s) _) as [[j|j|j e|j v]|]; auto.
    + apply K_exec_job. eapply K_kframe; [|exact Ks]. repeat split.
    + unfold done_job. set (s1 := maybe_release c (pop_queue s _) j).
      assert (K1 : K s1).
      { eapply K_kframe; [|exact Ks]. eapply kframe_trans; [|apply kframe_maybe_release]. repeat split. }
      destruct (getj s1 j) as [x|] eqn:Hx; auto. destruct (jpreset x).
      * eapply K_kframe; [|exact K1].
        eapply kframe_trans; [apply (kframe_setj s1 j x (with_phase x PEvalQ) Hx eq_refl)|repeat split].
      * eapply K_kframe; [|exact K1]. apply (kframe_setj s1 j x (with_phase x PEvaluating) Hx eq_refl).
    + unfold reject_job. apply K_settle. eapply K_kframe; [|exact Ks].
      eapply kframe_trans; [|apply kframe_maybe_release]. repeat split.
    + unfold resolve_job. apply K_settle. eapply K_kframe; [|exact Ks]. repeat split.
  - cbn [step]. destruct (phase_is s j _); auto. destruct (getj s j) as [x|] eqn:Hx; auto.
    eapply K_kframe; [|exact Ks].
    eapply kframe_trans; [apply (kframe_setj s j x (with_phase x PReported) Hx eq_refl)|repeat split].
  - cbn [step]. destruct (phase_is s j _); auto. destruct (getj s j) as [x|] eqn:Hx; auto.
    eapply K_kframe; [|exact Ks].
    eapply kframe_trans; [apply (kframe_setj s j x (with_phase x PEvalQ) Hx eq_refl)|repeat split].
Qed.

Theorem K_run ops : K (run c ops).
Proof.
  unfold run. rewrite <- fold_left_rev_right. induction (rev ops) as [|o l IH]; simpl; [apply K_init|].
  now apply K_step.
Qed.
End O.
