From Coq Require Import List ZArith Ascii Bool Lia Arith Permutation.
From RV Require Import Base.Decimal Model.Bencode Proofs.BencodeFacts Proofs.BencodeDec Proofs.BencodeSort.
Import ListNotations.
Open Scope list_scope.

Lemma enc_py_injective v w b : enc_py v = Some b -> enc_py w = Some b -> abstract v = abstract w.
Proof.
  unfold enc_py. destruct (abstract v) as [d|], (abstract w) as [d'|]; simpl; try discriminate.
  intros [= <-] [= H]. f_equal. symmetry. now apply enc_injective.
Qed.

Lemma enc_py_roundtrip v d : abstract v = Some d ->
  exists b, enc_py v = Some b /\ bdecode b = DOk d [].
Proof.
  intros H. exists (enc d). unfold enc_py. rewrite H. split; auto. apply bdecode_bencode.
Qed.

Lemma all_some_in_none {A} (l : list (option A)) : In None l -> all_some l = None.
Proof.
  induction l as [|[a|] l IH]; simpl; auto; [tauto|].
  intros [H|H]; [discriminate|]. now rewrite IH.
Qed.

Lemma enc_py_list_rejects l w : In w l -> enc_py w = None -> enc_py (PList l) = None /\ enc_py (PTuple l) = None.
Proof.
  unfold enc_py. intros Hin Hw. destruct (abstract w) eqn:E; [discriminate|].
  assert (H : all_some (map abstract l) = None).
  { apply all_some_in_none. rewrite <- E. now apply in_map. }
  simpl. rewrite H. auto.
Qed.

Lemma enc_py_dict_rejects kvs k w : In (k, w) kvs -> enc_py w = None -> enc_py (PDict kvs) = None.
Proof.
  unfold enc_py. intros Hin Hw. destruct (abstract w) eqn:E; [discriminate|].
  cbn [abstract]. destruct (keys_homogeneous kvs); auto.
  rewrite all_some_in_none; auto.
  apply in_map_iff. exists (k, w). split; auto. now rewrite E.
Qed.

Lemma all_some_map_inv {A B} (f : A -> option B) l l' m :
  all_some (map f l) = Some m -> all_some (map f l') = Some m ->
  Forall2 (fun a b => f a = f b) l l'.
Proof.
  revert l' m. induction l as [|a l IH]; intros [|b l'] m; simpl.
  - constructor.
  - intros [= <-]. destruct (f b); [|discriminate]. destruct (all_some (map f l')); discriminate.
  - destruct (f a); [|discriminate]. destruct (all_some (map f l)); simpl; [|discriminate].
    intros [= <-]. discriminate.
  - destruct (f a) as [x|] eqn:Ea; [|discriminate]. destruct (f b) as [y|] eqn:Eb; [|discriminate].
    destruct (all_some (map f l)) as [m1|] eqn:E1; [|discriminate].
    destruct (all_some (map f l')) as [m2|] eqn:E2; [|discriminate]. simpl.
    intros [= <-] [= -> ->]. constructor; [congruence|]. eapply IH; eauto.
Qed.

(** What equality of abstractions means, constructor by constructor. *)
Lemma abstract_list_eq l l' d : abstract (PList l) = Some d -> abstract (PList l') = Some d ->
  Forall2 (fun a b => abstract a = abstract b) l l'.
Proof.
  simpl. destruct (all_some (map abstract l)) as [m|] eqn:E; [|discriminate].
  destruct (all_some (map abstract l')) as [m'|] eqn:E'; [|discriminate]. simpl.
  intros [= <-] [= ->]. eapply all_some_map_inv; eauto.
Qed.
