(** Specification-side definitions for C19 (what "traversed and rebuilt faithfully" means)
    and the induction principle for nested values. *)
From Coq Require Import List ZArith Bool Lia.
From RV Require Import Model.Nested.
Import ListNotations.
Open Scope list_scope.

Section Spec.
Variable A : Type.
Variable leq : A -> A -> bool.
Variable lhash : A -> bool.
Notation val := (val A).

(** ** Induction principle with the nested lists unfolded *)
Section Ind.
Variable P : val -> Prop.
Hypothesis HLeaf : forall a, P (Leaf a).
Hypothesis HList : forall l, Forall P l -> P (VList l).
Hypothesis HTuple : forall l, Forall P l -> P (VTuple l).
Hypothesis HNamed : forall c l, Forall P l -> P (VNamed c l).
Hypothesis HSet : forall l, Forall P l -> P (VSet l).
Hypothesis HDict : forall kvs, Forall (fun kv => P (fst kv) /\ P (snd kv)) kvs -> P (VDict kvs).
Hypothesis HData : forall c fs ex, Forall (fun p => P (snd p)) fs -> P (VData c fs ex).

Fixpoint val_ind' (v : val) : P v :=
  let all := fix all (l : list val) : Forall P l :=
    match l with [] => Forall_nil _ | x :: r => Forall_cons _ (val_ind' x) (all r) end in
  match v with
  | Leaf a => HLeaf a
  | VList l => HList l (all l)
  | VTuple l => HTuple l (all l)
  | VNamed c l => HNamed c l (all l)
  | VSet l => HSet l (all l)
  | VDict kvs =>
      HDict kvs ((fix allkv (l : list (val * val)) : Forall (fun kv => P (fst kv) /\ P (snd kv)) l :=
                    match l with
                    | [] => Forall_nil _
                    | p :: r => @Forall_cons _ (fun kv => P (fst kv) /\ P (snd kv)) p r
                                  (conj (val_ind' (fst p)) (val_ind' (snd p))) (allkv r)
                    end) kvs)
  | VData c fs ex =>
      HData c fs ex ((fix allf (l : list (field * val)) : Forall (fun p => P (snd p)) l :=
                        match l with
                        | [] => Forall_nil _
                        | p :: r => @Forall_cons _ (fun p => P (snd p)) p r (val_ind' (snd p)) (allf r)
                        end) fs)
  end.
End Ind.

(** ** The leaves, left to right (dict: all keys, then all values; dataclass: all fields
    in declaration order).  iter_nested_value yields them in reverse (stack order). *)
Fixpoint leaves (v : val) : list A :=
  match v with
  | Leaf a => [a]
  | VList l | VTuple l | VNamed _ l | VSet l => flat_map leaves l
  | VDict kvs => flat_map (fun kv => leaves (fst kv)) kvs ++ flat_map (fun kv => leaves (snd kv)) kvs
  | VData _ fs _ => flat_map (fun p => leaves (snd p)) fs
  end.

(** ** The order in which map_nested_value calls [func] (dict: key, value, key, value ...;
    dataclass: the init fields, then the non-init fields). *)
Fixpoint visit_order (v : val) : list A :=
  match v with
  | Leaf a => [a]
  | VList l | VTuple l | VNamed _ l | VSet l => flat_map visit_order l
  | VDict kvs => flat_map (fun kv => visit_order (fst kv) ++ visit_order (snd kv)) kvs
  | VData _ fs _ =>
      flat_map (fun p => if f_init (fst p) then visit_order (snd p) else []) fs
      ++ flat_map (fun p => if f_init (fst p) then [] else visit_order (snd p)) fs
  end.

(** ** Faithful rebuild: same constructors, same lengths, same classes and field
    names, every leaf [a] replaced by [f a]. *)
Section Subst.
Variable B : Type.
Variable f : A -> Nested.val B.
Fixpoint subst (v : val) : Nested.val B :=
  match v with
  | Leaf a => f a
  | VList l => VList (map subst l)
  | VTuple l => VTuple (map subst l)
  | VNamed c l => VNamed c (map subst l)
  | VSet l => VSet (map subst l)
  | VDict kvs => VDict (map (fun kv => (subst (fst kv), subst (snd kv))) kvs)
  | VData c fs ex => VData c (map (fun p => (fst p, subst (snd p))) fs) ex
  end.

(** the same statement as a relation, so that it can be read without [subst] *)
Inductive rebuilt : val -> Nested.val B -> Prop :=
| RLeaf a : rebuilt (Leaf a) (f a)
| RList l l' : Forall2 rebuilt l l' -> rebuilt (VList l) (VList l')
| RTuple l l' : Forall2 rebuilt l l' -> rebuilt (VTuple l) (VTuple l')
| RNamed c l l' : Forall2 rebuilt l l' -> rebuilt (VNamed c l) (VNamed c l')
| RSet l l' : Forall2 rebuilt l l' -> rebuilt (VSet l) (VSet l')
| RDict kvs kvs' :
    Forall2 (fun p q => rebuilt (fst p) (fst q) /\ rebuilt (snd p) (snd q)) kvs kvs' ->
    rebuilt (VDict kvs) (VDict kvs')
| RData c fs fs' ex :
    Forall2 (fun p q => fst p = fst q /\ rebuilt (snd p) (snd q)) fs fs' ->
    rebuilt (VData c fs ex) (VData c fs' ex).
End Subst.

(** ** No collisions: in every set node (dict node) the rebuilt elements (keys) are
    hashable and pairwise different for Python's ==, so the rebuilt set (dict) can
    hold all of them.  For [f := Leaf] this is well-formedness of the value itself. *)
Fixpoint distinct_from (acc ys : list val) : bool :=
  match ys with
  | [] => true
  | y :: r => hashable A lhash y && negb (existsb (fun x => py_eq A leq x y) acc)
              && distinct_from (acc ++ [y]) r
  end.

Section CF.
Variable f : A -> val.
Fixpoint collision_free (v : val) : bool :=
  match v with
  | Leaf _ => true
  | VList l | VTuple l | VNamed _ l => forallb collision_free l
  | VSet l => forallb collision_free l && distinct_from [] (map (subst A f) l)
  | VDict kvs =>
      forallb (fun kv => let '(k, x) := kv in collision_free k && collision_free x) kvs
      && distinct_from [] (map (fun kv => subst A f (fst kv)) kvs)
  | VData _ fs _ => forallb (fun p => let '(_, x) := p in collision_free x) fs
  end.
End CF.

Definition wf (v : val) : bool := collision_free (@Leaf A) v.

(** ** Where the two dataclass steps can raise *)
Definition dc_node_ok (s : setter) (d : dictcopy) (c : dcls) (fs : list (field * val)) : bool :=
  match s with
  | SetAttr => negb (dc_frozen c && existsb (fun p => negb (f_init (fst p))) fs)
  | ObjSetAttr => true
  end
  && match d with Unguarded => negb (dc_slots c) | Guarded => true end.

Fixpoint dc_ok (s : setter) (d : dictcopy) (v : val) : bool :=
  match v with
  | Leaf _ => true
  | VList l | VTuple l | VNamed _ l | VSet l => forallb (dc_ok s d) l
  | VDict kvs => forallb (fun kv => let '(k, x) := kv in dc_ok s d k && dc_ok s d x) kvs
  | VData c fs _ => dc_node_ok s d c fs && forallb (fun p => let '(_, x) := p in dc_ok s d x) fs
  end.

(** number of [stack.pop()]s iter_nested_value needs *)
Fixpoint pops (v : val) : nat :=
  match v with
  | Leaf _ => 2
  | VList l | VTuple l | VNamed _ l | VSet l => S (list_sum (map pops l))
  | VDict kvs => S (list_sum (map (fun kv => pops (fst kv)) kvs) + list_sum (map (fun kv => pops (snd kv)) kvs))
  | VData _ fs _ => S (list_sum (map (fun p => pops (snd p)) fs))
  end.

End Spec.

Arguments leaves {A}. Arguments visit_order {A}. Arguments subst {A B}. Arguments rebuilt {A B}.
Arguments collision_free {A}. Arguments wf {A}. Arguments dc_ok {A}. Arguments pops {A}.
Arguments distinct_from {A}. Arguments dc_node_ok {A}.
