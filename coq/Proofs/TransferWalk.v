(** C23 — iter_record_ids: the layered walk visits exactly the reachable records, once each,
    and always terminates within its fuel. *)
From Coq Require Import List NArith Bool Arith Lia.
From RV Require Import Model.Transfer Proofs.TransferBase.
Import ListNotations.
Open Scope list_scope.

(** typed reachability along the ownership edges *)
Inductive reach (r : repo) (roots : list id) : node -> Prop :=
| reach_root : forall n, In n (root_nodes r roots) -> reach r roots n
| reach_step : forall n m, reach r roots n -> In m (children_of r n) -> reach r roots m.

(** ** pick_new *)
Lemma pick_new_incl : forall front seen n,
  In n (pick_new seen front) -> In n front /\ ~ In (snd n) seen.
Proof.
  induction front as [|m t IH]; simpl; intros seen n H; [contradiction|].
  destruct (memN (snd m) seen) eqn:E.
  - destruct (IH _ _ H). auto.
  - destruct H as [H|H].
    + subst. split; [auto|]. apply memN_false. exact E.
    + destruct (IH _ _ H) as [H1 H2]. split; [auto|]. intros C. apply H2. right. exact C.
Qed.
Lemma pick_new_nodup : forall front seen, NoDup (map snd (pick_new seen front)).
Proof.
  induction front as [|m t IH]; simpl; intros seen; [constructor|].
  destruct (memN (snd m) seen); [apply IH|].
  simpl. constructor; [|apply IH].
  intros C. apply in_map_iff in C. destruct C as [n [Hn Hin]].
  apply pick_new_incl in Hin. destruct Hin as [_ Hin]. apply Hin. left. symmetry. exact Hn.
Qed.
Lemma pick_new_cover : forall front seen n,
  In n front -> In (snd n) seen \/ In (snd n) (map snd (pick_new seen front)).
Proof.
  induction front as [|m t IH]; simpl; intros seen n H; [contradiction|].
  destruct (memN (snd m) seen) eqn:E.
  - destruct H as [H|H].
    + subst. left. apply memN_In. exact E.
    + apply IH. exact H.
  - destruct H as [H|H].
    + subst. right. left. reflexivity.
    + destruct (IH (snd m :: seen) n H) as [[C|C]|C].
      * right. left. exact C.
      * left. exact C.
      * right. right. exact C.
Qed.

Lemma nodup_app : forall A (a b : list A),
  NoDup a -> NoDup b -> (forall x, In x a -> ~ In x b) -> NoDup (a ++ b).
Proof.
  induction a as [|x t IH]; simpl; intros b Ha Hb H; [exact Hb|].
  inversion Ha as [|? ? Hx Ht]. subst. constructor.
  - rewrite in_app_iff. intros [C|C]; [contradiction|]. apply (H x); auto.
  - apply IH; auto.
Qed.

(** ** soundness and closure, with the picked nodes as a ghost *)
Lemma walk_closed : forall r roots fuel P front l,
  NoDup (map snd P) ->
  (forall n, In n P -> reach r roots n) ->
  (forall n, In n front -> reach r roots n) ->
  (forall n m, In n P -> In m (children_of r n) -> In (snd m) (map snd P) \/ In m front) ->
  walk fuel r (map snd P) front = WalkIds l ->
  exists P', l = map snd P' /\ NoDup l /\ (forall n, In n P' -> reach r roots n) /\
             (forall n m, In n P' -> In m (children_of r n) -> In (snd m) l).
Proof.
  intros r roots. induction fuel as [|f IH]; simpl; intros P front l Hnd HP Hfront Hinv H; [discriminate|].
  destruct (pick_new (map snd P) front) as [|x new'] eqn:E.
  - inversion H. subst. exists P. split; [reflexivity|]. split; [exact Hnd|]. split; [exact HP|].
    intros n m Hn Hm. destruct (Hinv n m Hn Hm) as [C|C]; [exact C|].
    destruct (pick_new_cover front (map snd P) m C) as [D|D]; [exact D|].
    rewrite E in D. contradiction.
  - set (new := x :: new') in *.
    assert (Hnew : forall n, In n new -> In n front /\ ~ In (snd n) (map snd P)).
    { intros n Hn. apply pick_new_incl. rewrite E. exact Hn. }
    apply (IH (P ++ new) (flat_map (children_of r) new) l).
    + rewrite map_app. apply nodup_app.
      * exact Hnd.
      * rewrite <- E. apply pick_new_nodup.
      * intros i Hi C. apply in_map_iff in C. destruct C as [n [Hn Hin]].
        destruct (Hnew n Hin) as [_ Hns]. apply Hns. rewrite Hn. exact Hi.
    + intros n Hn. apply in_app_iff in Hn. destruct Hn as [Hn|Hn]; [auto|].
      apply Hfront. apply Hnew. exact Hn.
    + intros m Hm. apply in_flat_map in Hm. destruct Hm as [n [Hn Hm]].
      apply reach_step with n; [|exact Hm]. apply Hfront. apply Hnew. exact Hn.
    + intros n m Hn Hm. rewrite map_app. apply in_app_iff in Hn. destruct Hn as [Hn|Hn].
      * destruct (Hinv n m Hn Hm) as [C|C].
        -- left. apply in_app_iff. left. exact C.
        -- left. apply in_app_iff.
           destruct (pick_new_cover front (map snd P) m C) as [D|D]; [left; exact D|].
           right. rewrite E in D. exact D.
      * right. apply in_flat_map. exists n. auto.
    + rewrite map_app. exact H.
Qed.

(** ** termination within the fuel *)
Lemma flat_tag_ids : forall (f : id * entity -> list id) r c,
  (forall p x, In x (f p) -> x = fst p) -> In c (flat_map f r) -> In c (ids r).
Proof.
  intros f r c Hf H. apply in_flat_map in H. destruct H as [p [Hp Hc]].
  apply Hf in Hc. subst. unfold ids. apply in_map. exact Hp.
Qed.
Lemma child_jobs_spec : forall r i c, In c (child_jobs r i) -> exists j, In (c, EJob j) r.
Proof.
  intros r i c H. unfold child_jobs in H. apply in_flat_map in H. destruct H as [[k e] [Hp Hc]].
  simpl in Hc. destruct e; try contradiction. destruct (j_parent j); [|contradiction].
  destruct (N.eqb i0 i); [|contradiction]. destruct Hc as [Hc|[]]. subst. eauto.
Qed.
Lemma child_tags_spec : forall r i c,
  In c (child_tags r i) <-> exists t, In (c, ETag t) r /\ In i (t_parents t).
Proof.
  intros r i c. unfold child_tags. rewrite in_flat_map. split.
  - intros [[k e] [Hp Hc]]. simpl in Hc. destruct e; try contradiction.
    destruct (memN i (t_parents t)) eqn:E; [|contradiction]. destruct Hc as [Hc|[]]. subst.
    exists t. split; [exact Hp|]. apply memN_In. exact E.
  - intros [t [Hin Hp]]. exists (c, ETag t). split; [exact Hin|]. simpl.
    apply memN_In in Hp. rewrite Hp. left. reflexivity.
Qed.
Lemma entity_tags_spec : forall r i c, In c (entity_tags r i) -> exists t, In (c, ETag t) r.
Proof.
  intros r i c H. unfold entity_tags in H. apply in_flat_map in H. destruct H as [[k e] [Hp Hc]].
  simpl in Hc. destruct e; try contradiction. destruct (N.eqb (t_entity t) i); [|contradiction].
  destruct Hc as [Hc|[]]. subst. eauto.
Qed.
Lemma pair_in_ids : forall (r : repo) c e, In (c, e) r -> In c (ids r).
Proof. intros r c e H. unfold ids. change c with (fst (c, e)). apply in_map. exact H. Qed.

Lemma own_edges_cases : forall r k i,
  (exists e, find r i = Some e /\ k = kind_of e)
  \/ own_edges r k i = map (fun c => (KJob, c)) (child_jobs r i)
  \/ own_edges r k i = map (fun c => (KTag, c)) (child_tags r i)
  \/ own_edges r k i = [].
Proof.
  intros r k i. unfold own_edges.
  destruct (find r i) as [[]|]; destruct k;
    first [ left; eexists; split; reflexivity
          | right; left; reflexivity
          | right; right; left; reflexivity
          | right; right; right; reflexivity ].
Qed.

Lemma children_in_universe : forall r n m, In m (children_of r n) -> In (snd m) (universe r).
Proof.
  intros r [k i] m H. unfold universe. apply in_app_iff.
  unfold children_of in H. simpl in H. apply in_app_iff in H.
  destruct H as [H|H].
  - destruct (own_edges_cases r k i) as [[e [Hf Hk]]|[Hc|[Hc|Hc]]].
    + right. unfold all_targets. apply in_flat_map. exists (i, e). split; [apply find_In; exact Hf|].
      simpl. apply in_map. unfold children_of. simpl. apply in_app_iff. left. subst k. exact H.
    + left. rewrite Hc in H. apply in_map_iff in H. destruct H as [c [<- Hin]]. simpl.
      destruct (child_jobs_spec _ _ _ Hin) as [j Hj]. eapply pair_in_ids; eauto.
    + left. rewrite Hc in H. apply in_map_iff in H. destruct H as [c [<- Hin]]. simpl.
      apply child_tags_spec in Hin. destruct Hin as [t [Ht _]]. eapply pair_in_ids; eauto.
    + rewrite Hc in H. contradiction.
  - left. apply in_map_iff in H. destruct H as [c [<- Hin]]. simpl.
    destruct (entity_tags_spec _ _ _ Hin) as [t Ht]. eapply pair_in_ids; eauto.
Qed.

Lemma walk_terminates_gen : forall r fuel seen front,
  NoDup seen -> incl seen (universe r) ->
  (forall n, In n front -> In (snd n) (universe r)) ->
  length (universe r) < fuel + length seen ->
  walk fuel r seen front <> WalkOutOfFuel.
Proof.
  intros r. induction fuel as [|f IH]; simpl; intros seen front Hnd Hincl Hfront Hlen.
  - exfalso. pose proof (NoDup_incl_length Hnd Hincl). lia.
  - destruct (pick_new seen front) as [|x new'] eqn:E; [discriminate|].
    set (new := x :: new') in *.
    assert (Hnew : forall n, In n new -> In n front /\ ~ In (snd n) seen).
    { intros n Hn. apply pick_new_incl. rewrite E. exact Hn. }
    apply (IH (seen ++ map snd new) (flat_map (children_of r) new)).
    + apply nodup_app; [exact Hnd| rewrite <- E; apply pick_new_nodup |].
      intros i Hi C. apply in_map_iff in C. destruct C as [n [Hn Hin]].
      destruct (Hnew n Hin) as [_ Hns]. apply Hns. rewrite Hn. exact Hi.
    + intros i Hi. apply in_app_iff in Hi. destruct Hi as [Hi|Hi]; [auto|].
      apply in_map_iff in Hi. destruct Hi as [n [<- Hin]]. apply Hfront. apply Hnew. exact Hin.
    + intros m Hm. apply in_flat_map in Hm. destruct Hm as [n [_ Hm]].
      eapply children_in_universe. exact Hm.
    + rewrite app_length, map_length. subst new. simpl. lia.
Qed.

Lemma root_nodes_spec : forall r roots n,
  In n (root_nodes r roots) <-> exists e, In (snd n) roots /\ find r (snd n) = Some e /\ fst n = kind_of e.
Proof.
  intros r roots n. unfold root_nodes. rewrite in_flat_map. split.
  - intros [i [Hi H]]. destruct (find r i) eqn:E; [|contradiction]. destruct H as [H|[]]. subst n.
    simpl. eauto.
  - intros [e [Hi [Hf Hk]]]. exists (snd n). split; [exact Hi|]. rewrite Hf. left.
    destruct n. simpl in *. subst. reflexivity.
Qed.

Theorem walk_terminates : forall r roots, iter_record_ids r roots <> WalkOutOfFuel.
Proof.
  intros r roots. unfold iter_record_ids, walk_fuel. apply walk_terminates_gen.
  - constructor.
  - intros x [].
  - intros n Hn. apply root_nodes_spec in Hn. destruct Hn as [e [_ [Hf _]]].
    unfold universe. apply in_app_iff. left. eapply find_Some_ids. exact Hf.
  - simpl. lia.
Qed.

(** ** kinds: the walk expands an id by the type it was reached as; on a well-typed repository
       that is the type of the record *)
Definition well_kinded (r : repo) (n : node) : Prop :=
  match find r (snd n) with
  | Some e => fst n = kind_of e \/ (fst n = KTask /\ exists v, e = EValue v /\ v_subs v = [])
  | None => True
  end.
(** every foreign key points to a record of the expected table (or to nothing);
    a Task reference points to a value without subvalues *)
Definition well_typed (r : repo) : Prop :=
  forall i e m, In (i, e) r -> In m (children_of r (kind_of e, i)) -> well_kinded r m.

Definition expand (r : repo) (i : id) : list node :=
  match find r i with Some e => children_of r (kind_of e, i) | None => [] end.

Lemma children_of_well_kinded : forall r n e,
  find r (snd n) = Some e -> well_kinded r n -> children_of r n = children_of r (kind_of e, snd n).
Proof.
  intros r [k i] e Hf Hwk. unfold well_kinded in Hwk. simpl in *. rewrite Hf in Hwk.
  destruct Hwk as [Hk|[Hk [v [He Hs]]]].
  - subst. reflexivity.
  - subst. unfold children_of. simpl. unfold own_edges. rewrite Hf. rewrite Hs. reflexivity.
Qed.

Lemma reach_well_kinded : forall r roots n,
  NoDup (ids r) -> well_typed r -> reach r roots n -> well_kinded r n.
Proof.
  intros r roots n Hnd Hwt H. induction H as [n Hn | n m Hr IH Hm].
  - apply root_nodes_spec in Hn. destruct Hn as [e [_ [Hf Hk]]].
    unfold well_kinded. rewrite Hf. left. exact Hk.
  - destruct (find r (snd n)) as [e|] eqn:Hf.
    + rewrite (children_of_well_kinded r n e Hf IH) in Hm.
      apply (Hwt (snd n) e m); [apply find_In; exact Hf | exact Hm].
    + destruct n as [k i]. simpl in Hf. unfold children_of in Hm. simpl in Hm.
      assert (Htag : forall c t, In (c, ETag t) r -> well_kinded r (KTag, c)).
      { intros c t Hin. unfold well_kinded. simpl. rewrite (In_find r c (ETag t) Hnd Hin). left. reflexivity. }
      apply in_app_iff in Hm. destruct Hm as [Hm|Hm].
      * destruct (own_edges_cases r k i) as [[e [Hf' _]]|[Hc|[Hc|Hc]]].
        -- congruence.
        -- rewrite Hc in Hm. apply in_map_iff in Hm. destruct Hm as [c [<- Hin]].
           destruct (child_jobs_spec _ _ _ Hin) as [j Hj].
           unfold well_kinded. simpl. rewrite (In_find r c (EJob j) Hnd Hj). left. reflexivity.
        -- rewrite Hc in Hm. apply in_map_iff in Hm. destruct Hm as [c [<- Hin]].
           apply child_tags_spec in Hin. destruct Hin as [t [Ht _]]. eapply Htag; eauto.
        -- rewrite Hc in Hm. contradiction.
      * apply in_map_iff in Hm. destruct Hm as [c [<- Hin]].
        destruct (entity_tags_spec _ _ _ Hin) as [t Ht]. eapply Htag; eauto.
Qed.

(** ** the three facts about iter_record_ids *)
Theorem walk_sound_closed : forall r roots l,
  NoDup (ids r) -> well_typed r ->
  iter_record_ids r roots = WalkIds l ->
  NoDup l
  /\ (forall i, In i l -> exists k, reach r roots (k, i))
  /\ (forall i, In i roots -> In i (ids r) -> In i l)
  /\ (forall i m, In i l -> In m (expand r i) -> In (snd m) l).
Proof.
  intros r roots l Hnd Hwt H. unfold iter_record_ids in H.
  destruct (walk_closed r roots (walk_fuel r) [] (root_nodes r roots) l) as [P [HP [Hnl [Hreach Hcl]]]].
  - constructor.
  - intros n [].
  - intros n Hn. apply reach_root. exact Hn.
  - intros n m [].
  - exact H.
  - split; [exact Hnl|]. split; [|split].
    + intros i Hi. subst l. apply in_map_iff in Hi. destruct Hi as [[k j] [Hj Hin]]. simpl in Hj. subst j.
      exists k. apply Hreach. exact Hin.
    + (* roots that exist are visited: rerun the first round *)
      intros i Hi Hir. destruct (ids_find r i Hir) as [e He].
      assert (Hroot : In (kind_of e, i) (root_nodes r roots)).
      { apply root_nodes_spec. exists e. simpl. auto. }
      unfold walk_fuel in H. simpl in H.
      destruct (pick_new [] (root_nodes r roots)) as [|x new'] eqn:E.
      * destruct (pick_new_cover (root_nodes r roots) [] _ Hroot) as [C|C]; [destruct C|].
        rewrite E in C. destruct C.
      * destruct (pick_new_cover (root_nodes r roots) [] _ Hroot) as [C|C]; [destruct C|].
        rewrite E in C. simpl in C.
        (* the ids picked in the first round stay in the result *)
        assert (Hmono : forall fuel seen front l', walk fuel r seen front = WalkIds l' -> incl seen l').
        { induction fuel as [|f IHf]; simpl; intros seen front l' Hw; [discriminate|].
          destruct (pick_new seen front); [inversion Hw; apply incl_refl|].
          apply IHf in Hw. intros y Hy. apply Hw. apply in_app_iff. left. exact Hy. }
        apply Hmono in H. apply H. simpl. exact C.
    + intros i m Hi Hm. subst l. apply in_map_iff in Hi. destruct Hi as [[k j] [Hj Hin]]. simpl in Hj. subst j.
      unfold expand in Hm. destruct (find r i) as [e|] eqn:Hf; [|contradiction].
      apply (Hcl (k, i) m Hin).
      rewrite (children_of_well_kinded r (k, i) e Hf); [exact Hm|].
      eapply reach_well_kinded; eauto.
Qed.
