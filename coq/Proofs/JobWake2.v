From Coq Require Import List ZArith Bool Arith Lia Permutation.
From RV Require Import Model.JobMachine Proofs.JobBase Proofs.JobRes Proofs.JobRes2 Proofs.JobRes3
  Proofs.JobLimEq Proofs.JobWake.
Import ListNotations.
Open Scope list_scope.

Section W.
Variable c : config.
Hypothesis Hfix : release_if_holds (vr c) = true.
Hypothesis Hre : recheck_on_skip (vr c) = true.
Hypothesis Hdry : dryrun c = false.
Hypothesis Hlim : forall r, (0 <= limit_of c r)%Z.

Lemma holder_setj s j x y : getj s j = Some x -> jholds y = jholds x -> has_holder (setj s j y) = has_holder s.
Proof. intros Hx Hy. unfold has_holder. simpl. eapply has_holder_set_nth; eauto. Qed.

Lemma exec_ids_enq_nonexec s e : is_exec e = false -> exec_ids (queue (enqueue s e)) = exec_ids (queue s).
Proof. intros H. simpl. rewrite exec_ids_app. destruct e; simpl in *; try discriminate; apply app_nil_r. Qed.

(** a phase change plus an optional non-exec event *)
Lemma wake_phase s j x p : getj s j = Some x -> Wake s -> Wake (setj s j (with_phase x p)).
Proof. intros Hx. apply wake_same; auto. apply (holder_setj s j x); auto. Qed.

Lemma wake_enq s e : is_exec e = false -> Wake s -> Wake (enqueue s e).
Proof. intros He. apply wake_same; auto. rewrite exec_ids_enq_nonexec; auto. Qed.

Lemma wake_frame s s' :
  jobs s' = jobs s -> queue s' = queue s -> waiting s' = waiting s -> Wake s -> Wake s'.
Proof. intros Hj Hq Hw. apply wake_same; auto; [unfold has_holder; now rewrite Hj|now rewrite Hq]. Qed.

Lemma wake_settle_one s j o : Wake s -> Wake (settle_one c s j o).
Proof.
  intros W. unfold settle_one. destruct (getj s j) as [x|] eqn:Hx; auto.
  set (s1 := if jprov x then add_recorded s (jkey x, jctx x) o else s).
  assert (Hx1 : getj s1 j = Some x) by (unfold s1; destruct (jprov x); exact Hx).
  assert (W1 : Wake s1) by (unfold s1; destruct (jprov x); [eapply wake_frame; eauto; reflexivity|exact W]).
  unfold finalize. rewrite (getj_setj_same _ _ _ _ Hx1).
  eapply wake_frame; [| | |apply (wake_phase s1 j x (PSettled o) Hx1 W1)]; reflexivity.
Qed.

Lemma wake_mark_cached s j y v p : getj s j = Some y -> Wake s -> Wake (setj s j (mark_cached y v p)).
Proof. intros Hy. apply wake_same; auto. apply (holder_setj s j y); auto. Qed.

Lemma wake_notify o s sub : Wake s -> Wake (notify_sub c o s sub).
Proof.
  intros W. unfold notify_sub. destruct (getj s sub) as [y|] eqn:Hy; auto. destruct o as [v|e].
  - apply wake_enq; [reflexivity|]. now apply wake_mark_cached.
  - apply wake_settle_one. now apply wake_mark_cached.
Qed.

Lemma wake_settle s j o : Wake s -> Wake (settle c s j o).
Proof.
  intros W. unfold settle. destruct (getj s j); auto.
  generalize (wake_settle_one s j o W).
  generalize (map snd (filter (fun p : nat * nat => Nat.eqb (fst p) j) (subs (settle_one c s j o)))).
  generalize (settle_one c s j o).
  intros s0 l. revert s0. induction l as [|a l IH]; intros s0 W0; simpl; auto. apply IH. now apply wake_notify.
Qed.

Lemma feas_lim_eq s s' : lim_eq s s' -> Feas c s -> Feas c s'.
Proof.
  unfold lim_eq, Feas, getj. intros E F j x Hx.
  assert (H : nth_error (map jlimits (jobs s')) j = Some (jlimits x)) by (rewrite nth_error_map, Hx; reflexivity).
  rewrite E, nth_error_map in H. destruct (nth_error (jobs s) j) as [z|] eqn:Hz; [|discriminate].
  injection H as <-. eapply F; eauto.
Qed.

Lemma wake_maybe_release s j : Inv c s -> Feas c s -> Wake s -> Wake (maybe_release c s j).
Proof.
  intros I F W. unfold maybe_release. destruct (getj s j) as [x|] eqn:Hx; auto.
  rewrite Hfix. destruct (jholds x) eqn:Hh; auto.
  apply wake_check_pending; auto.
  - now apply inv_release.
  - eapply feas_lim_eq; [|exact F].
    eapply lim_eq_trans; [apply (lim_eq_setj s j x (bump_release x) Hx eq_refl)|reflexivity].
Qed.

Lemma blocked_has_holder s l :
  Inv c s -> feasible c l -> within c (used s) l = false -> has_holder s = true.
Proof.
  intros I F Hw. destruct (has_holder s) eqn:Hh; auto. exfalso.
  rewrite (within_ext c (used s) (fun _ => 0%Z)) in Hw; [unfold feasible in F; congruence|].
  intros r. rewrite (i_used _ _ I), held_eq. now apply held_no_holder.
Qed.

Lemma wake_exec_job s i j co :
  nth_error (queue s) i = Some (EvExec j) -> Inv c s -> Feas c s -> Wake (exec_job c (pop_queue s i) j co).
Proof.
  intros Hq I F. destruct (inv_pop_exec c s i j Hq I) as [I0 HF].
  set (s0 := pop_queue s i) in *.
  assert (F0 : Feas c s0) by exact F.
  unfold exec_job. destruct (getj s0 j) as [x|] eqn:Hx.
  2:{ (* no such job: the bound in Inv excludes it *)
      exfalso. assert (j < length (jobs s)).
      { apply (i_bound _ _ I). left. unfold pend. apply in_or_app. left.
        eapply Permutation_in; [apply Permutation_sym, (exec_ids_remove_exec _ _ _ Hq)|now left]. }
      unfold getj in Hx. apply nth_error_None in Hx. simpl in Hx. lia. }
  assert (Fr : Free s0 j x) by (apply HF; exact Hx).
  destruct (if jnocse x then None else lookup_pending s0 (jkey x, jctx x)) as [t|].
  { apply wake_skip; auto.
    - now apply inv_free_sub.
    - eapply feas_lim_eq; [|exact F0].
      eapply lim_eq_trans; [apply (lim_eq_setj s0 j x (with_phase x (PCollapsed t)) Hx eq_refl)|reflexivity]. }
  match goal with |- Wake (match ?h with _ => _ end) => destruct h as [[v|e]|] end.
  - apply wake_skip; auto.
    + apply inv_enqueue_nonexec; [reflexivity|]. now apply inv_free_cached.
    + eapply feas_lim_eq; [|exact F0].
      eapply lim_eq_trans; [apply (lim_eq_setj s0 j x (mark_cached x v PCacheQ) Hx eq_refl)|reflexivity].
  - apply wake_skip; auto.
    + apply inv_enqueue_nonexec; [reflexivity|]. now apply inv_free_cached.
    + eapply feas_lim_eq; [|exact F0].
      eapply lim_eq_trans; [apply (lim_eq_setj s0 j x (mark_cached x None PCacheQ) Hx eq_refl)|reflexivity].
  - rewrite Hdry. destruct (within c (used s0) (jlimits x)) eqn:Hw; cbn [negb].
    + (* consumes: the job itself now holds *)
      destruct (jbadexec x).
      * intros _. left. unfold has_holder. simpl.
        eapply has_holder_set_true; [exact Hx|reflexivity].
      * intros _. left. unfold has_holder. simpl.
        eapply has_holder_set_true; [exact Hx|reflexivity].
    + (* blocked: somebody holds units *)
      intros _. left.
      change (has_holder (set_waiting (setj s0 j (with_phase x PWaiting)) (waiting s0 ++ [j])))
        with (has_holder (setj s0 j (with_phase x PWaiting))).
      rewrite (holder_setj s0 j x (with_phase x PWaiting) Hx eq_refl).
      eapply blocked_has_holder; eauto.
Qed.

Definition feas_op (o : op) : Prop :=
  match o with ONew _ _ l _ _ _ => feasible c l | _ => True end.

Lemma wake_step s o : wf_op o -> Inv c s -> Feas c s -> Wake s -> Wake (step c s o).
Proof.
  intros Hwf I F W. destruct o as [key ctx l nocse prov bad|k j0 co|j ok e|j o].
  - cbn [step]. intros _. right. simpl. rewrite exec_ids_app. simpl.
    intros E. apply app_eq_nil in E. destruct E as [_ E]. discriminate.
  - cbn [step]. set (i := find_event (queue s) k j0 0).
    destruct (nth_error (queue s) i) as [[j|j|j e|j v]|] eqn:Hq; auto.
    + now apply wake_exec_job.
    + assert (I0 : Inv c (pop_queue s i)) by (eapply inv_pop_nonexec; eauto).
      assert (W0 : Wake (pop_queue s i)).
      { eapply wake_same; [| | |exact W]; try reflexivity. simpl.
        rewrite (exec_ids_remove_nonexec _ _ _ Hq); auto. }
      unfold done_job. pose proof (wake_maybe_release _ j I0 F W0) as W1.
      destruct (getj (maybe_release c (pop_queue s i) j) j) as [x|] eqn:Hx; auto.
      destruct (jpreset x).
      * apply wake_enq; [reflexivity|]. now apply wake_phase.
      * now apply wake_phase.
    + assert (I0 : Inv c (pop_queue s i)) by (eapply inv_pop_nonexec; eauto).
      assert (W0 : Wake (pop_queue s i)).
      { eapply wake_same; [| | |exact W]; try reflexivity. simpl.
        rewrite (exec_ids_remove_nonexec _ _ _ Hq); auto. }
      unfold reject_job. apply wake_settle. now apply wake_maybe_release.
    + assert (W0 : Wake (pop_queue s i)).
      { eapply wake_same; [| | |exact W]; try reflexivity. simpl.
        rewrite (exec_ids_remove_nonexec _ _ _ Hq); auto. }
      unfold resolve_job. now apply wake_settle.
  - cbn [step]. destruct (phase_is s j _); auto. destruct (getj s j) as [x|] eqn:Hx; auto.
    apply wake_enq; [now destruct ok|]. now apply wake_phase.
  - cbn [step]. destruct (phase_is s j _); auto. destruct (getj s j) as [x|] eqn:Hx; auto.
    apply wake_enq; [now destruct o|]. now apply wake_phase.
Qed.

Theorem wake_run ops :
  Forall wf_op ops -> Forall feas_op ops -> Wake (run c ops) /\ Inv c (run c ops) /\ Feas c (run c ops).
Proof.
  unfold run. intros H1 H2. rewrite <- fold_left_rev_right.
  apply Forall_rev in H1. apply Forall_rev in H2.
  induction (rev ops) as [|o l IH]; simpl.
  - split; [|split].
    + intros H. now contradiction H.
    + now apply inv_init.
    + intros j x Hx. destruct j; discriminate.
  - inversion H1 as [|? ? Hw1 Hw2]; subst. inversion H2 as [|? ? Hf1 Hf2]; subst. destruct (IH Hw2 Hf2) as (W & I & F).
    split; [|split].
    + now apply wake_step.
    + now apply inv_step.
    + unfold Feas, getj. intros j x Hx.
      assert (Hall : Forall (feasible c) (map jlimits (jobs (step c (fold_right (fun y x0 => step c x0 y) init l) o)))).
      { apply step_limits_P.
        - apply Forall_forall. intros lim Hin. apply in_map_iff in Hin. destruct Hin as (z & <- & Hz).
          apply In_nth_error in Hz. destruct Hz as (n & Hn). eapply F; eauto.
        - destruct o; simpl; auto. }
      rewrite Forall_forall in Hall. apply Hall. apply in_map. eapply nth_error_In; eauto.
Qed.
End W.
