(** get_config_dict followed by Config(config_dict=...) : the general round-trip lemma. *)
From Coq Require Import List Ascii Bool Arith Lia Permutation.
From RV Require Import Model.Config Proofs.ConfigFacts Proofs.ConfigTree.
Import ListNotations.
Open Scope list_scope.

(** Representation invariant of a ConfigParser: dict keys are unique, DEFAULT is not a section. *)
Definition wf_parser (p : parser) : Prop :=
  NoDup (map fst (p_sections p)) /\ ~ In DEFAULT (map fst (p_sections p)) /\
  NoDup (map fst (p_defaults p)) /\ Forall (fun so => NoDup (map fst (snd so))) (p_sections p).

Definition std (cfg : config_cfg) : Prop :=
  join_guard cfg = true /\ case_sensitive cfg = true /\ subst_guarded cfg = true.

Lemma NoDup_app_intro {A} (a b : list A) :
  NoDup a -> NoDup b -> (forall x, In x a -> ~ In x b) -> NoDup (a ++ b).
Proof.
  induction a as [|x a IH]; simpl; auto. intros Ha Hb H. inversion Ha; subst. constructor.
  - intros X. apply in_app_or in X. destruct X; [contradiction|]. apply (H x); auto.
  - apply IH; auto.
Qed.

Lemma options_nodup p s : wf_parser p -> NoDup (options p s).
Proof.
  intros (_ & _ & Hd & Hs). unfold options. destruct (dget s (p_sections p)) as [opts|] eqn:E; [|constructor].
  apply dget_some_in in E. rewrite Forall_forall in Hs. specialize (Hs _ E). simpl in Hs.
  apply NoDup_app_intro; auto.
  - apply NoDup_filter. auto.
  - intros x Hx Hf. apply filter_In in Hf. destruct Hf as [_ Hf]. unfold dhas in Hf.
    destruct (dget x opts) eqn:Eg; [discriminate|]. apply dget_none_notin in Eg. contradiction.
Qed.

Lemma raw_get_not_option p s opts k :
  dget s (p_sections p) = Some opts -> ~ In k (options p s) -> raw_get p s k = None.
Proof.
  intros E H. unfold options in H. unfold raw_get. rewrite E in *.
  assert (H1 : ~ In k (map fst opts)) by (intros X; apply H; apply in_or_app; auto).
  rewrite (dget_notin _ _ H1). apply dget_notin. intros X. apply H. apply in_or_app. right.
  apply filter_In. split; auto. unfold dhas. rewrite (dget_notin _ _ H1). reflexivity.
Qed.

(** * What get_config_dict returns *)
Lemma section_items_fst cfg env p s f ks items :
  section_items cfg env p s f ks = Ok items -> map fst items = ks.
Proof.
  revert items. induction ks as [|k r IH]; simpl; intros items H.
  - injection H as <-. reflexivity.
  - destruct (get_value cfg env p s k); simpl in H; [|discriminate].
    destruct (section_items cfg env p s f r); simpl in H; [|discriminate].
    injection H as <-. simpl. f_equal. auto.
Qed.

Lemma section_items_in cfg env p s f ks items k :
  section_items cfg env p s f ks = Ok items -> In k ks ->
  exists v, get_value cfg env p s k = Ok v /\ In (k, f v) items.
Proof.
  revert items. induction ks as [|k0 r IH]; simpl; intros items H Hin; [contradiction|].
  destruct (get_value cfg env p s k0) as [v0|] eqn:E0; simpl in H; [|discriminate].
  destruct (section_items cfg env p s f r) as [it|]; simpl in H; [|discriminate].
  injection H as <-. destruct Hin as [->|Hin].
  - exists v0. simpl. auto.
  - destruct (IH it eq_refl Hin) as (v & Hv & Hi). exists v. simpl. auto.
Qed.

Lemma section_items_vals cfg env p s f ks items k e :
  section_items cfg env p s f ks = Ok items -> In (k, e) items ->
  exists v, get_value cfg env p s k = Ok v /\ e = f v.
Proof.
  revert items. induction ks as [|k0 r IH]; simpl; intros items H Hin.
  - injection H as <-. contradiction.
  - destruct (get_value cfg env p s k0) as [v0|] eqn:E0; simpl in H; [|discriminate].
    destruct (section_items cfg env p s f r) as [it|]; simpl in H; [|discriminate].
    injection H as <-. destruct Hin as [X|Hin].
    + inversion X; subst. eauto.
    + eapply IH; eauto.
Qed.

Lemma fill_spec cfg env p f : forall leaves result d,
  fill cfg env p f leaves result = Ok d -> NoDup (map fst result ++ map fst leaves) ->
  exists its, d = result ++ its /\ map fst its = map fst leaves /\
    forall s items, In (s, items) its ->
      exists full, In (s, full) leaves /\ section_items cfg env p full f (options p full) = Ok items.
Proof.
  induction leaves as [|[path full] r IH]; intros result d H ND.
  - simpl in H. injection H as <-. exists []. rewrite app_nil_r. simpl. split; auto. split; auto. intros ? ? [].
  - cbn [fill] in H. destruct (section_items cfg env p full f (options p full)) as [items|] eqn:E; simpl in H; [|discriminate].
    assert (Hn : ~ In path (map fst result)).
    { simpl in ND. apply NoDup_remove_2 in ND. intros X. apply ND. apply in_or_app. auto. }
    rewrite dset_notin in H by auto.
    destruct (IH _ _ H) as (its & -> & Hf & Hi).
    { rewrite map_app. simpl. rewrite <- app_assoc. exact ND. }
    exists ((path, items) :: its). rewrite <- app_assoc. split; auto. split; [simpl; f_equal; auto|].
    intros s it [X|X].
    + inversion X; subst. exists full. split; simpl; auto.
    + destruct (Hi _ _ X) as (fl & H1 & H2). exists fl. split; simpl; auto.
Qed.

(** * read_dict on a fresh parser stores the dictionary as it is *)
Lemma set_options_fresh dfl acc s : forall kvs cur,
  s <> [] -> s <> DEFAULT -> ~ In s (map fst acc) ->
  NoDup (map fst cur ++ map fst kvs) -> Forall (fun kv => before_set_ok (snd kv) = true) kvs ->
  set_options {| p_defaults := dfl; p_sections := acc ++ [(s, cur)] |} s kvs
  = Ok {| p_defaults := dfl; p_sections := acc ++ [(s, cur ++ kvs)] |}.
Proof.
  induction kvs as [|[k v] r IH]; intros cur Hs1 Hs2 Hacc ND Hok.
  - simpl. rewrite app_nil_r. reflexivity.
  - inversion Hok; subst. simpl in H1. cbn [set_options]. unfold set_option. rewrite H1. cbn [negb].
    destruct s as [|c s']; [contradiction|]. cbn [is_nil orb].
    rewrite (str_eqb_neq _ _ Hs2). cbn [p_sections p_defaults].
    rewrite dget_app_last by auto. cbn [bind].
    assert (Hk : ~ In k (map fst cur)).
    { simpl in ND. apply NoDup_remove_2 in ND. intros X. apply ND. apply in_or_app. auto. }
    rewrite dset_app_last by auto. rewrite (dset_notin k v cur Hk).
    rewrite IH; auto.
    + rewrite <- app_assoc. reflexivity.
    + rewrite map_app. simpl. rewrite <- app_assoc. exact ND.
Qed.

Lemma read_dict_fresh dfl : forall d acc,
  NoDup (map fst acc ++ map fst d) ->
  (forall s kvs, In (s, kvs) d -> s <> [] /\ s <> DEFAULT /\ NoDup (map fst kvs) /\
                                 Forall (fun kv => before_set_ok (snd kv) = true) kvs) ->
  read_dict d {| p_defaults := dfl; p_sections := acc |} = Ok {| p_defaults := dfl; p_sections := acc ++ d |}.
Proof.
  induction d as [|[s kvs] r IH]; intros acc ND H.
  - simpl. rewrite app_nil_r. reflexivity.
  - destruct (H s kvs) as (H1 & H2 & H3 & H4); [left; auto|].
    assert (Hn : ~ In s (map fst acc)).
    { simpl in ND. apply NoDup_remove_2 in ND. intros X. apply ND. apply in_or_app. auto. }
    cbn [read_dict]. unfold add_section. cbn [p_sections p_defaults].
    rewrite (str_eqb_neq _ _ H2). unfold dhas. rewrite (dget_notin _ _ Hn). cbn [orb].
    assert (X := set_options_fresh dfl acc s kvs [] H1 H2 Hn H3 H4). cbn [app] in X.
    match goal with |- bind ?a ?f = _ =>
      assert (Y : a = Ok {| p_defaults := dfl; p_sections := acc ++ [(s, kvs)] |}) by exact X; rewrite Y end.
    cbn [bind].
    rewrite IH.
    + rewrite <- app_assoc. reflexivity.
    + rewrite map_app. simpl. rewrite <- app_assoc. exact ND.
    + intros. apply H. right. auto.
Qed.

(** * The round trip *)
Theorem roundtrip_gen cfg env env2 local repl p t d :
  std cfg -> wf_parser p -> guard cfg (map fst (p_sections p)) ->
  parse_sections cfg p = Ok t ->
  get_config_dict cfg env p t local repl = Ok d ->
  (forall s k v, get_value cfg env p s k = Ok v ->
                 literal (encode cfg (subst local repl v)) (subst local repl v)) ->
  exists p2,
    read_dict d empty_parser = Ok p2 /\
    parse_sections cfg p2 = Ok t /\
    Permutation (map fst (p_sections p2)) (map fst (p_sections p)) /\
    p_defaults p2 = [] /\
    (forall s, In s (map fst (p_sections p)) -> options p2 s = options p s) /\
    (forall s k, get_value cfg env2 p2 s k = rmap (subst local repl) (get_value cfg env p s k)).
Proof.
  intros (Hj & Hc & Hsg) Hwf Hg Hparse Hgcd Hlit.
  pose proof Hwf as (NDs & HnoD & NDd & NDo).
  destruct (parse_guarded cfg _ Hj Hg) as (t0 & names' & E0 & Pn & Hwalk & Hre).
  unfold parse_sections in Hparse. rewrite E0 in Hparse. injection Hparse as ->.
  unfold get_config_dict in Hgcd. rewrite Hsg in Hgcd. cbn [negb] in Hgcd. rewrite Hwalk in Hgcd.
  assert (NDn : NoDup names') by (eapply Permutation_NoDup; [apply Permutation_sym|]; eauto).
  destruct (fill_spec _ _ _ _ _ _ _ Hgcd) as (its & -> & Hfst & Hits).
  { simpl. rewrite map_map. simpl. rewrite map_id. exact NDn. }
  cbn [app] in *. rewrite map_map in Hfst. simpl in Hfst. rewrite map_id in Hfst.
  assert (Hits' : forall s items, In (s, items) its ->
            In s names' /\ section_items cfg env p s (emit cfg local repl) (options p s) = Ok items).
  { intros s items Hin. destruct (Hits _ _ Hin) as (full & Hf & Hs).
    apply in_map_iff in Hf. destruct Hf as (n & Hn & Hn'). inversion Hn; subst. auto. }
  assert (Hin_names : forall s, In s names' <-> In s (map fst (p_sections p))).
  { intros s. split; apply Permutation_in; [|apply Permutation_sym]; auto. }
  exists {| p_defaults := []; p_sections := its |}.
  assert (Hrd : read_dict its empty_parser = Ok {| p_defaults := []; p_sections := its |}).
  { unfold empty_parser. apply (read_dict_fresh [] its []).
    - cbn [map app]. change (NoDup (map fst its)). rewrite Hfst. exact NDn.
    - intros s kvs Hin. destruct (Hits' _ _ Hin) as (Hs & Hsec).
      apply Hin_names in Hs. split; [|split; [|split]].
      + destruct Hg as (Hok & _). specialize (Hok _ Hs). intros ->. discriminate.
      + intros ->. contradiction.
      + rewrite (section_items_fst _ _ _ _ _ _ _ Hsec). apply options_nodup; auto.
      + apply Forall_forall. intros [k e] Hke.
        destruct (section_items_vals _ _ _ _ _ _ _ _ _ Hsec Hke) as (v & Hv & ->).
        simpl. apply (Hlit _ _ _ Hv). }
  split; [exact Hrd|]. split.
  { unfold parse_sections. cbn [p_sections]. rewrite Hfst. exact Hre. }
  split. { cbn [p_sections]. rewrite Hfst. exact Pn. }
  split; [reflexivity|].
  assert (NDits : NoDup (map fst its)) by (rewrite Hfst; exact NDn).
  assert (Hget : forall s, In s (map fst (p_sections p)) ->
            exists items, dget s its = Some items /\
              section_items cfg env p s (emit cfg local repl) (options p s) = Ok items).
  { intros s Hs. apply Hin_names in Hs. rewrite <- Hfst in Hs. apply in_map_iff in Hs.
    destruct Hs as ([s' items] & Hs' & Hin). simpl in Hs'. subst s'.
    exists items. split; [apply dget_in_nodup; auto|]. apply (Hits' _ _ Hin). }
  split.
  - intros s Hs. destruct (Hget s Hs) as (items & Hd & Hsec).
    unfold options at 1. cbn [p_sections p_defaults]. rewrite Hd. simpl. rewrite app_nil_r.
    apply (section_items_fst _ _ _ _ _ _ _ Hsec).
  - intros s k.
    destruct (dget s (p_sections p)) as [opts|] eqn:Es.
    + assert (Hs : In s (map fst (p_sections p))).
      { apply dget_some_in in Es. apply in_map_iff. exists (s, opts). auto. }
      destruct (Hget s Hs) as (items & Hd & Hsec).
      assert (NDi : NoDup (map fst items)).
      { rewrite (section_items_fst _ _ _ _ _ _ _ Hsec). apply options_nodup; auto. }
      destruct (in_dec str_eq_dec k (options p s)) as [Hk|Hk].
      * destruct (section_items_in _ _ _ _ _ _ _ _ Hsec Hk) as (v & Hv & Hin).
        rewrite Hv. cbn [rmap].
        unfold get_value. rewrite Hc. cbn [negb p_sections]. rewrite Hd.
        unfold raw_get. cbn [p_sections p_defaults]. rewrite Hd. rewrite (dget_in_nodup _ _ _ NDi Hin).
        unfold MAX_DEPTH. apply interp_literal. unfold emit. apply (proj2 (Hlit s k v Hv)).
      * assert (R1 : get_value cfg env p s k = Err KeyErr).
        { unfold get_value. rewrite Hc, Es. cbn [negb]. rewrite (raw_get_not_option _ _ _ _ Es Hk). reflexivity. }
        rewrite R1. cbn [rmap]. unfold get_value. rewrite Hc. cbn [negb p_sections]. rewrite Hd.
        unfold raw_get. cbn [p_sections p_defaults]. rewrite Hd.
        rewrite dget_notin; [reflexivity|]. rewrite (section_items_fst _ _ _ _ _ _ _ Hsec). exact Hk.
    + assert (R1 : get_value cfg env p s k = Err KeyErr).
      { unfold get_value. rewrite Hc, Es. reflexivity. }
      rewrite R1. cbn [rmap]. unfold get_value. rewrite Hc. cbn [negb p_sections].
      rewrite dget_notin; [reflexivity|]. rewrite Hfst. intros X. apply Hin_names in X.
      apply dget_none_notin in Es. contradiction.
Qed.

(** * The dictionary is the dictionary of effective values with [emit] applied to every value *)
Definition map_kv (f : str -> str) (kvs : list (str * str)) : list (str * str) :=
  map (fun kv => (fst kv, f (snd kv))) kvs.
Definition map_vals (f : str -> str) (d : list (str * list (str * str))) : list (str * list (str * str)) :=
  map (fun sk => (fst sk, map_kv f (snd sk))) d.

Lemma section_items_map cfg env p s f ks :
  section_items cfg env p s f ks = rmap (map_kv f) (section_items cfg env p s (fun v => v) ks).
Proof.
  induction ks as [|k r IH]; simpl; auto.
  destruct (get_value cfg env p s k); simpl; auto. rewrite IH.
  destruct (section_items cfg env p s (fun v => v) r); simpl; auto.
Qed.

Lemma dset_map_vals f path items result :
  dset path (map_kv f items) (map_vals f result) = map_vals f (dset path items result).
Proof.
  induction result as [|[k v] r IH]; simpl; auto.
  destruct (str_eqb path k); simpl; auto. f_equal. auto.
Qed.

Lemma fill_map cfg env p f : forall leaves result,
  fill cfg env p f leaves (map_vals f result) = rmap (map_vals f) (fill cfg env p (fun v => v) leaves result).
Proof.
  induction leaves as [|[path full] r IH]; intros result; simpl; auto.
  rewrite section_items_map.
  destruct (section_items cfg env p full (fun v => v) (options p full)) as [items|]; simpl; auto.
  rewrite dset_map_vals. apply IH.
Qed.

(** [get_config_dict] with every value left as the effective (interpolated) value. *)
Definition effective_dict (cfg : config_cfg) (env : list (str * str)) (p : parser) (t : list (str * tree))
  : res (list (str * list (str * str))) :=
  if negb (subst_guarded cfg) then Err Unsupported else
  fill cfg env p (fun v => v) (walk cfg [] (Node t)) [].

Theorem get_config_dict_factors cfg env p t local repl :
  get_config_dict cfg env p t local repl = rmap (map_vals (emit cfg local repl)) (effective_dict cfg env p t).
Proof.
  unfold get_config_dict, effective_dict. destruct (subst_guarded cfg); simpl; auto.
  apply (fill_map cfg env p (emit cfg local repl) _ []).
Qed.

Lemma emit_not_containing cfg local r v :
  contains local v = false -> emit cfg local (Some r) v = emit cfg local None v /\ subst local (Some r) v = v.
Proof. intros H. unfold emit, subst. rewrite replace_not_contains by auto. auto. Qed.
