(** C29 — the main lemmas (stated again, closed by [exact], in Props/C29.v). *)
From Coq Require Import String List NArith ZArith Ascii Bool Arith Lia.
From RV Require Import Base.Decimal Base.DecimalFacts Model.Script Proofs.ScriptFacts.
Import ListNotations.
Open Scope list_scope.

(* ------------------------------------------------------------------ *)
(** * get_command_eof / get_wrapped_command *)

Lemma eof_fresh_terminates command prefix :
  exists k, get_command_eof command prefix = EofIs (eof_cand prefix k) /\
            ~ In (eof_cand prefix k) (split_nl command) /\
            (forall j, j < k -> In (eof_cand prefix j) (split_nl command)) /\
            k <= List.length (split_nl command).
Proof. apply get_command_eof_spec. Qed.

Lemma heredoc_exact_prefix command prefix :
  ~ In 34%N prefix -> ~ In NL prefix ->
  exists e w, get_command_eof command prefix = EofIs e /\
              get_wrapped_command command prefix = Wrapped w /\
              w = render_template shipped_template command e /\
              sh_read w = ShOk (wrapper_items e (command ++ [NL])) /\
              heredoc_body w = Some (command ++ [NL]).
Proof.
  intros Hq Hn. destruct (get_command_eof_spec command prefix) as [k [E [Hf _]]].
  exists (eof_cand prefix k), (render_template shipped_template command (eof_cand prefix k)).
  assert (R : sh_read (render_template shipped_template command (eof_cand prefix k))
              = ShOk (wrapper_items (eof_cand prefix k) (command ++ [NL]))).
  { apply wrapper_read; [assumption| |]; apply eof_cand_chars; auto. }
  repeat split; auto.
  - unfold get_wrapped_command. now rewrite E.
  - unfold heredoc_body. rewrite R. reflexivity.
Qed.

Lemma eof_prefix0_clean : ~ In 34%N eof_prefix0 /\ ~ In NL eof_prefix0.
Proof. split; vm_compute; intuition discriminate. Qed.

Lemma heredoc_exact command :
  exists e w, get_command_eof command eof_prefix0 = EofIs e /\
              get_wrapped_command command eof_prefix0 = Wrapped w /\
              w = render_template shipped_template command e /\
              sh_read w = ShOk (wrapper_items e (command ++ [NL])) /\
              heredoc_body w = Some (command ++ [NL]).
Proof. destruct eof_prefix0_clean. now apply heredoc_exact_prefix. Qed.

(** Why freshness is needed: with a delimiter that *is* a line of the command, the shell model
    cuts the file short (so the theorem above is not true "for free"). *)
Lemma heredoc_collision_cuts :
  heredoc_body (render_template shipped_template (lit "a" ++ [NL] ++ lit "EOF" ++ [NL] ++ lit "b") (lit "EOF"))
  = Some (lit "a" ++ [NL]).
Proof. vm_compute. reflexivity. Qed.

(* ------------------------------------------------------------------ *)
(** * prepare_command *)

Lemma default_shell_rstrip : rstrip_chars [NL] default_shell = default_shell.
Proof. vm_compute. reflexivity. Qed.

Lemma default_shell_lines :
  split_nl default_shell = [lit "#!/usr/bin/env bash"; lit "set -exo pipefail"].
Proof. vm_compute. reflexivity. Qed.

Section Prepare.
  Variable dedent : str -> str.

  Lemma shell_choice command :
    let d := strip (dedent command) in
    (starts_with shebang d = true -> prepare_command dedent command = d) /\
    (starts_with shebang d = false -> prepare_command dedent command = default_shell ++ [NL] ++ d) /\
    starts_with shebang (prepare_command dedent command) = true.
  Proof.
    intros d. unfold prepare_command, prepare_command_with. fold d.
    rewrite default_shell_rstrip.
    destruct (starts_with shebang d) eqn:E; repeat split; auto; try discriminate.
  Qed.

  Lemma interpreter_line command :
    let d := strip (dedent command) in
    hd [] (split_nl (prepare_command dedent command)) =
    if starts_with shebang d then hd [] (split_nl d) else lit "#!/usr/bin/env bash".
  Proof.
    intros d. destruct (shell_choice command) as [H1 [H2 _]]. fold d in H1, H2.
    destruct (starts_with shebang d).
    - now rewrite H1.
    - rewrite H2 by reflexivity. change (default_shell ++ [NL] ++ d) with (default_shell ++ NL :: d).
      rewrite split_nl_app_nl, default_shell_lines. reflexivity.
  Qed.

  (** the text that is run is the dedented text minus surrounding white space only *)
  Lemma strip_only_whitespace command :
    exists a b, dedent command = a ++ strip (dedent command) ++ b /\
                Forall (fun c => is_space c = true) a /\ Forall (fun c => is_space c = true) b.
  Proof. apply strip_spec. Qed.

  (* ---------------------------------------------------------------- *)
  (** * script() *)

  Definition outs_of (outputs : option nv) : nv :=
    match outputs with Some o => o | None => Leaf (LFile stdout_path) end.

  Definition script_parts_spec (command : str) (inputs : nv) (outputs : option nv) (tp : option str) (w : str) :=
    cd_parts tp ++ map stage_part (iter_nested_value inputs) ++ [PUser w]
    ++ map unstage_part (filter is_staging (iter_nested_value (map_nv preprocess_output (outs_of outputs)))).

  Lemma forallb_rev {A} (f : A -> bool) l : forallb f (rev l) = forallb f l.
  Proof.
    induction l; simpl; [reflexivity|]. rewrite forallb_app, IHl. simpl. rewrite andb_true_r. apply andb_comm.
  Qed.

  Lemma script_rejects command inputs outputs tp :
    script dedent command inputs outputs tp = ScriptAttributeError <->
    forallb is_staging (leaves_lr inputs) = false.
  Proof.
    unfold script. destruct (forallb is_staging (leaves_lr inputs)) eqn:E.
    - rewrite stage_inputs_some by (unfold iter_nested_value; now rewrite forallb_rev).
      destruct (heredoc_exact (prepare_command dedent command)) as [e [w [_ [-> _]]]].
      split; discriminate.
    - rewrite stage_inputs_none by (unfold iter_nested_value; now rewrite forallb_rev).
      split; reflexivity.
  Qed.

  Lemma script_ok command inputs outputs tp :
    forallb is_staging (leaves_lr inputs) = true ->
    exists w,
      get_wrapped_command (prepare_command dedent command) eof_prefix0 = Wrapped w /\
      heredoc_body w = Some (prepare_command dedent command ++ [NL]) /\
      script dedent command inputs outputs tp =
        ScriptOk (join_nl (map render_part (script_parts_spec command inputs outputs tp w)))
                 (script_parts_spec command inputs outputs tp w)
                 (map_ov input_arg_leaf inputs)
                 (map_nv preprocess_output (outs_of outputs)).
  Proof.
    intros E. destruct (heredoc_exact (prepare_command dedent command)) as [e [w [_ [Hw [_ [_ Hb]]]]]].
    exists w. repeat split; auto.
    unfold script. rewrite stage_inputs_some by (unfold iter_nested_value; now rewrite forallb_rev).
    rewrite Hw. unfold script_parts_spec, outs_of. now rewrite unstage_outputs_eq.
  Qed.

  Lemma script_never_out_of_fuel command inputs outputs tp :
    script dedent command inputs outputs tp <> ScriptOutOfFuel.
  Proof.
    destruct (forallb is_staging (leaves_lr inputs)) eqn:E.
    - destruct (script_ok command inputs outputs tp E) as [w [_ [_ ->]]]. discriminate.
    - apply (script_rejects command inputs outputs tp) in E. rewrite E. discriminate.
  Qed.

  (** ordering inside the list of parts *)
  Definition before {A} (x y : A) (l : list A) := exists a b c, l = a ++ x :: b ++ y :: c.

  Lemma staging_order command inputs outputs tp w :
    let parts := script_parts_spec command inputs outputs tp w in
    (forall k lo re, In (LStaging k lo re) (leaves_lr inputs) ->
       before (render_stage k lo re) (PUser w) parts) /\
    (forall k lo re, In (LStaging k lo re) (leaves_lr (map_nv preprocess_output (outs_of outputs))) ->
       before (PUser w) (render_unstage k lo re) parts) /\
    filter is_user parts = [PUser w].
  Proof.
    intros parts. subst parts. unfold script_parts_spec, iter_nested_value. repeat split.
    - intros k lo re Hin. apply in_rev in Hin. apply in_split in Hin. destruct Hin as [l1 [l2 E]].
      rewrite E, map_app. simpl map. unfold before.
      exists (cd_parts tp ++ map stage_part l1), (map stage_part l2),
             (map unstage_part (filter is_staging (rev (leaves_lr (map_nv preprocess_output (outs_of outputs)))))).
      now rewrite <- !app_assoc.
    - intros k lo re Hin. apply in_rev in Hin.
      assert (Hin' : In (LStaging k lo re) (filter is_staging (rev (leaves_lr (map_nv preprocess_output (outs_of outputs)))))).
      { apply filter_In. split; [assumption|reflexivity]. }
      apply in_split in Hin'. destruct Hin' as [l1 [l2 E]].
      rewrite E, map_app. simpl map. unfold before.
      exists (cd_parts tp ++ map stage_part (rev (leaves_lr inputs))), (map unstage_part l1), (map unstage_part l2).
      now rewrite <- !app_assoc.
    - rewrite !filter_app. simpl.
      assert (F1 : filter is_user (cd_parts tp) = []) by (destruct tp; reflexivity).
      assert (F2 : forall ls, filter is_user (map stage_part ls) = []).
      { induction ls as [|l ls IH]; simpl; [reflexivity|]. now rewrite stage_part_not_user. }
      assert (F3 : forall ls, filter is_user (map unstage_part ls) = []).
      { induction ls as [|l ls IH]; simpl; [reflexivity|]. now rewrite unstage_part_not_user. }
      now rewrite F1, F2, F3.
  Qed.

  (** the same at the level of the command text: whole lines before / after the wrapper *)
  Lemma full_command_text command inputs outputs tp w :
    join_nl (map render_part (script_parts_spec command inputs outputs tp w)) =
    body_of (map render_part (cd_parts tp ++ map stage_part (iter_nested_value inputs)))
    ++ w
    ++ concat (map (fun l => NL :: l)
         (map render_part (map unstage_part (filter is_staging
            (iter_nested_value (map_nv preprocess_output (outs_of outputs))))))).
  Proof.
    unfold script_parts_spec. rewrite app_assoc, map_app. simpl map. apply join_nl_split.
  Qed.
End Prepare.

(** direction of the copies *)
Lemma stage_direction k lo re : lo <> re -> render_stage k lo re = PCopy k re lo.
Proof. intros H. unfold render_stage. apply str_eqb_neq in H. now rewrite H. Qed.
Lemma unstage_direction k lo re : lo <> re -> render_unstage k lo re = PCopy k lo re.
Proof. intros H. unfold render_unstage. apply str_eqb_neq in H. now rewrite H. Qed.
Lemma stage_same_path k p : render_stage k p p = PSkip /\ render_unstage k p p = PSkip.
Proof. unfold render_stage, render_unstage. now rewrite str_eqb_refl. Qed.

(* ------------------------------------------------------------------ *)
(** * the returned value *)

(** what the caller gets for one leaf of the [outputs] it passed to script() *)
Definition final_leaf (l : leaf) : oleaf :=
  match l with
  | LFile p => if is_stdout p then OResult else ORemote KFile p
  | LStaging k _ re => ORemote k re
  | other => OSame other
  end.

Lemma post_pre_leaf l : post_leaf (preprocess_output l) = final_leaf l.
Proof.
  destruct l; simpl; try reflexivity.
  destruct (is_stdout path) eqn:E; simpl; [now rewrite E|reflexivity].
Qed.

Lemma output_shape outputs :
  let r := postprocess_script (map_nv preprocess_output outputs) in
  shape_ov r = shape_nv outputs /\ oleaves_lr r = map final_leaf (leaves_lr outputs).
Proof.
  simpl. unfold postprocess_script. split.
  - now rewrite shape_map_ov, shape_map_nv.
  - rewrite leaves_map_ov, leaves_map_nv, map_map. apply map_ext. apply post_pre_leaf.
Qed.

Lemma input_args_shape inputs :
  shape_ov (map_ov input_arg_leaf inputs) = shape_nv inputs /\
  oleaves_lr (map_ov input_arg_leaf inputs) = map input_arg_leaf (leaves_lr inputs).
Proof. split; [apply shape_map_ov|apply leaves_map_ov]. Qed.
