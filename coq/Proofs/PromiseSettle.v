(** Settle-once: a settled promise never changes again, and its state is the outcome of the
    first do_resolve/do_reject ever called on it. *)
From Coq Require Import List ZArith Bool Arith Lia.
From RV Require Import Model.Promise Proofs.PromiseBase.
Import ListNotations.
Open Scope list_scope.

Definition FT (s : state) := forall t, state_of s t = first_try t (log s).
Definition mono (s s' : state) := forall t, state_of s t <> Pending -> state_of s' t = state_of s t.
Definition ok (s s' : state) := mono s s' /\ (FT s -> FT s') /\ exists l, log s' = l ++ log s.

Lemma first_try_app_settled : forall t l l', first_try t l <> Pending -> first_try t (l' ++ l) = first_try t l.
Proof.
  induction l'; simpl; intros; auto. destruct a; auto. rewrite IHl'; auto. destruct (first_try t l); congruence.
Qed.

Section Settle.
Variable c : cfg.
Hypothesis Hguard : guard_settled c = true.

Lemma ok_refl : forall s, ok s s.
Proof. intros. repeat split; auto. exists []. reflexivity. Qed.

Lemma ok_trans : forall a b d, ok a b -> ok b d -> ok a d.
Proof.
  intros a b d (M1 & F1 & l1 & L1) (M2 & F2 & l2 & L2). repeat split; auto.
  - intros t H. rewrite M2; auto. rewrite M1; auto.
  - exists (l2 ++ l1). rewrite L2, L1, app_assoc. reflexivity.
Qed.

Lemma ok_same : forall s s', heap s' = heap s -> log s' = log s -> ok s s'.
Proof.
  intros s s' H L. unfold ok, mono, FT, state_of. rewrite H, L. repeat split; auto. exists []. reflexivity.
Qed.

Lemma ok_emit : forall s e, match e with EvTry _ _ => False | _ => True end -> ok s (emit e s).
Proof.
  intros s e He. unfold ok, mono, FT, state_of. simpl. repeat split; auto.
  - intros F t. rewrite F. destruct e; auto. destruct He.
  - exists [e]. reflexivity.
Qed.

Lemma state_of_upd_keep : forall s p f t, (forall pr, st (f pr) = st pr) ->
  state_of (set_heap (upd p f (heap s)) s) t = state_of s t.
Proof.
  intros. unfold state_of. simpl. destruct (Nat.eq_dec p t) as [->|N].
  - destruct (nth_error (heap s) t) eqn:E.
    + rewrite (nth_error_upd_same _ _ _ _ _ E); auto.
    + rewrite nth_error_upd_none; auto.
  - rewrite nth_error_upd_other; auto.
Qed.

Lemma ok_upd_keep : forall s p f, (forall pr, st (f pr) = st pr) -> ok s (set_heap (upd p f (heap s)) s).
Proof.
  intros s p f Hf. unfold ok, mono, FT. repeat split.
  - intros. apply state_of_upd_keep; auto.
  - intros F t. rewrite state_of_upd_keep; auto.
  - exists []. reflexivity.
Qed.

Lemma ok_notify_aux : forall s p b f, ok s (push f (set_heap (upd p (clear_lists b) (heap s)) s)).
Proof.
  intros. eapply ok_trans; [apply (ok_upd_keep s p (clear_lists b)); reflexivity|apply ok_same; reflexivity].
Qed.

Lemma ok_notify : forall p s, ok s (notify c p s).
Proof.
  intros p s. unfold notify. destruct (nth_error (heap s) p); [|apply ok_refl].
  destruct (take_cbs p0) as [[[i v] l]|]; [|apply ok_refl].
  destruct (mode c); [|destruct (busy p0); [apply ok_refl|]]; apply ok_notify_aux.
Qed.

Lemma ok_alloc : forall s, ok s (alloc s).
Proof.
  intros s. assert (E : forall t, state_of (alloc s) t = state_of s t).
  { intros t. unfold state_of, alloc. simpl. destruct (Nat.lt_ge_cases t (length (heap s))).
    - rewrite nth_error_snoc_lt; auto.
    - assert (X : nth_error (heap s) t = None) by (apply nth_error_None; auto). rewrite X.
      destruct (Nat.eq_dec t (length (heap s))) as [->|N].
      + rewrite nth_error_snoc_eq. reflexivity.
      + assert (Y : nth_error (heap s ++ [mkprom Pending [] [] false]) t = None).
        { apply nth_error_None. rewrite app_length. simpl. lia. } rewrite Y. reflexivity. }
  unfold ok, mono, FT. repeat split; auto.
  - intros F t. rewrite E. apply F.
  - exists []. reflexivity.
Qed.

Lemma ok_register : forall p r a b s, ok s (register c p r a b s).
Proof.
  intros. unfold register. cbv zeta.
  set (s1 := emit (EvReg r p a b) s).
  apply (ok_trans s s1); [apply ok_emit; exact I|].
  set (s2 := set_heap _ s1).
  apply (ok_trans s1 s2); [unfold s2; apply ok_upd_keep; reflexivity|].
  destruct (then_notifies c); [apply ok_notify|apply ok_refl].
Qed.

Lemma ok_do_then : forall q mk s, ok s (do_then c q mk s).
Proof.
  intros. unfold do_then. destruct (q <? length (heap s)); [|apply ok_emit; exact I].
  eapply ok_trans; [apply ok_alloc|]. eapply ok_trans; [|apply ok_register]. apply ok_same; reflexivity.
Qed.

Lemma ok_settle : forall t o s, o <> Pending -> ok s (settle c t o s).
Proof.
  intros t o s Ho. unfold settle. destruct (nth_error (heap s) t) as [pr|] eqn:Hp; [|apply ok_emit; exact I].
  rewrite Hguard. simpl.
  destruct (is_pending (st pr)) eqn:Hpe; simpl.
  - eapply ok_trans; [|apply ok_notify].
    assert (Hst : st pr = Pending) by (destruct (st pr); auto; discriminate).
    assert (E : forall t', state_of (set_heap (upd t (fun pr => mkprom o (ress pr) (rejs pr) (busy pr)) (heap s)) (emit (EvTry t o) s)) t'
                          = if t =? t' then o else state_of s t').
    { intros t'. unfold state_of. simpl. destruct (Nat.eqb_spec t t') as [<-|N].
      - rewrite (nth_error_upd_same _ _ _ _ _ Hp). reflexivity.
      - rewrite nth_error_upd_other; auto. }
    unfold ok, mono, FT. repeat split.
    + intros t' H. rewrite E. destruct (Nat.eqb_spec t t') as [<-|N]; auto.
      exfalso. apply H. unfold state_of. rewrite Hp. auto.
    + intros F t'. rewrite E. simpl. rewrite <- F. destruct (Nat.eqb_spec t t') as [<-|N].
      * unfold state_of. rewrite Hp, Hst. reflexivity.
      * destruct (state_of s t'); reflexivity.
    + exists [EvTry t o]. reflexivity.
  - unfold ok, mono, FT. repeat split; auto.
    + intros F t'. simpl. unfold state_of at 1. simpl. fold (state_of s t'). rewrite <- F.
      destruct (Nat.eqb_spec t t') as [<-|N].
      * unfold state_of. rewrite Hp. destruct (st pr); auto; discriminate.
      * destruct (state_of s t'); reflexivity.
    + exists [EvTry t o]. reflexivity.
Qed.

Lemma fulfilled_np : forall v, Fulfilled v <> Pending. Proof. discriminate. Qed.
Lemma rejected_np : forall v, Rejected v <> Pending. Proof. discriminate. Qed.

Ltac ok_tac :=
  match goal with
  | |- ok ?s ?s => apply ok_refl
  | |- ok ?s (settle ?cc ?t ?o ?x) =>
      apply (ok_trans s x); [ok_tac|apply ok_settle; first [apply fulfilled_np|apply rejected_np]]
  | |- ok ?s (do_then ?cc ?q ?mk ?x) => apply (ok_trans s x); [ok_tac|apply ok_do_then]
  | |- ok ?s (alloc ?x) => apply (ok_trans s x); [ok_tac|apply ok_alloc]
  | |- ok ?s (emit ?e ?x) => apply (ok_trans s x); [ok_tac|apply ok_emit; exact I]
  | |- ok ?s (push ?f ?x) => apply (ok_trans s x); [ok_tac|apply ok_same; reflexivity]
  | |- ok ?s (set_stack ?f ?x) => apply (ok_trans s x); [ok_tac|apply ok_same; reflexivity]
  | |- ok ?s (set_alls ?f ?x) => apply (ok_trans s x); [ok_tac|apply ok_same; reflexivity]
  | |- ok ?s (set_waits ?f ?x) => apply (ok_trans s x); [ok_tac|apply ok_same; reflexivity]
  end.

Ltac split_if := match goal with |- context [if ?b then _ else _] => destruct b end.

Lemma ok_invoke : forall k arg s s0, ok s0 s -> ok s0 (invoke c k arg s).
Proof.
  intros k arg s s0 H. apply (ok_trans s0 s); auto. clear H.
  destruct k; unfold invoke; try (ok_tac; fail).
  - cbn [alls push set_stack]. destruct (nth_error (alls s) a); [|ok_tac]. split_if; ok_tac.
  - cbn [alls push set_stack]. destruct (nth_error (alls s) a); ok_tac.
  - cbn [waits push set_stack]. destruct (nth_error (waits s) w); [|ok_tac]. split_if; ok_tac.
Qed.

Lemma ok_finish : forall v t s, ok s (finish c v t s).
Proof.
  intros v t s. destruct v; unfold finish; try (ok_tac; fail).
  destruct (adopt_returned c); [|ok_tac]. destruct (p <? length (heap s)); ok_tac.
Qed.

Lemma ok_exec_act : forall a arg s s0, ok s0 s -> ok s0 (exec_act c a arg s).
Proof.
  intros a arg s s0 H. apply (ok_trans s0 s); auto. clear H. destruct a; unfold exec_act; ok_tac.
Qed.

Lemma ok_step : forall s s', step c s = Some s' -> ok s s'.
Proof.
  intros s s' H. unfold step in H. destruct (stack s) as [|fr rest] eqn:Hs; [discriminate|].
  inversion H; subst s'; clear H.
  destruct fr.
  - destruct cbs as [|x cbs].
    + destruct (mode c); [ok_tac|]. cbn [heap set_stack].
      destruct (nth_error (heap s) p); [|ok_tac].
      destruct (if isres then ress p0 else rejs p0).
      * apply (ok_trans s (set_stack rest s)); [ok_tac|].
        apply (ok_upd_keep (set_stack rest s) p (fun pr => mkprom (st pr) (ress pr) (rejs pr) false)). reflexivity.
      * apply (ok_trans s (set_stack rest s)); [ok_tac|]. apply (ok_notify_aux (set_stack rest s)).
    + apply ok_invoke. ok_tac.
  - destruct acts as [|a acts].
    + destruct k as [|[e|z] t]; ok_tac.
    + apply ok_exec_act. ok_tac.
  - eapply ok_trans; [|apply ok_finish]. ok_tac.
  - destruct rest0 as [|q qs].
    + destruct (n =? 0); [|ok_tac]. cbn [alls set_stack]. destruct (nth_error (alls s) a); ok_tac.
    + ok_tac.
  - destruct rest0 as [|q qs].
    + destruct (n =? 0); [|ok_tac]. cbn [waits set_stack]. destruct (nth_error (waits s) w); ok_tac.
    + ok_tac.
Qed.

Lemma FT_init : forall prog, FT (init prog).
Proof. intros prog t. unfold state_of. simpl. destruct t; reflexivity. Qed.

Theorem reach_FT : forall prog s, reach c prog s -> FT s.
Proof. induction 1; [apply FT_init|]. destruct (ok_step _ _ H0) as (_ & F & _). auto. Qed.

(** Several steps. *)
Inductive steps : state -> state -> Prop :=
| steps_refl : forall s, steps s s
| steps_cons : forall s s' s'', step c s = Some s' -> steps s' s'' -> steps s s''.

Theorem steps_ok : forall s s', steps s s' -> ok s s'.
Proof. induction 1; [apply ok_refl|]. eapply ok_trans; [apply ok_step; eauto|auto]. Qed.

Theorem settled_forever : forall s s' t, steps s s' -> state_of s t <> Pending -> state_of s' t = state_of s t.
Proof. intros s s' t H. destruct (steps_ok _ _ H) as (M & _). apply M. Qed.

Theorem reach_steps : forall prog s s', reach c prog s -> steps s s' -> reach c prog s'.
Proof. intros prog s s' R H. induction H; auto. apply IHsteps. eapply reach_step; eauto. Qed.
End Settle.
