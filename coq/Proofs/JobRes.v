(** Resource accounting invariant of the job machine (C08), for the variant that releases
    iff the job still holds its units.  All other variant switches are arbitrary. *)
From Coq Require Import List ZArith Bool Arith Lia Permutation.
From RV Require Import Model.JobMachine Proofs.JobBase.
Import ListNotations.
Open Scope list_scope.

Definition b2n (b : bool) : nat := if b then 1 else 0.

(** jobs whose execution attempt is still to come *)
Definition pend (s : state) : list nat := exec_ids (queue s) ++ waiting s.

Definition wf_limits (l : list (nat * Z)) : Prop :=
  NoDup (map fst l) /\ Forall (fun p => (0 <= snd p)%Z) l.

Record Inv (c : config) (s : state) : Prop := {
  i_bound : forall j, In j (pend s) \/ In j (map snd (subs s)) -> j < length (jobs s);
  i_nodup : NoDup (pend s);
  i_pend : forall j x, In j (pend s) -> getj s j = Some x ->
           jcached x = false /\ jholds x = false /\ jreleases x = 0 /\ jsubmits x = 0 /\
           ~ In j (map snd (subs s));
  i_subs : forall j x, In j (map snd (subs s)) -> getj s j = Some x -> jholds x = false;
  i_cached : forall j x, getj s j = Some x -> jcached x = true -> jholds x = false;
  i_used : forall r, used s r = held s r;
  i_le : forall r, (held s r <= limit_of c r)%Z;
  i_wf : forall j x, getj s j = Some x -> wf_limits (jlimits x);
  i_rel : forall j x, getj s j = Some x ->
          jreleases x + b2n (jholds x) <= 1 /\ (1 <= jsubmits x -> jreleases x + b2n (jholds x) = 1)
}.

Definition same_core (x y : job) : Prop :=
  jcached x = jcached y /\ jholds x = jholds y /\ jreleases x = jreleases y /\
  jsubmits x = jsubmits y /\ jlimits x = jlimits y.

Lemma same_core_phase x p : same_core x (with_phase x p).
Proof. repeat split. Qed.

(** A state change that only touches components the invariant does not read. *)
Definition frame_eq (s s' : state) : Prop :=
  jobs s' = jobs s /\ exec_ids (queue s') = exec_ids (queue s) /\ waiting s' = waiting s /\
  used s' = used s /\ map snd (subs s') = map snd (subs s).

Lemma inv_frame c s s' : frame_eq s s' -> Inv c s -> Inv c s'.
Proof.
  intros (Hj & Hq & Hw & Hu & Hs) I.
  assert (Hp : pend s' = pend s) by (unfold pend; now rewrite Hq, Hw).
  assert (Hg : forall j, getj s' j = getj s j) by (intros; unfold getj; now rewrite Hj).
  assert (Hh : forall r, held s' r = held s r) by (intros; rewrite !held_eq, Hj; reflexivity).
  destruct I. constructor; intros *; rewrite ?Hp, ?Hs, ?Hg, ?Hu, ?Hh, ?Hj; eauto.
Qed.

Lemma inv_setj_core c s j x y :
  getj s j = Some x -> same_core x y -> Inv c s -> Inv c (setj s j y).
Proof.
  intros Hx (C1 & C2 & C3 & C4 & C5) I. destruct I.
  assert (Hg : forall k z, getj (setj s j y) k = Some z ->
                 exists z', getj s k = Some z' /\ same_core z' z).
  { intros k z H. destruct (Nat.eq_dec j k) as [->|Hne].
    - rewrite (getj_setj_same _ _ _ _ Hx) in H. injection H as <-. exists x. repeat split; auto.
    - rewrite getj_setj_other in H by assumption. exists z. repeat split; auto. }
  assert (Hh : forall r, held (setj s j y) r = held s r).
  { intros r. rewrite !held_eq. simpl. unfold getj in Hx.
    rewrite (held_list_set_nth _ _ _ y r Hx). unfold contrib. rewrite C2, C5. lia. }
  constructor; simpl; unfold pend in *; simpl; intros.
  - rewrite length_set_nth. auto.
  - auto.
  - destruct (Hg _ _ H0) as (z & Hz & (D1 & D2 & D3 & D4 & D5)).
    destruct (i_pend0 _ _ H Hz) as (E1 & E2 & E3 & E4 & E5). repeat split; try congruence; auto.
  - destruct (Hg _ _ H0) as (z & Hz & (D1 & D2 & D3 & D4 & D5)). rewrite <- D2. eauto.
  - destruct (Hg _ _ H) as (z & Hz & (D1 & D2 & D3 & D4 & D5)). rewrite <- D2. apply (i_cached0 _ _ Hz). congruence.
  - rewrite Hh. auto.
  - rewrite Hh. auto.
  - destruct (Hg _ _ H) as (z & Hz & (D1 & D2 & D3 & D4 & D5)). rewrite <- D5. eauto.
  - destruct (Hg _ _ H) as (z & Hz & (D1 & D2 & D3 & D4 & D5)). rewrite <- D2, <- D3, <- D4. eauto.
Qed.

Lemma inv_enqueue_nonexec c s e : is_exec e = false -> Inv c s -> Inv c (enqueue s e).
Proof.
  intros He. apply inv_frame. repeat split; simpl; auto.
  rewrite exec_ids_app. destruct e; simpl in *; try discriminate; apply app_nil_r.
Qed.

Lemma inv_set_pending c s p : Inv c s -> Inv c (set_pending s p).
Proof. apply inv_frame. repeat split. Qed.
Lemma inv_add_recorded c s k o : Inv c s -> Inv c (add_recorded s k o).
Proof. apply inv_frame. repeat split. Qed.
Lemma inv_add_submit c s j : Inv c s -> Inv c (add_submit s j).
Proof. apply inv_frame. repeat split. Qed.

(** * split_ready is a partition of the waiting list *)
Lemma split_ready_perm c s w : forall lim a b,
  (forall j, In j w -> exists x, getj s j = Some x) ->
  split_ready c s w lim = (a, b) -> Permutation (a ++ b) w.
Proof.
  induction w as [|j w IH]; intros lim a b Hall; simpl.
  - intros [= <- <-]. constructor.
  - destruct (Hall j (or_introl eq_refl)) as (x & ->).
    destruct (within c (used s) (add_limits (jlimits x) lim)).
    + destruct (split_ready c s w (add_limits (jlimits x) lim)) as [a' b'] eqn:E.
      intros [= <- <-]. simpl. constructor. eapply IH; eauto. intros; apply Hall; now right.
    + destruct (split_ready c s w lim) as [a' b'] eqn:E.
      intros [= <- <-]. apply Permutation_sym. apply Permutation_cons_app. apply Permutation_sym.
      eapply IH; eauto. intros; apply Hall; now right.
Qed.

(** Moving waiting jobs to the queue as Exec events keeps the invariant. *)
Lemma inv_requeue_list c : forall ready s notready,
  Inv c (set_waiting s (ready ++ notready)) ->
  Inv c (fold_left requeue ready (set_waiting s notready)).
Proof.
  induction ready as [|j ready IH]; intros s notready I; simpl; [exact I|].
  assert (Hj : j < length (jobs s)).
  { apply (i_bound _ _ I). left. unfold pend. simpl. apply in_or_app. right. now left. }
  destruct (nth_error (jobs s) j) as [x|] eqn:Hx; [|apply nth_error_None in Hx; lia].
  unfold requeue at 2. unfold getj. simpl. rewrite Hx.
  set (s1 := enqueue (setj (set_waiting s notready) j (with_phase x PQueued)) (EvExec j)).
  assert (E : s1 = set_waiting (enqueue (setj s j (with_phase x PQueued)) (EvExec j)) notready) by reflexivity.
  rewrite E. apply IH.
  (* the pending set is the same list: j moves from the head of the waiting list to the queue's end *)
  assert (Hx0 : getj (set_waiting s ((j :: ready) ++ notready)) j = Some x) by exact Hx.
  pose proof (inv_setj_core c _ j x (with_phase x PQueued) Hx0 (same_core_phase x PQueued) I) as I1.
  assert (Hp : pend (set_waiting (enqueue (setj s j (with_phase x PQueued)) (EvExec j)) (ready ++ notready))
             = pend (setj (set_waiting s ((j :: ready) ++ notready)) j (with_phase x PQueued))).
  { unfold pend. simpl. rewrite exec_ids_app. simpl. rewrite <- app_assoc. reflexivity. }
  destruct I1. constructor; try rewrite Hp; auto.
Qed.

Lemma inv_perm_waiting c s w :
  Permutation w (waiting s) -> Inv c s -> Inv c (set_waiting s w).
Proof.
  intros Hp I. destruct I. unfold pend in *.
  assert (Hq : Permutation (exec_ids (queue s) ++ w) (exec_ids (queue s) ++ waiting s))
    by (apply Permutation_app_head; exact Hp).
  constructor; simpl; unfold pend; simpl; intros; eauto.
  - apply i_bound0. destruct H; auto. left. eapply Permutation_in; eauto.
  - eapply Permutation_NoDup; [apply Permutation_sym; exact Hq|exact i_nodup0].
  - apply (i_pend0 j x); auto. eapply Permutation_in; eauto.
Qed.

Lemma inv_check_pending c s : Inv c s -> Inv c (check_pending_limits c s).
Proof.
  intros I. unfold check_pending_limits.
  destruct (split_ready c s (waiting s) []) as [ready notready] eqn:E.
  apply inv_requeue_list. apply inv_perm_waiting; auto.
  eapply split_ready_perm; eauto.
  intros j Hj. assert (j < length (jobs s)).
  { apply (i_bound _ _ I). left. unfold pend. apply in_or_app. now right. }
  unfold getj. destruct (nth_error (jobs s) j) eqn:F; eauto. apply nth_error_None in F. lia.
Qed.

Lemma inv_skip_wakeup c s : Inv c s -> Inv c (skip_wakeup c s).
Proof. unfold skip_wakeup. destruct (recheck_on_skip (vr c)); auto using inv_check_pending. Qed.
