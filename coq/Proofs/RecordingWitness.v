(** Concrete histories: the witnesses against the shipped variant (C03, C22) and a bounded
    exhaustive check of retry idempotence for the repaired variant. *)
From Coq Require Import List Arith Bool PeanoNat Lia.
From RV Require Import Model.Recording Proofs.RecordingBase.
Import ListNotations.
Open Scope list_scope.

(** task hashes: 1 top, 2 leaf, 3 leaf after the edit, 4 a, 5 p, 6 mid.  values: 10 (argument), 20 (result). *)
Definition leafc := Node 2 [10] 20 [].
Definition topc := Node 1 [10] 20 [leafc].

(** e12: one transient OperationalError at the final commit of record_call_node(top); db_retry
    retries, the call node exists, early exit: no subtree rows. *)
Definition h_retry : list event :=
  [ENewExec [1; 2]; ERecord 2 [10] 20 [] []; ERecord 1 [10] 20 [0] [FOk; FFail]].
(** the process dies at the same commit *)
Definition h_crash : list event :=
  [ENewExec [1; 2]; ERecord 2 [10] 20 [] []; ERecord 1 [10] 20 [0] [FOk; FCrash]].
(** the call graph is pulled from another repository *)
Definition h_import : list event := [EImport [topc]].
(** no fault at all: p (shallow) calls mid, which is replayed from the call node that a's call of
    mid recorded in the same execution (CSE); mid's job has no child jobs, so p's subtree set
    misses leaf. *)
Definition midc := Node 6 [10] 20 [leafc].
Definition pc := Node 5 [10] 20 [midc].
Definition h_cse : list event :=
  [ENewExec [2; 4; 5; 6]; ERecord 2 [10] 20 [] []; ERecord 6 [10] 20 [0] []; ERecord 4 [10] 20 [1] [];
   EHitCSE 1 true; ERecord 5 [10] 20 [3] []].

Definition stale (g : cfg) (es : list event) (t : nat) (a rg : list nat) : bool :=
  match shallow_hit g (run g es) t a rg with
  | Some c => negb (subset (tasks_of c) rg)
  | None => false
  end.

Lemma stale_spec : forall g es t a rg, stale g es t a rg = true ->
  exists c, shallow_hit g (run g es) t a rg = Some c /\ ~ incl (tasks_of c) rg.
Proof.
  intros g es t a rg H. unfold stale in H. destruct (shallow_hit g (run g es) t a rg) as [c|]; [|discriminate].
  exists c. split; [reflexivity|]. intros Hi. apply subset_incl in Hi. rewrite Hi in H. discriminate.
Qed.

Lemma w_retry : stale (shipped 3) h_retry 1 [10] [1; 3] = true. Proof. vm_compute. reflexivity. Qed.
Lemma w_crash : stale (shipped 3) h_crash 1 [10] [1; 3] = true. Proof. vm_compute. reflexivity. Qed.
Lemma w_import : stale (shipped 3) h_import 1 [10] [1; 3] = true. Proof. vm_compute. reflexivity. Qed.
Lemma w_cse : stale (shipped 3) h_cse 5 [10] [3; 4; 5; 6] = true. Proof. vm_compute. reflexivity. Qed.

(** the same histories are harmless in the repaired variant, and the hit is still taken when
    nothing was edited (the repair does not simply disable the cache) *)
Lemma f_retry : stale (fixed 3) h_retry 1 [10] [1; 3] = false /\
                shallow_hit (fixed 3) (run (fixed 3) h_retry) 1 [10] [1; 2] = Some topc.
Proof. split; vm_compute; reflexivity. Qed.
Lemma f_cse : stale (fixed 3) h_cse 5 [10] [3; 4; 5; 6] = false /\
              shallow_hit (fixed 3) (run (fixed 3) h_cse) 5 [10] [2; 4; 5; 6] = Some pc.
Proof. split; vm_compute; reflexivity. Qed.

(* ------------------------------------------------------------------ retry idempotence *)
Definition pair_eqb {A B} (ea : A -> A -> bool) (eb : B -> B -> bool) (x y : A * B) : bool :=
  ea (fst x) (fst y) && eb (snd x) (snd y).
Fixpoint list_eqb {A} (e : A -> A -> bool) (a b : list A) : bool :=
  match a, b with
  | [], [] => true
  | x :: a', y :: b' => e x y && list_eqb e a' b'
  | _, _ => false
  end.
Definition db_eqb (d d' : db) : bool :=
  nats_eqb (vals d) (vals d') && list_eqb tree_eqb (nodes d) (nodes d') &&
  list_eqb (pair_eqb (pair_eqb tree_eqb tree_eqb) Nat.eqb) (edges d) (edges d') &&
  list_eqb (pair_eqb (pair_eqb tree_eqb Nat.eqb) Nat.eqb) (argrows d) (argrows d') &&
  list_eqb (pair_eqb tree_eqb Nat.eqb) (subs d) (subs d').

(** what the scheduler does when a job resolves: record_value(result); record_call_node(...) *)
Definition resolve_op (g : cfg) (p : params) (s : state) (pl : list fate) : res :=
  bind (record_value_top (c_retries g) (t_res (p_call p)) s pl) (record_call_node (c_retries g) (c_rcn g) p).

(** With this plan the operation either completes with exactly the committed tables of the
    fault-free run, or the run dies; it never returns with anything else. *)
Definition idem_ok (g : cfg) (p : params) (s : state) (pl : list fate) : bool :=
  match resolve_op g p s pl, resolve_op g p s [] with
  | ROk s' _, ROk s'' _ => db_eqb (com s') (com s'')
  | RDied _, _ => true
  | _, _ => false
  end.

(** every plan over {commit succeeds, OperationalError} of length <= n *)
Fixpoint plans (n : nat) : list (list fate) :=
  match n with
  | 0 => [[]]
  | S k => [] :: flat_map (fun pl => [FOk :: pl; FFail :: pl]) (plans k)
  end.

Definition s_base (g : cfg) : state := run g [ENewExec [1; 2; 6]; ERecord 2 [10] 20 [] []].
Definition scenarios : list params :=
  [ mkp topc [1; 2];                                             (* existing argument value, recorded child *)
    mkp (Node 1 [11; 12] 21 [leafc]) [1; 2];                     (* new argument and result values *)
    mkp (Node 1 [11; 10] 21 [leafc; Node 6 [] 22 []]) [1; 2; 6]; (* a child that is not recorded: task values are recorded *)
    mkp (Node 1 [] 20 []) [1] ].

Definition sweep (g : cfg) (n : nat) : bool :=
  forallb (fun p => forallb (fun pl => idem_ok g p (s_base g) pl) (plans n)) scenarios.

Lemma sweep_spec : forall g n, sweep g n = true ->
  forall p pl, In p scenarios -> In pl (plans n) -> idem_ok g p (s_base g) pl = true.
Proof.
  intros g n H p pl Hp Hpl. unfold sweep in H.
  pose proof (proj1 (forallb_forall _ _) H p Hp) as H2.
  exact (proj1 (forallb_forall _ _) H2 pl Hpl).
Qed.

Lemma sweep_fixed : sweep (fixed 1) 7 = true /\ sweep (fixed 3) 7 = true.
Proof. split; vm_compute; reflexivity. Qed.

Lemma retry_idempotent_fixed_bounded : forall R p pl, In R [1; 3] -> In p scenarios -> In pl (plans 7) ->
  idem_ok (fixed R) p (s_base (fixed R)) pl = true.
Proof.
  intros R p pl HR Hp Hpl. destruct HR as [<-|[<-|[]]].
  - exact (sweep_spec (fixed 1) 7 (proj1 sweep_fixed) p pl Hp Hpl).
  - exact (sweep_spec (fixed 3) 7 (proj2 sweep_fixed) p pl Hp Hpl).
Qed.

(** completed with exactly these subtree rows for the call node, which is recorded *)
Definition ok_with_rows (r : res) (c : tree) (ts : list nat) : bool :=
  match r with
  | ROk s' _ => nats_eqb (rows (com s') c) ts && memt c (nodes (com s'))
  | _ => false
  end.
Lemma ok_with_rows_spec : forall r c ts, ok_with_rows r c ts = true ->
  exists s' pl', r = ROk s' pl' /\ rows (com s') c = ts /\ In c (nodes (com s')).
Proof.
  intros [s' pl'| | |] c ts H; try discriminate. simpl in H. apply andb_true_iff in H. destruct H as [H1 H2].
  exists s', pl'. split; [reflexivity|]. split; [apply nats_eqb_spec; exact H1|apply memt_In; exact H2].
Qed.

(** as shipped: one failed final commit, the operation returns normally, and the rows are missing *)
Lemma retry_loses_rows_shipped :
  idem_ok (shipped 3) (mkp topc [1; 2]) (s_base (shipped 3)) [FOk; FFail] = false /\
  ok_with_rows (resolve_op (shipped 3) (mkp topc [1; 2]) (s_base (shipped 3)) [FOk; FFail]) topc [] = true /\
  ok_with_rows (resolve_op (shipped 3) (mkp topc [1; 2]) (s_base (shipped 3)) []) topc [1; 2] = true.
Proof. repeat split; vm_compute; reflexivity. Qed.

(** the same plan in the repaired variant completes with all rows (the sweep is not vacuous) *)
Lemma retry_keeps_rows_fixed :
  ok_with_rows (resolve_op (fixed 3) (mkp topc [1; 2]) (s_base (fixed 3)) [FOk; FFail]) topc [1; 2] = true.
Proof. vm_compute. reflexivity. Qed.

(** as shipped, a transient error at the commit of a nested record_value:
    - [FOk; FFail]: the CallNode is pending; the nested db_retry rolls it back, the Argument insert then
      violates its foreign key, the run dies (nothing partial is committed);
    - [FOk; FOk; FFail]: the CallNode was already committed by the previous nested commit; the nested
      db_retry rolls back the pending first Argument row, the operation returns normally and that row is lost. *)
Definition p_two_args : params := mkp (Node 1 [11; 12] 21 [leafc]) [1; 2].
Definition died_clean (r : res) (c : tree) : bool :=
  match r with RDied s' => negb (memt c (nodes (com s'))) | _ => false end.
Definition ok_with_args (r : res) (c : tree) (n : nat) : bool :=
  match r with
  | ROk s' _ => Nat.eqb (length (filter (fun x => tree_eqb (fst (fst x)) c) (argrows (com s')))) n
  | _ => false
  end.
Lemma inner_fault_shipped :
  died_clean (resolve_op (shipped 3) p_two_args (s_base (shipped 3)) [FOk; FFail]) (p_call p_two_args) = true /\
  ok_with_args (resolve_op (shipped 3) p_two_args (s_base (shipped 3)) [FOk; FOk; FFail]) (p_call p_two_args) 1 = true /\
  ok_with_args (resolve_op (shipped 3) p_two_args (s_base (shipped 3)) []) (p_call p_two_args) 2 = true.
Proof. repeat split; vm_compute; reflexivity. Qed.
Lemma inner_fault_fixed :
  ok_with_args (resolve_op (fixed 3) p_two_args (s_base (fixed 3)) [FOk; FFail]) (p_call p_two_args) 2 = true /\
  ok_with_args (resolve_op (fixed 3) p_two_args (s_base (fixed 3)) [FOk; FOk; FFail]) (p_call p_two_args) 2 = true.
Proof. repeat split; vm_compute; reflexivity. Qed.
