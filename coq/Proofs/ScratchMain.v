(** C32 — final statements for the shipped configuration, and a concrete instance (non-vacuity). *)
From Coq Require Import List Arith NArith Ascii String Bool Lia.
From RV Require Import Base.Decimal Base.Lit Model.Scratch Proofs.ScratchStr Proofs.ScratchRun Proofs.ScratchReunite.
Import ListNotations.
Open Scope list_scope.

Section Main.
  Variable V : Type.
  Variable pbytes : Type.
  Variable dump : obj V -> pbytes.
  Variable load : pbytes -> option (obj V).
  Variable f : obj V -> obj V -> outcome V.
  Variable valid : obj V -> bool.
  Variable tb_of : obj V -> obj V.
  Hypothesis RT : forall o, load (dump o) = Some o.

  Definition HexJobs (jobs : list (job V)) := Forall (fun j => hexstr (j_hash j) = true) jobs.
  (** an evaluation hash determines the arguments *)
  Definition HashDeterminesArgs (jobs : list (job V)) :=
    forall j j', In j jobs -> In j' jobs -> j_hash j = j_hash j' -> j_args j = j_args j' /\ j_kwargs j = j_kwargs j'.
  (** no output file yet for this job *)
  Definition fresh (prefix : str) (fs : fs_t pbytes) (j : job V) :=
    fs_read pbytes fs (job_file shipped prefix (j_hash j) (f_output shipped)) = None.
  (** general condition on a pre-existing output file (see [ScratchRun.prior]) *)
  Definition prior_ok' prefix nc j fs := prior_ok V pbytes load f valid shipped prefix nc j fs.

  Lemma fresh_prior prefix nc fs j : fresh prefix fs j -> prior_ok' prefix nc j fs.
  Proof. unfold fresh, prior_ok', prior_ok, prior, outp. intros ->. exact I. Qed.

  Theorem main_single prefix nc j fs :
    hexstr (j_hash j) = true -> prior_ok' prefix nc j fs ->
    snd (remote_single V pbytes dump load f valid tb_of shipped prefix nc j fs) = local V f j.
  Proof. intros H P. apply single_eq_local; auto using shipped_ok, hex_name. Qed.

  Theorem main_single_fresh prefix nc j fs :
    hexstr (j_hash j) = true -> fresh prefix fs j ->
    snd (remote_single V pbytes dump load f valid tb_of shipped prefix nc j fs) = local V f j.
  Proof. intros H P. apply main_single; auto using fresh_prior. Qed.

  (** attempts of one evaluation hash on one scratch directory: earlier attempts may have had other
      arguments (config_args and JobInfo arguments are not part of the evaluation hash) *)
  Theorem main_attempts prefix nc hist j fs :
    hexstr (j_hash j) = true ->
    prior_ok' prefix nc j (run_attempts V pbytes dump load f valid tb_of shipped prefix nc hist fs) ->
    snd (remote_single V pbytes dump load f valid tb_of shipped prefix nc j
           (run_attempts V pbytes dump load f valid tb_of shipped prefix nc hist fs)) = local V f j.
  Proof. intros. apply main_single; assumption. Qed.

  Theorem main_attempts_after_failures prefix nc hist j fs :
    hexstr (j_hash j) = true -> fresh prefix fs j ->
    Forall (fun a => j_hash a = j_hash j /\ exists e, f (j_args a) (j_kwargs a) = Exc V e) hist ->
    snd (remote_single V pbytes dump load f valid tb_of shipped prefix nc j
           (run_attempts V pbytes dump load f valid tb_of shipped prefix nc hist fs)) = local V f j.
  Proof.
    intros H Fr Hh. apply (attempts_after_failures V pbytes dump load f valid tb_of RT shipped shipped_ok);
      auto using hex_name.
  Qed.

  Lemma hexjobs_names jobs : HexJobs jobs -> Forall (fun j : job V => Name (j_hash j)) jobs.
  Proof. apply Forall_impl. intros j. apply hex_name. Qed.

  Theorem main_array prefix aid jobs nc envs fs0 inc before i j :
    hexstr aid = true -> HexJobs jobs -> HashDeterminesArgs jobs ->
    (forall i, i < List.length jobs -> get_index shipped (envs i) None = IdxOk (N.of_nat i)) ->
    (forall j, In j jobs -> prior_ok' prefix nc j fs0) ->
    Forall (fun i => i < List.length jobs) before ->
    nth_error jobs i = Some j ->
    let fs := run_seq V pbytes dump load f valid tb_of shipped prefix aid nc envs before
                (write_array V pbytes dump shipped prefix aid jobs inc fs0) in
    let '(fs', r) := run_elem V pbytes dump load f valid tb_of shipped prefix aid nc (envs i) fs in
    collect V pbytes load shipped prefix (j_hash j) fs' r = local V f j
    /\ (forall q, q <> job_file shipped prefix (j_hash j) (f_output shipped) ->
                  q <> job_file shipped prefix (j_hash j) (f_error shipped) ->
                  fs_read pbytes fs' q = fs_read pbytes fs q).
  Proof.
    intros Ha Hj Hs He Hp Hb Hn.
    exact (array_elem_eq_local V pbytes dump load f valid tb_of RT shipped shipped_ok prefix aid (hex_name _ Ha)
             jobs (hexjobs_names _ Hj) Hs nc envs He fs0 inc before i j Hp Hb Hn).
  Qed.

  (** the environment a batch system provides: one of the three index variables, decimal *)
  Definition batch_env (v : str) (i : nat) : env_t := [(v, dec_of_nat i)].

  Theorem main_array_batch v prefix aid jobs nc fs0 inc before i j :
    In v (env_vars shipped) -> List.length jobs <= 10000 ->
    hexstr aid = true -> HexJobs jobs -> HashDeterminesArgs jobs ->
    (forall j, In j jobs -> fresh prefix fs0 j) ->
    Forall (fun i => i < List.length jobs) before ->
    nth_error jobs i = Some j ->
    let fs := run_seq V pbytes dump load f valid tb_of shipped prefix aid nc (batch_env v) before
                (write_array V pbytes dump shipped prefix aid jobs inc fs0) in
    let '(fs', r) := run_elem V pbytes dump load f valid tb_of shipped prefix aid nc (batch_env v i) fs in
    collect V pbytes load shipped prefix (j_hash j) fs' r = local V f j
    /\ (forall q, q <> job_file shipped prefix (j_hash j) (f_output shipped) ->
                  q <> job_file shipped prefix (j_hash j) (f_error shipped) ->
                  fs_read pbytes fs' q = fs_read pbytes fs q).
  Proof.
    intros Hv Hl Ha Hj Hs Hp Hb Hn. apply main_array; auto.
    - intros k Hk. apply array_index_env; [assumption|lia].
    - intros j' Hj'. apply fresh_prior. auto.
  Qed.

  (** the eval-hash file lists, at index i, the hash of the job whose arguments element i runs *)
  Theorem main_hashes_file prefix aid jobs fs i j :
    HexJobs jobs -> nth_error jobs i = Some j ->
    exists t, fs_read pbytes (write_array V pbytes dump shipped prefix aid jobs true fs)
                (array_file shipped prefix aid (f_hashes shipped)) = Some (BText pbytes t)
              /\ nth_error (splitlines t) i = Some (j_hash j).
  Proof. intros. eapply write_array_hashes; eauto. Qed.
End Main.

(** every job has its own output and error file, none of which is an array file *)
Theorem own_paths prefix h h' :
  hexstr h = true -> hexstr h' = true ->
  (job_file shipped prefix h (f_output shipped) = job_file shipped prefix h' (f_output shipped) -> h = h')
  /\ (job_file shipped prefix h (f_error shipped) = job_file shipped prefix h' (f_error shipped) -> h = h')
  /\ job_file shipped prefix h (f_output shipped) <> job_file shipped prefix h' (f_error shipped)
  /\ (forall aid g x, hexstr aid = true -> In g [f_input shipped; f_output shipped; f_error shipped; f_hashes shipped] ->
        In x [f_input shipped; f_output shipped; f_error shipped] ->
        array_file shipped prefix aid g <> job_file shipped prefix h x).
Proof.
  intros Hh Hh'. apply hex_name in Hh. apply hex_name in Hh'.
  assert (NI : Name (f_input shipped)) by apply shipped_ok.
  assert (NO : Name (f_output shipped)) by apply shipped_ok.
  assert (NE : Name (f_error shipped)) by apply shipped_ok.
  assert (NH : Name (f_hashes shipped)) by apply shipped_ok.
  repeat split.
  - intros E. apply (job_file_inj shipped shipped_ok) in E; tauto.
  - intros E. apply (job_file_inj shipped shipped_ok) in E; tauto.
  - intros E. apply (job_file_inj shipped shipped_ok) in E; try assumption. destruct E as [_ E]. discriminate E.
  - intros aid g x Ha Hg Hx E. symmetry in E. revert E. apply hex_name in Ha.
    apply (job_array_file_neq shipped shipped_ok); try assumption.
    + simpl in Hx. destruct Hx as [<-|[<-|[<-|[]]]]; assumption.
    + simpl in Hg. destruct Hg as [<-|[<-|[<-|[<-|[]]]]]; assumption.
Qed.

Theorem jobname_roundtrip_hex p h a : NoNl p -> hexstr h = true ->
  hash_of_job_name shipped (batch_job_name shipped p h a) = Some h
  /\ is_array_job_name shipped (batch_job_name shipped p h a) = a.
Proof.
  intros Hp Hh. pose proof (hexstr_facts h Hh) as [Hne [Hd _]].
  assert (Hs : h <> arr_suffix shipped) by (intros ->; discriminate Hh).
  split; [apply jobname_roundtrip|apply is_array_name_roundtrip]; auto; apply shipped_ok.
Qed.

Theorem main_reunite pbytes sp (fs : fs_t pbytes) created l m h id :
  Forall (wf_inflight pbytes shipped sp fs created) l ->
  gather_inflight pbytes shipped sp fs l [] = GOk m ->
  hexstr h = true -> reunite m h = Some id -> created id h.
Proof. apply reunite_only_same_hash. exact shipped_ok. Qed.

(** ** A concrete instance: hypotheses are satisfiable and both outcomes occur *)
Module Instance.
  Definition V := nat.
  Definition pb := obj V.
  Definition dump (o : obj V) : pb := o.
  Definition load (b : pb) : option (obj V) := Some b.
  Definition f (a k : obj V) : outcome V :=
    match a with Leaf 0 => Exc V (Leaf 99) | _ => Ret V (Seq [a; k]) end.
  Definition valid (_ : obj V) := true.
  Definition tb (_ : obj V) : obj V := Leaf 7.
  Definition jobs : list (job V) :=
    [ {| j_hash := lit "a1"; j_args := Leaf 1; j_kwargs := Leaf 10 |};
      {| j_hash := lit "b2"; j_args := Leaf 0; j_kwargs := Leaf 20 |};
      {| j_hash := lit "c3"; j_args := Leaf 3; j_kwargs := Leaf 30 |} ].
  Definition aid := lit "0f0f".
  Definition prefix := lit "/tmp/scratch".
  Definition aws := lit "AWS_BATCH_JOB_ARRAY_INDEX".

  Definition elem (before : list nat) (i : nat) : option (collected V) :=
    match nth_error jobs i with
    | None => None
    | Some j =>
        let fs := run_seq V pb dump load f valid tb shipped prefix aid false (batch_env aws) before
                    (write_array V pb dump shipped prefix aid jobs true []) in
        let '(fs', r) := run_elem V pb dump load f valid tb shipped prefix aid false (batch_env aws i) fs in
        Some (collect V pb load shipped prefix (j_hash j) fs' r)
    end.

  Lemma hyps :
    (forall o, load (dump o) = Some o) /\ In aws (env_vars shipped) /\ hexstr aid = true /\
    HexJobs V jobs /\ HashDeterminesArgs V jobs /\ (forall j, In j jobs -> fresh V pb prefix [] j).
  Proof.
    split; [reflexivity|]. split; [left; reflexivity|]. split; [reflexivity|].
    split; [repeat constructor|]. split; [|intros; reflexivity].
    intros j j' [<-|[<-|[<-|[]]]] [<-|[<-|[<-|[]]]] H; try discriminate H; auto.
  Qed.

  Lemma results :
    elem [2; 0; 2] 1 = Some (CReject V (Leaf 99)) /\
    elem [1; 1] 0 = Some (CDone V (Seq [Leaf 1; Leaf 10])) /\
    elem [] 2 = Some (local V f {| j_hash := lit "c3"; j_args := Leaf 3; j_kwargs := Leaf 30 |}).
  Proof. repeat split; vm_compute; reflexivity. Qed.

  (** staging the input only if absent ([if_absent], the variant `if not input_file.exists()`): a
      failed attempt with arguments 0 leaves its input; the next attempt of the same hash with
      arguments 3 then runs on the stale input *)
  Definition attempt1 : job V := {| j_hash := lit "a1"; j_args := Leaf 0; j_kwargs := Leaf 10 |}.
  Definition attempt2 : job V := {| j_hash := lit "a1"; j_args := Leaf 3; j_kwargs := Leaf 10 |}.
  Definition second_attempt (c : cfg) : collected V :=
    let fs1 := fst (remote_single V pb dump load f valid tb c prefix false attempt1 []) in
    snd (remote_single V pb dump load f valid tb c prefix false attempt2 fs1).
  Lemma if_absent_refuted :
    second_attempt (if_absent shipped) = CReject V (Leaf 99) /\ local V f attempt2 = CDone V (Seq [Leaf 3; Leaf 10])
    /\ second_attempt shipped = local V f attempt2.
  Proof. repeat split; vm_compute; reflexivity. Qed.

  (** reuniting: one single job, one array with two children, one unrelated head-node job *)
  Definition fs0 : fs_t pb := write_array V pb dump shipped prefix aid jobs true [].
  Definition inflight0 : list inflight :=
    [ {| in_name := lit "batch-job-c3"; in_id := lit "id-7"; in_children := [] |};
      {| in_name := lit "batch-job-0f0f-array"; in_id := lit "id-8";
         in_children := [(lit "id-8:1", 1%N); (lit "id-8:0", 0%N)] |};
      {| in_name := lit "batch-job-headnode"; in_id := lit "id-9"; in_children := [] |} ].
  Definition created0 (id h : str) : Prop :=
    In (id, h) [(lit "id-7", lit "c3"); (lit "id-8:0", lit "a1"); (lit "id-8:1", lit "b2")].

  Lemma reunite_hyps : Forall (wf_inflight pb shipped prefix fs0 created0) inflight0.
  Proof.
    constructor; [|constructor; [|constructor; [|constructor]]].
    - apply (WfSingle pb shipped prefix fs0 created0 (lit "batch-job") (lit "c3")).
      + repeat constructor.
      + reflexivity.
      + left; reflexivity.
    - apply (WfArray pb shipped prefix fs0 created0 (lit "batch-job") (lit "0f0f")).
      + repeat constructor.
      + reflexivity.
      + change (eval_file pb shipped prefix fs0 (lit "0f0f"))
          with (Some (BText pb (join_nl [lit "a1"; lit "b2"; lit "c3"]))).
        exists [lit "a1"; lit "b2"; lit "c3"]. split; [reflexivity|]. split; [repeat constructor|].
        constructor; [|constructor; [|constructor]]; cbn [fst snd].
        * intros h. change (nth_error _ _) with (Some (lit "b2")). intros [= <-]. right; right; left; reflexivity.
        * intros h. change (nth_error _ _) with (Some (lit "a1")). intros [= <-]. right; left; reflexivity.
    - apply WfForeign.
      + intros _ x. change (hash_of_job_name shipped (lit "batch-job-headnode")) with (Some (lit "headnode")).
        intros [= <-]. reflexivity.
      + intros H. vm_compute in H. discriminate H.
  Qed.

  Lemma reunite_result :
    exists m, gather_inflight pb shipped prefix fs0 inflight0 [] = GOk m /\
      reunite m (lit "c3") = Some (lit "id-7") /\ reunite m (lit "b2") = Some (lit "id-8:1") /\
      reunite m (lit "a1") = Some (lit "id-8:0") /\ reunite m (lit "dd") = None.
  Proof. eexists. split; [vm_compute; reflexivity|]. repeat split. Qed.
End Instance.

(** the preconditions of the job-name round trip are needed: a hash containing '-' or equal to the
    array suffix, or a prefix with a newline, does not round-trip (evaluation hashes and array uuids
    are hex, so these names are never produced) *)
Lemma jobname_preconditions_needed :
  hash_of_job_name shipped (batch_job_name shipped (lit "p") (lit "ab-cd") false) = Some (lit "cd") /\
  hash_of_job_name shipped (batch_job_name shipped (lit "p") (lit "array") false) = None /\
  hash_of_job_name shipped (batch_job_name shipped (ch_dash :: lit "b" ++ ch_nl :: lit "c") (lit "dead") false)
    = Some (lit "b" ++ ch_nl :: lit "c").
Proof. repeat split. Qed.
