(** The statements about the arrayer thread system, for every layout / parameters / job stream /
    schedule, and the witnesses that refute the two unlocked sites. *)
From Coq Require Import List ZArith Bool Arith Lia Permutation.
From RV Require Import Model.Arrayer Proofs.ArrayerBase Proofs.ArrayerInv Proofs.ArrayerFix.
Import ListNotations.
Open Scope list_scope.

Section Reach.
Variable L : layout.
Variable P : params.
Variable jobs : list job.

Lemma reach_lock : forall sched, lock_ok L (run L P (init jobs) sched).
Proof. intros. apply run_inv; [intros; apply lock_ok_step; assumption|apply lock_ok_init]. Qed.

Lemma reach_keys : forall sched, keys_ok (run L P (init jobs) sched).
Proof. intros. apply run_inv; [intros; apply keys_ok_step; assumption|apply keys_ok_init]. Qed.

Lemma reach_cons : forall sched, cons_ok jobs (run L P (init jobs) sched).
Proof.
  intros. apply (run_inv L P (fun s => keys_ok s /\ cons_ok jobs s)).
  - intros s o [A B]. split; [apply keys_ok_step; assumption|apply cons_ok_step; assumption].
  - split; [apply keys_ok_init|apply cons_ok_init].
Qed.

Lemma reach_batch : params_ok P -> forall sched, batch_inv P (run L P (init jobs) sched).
Proof. intros PO sched. apply run_inv; [intros; apply batch_inv_step; assumption|apply batch_inv_init]. Qed.

Lemma reach_fix : stale_locked L = true -> forall sched, fix_inv (run L P (init jobs) sched).
Proof.
  intros SL sched.
  apply (run_inv L P (fun s => lock_ok L s /\ keys_ok s /\ fix_inv s)).
  - intros s o (A & B & C). split; [apply lock_ok_step; assumption|].
    split; [apply keys_ok_step; assumption|apply fix_inv_step; assumption].
  - split; [apply lock_ok_init|split; [apply keys_ok_init|apply fix_inv_init]].
Qed.

Lemma reach_cnt : cnt_locked L = true -> forall sched, cnt_inv (run L P (init jobs) sched).
Proof.
  intros CL sched.
  apply (run_inv L P (fun s => lock_ok L s /\ keys_ok s /\ cnt_inv s)).
  - intros s o (A & B & C). split; [apply lock_ok_step; assumption|].
    split; [apply keys_ok_step; assumption|apply cnt_inv_step; assumption].
  - split; [apply lock_ok_init|split; [apply keys_ok_init|apply cnt_inv_init]].
Qed.
End Reach.

(** ** statements *)

(** every job of the stream is, at every moment, in exactly one place: not yet passed to add_job,
    in the adder's hands, in [pending], in the monitor's hands, or handed to the callback *)
Theorem conservation : forall L P jobs sched,
  Permutation jobs (places (run L P (init jobs) sched)).
Proof. intros. apply reach_cons. Qed.

Lemma quiescent_places : forall s, quiescent s = true -> places s = flat (pend s) ++ submitted s.
Proof.
  intros [p ts n lk td a m os] Q. unfold quiescent in Q. unfold places. simpl in *.
  destruct td; [|discriminate]. destruct a; try discriminate. destruct m; try discriminate; reflexivity.
Qed.

(** once activity has stopped: the jobs added are exactly those handed off plus those pending *)
Theorem exactly_once_at_quiescence : forall L P jobs sched,
  let s := run L P (init jobs) sched in
  quiescent s = true -> Permutation jobs (flat (pend s) ++ submitted s).
Proof. intros L P jobs sched s Q. rewrite <- (quiescent_places s Q). apply conservation. Qed.

Lemma nodup_app_r : forall {A} (a b : list A), NoDup (a ++ b) -> NoDup b.
Proof. induction a; simpl; intros b H; [exact H|]. inversion H; subst. apply IHa. assumption. Qed.
Lemma nodup_app_disj : forall {A} (a b : list A) x, NoDup (a ++ b) -> In x a -> In x b -> False.
Proof.
  induction a; simpl; intros b x H Ha Hb; [destruct Ha|]. inversion H; subst. destruct Ha as [->|Ha].
  - apply H2. apply in_or_app. right; exact Hb.
  - eapply IHa; eauto.
Qed.

(** no job is handed off twice, nothing is handed off that was not added, and a job that has been
    handed off is no longer pending *)
Theorem no_duplicates : forall L P jobs sched, NoDup jobs ->
  let s := run L P (init jobs) sched in
  NoDup (submitted s) /\ (forall j, In j (submitted s) -> In j jobs) /\
  (forall j, In j (submitted s) -> ~ In j (flat (pend s))).
Proof.
  intros L P jobs sched N s. pose proof (conservation L P jobs sched) as C. fold s in C.
  assert (N' : NoDup (places s)) by (eapply Permutation_NoDup; eauto).
  unfold places in *. split; [|split].
  - do 4 apply nodup_app_r in N'. exact N'.
  - intros j Hj. eapply Permutation_in; [apply Permutation_sym; exact C|].
    do 4 (apply in_or_app; right). exact Hj.
  - intros j Hj Hp. do 2 apply nodup_app_r in N'.
    eapply nodup_app_disj; [exact N'|exact Hp|]. apply in_or_app. right; exact Hj.
Qed.

Lemma batch_ok_of_P : forall P b, batch_okP P b -> batch_ok P b = true.
Proof.
  intros P b (NE & (d & D) & Sz). destruct b as [|j r]; [congruence|]. unfold batch_ok.
  apply andb_true_intro. split.
  - apply forallb_forall. intros x Hx. apply Nat.eqb_eq.
    rewrite (D x (or_intror Hx)). rewrite (D j (or_introl eq_refl)). reflexivity.
  - destruct (pmin P =? 0).
    + apply Nat.eqb_eq. exact Sz.
    + destruct Sz as [A [B|B]]; apply andb_true_intro; split; try (apply Nat.leb_le; exact A);
        apply orb_true_intro; [left; apply Nat.eqb_eq; exact B|right; apply Nat.leb_le; exact B].
Qed.

(** every batch given to the submit callback is non-empty, shares one description, has at most
    [max] jobs and has one job or at least [min] *)
Theorem batches_wellformed : forall L P jobs sched, params_ok P ->
  forallb (batch_ok P) (batches (run L P (init jobs) sched)) = true.
Proof.
  intros L P jobs sched PO. destruct (reach_batch L P jobs PO sched) as (_ & _ & _ & F).
  apply forallb_forall. intros b Hb. apply batch_ok_of_P. rewrite Forall_forall in F. apply F. exact Hb.
Qed.

(** the two pops of submit_pending_jobs never raise KeyError, whatever the layout *)
Theorem submit_never_fails : forall L P jobs sched,
  let s := run L P (init jobs) sched in
  (forall d rest, mpc s = SPop1 d rest -> pop d (pend s) <> None) /\
  (forall d rest js, mpc s = SPop2 d rest js -> pop d (stamps s) <> None).
Proof.
  intros L P jobs sched s. pose proof (reach_keys L P jobs sched) as K. fold s in K. split.
  - intros d rest E. eapply pop1_ok; eauto.
  - intros d rest js E. eapply pop2_ok; eauto.
Qed.

(** with the staleness scan under the lock the monitor never fails *)
Theorem never_fails_stale_locked : forall L, stale_locked L = true -> forall P jobs sched,
  errors (run L P (init jobs) sched) = [].
Proof. intros L SL P jobs sched. destruct (reach_fix L P jobs SL sched) as (_ & _ & E). exact E. Qed.

(** with the decrement under the lock the counter is exact whenever activity has stopped *)
Theorem counter_exact_cnt_locked : forall L, cnt_locked L = true -> forall P jobs sched,
  let s := run L P (init jobs) sched in
  quiescent s = true ->
  npend s = Z.of_nat (length (flat (pend s))) /\
  npend s = (Z.of_nat (length jobs) - Z.of_nat (length (submitted s)))%Z.
Proof.
  intros L CL P jobs sched s Q.
  assert (A : npend s = Z.of_nat (length (flat (pend s)))) by (apply cnt_quiescent; [apply reach_cnt; assumption|exact Q]).
  split; [exact A|]. rewrite A.
  pose proof (Permutation_length (exactly_once_at_quiescence L P jobs sched Q)) as E. fold s in E.
  rewrite app_length in E. lia.
Qed.

Theorem init_params_ok : forall mn mx st P, init_params mn mx st = Some P ->
  params_ok P /\ pmin P = mn /\ pmax P = Nat.min mx MAX_ARRAY_SIZE /\ pstale P = st.
Proof.
  intros mn mx st P. unfold init_params. destruct (Nat.min mx MAX_ARRAY_SIZE <? mn) eqn:E; [discriminate|].
  intros H. inversion H; subst. apply Nat.ltb_ge in E. unfold params_ok. simpl. auto.
Qed.

(** ** witnesses against the unlocked sites *)
Definition sched_of (l : list tid) : list op := map (fun t => (t, 0%Z)) l.
Definition A8 := [TA; TA; TA; TA; TA; TA; TA; TA].
Definition j0 := mkjob 0 0 false.
Definition j1 := mkjob 1 1 false.
Definition j1' := mkjob 1 0 false.

(** add t1 (this starts the monitor); the monitor scans: wait, time, iter, next, timestamp; the
    adder inserts a new description; the monitor's next step raises RuntimeError *)
Definition w_runtime := sched_of (A8 ++ [TM; TM; TM; TM; TM] ++ [TA; TA] ++ [TM; TM]).
Lemma runtime_error_witness : forall L, stale_locked L = false ->
  errors (run L (mkparams 2 3 (-1)) (init [j0; j1]) w_runtime) = [ERuntime].
Proof. intros [[|] [|]] H; try discriminate H; vm_compute; reflexivity. Qed.

(** the adder has created pending[t2] but not yet its timestamp when the monitor reads it *)
Definition w_key := sched_of (A8 ++ [TA; TA] ++ [TM; TM; TM; TM; TM; TM; TM; TM]).
Lemma key_error_witness : forall L, stale_locked L = false ->
  errors (run L (mkparams 2 3 5) (init [j0; j1]) w_key) = [EKey].
Proof. intros [[|] [|]] H; try discriminate H; vm_compute; reflexivity. Qed.

(** the monitor reads num_pending, the adder adds a job, the monitor writes the stale value - 1 *)
Definition w_lost (sl : bool) :=
  sched_of (A8 ++ (if sl then [TM; TM] else []) ++ [TM; TM; TM; TM; TM; TM] ++ [TM; TM; TM; TM] ++ [TM; TM] ++ A8 ++ [TM]).
Lemma lost_update_witness : forall L, cnt_locked L = false ->
  let s := run L (mkparams 2 3 (-1)) (init [j0; j1']) (w_lost (stale_locked L)) in
  quiescent s = true /\ errors s = [] /\ flat (pend s) = [j1'] /\ submitted s = [j0] /\ npend s = 0%Z.
Proof. intros [[|] [|]] H; try discriminate H; vm_compute; repeat split; reflexivity. Qed.
