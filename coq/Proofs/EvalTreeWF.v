(** The tree machine only ever produces admissible outcomes (C01 core), for every schedule. *)
From Coq Require Import List ZArith Bool Arith Lia.
From RV Require Import Model.EvalTree.
Import ListNotations.
Open Scope list_scope.

(** shape of the children list of a node *)
Definition seq_prefix_ok (kids : list node) : Prop :=
  forall i k, nth_error kids i = Some k -> S i < length kids -> exists v, nphase k = PDone (Ok v).

Definition kids_match (sp : spec) (ph : phase) (kids : list node) : Prop :=
  match ph with
  | PIdle | PRun => kids = []
  | _ =>
      match sp with
      | SLeaf _ | SRaise _ => kids = []
      | SList _ cs => map nspec kids = cs
      | SSeq cs => map nspec kids = firstn (length kids) cs /\ length kids <= length cs /\ seq_prefix_ok kids
      | SCatch c => map nspec kids = [c]
      | SAll cs | SAllRec cs => map nspec kids = cs
      end
  end.

Inductive WF : node -> Prop :=
| WF_node sp ph kids :
    Forall WF kids -> kids_match sp ph kids -> (forall o, ph = PDone o -> adm sp o) -> WF (Node sp ph kids).

Lemma WF_inv sp ph kids : WF (Node sp ph kids) ->
  Forall WF kids /\ kids_match sp ph kids /\ (forall o, ph = PDone o -> adm sp o).
Proof. inversion 1; subst; auto. Qed.

Lemma WF_done n o : WF n -> nphase n = PDone o -> adm (nspec n) o.
Proof. destruct n as [sp ph kids]. intros H E. apply WF_inv in H. simpl in *. destruct H as (_ & _ & H). auto. Qed.

Lemma WF_idle s : WF (idle s).
Proof. constructor; simpl; auto. discriminate. Qed.

(** * first_ko / all_ok *)
Lemma first_ko_some kids e : first_ko kids = Some e ->
  exists i k, nth_error kids i = Some k /\ nphase k = PDone (Ko e) /\
              forall i' k', i' < i -> nth_error kids i' = Some k' -> kid_ko k' = None.
Proof.
  induction kids as [|k r IH]; simpl; [discriminate|].
  unfold kid_ko at 1. destruct (nphase k) as [| | |[v|e0]] eqn:E; try (intros H; destruct (IH H) as (i & k0 & A & B & C);
    exists (S i), k0; split; [exact A|]; split; [exact B|]; intros [|i'] k' Hlt Hn; simpl in Hn;
    [injection Hn as <-; unfold kid_ko; rewrite E; reflexivity|apply (C i' k'); [lia|exact Hn]]).
  intros [= ->]. exists 0, k. split; [reflexivity|]. split; [exact E|]. intros i' k' Hlt. lia.
Qed.

Lemma all_ok_some kids vs : all_ok kids = Some vs -> Forall2 (fun k v => nphase k = PDone (Ok v)) kids vs.
Proof.
  revert vs. induction kids as [|k r IH]; simpl; intros vs H.
  - injection H as <-. constructor.
  - unfold kid_ok in H. destruct (nphase k) as [| | |[v|e]] eqn:E; try discriminate.
    destruct (all_ok r) as [vs'|]; [|discriminate]. injection H as <-. constructor; auto.
Qed.

Lemma all_ok_none_ko kids vs : all_ok kids = Some vs -> first_ko kids = None.
Proof.
  revert vs. induction kids as [|k r IH]; simpl; intros vs H; auto.
  unfold kid_ok in H. unfold kid_ko. destruct (nphase k) as [| | |[v|e]]; try discriminate.
  destruct (all_ok r) as [vs'|]; [|discriminate]. eauto.
Qed.

Lemma Forall2_adm_of_kids kids vs :
  Forall WF kids -> Forall2 (fun k v => nphase k = PDone (Ok v)) kids vs ->
  Forall2 (fun c v => adm c (Ok v)) (map nspec kids) vs.
Proof.
  intros HW H. induction H as [|k v r vs' Hk _ IH]; simpl; [constructor|].
  inversion HW; subst. constructor; auto. apply WF_done; auto.
Qed.

Lemma nth_error_firstn_lt {A} (l : list A) : forall i j, j < i -> nth_error (firstn i l) j = nth_error l j.
Proof.
  induction l as [|a r IH]; intros [|i] [|j] H; simpl; auto; try lia. apply IH. lia.
Qed.

Lemma split_nth {A} (l : list A) : forall i k, nth_error l i = Some k -> l = firstn i l ++ k :: skipn (S i) l.
Proof.
  induction l as [|a r IH]; intros [|i] k H; simpl in *; try discriminate.
  - injection H as ->. reflexivity.
  - f_equal. apply IH. exact H.
Qed.

Lemma firstn_S_nth {A} (l : list A) : forall n c, nth_error l n = Some c -> firstn (S n) l = firstn n l ++ [c].
Proof.
  induction l as [|a r IH]; intros [|n] c H; simpl in *; try discriminate.
  - injection H as ->. reflexivity.
  - f_equal. apply IH. exact H.
Qed.

Lemma all_done_ok_list (l : list node) :
  (forall j kj, nth_error l j = Some kj -> exists v, nphase kj = PDone (Ok v)) ->
  exists vs, Forall2 (fun k v => nphase k = PDone (Ok v)) l vs.
Proof.
  induction l as [|a r IH]; intros H.
  - exists []. constructor.
  - destruct (H 0 a eq_refl) as (v & Hv). destruct IH as (vs & Hvs).
    + intros j kj Hj. apply (H (S j) kj Hj).
    + exists (v :: vs). constructor; auto.
Qed.

(** all children done: their outcomes, admissible for their specs *)
Lemma all_done_outs (kids : list node) :
  Forall WF kids -> forallb kid_done kids = true ->
  Forall2 (fun c o => adm c o) (map nspec kids) (map kid_out kids).
Proof.
  induction 1 as [|k r Hk _ IH]; simpl; intros Hd; [constructor|].
  apply andb_true_iff in Hd. destruct Hd as [Dk Dr]. constructor; [|auto].
  unfold kid_done in Dk. unfold kid_out. destruct (nphase k) as [| | |o] eqn:E; try discriminate.
  apply WF_done; auto.
Qed.

Lemma all_ok_none_has_ko (kids : list node) :
  forallb kid_done kids = true -> all_ok kids = None -> exists e, In (Ko e) (map kid_out kids).
Proof.
  induction kids as [|k r IH]; simpl; intros Hd Ha; [discriminate|].
  apply andb_true_iff in Hd. destruct Hd as [Dk Dr].
  unfold kid_done in Dk. unfold kid_ok in Ha. unfold kid_out at 1.
  destruct (nphase k) as [| | |[v|e]] eqn:E; try discriminate.
  - destruct (all_ok r) eqn:Er; [discriminate|]. destruct (IH Dr eq_refl) as (e & He). exists e. now right.
  - exists e. now left.
Qed.

(** * recombine keeps WF *)
Lemma recombine_WF sp kids :
  Forall WF kids -> kids_match sp PEval kids -> WF (recombine (Node sp PEval kids)).
Proof.
  intros HW HM. destruct sp as [z|e|p cs|cs|c|cs|cs]; simpl in HM; simpl.
  - constructor; auto; simpl; auto. discriminate.
  - constructor; auto; simpl; auto. discriminate.
  - (* list *)
    destruct (first_ko kids) as [e|] eqn:Ek.
    + destruct (first_ko_some _ _ Ek) as (i & k & Hn & Hp & _).
      constructor; auto. intros o [= <-].
      apply (adm_list_ko p cs (nspec k) e).
      * rewrite <- HM. apply in_map. eapply nth_error_In; eauto.
      * apply WF_done; auto. rewrite Forall_forall in HW. apply HW. eapply nth_error_In; eauto.
    + destruct (all_ok kids) as [vs|] eqn:Ea.
      * constructor; auto. intros o [= <-]. apply adm_list_ok. rewrite <- HM.
        apply Forall2_adm_of_kids; auto. now apply all_ok_some.
      * constructor; auto. discriminate.
  - (* seq *)
    destruct HM as (HM & Hlen & Hpre).
    destruct (first_ko kids) as [e|] eqn:Ek.
    + destruct (first_ko_some _ _ Ek) as (i & k & Hn & Hp & Hbefore).
      constructor; auto; [simpl; auto|]. intros o [= <-].
      (* the failing child is the last one started; everything before it is done ok *)
      assert (Hi : i < length kids) by (apply nth_error_Some; congruence).
      assert (Hlast : S i = length kids).
      { destruct (Nat.lt_ge_cases (S i) (length kids)) as [Hlt|Hge]; [|lia].
        destruct (Hpre i k Hn Hlt) as (v & Hv). congruence. }
      pose proof (split_nth kids i k Hn) as Hsplit.
      assert (Hok : exists vs, Forall2 (fun k v => nphase k = PDone (Ok v)) (firstn i kids) vs).
      { apply all_done_ok_list. intros j kj Hj.
        assert (Hji : j < i).
        { assert (j < length (firstn i kids)) by (apply nth_error_Some; congruence). rewrite firstn_length in H. lia. }
        rewrite nth_error_firstn_lt in Hj by assumption. apply (Hpre j kj Hj). lia. }
      destruct Hok as (vs & Hvs).
      apply (adm_seq_ko cs (map nspec (firstn i kids)) (nspec k) (skipn (S i) cs) vs e).
      * assert (Hsk : skipn (S i) kids = []) by (apply skipn_all2; lia).
        rewrite Hsk in Hsplit.
        assert (E : firstn (S i) cs = map nspec (firstn i kids) ++ [nspec k]).
        { rewrite Hlast, <- HM. rewrite Hsplit at 1. rewrite map_app. reflexivity. }
        rewrite <- (firstn_skipn (S i) cs) at 1. rewrite E, <- app_assoc. reflexivity.
      * apply Forall2_adm_of_kids; auto. rewrite Forall_forall in *. intros x Hx. apply HW.
        rewrite Hsplit. apply in_or_app. now left.
      * apply WF_done; auto. rewrite Forall_forall in HW. apply HW. eapply nth_error_In; eauto.
    + destruct (all_ok kids) as [vs|] eqn:Ea.
      * destruct (nth_error cs (length kids)) as [c|] eqn:Enext.
        -- (* start the next child *)
           constructor.
           ++ apply Forall_app. split; auto. constructor; [apply WF_idle|constructor].
           ++ simpl. rewrite app_length. simpl. repeat split.
              ** rewrite map_app. simpl. rewrite HM.
                 replace (length kids + 1) with (S (length kids)) by lia.
                 symmetry. apply firstn_S_nth. exact Enext.
              ** assert (length kids < length cs) by (apply nth_error_Some; congruence). lia.
              ** intros i k Hn Hlt. pose proof (all_ok_some _ _ Ea) as Hall.
                 assert (Hi : i < length kids) by (rewrite app_length in Hlt; simpl in Hlt; lia).
                 rewrite nth_error_app1 in Hn by assumption.
                 clear - Hall Hn. revert i Hn. induction Hall as [|a v r vs' Ha _ IH]; intros [|i] Hn; simpl in *; try discriminate.
                 --- injection Hn as <-. eauto.
                 --- eauto.
           ++ discriminate.
        -- constructor; auto; [simpl; auto|]. intros o [= <-]. apply adm_seq_ok.
           assert (length kids = length cs).
           { apply nth_error_None in Enext. lia. }
           rewrite H, firstn_all in HM. rewrite <- HM. apply Forall2_adm_of_kids; auto. now apply all_ok_some.
      * constructor; auto; [simpl; auto|]. discriminate.
  - (* catch *)
    destruct kids as [|k [|k2 r]]; try discriminate.
    simpl in HM. injection HM as Hk. inversion HW; subst.
    destruct (nphase k) as [| | |[v|e]] eqn:E.
    + constructor; auto; simpl; auto. discriminate.
    + constructor; auto; simpl; auto. discriminate.
    + constructor; auto; simpl; auto. discriminate.
    + constructor; auto; [simpl; auto|]. intros o [= <-]. apply adm_catch_ok. apply WF_done; auto.
    + constructor; auto; [simpl; auto|]. intros o [= <-]. apply adm_catch_ko. apply WF_done; auto.
  - (* catch_all: every child is done; the first error by position surfaces *)
    destruct (forallb kid_done kids) eqn:Ed; [|constructor; auto; discriminate].
    destruct (first_ko kids) as [e|] eqn:Ek.
    + destruct (first_ko_some _ _ Ek) as (i & k & Hn & Hp & Hbefore).
      constructor; auto. intros o [= <-].
      pose proof (split_nth kids i k Hn) as Hsplit.
      assert (Hok : exists vs, Forall2 (fun k v => nphase k = PDone (Ok v)) (firstn i kids) vs).
      { apply all_done_ok_list. intros j kj Hj.
        assert (Hji : j < i).
        { assert (j < length (firstn i kids)) by (apply nth_error_Some; congruence). rewrite firstn_length in H. lia. }
        rewrite nth_error_firstn_lt in Hj by assumption.
        pose proof (Hbefore j kj Hji Hj) as Hnk.
        rewrite forallb_forall in Ed. pose proof (Ed kj (nth_error_In _ _ Hj)) as Hd.
        unfold kid_done in Hd. unfold kid_ko in Hnk. destruct (nphase kj) as [| | |[v|e0]]; try discriminate. eauto. }
      destruct Hok as (vs & Hvs).
      apply (adm_all_ko cs (map nspec (firstn i kids)) (nspec k) (map nspec (skipn (S i) kids)) vs e).
      * rewrite <- HM. rewrite Hsplit at 1. rewrite map_app. reflexivity.
      * apply Forall2_adm_of_kids; auto. rewrite Forall_forall in *. intros x Hx. apply HW.
        rewrite Hsplit. apply in_or_app. now left.
      * apply WF_done; auto. rewrite Forall_forall in HW. apply HW. eapply nth_error_In; eauto.
    + destruct (all_ok kids) as [vs|] eqn:Ea.
      * constructor; auto. intros o [= <-]. apply adm_all_ok. rewrite <- HM.
        apply Forall2_adm_of_kids; auto. now apply all_ok_some.
      * constructor; auto. discriminate.
  - (* catch_all with recover_all *)
    destruct (forallb kid_done kids) eqn:Ed; [|constructor; auto; discriminate].
    destruct (all_ok kids) as [vs|] eqn:Ea.
    + constructor; auto. intros o [= <-]. apply adm_allrec_ok. rewrite <- HM.
      apply Forall2_adm_of_kids; auto. now apply all_ok_some.
    + constructor; auto. intros o [= <-]. destruct (all_ok_none_has_ko kids Ed Ea) as (e & He).
      apply (adm_allrec_rec cs (map kid_out kids) e); [|exact He]. rewrite <- HM. now apply all_done_outs.
Qed.
