(** The repaired key ([fixed]): it determines, and is determined by, the slot -> hash map
    of the call's non-config, non-placeholder arguments. *)
From Coq Require Import List ZArith Ascii Bool Arith Permutation Lia.
From RV Require Import Base.Decimal Model.Bencode Base.HashSpec Proofs.BencodeFacts Proofs.BencodeSort
     Model.EvalKey Proofs.EvalKeyBase Proofs.EvalKeyDict.
Import ListNotations.
Open Scope list_scope.

Lemma firstn_In {A} (x : A) : forall n l, In x (firstn n l) -> In x l.
Proof.
  induction n; intros l; simpl; [tauto|]. destruct l; simpl; [tauto|]. intros [E|I]; auto.
Qed.

(** * Keyword side *)
Lemma dlN_app skip keys a b : dlN skip keys (a ++ b) = dlN skip keys a ++ dlN skip keys b.
Proof. unfold dlN. apply flat_map_app. Qed.

Lemma defaults_fixed sg c : NoDup (all_names sg) ->
  defaults fixed sg c = dlN (pos_bound sg (length (c_args c))) (map fst (c_kwargs c)) (named_params sg).
Proof.
  intros N. assert (Np : NoDup (pos_names sg)).
  { rewrite all_names_eq in N. now apply NoDup_app_l in N. }
  unfold defaults, params. cbn [defaults_pairing fixed].
  rewrite defaults_from_app, defaults_from_app, defaults_from_app.
  rewrite !defaults_from_var, defaults_from_nonpos, (defaults_from_pos _ _ _ _ 0 Np).
  rewrite app_nil_r. simpl app. unfold named_params. rewrite dlN_app. f_equal.
  - rewrite Nat.sub_0_r. reflexivity.
  - apply dlN_ext_in. intros p Hp. unfold pos_bound.
    symmetry. apply mem_false. intros Hin. apply firstn_In in Hin.
    apply named_NoDup in N. unfold named_names in N.
    eapply (NoDup_app_disj _ _ (fst p) N); [exact Hin|now apply in_map].
Qed.

Lemma kwargs2_cons cfg sg conf ka M :
  kwargs2 cfg sg conf (ka :: M) =
  (if opt_mem (kw_param cfg sg (fst ka)) conf then []
   else match snd ka with AVal h => [(fst ka, h)] | AInfo _ => [] end) ++ kwargs2 cfg sg conf M.
Proof. reflexivity. Qed.

Lemma kwargs2_keys cfg sg conf M k : In k (map fst (kwargs2 cfg sg conf M)) -> In k (map fst M).
Proof.
  induction M as [|[k' a] M IH]; [simpl; tauto|]. rewrite kwargs2_cons, map_app, in_app_iff. cbn [fst snd].
  intros [Hin|Hin]; [|right; auto]. left.
  destruct (opt_mem _ conf); [destruct Hin|]. destruct a; [|destruct Hin]. destruct Hin as [<-|[]]. reflexivity.
Qed.

Lemma kwargs2_NoDup cfg sg conf M : NoDup (map fst M) -> NoDup (map fst (kwargs2 cfg sg conf M)).
Proof.
  induction M as [|[k' a] M IH]; intros N; [constructor|]. simpl in N. inversion N; subst.
  rewrite kwargs2_cons, map_app. cbn [fst snd].
  destruct (opt_mem _ conf); [now apply IH|]. destruct a; [|now apply IH].
  simpl. constructor; [|now apply IH]. intros Hin. apply H1. eapply kwargs2_keys; eauto.
Qed.

Lemma kwargs2_assoc cfg sg conf M k : NoDup (map fst M) ->
  assoc k (kwargs2 cfg sg conf M) =
  if opt_mem (kw_param cfg sg k) conf then None else obind (assoc k M) hash_of.
Proof.
  induction M as [|[k' a] M IH]; intros N.
  - simpl. now destruct (opt_mem _ conf).
  - simpl in N. inversion N; subst. rewrite kwargs2_cons, assoc_app, (IH H2). cbn [fst snd assoc].
    destruct (bytes_eqb_spec k k') as [->|Ne].
    + assert (E : assoc k' M = None) by now apply assoc_None. rewrite E.
      destruct (opt_mem _ conf); [reflexivity|]. destruct a; simpl; [now rewrite bytes_eqb_refl|reflexivity].
    + assert (E : assoc k (if opt_mem (kw_param cfg sg k') conf then []
                           else match a with AVal h => [(k', h)] | AInfo _ => [] end) = None).
      { destruct (opt_mem (kw_param cfg sg k') conf); [reflexivity|]. destruct a; [|reflexivity].
        simpl. destruct (bytes_eqb_spec k k'); [congruence|reflexivity]. }
      rewrite E. reflexivity.
Qed.

Lemma merged_fixed_NoDup sg c : NoDup (all_names sg) -> NoDup (map fst (c_kwargs c)) ->
  NoDup (map fst (merged_kwargs fixed sg c)).
Proof.
  intros N Nk. unfold merged_kwargs. rewrite (defaults_fixed _ _ N), map_app.
  apply NoDup_app_mk; auto.
  - apply dlN_NoDup. apply named_NoDup in N. unfold named_names, named_params in *. now rewrite map_app.
  - intros x Hd Hk. apply dlN_keys in Hd. destruct Hd as [_ [M _]]. apply mem_false in M. auto.
Qed.

Lemma merged_fixed_lookup sg c k : NoDup (all_names sg) ->
  assoc k (merged_kwargs fixed sg c) = kw_lookup sg c k.
Proof.
  intros N. unfold merged_kwargs, kw_lookup. rewrite (defaults_fixed _ _ N), assoc_app, dlN_assoc.
  2:{ apply named_NoDup in N. unfold named_names, named_params in *. now rewrite map_app. }
  unfold default_of. destruct (pos_bound sg (length (c_args c)) k).
  - now destruct (assoc k (c_kwargs c)).
  - destruct (mem k (map fst (c_kwargs c))) eqn:M.
    + destruct (assoc k (c_kwargs c)) eqn:E; [reflexivity|].
      apply assoc_None in E. apply mem_In in M. contradiction.
    + apply mem_false in M. apply assoc_None in M. rewrite M.
      now destruct (assoc k (named_params sg)) as [[|]|].
Qed.

(** the dict that is hashed, as a lookup function *)
Definition dict_spec (sg : sigt) (conf : list bytes) (c : call) (k : bytes) : option bytes :=
  if opt_mem (bound_kw_param sg k) conf then None else obind (kw_lookup sg c k) hash_of.

Lemma dict_fixed_lookup sg conf c k : NoDup (all_names sg) -> NoDup (map fst (c_kwargs c)) ->
  assoc k (kwargs2 fixed sg conf (merged_kwargs fixed sg c)) = dict_spec sg conf c k.
Proof.
  intros N Nk. rewrite kwargs2_assoc by now apply merged_fixed_NoDup.
  unfold dict_spec. cbn [kw_param kwargs_by fixed]. now rewrite merged_fixed_lookup.
Qed.

(** * Positional side *)
Definition blankify (blank : bytes) (a : aval) : bytes := match a with AVal h => h | AInfo _ => blank end.
Definition unblank (blank h : bytes) : option bytes := if bytes_eqb h blank then None else Some h.
(** premise on value hashes: no ordinary value hashes like the blank JobInfo *)
Definition blank_ok (blank : bytes) (a : aval) : Prop := match a with AVal h => h <> blank | AInfo _ => True end.

Lemma emit_blank blank a : emit IBlank blank a = [blankify blank a].
Proof. now destruct a. Qed.

Lemma unblank_blankify blank a : blank_ok blank a -> unblank blank (blankify blank a) = hash_of a.
Proof.
  destruct a; simpl; unfold unblank; intros B.
  - destruct (bytes_eqb_spec h blank); [contradiction|reflexivity].
  - now rewrite bytes_eqb_refl.
Qed.

Lemma flat_map_emit_blank blank l : flat_map (emit IBlank blank) l = map (blankify blank) l.
Proof. induction l; simpl; [reflexivity|]. now rewrite emit_blank, IHl. Qed.

(** reading the slot -> hash map back from the hashed positional list [L] and dict [D] *)
Fixpoint dec_named (blank : bytes) (conf ps L : list bytes) (D : bytes -> option bytes) (nm : bytes) : option bytes :=
  match ps with
  | [] => D nm
  | p :: ps' =>
      if mem p conf then dec_named blank conf ps' L D nm
      else match L with
           | [] => D nm
           | h :: L' => if bytes_eqb nm p then unblank blank h else dec_named blank conf ps' L' D nm
           end
  end.

Fixpoint rest_after (conf ps L : list bytes) : list bytes :=
  match ps with
  | [] => L
  | p :: ps' => if mem p conf then rest_after conf ps' L
                else match L with [] => [] | _ :: L' => rest_after conf ps' L' end
  end.

Definition decode (blank : bytes) (sg : sigt) (conf L : list bytes) (D : bytes -> option bytes) (s : slot) : option bytes :=
  match s with
  | SNamed nm => if negb (mem nm (named_names sg)) || mem nm conf then None
                 else dec_named blank conf (pos_names sg) L D nm
  | SExtra i => if opt_mem (s_var sg) conf then None
                else obind (nth_error (rest_after conf (pos_names sg) L) i) (unblank blank)
  | SKw k => if mem k (named_names sg) || opt_mem (s_varkw sg) conf then None else D k
  end.

Lemma dec_named_ext blank conf D D' nm : (forall k, D k = D' k) -> forall ps L,
  dec_named blank conf ps L D nm = dec_named blank conf ps L D' nm.
Proof.
  intros E. induction ps as [|p ps IH]; intros L; simpl; auto.
  destruct (mem p conf); auto. destruct L; auto. destruct (bytes_eqb nm p); auto.
Qed.

Lemma decode_ext blank sg conf L D D' s : (forall k, D k = D' k) ->
  decode blank sg conf L D s = decode blank sg conf L D' s.
Proof.
  intros E. destruct s; simpl; auto.
  - destruct (_ || _); auto. now apply dec_named_ext.
  - destruct (_ || _); auto.
Qed.

Lemma dec_named_zip blank conf D nm : mem nm conf = false -> forall ps args E,
  Forall (blank_ok blank) args -> (length args <= length ps -> E = []) ->
  dec_named blank conf ps (zip_args IBlank blank conf ps args ++ E) D nm =
  match index_of nm ps with
  | Some i => if Nat.ltb i (length args) then obind (nth_error args i) hash_of else D nm
  | None => D nm
  end.
Proof.
  intros Hnm. induction ps as [|p ps IH]; intros args E B HE.
  - reflexivity.
  - destruct args as [|a args].
    + assert (E = []) by (apply HE; simpl; lia). subst E. simpl zip_args. simpl app.
      cbn [dec_named].
      assert (R : forall qs, dec_named blank conf qs [] D nm = D nm).
      { induction qs as [|q qs IHq]; simpl; auto. now destruct (mem q conf). }
      destruct (mem p conf); rewrite ?R; simpl; destruct (bytes_eqb nm p); auto;
        destruct (index_of nm ps); reflexivity.
    + inversion B; subst. cbn [zip_args dec_named index_of length].
      assert (HE' : length args <= length ps -> E = []) by (intros L; apply HE; simpl; lia).
      destruct (mem p conf) eqn:Cp.
      * simpl app. rewrite (IH args E H2 HE').
        destruct (bytes_eqb_spec nm p) as [->|Ne]; [congruence|].
        destruct (index_of nm ps); simpl; reflexivity.
      * rewrite emit_blank. simpl app.
        destruct (bytes_eqb_spec nm p) as [->|Ne].
        -- simpl. now apply unblank_blankify.
        -- rewrite (IH args E H2 HE'). destruct (index_of nm ps); simpl; reflexivity.
Qed.

Lemma rest_after_zip blank conf : forall ps args E,
  (length args <= length ps -> E = []) ->
  rest_after conf ps (zip_args IBlank blank conf ps args ++ E) = E.
Proof.
  induction ps as [|p ps IH]; intros args E HE.
  - reflexivity.
  - destruct args as [|a args].
    + assert (E = []) by (apply HE; simpl; lia). subst E. simpl.
      specialize (IH [] [] (fun _ => eq_refl)). destruct ps; simpl in *; destruct (mem p conf); auto.
    + assert (HE' : length args <= length ps -> E = []) by (intros L; apply HE; simpl; lia).
      cbn [zip_args rest_after]. destruct (mem p conf); simpl app; [now apply IH|].
      rewrite emit_blank. simpl app. now apply IH.
Qed.

Lemma skipn_short {A} (l : list A) n : length l <= n -> skipn n l = [].
Proof. intros L. apply skipn_all2. exact L. Qed.

Lemma Forall_skipn {A} (P : A -> Prop) n : forall l, Forall P l -> Forall P (skipn n l).
Proof.
  induction n; intros l F; simpl; auto. destruct l; auto. inversion F; auto.
Qed.

(** * The key read back gives the specification's slot map *)
Definition lookup {A} (l : list (bytes * A)) (k : bytes) : option A := assoc k l.

Theorem fixed_decode blank sg conf c s :
  NoDup (all_names sg) -> NoDup (map fst (c_kwargs c)) -> Forall (blank_ok blank) (c_args c) ->
  decode blank sg conf (args2 fixed blank sg conf (c_args c))
         (lookup (kwargs2 fixed sg conf (merged_kwargs fixed sg c))) s
  = arg_hash sg conf c s.
Proof.
  intros N Nk B.
  rewrite (decode_ext _ _ _ _ _ (dict_spec sg conf c)) by (intros k; now apply dict_fixed_lookup).
  unfold args2. cbn [pair_names args_pairing zip_info extras_info fixed].
  set (E := if opt_mem (s_var sg) conf then []
            else flat_map (emit IBlank blank) (skipn (length (pos_names sg)) (c_args c))).
  assert (HE : length (c_args c) <= length (pos_names sg) -> E = []).
  { intros L. unfold E. destruct (opt_mem _ conf); auto. now rewrite skipn_short. }
  destruct s as [nm|i|k]; simpl.
  - destruct (mem nm (named_names sg)) eqn:Mn; simpl; [|reflexivity].
    destruct (mem nm conf) eqn:Mc; [reflexivity|].
    rewrite (dec_named_zip blank conf _ nm Mc _ _ E B HE). unfold arg_of.
    assert (Dn : dict_spec sg conf c nm =
                 if pos_bound sg (length (c_args c)) nm then dict_spec sg conf c nm
                 else obind (match assoc nm (c_kwargs c) with
                             | Some a => Some a
                             | None => match assoc nm (named_params sg) with Some d => d | None => None end
                             end) hash_of).
    { destruct (pos_bound _ _ nm) eqn:P; [reflexivity|]. unfold dict_spec, bound_kw_param, kw_lookup.
      rewrite Mn. simpl. rewrite Mc, P. reflexivity. }
    unfold pos_bound in Dn. rewrite <- index_firstn in Dn.
    destruct (index_of nm (pos_names sg)) as [i|].
    + destruct (Nat.ltb i (length (c_args c))); [reflexivity|exact Dn].
    + exact Dn.
  - destruct (opt_mem (s_var sg) conf) eqn:V; [reflexivity|].
    rewrite (rest_after_zip blank conf _ _ E HE). unfold E. rewrite flat_map_emit_blank, nth_error_map.
    assert (F := Forall_skipn _ (length (pos_names sg)) _ B).
    destruct (nth_error _ i) eqn:Ei; simpl; [|reflexivity].
    apply unblank_blankify. rewrite Forall_forall in F. apply F. eapply nth_error_In; eauto.
  - destruct (mem k (named_names sg)) eqn:Mn; simpl; [reflexivity|].
    destruct (opt_mem (s_varkw sg) conf) eqn:V; [reflexivity|].
    unfold dict_spec, bound_kw_param, kw_lookup. rewrite Mn, V.
    destruct (assoc k (c_kwargs c)); [reflexivity|].
    assert (P : pos_bound sg (length (c_args c)) k = false).
    { unfold pos_bound. apply mem_false. intros Hin. apply firstn_In in Hin.
      apply mem_false in Mn. apply Mn. unfold named_names, pos_names in *. rewrite in_app_iff. tauto. }
    rewrite P. unfold default_of.
    assert (A : assoc k (named_params sg) = None).
    { apply assoc_None. apply mem_false in Mn. unfold named_names, named_params in *. now rewrite map_app. }
    now rewrite A.
Qed.

(** * From equal hashes to equal structures *)
Lemma map_BStr_inj l l' : map BStr l = map BStr l' -> l = l'.
Proof.
  revert l'; induction l; destruct l'; simpl; try discriminate; auto.
  intros [= -> E]. f_equal. auto.
Qed.

Lemma args_struct_inj cfg L K L' K' :
  args_fields cfg = [0; 1]%nat -> NoDup (map fst K) -> NoDup (map fst K') ->
  args_struct cfg L K = args_struct cfg L' K' -> L = L' /\ forall k, assoc k K = assoc k K'.
Proof.
  unfold args_struct. intros F N N' E. rewrite F in E. simpl in E. unfold layout in E.
  injection E as E1 E2. split; [now apply map_BStr_inj|]. intros k.
  assert (X := sort_kvs_assoc _ _ k
                 (eq_ind_r (fun l => NoDup l) N (map_fst_map BStr K))
                 (eq_ind_r (fun l => NoDup l) N' (map_fst_map BStr K')) E2).
  rewrite !assoc_map in X. destruct (assoc k K), (assoc k K'); simpl in X; congruence.
Qed.

Lemma args_struct_ext cfg L K K' :
  NoDup (map fst K) -> NoDup (map fst K') -> (forall k, assoc k K = assoc k K') ->
  args_struct cfg L K = args_struct cfg L K'.
Proof.
  intros N N' E. unfold args_struct.
  assert (X : sort_kvs (map (fun kh : bytes * bytes => (fst kh, BStr (snd kh))) K) =
              sort_kvs (map (fun kh : bytes * bytes => (fst kh, BStr (snd kh))) K')).
  { apply sort_kvs_ext.
    - now rewrite map_fst_map.
    - now rewrite map_fst_map.
    - intros k. now rewrite !assoc_map, E. }
  now rewrite X.
Qed.

Section Key.
  Variable H : bytes -> bytes.
  Hypothesis H_inj : forall a b, H a = H b -> a = b.

  Lemma eval_hash_inj cfg blank sg conf th th' c c' :
    eval_fields cfg = [0; 1]%nat ->
    call_eval_hash H cfg blank sg conf th c = call_eval_hash H cfg blank sg conf th' c' ->
    th = th' /\ call_args_struct cfg blank sg conf c = call_args_struct cfg blank sg conf c'.
  Proof.
    unfold call_eval_hash. intros F E.
    apply H_inj in E. unfold eval_pre in E. apply pre_struct_inj in E.
    remember (call_args_hash H cfg blank sg conf c) as a eqn:Ea.
    remember (call_args_hash H cfg blank sg conf c') as a' eqn:Ea'.
    unfold eval_struct in E. rewrite F in E. unfold layout, pick in E. cbn [map nth] in E.
    injection E as E1 E2. subst a a'. split; auto.
    unfold call_args_hash in E2. apply H_inj in E2. unfold call_args_pre in E2.
    now apply pre_struct_inj in E2.
  Qed.

  (** Sensitivity: equal keys force equal task hashes and equal slot maps. *)
  Theorem fixed_key_determines blank sg conf th th' c c' :
    NoDup (all_names sg) ->
    NoDup (map fst (c_kwargs c)) -> NoDup (map fst (c_kwargs c')) ->
    Forall (blank_ok blank) (c_args c) -> Forall (blank_ok blank) (c_args c') ->
    call_eval_hash H fixed blank sg conf th c = call_eval_hash H fixed blank sg conf th' c' ->
    th = th' /\ forall s, arg_hash sg conf c s = arg_hash sg conf c' s.
  Proof.
    intros N Nk Nk' B B' E. apply eval_hash_inj in E; [|reflexivity]. destruct E as [Et Es].
    split; auto. unfold call_args_struct in Es.
    apply args_struct_inj in Es; [|reflexivity| |].
    2,3: apply kwargs2_NoDup, merged_fixed_NoDup; auto.
    destruct Es as [EL ED]. intros s.
    rewrite <- (fixed_decode blank sg conf c s N Nk B), <- (fixed_decode blank sg conf c' s N Nk' B').
    rewrite EL. apply decode_ext. exact ED.
  Qed.
End Key.
