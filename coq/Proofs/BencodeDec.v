From Coq Require Import List ZArith Ascii Bool Lia Arith.
From RV Require Import Base.Decimal Base.DecimalFacts Model.Bencode Proofs.BencodeFacts.
Import ListNotations.
Open Scope list_scope.
Open Scope char_scope.

Lemma read_until_app c x r : ~ In c x -> read_until c (x ++ c :: r) = Some (x, r).
Proof.
  induction x as [|a x IH]; simpl; intros H.
  - now rewrite Ascii.eqb_refl.
  - destruct (Ascii.eqb_spec a c) as [->|_]; [exfalso; auto|].
    rewrite IH; auto.
Qed.

Lemma dec_int_enc z r : dec_int (dec_of_Z z ++ "e" :: r) = DOk (BInt z) r.
Proof.
  unfold dec_int. rewrite read_until_app.
  - now rewrite parse_dec_of_Z.
  - apply dec_chars_not; [reflexivity|apply dec_of_Z_chars].
Qed.

Lemma dec_buffer_enc s r : dec_buffer (enc_str s ++ r) = DOk (BStr s) r.
Proof.
  unfold dec_buffer, enc_str. rewrite <- app_assoc. simpl. rewrite read_until_app.
  - unfold dec_of_nat. rewrite parse_dec_of_Z.
    destruct (Z.ltb_spec (Z.of_nat (length s)) 0) as [H|_]; [lia|].
    rewrite Nat2Z.id. rewrite app_length.
    destruct (Nat.leb_spec (length s) (length s + length r)) as [_|H]; [|lia].
    rewrite firstn_app, Nat.sub_diag, firstn_all. simpl. rewrite app_nil_r.
    rewrite skipn_app, Nat.sub_diag, skipn_all. reflexivity.
  - apply digit_chars_not; [reflexivity|apply dec_of_nat_chars].
Qed.

Lemma lookup_digit c : is_digit c = true -> lookup_table c (decode_table shipped) = Some 4%nat.
Proof.
  destruct c as [[] [] [] [] [] [] [] []]; vm_compute; congruence.
Qed.

Lemma dec_unfold f c r : dec (S f) (c :: r) =
  match lookup_table c (decode_table shipped) with
  | Some 0%nat => dec_int r
  | Some 1%nat => list_items (dec f) f r []
  | Some 2%nat => dict_items (dec f) f r []
  | Some 3%nat => DEnd r
  | Some 4%nat => dec_buffer (c :: r)
  | _ => DErr
  end.
Proof. reflexivity. Qed.

Lemma dec_step_str f s r : dec (S f) (enc_str s ++ r) = DOk (BStr s) r.
Proof.
  destruct (enc_str_head s) as (c & t & E & Hc).
  rewrite E. cbn [app]. rewrite dec_unfold, (lookup_digit c Hc).
  change (c :: t ++ r) with ((c :: t) ++ r). rewrite <- E. apply dec_buffer_enc.
Qed.

Lemma list_items_enc f l : forall n acc r,
  Forall (fun x => forall r, dec f (enc x ++ r) = DOk x r) l ->
  length l < n -> (forall r, dec f ("e" :: r) = DEnd r) ->
  list_items (dec f) n (flat_map enc l ++ "e" :: r) acc = DOk (BList (rev acc ++ l)) r.
Proof.
  induction l as [|x l IH]; intros n acc r Hl Hn He.
  - destruct n; [lia|]. simpl. rewrite He. now rewrite app_nil_r.
  - destruct n; [simpl in Hn; lia|]. inversion Hl as [|? ? Hx Hl']; subst.
    simpl. rewrite <- app_assoc, Hx. rewrite IH; auto; [|simpl in Hn; lia].
    simpl. now rewrite <- app_assoc.
Qed.

Lemma dict_items_enc f kvs : forall n acc r,
  Forall (fun kv => forall r, dec f (enc (snd kv) ++ r) = DOk (snd kv) r) kvs ->
  length kvs < n -> (forall r, dec f ("e" :: r) = DEnd r) ->
  (forall s r, dec f (enc_str s ++ r) = DOk (BStr s) r) ->
  dict_items (dec f) n (enc_items kvs ++ "e" :: r) acc = DOk (BDict (rev acc ++ kvs)) r.
Proof.
  induction kvs as [|[k v] l IH]; intros n acc r Hl Hn He Hs.
  - destruct n; [lia|]. simpl. rewrite He. now rewrite app_nil_r.
  - destruct n; [simpl in Hn; lia|]. inversion Hl as [|? ? Hx Hl']; subst.
    simpl. rewrite <- !app_assoc, Hs. simpl in Hx. rewrite Hx. rewrite IH; auto; [|simpl in Hn; lia].
    simpl. now rewrite <- app_assoc.
Qed.

Lemma fold_size_ge_length l : length l <= fold_right (fun x a => size x + a) 0 l.
Proof. induction l as [|x l IH]; simpl; [lia|]. destruct x; simpl in *; lia. Qed.

Lemma fold_size_ge_length_kv (l : list (bytes * data)) :
  length l <= fold_right (fun kv a => S (size (snd kv)) + a) 0 l.
Proof. induction l as [|x l IH]; cbn [fold_right length]; lia. Qed.

Theorem dec_enc : forall x fuel r, size x < fuel -> dec fuel (enc x ++ r) = DOk x r.
Proof.
  induction x as [z|s|l IH|kvs IH] using data_ind'; intros fuel r Hf.
  - destruct fuel; [lia|]. cbn [enc app]. rewrite dec_unfold. cbn. rewrite <- app_assoc. apply dec_int_enc.
  - destruct fuel; [lia|]. apply dec_step_str.
  - destruct fuel as [|f]; [lia|]. simpl in Hf. cbn [enc app]. rewrite dec_unfold. cbn [lookup_table].
    change (lookup_table "l" (decode_table shipped)) with (Some 1%nat). cbn iota.
    rewrite <- app_assoc. cbn [app].
    rewrite (list_items_enc f l f [] r); auto.
    + rewrite Forall_forall in IH. apply Forall_forall. intros x Hin r0. apply IH; auto.
      clear - Hin Hf. induction l as [|y l IHl]; simpl in *; [tauto|].
      destruct Hin as [->|Hin]; [lia|]. apply IHl; auto. lia.
    + generalize (fold_size_ge_length l). lia.
    + intros r0. destruct f; [lia|]. reflexivity.
  - destruct fuel as [|f]; [lia|]. cbn [size] in Hf. rewrite enc_dict_items.
    cbn [app]. rewrite dec_unfold.
    change (lookup_table "d" (decode_table shipped)) with (Some 2%nat). cbn iota.
    rewrite <- app_assoc. cbn [app].
    rewrite (dict_items_enc f kvs f [] r); auto.
    + rewrite Forall_forall in IH. apply Forall_forall. intros x Hin r0. apply IH; auto.
      clear - Hin Hf. induction kvs as [|y l IHl]; cbn [fold_right In] in *; [tauto|].
      destruct Hin as [->|Hin]; [lia|]. apply IHl; auto. lia.
    + generalize (fold_size_ge_length_kv kvs). lia.
    + intros r0. destruct f; [lia|]. reflexivity.
    + intros s r0. destruct f; [lia|]. apply dec_step_str.
Qed.

Lemma size_le_length x : size x <= length (enc x).
Proof.
  induction x as [z|s|l IH|kvs IH] using data_ind'.
  - simpl. lia.
  - simpl. unfold enc_str. rewrite app_length. simpl. lia.
  - simpl. rewrite app_length. simpl.
    enough (fold_right (fun x a => size x + a) 0 l <= length (flat_map enc l)) by lia.
    induction IH as [|x l Hx _ IHl]; simpl; [lia|]. rewrite app_length. lia.
  - rewrite enc_dict_items. cbn [size length]. rewrite app_length. cbn [length].
    enough (fold_right (fun kv a => S (size (snd kv)) + a) 0 kvs <= length (enc_items kvs)) by lia.
    induction IH as [|[k v] l Hx _ IHl]; cbn [fold_right enc_items length snd]; [lia|]. rewrite !app_length.
    cbn [snd] in Hx. unfold enc_str. rewrite app_length. cbn [length]. lia.
Qed.

Theorem bdecode_bencode x : bdecode (enc x) = DOk x [].
Proof.
  unfold bdecode. rewrite <- (app_nil_r (enc x)) at 2. apply dec_enc.
  generalize (size_le_length x). lia.
Qed.
