(** No lost events (C09): every job whose phase promises a queued event has that event in the queue, every waiting
    job is in the waiting list, every collapsed job is registered with its twin.  With the discipline [Q] this gives:
    when the queue is empty, no job is with an executor or being evaluated, and nobody waits for resources, every job
    has ended. *)
From Coq Require Import List ZArith Bool Arith Lia.
From RV Require Import Model.JobMachine Proofs.JobBase Proofs.JobDup Proofs.JobDup2.
Import ListNotations.
Open Scope list_scope.

Definition has_event (s : state) (j : nat) (x : job) : Prop :=
  match jphase x with
  | PQueued => In (EvExec j) (queue s)
  | PCacheQ | PReported => In (EvDone j) (queue s) \/ exists e, In (EvReject j e) (queue s)
  | PEvalQ => (exists v, In (EvResolve j v) (queue s)) \/ exists e, In (EvReject j e) (queue s)
  | PWaiting => In j (waiting s)
  | PCollapsed t => In (t, j) (subs s)
  | _ => True
  end.

(** [ex]: the job whose event has just been popped (its handler is running) *)
Definition R (ex : option nat) (s : state) : Prop :=
  forall j x, getj s j = Some x -> ex <> Some j -> has_event s j x.

Lemma R_init : R None init.
Proof. intros j x H. unfold getj in H. simpl in H. destruct j; discriminate. Qed.

Lemma R_weaken s j : R None s -> R (Some j) s.
Proof. intros H k x Hx _. apply H; auto. discriminate. Qed.

(** monotone in queue / waiting / subs *)
Lemma has_event_mono s s' j x :
  (forall e, In e (queue s) -> In e (queue s')) -> (forall k, In k (waiting s) -> In k (waiting s')) ->
  (forall p, In p (subs s) -> In p (subs s')) -> has_event s j x -> has_event s' j x.
Proof.
  intros Hq Hw Hs H. unfold has_event in *. destruct (jphase x); auto.
  - destruct H as [H|(e & H)]; [left; auto|right; exists e; auto].
  - destruct H as [H|(e & H)]; [left; auto|right; exists e; auto].
  - destruct H as [(v & H)|(e & H)]; [left; exists v; auto|right; exists e; auto].
Qed.

(** setting job [j] (whose obligation is re-established by [Hy]) and appending events *)
Lemma R_upd ex ex' s j x y es s' :
  R ex s -> getj s j = Some x ->
  jobs s' = set_nth (jobs s) j y -> queue s' = queue s ++ es ->
  (forall k, In k (waiting s) -> In k (waiting s')) -> (forall p, In p (subs s) -> In p (subs s')) ->
  (ex' <> Some j -> has_event s' j y) ->
  (forall k, k <> j -> ex' <> Some k -> ex <> Some k) -> R ex' s'.
Proof.
  intros HR Hx Ej Eqq Hw Hs Hy Hex k z Hz Hk'.
  assert (Hz' : getj (setj s j y) k = Some z) by (unfold getj in *; simpl; rewrite <- Ej; exact Hz).
  destruct (getj_setj_cases s j x y k z Hx Hz') as [[-> ->]|[Hk Hzk]]; [exact (Hy Hk')|].
  apply (has_event_mono s s'); auto.
  intros e He. rewrite Eqq. apply in_or_app. now left.
Qed.

(** every job of [s'] is an untouched job of [s], or its obligation is shown directly *)
Lemma R_frame ex ex' s s' :
  R ex s ->
  (forall e, In e (queue s) -> In e (queue s') \/ (exists j, ex' = Some j /\ evj e = j)) ->
  (forall k, In k (waiting s) -> In k (waiting s')) -> (forall p, In p (subs s) -> In p (subs s')) ->
  (forall k z, getj s' k = Some z -> ex' <> Some k ->
     (getj s k = Some z /\ ex <> Some k) \/ has_event s' k z) ->
  R ex' s'.
Proof.
  intros HR Hq Hw Hs Hj k z Hz Hex. destruct (Hj k z Hz Hex) as [[Hzk Hk]|H]; [|exact H].
  pose proof (HR k z Hzk Hk) as H. unfold has_event in *.
  assert (Q1 : forall e, evj e = k -> In e (queue s) -> In e (queue s')).
  { intros e Ee He. destruct (Hq e He) as [H1|(j & Ej & Ek)]; [exact H1|]. exfalso. apply Hex. congruence. }
  destruct (jphase z); auto.
  - destruct H as [H|(e & H)]; [left; apply Q1; auto|right; exists e; apply Q1; auto].
  - destruct H as [H|(e & H)]; [left; apply Q1; auto|right; exists e; apply Q1; auto].
  - destruct H as [(v & H)|(e & H)]; [left; exists v; apply Q1; auto|right; exists e; apply Q1; auto].
Qed.

Lemma in_remove_nth_other {A} (q : list A) i e0 e :
  nth_error q i = Some e0 -> In e q -> e <> e0 -> In e (remove_nth q i).
Proof.
  revert i. induction q as [|a q IH]; intros [|i]; simpl; try discriminate.
  - intros [= ->] [H|H] Hne; auto; congruence.
  - intros Hn [H|H] Hne; [auto|right; eauto].
Qed.

Lemma R_pop s i e : R None s -> nth_error (queue s) i = Some e -> R (Some (evj e)) (pop_queue s i).
Proof.
  intros HR Hn. apply (R_frame None (Some (evj e)) s (pop_queue s i)); auto.
  - intros e' He'. destruct (Nat.eq_dec (evj e') (evj e)) as [E|E].
    + right. exists (evj e). auto.
    + left. simpl. apply (in_remove_nth_other _ _ e); auto. intros ->. now apply E.
  - intros k z Hz Hex. left. split; [exact Hz|discriminate].
Qed.

Section RC.
Variable c : config.

(** * _check_jobs_pending_limits *)
Lemma split_ready_cover s : forall w lim a b, split_ready c s w lim = (a, b) ->
  forall k, In k w -> getj s k <> None -> In k a \/ In k b.
Proof.
  induction w as [|j r IH]; intros lim a b H k Hk Hg; [contradiction|]. simpl in H.
  destruct (getj s j) as [x|] eqn:Hx.
  - destruct (within c (used s) (add_limits (jlimits x) lim)).
    + destruct (split_ready c s r (add_limits (jlimits x) lim)) as [a' b'] eqn:E. injection H as <- <-.
      destruct Hk as [->|Hk]; [left; now left|]. destruct (IH _ _ _ E k Hk Hg); [left; now right|right; auto].
    + destruct (split_ready c s r lim) as [a' b'] eqn:E. injection H as <- <-.
      destruct Hk as [->|Hk]; [right; now left|]. destruct (IH _ _ _ E k Hk Hg); [left; auto|right; now right].
  - destruct Hk as [->|Hk]; [congruence|]. eapply IH; eauto.
Qed.

(** jobs of the list become queued with their Exec event; all others are untouched *)
Lemma fold_requeue_jobs l : forall s k z, NoDup l -> getj (fold_left requeue l s) k = Some z ->
  (~ In k l /\ getj s k = Some z) \/ (In k l /\ jphase z = PQueued /\ In (EvExec k) (queue (fold_left requeue l s))).
Proof.
  induction l as [|a l IH]; intros s k z Hn H; simpl in *; [left; auto|].
  inversion Hn as [|? ? Ha Hn']; subst. destruct (IH _ _ _ Hn' H) as [[Hk Hz]|(Hk & P & Q1)].
  - unfold requeue in Hz. destruct (getj s a) as [x|] eqn:Hx.
    + destruct (Nat.eq_dec a k) as [->|Hne].
      * right. split; [now left|]. change (getj (setj s k (with_phase x PQueued)) k = Some z) in Hz.
        rewrite (getj_setj_same _ _ _ _ Hx) in Hz. injection Hz as <-. split; [reflexivity|].
        assert (M : forall l0 s0 e, In e (queue s0) -> In e (queue (fold_left requeue l0 s0))).
        { induction l0 as [|b l0 IHl]; intros s0 e He; simpl; [exact He|]. apply IHl. unfold requeue.
          destruct (getj s0 b); [simpl; apply in_or_app; now left|exact He]. }
        apply M. unfold requeue. rewrite Hx. simpl. apply in_or_app. right. now left.
      * left. split; [intros [E|E]; [contradiction|contradiction]|].
        change (getj (setj s a (with_phase x PQueued)) k = Some z) in Hz. rewrite getj_setj_other in Hz by exact Hne. exact Hz.
    + left. split; [|exact Hz]. intros [E|E]; [|contradiction]. subst a. congruence.
  - right. split; [now right|auto].
Qed.

Lemma R_check_pending ex s : NoDup (waiting s) -> R ex s -> R ex (check_pending_limits c s).
Proof.
  intros HQ HR. unfold check_pending_limits. destruct (split_ready c s (waiting s) []) as [a b] eqn:E.
  destruct (split_ready_spec c s _ _ _ _ E) as (A & B & C). destruct (C HQ) as (Na & Nb & D).
  set (s0 := set_waiting s b). set (s' := fold_left requeue a s0).
  assert (Wq : forall l s1, waiting (fold_left requeue l s1) = waiting s1).
  { induction l as [|x l IH]; intros s1; simpl; [reflexivity|]. rewrite IH. apply waiting_requeue. }
  assert (Sq : forall l s1, subs (fold_left requeue l s1) = subs s1).
  { induction l as [|x l IH]; intros s1; simpl; [reflexivity|]. rewrite IH. unfold requeue. destruct (getj s1 x); reflexivity. }
  assert (Mq : forall l s1 e, In e (queue s1) -> In e (queue (fold_left requeue l s1))).
  { induction l as [|x l IH]; intros s1 e He; simpl; [exact He|]. apply IH. unfold requeue.
    destruct (getj s1 x); [simpl; apply in_or_app; now left|exact He]. }
  intros k z Hz Hex. fold s' in Hz.
  destruct (fold_requeue_jobs a s0 k z Na Hz) as [[Hk Hzk]|(Hk & P & Q1)].
  - change (getj s k = Some z) in Hzk. pose proof (HR k z Hzk Hex) as H.
    unfold has_event in *. fold s'. unfold s'. rewrite Wq, Sq. simpl.
    destruct (jphase z) eqn:Pz; auto.
    + (* waiting: stays in the not-ready part *)
      destruct (split_ready_cover s _ _ _ _ E k H) as [Ha|Hb]; [congruence|contradiction|exact Hb].
    + destruct H as [H|(e & H)]; [left; apply Mq; exact H|right; exists e; apply Mq; exact H].
    + destruct H as [H|(e & H)]; [left; apply Mq; exact H|right; exists e; apply Mq; exact H].
    + destruct H as [(v & H)|(e & H)]; [left; exists v; apply Mq; exact H|right; exists e; apply Mq; exact H].
  - unfold has_event. rewrite P. exact Q1.
Qed.

Lemma R_skip ex s : NoDup (waiting s) -> R ex s -> R ex (skip_wakeup c s).
Proof. intros Hn HR. unfold skip_wakeup. destruct (recheck_on_skip (vr c)); [now apply R_check_pending|exact HR]. Qed.

Lemma R_none_of ex s j : R (Some j) s -> getj s j = None -> R ex s.
Proof. intros HR Hn k z Hz _. apply HR; [exact Hz|]. intros [= ->]. congruence. Qed.

(** * release *)
Lemma R_maybe_release ex s j : NoDup (waiting s) -> R ex s -> R ex (maybe_release c s j).
Proof.
  intros Hn HR. unfold maybe_release. destruct (getj s j) as [x|] eqn:Hx; [|exact HR].
  destruct (if release_if_holds (vr c) then jholds x else negb (jcached x)); [|exact HR].
  apply R_check_pending; [exact Hn|].
  apply (R_upd ex ex s j x (bump_release x) []); auto.
  - simpl. now rewrite app_nil_r.
  - intros Hex. exact (HR j x Hx Hex).
Qed.

(** * _done_job_main_thread *)
Lemma R_done_job s j : NoDup (waiting s) -> R (Some j) s -> R None (done_job c s j).
Proof.
  intros Hn HR. unfold done_job. set (s1 := maybe_release c s j).
  assert (R1 : R (Some j) s1) by (apply R_maybe_release; auto).
  destruct (getj s1 j) as [y|] eqn:Hy; [|apply (R_none_of None s1 j); auto].
  destruct (jpreset y) as [v|].
  - apply (R_upd (Some j) None s1 j y (with_phase y PEvalQ) [EvResolve j v]); auto.
    + intros _. unfold has_event. simpl. left. exists v. apply in_or_app. right. now left.
    + intros k Hk _ [= E]. apply Hk. symmetry. exact E.
  - apply (R_upd (Some j) None s1 j y (with_phase y PEvaluating) []); auto.
    + simpl. now rewrite app_nil_r.
    + intros _. exact I.
    + intros k Hk _ [= E]. apply Hk. symmetry. exact E.
Qed.

Hypothesis Hsafe : pending_owner_safe (vr c) = true.

(** * settling *)
Lemma R_settle_one ex s t o : R ex s -> ex = Some t \/ ex = None -> R None (settle_one c s t o).
Proof.
  intros HR Hex. destruct (getj s t) as [x|] eqn:Hx.
  - destruct (settle_one_core c Hsafe s t x o Hx) as (E1 & E2 & _ & E4 & E5).
    apply (R_upd ex None s t x (with_phase x (PSettled o)) []); auto.
    + rewrite E2. simpl. now rewrite app_nil_r.
    + intros k Hk. rewrite E4. exact Hk.
    + intros p Hp. rewrite E5. exact Hp.
    + intros _. exact I.
    + intros k Hk _. destruct Hex as [-> | ->]; [intros [= E]; apply Hk; symmetry; exact E|discriminate].
  - unfold settle_one. rewrite Hx. destruct Hex as [-> | ->]; [apply (R_none_of None s t); auto|exact HR].
Qed.

Lemma R_notify s o k : R None s -> R None (notify_sub c o s k).
Proof.
  intros HR. unfold notify_sub. destruct (getj s k) as [y|] eqn:Hy; [|exact HR]. destruct o as [v|e].
  - apply (R_upd None None s k y (mark_cached y (Some v) PCacheQ) [EvDone k]); auto.
    intros _. unfold has_event. simpl. left. apply in_or_app. right. now left.
  - apply (R_settle_one None); [|now right].
    apply (R_upd None None s k y (mark_cached y None (jphase y)) []); auto.
    + simpl. now rewrite app_nil_r.
    + intros Hex. exact (HR k y Hy Hex).
Qed.

Lemma R_fold_notify o l : forall s, R None s -> R None (fold_left (notify_sub c o) l s).
Proof. induction l as [|k l IH]; intros s HR; simpl; [exact HR|]. apply IH. now apply R_notify. Qed.

Lemma R_settle s t o : R (Some t) s -> R None (settle c s t o).
Proof.
  intros HR. unfold settle. destruct (getj s t) as [x|] eqn:Hx; [|apply (R_none_of None s t); auto].
  apply R_fold_notify. apply (R_settle_one (Some t)); auto.
Qed.

(** * _exec_job_main_thread *)
Lemma R_exec_job s j x co : NoDup (waiting s) -> R (Some j) s -> getj s j = Some x -> ~ In j (waiting s) ->
  R None (exec_job c s j co).
Proof.
  intros Hn HR Hx Hnw.
  assert (Hex : forall k, k <> j -> None <> Some k -> Some j <> Some k) by (intros k Hk _ [= E]; apply Hk; symmetry; exact E).
  unfold exec_job. rewrite Hx.
  destruct (if jnocse x then None else lookup_pending s (jkey x, jctx x)) as [t|].
  { apply R_skip; [exact Hn|].
    apply (R_upd (Some j) None s j x (with_phase x (PCollapsed t)) []); auto.
    - simpl. now rewrite app_nil_r.
    - intros p Hp. simpl. apply in_or_app. now left.
    - intros _. unfold has_event. simpl. apply in_or_app. right. now left. }
  assert (KD : forall y e, (jphase y = PCacheQ \/ jphase y = PReported) ->
             (e = EvDone j \/ exists e0, e = EvReject j e0) -> R None (enqueue (setj s j y) e)).
  { intros y e Py He. apply (R_upd (Some j) None s j x y [e]); auto. intros _. unfold has_event.
    assert (Hin : In e (queue (enqueue (setj s j y) e))) by (simpl; apply in_or_app; right; now left).
    destruct Py as [-> | ->]; (destruct He as [-> |(e0 & ->)]; [left; exact Hin|right; exists e0; exact Hin]). }
  match goal with |- R None (match ?h with _ => _ end) => destruct h as [[v|e]|] end.
  - apply R_skip; [exact Hn|]. apply KD; simpl; auto.
  - apply R_skip; [exact Hn|]. apply KD; simpl; eauto.
  - destruct (dryrun c).
    + destruct (jbadexec x).
      * apply KD; simpl; eauto.
      * apply (R_upd (Some j) None s j x (with_phase x PDryStop) []); auto.
        -- simpl. now rewrite app_nil_r.
        -- intros _. exact I.
    + destruct (negb (within c (used s) (jlimits x))).
      * apply (R_upd (Some j) None s j x (with_phase x PWaiting) []); auto.
        -- simpl. now rewrite app_nil_r.
        -- intros k Hk. simpl. apply in_or_app. now left.
        -- intros _. unfold has_event. simpl. apply in_or_app. right. now left.
      * destruct (jbadexec x).
        -- apply (R_upd (Some j) None s j x (mark_holds x PReported) [EvReject j 0%Z]); auto.
           intros _. unfold has_event. simpl. right. exists 0%Z. apply in_or_app. right. now left.
        -- apply (R_upd (Some j) None s j x (mark_submitted (mark_holds x PSubmitted)) []); auto.
           ++ simpl. now rewrite app_nil_r.
           ++ intros _. exact I.
Qed.

(** * every step keeps [R] *)
Lemma R_step s o : Q s -> R None s -> R None (step c s o).
Proof.
  intros HQ HR. pose proof (q_wn _ s HQ) as Hn. destruct o as [key ctx l nocse prov bad|k j0 co|j ok e|j o].
  - cbn [step]. intros k z Hz _. unfold getj in Hz. simpl in Hz.
    destruct (Nat.lt_ge_cases k (length (jobs s))) as [Hlt|Hge].
    + rewrite nth_error_app1 in Hz by exact Hlt.
      apply (has_event_mono s); auto; [intros e0 He0; simpl; apply in_or_app; now left|].
      apply HR; [exact Hz|discriminate].
    + rewrite nth_error_app2 in Hz by exact Hge. destruct (k - length (jobs s)) as [|d] eqn:Ed.
      * simpl in Hz. injection Hz as <-. assert (k = length (jobs s)) as -> by lia.
        unfold has_event. simpl. apply in_or_app. right. now left.
      * simpl in Hz. destruct d; discriminate.
  - cbn [step]. set (i := find_event (queue s) k j0 0).
    destruct (nth_error (queue s) i) as [ev|] eqn:En; [|exact HR].
    pose proof (R_pop s i ev HR En) as Rp. pose proof (nth_error_In _ _ En) as Hin.
    destruct ev as [j|j|j e|j v]; simpl in Rp.
    + destruct (q_ex _ s HQ j Hin) as (x & Hx & P). apply (R_exec_job (pop_queue s i) j x co); auto.
      intros Hw. destruct (q_wt _ s HQ j Hw) as (z & Hz & Pz). congruence.
    + apply R_done_job; auto.
    + unfold reject_job. apply R_settle. apply R_maybe_release; auto.
    + unfold resolve_job. apply R_settle. exact Rp.
  - cbn [step]. unfold phase_is. destruct (getj s j) as [x|] eqn:Hx; [|exact HR].
    destruct (jphase x) eqn:P; try exact HR.
    apply (R_upd None None s j x (with_phase x PReported) [if ok then EvDone j else EvReject j e]); auto.
    intros _. unfold has_event. simpl. destruct ok; [left|right; exists e]; apply in_or_app; right; now left.
  - cbn [step]. unfold phase_is. destruct (getj s j) as [x|] eqn:Hx; [|exact HR].
    destruct (jphase x) eqn:P; try exact HR.
    apply (R_upd None None s j x (with_phase x PEvalQ) [match o with Ok v => EvResolve j v | Ko e => EvReject j e end]); auto.
    intros _. unfold has_event. simpl. destruct o as [v|e]; [left; exists v|right; exists e]; apply in_or_app; right; now left.
Qed.

Theorem R_run ops : R None (run c ops).
Proof.
  induction ops as [|o l IH] using rev_ind; [apply R_init|].
  unfold run. rewrite fold_left_app. simpl. fold (run c l). apply R_step; [|exact IH]. apply Q_run. exact Hsafe.
Qed.

(** * quiescent => every job has ended *)
Definition ended (x : job) : Prop := (exists o, jphase x = PSettled o) \/ jphase x = PDryStop.

Theorem quiescent_all_ended ops :
  queue (run c ops) = [] -> waiting (run c ops) = [] ->
  (forall j x, getj (run c ops) j = Some x -> jphase x <> PSubmitted /\ jphase x <> PEvaluating) ->
  forall j x, getj (run c ops) j = Some x -> ended x.
Proof.
  intros Hq Hw Hrun j x Hx. pose proof (R_run ops) as HR. pose proof (Q_run c Hsafe ops) as HQ.
  set (s := run c ops) in *.
  assert (HE : forall k z, getj s k = Some z -> has_event s k z) by (intros k z Hz; apply HR; [exact Hz|discriminate]).
  assert (NR : forall k z, getj s k = Some z -> runph (jphase z) -> False).
  { intros k z Hz Hr. pose proof (HE k z Hz) as H. unfold has_event in H. rewrite Hq in H.
    destruct (Hrun k z Hz) as [N1 N2].
    destruct Hr as [E|[E|[E|E]]]; [congruence| |congruence| ]; rewrite E in H.
    - destruct H as [H|(e & H)]; contradiction.
    - destruct H as [(v & H)|(e & H)]; contradiction. }
  pose proof (HE j x Hx) as H. unfold has_event in H. rewrite Hq, Hw in H. unfold ended.
  destruct (Hrun j x Hx) as [N1 N2].
  destruct (jphase x) as [| |t| | | | | |o|] eqn:P.
  - contradiction.
  - contradiction.
  - (* collapsed: its target would be running or settled *)
    destruct (q_sb _ s HQ t j H) as (_ & _ & xt & xj & Hxt & Hxj & _ & [Hr|(o & Ho)] & D).
    + exfalso. exact (NR t xt Hxt Hr).
    + exfalso. rewrite Hx in Hxj. injection Hxj as <-. unfold Dstd, dup_ok in D. rewrite Ho, P in D.
      destruct o as [v|e]; [destruct D as [[_ [D|D]]|D]; discriminate|discriminate].
  - congruence.
  - exfalso. destruct H as [H|(e & H)]; contradiction.
  - exfalso. destruct H as [H|(e & H)]; contradiction.
  - congruence.
  - exfalso. destruct H as [(v & H)|(e & H)]; contradiction.
  - left. eauto.
  - now right.
Qed.
End RC.
