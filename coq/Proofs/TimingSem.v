(** The schedule-free meaning of a call: result value and call-node tree as a derivation that only
    mentions the program ([body]) — the "Spec derivation" of DESIGN §6 C07.  Every Handle that is
    passed to a call is forked with the call order of a FIRST fork ([first_order]); the derivation
    is deterministic.  The machine of Model/Timing.v follows it exactly when every job's
    preprocessed arguments are the first-fork ones (Proofs/TimingInv.v). *)
From Coq Require Import List ZArith Bool Arith Lia.
From RV Require Import Model.Timing Proofs.TimingBase.
Import ListNotations.
Open Scope list_scope.

Section Sem.
  Variable c : cfg.
  Variable body : nat -> list value -> expr.

  Definition pre1 (raw : list value) : list value := keys_l c (first_order c) raw.

  Inductive evalE : expr -> value -> Prop :=
  | EE_val : forall v, evalE (EVal v) v
  | EE_list : forall l vs, evalEs l vs -> evalE (EList l) (VList vs)
  | EE_call : forall t a raws r n, evalEs a raws -> eval t (pre1 raws) r n -> evalE (ECall t a) r
  with evalEs : list expr -> list value -> Prop :=
  | EEs_nil : evalEs [] []
  | EEs_cons : forall e v l vs, evalE e v -> evalEs l vs -> evalEs (e :: l) (v :: vs)
  with eval : nat -> list value -> value -> cnode -> Prop :=
  | E_intro : forall t pre res ns,
      evalE (post_e t pre (body t pre)) res ->
      evalCs (calls_of (post_e t pre (body t pre))) ns ->
      eval t pre res (CN t pre res ns)
  with evalCs : list call -> list cnode -> Prop :=
  | ECs_nil : evalCs [] []
  | ECs_cons : forall t a raws r n cs ns,
      evalEs a raws -> eval t (pre1 raws) r n -> evalCs cs ns -> evalCs ((t, a) :: cs) (n :: ns).

  Scheme evalE_mut := Induction for evalE Sort Prop
    with evalEs_mut := Induction for evalEs Sort Prop
    with eval_mut := Induction for eval Sort Prop
    with evalCs_mut := Induction for evalCs Sort Prop.
  Combined Scheme eval_mutind from evalE_mut, evalEs_mut, eval_mut, evalCs_mut.

  Theorem eval_deterministic :
    (forall e v, evalE e v -> forall v', evalE e v' -> v = v') /\
    (forall l vs, evalEs l vs -> forall vs', evalEs l vs' -> vs = vs') /\
    (forall t pre r n, eval t pre r n -> forall r' n', eval t pre r' n' -> r = r' /\ n = n') /\
    (forall cs ns, evalCs cs ns -> forall ns', evalCs cs ns' -> ns = ns').
  Proof.
    apply eval_mutind; intros;
      (* the newest hypothesis is the second derivation *)
      match goal with H : _ |- _ => inversion H; subst; clear H end;
      repeat match goal with
             | IH : forall v', evalE ?e v' -> _ = v', H : evalE ?e _ |- _ => apply IH in H; subst
             | IH : forall v', evalEs ?e v' -> _ = v', H : evalEs ?e _ |- _ => apply IH in H; subst
             | IH : forall v', evalCs ?e v' -> _ = v', H : evalCs ?e _ |- _ => apply IH in H; subst
             | IH : forall r' n', eval ?t ?p r' n' -> _ /\ _, H : eval ?t ?p _ _ |- _ =>
                 apply IH in H; destruct H; subst
             end; auto.
  Qed.

  Lemma evalEs_vals vs : evalEs (map EVal vs) vs.
  Proof. induction vs; simpl; constructor; auto. constructor. Qed.

  Lemma evalEs_vals_inv vs raw : evalEs (map EVal vs) raw -> raw = vs.
  Proof.
    intro H. destruct eval_deterministic as (_ & D & _). symmetry. eapply D; eauto. apply evalEs_vals.
  Qed.

  (** An environment (calls with positional results) is sound when every available result is the
      meaning of its call. *)
  Definition env_sound (calls : list call) (rs : list (option value)) : Prop :=
    forall i t a r, nth_error calls i = Some (t, a) -> nth_error rs i = Some (Some r) -> evalE (ECall t a) r.

  Lemma subst_sound calls rs :
    env_sound calls rs ->
    forall e v, subst calls rs e = Some v -> evalE e v.
  Proof.
    intro ES. induction e as [v0|l IH|t l IH] using expr_ind'; intros v E; simpl in E.
    - inversion E. constructor.
    - destruct (mapM (subst calls rs) l) as [vs|] eqn:M; simpl in E; try discriminate. inversion E. subst.
      constructor. clear E. revert vs M. induction IH as [|x l Hx Hl IHl]; intros vs M; simpl in M.
      + inversion M. constructor.
      + destruct (subst calls rs x) eqn:Sx; try discriminate. destruct (mapM (subst calls rs) l) eqn:Ml; try discriminate.
        inversion M. subst. constructor; auto.
    - destruct (index_of (t, l) calls) as [i|] eqn:I; try discriminate.
      destruct (nth_error rs i) as [[r|]|] eqn:N; try discriminate. inversion E. subst.
      eapply ES; eauto. now apply index_of_sound.
  Qed.

  Lemma mapM_subst_sound calls rs :
    env_sound calls rs ->
    forall l vs, mapM (subst calls rs) l = Some vs -> evalEs l vs.
  Proof.
    intros ES l. induction l as [|x l IH]; intros vs M; simpl in M.
    - inversion M. constructor.
    - destruct (subst calls rs x) eqn:Sx; try discriminate. destruct (mapM (subst calls rs) l) eqn:Ml; try discriminate.
      inversion M. subst. constructor; auto. eapply subst_sound; eauto.
  Qed.
End Sem.
