(** C23 — boolean versions of the premises of the theorems, so that they can be evaluated on
    the witness and on the dumps of real databases. *)
From Coq Require Import List NArith Bool Arith Lia.
From RV Require Import Model.Transfer Proofs.TransferBase Proofs.TransferWalk Proofs.TransferMain.
Import ListNotations.
Open Scope list_scope.

Fixpoint nodupb (l : list N) : bool :=
  match l with [] => true | x :: t => negb (memN x t) && nodupb t end.
Lemma nodupb_ok : forall l, nodupb l = true -> NoDup l.
Proof.
  induction l as [|x t IH]; simpl; intros H; [constructor|].
  apply andb_true_iff in H. destruct H as [H1 H2]. constructor; [|apply IH; exact H2].
  apply memN_false. destruct (memN x t); [discriminate|reflexivity].
Qed.

Definition kind_eqb (a b : kind) : bool :=
  match a, b with
  | KExec, KExec | KJob, KJob | KCall, KCall | KValue, KValue | KTag, KTag | KTask, KTask => true
  | _, _ => false
  end.
Lemma kind_eqb_eq : forall a b, kind_eqb a b = true -> a = b.
Proof. destruct a, b; simpl; intros H; try discriminate; reflexivity. Qed.

Definition well_kindedb (r : repo) (n : node) : bool :=
  match find r (snd n) with
  | Some e => kind_eqb (fst n) (kind_of e)
              || (kind_eqb (fst n) KTask
                  && match e with EValue v => match v_subs v with [] => true | _ => false end | _ => false end)
  | None => true
  end.
Definition well_typedb (r : repo) : bool :=
  forallb (fun p => forallb (well_kindedb r) (children_of r (kind_of (snd p), fst p))) r.

Lemma well_kindedb_ok : forall r n, well_kindedb r n = true -> well_kinded r n.
Proof.
  intros r n H. unfold well_kindedb in H. unfold well_kinded. destruct (find r (snd n)) as [e|]; [|exact I].
  apply orb_true_iff in H. destruct H as [H|H].
  - left. apply kind_eqb_eq. exact H.
  - right. apply andb_true_iff in H. destruct H as [H1 H2]. split; [apply kind_eqb_eq; exact H1|].
    destruct e; try discriminate. exists v. split; [reflexivity|]. destruct (v_subs v); [reflexivity|discriminate].
Qed.
Lemma well_typedb_ok : forall r, well_typedb r = true -> well_typed r.
Proof.
  intros r H i e m Hin Hm. unfold well_typedb in H. rewrite forallb_forall in H.
  specialize (H (i, e) Hin). simpl in H. rewrite forallb_forall in H.
  apply well_kindedb_ok. apply H. exact Hm.
Qed.

Definition wf_tagsb (r : repo) : bool :=
  forallb (fun p => match snd p with
                    | ETag t => Bool.eqb (t_current t) (negb (is_parent r (fst p)))
                    | _ => true end) r.
Lemma wf_tagsb_ok : forall r, wf_tagsb r = true -> wf_tags r.
Proof.
  intros r H i t Hf. unfold wf_tagsb in H. rewrite forallb_forall in H.
  specialize (H (i, ETag t) (find_In _ _ _ Hf)). simpl in H. apply Bool.eqb_prop in H. exact H.
Qed.

(** all premises on a repository at once *)
Definition premisesb (r : repo) : bool := nodupb (ids r) && well_typedb r && wf_tagsb r.
Lemma premisesb_ok : forall r, premisesb r = true -> NoDup (ids r) /\ well_typed r /\ wf_tags r.
Proof.
  intros r H. unfold premisesb in H. apply andb_true_iff in H. destruct H as [H H3].
  apply andb_true_iff in H. destruct H as [H1 H2].
  split; [apply nodupb_ok; exact H1|]. split; [apply well_typedb_ok; exact H2 | apply wf_tagsb_ok; exact H3].
Qed.

(** call edges listed in call order (the dump does this), so that "children in the same order"
    can be read off the lists *)
Definition edges_sortedb (r : repo) : bool :=
  forallb (fun p => match snd p with
                    | ECall c => list_eqb edge_eqb (isort edge_leb_call (c_edges c)) (c_edges c)
                    | _ => true end) r.
