(** C36 — every operation kind keeps the recorded rows; hence every operation list does. *)
From Coq Require Import List String ZArith Bool Ascii Lia.
From RV Require Import Model.Migrate Proofs.MigrateBase.
Import ListNotations.
Open Scope string_scope.
Open Scope list_scope.

(** What each operation does to a *value* of a kept row. *)
Definition job_time (t c : string) : bool := String.eqb t "job" && job_time_col c.

Definition op_conv (e : env) (o : op) : conv :=
  match o with
  | JobTimesToUtc v => fun t c x => if job_time t c then utc_conv v (e_tz e) x else x
  | _ => id_conv
  end.

Definition merged_cols : freeset :=
  fun t c => String.eqb t "value" && (String.eqb c "type" || String.eqb c "format" || String.eqb c "value").

(** Columns an operation recomputes from other data (nothing is claimed about them). *)
Definition op_free (o : op) : freeset :=
  match o with
  | BackfillExecutionId => fun t c => String.eqb t "job" && String.eqb c "execution_id"
  | BackfillTaskValues _ MergeRow _ => merged_cols     (* merge() may overwrite an existing value row *)
  | _ => no_free
  end.

Fixpoint conv_of (e : env) (ops : list op) : conv :=
  match ops with
  | [] => id_conv
  | o :: r => fun t c x => conv_of e r t c (op_conv e o t c x)
  end.

Fixpoint free_of (ops : list op) : freeset :=
  match ops with
  | [] => no_free
  | o :: r => fun t c => op_free o t c || free_of r t c
  end.

(* ------------------------------------------------------------------ job times *)
Lemma utc_row_get : forall v tz r c x,
  rget r c = Some x ->
  rget (utc_row v tz r) c = Some (if job_time_col c then utc_conv v tz x else x).
Proof.
  intros v tz r c x H. unfold utc_row, job_time_col.
  destruct (String.eqb c "start_time") eqn:Es.
  - apply String.eqb_eq in Es. subst c. rewrite H. simpl.
    assert (G : rget (rset r "start_time" (utc_conv v tz x)) "start_time" = Some (utc_conv v tz x))
      by (eapply rget_rset_same; eauto).
    destruct (rget (rset r "start_time" (utc_conv v tz x)) "end_time") eqn:Ee.
    + rewrite rget_rset_other; [exact G|discriminate].
    + exact G.
  - apply String.eqb_neq in Es. simpl.
    set (r1 := match rget r "start_time" with Some x0 => rset r "start_time" (utc_conv v tz x0) | None => r end).
    assert (G1 : rget r1 c = Some x).
    { unfold r1. destruct (rget r "start_time"); [rewrite rget_rset_other; auto|auto]. }
    destruct (String.eqb c "end_time") eqn:Ee.
    + apply String.eqb_eq in Ee. subst c. rewrite G1. eapply rget_rset_same; eauto.
    + apply String.eqb_neq in Ee. destruct (rget r1 "end_time"); [rewrite rget_rset_other; auto|auto].
Qed.

(* ------------------------------------------------------------------ merge *)
Lemma overwrite_get : forall new r c v,
  rget r c = Some v -> merged_cols "value" c = false -> rget (overwrite new r) c = Some v.
Proof.
  intros new r c v Hv Hf. unfold overwrite. destruct (find _ new); [|exact Hv].
  unfold merged_cols in Hf. simpl in Hf.
  apply orb_false_iff in Hf. destruct Hf as [Hf H3]. apply orb_false_iff in Hf. destruct Hf as [H1 H2].
  apply String.eqb_neq in H1, H2, H3.
  rewrite !rget_rset_other by assumption. exact Hv.
Qed.

(* ------------------------------------------------------------------ one operation *)
Ltac same_tables := apply preserved_same_tables; reflexivity.

Lemma on_table_cols_only : forall fr t d d' (f : table -> result table),
  on_table t d f = Ok d' ->
  (forall T T', f T = Ok T' -> t_rows T' = t_rows T) ->
  preserved id_conv fr d d'.
Proof.
  intros fr t d d' f H Hf. eapply on_table_preserved; [exact H| |intros; reflexivity].
  intros T T' _ F; cbv beta in F. apply table_pres_same_rows; auto.
Qed.

Lemma apply_op_preserved : forall e o d d',
  apply_op e o d = Ok d' -> preserved (op_conv e o) (op_free o) d d'.
Proof.
  intros e o d d' H. destruct o; simpl in H; simpl op_conv; simpl op_free.
  - (* CreateTable *)
    destruct (lookup t (d_tables d)) eqn:L; [discriminate|]. injection H as <-.
    intros t0 T0 L0. exists T0. split; [simpl; apply lookup_app_some; exact L0|].
    apply table_pres_same_rows; auto.
  - (* AddColumn *)
    eapply on_table_preserved; [exact H| |intros; reflexivity].
    intros T T' _ F; cbv beta in F. destruct (has_col (c_name c) (t_cols T)); [discriminate|].
    destruct (negb (c_null c) && _); [discriminate|]. injection F as <-. simpl.
    exists (map (fun r => r ++ [(c_name c, VNull)]) (t_rows T)), []. split; [rewrite app_nil_r; reflexivity|].
    apply Forall2_map_r. intros r _ c0 v Hv _. apply rget_app. exact Hv.
  - (* CreateIndex *)
    destruct (lookup (i_table i) (d_tables d)); [|discriminate]. injection H as <-. same_tables.
  - (* CreateFK *)
    destruct (lookup t (d_tables d)); [|discriminate].
    destruct (lookup rt (d_tables d)); [|discriminate]. injection H as <-. same_tables.
  - (* AlterNullable *)
    eapply on_table_cols_only; [exact H|]. intros T T' F; cbv beta in F.
    destruct (negb (has_col c (t_cols T))); [discriminate|].
    destruct (negb nullable && _); [discriminate|]. injection F as <-. reflexivity.
  - (* AlterType *)
    eapply on_table_cols_only; [exact H|]. intros T T' F; cbv beta in F.
    destruct (negb (has_col c (t_cols T))); [discriminate|]. injection F as <-. reflexivity.
  - (* SqlNoData *)
    injection H as <-. same_tables.
  - (* BackfillTaskValues *)
    destruct (lookup "task" (d_tables d)) as [TT|]; [|discriminate].
    eapply on_table_preserved; [exact H| |intros; reflexivity].
    intros T T' _ F; cbv beta in F. destruct (companion_rows _ _) as [rs|]; [|discriminate].
    destruct (write_rows wm (t_rows T) rs) as [rows|] eqn:W; [|discriminate]. injection F as <-. simpl.
    destruct wm; simpl in W.
    + destruct (existsb _ rs); [discriminate|]. injection W as <-.
      exists (t_rows T), rs. split; [reflexivity|].
      apply Forall2_refl_in. intros; apply row_ext_refl.
    + injection W as <-. eexists (map (overwrite rs) (t_rows T)), _. split; [reflexivity|].
      apply Forall2_map_r. intros r _ c v Hv Hf. unfold id_conv. apply overwrite_get; assumption.
  - (* StubExecutions *)
    destruct (lookup "job" (d_tables d)) as [J|]; [|discriminate].
    eapply on_table_preserved; [exact H| |intros; reflexivity].
    intros T T' _ F; cbv beta in F. injection F as <-. simpl.
    eexists (t_rows T), _. split; [reflexivity|].
    apply Forall2_refl_in. intros; apply row_ext_refl.
  - (* BackfillExecutionId *)
    eapply on_table_preserved; [exact H| |intros; reflexivity].
    intros T T' _ F; cbv beta in F. destruct (negb (has_col "execution_id" (t_cols T))); [discriminate|].
    injection F as <-. simpl.
    eexists (map _ (t_rows T)), []. split; [rewrite app_nil_r; reflexivity|].
    apply Forall2_map_r. intros r _ c v Hv Hf. unfold id_conv. simpl in Hf.
    rewrite rget_rset_other; [exact Hv|]. intros ->. discriminate.
  - (* JobTimesToUtc *)
    eapply on_table_preserved; [exact H| |].
    + intros T T' _ F; cbv beta in F. destruct (existsb _ _); [discriminate|]. injection F as <-. simpl.
      eexists (map _ (t_rows T)), []. split; [rewrite app_nil_r; reflexivity|].
      apply Forall2_map_r. intros r _ c x Hx _. unfold job_time. simpl.
      apply utc_row_get. exact Hx.
    + intros t' c x Ht. unfold job_time. destruct (String.eqb t' "job") eqn:E; [|reflexivity].
      apply String.eqb_eq in E. congruence.
  - (* PgTimestamptz *)
    eapply on_table_cols_only; [exact H|]. intros T T' F; cbv beta in F.
    destruct (negb (has_col c (t_cols T))); [discriminate|]. injection F as <-. reflexivity.
Qed.

(** The general lemma: ANY list of the known operation kinds keeps every recorded row. *)
Lemma run_ops_preserved : forall e ops d d',
  run_ops e ops d = Ok d' -> preserved (conv_of e ops) (free_of ops) d d'.
Proof.
  induction ops as [|o r IH]; simpl; intros d d' H.
  - injection H as <-. apply preserved_same_tables. reflexivity.
  - destruct (apply_op e o d) as [d1|] eqn:A; [|discriminate].
    eapply preserved_trans; [eapply apply_op_preserved; eauto|eauto].
Qed.

(* ------------------------------------------------------------------ RedunBackendDb.migrate *)
Definition todo_of (ms : list migration) (d : db) : list migration :=
  match steps_after (d_rev d) ms with Some l => l | None => [] end.

Lemma upgrade_preserved : forall e ms vs d d',
  upgrade e ms vs d = Ok d' ->
  let ops := chain_ops (e_dialect e) (todo_of ms d) in
  preserved (conv_of e ops) (free_of ops) d d'.
Proof.
  unfold upgrade, todo_of. intros e ms vs d d' H.
  destruct (steps_after (d_rev d) ms) as [[|m todo]|]; [| |discriminate].
  - injection H as <-. simpl. apply preserved_same_tables. reflexivity.
  - set (ops := chain_ops (e_dialect e) (m :: todo)) in *.
    destruct (run_ops e ops d) as [d1|] eqn:R; [|discriminate].
    destruct (lookup _ vs) as [[major minor]|]; [|discriminate].
    apply run_ops_preserved in R.
    assert (P2 : preserved id_conv no_free (set_rev (last_rev (m :: todo) (d_rev d)) d1) d').
    { eapply on_table_preserved; [exact H| |intros; reflexivity].
      intros T T' _ F; cbv beta in F. injection F as <-. simpl. eexists (t_rows T), _. split; [reflexivity|].
      apply Forall2_refl_in. intros; apply row_ext_refl. }
    intros t T HT. destruct (R t T HT) as (T1 & L1 & P1).
    destruct (P2 t T1 L1) as (T2 & L2 & P2').
    exists T2. split; [exact L2|].
    destruct P1 as (rs & ex & E1 & F1). destruct P2' as (rs2 & ex2 & E2 & F2).
    rewrite E1 in F2. apply Forall2_app_inv_l in F2. destruct F2 as (a & b & Fa & Fb & Eab).
    exists a, (b ++ ex2). split; [rewrite E2, Eab, app_assoc; reflexivity|].
    eapply Forall2_trans_gen; [|exact F1|exact Fa].
    intros r r' r'' H1 H2 c v Hv Hf. apply H2; [|reflexivity]. apply H1; auto.
Qed.

(* ------------------------------------------------------------------ what conv_of / free_of amount to *)
Fixpoint utcs (ops : list op) : list utc_variant :=
  match ops with
  | [] => []
  | JobTimesToUtc v :: r => v :: utcs r
  | _ :: r => utcs r
  end.

Definition is_backfill (o : op) : bool := match o with BackfillExecutionId => true | _ => false end.

Lemma conv_of_utcs : forall e ops t c x,
  conv_of e ops t c x =
  fold_left (fun y v => if job_time t c then utc_conv v (e_tz e) y else y) (utcs ops) x.
Proof.
  induction ops as [|o r IH]; intros; [reflexivity|].
  destruct o; simpl; rewrite IH; reflexivity.
Qed.

Definition is_merge (o : op) : bool := match o with BackfillTaskValues _ MergeRow _ => true | _ => false end.

Lemma free_of_backfill : forall ops t c,
  existsb is_merge ops = false ->
  free_of ops t c = existsb is_backfill ops && (String.eqb t "job" && String.eqb c "execution_id").
Proof.
  induction ops as [|o r IH]; intros t c Hm; [reflexivity|].
  simpl in Hm. apply orb_false_iff in Hm. destruct Hm as [Ho Hm].
  destruct o; try (destruct wm; [|discriminate Ho]); simpl; rewrite (IH t c Hm); unfold no_free; simpl; try reflexivity.
  destruct (String.eqb t "job" && String.eqb c "execution_id"); simpl;
    [reflexivity|rewrite andb_false_r; reflexivity].
Qed.
