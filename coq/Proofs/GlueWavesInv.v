(** C10 — Glue multi-wave histories: the submission thread is restarted by every submit (shipped
    [_start]); with the early return a job waits in pending_glue_jobs for ever. *)
From Coq Require Import List Bool Arith.
From RV Require Import Model.GlueWaves.
Import ListNotations.
Open Scope list_scope.

Inductive greach (v : start_variant) (s0 : gst) : gst -> Prop :=
| greach_refl : greach v s0 s0
| greach_step : forall s a s', greach v s0 s -> gstep v s a = Some s' -> greach v s0 s'.

Lemma grun_greach : forall v sch s0 s, grun v s0 sch = Some s -> forall s00, greach v s00 s0 -> greach v s00 s.
Proof.
  induction sch; simpl; intros s0 s H s00 R.
  - injection H as <-. exact R.
  - destruct (gstep v s0 a) eqn:E; [|discriminate]. eapply IHsch; eauto. eapply greach_step; eauto.
Qed.

Lemma gmem_In : forall j l, gmem j l = true <-> In j l.
Proof.
  induction l; simpl; [split; [discriminate|contradiction]|].
  destruct (Nat.eqb j a) eqn:E.
  - apply Nat.eqb_eq in E. subst. split; auto.
  - apply Nat.eqb_neq in E. rewrite IHl. split; [auto|]. intros [H|H]; [congruence|exact H].
Qed.

Lemma filter_split : forall (p : nat -> bool) j l, In j l ->
  In j (filter p l) \/ In j (filter (fun x => negb (p x)) l).
Proof.
  intros p j l H. destruct (p j) eqn:E; [left|right]; apply filter_In; split; auto. rewrite E. reflexivity.
Qed.

Record GInv (js : list nat) (s : gst) : Prop := {
  G_mon : g_flag s = g_mon s;
  G_sub : g_queue s <> [] -> g_sub s = true;
  G_idle : g_flag s = false -> g_queue s = [] /\ g_running s = [];
  G_acc : forall j, In j js -> In j (g_todo s) \/ In j (g_queue s) \/ In j (g_running s) \/ In j (g_reported s)
}.

Lemma ginv_init : forall js, GInv js (ginit js).
Proof. intros js. constructor; simpl; auto; try (intros H; contradiction H; reflexivity). Qed.

Lemma nonnil_false : forall A (l : list A), nonnil l = false -> l = [].
Proof. intros A [|x l]; [reflexivity|discriminate]. Qed.

Lemma ginv_step : forall js s a s', GInv js s -> gstep AlwaysCheck s a = Some s' -> GInv js s'.
Proof.
  intros js s a s' [I1 I2 I3 I4] H. destruct a; simpl in H.
  - destruct (g_todo s) as [|j r] eqn:Et; [discriminate|].
    rewrite Bool.andb_false_r in H. injection H as <-.
    constructor; simpl; auto; try discriminate.
    intros x Hx. destruct (I4 x Hx) as [H1|[H1|[H1|H1]]]; auto.
    + destruct H1 as [<-|H1]; auto. right; left. apply in_or_app. simpl. auto.
    + right; left. apply in_or_app. auto.
  - destruct (g_sub s) eqn:Es; [|discriminate].
    destruct (g_flag s) eqn:Ef; injection H as <-; constructor; simpl; auto; try discriminate.
    + intros x Hx. destruct (I4 x Hx) as [H1|[H1|[H1|H1]]]; auto; right; right; left; apply in_or_app; auto.
    + intros C. destruct (I3 eq_refl) as [E _]. contradiction.
  - destruct (gmem j (g_running s) && negb (gmem j (g_finished s))); [|discriminate].
    injection H as <-. constructor; simpl; auto.
  - destruct (g_mon s) eqn:Em; [|discriminate].
    destruct (g_flag s && (nonnil (g_running s) || nonnil (g_queue s))) eqn:Eg; injection H as <-.
    + apply andb_true_iff in Eg as [Ef _].
      constructor; simpl; auto.
      * intros C. congruence.
      * intros x Hx. destruct (I4 x Hx) as [H1|[H1|[H1|H1]]]; auto.
        -- destruct (filter_split (fun j => gmem j (g_finished s)) x _ H1) as [F|F].
           ++ right; right; right. apply in_or_app. auto.
           ++ right; right; left. exact F.
        -- right; right; right. apply in_or_app. auto.
    + assert (Hq : g_queue s = [] /\ g_running s = []).
      { destruct (g_flag s) eqn:Ef; [|apply I3; reflexivity]. simpl in Eg.
        apply orb_false_iff in Eg as [A B]. split; apply nonnil_false; assumption. }
      destruct Hq as [Eq Er].
      constructor; simpl; auto.
Qed.

Lemma ginv_reach : forall js s, greach AlwaysCheck (ginit js) s -> GInv js s.
Proof. induction 1; [apply ginv_init|eapply ginv_step; eauto]. Qed.

(** Shipped [_start]: whatever waits in pending_glue_jobs has a live submission thread ... *)
Lemma queue_has_submitter : forall js s, greach AlwaysCheck (ginit js) s ->
  g_queue s <> [] -> g_sub s = true /\ g_flag s = true /\ g_mon s = true.
Proof.
  intros js s R H. destruct (ginv_reach _ _ R) as [I1 I2 I3 I4].
  split; [auto|]. destruct (g_flag s) eqn:Ef; [split; congruence|].
  destruct (I3 eq_refl) as [E _]. contradiction.
Qed.

(** ... every job moves on: queue -> handed to Glue -> (run finishes) -> reported ... *)
Lemma waves_progress : forall js s j, greach AlwaysCheck (ginit js) s ->
  (In j (g_queue s) -> exists s', gstep AlwaysCheck s GSub = Some s' /\ In j (g_running s')) /\
  (In j (g_running s) -> gmem j (g_finished s) = false -> exists s', gstep AlwaysCheck s (GComplete j) = Some s') /\
  (In j (g_running s) -> gmem j (g_finished s) = true ->
     exists s', gstep AlwaysCheck s GPoll = Some s' /\ In j (g_reported s')).
Proof.
  intros js s j R. pose proof (ginv_reach _ _ R) as I. destruct I as [I1 I2 I3 I4].
  split; [|split].
  - intros Hq. assert (Hne : g_queue s <> []) by (intros C; rewrite C in Hq; contradiction).
    destruct (queue_has_submitter js s R Hne) as (A & B & _). simpl. rewrite A, B.
    eexists. split; [reflexivity|]. simpl. apply in_or_app. auto.
  - intros Hr Hf. simpl. apply gmem_In in Hr. rewrite Hr, Hf. simpl. eauto.
  - intros Hr Hf. assert (Ef : g_flag s = true).
    { destruct (g_flag s) eqn:Ef; [reflexivity|]. destruct (I3 eq_refl) as [_ E]. rewrite E in Hr. contradiction. }
    assert (Hn : nonnil (g_running s) = true) by (destruct (g_running s); [contradiction|reflexivity]).
    simpl. rewrite <- I1, Ef, Hn. simpl. eexists. split; [reflexivity|]. simpl. apply in_or_app. right.
    apply filter_In. split; assumption.
Qed.

(** ... and when the scheduler thread is done and both threads have returned, everything is reported. *)
Lemma waves_quiescent_reported : forall js s, greach AlwaysCheck (ginit js) s ->
  g_todo s = [] -> g_mon s = false -> g_sub s = false -> forall j, In j js -> In j (g_reported s).
Proof.
  intros js s R Ht Hm Hs j Hj. destruct (ginv_reach _ _ R) as [I1 I2 I3 I4].
  rewrite Hm in I1. destruct (I3 I1) as [Eq Er].
  destruct (I4 j Hj) as [H1|[H1|[H1|H1]]]; auto.
  - rewrite Ht in H1. contradiction.
  - rewrite Eq in H1. contradiction.
  - rewrite Er in H1. contradiction.
Qed.

(** Early return: a state from which a submitted job is never handed to Glue nor reported, whatever
    happens afterwards (the monitor polls for ever). *)
Definition waves_stuck (v : start_variant) : Prop :=
  exists js sch s j, grun v (ginit js) sch = Some s /\ In j js /\ g_todo s = [] /\
    forall s', greach v s s' -> In j (g_queue s') /\ ~ In j (g_running s') /\ ~ In j (g_reported s') /\ g_mon s' = true.

Lemma early_return_stuck : waves_stuck EarlyReturn.
Proof.
  exists [0;1], witness_waves. eexists. exists 1.
  split; [vm_compute; reflexivity|]. split; [simpl; auto|]. split; [reflexivity|].
  intros s' R.
  assert (P : g_todo s' = [] /\ g_sub s' = false /\ g_flag s' = true /\ g_mon s' = true /\
              In 1 (g_queue s') /\ ~ In 1 (g_running s') /\ ~ In 1 (g_reported s')).
  { induction R as [|s a s2 R IH St].
    - vm_compute. repeat split; auto; intuition discriminate.
    - destruct IH as (T & Sb & F & M & Q & NR & NP). destruct a; simpl in St.
      + rewrite T in St. discriminate.
      + rewrite Sb in St. discriminate.
      + destruct (gmem j (g_running s) && negb (gmem j (g_finished s))); [|discriminate].
        injection St as <-. simpl. repeat split; auto.
      + rewrite M, F in St. destruct (g_queue s) as [|q qs] eqn:Eq; [contradiction|].
        rewrite Bool.orb_true_r in St. simpl in St. injection St as <-. simpl.
        repeat split; auto.
        * intros C. apply filter_In in C as [C _]. contradiction.
        * intros C. apply in_app_or in C as [C|C]; [contradiction|]. apply filter_In in C as [C _]. contradiction. }
  destruct P as (_ & _ & _ & M & Q & NR & NP). auto.
Qed.

Lemma shipped_not_stuck : ~ waves_stuck AlwaysCheck.
Proof.
  intros (js & sch & s & j & Hrun & Hj & Ht & H).
  assert (R : greach AlwaysCheck (ginit js) s) by (eapply grun_greach; [exact Hrun|apply greach_refl]).
  destruct (H s (greach_refl _ _)) as (Q & _ & _ & _).
  destruct (waves_progress js s j R) as (P1 & _ & _). destruct (P1 Q) as (s' & St & Hr).
  destruct (H s' (greach_step _ _ _ _ _ (greach_refl _ _) St)) as (_ & NR & _). contradiction.
Qed.
