(** Facts about the faithful rebuild [subst], the leaves and the visiting order. *)
From Coq Require Import List ZArith Bool Lia Permutation.
From RV Require Import Model.Nested Proofs.NestedSpec.
Import ListNotations.
Open Scope list_scope.

(** ** list helpers *)
Lemma map_ext_F : forall X Y (f g : X -> Y) l, Forall (fun x => f x = g x) l -> map f l = map g l.
Proof. induction 1; simpl; congruence. Qed.

Lemma flat_map_ext_F : forall X Y (f g : X -> list Y) l,
  Forall (fun x => f x = g x) l -> flat_map f l = flat_map g l.
Proof. induction 1; simpl; congruence. Qed.

Lemma flat_map_map' : forall X Y Z (g : X -> Y) (f : Y -> list Z) l,
  flat_map f (map g l) = flat_map (fun x => f (g x)) l.
Proof. induction l; simpl; congruence. Qed.

Lemma flat_map_flat_map : forall X Y Z (g : X -> list Y) (f : Y -> list Z) l,
  flat_map f (flat_map g l) = flat_map (fun x => flat_map f (g x)) l.
Proof. induction l; simpl; auto. rewrite flat_map_app. congruence. Qed.

Lemma Forall_weaken : forall X (P Q : X -> Prop) l, (forall x, P x -> Q x) -> Forall P l -> Forall Q l.
Proof. intros. eapply Forall_impl; eauto. Qed.

Lemma perm_flat_map_F : forall X Y (f g : X -> list Y) l,
  Forall (fun x => Permutation (f x) (g x)) l -> Permutation (flat_map f l) (flat_map g l).
Proof. induction 1; simpl; auto. now apply Permutation_app. Qed.

Lemma perm_flat_map_split : forall X Y (f g : X -> list Y) l,
  Permutation (flat_map (fun x => f x ++ g x) l) (flat_map f l ++ flat_map g l).
Proof.
  induction l; simpl; auto.
  rewrite IHl. rewrite <- !app_assoc. apply Permutation_app_head.
  rewrite !app_assoc. apply Permutation_app_tail. apply Permutation_app_comm.
Qed.

Lemma F2_map : forall X Y (R : X -> Y -> Prop) (s : X -> Y) l l',
  Forall (fun x => forall w, R x w -> w = s x) l -> Forall2 R l l' -> l' = map s l.
Proof.
  intros X Y R s l l' H H2. induction H2; simpl; auto. inversion H; subst. f_equal; auto.
Qed.

Lemma F2_length : forall X Y (R : X -> Y -> Prop) l l', Forall2 R l l' -> length l = length l'.
Proof. induction 1; simpl; congruence. Qed.

Section Facts.
Variable A : Type.
Notation val := (val A).

(** ** Shape: [subst f v] has the constructors, lengths, classes and field names of [v]
    with [f a] at the position of every leaf [a]; and this determines it. *)
Lemma subst_rebuilt : forall B (f : A -> Nested.val B) (v : val), rebuilt f v (subst f v).
Proof.
  intros B f. induction v using val_ind'; simpl; constructor.
  1-4: (induction H; simpl; constructor; auto).
  - induction H; simpl; constructor; auto.
  - induction H; simpl; constructor; auto.
Qed.

Lemma rebuilt_unique : forall B (f : A -> Nested.val B) (v : val) w, rebuilt f v w -> w = subst f v.
Proof.
  intros B f. induction v using val_ind'; intros w R; inversion R; subst; simpl; auto.
  1-4: (f_equal; eapply F2_map; eauto).
  - f_equal. eapply F2_map; [|eauto]. eapply Forall_weaken; [|exact H].
    intros [k x] [Hk Hx] [k' x'] [Rk Rx]; simpl in *. f_equal; auto.
  - f_equal. eapply F2_map; [|eauto]. eapply Forall_weaken; [|exact H].
    intros [k x] Hx [k' x'] [Rk Rx]; simpl in *. f_equal; auto.
Qed.

Lemma rebuilt_length_list : forall B (f : A -> Nested.val B) l w,
  rebuilt f (VList l) w -> exists l', w = VList l' /\ length l' = length l.
Proof. intros B f l w R. inversion R; subst. eexists; split; eauto. symmetry. eapply F2_length; eauto. Qed.

(** ** Leaves of the rebuilt value *)
Lemma leaves_subst : forall B (f : A -> Nested.val B) (v : val),
  leaves (subst f v) = flat_map (fun a => leaves (f a)) (leaves v).
Proof.
  intros B f. induction v using val_ind'; simpl.
  - now rewrite app_nil_r.
  - rewrite flat_map_map', flat_map_flat_map. now apply flat_map_ext_F.
  - rewrite flat_map_map', flat_map_flat_map. now apply flat_map_ext_F.
  - rewrite flat_map_map', flat_map_flat_map. now apply flat_map_ext_F.
  - rewrite flat_map_map', flat_map_flat_map. now apply flat_map_ext_F.
  - rewrite !flat_map_map', flat_map_app, !flat_map_flat_map. simpl. f_equal; apply flat_map_ext_F.
    + eapply Forall_weaken; [|exact H]. intros x [Hk _]. exact Hk.
    + eapply Forall_weaken; [|exact H]. intros x [_ Hx]. exact Hx.
  - rewrite flat_map_map', flat_map_flat_map. simpl. now apply flat_map_ext_F.
Qed.

Corollary leaves_subst_leaf : forall B (g : A -> B) (v : val),
  leaves (subst (fun a => Leaf (g a)) v) = map g (leaves v).
Proof.
  intros. rewrite leaves_subst. simpl. induction (leaves v); simpl; congruence.
Qed.

(** ** Identity and composition *)
Lemma subst_leaf_id : forall v : val, subst (@Leaf A) v = v.
Proof.
  induction v using val_ind'; simpl; auto.
  1-4: (f_equal; rewrite <- (map_id l) at 2; now apply map_ext_F).
  - f_equal. rewrite <- (map_id kvs) at 2. apply map_ext_F.
    eapply Forall_weaken; [|exact H]. intros [k x] [Hk Hx]; simpl in *. congruence.
  - f_equal. rewrite <- (map_id fs) at 2. apply map_ext_F.
    eapply Forall_weaken; [|exact H]. intros [k x] Hx; simpl in *. congruence.
Qed.

Lemma subst_subst : forall B C (f : A -> Nested.val B) (g : B -> Nested.val C) (v : val),
  subst g (subst f v) = subst (fun a => subst g (f a)) v.
Proof.
  intros B C f g. induction v using val_ind'; simpl; auto.
  1-4: (f_equal; rewrite map_map; now apply map_ext_F).
  - f_equal. rewrite map_map. apply map_ext_F.
    eapply Forall_weaken; [|exact H]. intros [k x] [Hk Hx]; simpl in *. congruence.
  - f_equal. rewrite map_map. apply map_ext_F.
    eapply Forall_weaken; [|exact H]. intros [k x] Hx; simpl in *. congruence.
Qed.

(** ** map_nested_value's call order is a permutation of the iterator's order *)
Lemma visit_order_perm : forall v : val, Permutation (visit_order v) (leaves v).
Proof.
  induction v using val_ind'; simpl; auto.
  1-4: now apply perm_flat_map_F.
  - rewrite perm_flat_map_split. apply Permutation_app; apply perm_flat_map_F.
    + eapply Forall_weaken; [|exact H]. intros x [Hk _]. exact Hk.
    + eapply Forall_weaken; [|exact H]. intros x [_ Hx]. exact Hx.
  - rewrite <- perm_flat_map_split. apply perm_flat_map_F.
    eapply Forall_weaken; [|exact H]. intros [fd x] Hx; simpl in *.
    destruct (f_init fd); simpl; rewrite ?app_nil_r; auto.
Qed.

End Facts.
