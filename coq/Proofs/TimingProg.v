(** The template programs of harness/progs/vm_c07.py: a program without [TH] (and with Handle-free
    constants) is Handle-free in the sense of Proofs/TimingHF.v. *)
From Coq Require Import List ZArith Bool Arith Lia.
From RV Require Import Model.Timing Proofs.TimingBase Proofs.TimingHF.
Import ListNotations.
Open Scope list_scope.

Fixpoint hf_t (te : texpr) : bool :=
  match te with
  | TC v => hf_v v
  | TH _ => false
  | TP _ => true
  | TL l => forallb hf_t l
  | TCall _ a => forallb hf_t a
  end.

Section TexprInd.
  Variable P : texpr -> Prop.
  Hypothesis HC : forall v, P (TC v).
  Hypothesis HH : forall n, P (TH n).
  Hypothesis HP : forall i, P (TP i).
  Hypothesis HL : forall l, Forall P l -> P (TL l).
  Hypothesis HCall : forall t l, Forall P l -> P (TCall t l).
  Fixpoint texpr_ind' (te : texpr) : P te :=
    match te with
    | TC v => HC v
    | TH n => HH n
    | TP i => HP i
    | TL l => HL l ((fix go (l : list texpr) : Forall P l :=
                       match l with [] => Forall_nil _ | x :: r => Forall_cons _ (texpr_ind' x) (go r) end) l)
    | TCall t l => HCall t l ((fix go (l : list texpr) : Forall P l :=
                                 match l with [] => Forall_nil _ | x :: r => Forall_cons _ (texpr_ind' x) (go r) end) l)
    end.
End TexprInd.

Lemma mk_list_hf l : forallb hf_e l = true -> hf_e (mk_list l) = true.
Proof.
  unfold mk_list. destruct (all_vals l) as [vs|] eqn:A; simpl; auto.
  revert vs A. unfold all_vals. induction l as [|x l IH]; intros vs A H; simpl in *.
  - inversion A. reflexivity.
  - apply andb_true_iff in H as [H1 H2]. destruct x; try discriminate.
    destruct (mapM (fun e => match e with EVal v0 => Some v0 | _ => None end) l) eqn:M; try discriminate.
    inversion A. subst. simpl in *. rewrite H1. simpl. now apply IH.
Qed.

Lemma nth_hf i args : hf_l args -> hf_v (nth i args (VInt 0)) = true.
Proof.
  unfold hf_l. revert i. induction args as [|a l IH]; intros [|i] H; simpl in *; auto;
    apply andb_true_iff in H as [H1 H2]; auto.
Qed.

Lemma inst_hf args : hf_l args -> forall te, hf_t te = true -> hf_e (inst args te) = true.
Proof.
  intro HA. induction te as [v|n|i|l IH|t l IH] using texpr_ind'; simpl; intro H; auto; try discriminate.
  - now apply nth_hf.
  - apply mk_list_hf. induction IH as [|x l Hx Hl IHl]; simpl in *; auto.
    apply andb_true_iff in H as [H1 H2]. rewrite Hx, IHl; auto.
  - induction IH as [|x l Hx Hl IHl]; simpl in *; auto.
    apply andb_true_iff in H as [H1 H2]. rewrite Hx, IHl; auto.
Qed.

Lemma tbody_hf prog : forallb hf_t prog = true -> forall t args, hf_l args -> hf_e (tbody prog t args) = true.
Proof.
  intros HP t args HA. unfold tbody. apply inst_hf; auto.
  revert t. induction prog as [|x l IH]; intros [|t]; simpl in *; auto;
    apply andb_true_iff in HP as [H1 H2]; auto.
Qed.
