(** C21 — [_record_args]: the recorded rows reproduce the arguments the call received. *)
From Coq Require Import List ZArith String Bool Arith Permutation Lia.
From RV Require Import Model.Dataflow.
Import ListNotations.
Open Scope list_scope.

(** Shape of the two argument pairs handed to [_record_args] by the scheduler: the evaluated
    positional arguments are the expression ones, evaluated one by one; the evaluated keywords are
    the expression keywords plus the defaulted parameters; a dict has no repeated key. *)
Definition args_shape (xpos : list xarg) (xkw : list (string * xarg))
           (epos : list val) (ekw : list (string * val)) : Prop :=
  List.length xpos = List.length epos /\ NoDup (keys ekw) /\ NoDup (keys xkw) /\ incl (keys xkw) (keys ekw).

(** What "the recorded argument values equal the values the task received, with defaulted
    parameters recorded as keyword arguments" means on the rows. *)
Definition args_recorded (rs : list row) (xkw : list (string * xarg))
           (epos : list val) (ekw : list (string * val)) : Prop :=
  rows_pos rs = enum 0 epos
  /\ Permutation (rows_kw rs) ekw
  /\ (forall r, In r rs -> (r_pos r = None <-> r_key r <> None))
  /\ (forall k v, In (k, v) ekw -> ~ In k (keys xkw) ->
        exists r, In r rs /\ r_pos r = None /\ r_key r = Some k /\ r_val r = v /\ r_ups r = []).

(* ------------------------------------------------------------------ small facts *)
Lemma mem_In : forall k l, mem k l = true <-> In k l.
Proof.
  induction l as [|j l IH]; simpl.
  - split; [discriminate | tauto].
  - rewrite orb_true_iff, IH, String.eqb_eq. split; intros [H|H]; auto.
Qed.

Lemma mem_false : forall k l, mem k l = false <-> ~ In k l.
Proof.
  intros k l. rewrite <- mem_In. destruct (mem k l); split; congruence.
Qed.

Lemma assoc_In : forall A k (l : list (string * A)) x, assoc k l = Some x -> In (k, x) l.
Proof.
  induction l as [|[j y] l IH]; simpl; intros x H; [discriminate|].
  destruct (String.eqb k j) eqn:E.
  - apply String.eqb_eq in E. inversion H; subst. auto.
  - right. auto.
Qed.

Lemma assoc_NoDup : forall A (l : list (string * A)) k x,
  NoDup (keys l) -> In (k, x) l -> assoc k l = Some x.
Proof.
  induction l as [|[j y] l IH]; simpl; intros k x ND HI; [tauto|].
  inversion ND as [|? ? Hn ND']; subst.
  destruct HI as [HI|HI].
  - inversion HI; subst. rewrite String.eqb_refl. reflexivity.
  - destruct (String.eqb k j) eqn:E.
    + apply String.eqb_eq in E. subst. exfalso. apply Hn. unfold keys. apply in_map_iff. exists (j, x). auto.
    + apply IH; auto.
Qed.

Lemma mem_assoc : forall A k (l : list (string * A)), mem k (keys l) = true -> exists x, assoc k l = Some x.
Proof.
  induction l as [|[j y] l IH]; simpl; intros H; [discriminate|].
  destruct (String.eqb k j); [eauto|]. simpl in H. auto.
Qed.

Lemma insert_key_perm : forall k l, Permutation (insert_key k l) (k :: l).
Proof.
  induction l as [|j l IH]; simpl; [reflexivity|].
  destruct (String.leb k j); [reflexivity|].
  rewrite IH. apply perm_swap.
Qed.

Lemma sort_keys_perm : forall l, Permutation (sort_keys l) l.
Proof.
  induction l as [|k l IH]; simpl; [reflexivity|].
  rewrite insert_key_perm. constructor. exact IH.
Qed.

Lemma filter_split_perm : forall A (p : A -> bool) (l : list A),
  Permutation (filter p l ++ filter (fun x => negb (p x)) l) l.
Proof.
  induction l as [|x l IH]; simpl; [reflexivity|].
  destruct (p x); simpl.
  - constructor. exact IH.
  - rewrite <- Permutation_middle. constructor. exact IH.
Qed.

(* ------------------------------------------------------------------ the three generators *)
Lemma rows_pos_app : forall a b, rows_pos (a ++ b) = rows_pos a ++ rows_pos b.
Proof. intros. unfold rows_pos. apply flat_map_app. Qed.

Lemma rows_kw_app : forall a b, rows_kw (a ++ b) = rows_kw a ++ rows_kw b.
Proof. intros. unfold rows_kw. apply flat_map_app. Qed.

Lemma pos_rows_pos : forall xs vs i, List.length xs = List.length vs ->
  rows_pos (pos_rows i xs vs) = enum i vs /\ rows_kw (pos_rows i xs vs) = [].
Proof.
  induction xs as [|[e u] xs IH]; destruct vs as [|v vs]; simpl; intros i H; try discriminate; auto.
  destruct (IH vs (S i)) as [A B]; [lia|].
  unfold rows_pos, rows_kw in *. simpl. rewrite A, B. auto.
Qed.

Definition kw_row (xkw : list (string * xarg)) (ekw : list (string * val)) (k : string) : list row :=
  match assoc k xkw, assoc k ekw with
  | Some (e, u), Some v => [{| r_pos := None; r_key := Some k; r_val := v; r_ups := u; r_expr := e |}]
  | _, _ => []
  end.

Definition def_row (xkw : list (string * xarg)) (kv : string * val) : list row :=
  if mem (fst kv) (keys xkw) then []
  else [{| r_pos := None; r_key := Some (fst kv); r_val := snd kv; r_ups := []; r_expr := EConst (snd kv) |}].

Lemma seg_kw_eq : forall xpos xkw epos ekw,
  seg_rows SegKw xpos xkw epos ekw
  = flat_map (kw_row xkw ekw) (sort_keys (filter (fun k => mem k (keys xkw)) (keys ekw))).
Proof. reflexivity. Qed.

Lemma seg_def_eq : forall xpos xkw epos ekw,
  seg_rows SegDef xpos xkw epos ekw = flat_map (def_row xkw) ekw.
Proof. reflexivity. Qed.

Lemma record_args_eq : forall xpos xkw epos ekw,
  record_args xpos xkw epos ekw
  = pos_rows 0 xpos epos
    ++ flat_map (kw_row xkw ekw) (sort_keys (filter (fun k => mem k (keys xkw)) (keys ekw)))
    ++ flat_map (def_row xkw) ekw.
Proof. intros. unfold record_args, record_args_with, shipped_segs. simpl. rewrite app_nil_r. reflexivity. Qed.

Lemma rows_kw_flat : forall A (f : A -> list row) l, rows_kw (flat_map f l) = flat_map (fun x => rows_kw (f x)) l.
Proof.
  induction l as [|x l IH]; simpl; [reflexivity|]. rewrite rows_kw_app, IH. reflexivity.
Qed.

Lemma rows_pos_flat : forall A (f : A -> list row) l, rows_pos (flat_map f l) = flat_map (fun x => rows_pos (f x)) l.
Proof.
  induction l as [|x l IH]; simpl; [reflexivity|]. rewrite rows_pos_app, IH. reflexivity.
Qed.

Lemma flat_map_nil : forall A B (f : A -> list B) l, (forall x, f x = []) -> flat_map f l = [].
Proof. induction l as [|x l IH]; simpl; intros H; [reflexivity|]. rewrite H, IH; auto. Qed.

Lemma kw_row_pos : forall xkw ekw k, rows_pos (kw_row xkw ekw k) = [].
Proof.
  intros. unfold kw_row. destruct (assoc k xkw) as [[e u]|]; [destruct (assoc k ekw)|]; reflexivity.
Qed.

Lemma def_row_pos : forall xkw kv, rows_pos (def_row xkw kv) = [].
Proof. intros. unfold def_row. destruct (mem (fst kv) (keys xkw)); reflexivity. Qed.

(** keyword rows, before sorting, are the evaluated keywords that are also expression keywords *)
Lemma kw_rows_filter : forall xkw ekw l,
  NoDup (keys ekw) -> incl l ekw ->
  flat_map (fun k => rows_kw (kw_row xkw ekw k)) (filter (fun k => mem k (keys xkw)) (keys l))
  = filter (fun kv => mem (fst kv) (keys xkw)) l.
Proof.
  intros xkw ekw l ND. induction l as [|[k v] l IH]; simpl; intros HI; [reflexivity|].
  assert (Hin : In (k, v) ekw) by (apply HI; simpl; auto).
  assert (Hl : incl l ekw) by (intros x Hx; apply HI; simpl; auto).
  destruct (mem k (keys xkw)) eqn:M; simpl.
  - rewrite IH by exact Hl. unfold kw_row.
    destruct (mem_assoc _ _ _ M) as [[e u] Hx]. rewrite Hx.
    rewrite (assoc_NoDup _ _ _ _ ND Hin). reflexivity.
  - apply IH. exact Hl.
Qed.

Lemma def_rows_filter : forall xkw l,
  flat_map (fun kv => rows_kw (def_row xkw kv)) l = filter (fun kv => negb (mem (fst kv) (keys xkw))) l.
Proof.
  induction l as [|[k v] l IH]; simpl; [reflexivity|].
  unfold def_row at 1. simpl. destruct (mem k (keys xkw)); simpl; rewrite IH; reflexivity.
Qed.

Theorem record_args_recorded : forall xpos xkw epos ekw,
  args_shape xpos xkw epos ekw ->
  args_recorded (record_args xpos xkw epos ekw) xkw epos ekw.
Proof.
  intros xpos xkw epos ekw (HL & NDe & NDx & Hincl).
  rewrite record_args_eq.
  destruct (pos_rows_pos xpos epos 0 HL) as [Ppos Pkw].
  repeat split.
  - rewrite !rows_pos_app, Ppos, !rows_pos_flat.
    rewrite (flat_map_nil _ _ (fun k => rows_pos (kw_row xkw ekw k))) by (intros; apply kw_row_pos).
    rewrite (flat_map_nil _ _ (fun kv => rows_pos (def_row xkw kv))) by (intros; apply def_row_pos).
    rewrite !app_nil_r. reflexivity.
  - rewrite !rows_kw_app, Pkw, !rows_kw_flat. simpl.
    rewrite def_rows_filter.
    etransitivity; [|apply (filter_split_perm _ (fun kv => mem (fst kv) (keys xkw)) ekw)].
    apply Permutation_app_tail.
    etransitivity.
    + apply Permutation_flat_map. apply sort_keys_perm.
    + rewrite (kw_rows_filter xkw ekw ekw NDe (incl_refl _)). reflexivity.
  - intros Hp. rewrite !in_app_iff in H. destruct H as [H|[H|H]].
    + exfalso. revert H Hp. generalize 0. clear. revert epos.
      induction xpos as [|[e u] xs IH]; destruct epos as [|v vs]; simpl; intros i H Hp; try tauto.
      destruct H as [H|H]; [subst; discriminate | eauto].
    + apply in_flat_map in H. destruct H as (k & _ & H). unfold kw_row in H.
      destruct (assoc k xkw) as [[e u]|]; [destruct (assoc k ekw)|]; simpl in H; try tauto.
      destruct H as [H|[]]. subst. discriminate.
    + apply in_flat_map in H. destruct H as (kv & _ & H). unfold def_row in H.
      destruct (mem (fst kv) (keys xkw)); simpl in H; try tauto.
      destruct H as [H|[]]. subst. discriminate.
  - intros Hk. rewrite !in_app_iff in H. destruct H as [H|[H|H]].
    + exfalso. revert H Hk. generalize 0. clear. revert epos.
      induction xpos as [|[e u] xs IH]; destruct epos as [|v vs]; simpl; intros i H Hk; try tauto.
      destruct H as [H|H]; [subst; simpl in Hk; congruence | eauto].
    + apply in_flat_map in H. destruct H as (k & _ & H). unfold kw_row in H.
      destruct (assoc k xkw) as [[e u]|]; [destruct (assoc k ekw)|]; simpl in H; try tauto.
      destruct H as [H|[]]. subst. reflexivity.
    + apply in_flat_map in H. destruct H as (kv & _ & H). unfold def_row in H.
      destruct (mem (fst kv) (keys xkw)); simpl in H; try tauto.
      destruct H as [H|[]]. subst. reflexivity.
  - intros k v Hin Hnot.
    eexists. split.
    + rewrite !in_app_iff. right. right. apply in_flat_map. exists (k, v). split; [exact Hin|].
      unfold def_row. simpl. apply mem_false in Hnot. rewrite Hnot. simpl. left. reflexivity.
    + simpl. auto.
Qed.

Theorem record_args_with_recorded : forall xpos xkw epos ekw,
  args_shape xpos xkw epos ekw ->
  args_recorded (record_args_with shipped_segs xpos xkw epos ekw) xkw epos ekw.
Proof. exact record_args_recorded. Qed.

(** Non-vacuity: a call [t(e0, b=e1)] of a task with a defaulted parameter [a]. *)
Example args_example :
  let x0 := (EConst (VInt 1), @nil ckey) in
  let x1 := (EConst (VInt 2), [(0, [VInt 7], @nil (string * val))]) in
  args_shape [x0] [("b"%string, x1)] [VInt 1] [("a"%string, VInt 5); ("b"%string, VInt 2)]
  /\ map (fun r => (r_pos r, r_key r, r_val r, r_ups r))
         (record_args [x0] [("b"%string, x1)] [VInt 1] [("a"%string, VInt 5); ("b"%string, VInt 2)])
     = [(Some 0, None, VInt 1, []);
        (None, Some "b"%string, VInt 2, [(0, [VInt 7], [])]);
        (None, Some "a"%string, VInt 5, [])].
Proof.
  split; [|reflexivity].
  unfold args_shape, keys. simpl. repeat split.
  - repeat constructor; simpl; intuition congruence.
  - repeat constructor; simpl; intuition congruence.
  - intros k [H|[]]. subst. simpl. auto.
Qed.
