(** Facts about the insertion-ordered dict operations of Model/Arrayer.v. *)
From Coq Require Import List ZArith Bool Arith Lia Permutation.
From RV Require Import Model.Arrayer.
Import ListNotations.
Open Scope list_scope.

Lemma eqb_nat_true : forall a b, (a =? b) = true -> a = b.
Proof. intros a b H. apply Nat.eqb_eq. exact H. Qed.
Lemma eqb_nat_false : forall a b, (a =? b) = false -> a <> b.
Proof. intros a b H. apply Nat.eqb_neq. exact H. Qed.

Ltac deq k d := let E := fresh "E" in destruct (k =? d) eqn:E;
  [apply eqb_nat_true in E | apply eqb_nat_false in E].

(** ** keys *)
Lemma keys_app_at_in : forall d js p, In d (keys p) -> keys (app_at d js p) = keys p.
Proof.
  induction p as [|[k v] r IH]; simpl; intros H; [tauto|].
  deq k d; simpl; [reflexivity|]. f_equal. apply IH. destruct H; [congruence|assumption].
Qed.

Lemma keys_app_at_notin : forall d js p, ~ In d (keys p) -> keys (app_at d js p) = keys p ++ [d].
Proof.
  induction p as [|[k v] r IH]; simpl; intros H; [reflexivity|].
  deq k d; [exfalso; apply H; left; assumption|]. simpl. f_equal. apply IH. tauto.
Qed.

Lemma in_keys_dec : forall {V} d (p : list (nat * V)), {In d (keys p)} + {~ In d (keys p)}.
Proof. intros. apply in_dec. apply Nat.eq_dec. Qed.

Lemma keys_app_at_incl : forall d js p x, In x (keys p) -> In x (keys (app_at d js p)).
Proof.
  intros d js p x H. destruct (in_keys_dec d p) as [i|n].
  - rewrite keys_app_at_in; assumption.
  - rewrite keys_app_at_notin by assumption. apply in_or_app. left; assumption.
Qed.

Lemma keys_app_at_self : forall d js p, In d (keys (app_at d js p)).
Proof.
  intros d js p. destruct (in_keys_dec d p) as [i|n].
  - rewrite keys_app_at_in; assumption.
  - rewrite keys_app_at_notin by assumption. apply in_or_app. right; left; reflexivity.
Qed.

Lemma keys_app_at_inv : forall d js p x, In x (keys (app_at d js p)) -> x = d \/ In x (keys p).
Proof.
  intros d js p x H. destruct (in_keys_dec d p) as [i|n].
  - rewrite keys_app_at_in in H; auto.
  - rewrite keys_app_at_notin in H by assumption. apply in_app_or in H. destruct H as [H|[H|[]]]; auto.
Qed.

Lemma NoDup_keys_app_at : forall d js p, NoDup (keys p) -> NoDup (keys (app_at d js p)).
Proof.
  intros d js p H. destruct (in_keys_dec d p) as [i|n].
  - rewrite keys_app_at_in; assumption.
  - rewrite keys_app_at_notin by assumption.
    apply NoDup_rev in H. rewrite <- (rev_involutive (keys p ++ [d])). apply NoDup_rev.
    rewrite rev_app_distr. simpl. constructor; [|assumption]. rewrite <- in_rev. assumption.
Qed.

Lemma length_keys : forall {V} (p : list (nat * V)), length (keys p) = length p.
Proof. intros. apply map_length. Qed.

Lemma nth_error_keys_app_at : forall d js p i x,
  nth_error (keys p) i = Some x -> nth_error (keys (app_at d js p)) i = Some x.
Proof.
  intros d js p i x H. destruct (in_keys_dec d p) as [n|n].
  - rewrite keys_app_at_in; assumption.
  - rewrite keys_app_at_notin by assumption. rewrite nth_error_app1; [assumption|].
    apply nth_error_Some. congruence.
Qed.

Lemma keys_set_at_iff : forall {V} d (v : V) l x, In x (keys (set_at d v l)) <-> x = d \/ In x (keys l).
Proof.
  induction l as [|[k w] r IH]; simpl; intros x.
  - intuition.
  - deq k d; simpl.
    + subst. intuition.
    + rewrite IH. intuition.
Qed.

(** ** lookup / pop *)
Lemma lookup_none : forall {V} d (l : list (nat * V)), lookup d l = None -> ~ In d (keys l).
Proof.
  induction l as [|[k w] r IH]; simpl; intros H; [tauto|].
  deq k d; [discriminate|]. intros [A|A]; [congruence|]. exact (IH H A).
Qed.

Lemma pop_none : forall {V} d (l : list (nat * V)), pop d l = None -> ~ In d (keys l).
Proof.
  induction l as [|[k w] r IH]; simpl; intros H; [tauto|].
  deq k d; [discriminate|]. destruct (pop d r) as [[x r']|] eqn:P; [discriminate|].
  intros [A|A]; [congruence|]. exact (IH eq_refl A).
Qed.

Lemma pop_keys_sub : forall {V} d (l : list (nat * V)) v l' x,
  pop d l = Some (v, l') -> In x (keys l') -> In x (keys l).
Proof.
  induction l as [|[k w] r IH]; simpl; intros v l' x H; [discriminate|].
  deq k d.
  - inversion H; subst. intros A. right; assumption.
  - destruct (pop d r) as [[y r']|] eqn:P; [|discriminate]. inversion H; subst. simpl.
    intros [A|A]; [left; assumption|right; eapply IH; eauto].
Qed.

Lemma pop_keys_other : forall {V} d (l : list (nat * V)) v l' x,
  pop d l = Some (v, l') -> In x (keys l) -> x <> d -> In x (keys l').
Proof.
  induction l as [|[k w] r IH]; simpl; intros v l' x H; [discriminate|].
  deq k d.
  - inversion H; subst. intros [A|A] N; [congruence|assumption].
  - destruct (pop d r) as [[y r']|] eqn:P; [|discriminate]. inversion H; subst. simpl.
    intros [A|A] N; [left; assumption|right; eapply IH; eauto].
Qed.

Lemma pop_NoDup : forall {V} d (l : list (nat * V)) v l',
  pop d l = Some (v, l') -> NoDup (keys l) -> NoDup (keys l') /\ ~ In d (keys l').
Proof.
  induction l as [|[k w] r IH]; simpl; intros v l' H N; [discriminate|].
  inversion N as [|? ? N1 N2]; subst.
  deq k d.
  - inversion H; subst. split; assumption.
  - destruct (pop d r) as [[y r']|] eqn:P; [|discriminate]. inversion H; subst. simpl.
    destruct (IH _ _ eq_refl N2) as [A B]. split.
    + constructor; [|assumption]. intros C. apply N1. eapply pop_keys_sub; eauto.
    + intros [C|C]; [congruence|tauto].
Qed.

Lemma pop_length : forall {V} d (l : list (nat * V)) v l', pop d l = Some (v, l') -> length l = S (length l').
Proof.
  induction l as [|[k w] r IH]; simpl; intros v l' H; [discriminate|].
  deq k d.
  - inversion H; subst. reflexivity.
  - destruct (pop d r) as [[y r']|] eqn:P; [|discriminate]. inversion H; subst. simpl.
    f_equal. eapply IH; eauto.
Qed.

(** ** flat *)
Lemma flat_cons : forall k v r, flat ((k, v) :: r) = v ++ flat r.
Proof. reflexivity. Qed.

Lemma flat_app_at : forall d js p, Permutation (flat (app_at d js p)) (js ++ flat p).
Proof.
  induction p as [|[k v] r IH]; simpl.
  - unfold flat. simpl. rewrite app_nil_r. apply Permutation_refl.
  - deq k d.
    + rewrite !flat_cons. rewrite (app_assoc js v).
      apply Permutation_app_tail. apply Permutation_app_comm.
    + rewrite !flat_cons. eapply Permutation_trans.
      * apply Permutation_app_head. exact IH.
      * rewrite !app_assoc. apply Permutation_app_tail. apply Permutation_app_comm.
Qed.

Lemma flat_app_at_length : forall d js p, length (flat (app_at d js p)) = length js + length (flat p).
Proof. intros. rewrite (Permutation_length (flat_app_at d js p)). apply app_length. Qed.

Lemma flat_pop : forall d p js p', pop d p = Some (js, p') -> Permutation (flat p) (js ++ flat p').
Proof.
  induction p as [|[k v] r IH]; simpl; intros js p' H; [discriminate|].
  deq k d.
  - inversion H; subst. rewrite flat_cons. apply Permutation_refl.
  - destruct (pop d r) as [[y r']|] eqn:P; [|discriminate]. inversion H; subst.
    rewrite !flat_cons. eapply Permutation_trans.
    + apply Permutation_app_head. apply IH. reflexivity.
    + rewrite !app_assoc. apply Permutation_app_tail. apply Permutation_app_comm.
Qed.

Lemma flat_pop_length : forall d p js p', pop d p = Some (js, p') ->
  length (flat p) = length js + length (flat p').
Proof. intros. rewrite (Permutation_length (flat_pop _ _ _ _ H)). apply app_length. Qed.

(** ** every job is filed under its own description *)
Definition homog (p : list (nat * list job)) : Prop :=
  forall d js, In (d, js) p -> forall j, In j js -> jd j = d.

Lemma homog_nil : homog [].
Proof. intros d js []. Qed.

Lemma homog_app_at : forall d js p, homog p -> (forall j, In j js -> jd j = d) -> homog (app_at d js p).
Proof.
  induction p as [|[k v] r IH]; simpl; intros H J.
  - intros d' js' [A|[]]. inversion A; subst. assumption.
  - assert (Hr : homog r) by (intros d' js' A; apply (H d' js'); right; assumption).
    deq k d.
    + subst. intros d' js' [A|A].
      * inversion A; subst. intros j B. apply in_app_or in B. destruct B as [B|B].
        -- apply (H d' v); [left; reflexivity|assumption].
        -- apply J; assumption.
      * apply (H d' js'). right; assumption.
    + intros d' js' [A|A].
      * apply (H d' js'). left; assumption.
      * apply (IH Hr J d' js' A).
Qed.

Lemma homog_pop : forall d p js p', pop d p = Some (js, p') -> homog p ->
  homog p' /\ (forall j, In j js -> jd j = d).
Proof.
  induction p as [|[k v] r IH]; simpl; intros js p' H G; [discriminate|].
  assert (Hr : homog r) by (intros d' js' A; apply (G d' js'); right; assumption).
  deq k d.
  - inversion H; subst. split; [assumption|]. apply (G d js). left; reflexivity.
  - destruct (pop d r) as [[y r']|] eqn:P; [|discriminate]. inversion H; subst.
    destruct (IH _ _ eq_refl Hr) as [A B]. split; [|assumption].
    intros d' js' [C|C].
    + apply (G d' js'). left; assumption.
    + apply (A d' js' C).
Qed.
