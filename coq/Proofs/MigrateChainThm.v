(** C36 — the theorems about the shipped revision chain (Model/MigrateChain.v). *)
From Coq Require Import List String ZArith Bool Ascii Lia.
From RV Require Import Model.Migrate Model.MigrateChain Proofs.MigrateBase Proofs.MigratePres.
Import ListNotations.
Open Scope string_scope.
Open Scope list_scope.

(* ------------------------------------------------------------------ specification *)
Definition utc_rev := "3b0a6e67cc58".   (* "change timestamps to utc" *)
Definition eid_rev := "cd2d53191748".   (* "make job.execution_id non-nullable" (stub + back-fill) *)

Definition revisions : list string := map m_rev (chain Truncating).

Fixpoint revs_after (rev : string) (rs : list string) : option (list string) :=
  if String.eqb rev "" then Some rs else
  match rs with
  | [] => None
  | r :: rest => if String.eqb r rev then Some rest else revs_after rev rest
  end.

(** Does an upgrade that starts at revision [start] run migration [rid]? *)
Definition crosses (rid start : string) : bool :=
  match revs_after start revisions with
  | Some l => existsb (String.eqb rid) l
  | None => false
  end.

(** Local naive time -> UTC naive time, *same instant*: only the whole seconds move. *)
Definition ideal_utc (tz : Z -> Z) (v : val) : val :=
  match v with VTime s us => VTime (tz s) us | _ => v end.

(** The value a shared column must have after the upgrade. *)
Definition expected (tz : Z -> Z) (start : string) : conv :=
  fun t c v => if crosses utc_rev start && job_time t c then ideal_utc tz v else v.

(** job.execution_id is recomputed by revision cd2d53191748 from the parent pointers (the column
    becomes NOT NULL, so a NULL cannot be kept); see [upgrade_execution_id] for what it becomes. *)
Definition exempt (start : string) : freeset :=
  fun t c => crosses eid_rev start && (String.eqb t "job" && String.eqb c "execution_id").

Definition time_typed (v : val) : bool := match v with VTime _ _ | VNull => true | _ => false end.

(** DATETIME columns of [job] hold timestamps (what SQLAlchemy writes) or NULL. *)
Definition job_times_typed (d : db) : Prop :=
  forall r c v, In r (rows_of "job" d) -> job_time_col c = true -> rget r c = Some v -> time_typed v = true.

(** As shipped: everything is kept exactly, except that job times are cut to whole seconds. *)
Definition shipped_conv (tz : Z -> Z) (start : string) : conv :=
  fun t c v => if crosses utc_rev start && job_time t c then utc_conv Truncating tz v else v.

(* ------------------------------------------------------------------ suffixes of the chain *)
Fixpoint tails {A} (l : list A) : list (list A) :=
  match l with [] => [[]] | _ :: r => l :: tails r end.

Lemma tails_head : forall A (l : list A), In l (tails l).
Proof. destruct l; simpl; auto. Qed.

Lemma steps_after_tails : forall r ms todo, steps_after r ms = Some todo -> In todo (tails ms).
Proof.
  induction ms as [|m rest IH]; simpl; intros todo H.
  - destruct (String.eqb r ""); [injection H as <-; auto|discriminate].
  - destruct (String.eqb r "") eqn:E; [injection H as <-; auto|].
    destruct (String.eqb (m_rev m) r).
    + injection H as <-. right. apply tails_head.
    + right. apply IH. destruct rest; simpl in *; rewrite E in *; exact H.
Qed.

Lemma steps_after_revs : forall r ms todo,
  steps_after r ms = Some todo -> revs_after r (map m_rev ms) = Some (map m_rev todo).
Proof.
  induction ms as [|m rest IH]; simpl; intros todo H.
  - destruct (String.eqb r ""); [injection H as <-; reflexivity|discriminate].
  - destruct (String.eqb r "") eqn:E; [injection H as <-; reflexivity|].
    destruct (String.eqb (m_rev m) r); [injection H as <-; reflexivity|].
    specialize (IH todo). destruct rest; simpl in *; rewrite E in *; auto.
Qed.

Lemma chain_revisions : forall v, map m_rev (chain v) = revisions.
Proof. destruct v; reflexivity. Qed.

Definition variant_eqb (a b : utc_variant) : bool :=
  match a, b with Truncating, Truncating | KeepFraction, KeepFraction => true | _, _ => false end.

Definition has_rev (rid : string) (todo : list migration) : bool := existsb (String.eqb rid) (map m_rev todo).

(** For a suffix of the chain: the SQLite operation list converts job times exactly when the
    suffix contains the UTC revision (once, with the chain's variant), and back-fills
    execution_id exactly when it contains cd2d53191748. *)
Definition suffix_ok (v : utc_variant) (todo : list migration) : bool :=
  let ops := chain_ops Sqlite todo in
  match utcs ops with
  | [] => negb (has_rev utc_rev todo)
  | [x] => has_rev utc_rev todo && variant_eqb x v
  | _ => false
  end && Bool.eqb (existsb is_backfill ops) (has_rev eid_rev todo) && negb (existsb is_merge ops).

Lemma all_suffixes_ok : forall v, forallb (suffix_ok v) (tails (chain v)) = true.
Proof. destruct v; vm_compute; reflexivity. Qed.

Lemma variant_eqb_eq : forall a b, variant_eqb a b = true -> a = b.
Proof. destruct a, b; simpl; congruence. Qed.

(** The conversion / exemption of the model's operation list, in terms of the specification. *)
Lemma chain_conv_free : forall v e d todo,
  e_dialect e = Sqlite ->
  steps_after (d_rev d) (chain v) = Some todo ->
  let ops := chain_ops (e_dialect e) todo in
  (forall t c x, conv_of e ops t c x =
                 if crosses utc_rev (d_rev d) && job_time t c then utc_conv v (e_tz e) x else x) /\
  (forall t c, free_of ops t c = exempt (d_rev d) t c).
Proof.
  intros v e d todo Hd Hs. rewrite Hd. cbv zeta.
  pose proof (steps_after_tails _ _ _ Hs) as Hin.
  pose proof (all_suffixes_ok v) as Hall. rewrite forallb_forall in Hall. specialize (Hall _ Hin).
  apply steps_after_revs in Hs. rewrite chain_revisions in Hs.
  unfold suffix_ok in Hall. apply andb_true_iff in Hall. destruct Hall as [Hall Hm].
  apply negb_true_iff in Hm.
  apply andb_true_iff in Hall. destruct Hall as [Hu Hb].
  apply Bool.eqb_prop in Hb.
  assert (Cu : crosses utc_rev (d_rev d) = has_rev utc_rev todo) by (unfold crosses; rewrite Hs; reflexivity).
  assert (Ce : crosses eid_rev (d_rev d) = has_rev eid_rev todo) by (unfold crosses; rewrite Hs; reflexivity).
  split.
  - intros t c x. rewrite conv_of_utcs, Cu.
    destruct (utcs (chain_ops Sqlite todo)) as [|x0 [|x1 l]]; simpl.
    + apply negb_true_iff in Hu. rewrite Hu. reflexivity.
    + apply andb_true_iff in Hu. destruct Hu as [Hu Hv]. apply variant_eqb_eq in Hv. subst x0.
      rewrite Hu. reflexivity.
    + discriminate.
  - intros t c. rewrite (free_of_backfill _ _ _ Hm), Hb. unfold exempt. rewrite Ce. reflexivity.
Qed.

Lemma upgrade_steps : forall e ms vs d d',
  upgrade e ms vs d = Ok d' -> exists todo, steps_after (d_rev d) ms = Some todo.
Proof.
  unfold upgrade. intros. destruct (steps_after (d_rev d) ms); [eauto|discriminate].
Qed.

(** Row-wise change of the conversion function, using facts about the old rows. *)
Lemma preserved_conv_in : forall g g' f f' d d',
  preserved g f d d' ->
  (forall t T r c v, lookup t (d_tables d) = Some T -> In r (t_rows T) -> rget r c = Some v ->
                     g t c v = g' t c v) ->
  (forall t c, f' t c = f t c) ->
  preserved g' f' d d'.
Proof.
  intros g g' f f' d d' H Hg Hf t T HT. destruct (H t T HT) as (T' & L & rs & ex & E & F).
  exists T'. split; [exact L|]. exists rs, ex. split; [exact E|].
  clear E. revert F. generalize (fun r => Hg t T r). generalize (t_rows T). intros l.
  revert rs. induction l as [|r l IH]; intros rs Hin F; inversion F; subst; constructor.
  - intros c v Hv Hfc. rewrite <- (Hin r c v HT (or_introl eq_refl) Hv). apply H2; [exact Hv|].
    rewrite <- Hf. exact Hfc.
  - apply IH; [|assumption]. intros r0 c v HT' Hr0. apply Hin; [exact HT'|right; exact Hr0].
Qed.

(* ------------------------------------------------------------------ main theorems *)
(** As shipped (and as fixed): every row of every table is kept; every shared column keeps its
    value, except that job.start_time / job.end_time go through the chain's own conversion. *)
Theorem upgrade_keeps_rows : forall v e d d',
  e_dialect e = Sqlite ->
  upgrade e (chain v) db_versions d = Ok d' ->
  preserved (fun t c x => if crosses utc_rev (d_rev d) && job_time t c then utc_conv v (e_tz e) x else x)
            (exempt (d_rev d)) d d'.
Proof.
  intros v e d d' Hd H. pose proof (upgrade_preserved _ _ _ _ _ H) as P. cbv zeta in P.
  destruct (upgrade_steps _ _ _ _ _ H) as (todo & Hs).
  destruct (chain_conv_free v e d todo Hd Hs) as [Hc Hf]. cbv zeta in Hc, Hf.
  unfold todo_of in P. rewrite Hs in P.
  eapply preserved_conv_in; [exact P| |].
  - intros. apply Hc.
  - intros. symmetry. apply Hf.
Qed.

(** The repaired chain keeps the recorded data: equal values in every shared column, job times
    equal as instants. *)
Theorem upgrade_keeps_data_fixed : forall e d d',
  e_dialect e = Sqlite ->
  upgrade e (chain KeepFraction) db_versions d = Ok d' ->
  job_times_typed d ->
  preserved (expected (e_tz e) (d_rev d)) (exempt (d_rev d)) d d'.
Proof.
  intros e d d' Hd H Ht. eapply preserved_conv_in; [eapply upgrade_keeps_rows; eauto| |reflexivity].
  intros t T r c x L Hin Hx. unfold expected.
  destruct (crosses utc_rev (d_rev d) && job_time t c) eqn:E; [|reflexivity].
  apply andb_true_iff in E. destruct E as [_ E]. unfold job_time in E.
  apply andb_true_iff in E. destruct E as [Et Ec]. apply String.eqb_eq in Et. subst t.
  assert (Hty : time_typed x = true).
  { eapply Ht; [|exact Ec|exact Hx]. unfold rows_of. rewrite L. exact Hin. }
  destruct x; simpl in *; try discriminate; reflexivity.
Qed.

(** Columns other than job.start_time / job.end_time / job.execution_id: kept exactly, as shipped. *)
Theorem upgrade_keeps_other_columns : forall v e d d',
  e_dialect e = Sqlite ->
  upgrade e (chain v) db_versions d = Ok d' ->
  preserved id_conv (fun t c => String.eqb t "job" && (job_time_col c || String.eqb c "execution_id")) d d'.
Proof.
  intros v e d d' Hd H t T HT.
  destruct (upgrade_keeps_rows v e d d' Hd H t T HT) as (T' & L & rs & ex & E & F).
  exists T'. split; [exact L|]. exists rs, ex. split; [exact E|].
  eapply Forall2_impl; [|exact F]. intros r r' Hr c x Hx Hf. unfold id_conv.
  assert (Hj : job_time t c = false).
  { unfold job_time. destruct (String.eqb t "job"); [|reflexivity]. simpl in *.
    apply orb_false_iff in Hf. tauto. }
  rewrite (Hr c x Hx).
  - rewrite Hj, andb_false_r. reflexivity.
  - unfold exempt. destruct (String.eqb t "job"); [|rewrite andb_false_r; reflexivity]. simpl in *.
    apply orb_false_iff in Hf. destruct Hf as [_ ->]. rewrite andb_false_r. reflexivity.
Qed.

(** After a successful upgrade the database is at the newest revision, which the library accepts. *)
Definition latest_rev : string := last_rev (chain Truncating) "".

Lemma last_rev_tail : forall ms todo dflt, In todo (tails ms) -> todo <> [] -> last_rev todo dflt = last_rev ms dflt.
Proof.
  unfold last_rev. induction ms as [|m rest IH]; simpl; intros todo dflt Hin Hne.
  - destruct Hin as [<-|[]]. congruence.
  - destruct Hin as [<-|Hin]; [reflexivity|].
    rewrite (IH todo dflt Hin Hne). destruct rest as [|m' rest'].
    + simpl in Hin. destruct Hin as [<-|[]]. congruence.
    + clear. simpl. destruct (rev rest' ++ [m']) eqn:E; simpl.
      * destruct (rev rest'); discriminate.
      * reflexivity.
Qed.

Lemma steps_after_nil : forall r ms dflt,
  steps_after r ms = Some [] -> ms <> [] -> r = last_rev ms dflt.
Proof.
  induction ms as [|m rest IH]; intros dflt H Hne; [congruence|].
  simpl in H. destruct (String.eqb r "") eqn:E; [discriminate|].
  destruct (String.eqb (m_rev m) r) eqn:Em.
  - injection H as ->. apply String.eqb_eq in Em. subst r. reflexivity.
  - destruct rest as [|m' rest'].
    + simpl in H. rewrite E in H. discriminate.
    + rewrite (IH dflt H) by discriminate.
      apply (last_rev_tail (m :: m' :: rest') (m' :: rest') dflt); [|discriminate].
      simpl. auto.
Qed.

Lemma on_table_rev : forall t d f d', on_table t d f = Ok d' -> d_rev d' = d_rev d.
Proof.
  unfold on_table. intros t d f d' H. destruct (lookup t (d_tables d)); [|discriminate].
  destruct (f t0); [|discriminate]. injection H as <-. reflexivity.
Qed.

Lemma chain_last : forall v dflt, last_rev (chain v) dflt = latest_rev.
Proof. destruct v; reflexivity. Qed.

Lemma chain_nonempty : forall v, chain v <> [].
Proof. destruct v; discriminate. Qed.

Theorem upgrade_reaches_latest : forall v e d d',
  upgrade e (chain v) db_versions d = Ok d' ->
  d_rev d' = latest_rev /\ compatible db_versions vmin vmax d' = true.
Proof.
  intros v e d d' H.
  assert (G : d_rev d' = latest_rev).
  { unfold upgrade in H. destruct (steps_after (d_rev d) (chain v)) as [[|m todo]|] eqn:S; [| |discriminate].
    - injection H as <-. rewrite (steps_after_nil _ _ "" S (chain_nonempty v)). apply chain_last.
    - destruct (run_ops _ _ d) as [d1|]; [|discriminate].
      destruct (lookup _ db_versions) as [[major minor]|]; [|discriminate].
      apply on_table_rev in H. rewrite H. simpl d_rev.
      rewrite (last_rev_tail (chain v) (m :: todo) (d_rev d)); [apply chain_last| |discriminate].
      eapply steps_after_tails; eauto. }
  split; [exact G|]. unfold compatible. rewrite G. vm_compute. reflexivity.
Qed.
