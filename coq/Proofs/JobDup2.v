(** C06, duplicates agree — assembled over whole runs: the phase/event discipline of the job machine ([Q]) and,
    from it, that a job which collapsed into another one ends with exactly that job's outcome. *)
From Coq Require Import List ZArith Bool Arith Lia.
From RV Require Import Model.JobMachine Proofs.JobBase Proofs.JobDup.
Import ListNotations.
Open Scope list_scope.

Definition evj (e : event) : nat := match e with EvExec j | EvDone j | EvReject j _ | EvResolve j _ => j end.

(** handed to an executor and not settled yet *)
Definition runph (p : phase) : Prop := p = PSubmitted \/ p = PReported \/ p = PEvaluating \/ p = PEvalQ.

(** how a duplicate [xj] relates to its target [xt] *)
Definition dup_ok (t : nat) (xt xj : job) : Prop :=
  match jphase xt with
  | PSettled (Ok v) => (jpreset xj = Some v /\ (jphase xj = PCacheQ \/ jphase xj = PEvalQ)) \/ jphase xj = PSettled (Ok v)
  | PSettled (Ko e) => jphase xj = PSettled (Ko e)
  | _ => jphase xj = PCollapsed t
  end.

Record Qg (D : nat -> nat -> job -> job -> Prop) (s : state) : Prop := {
  q_nd : NoDup (map evj (queue s));
  q_ex : forall j, In (EvExec j) (queue s) -> exists x, getj s j = Some x /\ jphase x = PQueued;
  q_dn : forall j, In (EvDone j) (queue s) -> exists x, getj s j = Some x /\ (jphase x = PCacheQ \/ jphase x = PReported);
  q_rj : forall j e, In (EvReject j e) (queue s) ->
         exists x, getj s j = Some x /\ jpreset x = None /\ (jphase x = PCacheQ \/ jphase x = PReported \/ jphase x = PEvalQ);
  q_rs : forall j v, In (EvResolve j v) (queue s) ->
         exists x, getj s j = Some x /\ jphase x = PEvalQ /\ (forall v', jpreset x = Some v' -> v' = v);
  q_wt : forall j, In j (waiting s) -> exists x, getj s j = Some x /\ jphase x = PWaiting;
  q_wn : NoDup (waiting s);
  q_pr : forall j x v, getj s j = Some x -> jpreset x = Some v ->
         jphase x = PCacheQ \/ jphase x = PEvalQ \/ jphase x = PSettled (Ok v);
  q_pd : forall k t, In (k, t) (pending s) ->
         exists x, getj s t = Some x /\ k = (jkey x, jctx x) /\ runph (jphase x) /\ jpreset x = None;
  q_sb : forall t j, In (t, j) (subs s) ->
         t <> j /\ ~ In j (map fst (subs s)) /\
         exists xt xj, getj s t = Some xt /\ getj s j = Some xj /\ jpreset xt = None /\
                       (runph (jphase xt) \/ exists o, jphase xt = PSettled o) /\ D t j xt xj;
  q_sn : NoDup (map snd (subs s))
}.

Definition Dstd (t j : nat) (xt xj : job) : Prop := dup_ok t xt xj.
Notation Q := (Qg Dstd).

Lemma Q_init : Q init.
Proof.
  constructor; simpl; try (apply NoDup_nil); intros; try contradiction.
  unfold getj in *. simpl in *. destruct j; discriminate.
Qed.

(** the theorem that [Q] is for *)
Lemma Q_dups_agree s t j xt xj o o' :
  Q s -> In (t, j) (subs s) -> getj s t = Some xt -> getj s j = Some xj ->
  jphase xt = PSettled o -> jphase xj = PSettled o' -> o' = o.
Proof.
  intros HQ Hin Ht Hj Pt Pj. destruct (q_sb _ s HQ t j Hin) as (_ & _ & xt' & xj' & Ht' & Hj' & _ & _ & D).
  rewrite Ht in Ht'. injection Ht' as <-. rewrite Hj in Hj'. injection Hj' as <-.
  unfold Dstd, dup_ok in D. rewrite Pt in D. destruct o as [v|e].
  - destruct D as [[_ [D|D]]|D]; congruence.
  - congruence.
Qed.

(** * moving one job to another (unsettled) phase, possibly queueing its next event *)
Definition ev_ok (e : event) (p : phase) (pre : option Z) : Prop :=
  match e with
  | EvExec _ => p = PQueued
  | EvDone _ => p = PCacheQ \/ p = PReported
  | EvReject _ _ => pre = None /\ (p = PCacheQ \/ p = PReported \/ p = PEvalQ)
  | EvResolve _ v => p = PEvalQ /\ (forall v', pre = Some v' -> v' = v)
  end.

Definition enq_opt (s : state) (eo : option event) : state := match eo with Some e => enqueue s e | None => s end.

Lemma getj_setj_cases s j x y k z : getj s j = Some x -> getj (setj s j y) k = Some z ->
  (k = j /\ z = y) \/ (k <> j /\ getj s k = Some z).
Proof.
  intros Hx H. destruct (Nat.eq_dec j k) as [->|Hne].
  - rewrite (getj_setj_same _ _ _ _ Hx) in H. injection H as <-. auto.
  - rewrite getj_setj_other in H by assumption. right. split; auto.
Qed.

Lemma NoDup_app_single {A} (l : list A) a : NoDup l -> ~ In a l -> NoDup (l ++ [a]).
Proof.
  induction 1 as [|x l Hx Hl IH]; simpl; intros Hn.
  - constructor; [intros []|constructor].
  - constructor.
    + intros H. apply in_app_or in H. destruct H as [H|[H|[]]]; [contradiction|]. apply Hn. now left.
    + apply IH. intros H. apply Hn. now right.
Qed.

Lemma in_evj q e : In e q -> In (evj e) (map evj q).
Proof. intros H. apply in_map. exact H. Qed.

Lemma unsettled_dup_target t xt xt' xj :
  (forall o, jphase xt <> PSettled o) -> (forall o, jphase xt' <> PSettled o) -> dup_ok t xt xj -> dup_ok t xt' xj.
Proof.
  unfold dup_ok. intros H H'. destruct (jphase xt) as [| |t0| | | | | |o|] eqn:E; try (exfalso; eapply H; reflexivity);
    destruct (jphase xt') as [| |t1| | | | | |o'|] eqn:E'; try (exfalso; eapply H'; reflexivity); auto.
Qed.

Lemma Q_move s j x y eo :
  Q s -> getj s j = Some x -> ~ In j (map evj (queue s)) -> ~ In j (waiting s) ->
  jkey y = jkey x -> jctx y = jctx x ->
  (forall o, jphase x <> PSettled o) -> (forall o, jphase y <> PSettled o) ->
  (runph (jphase x) -> runph (jphase y) /\ jpreset y = jpreset x) ->
  (forall t xt, In (t, j) (subs s) -> getj s t = Some xt -> dup_ok t xt x -> dup_ok t xt y) ->
  (forall v, jpreset y = Some v -> jphase y = PCacheQ \/ jphase y = PEvalQ) ->
  match eo with None => True | Some e => evj e = j /\ ev_ok e (jphase y) (jpreset y) end ->
  Q (enq_opt (setj s j y) eo).
Proof.
  intros HQ Hx Hne Hnw Hk1 Hk2 Hux Huy Hrun Hdup Hpr Hev.
  assert (G : forall k z, getj (enq_opt (setj s j y) eo) k = Some z -> (k = j /\ z = y) \/ (k <> j /\ getj s k = Some z)).
  { intros k z H. apply (getj_setj_cases s j x y k z Hx). destruct eo; exact H. }
  assert (Gy : getj (enq_opt (setj s j y) eo) j = Some y).
  { destruct eo; apply (getj_setj_same _ _ _ _ Hx). }
  assert (Go : forall k, k <> j -> getj (enq_opt (setj s j y) eo) k = getj s k).
  { intros k Hk. destruct eo; apply getj_setj_other; auto. }
  assert (Hq : forall e, In e (queue (enq_opt (setj s j y) eo)) -> In e (queue s) \/ eo = Some e).
  { intros e H. destruct eo as [e0|]; simpl in H; [|left; exact H]. apply in_app_or in H. destruct H as [H|[<-|[]]]; auto. }
  assert (Hold : forall e, In e (queue s) -> evj e <> j).
  { intros e He E. apply Hne. rewrite <- E. now apply in_evj. }
  destruct HQ as [a1 a2 a3 a4 a5 a6 a7 a8 a9 a10 a11].
  constructor.
  - destruct eo as [e0|]; simpl; [|exact a1]. rewrite map_app. simpl. destruct Hev as [E _].
    apply NoDup_app_single; [exact a1|rewrite E; exact Hne].
  - intros k H. destruct (Hq _ H) as [H0|E].
    + destruct (a2 k H0) as (z & Hz & Hp). exists z. split; [|exact Hp]. rewrite Go; [exact Hz|]. exact (Hold _ H0).
    + subst eo. destruct Hev as [E1 E2]. simpl in E1, E2. subst k. exists y. auto.
  - intros k H. destruct (Hq _ H) as [H0|E].
    + destruct (a3 k H0) as (z & Hz & Hp). exists z. split; [|exact Hp]. rewrite Go; [exact Hz|]. exact (Hold _ H0).
    + subst eo. destruct Hev as [E1 E2]. simpl in E1, E2. subst k. exists y. auto.
  - intros k e H. destruct (Hq _ H) as [H0|E].
    + destruct (a4 k e H0) as (z & Hz & Hp). exists z. split; [|exact Hp]. rewrite Go; [exact Hz|]. exact (Hold _ H0).
    + subst eo. destruct Hev as [E1 E2]. simpl in E1, E2. subst k. exists y. auto.
  - intros k v H. destruct (Hq _ H) as [H0|E].
    + destruct (a5 k v H0) as (z & Hz & Hp). exists z. split; [|exact Hp]. rewrite Go; [exact Hz|]. exact (Hold _ H0).
    + subst eo. destruct Hev as [E1 E2]. simpl in E1, E2. subst k. exists y. auto.
  - intros k H. assert (Hk : k <> j) by (intros ->; apply Hnw; destruct eo; exact H).
    destruct (a6 k) as (z & Hz & Hp); [destruct eo; exact H|]. exists z. rewrite Go by exact Hk. auto.
  - destruct eo; exact a7.
  - intros k z v Hz Hv. destruct (G _ _ Hz) as [[-> ->]|[Hk Hz']].
    + destruct (Hpr v Hv) as [H|H]; auto.
    + exact (a8 k z v Hz' Hv).
  - intros k t H. assert (H0 : In (k, t) (pending s)) by (destruct eo; exact H).
    destruct (a9 k t H0) as (z & Hz & Hkk & Hr & Hp). destruct (Nat.eq_dec t j) as [->|Ht].
    + rewrite Hx in Hz. injection Hz as <-. destruct (Hrun Hr) as [R E]. exists y. split; [exact Gy|].
      split; [rewrite Hk1, Hk2; exact Hkk|]. split; [exact R|]. rewrite E. exact Hp.
    + exists z. rewrite Go by exact Ht. auto.
  - intros t k H. assert (H0 : In (t, k) (subs s)) by (destruct eo; exact H).
    assert (Es : subs (enq_opt (setj s j y) eo) = subs s) by (destruct eo; reflexivity). rewrite Es.
    destruct (a10 t k H0) as (Htk & Hnt & xt & xk & Hxt & Hxk & Hpt & Hph & Hd).
    split; [exact Htk|]. split; [exact Hnt|].
    destruct (Nat.eq_dec t j) as [->|Ht]; destruct (Nat.eq_dec k j) as [->|Hk].
    + contradiction.
    + rewrite Hx in Hxt. injection Hxt as <-. exists y, xk. rewrite Gy, (Go k Hk).
      assert (Hr : runph (jphase x)) by (destruct Hph as [Hr|(o & Ho)]; [exact Hr|exfalso; eapply Hux; eauto]).
      destruct (Hrun Hr) as [R E].
      split; [reflexivity|]. split; [exact Hxk|]. split; [rewrite E; exact Hpt|]. split; [left; exact R|].
      exact (unsettled_dup_target j x y xk Hux Huy Hd).
    + rewrite Hx in Hxk. injection Hxk as <-. exists xt, y. rewrite Gy, (Go t Ht).
      split; [exact Hxt|]. split; [reflexivity|]. split; [exact Hpt|]. split; [exact Hph|].
      exact (Hdup t xt H0 Hxt Hd).
    + exists xt, xk. rewrite (Go t Ht), (Go k Hk). repeat split; auto.
  - destruct eo; exact a11.
Qed.

(** * fields [Q] does not read *)
Lemma Q_core D s s' : jobs s' = jobs s -> queue s' = queue s -> pending s' = pending s -> waiting s' = waiting s ->
  subs s' = subs s -> Qg D s -> Qg D s'.
Proof.
  intros E1 E2 E3 E4 E5 [a1 a2 a3 a4 a5 a6 a7 a8 a9 a10 a11].
  assert (G : forall j, getj s' j = getj s j) by (intros j; unfold getj; now rewrite E1).
  constructor; try rewrite E2; try rewrite E3; try rewrite E4; try rewrite E5; auto;
    intros; repeat setoid_rewrite G; eauto.
  - rewrite G in *. eauto.
Qed.

(** a job in a phase without a queued event has no event *)
Lemma no_event D s j x : Qg D s -> getj s j = Some x ->
  jphase x <> PQueued -> jphase x <> PCacheQ -> jphase x <> PReported -> jphase x <> PEvalQ ->
  ~ In j (map evj (queue s)).
Proof.
  intros HQ Hx N1 N2 N3 N4 H. apply in_map_iff in H. destruct H as (e & E & He).
  destruct e as [k|k|k e0|k v]; simpl in E; subst k.
  - destruct (q_ex _ s HQ j He) as (z & Hz & P). congruence.
  - destruct (q_dn _ s HQ j He) as (z & Hz & [P|P]); congruence.
  - destruct (q_rj _ s HQ j e0 He) as (z & Hz & _ & [P|[P|P]]); congruence.
  - destruct (q_rs _ s HQ j v He) as (z & Hz & P & _). congruence.
Qed.

(** popping an event keeps [Q]; the popped job has no other event *)
Lemma remove_nth_in {A} (q : list A) i e : In e (remove_nth q i) -> In e q.
Proof.
  revert i. induction q as [|a q IH]; intros [|i]; simpl; auto. intros [H|H]; auto. right. eapply IH; eauto.
Qed.

Lemma remove_nth_map {A B} (f : A -> B) (q : list A) i : map f (remove_nth q i) = remove_nth (map f q) i.
Proof. revert i. induction q as [|a q IH]; intros [|i]; simpl; auto. now rewrite IH. Qed.

Lemma NoDup_remove_nth {A} (l : list A) : forall i, NoDup l -> NoDup (remove_nth l i).
Proof.
  induction l as [|a l IH]; intros [|i] H; simpl; auto; inversion H; subst; auto.
  constructor; auto. intros Hin. apply remove_nth_in in Hin. contradiction.
Qed.

Lemma NoDup_remove_nth_notin {A} (l : list A) : forall i a, NoDup l -> nth_error l i = Some a -> ~ In a (remove_nth l i).
Proof.
  induction l as [|b l IH]; intros [|i] a H Hn; simpl in *; try discriminate; inversion H; subst.
  - injection Hn as <-. assumption.
  - intros [E|Hin]; [subst; apply H2; eapply nth_error_In; eauto|eapply IH; eauto].
Qed.

Lemma Q_pop s i e : Q s -> nth_error (queue s) i = Some e ->
  Q (pop_queue s i) /\ ~ In (evj e) (map evj (queue (pop_queue s i))).
Proof.
  intros HQ Hn. split.
  - destruct HQ as [a1 a2 a3 a4 a5 a6 a7 a8 a9 a10 a11].
    constructor; simpl; auto; try (intros; match goal with H : In _ (remove_nth _ _) |- _ => apply remove_nth_in in H end; eauto).
    rewrite remove_nth_map. now apply NoDup_remove_nth.
  - simpl. rewrite remove_nth_map. apply NoDup_remove_nth_notin; [apply (q_nd _ s HQ)|].
    rewrite nth_error_map, Hn. reflexivity.
Qed.

(** * _check_jobs_pending_limits *)
Section C.
Variable c : config.

Lemma split_ready_spec s : forall w lim a b, split_ready c s w lim = (a, b) ->
  (forall k, In k a -> In k w) /\ (forall k, In k b -> In k w) /\
  (NoDup w -> NoDup a /\ NoDup b /\ forall k, In k a -> ~ In k b).
Proof.
  induction w as [|j r IH]; intros lim a b H; simpl in H.
  - injection H as <- <-. repeat split; auto; try constructor; intros k [].
  - destruct (getj s j) as [x|].
    + destruct (within c (used s) (add_limits (jlimits x) lim)).
      * destruct (split_ready c s r (add_limits (jlimits x) lim)) as [a' b'] eqn:E. injection H as <- <-.
        destruct (IH _ _ _ E) as (A & B & C). split; [|split].
        -- intros k [->|Hk]; [now left|right; auto].
        -- intros k Hk. right. auto.
        -- intros Hnd. inversion Hnd as [|? ? Hj Hr]; subst. destruct (C Hr) as (Na & Nb & D). split; [|split].
           ++ constructor; auto.
           ++ exact Nb.
           ++ intros k [->|Hk]; [intros Hb; apply Hj; auto|auto].
      * destruct (split_ready c s r lim) as [a' b'] eqn:E. injection H as <- <-.
        destruct (IH _ _ _ E) as (A & B & C). split; [|split].
        -- intros k Hk. right. auto.
        -- intros k [->|Hk]; [now left|right; auto].
        -- intros Hnd. inversion Hnd as [|? ? Hj Hr]; subst. destruct (C Hr) as (Na & Nb & D). split; [|split].
           ++ exact Na.
           ++ constructor; auto.
           ++ intros k Hk [->|Hb]; [apply Hj; auto|eapply D; eauto].
    + destruct (IH _ _ _ H) as (A & B & C). split; [|split].
      * intros k Hk. right. auto.
      * intros k Hk. right. auto.
      * intros Hnd. inversion Hnd; subst. auto.
Qed.

Lemma Q_set_waiting s w : Q s -> NoDup w -> (forall k, In k w -> In k (waiting s)) -> Q (set_waiting s w).
Proof.
  intros [a1 a2 a3 a4 a5 a6 a7 a8 a9 a10 a11] Hn Hs. constructor; simpl; auto.
  intros j Hj. destruct (a6 j (Hs j Hj)) as (x & Hx & P). exists x. auto.
Qed.

Lemma Q_requeue s k : Q s -> ~ In k (waiting s) ->
  (forall x, getj s k = Some x -> jphase x = PWaiting) -> Q (requeue s k).
Proof.
  intros HQ Hnw Hp. unfold requeue. destruct (getj s k) as [x|] eqn:Hx; [|exact HQ].
  specialize (Hp x eq_refl).
  apply (Q_move s k x (with_phase x PQueued) (Some (EvExec k))); auto.
  - apply (no_event _ s k x HQ Hx); rewrite Hp; discriminate.
  - intros o. rewrite Hp. discriminate.
  - intros o. simpl. discriminate.
  - intros R. exfalso. unfold runph in R. rewrite Hp in R. destruct R as [R|[R|[R|R]]]; discriminate.
  - intros t xt Hin Ht D. exfalso. unfold dup_ok in D. rewrite Hp in D.
    destruct (jphase xt) as [| |t0| | | | | |[v|e]|]; try discriminate. destruct D as [[_ [D|D]]|D]; discriminate.
  - intros v Hv. simpl in Hv. exfalso. destruct (q_pr _ s HQ k x v Hx Hv) as [P|[P|P]]; rewrite Hp in P; discriminate.
  - simpl. auto.
Qed.

Lemma waiting_requeue s k : waiting (requeue s k) = waiting s.
Proof. unfold requeue. destruct (getj s k); reflexivity. Qed.

Lemma getj_requeue_other s k j : j <> k -> getj (requeue s k) j = getj s j.
Proof.
  intros H. unfold requeue. destruct (getj s k) as [x|]; [|reflexivity].
  change (getj (setj s k (with_phase x PQueued)) j = getj s j). apply getj_setj_other. auto.
Qed.

Lemma Q_fold_requeue l : forall s, Q s -> NoDup l -> (forall k, In k l -> ~ In k (waiting s)) ->
  (forall k x, In k l -> getj s k = Some x -> jphase x = PWaiting) -> Q (fold_left requeue l s).
Proof.
  induction l as [|k l IH]; intros s HQ Hn Hw Hp; simpl; [exact HQ|].
  inversion Hn as [|? ? Hk Hn']; subst. apply IH; auto.
  - apply Q_requeue; auto. apply Hw. now left. intros x Hx. apply (Hp k x); auto. now left.
  - intros k' Hk'. rewrite waiting_requeue. apply Hw. now right.
  - intros k' x Hk' Hx. rewrite getj_requeue_other in Hx by (intros ->; contradiction). apply (Hp k' x); auto. now right.
Qed.

Lemma Q_check_pending s : Q s -> Q (check_pending_limits c s).
Proof.
  intros HQ. unfold check_pending_limits. destruct (split_ready c s (waiting s) []) as [a b] eqn:E.
  destruct (split_ready_spec s _ _ _ _ E) as (A & B & C). destruct (C (q_wn _ s HQ)) as (Na & Nb & D).
  apply Q_fold_requeue.
  - apply Q_set_waiting; auto.
  - exact Na.
  - intros k Hk. simpl. exact (D k Hk).
  - intros k x Hk Hx. change (getj s k = Some x) in Hx. destruct (q_wt _ s HQ k (A k Hk)) as (z & Hz & P). congruence.
Qed.

Lemma Q_skip s : Q s -> Q (skip_wakeup c s).
Proof. intros H. unfold skip_wakeup. destruct (recheck_on_skip (vr c)); [now apply Q_check_pending|exact H]. Qed.
End C.

Lemma dup_ok_to_evalq t xt x y v : dup_ok t xt x -> jphase x = PCacheQ \/ jphase x = PReported ->
  jpreset x = Some v -> jpreset y = Some v -> jphase y = PEvalQ -> dup_ok t xt y.
Proof.
  unfold dup_ok. intros D Hp Hv Hy Py. destruct (jphase xt) as [| |t0| | | | | |[v0|e0]|].
  1-8,11: destruct Hp as [E|E]; rewrite E in D; discriminate.
  - destruct D as [[Dv _]|D]; [left; split; [congruence|right; exact Py]|destruct Hp as [E|E]; congruence].
  - destruct Hp as [E|E]; congruence.
Qed.

Lemma dup_ok_no_preset t xt x : dup_ok t xt x -> jphase x = PCacheQ \/ jphase x = PReported -> jpreset x = None -> False.
Proof.
  unfold dup_ok. intros D Hp Hv. destruct (jphase xt) as [| |t0| | | | | |[v0|e0]|].
  1-8,11: destruct Hp as [E|E]; rewrite E in D; discriminate.
  - destruct D as [[Dv _]|D]; [congruence|destruct Hp as [E|E]; congruence].
  - destruct Hp as [E|E]; congruence.
Qed.

Section H.
Variable c : config.

(** a job whose phase and preset are kept *)
Lemma Q_same_phase s j x y : Q s -> getj s j = Some x -> ~ In j (waiting s) \/ True ->
  jkey y = jkey x -> jctx y = jctx x -> jphase y = jphase x -> jpreset y = jpreset x -> Q (setj s j y).
Proof.
  intros HQ Hx _ K1 K2 P R.
  assert (G : forall k z, getj (setj s j y) k = Some z -> (k = j /\ z = y) \/ (k <> j /\ getj s k = Some z))
    by (intros k z; apply (getj_setj_cases s j x y k z Hx)).
  assert (Gy : getj (setj s j y) j = Some y) by (apply (getj_setj_same _ _ _ _ Hx)).
  assert (T : forall k z, getj s k = Some z -> exists z', getj (setj s j y) k = Some z' /\ jphase z' = jphase z /\
                 jpreset z' = jpreset z /\ jkey z' = jkey z /\ jctx z' = jctx z).
  { intros k z Hz. destruct (Nat.eq_dec j k) as [<-|Hne].
    - rewrite Hx in Hz. injection Hz as <-. exists y. auto.
    - exists z. rewrite getj_setj_other by assumption. auto. }
  destruct HQ as [a1 a2 a3 a4 a5 a6 a7 a8 a9 a10 a11].
  constructor; change (queue (setj s j y)) with (queue s); change (waiting (setj s j y)) with (waiting s);
    change (pending (setj s j y)) with (pending s); change (subs (setj s j y)) with (subs s); auto.
  - intros k H. destruct (a2 k H) as (z & Hz & Pz). destruct (T k z Hz) as (z' & Hz' & E1 & _). exists z'. split; congruence.
  - intros k H. destruct (a3 k H) as (z & Hz & Pz). destruct (T k z Hz) as (z' & Hz' & E1 & _). exists z'. rewrite E1. auto.
  - intros k e H. destruct (a4 k e H) as (z & Hz & Pz & Pp). destruct (T k z Hz) as (z' & Hz' & E1 & E2 & _).
    exists z'. rewrite E1, E2. auto.
  - intros k v H. destruct (a5 k v H) as (z & Hz & Pz & Pp). destruct (T k z Hz) as (z' & Hz' & E1 & E2 & _).
    exists z'. rewrite E1, E2. auto.
  - intros k H. destruct (a6 k H) as (z & Hz & Pz). destruct (T k z Hz) as (z' & Hz' & E1 & _). exists z'. split; congruence.
  - intros k z v Hz Hv. destruct (G _ _ Hz) as [[-> ->]|[Hk Hz']].
    + rewrite P. apply (a8 j x v Hx). congruence.
    + eauto.
  - intros k t H. destruct (a9 k t H) as (z & Hz & Kz & Rz & Pz). destruct (T t z Hz) as (z' & Hz' & E1 & E2 & E3 & E4).
    exists z'. rewrite E1, E2, E3, E4. auto.
  - intros t k H. destruct (a10 t k H) as (N1 & N2 & xt & xk & Hxt & Hxk & Pt & Ph & D).
    destruct (T t xt Hxt) as (xt' & Hxt' & E1 & E2 & _). destruct (T k xk Hxk) as (xk' & Hxk' & F1 & F2 & _).
    split; [exact N1|]. split; [exact N2|]. exists xt', xk'. rewrite E1, E2. repeat split; auto.
    unfold Dstd, dup_ok in *. rewrite E1, F1, F2. exact D.
Qed.

Lemma Q_set_used s u : Q s -> Q (set_used s u).
Proof. apply Q_core; reflexivity. Qed.

Lemma Q_maybe_release s j : Q s -> Q (maybe_release c s j).
Proof.
  intros HQ. unfold maybe_release. destruct (getj s j) as [x|] eqn:Hx; [|exact HQ].
  destruct (if release_if_holds (vr c) then jholds x else negb (jcached x)); [|exact HQ].
  apply Q_check_pending. apply Q_set_used. apply (Q_same_phase s j x (bump_release x)); auto.
Qed.

Lemma getj_fold_requeue_notin l : forall s k, ~ In k l -> getj (fold_left requeue l s) k = getj s k.
Proof.
  induction l as [|a l IH]; intros s k Hn; simpl; [reflexivity|].
  rewrite IH by (intros H; apply Hn; now right). apply getj_requeue_other. intros ->. apply Hn. now left.
Qed.

Lemma getj_check_pending_notin s k : ~ In k (waiting s) -> getj (check_pending_limits c s) k = getj s k.
Proof.
  intros Hn. unfold check_pending_limits. destruct (split_ready c s (waiting s) []) as [a b] eqn:E.
  destruct (split_ready_spec c s _ _ _ _ E) as (A & _ & _).
  rewrite getj_fold_requeue_notin; [reflexivity|]. intros H. apply Hn. auto.
Qed.

Lemma getj_maybe_release s j k x : getj s k = Some x -> ~ In k (waiting s) ->
  exists y, getj (maybe_release c s j) k = Some y /\ jphase y = jphase x /\ jpreset y = jpreset x /\
            jkey y = jkey x /\ jctx y = jctx x.
Proof.
  intros Hx Hn. unfold maybe_release. destruct (getj s j) as [xj|] eqn:Hj; [|exists x; auto].
  destruct (if release_if_holds (vr c) then jholds xj else negb (jcached xj)); [|exists x; auto].
  rewrite getj_check_pending_notin by exact Hn.
  change (exists y, getj (setj s j (bump_release xj)) k = Some y /\ jphase y = jphase x /\ jpreset y = jpreset x /\
                    jkey y = jkey x /\ jctx y = jctx x).
  destruct (Nat.eq_dec j k) as [->|Hne].
  - rewrite Hj in Hx. injection Hx as <-. exists (bump_release xj). rewrite (getj_setj_same _ _ _ _ Hj). auto.
  - exists x. rewrite getj_setj_other by exact Hne. auto.
Qed.

Lemma queue_fold_requeue l : forall s e, In e (queue (fold_left requeue l s)) ->
  In e (queue s) \/ exists k, e = EvExec k /\ In k l.
Proof.
  induction l as [|a l IH]; intros s e H; simpl in H; [left; exact H|].
  destruct (IH _ _ H) as [H0|(k & E & Hk)]; [|right; exists k; split; auto; now right].
  unfold requeue in H0. destruct (getj s a); [|left; exact H0]. simpl in H0. apply in_app_or in H0.
  destruct H0 as [H0|[<-|[]]]; [left; exact H0|right; exists a; split; auto; now left].
Qed.

Lemma queue_check_pending s e : In e (queue (check_pending_limits c s)) ->
  In e (queue s) \/ exists k, e = EvExec k /\ In k (waiting s).
Proof.
  unfold check_pending_limits. destruct (split_ready c s (waiting s) []) as [a b] eqn:E.
  destruct (split_ready_spec c s _ _ _ _ E) as (A & _ & _). intros H.
  destruct (queue_fold_requeue _ _ _ H) as [H0|(k & Ek & Hk)]; [left; exact H0|right; exists k; auto].
Qed.

Lemma no_event_maybe_release s j k : ~ In k (map evj (queue s)) -> ~ In k (waiting s) ->
  ~ In k (map evj (queue (maybe_release c s j))).
Proof.
  intros Hq Hw H. apply in_map_iff in H. destruct H as (e & Ee & He).
  unfold maybe_release in He. destruct (getj s j) as [xj|]; [|apply Hq; rewrite <- Ee; now apply in_evj].
  destruct (if release_if_holds (vr c) then jholds xj else negb (jcached xj)); [|apply Hq; rewrite <- Ee; now apply in_evj].
  destruct (queue_check_pending _ _ He) as [H0|(k' & E & Hk')].
  - apply Hq. rewrite <- Ee. now apply in_evj.
  - subst e. simpl in Ee. subst k'. apply Hw. exact Hk'.
Qed.

Lemma waiting_check_pending s k : In k (waiting (check_pending_limits c s)) -> In k (waiting s).
Proof.
  unfold check_pending_limits. destruct (split_ready c s (waiting s) []) as [a b] eqn:E.
  destruct (split_ready_spec c s _ _ _ _ E) as (_ & B & _).
  assert (W : forall l s0, waiting (fold_left requeue l s0) = waiting s0).
  { induction l as [|x l IH]; intros s0; simpl; [reflexivity|]. rewrite IH. apply waiting_requeue. }
  rewrite W. simpl. apply B.
Qed.

Lemma waiting_maybe_release s j k : In k (waiting (maybe_release c s j)) -> In k (waiting s).
Proof.
  unfold maybe_release. destruct (getj s j) as [xj|]; auto.
  destruct (if release_if_holds (vr c) then jholds xj else negb (jcached xj)); auto.
  intros H. apply waiting_check_pending in H. exact H.
Qed.

Lemma subs_maybe_release s j : subs (maybe_release c s j) = subs s.
Proof.
  unfold maybe_release. destruct (getj s j) as [xj|]; auto.
  destruct (if release_if_holds (vr c) then jholds xj else negb (jcached xj)); auto.
  unfold check_pending_limits. destruct (split_ready c _ _ _) as [a b].
  assert (W : forall l s0, subs (fold_left requeue l s0) = subs s0).
  { induction l as [|x l IH]; intros s0; simpl; [reflexivity|]. rewrite IH. unfold requeue. destruct (getj s0 x); reflexivity. }
  rewrite W. reflexivity.
Qed.

(** * _done_job_main_thread *)
Lemma Q_done_job s j x : Q s -> getj s j = Some x -> ~ In j (map evj (queue s)) ->
  jphase x = PCacheQ \/ jphase x = PReported -> Q (done_job c s j).
Proof.
  intros HQ Hx Hne Hp.
  assert (Hnw : ~ In j (waiting s)).
  { intros H. destruct (q_wt _ s HQ j H) as (z & Hz & P). rewrite Hx in Hz. injection Hz as <-. destruct Hp; congruence. }
  unfold done_job. set (s1 := maybe_release c s j).
  assert (Q1 : Q s1) by (apply Q_maybe_release; exact HQ).
  destruct (getj_maybe_release s j j x Hx Hnw) as (y & Hy & P1 & P2 & K1 & K2). fold s1 in Hy. rewrite Hy.
  assert (Hne1 : ~ In j (map evj (queue s1))) by (apply no_event_maybe_release; auto).
  assert (Hnw1 : ~ In j (waiting s1)) by (intros H; apply Hnw; eapply waiting_maybe_release; eauto).
  assert (Huy : forall o, jphase y <> PSettled o) by (intros o; rewrite P1; destruct Hp as [E|E]; rewrite E; discriminate).
  destruct (jpreset y) as [v|] eqn:Ev.
  - apply (Q_move s1 j y (with_phase y PEvalQ) (Some (EvResolve j v))).
    + exact Q1.
    + exact Hy.
    + exact Hne1.
    + exact Hnw1.
    + reflexivity.
    + reflexivity.
    + exact Huy.
    + intros o. simpl. discriminate.
    + intros R. split; [unfold runph; simpl; auto|reflexivity].
    + intros t xt Hin Ht D. apply (dup_ok_to_evalq t xt y (with_phase y PEvalQ) v D); auto.
      rewrite P1. exact Hp.
    + intros v' Hv'. simpl. auto.
    + simpl. split; [reflexivity|]. split; [reflexivity|]. intros v' Hv'. congruence.
  - apply (Q_move s1 j y (with_phase y PEvaluating) None).
    + exact Q1.
    + exact Hy.
    + exact Hne1.
    + exact Hnw1.
    + reflexivity.
    + reflexivity.
    + exact Huy.
    + intros o. simpl. discriminate.
    + intros R. split; [|reflexivity]. simpl. unfold runph. auto.
    + intros t xt Hin Ht D. exfalso. apply (dup_ok_no_preset t xt y D); auto. rewrite P1. exact Hp.
    + intros v' Hv'. simpl in Hv'. congruence.
    + exact I.
Qed.
End H.

Section S.
Variable c : config.
Hypothesis Hsafe : pending_owner_safe (vr c) = true.

(** * a new job *)
Lemma Q_new s key ctx l nocse prov bad :
  Q s -> (forall e, In e (queue s) -> evj e < length (jobs s)) ->
  Q (enqueue {| jobs := jobs s ++ [new_job key ctx l nocse prov bad]; queue := queue s; pending := pending s;
                waiting := waiting s; used := used s; recorded := recorded s; subs := subs s;
                submitlog := submitlog s |} (EvExec (length (jobs s)))).
Proof.
  intros HQ Hb. set (nj := new_job key ctx l nocse prov bad). set (n := length (jobs s)).
  assert (G : forall k z, nth_error (jobs s ++ [nj]) k = Some z -> (k = n /\ z = nj) \/ getj s k = Some z).
  { intros k z. unfold getj. destruct (Nat.lt_ge_cases k (length (jobs s))) as [Hlt|Hge].
    - rewrite nth_error_app1 by assumption. auto.
    - rewrite nth_error_app2 by assumption. destruct (k - length (jobs s)) as [|m] eqn:E; simpl.
      + intros [= <-]. left. split; [unfold n; lia|reflexivity].
      + destruct m; discriminate. }
  assert (G' : forall k z, getj s k = Some z -> nth_error (jobs s ++ [nj]) k = Some z).
  { intros k z H. unfold getj in H. rewrite nth_error_app1; auto. apply nth_error_Some. congruence. }
  assert (Gn : nth_error (jobs s ++ [nj]) n = Some nj).
  { unfold n. rewrite nth_error_app2 by lia. rewrite Nat.sub_diag. reflexivity. }
  destruct HQ as [a1 a2 a3 a4 a5 a6 a7 a8 a9 a10 a11].
  constructor; unfold getj; simpl.
  - rewrite map_app. simpl. apply NoDup_app_single; auto. intros H. apply in_map_iff in H.
    destruct H as (e & E & He). specialize (Hb e He). fold n in E. unfold n in E. lia.
  - intros k H. apply in_app_or in H. destruct H as [H|[[= <-]|[]]].
    + destruct (a2 k H) as (z & Hz & P). exists z. split; auto.
    + exists nj. split; [exact Gn|reflexivity].
  - intros k H. apply in_app_or in H. destruct H as [H|[E|[]]]; [|discriminate].
    destruct (a3 k H) as (z & Hz & P). exists z. split; auto.
  - intros k e H. apply in_app_or in H. destruct H as [H|[E|[]]]; [|discriminate].
    destruct (a4 k e H) as (z & Hz & P). exists z. split; auto.
  - intros k v H. apply in_app_or in H. destruct H as [H|[E|[]]]; [|discriminate].
    destruct (a5 k v H) as (z & Hz & P). exists z. split; auto.
  - intros k H. destruct (a6 k H) as (z & Hz & P). exists z. split; auto.
  - exact a7.
  - intros k z v Hz Hv. destruct (G _ _ Hz) as [[-> ->]|Hz']; [discriminate|]. eauto.
  - intros k t H. destruct (a9 k t H) as (z & Hz & P). exists z. split; auto.
  - intros t k H. destruct (a10 t k H) as (N1 & N2 & xt & xk & Hxt & Hxk & R). split; auto. split; auto.
    exists xt, xk. split; [auto|]. split; [auto|]. exact R.
  - exact a11.
Qed.
End S.

(** * the general single-job update: new phase and preset for job [j], optional event, pending restricted to [P'],
      duplicate relation changed from [D] to [D'] *)
Definition set_pend_enq (s : state) (j : nat) (y : job) (eo : option event) (P' : list ((nat * nat) * nat)) : state :=
  set_pending (enq_opt (setj s j y) eo) P'.

Lemma Qg_upd D D' s j x y eo P' :
  Qg D s -> getj s j = Some x -> ~ In j (map evj (queue s)) -> ~ In j (waiting s) ->
  (forall p, In p P' -> In p (pending s) \/ snd p = j) ->
  (forall k, In (k, j) P' -> k = (jkey y, jctx y) /\ runph (jphase y) /\ jpreset y = None) ->
  (forall v, jpreset y = Some v -> jphase y = PCacheQ \/ jphase y = PEvalQ \/ jphase y = PSettled (Ok v)) ->
  match eo with None => True | Some e => evj e = j /\ ev_ok e (jphase y) (jpreset y) end ->
  (forall t k xt xk, In (t, k) (subs s) -> getj s t = Some xt -> getj s k = Some xk -> D t k xt xk ->
     jpreset xt = None -> (runph (jphase xt) \/ exists o, jphase xt = PSettled o) ->
     let xt' := if Nat.eqb t j then y else xt in
     let xk' := if Nat.eqb k j then y else xk in
     jpreset xt' = None /\ (runph (jphase xt') \/ exists o, jphase xt' = PSettled o) /\ D' t k xt' xk') ->
  Qg D' (set_pend_enq s j y eo P').
Proof.
  intros HQ Hx Hne Hnw HP Hpj Hpr Hev Hsb.
  set (s' := set_pend_enq s j y eo P').
  assert (G : forall k z, getj s' k = Some z -> (k = j /\ z = y) \/ (k <> j /\ getj s k = Some z)).
  { intros k z H. apply (getj_setj_cases s j x y k z Hx). unfold s', set_pend_enq in H. destruct eo; exact H. }
  assert (Gy : getj s' j = Some y) by (unfold s', set_pend_enq; destruct eo; apply (getj_setj_same _ _ _ _ Hx)).
  assert (Go : forall k, k <> j -> getj s' k = getj s k).
  { intros k Hk. unfold s', set_pend_enq. destruct eo; apply getj_setj_other; auto. }
  assert (Hq : forall e, In e (queue s') -> In e (queue s) \/ eo = Some e).
  { intros e H. unfold s', set_pend_enq in H. destruct eo as [e0|]; simpl in H; [|left; exact H].
    apply in_app_or in H. destruct H as [H|[<-|[]]]; auto. }
  assert (Hold : forall e, In e (queue s) -> evj e <> j).
  { intros e He E. apply Hne. rewrite <- E. now apply in_evj. }
  assert (Ew : waiting s' = waiting s) by (unfold s', set_pend_enq; destruct eo; reflexivity).
  assert (Es : subs s' = subs s) by (unfold s', set_pend_enq; destruct eo; reflexivity).
  assert (Ep : pending s' = P') by (unfold s', set_pend_enq; destruct eo; reflexivity).
  destruct HQ as [a1 a2 a3 a4 a5 a6 a7 a8 a9 a10 a11].
  constructor.
  - unfold s', set_pend_enq. destruct eo as [e0|]; simpl; [|exact a1]. rewrite map_app. simpl. destruct Hev as [E _].
    apply NoDup_app_single; [exact a1|rewrite E; exact Hne].
  - intros k H. destruct (Hq _ H) as [H0|E].
    + destruct (a2 k H0) as (z & Hz & Hp). exists z. split; [|exact Hp]. rewrite Go; [exact Hz|]. exact (Hold _ H0).
    + subst eo. destruct Hev as [E1 E2]. simpl in E1, E2. subst k. exists y. auto.
  - intros k H. destruct (Hq _ H) as [H0|E].
    + destruct (a3 k H0) as (z & Hz & Hp). exists z. split; [|exact Hp]. rewrite Go; [exact Hz|]. exact (Hold _ H0).
    + subst eo. destruct Hev as [E1 E2]. simpl in E1, E2. subst k. exists y. auto.
  - intros k e H. destruct (Hq _ H) as [H0|E].
    + destruct (a4 k e H0) as (z & Hz & Hp). exists z. split; [|exact Hp]. rewrite Go; [exact Hz|]. exact (Hold _ H0).
    + subst eo. destruct Hev as [E1 E2]. simpl in E1, E2. subst k. exists y. auto.
  - intros k v H. destruct (Hq _ H) as [H0|E].
    + destruct (a5 k v H0) as (z & Hz & Hp). exists z. split; [|exact Hp]. rewrite Go; [exact Hz|]. exact (Hold _ H0).
    + subst eo. destruct Hev as [E1 E2]. simpl in E1, E2. subst k. exists y. auto.
  - rewrite Ew. intros k H. assert (Hk : k <> j) by (intros ->; contradiction).
    destruct (a6 k H) as (z & Hz & Hp). exists z. rewrite Go by exact Hk. auto.
  - rewrite Ew. exact a7.
  - intros k z v Hz Hv. destruct (G _ _ Hz) as [[-> ->]|[Hk Hz']]; [exact (Hpr v Hv)|exact (a8 k z v Hz' Hv)].
  - rewrite Ep. intros k t H. destruct (Nat.eq_dec t j) as [->|Ht].
    + destruct (Hpj k H) as (A & B & C). exists y. auto.
    + destruct (HP _ H) as [H0|H0]; [|simpl in H0; contradiction].
      destruct (a9 k t H0) as (z & Hz & R). exists z. rewrite Go by exact Ht. auto.
  - rewrite Es. intros t k H.
    destruct (a10 t k H) as (Htk & Hnt & xt & xk & Hxt & Hxk & Hpt & Hph & Hd).
    split; [exact Htk|]. split; [exact Hnt|].
    specialize (Hsb t k xt xk H Hxt Hxk Hd Hpt Hph). cbv zeta in Hsb.
    exists (if Nat.eqb t j then y else xt), (if Nat.eqb k j then y else xk).
    destruct (Nat.eqb_spec t j) as [->|Ht]; destruct (Nat.eqb_spec k j) as [->|Hk]; try contradiction.
    + rewrite Gy, (Go k Hk). destruct Hsb as (A & B & C). auto.
    + rewrite Gy, (Go t Ht). destruct Hsb as (A & B & C). auto.
    + rewrite (Go t Ht), (Go k Hk). destruct Hsb as (A & B & C). auto.
  - rewrite Es. exact a11.
Qed.

Lemma Qg_mono (D D' : nat -> nat -> job -> job -> Prop) s :
  (forall t k xt xk, D t k xt xk -> D' t k xt xk) -> Qg D s -> Qg D' s.
Proof.
  intros M [a1 a2 a3 a4 a5 a6 a7 a8 a9 a10 a11]. constructor; auto.
  intros t k H. destruct (a10 t k H) as (N1 & N2 & xt & xk & A & B & C & E & F).
  split; auto. split; auto. exists xt, xk. repeat split; auto.
Qed.

(** while job [t0] settles: its duplicates in [L] have not been told yet *)
Definition Dmid (t0 : nat) (L : list nat) (t k : nat) (xt xk : job) : Prop :=
  if Nat.eqb t t0 && existsb (Nat.eqb k) L then jphase xk = PCollapsed t0 else dup_ok t xt xk.

Lemma set_nth_set_nth {A} (l : list A) n a b : set_nth (set_nth l n a) n b = set_nth l n b.
Proof. revert n. induction l as [|x l IH]; intros [|n]; simpl; auto. now rewrite IH. Qed.

Lemma in_dups_of s t k : In (t, k) (subs s) -> In k (dups_of s t).
Proof.
  intros H. unfold dups_of. apply in_map_iff. exists (t, k). split; [reflexivity|].
  apply filter_In. split; [exact H|]. simpl. apply Nat.eqb_refl.
Qed.

Lemma existsb_eqb_in k L : existsb (Nat.eqb k) L = true <-> In k L.
Proof.
  rewrite existsb_exists. split.
  - intros (x & Hx & E). apply Nat.eqb_eq in E. now subst.
  - intros H. exists k. split; [exact H|apply Nat.eqb_refl].
Qed.

Section T.
Variable c : config.
Hypothesis Hsafe : pending_owner_safe (vr c) = true.

Definition own_filter (y : job) (j : nat) (p : (nat * nat) * nat) : bool :=
  negb (key_eqb (fst p) (jkey y, jctx y) && Nat.eqb (snd p) j).

Lemma settle_one_core s t x o :
  getj s t = Some x ->
  let y := with_phase x (PSettled o) in
  let s' := settle_one c s t o in
  let s2 := set_pend_enq s t y None (filter (own_filter y t) (pending s)) in
  jobs s' = jobs s2 /\ queue s' = queue s2 /\ pending s' = pending s2 /\ waiting s' = waiting s2 /\ subs s' = subs s2.
Proof.
  intros Hx. cbv zeta. unfold settle_one. rewrite Hx.
  set (s1 := if jprov x then add_recorded s (jkey x, jctx x) o else s).
  assert (G1 : getj s1 t = Some x) by (unfold s1; destruct (jprov x); exact Hx).
  unfold finalize. rewrite (getj_setj_same _ _ (with_phase x (PSettled o)) _ G1). rewrite Hsafe.
  unfold set_pend_enq, enq_opt, own_filter. simpl. unfold s1. destruct (jprov x); simpl; repeat split; reflexivity.
Qed.

Lemma Q_settle_one s t x o :
  Q s -> getj s t = Some x -> ~ In t (map evj (queue s)) ->
  jphase x = PCacheQ \/ jphase x = PReported \/ jphase x = PEvalQ ->
  (forall v, jpreset x = Some v -> o = Ok v) ->
  Qg (Dmid t (dups_of s t)) (settle_one c s t o).
Proof.
  intros HQ Hx Hne Hp Hpre.
  set (y := with_phase x (PSettled o)).
  destruct (settle_one_core s t x o Hx) as (E1 & E2 & E3 & E4 & E5).
  apply (Q_core _ (set_pend_enq s t y None (filter (own_filter y t) (pending s)))); auto.
  assert (Hnw : ~ In t (waiting s)).
  { intros H. destruct (q_wt _ s HQ t H) as (z & Hz & P). rewrite Hx in Hz. injection Hz as <-.
    destruct Hp as [E|[E|E]]; congruence. }
  assert (Hux : forall o', jphase x <> PSettled o') by (intros o' E; destruct Hp as [F|[F|F]]; congruence).
  apply (Qg_upd Dstd (Dmid t (dups_of s t)) s t x y None); auto.
  - intros p Hp'. apply filter_In in Hp'. left. apply Hp'.
  - intros k Hk. exfalso. apply filter_In in Hk. destruct Hk as [Hin Hf].
    destruct (q_pd _ s HQ k t Hin) as (z & Hz & Kz & _). rewrite Hx in Hz. injection Hz as <-.
    unfold own_filter in Hf. simpl in Hf. rewrite Kz in Hf. unfold key_eqb in Hf. simpl in Hf.
    rewrite !Nat.eqb_refl in Hf. discriminate.
  - intros v Hv. unfold y in *. simpl in *. rewrite (Hpre v Hv). auto.
  - intros t' k xt xk Hin Hxt Hxk D Hpt Hph. cbv zeta. unfold y.
    destruct (Nat.eqb_spec t' t) as [->|Ht]; destruct (Nat.eqb_spec k t) as [->|Hk].
    + exfalso. destruct (q_sb _ s HQ t t Hin) as (N & _). now apply N.
    + rewrite Hx in Hxt. injection Hxt as <-. split; [exact Hpt|]. split; [right; exists o; reflexivity|].
      unfold Dmid. rewrite Nat.eqb_refl. simpl.
      assert (Hm : existsb (Nat.eqb k) (dups_of s t) = true) by (apply existsb_eqb_in; now apply in_dups_of).
      rewrite Hm. unfold Dstd, dup_ok in D.
      destruct (jphase x) as [| |t0| | | | | |o0|] eqn:Ex; try exact D; try (destruct Hp as [F|[F|F]]; discriminate).
    + rewrite Hx in Hxk. injection Hxk as <-. split; [exact Hpt|]. split; [exact Hph|].
      unfold Dmid. destruct (Nat.eqb_spec t' t) as [F|_]; [contradiction|]. simpl.
      unfold Dstd, dup_ok in *. destruct (jphase xt) as [| |t0| | | | | |[v|e]|] eqn:Et.
      1-8,11: exfalso; destruct Hp as [F|[F|F]]; congruence.
      * destruct D as [[Dv _]|D]; [right; simpl; rewrite (Hpre v Dv); reflexivity|exfalso; eapply Hux; eauto].
      * exfalso. eapply Hux; eauto.
    + split; [exact Hpt|]. split; [exact Hph|]. unfold Dmid. destruct (Nat.eqb_spec t' t) as [F|_]; [contradiction|]. exact D.
Qed.

(** * telling one duplicate *)
Lemma Dmid_other t0 k L t' k' xt xk : k' <> k -> Dmid t0 (k :: L) t' k' xt xk -> Dmid t0 L t' k' xt xk.
Proof.
  unfold Dmid. simpl. intros Hk. destruct (Nat.eqb_spec k' k) as [E|_]; [contradiction|]. simpl. auto.
Qed.

Lemma Q_notify s t xt o k L :
  Qg (Dmid t (k :: L)) s -> getj s t = Some xt -> jphase xt = PSettled o -> In (t, k) (subs s) -> ~ In k L ->
  Qg (Dmid t L) (notify_sub c o s k).
Proof.
  intros HQ Ht Pt Hin HnL.
  destruct (q_sb _ s HQ t k Hin) as (Htk & Hnt & xt' & xk & Hxt' & Hxk & Hpt & Hph & Hd).
  rewrite Ht in Hxt'. injection Hxt' as <-.
  assert (Pk : jphase xk = PCollapsed t).
  { unfold Dmid in Hd. rewrite Nat.eqb_refl in Hd. simpl in Hd. rewrite Nat.eqb_refl in Hd. exact Hd. }
  assert (Hne : ~ In k (map evj (queue s))) by (apply (no_event _ s k xk HQ Hxk); rewrite Pk; discriminate).
  assert (Hnw : ~ In k (waiting s)).
  { intros H. destruct (q_wt _ s HQ k H) as (z & Hz & P). congruence. }
  assert (Hnp : forall kk, ~ In (kk, k) (pending s)).
  { intros kk H. destruct (q_pd _ s HQ kk k H) as (z & Hz & _ & R & _). rewrite Hxk in Hz. injection Hz as <-.
    unfold runph in R. rewrite Pk in R. destruct R as [R|[R|[R|R]]]; discriminate. }
  assert (Hsubs : forall t' k' xt0 xk0 y, In (t', k') (subs s) -> getj s t' = Some xt0 -> getj s k' = Some xk0 ->
            Dmid t (k :: L) t' k' xt0 xk0 -> jpreset xt0 = None ->
            (runph (jphase xt0) \/ exists o0, jphase xt0 = PSettled o0) ->
            dup_ok t xt y ->
            let xt1 := if Nat.eqb t' k then y else xt0 in
            let xk1 := if Nat.eqb k' k then y else xk0 in
            jpreset xt1 = None /\ (runph (jphase xt1) \/ exists o0, jphase xt1 = PSettled o0) /\ Dmid t L t' k' xt1 xk1).
  { intros t' k' xt0 xk0 y Hin' Hxt0 Hxk0 D0 Hp0 Hr0 Dy. cbv zeta.
    destruct (Nat.eqb_spec t' k) as [->|Ht']; destruct (Nat.eqb_spec k' k) as [->|Hk'].
    - exfalso. destruct (q_sb _ s HQ k k Hin') as (N & _). now apply N.
    - exfalso. apply Hnt. apply in_map_iff. exists (k, k'). auto.
    - (* the pair (t', k): t' = t since k collapsed once *)
      assert (t' = t).
      { pose proof (q_sn _ s HQ) as Hnd. clear - Hin Hin' Hnd. induction (subs s) as [|p l IH]; [contradiction|].
        simpl in Hnd. inversion Hnd as [|? ? Hp Hl]; subst.
        destruct Hin as [->|Hin]; destruct Hin' as [E|Hin'].
        - now injection E.
        - exfalso. apply Hp. simpl. apply in_map_iff. exists (t', k). auto.
        - subst p. exfalso. apply Hp. simpl. apply in_map_iff. exists (t, k). auto.
        - auto. }
      subst t'. rewrite Ht in Hxt0. injection Hxt0 as <-. split; [exact Hp0|]. split; [exact Hr0|].
      unfold Dmid. rewrite Nat.eqb_refl. simpl.
      assert (Hm : existsb (Nat.eqb k) L = false).
      { destruct (existsb (Nat.eqb k) L) eqn:E; auto. exfalso. apply HnL. now apply existsb_eqb_in. }
      rewrite Hm. exact Dy.
    - split; [exact Hp0|]. split; [exact Hr0|]. now apply (Dmid_other t k L). }
  unfold notify_sub. rewrite Hxk. destruct o as [v|e].
  - set (y := mark_cached xk (Some v) PCacheQ).
    change (Qg (Dmid t L) (set_pend_enq s k y (Some (EvDone k)) (pending s))).
    apply (Qg_upd (Dmid t (k :: L)) (Dmid t L) s k xk y (Some (EvDone k))).
    + exact HQ.
    + exact Hxk.
    + exact Hne.
    + exact Hnw.
    + auto.
    + intros kk H. exfalso. eapply Hnp; eauto.
    + intros v' Hv'. simpl. auto.
    + simpl. auto.
    + intros t' k' xt0 xk0 Hin' Hxt0 Hxk0 D0 Hp0 Hr0. apply (Hsubs t' k' xt0 xk0 y); auto.
      unfold dup_ok. rewrite Pt. left. simpl. auto.
  - set (z := mark_cached xk None (jphase xk)). set (s0 := setj s k z).
    assert (Hz0 : getj s0 k = Some z) by (apply (getj_setj_same _ _ _ _ Hxk)).
    set (y := with_phase z (PSettled (Ko e))).
    destruct (settle_one_core s0 k z (Ko e) Hz0) as (E1 & E2 & E3 & E4 & E5).
    apply (Q_core _ (set_pend_enq s k y None (filter (own_filter y k) (pending s)))).
    + rewrite E1. unfold set_pend_enq, enq_opt, s0. simpl. apply set_nth_set_nth.
    + rewrite E2. reflexivity.
    + rewrite E3. reflexivity.
    + rewrite E4. reflexivity.
    + rewrite E5. reflexivity.
    + apply (Qg_upd (Dmid t (k :: L)) (Dmid t L) s k xk y None).
      * exact HQ.
      * exact Hxk.
      * exact Hne.
      * exact Hnw.
      * intros p Hp'. apply filter_In in Hp'. left. apply Hp'.
      * intros kk H. exfalso. apply filter_In in H. eapply Hnp. apply H.
      * intros v' Hv'. simpl in Hv'. discriminate.
      * exact I.
      * intros t' k' xt0 xk0 Hin' Hxt0 Hxk0 D0 Hp0 Hr0. apply (Hsubs t' k' xt0 xk0 y); auto.
        unfold dup_ok. rewrite Pt. reflexivity.
Qed.

Lemma subs_notify o s k : subs (notify_sub c o s k) = subs s.
Proof.
  unfold notify_sub. destruct (getj s k) as [y|]; [|reflexivity]. destruct o as [v|e]; [reflexivity|].
  rewrite subs_settle_one. reflexivity.
Qed.

Lemma Q_fold_notify t xt o L : forall s,
  Qg (Dmid t L) s -> getj s t = Some xt -> jphase xt = PSettled o ->
  (forall k, In k L -> In (t, k) (subs s)) -> NoDup L ->
  Qg (Dmid t []) (fold_left (notify_sub c o) L s).
Proof.
  induction L as [|k L IH]; intros s HQ Ht Pt Hs Hn; simpl; [exact HQ|].
  inversion Hn as [|? ? Hk Hn']; subst.
  assert (Hin : In (t, k) (subs s)) by (apply Hs; now left).
  assert (Htk : k <> t) by (destruct (q_sb _ s HQ t k Hin) as (N & _); intros E; apply N; now rewrite E).
  apply IH.
  - apply (Q_notify s t xt o k L); auto.
  - destruct (notify_other c o s k t Htk) as [G _]. rewrite G. exact Ht.
  - exact Pt.
  - intros k' Hk'. rewrite subs_notify. apply Hs. now right.
  - exact Hn'.
Qed.

Lemma NoDup_dups_of s t : NoDup (map snd (subs s)) -> NoDup (dups_of s t).
Proof.
  unfold dups_of. induction (subs s) as [|p l IH]; simpl; intros H; [constructor|].
  inversion H as [|? ? Hp Hl]; subst. destruct (Nat.eqb (fst p) t); simpl; auto.
  constructor; auto. intros Hin. apply Hp. apply in_map_iff in Hin. destruct Hin as (q & E & Hq).
  apply filter_In in Hq. apply in_map_iff. exists q. split; [exact E|apply Hq].
Qed.

Lemma in_dups_of_inv s t k : In k (dups_of s t) -> In (t, k) (subs s).
Proof.
  unfold dups_of. intros H. apply in_map_iff in H. destruct H as ((t', k') & E & Hq). simpl in E. subst k'.
  apply filter_In in Hq. destruct Hq as [Hq Ht]. simpl in Ht. apply Nat.eqb_eq in Ht. now subst.
Qed.

(** * settling a job: record, finalize, tell every duplicate *)
Lemma Q_settle s t x o :
  Q s -> getj s t = Some x -> ~ In t (map evj (queue s)) ->
  jphase x = PCacheQ \/ jphase x = PReported \/ jphase x = PEvalQ ->
  (forall v, jpreset x = Some v -> o = Ok v) ->
  Q (settle c s t o).
Proof.
  intros HQ Hx Hne Hp Hpre. unfold settle. rewrite Hx.
  set (s1 := settle_one c s t o).
  assert (Q1 : Qg (Dmid t (dups_of s t)) s1) by (apply (Q_settle_one s t x o); auto).
  assert (Es : subs s1 = subs s) by apply subs_settle_one.
  assert (Hy : getj s1 t = Some (with_phase x (PSettled o))).
  { destruct (settle_one_core s t x o Hx) as (E1 & _). unfold s1, getj. rewrite E1. unfold set_pend_enq, enq_opt.
    apply (getj_setj_same _ _ _ _ Hx). }
  fold (dups_of s1 t). unfold dups_of at 1. rewrite Es. fold (dups_of s t).
  apply (Qg_mono (Dmid t [])).
  - intros t' k xt xk D. unfold Dmid in D. simpl in D. rewrite andb_false_r in D. exact D.
  - apply (Q_fold_notify t (with_phase x (PSettled o)) o (dups_of s t) s1); auto.
    + intros k Hk. rewrite Es. now apply in_dups_of_inv.
    + apply NoDup_dups_of. apply (q_sn _ s HQ).
Qed.

(** * _exec_job_main_thread *)
(** a queued job is in no duplicate pair and owns no pending entry *)
Lemma queued_fresh s j x : Q s -> getj s j = Some x -> jphase x = PQueued ->
  jpreset x = None /\ ~ In j (waiting s) /\ (forall k, ~ In (k, j) (pending s)) /\
  ~ In j (map fst (subs s)) /\ ~ In j (map snd (subs s)).
Proof.
  intros HQ Hx P. repeat split.
  - destruct (jpreset x) as [v|] eqn:E; [|reflexivity]. exfalso.
    destruct (q_pr _ s HQ j x v Hx E) as [A|[A|A]]; congruence.
  - intros H. destruct (q_wt _ s HQ j H) as (z & Hz & Pz). congruence.
  - intros k H. destruct (q_pd _ s HQ k j H) as (z & Hz & _ & R & _). rewrite Hx in Hz. injection Hz as <-.
    unfold runph in R. rewrite P in R. destruct R as [R|[R|[R|R]]]; discriminate.
  - intros H. apply in_map_iff in H. destruct H as ((t, k) & E & Hin). simpl in E. subst t.
    destruct (q_sb _ s HQ j k Hin) as (_ & _ & xt & xk & Hxt & _ & _ & R & _). rewrite Hx in Hxt. injection Hxt as <-.
    rewrite P in R. destruct R as [R|(o & R)]; [|discriminate]. unfold runph in R. destruct R as [R|[R|[R|R]]]; discriminate.
  - intros H. apply in_map_iff in H. destruct H as ((t, k) & E & Hin). simpl in E. subst k.
    destruct (q_sb _ s HQ t j Hin) as (_ & _ & xt & xk & _ & Hxk & _ & _ & D). rewrite Hx in Hxk. injection Hxk as <-.
    unfold Dstd, dup_ok in D. rewrite P in D. destruct (jphase xt) as [| |t0| | | | | |[v|e]|]; try discriminate.
    destruct D as [[_ [D|D]]|D]; discriminate.
Qed.

(** updating a job that is in no duplicate pair *)
Lemma Q_fresh_upd s j x y eo P' :
  Q s -> getj s j = Some x -> ~ In j (map evj (queue s)) -> ~ In j (waiting s) ->
  ~ In j (map fst (subs s)) -> ~ In j (map snd (subs s)) ->
  (forall p, In p P' -> In p (pending s) \/ snd p = j) ->
  (forall k, In (k, j) P' -> k = (jkey y, jctx y) /\ runph (jphase y) /\ jpreset y = None) ->
  (forall v, jpreset y = Some v -> jphase y = PCacheQ \/ jphase y = PEvalQ \/ jphase y = PSettled (Ok v)) ->
  match eo with None => True | Some e => evj e = j /\ ev_ok e (jphase y) (jpreset y) end ->
  Q (set_pend_enq s j y eo P').
Proof.
  intros HQ Hx Hne Hnw Hf1 Hf2 HP Hpj Hpr Hev.
  apply (Qg_upd Dstd Dstd s j x y eo P'); auto.
  intros t k xt xk Hin Hxt Hxk D Hpt Hph. cbv zeta.
  destruct (Nat.eqb_spec t j) as [->|Ht]; [exfalso; apply Hf1; apply in_map_iff; exists (j, k); auto|].
  destruct (Nat.eqb_spec k j) as [->|Hk]; [exfalso; apply Hf2; apply in_map_iff; exists (t, j); auto|].
  auto.
Qed.

Lemma lookup_pending_in s k t : lookup_pending s k = Some t -> exists k', In (k', t) (pending s).
Proof.
  unfold lookup_pending. destruct (find _ (pending s)) as [[k' t']|] eqn:E; [|discriminate].
  simpl. intros [= ->]. apply find_some in E. exists k'. apply E.
Qed.

(** a queued job collapses into a pending one *)
Lemma Q_collapse s j x t k0 :
  Q s -> getj s j = Some x -> jphase x = PQueued -> ~ In j (map evj (queue s)) -> In (k0, t) (pending s) ->
  Q (add_sub (setj s j (with_phase x (PCollapsed t))) t j).
Proof.
  intros HQ Hx P Hne Hpend.
  destruct (queued_fresh s j x HQ Hx P) as (Hpre & Hnw & Hnp & Hf1 & Hf2).
  destruct (q_pd _ s HQ k0 t Hpend) as (xt & Hxt & _ & Rt & Pt).
  assert (Htj : t <> j) by (intros ->; eapply Hnp; eauto).
  set (y := with_phase x (PCollapsed t)).
  assert (Q1 : Q (setj s j y)).
  { change (Q (set_pend_enq s j y None (pending s))).
    apply (Q_fresh_upd s j x y None (pending s)); auto.
    - intros k H. exfalso. eapply Hnp; eauto.
    - intros v Hv. simpl in Hv. congruence. }
  assert (Gt : getj (setj s j y) t = Some xt) by (rewrite getj_setj_other; auto).
  assert (Gj : getj (setj s j y) j = Some y) by (apply (getj_setj_same _ _ _ _ Hx)).
  assert (Hnd : ~ In t (map snd (subs s))).
  { intros H. apply in_map_iff in H. destruct H as ((t', k) & E & Hin). simpl in E. subst k.
    destruct (q_sb _ s HQ t' t Hin) as (_ & _ & xt' & xk & _ & Hxk & _ & _ & D). rewrite Hxt in Hxk. injection Hxk as <-.
    unfold Dstd, dup_ok in D. unfold runph in Rt.
    destruct (jphase xt') as [| |t0| | | | | |[v|e]|].
    1-8,11: rewrite D in Rt; destruct Rt as [R|[R|[R|R]]]; discriminate.
    - destruct D as [[Dv _]|D]; [congruence|rewrite D in Rt; destruct Rt as [R|[R|[R|R]]]; discriminate].
    - rewrite D in Rt. destruct Rt as [R|[R|[R|R]]]; discriminate. }
  destruct Q1 as [a1 a2 a3 a4 a5 a6 a7 a8 a9 a10 a11].
  constructor; simpl; auto.
  - intros t' k H. apply in_app_or in H. rewrite map_app. simpl. destruct H as [H|[E|[]]].
    + destruct (a10 t' k H) as (N1 & N2 & R). split; [exact N1|]. split; [|exact R].
      intros Hin. apply in_app_or in Hin. destruct Hin as [Hin|[E|[]]]; [contradiction|]. subst k.
      apply Hnd. apply in_map_iff. exists (t', t). auto.
    + injection E as <- <-. split; [exact Htj|]. split.
      * intros Hin. apply in_app_or in Hin. destruct Hin as [Hin|[E|[]]]; [contradiction|]. now apply Htj.
      * exists xt, y. repeat split; auto. unfold Dstd, dup_ok. unfold runph in Rt.
        destruct (jphase xt) as [| |t0| | | | | |o|]; try reflexivity. destruct Rt as [R|[R|[R|R]]]; discriminate.
  - rewrite map_app. simpl. apply NoDup_app_single; auto.
Qed.

(** a queued job starts waiting for resources *)
Lemma Q_wait s j x :
  Q s -> getj s j = Some x -> jphase x = PQueued -> ~ In j (map evj (queue s)) ->
  Q (set_waiting (setj s j (with_phase x PWaiting)) (waiting s ++ [j])).
Proof.
  intros HQ Hx P Hne.
  destruct (queued_fresh s j x HQ Hx P) as (Hpre & Hnw & Hnp & Hf1 & Hf2).
  set (y := with_phase x PWaiting).
  assert (Q1 : Q (setj s j y)).
  { change (Q (set_pend_enq s j y None (pending s))).
    apply (Q_fresh_upd s j x y None (pending s)); auto.
    - intros k H. exfalso. eapply Hnp; eauto.
    - intros v Hv. simpl in Hv. congruence. }
  assert (Gj : getj (setj s j y) j = Some y) by (apply (getj_setj_same _ _ _ _ Hx)).
  destruct Q1 as [a1 a2 a3 a4 a5 a6 a7 a8 a9 a10 a11].
  constructor; simpl; auto.
  - intros k H. apply in_app_or in H. destruct H as [H|[<-|[]]]; [apply a6; exact H|]. exists y. auto.
  - apply NoDup_app_single; auto.
Qed.

Lemma Q_add_submit s j : Q s -> Q (add_submit s j).
Proof. apply Q_core; reflexivity. Qed.

Lemma Q_exec_job s j x co :
  Q s -> getj s j = Some x -> jphase x = PQueued -> ~ In j (map evj (queue s)) -> Q (exec_job c s j co).
Proof.
  intros HQ Hx P Hne.
  destruct (queued_fresh s j x HQ Hx P) as (Hpre & Hnw & Hnp & Hf1 & Hf2).
  assert (Hpj : forall (y : job) k, In (k, j) (pending s) -> k = (jkey y, jctx y) /\ runph (jphase y) /\ jpreset y = None).
  { intros y k H. exfalso. eapply Hnp; eauto. }
  unfold exec_job. rewrite Hx.
  destruct (if jnocse x then None else lookup_pending s (jkey x, jctx x)) as [t|] eqn:Etw.
  { (* collapse *)
    apply Q_skip. destruct (jnocse x); [discriminate|]. destruct (lookup_pending_in s _ t Etw) as (k0 & Hk0).
    apply (Q_collapse s j x t k0); auto. }
  match goal with |- Q (match ?h with _ => _ end) => destruct h as [[v|e]|] end.
  - (* hit with a value or an expression *)
    apply Q_skip. change (Q (set_pend_enq s j (mark_cached x v PCacheQ) (Some (EvDone j)) (pending s))).
    apply (Q_fresh_upd s j x (mark_cached x v PCacheQ) (Some (EvDone j)) (pending s));
      [exact HQ|exact Hx|exact Hne|exact Hnw|exact Hf1|exact Hf2|intros p Hp; left; exact Hp|intros k H; exfalso; eapply Hnp; eauto|intros w Hw; simpl; auto|simpl; auto].
  - (* hit with an error *)
    apply Q_skip. change (Q (set_pend_enq s j (mark_cached x None PCacheQ) (Some (EvReject j e)) (pending s))).
    apply (Q_fresh_upd s j x (mark_cached x None PCacheQ) (Some (EvReject j e)) (pending s));
      [exact HQ|exact Hx|exact Hne|exact Hnw|exact Hf1|exact Hf2|intros p Hp; left; exact Hp|intros k H; exfalso; eapply Hnp; eauto|intros w Hw; simpl in Hw; discriminate|simpl; auto].
  - destruct (dryrun c).
    + destruct (jbadexec x).
      * change (Q (set_pend_enq s j (with_phase x PReported) (Some (EvReject j 0%Z)) (pending s))).
        apply (Q_fresh_upd s j x (with_phase x PReported) (Some (EvReject j 0%Z)) (pending s));
          [exact HQ|exact Hx|exact Hne|exact Hnw|exact Hf1|exact Hf2|intros p Hp; left; exact Hp|intros k H; exfalso; eapply Hnp; eauto|intros w Hw; simpl in Hw; congruence|simpl; auto].
      * change (Q (set_pend_enq s j (with_phase x PDryStop) None (pending s))).
        apply (Q_fresh_upd s j x (with_phase x PDryStop) None (pending s));
          [exact HQ|exact Hx|exact Hne|exact Hnw|exact Hf1|exact Hf2|intros p Hp; left; exact Hp|intros k H; exfalso; eapply Hnp; eauto|intros w Hw; simpl in Hw; congruence|exact I].
    + destruct (negb (within c (used s) (jlimits x))).
      * apply (Q_wait s j x); auto.
      * set (s1 := set_used s (consume (used s) (jlimits x))).
        assert (Q1 : Q s1) by (apply Q_set_used; exact HQ).
        destruct (jbadexec x).
        -- change (Q (set_pend_enq s1 j (mark_holds x PReported) (Some (EvReject j 0%Z)) (pending s1))).
           apply (Q_fresh_upd s1 j x (mark_holds x PReported) (Some (EvReject j 0%Z)) (pending s1));
             [exact Q1|exact Hx|exact Hne|exact Hnw|exact Hf1|exact Hf2|intros p Hp; left; exact Hp|intros k H; exfalso; eapply Hnp; eauto
             |intros w Hw; simpl in Hw; congruence|simpl; auto].
        -- apply Q_add_submit. rewrite Hsafe.
           set (y := mark_submitted (mark_holds x PSubmitted)).
           set (P' := if jnocse x then pending s
                      else (jkey x, jctx x, j) :: filter (fun p => negb (key_eqb (fst p) (jkey x, jctx x))) (pending s)).
           change (Q (set_pend_enq s1 j y None P')).
           apply (Q_fresh_upd s1 j x y None P'); [exact Q1|exact Hx|exact Hne|exact Hnw|exact Hf1|exact Hf2| | |intros w Hw; simpl in Hw; congruence|exact I].
           ++ intros p Hp. unfold P' in Hp. destruct (jnocse x); [left; exact Hp|].
              destruct Hp as [<-|Hp]; [right; reflexivity|left]. apply filter_In in Hp. apply Hp.
           ++ intros k Hk. unfold P' in Hk. destruct (jnocse x); [exfalso; eapply Hnp; eauto|].
              destruct Hk as [E|Hk].
              ** injection E as <-. simpl. repeat split; auto. unfold runph. auto.
              ** exfalso. apply filter_In in Hk. eapply Hnp. apply Hk.
Qed.

(** * every step keeps [Q] *)
Lemma preset_none_of_phase s j x : Q s -> getj s j = Some x ->
  jphase x = PSubmitted \/ jphase x = PEvaluating \/ jphase x = PReported -> jpreset x = None.
Proof.
  intros HQ Hx Hp. destruct (jpreset x) as [v|] eqn:E; [|reflexivity]. exfalso.
  destruct (q_pr _ s HQ j x v Hx E) as [A|[A|A]]; destruct Hp as [B|[B|B]]; congruence.
Qed.

Lemma dup_ok_absurd t xt x p : dup_ok t xt x -> jphase x = p ->
  p = PSubmitted \/ p = PEvaluating \/ p = PQueued \/ p = PWaiting -> False.
Proof.
  unfold dup_ok. intros D E Hp. rewrite E in D.
  destruct (jphase xt) as [| |t0| | | | | |[v|e]|];
    try (destruct Hp as [A|[A|[A|A]]]; rewrite A in D; discriminate).
  destruct D as [[_ [D|D]]|D]; destruct Hp as [A|[A|[A|A]]]; rewrite A in D; discriminate.
Qed.

Lemma Q_step s o : Q s -> Q (step c s o).
Proof.
  intros HQ. destruct o as [key ctx l nocse prov bad|k j0 co|j ok e|j o].
  - cbn [step]. apply Q_new; auto. intros e He.
    assert (exists x, getj s (evj e) = Some x) as (x & Hx).
    { destruct e as [j|j|j e0|j v]; simpl.
      - destruct (q_ex _ s HQ j He) as (x & Hx & _). eauto.
      - destruct (q_dn _ s HQ j He) as (x & Hx & _). eauto.
      - destruct (q_rj _ s HQ j e0 He) as (x & Hx & _). eauto.
      - destruct (q_rs _ s HQ j v He) as (x & Hx & _). eauto. }
    eapply getj_lt; eauto.
  - cbn [step]. set (i := find_event (queue s) k j0 0).
    destruct (nth_error (queue s) i) as [ev|] eqn:En; [|exact HQ].
    destruct (Q_pop s i ev HQ En) as [Qp Hnp]. pose proof (nth_error_In _ _ En) as Hin.
    destruct ev as [j|j|j e|j v]; simpl in Hnp.
    + destruct (q_ex _ s HQ j Hin) as (x & Hx & P). apply (Q_exec_job (pop_queue s i) j x co); auto.
    + destruct (q_dn _ s HQ j Hin) as (x & Hx & P). apply (Q_done_job c (pop_queue s i) j x); auto.
    + destruct (q_rj _ s HQ j e Hin) as (x & Hx & Pre & P). unfold reject_job.
      set (s0 := pop_queue s i).
      assert (Hnw : ~ In j (waiting s0)).
      { intros H. destruct (q_wt _ s HQ j H) as (z & Hz & Pz). rewrite Hx in Hz. injection Hz as <-.
        destruct P as [A|[A|A]]; congruence. }
      destruct (getj_maybe_release c s0 j j x Hx Hnw) as (y & Hy & P1 & P2 & _).
      apply (Q_settle (maybe_release c s0 j) j y (Ko e)).
      * apply Q_maybe_release. exact Qp.
      * exact Hy.
      * apply no_event_maybe_release; auto.
      * rewrite P1. exact P.
      * intros v Hv. congruence.
    + destruct (q_rs _ s HQ j v Hin) as (x & Hx & P & Pre). unfold resolve_job.
      apply (Q_settle (pop_queue s i) j x (Ok v)); auto.
      intros v' Hv'. rewrite (Pre v' Hv'). reflexivity.
  - cbn [step]. unfold phase_is. destruct (getj s j) as [x|] eqn:Hx; [|exact HQ].
    destruct (jphase x) eqn:P; try exact HQ.
    assert (Hpre : jpreset x = None) by (apply (preset_none_of_phase s j x HQ Hx); auto).
    assert (Hne : ~ In j (map evj (queue s))) by (apply (no_event _ s j x HQ Hx); rewrite P; discriminate).
    assert (Hnw : ~ In j (waiting s)).
    { intros H. destruct (q_wt _ s HQ j H) as (z & Hz & Pz). congruence. }
    apply (Q_move s j x (with_phase x PReported) (Some (if ok then EvDone j else EvReject j e)));
      [exact HQ|exact Hx|exact Hne|exact Hnw|reflexivity|reflexivity| | | | | | ].
    + intros o. rewrite P. discriminate.
    + intros o. simpl. discriminate.
    + intros _. split; [unfold runph; simpl; auto|reflexivity].
    + intros t xt Hin Ht D. exfalso. apply (dup_ok_absurd t xt x PSubmitted D P). auto.
    + intros v Hv. simpl in Hv. congruence.
    + destruct ok; simpl; auto.
  - cbn [step]. unfold phase_is. destruct (getj s j) as [x|] eqn:Hx; [|exact HQ].
    destruct (jphase x) eqn:P; try exact HQ.
    assert (Hpre : jpreset x = None) by (apply (preset_none_of_phase s j x HQ Hx); auto).
    assert (Hne : ~ In j (map evj (queue s))) by (apply (no_event _ s j x HQ Hx); rewrite P; discriminate).
    assert (Hnw : ~ In j (waiting s)).
    { intros H. destruct (q_wt _ s HQ j H) as (z & Hz & Pz). congruence. }
    apply (Q_move s j x (with_phase x PEvalQ) (Some (match o with Ok v => EvResolve j v | Ko e => EvReject j e end)));
      [exact HQ|exact Hx|exact Hne|exact Hnw|reflexivity|reflexivity| | | | | | ].
    + intros o'. rewrite P. discriminate.
    + intros o'. simpl. discriminate.
    + intros _. split; [unfold runph; simpl; auto|reflexivity].
    + intros t xt Hin Ht D. exfalso. apply (dup_ok_absurd t xt x PEvaluating D P). auto.
    + intros v Hv. simpl in Hv. congruence.
    + destruct o as [v|e]; simpl; auto. split; [reflexivity|]. split; [reflexivity|]. intros v' Hv'. simpl in Hv'. congruence.
Qed.

Theorem Q_run ops : Q (run c ops).
Proof.
  unfold run. rewrite <- fold_left_rev_right. induction (rev ops) as [|o l IH]; simpl; [apply Q_init|].
  now apply Q_step.
Qed.

(** C06: whatever the workflow, the completion order and the backend's answers, a job that collapsed into another one
    ends with exactly that job's result or error. *)
Theorem duplicates_agree ops t j xt xj o o' :
  In (t, j) (subs (run c ops)) -> getj (run c ops) t = Some xt -> getj (run c ops) j = Some xj ->
  jphase xt = PSettled o -> jphase xj = PSettled o' -> o' = o.
Proof. intros. eapply (Q_dups_agree (run c ops)); eauto. apply Q_run. Qed.
End T.
