(** C06, duplicates agree — assembled over whole runs: the phase/event discipline of the job machine ([Q]) and,
    from it, that a job which collapsed into another one ends with exactly that job's outcome. *)
From Coq Require Import List ZArith Bool Arith Lia.
From RV Require Import Model.JobMachine Proofs.JobBase Proofs.JobDup.
Import ListNotations.
Open Scope list_scope.

Definition evj (e : event) : nat := match e with EvExec j | EvDone j | EvReject j _ | EvResolve j _ => j end.

(** handed to an executor and not settled yet *)
Definition runph (p : phase) : Prop := p = PSubmitted \/ p = PReported \/ p = PEvaluating \/ p = PEvalQ.

(** how a duplicate [xj] relates to its target [xt] *)
Definition dup_ok (t : nat) (xt xj : job) : Prop :=
  match jphase xt with
  | PSettled (Ok v) => (jpreset xj = Some v /\ (jphase xj = PCacheQ \/ jphase xj = PEvalQ)) \/ jphase xj = PSettled (Ok v)
  | PSettled (Ko e) => jphase xj = PSettled (Ko e)
  | _ => jphase xj = PCollapsed t
  end.

Record Qg (D : nat -> nat -> job -> job -> Prop) (s : state) : Prop := {
  q_nd : NoDup (map evj (queue s));
  q_ex : forall j, In (EvExec j) (queue s) -> exists x, getj s j = Some x /\ jphase x = PQueued;
  q_dn : forall j, In (EvDone j) (queue s) -> exists x, getj s j = Some x /\ (jphase x = PCacheQ \/ jphase x = PReported);
  q_rj : forall j e, In (EvReject j e) (queue s) ->
         exists x, getj s j = Some x /\ jpreset x = None /\ (jphase x = PCacheQ \/ jphase x = PReported \/ jphase x = PEvalQ);
  q_rs : forall j v, In (EvResolve j v) (queue s) ->
         exists x, getj s j = Some x /\ jphase x = PEvalQ /\ (forall v', jpreset x = Some v' -> v' = v);
  q_wt : forall j, In j (waiting s) -> exists x, getj s j = Some x /\ jphase x = PWaiting;
  q_wn : NoDup (waiting s);
  q_pr : forall j x v, getj s j = Some x -> jpreset x = Some v ->
         jphase x = PCacheQ \/ jphase x = PEvalQ \/ jphase x = PSettled (Ok v);
  q_pd : forall k t, In (k, t) (pending s) ->
         exists x, getj s t = Some x /\ k = (jkey x, jctx x) /\ runph (jphase x) /\ jpreset x = None;
  q_sb : forall t j, In (t, j) (subs s) ->
         t <> j /\ ~ In j (map fst (subs s)) /\
         exists xt xj, getj s t = Some xt /\ getj s j = Some xj /\ jpreset xt = None /\
                       (runph (jphase xt) \/ exists o, jphase xt = PSettled o) /\ D t j xt xj;
  q_sn : NoDup (map snd (subs s))
}.

Definition Dstd (t j : nat) (xt xj : job) : Prop := dup_ok t xt xj.
Notation Q := (Qg Dstd).

Lemma Q_init : Q init.
Proof.
  constructor; simpl; try (apply NoDup_nil); intros; try contradiction.
  unfold getj in *. simpl in *. destruct j; discriminate.
Qed.

(** the theorem that [Q] is for *)
Lemma Q_dups_agree s t j xt xj o o' :
  Q s -> In (t, j) (subs s) -> getj s t = Some xt -> getj s j = Some xj ->
  jphase xt = PSettled o -> jphase xj = PSettled o' -> o' = o.
Proof.
  intros HQ Hin Ht Hj Pt Pj. destruct (q_sb _ s HQ t j Hin) as (_ & _ & xt' & xj' & Ht' & Hj' & _ & _ & D).
  rewrite Ht in Ht'. injection Ht' as <-. rewrite Hj in Hj'. injection Hj' as <-.
  unfold Dstd, dup_ok in D. rewrite Pt in D. destruct o as [v|e].
  - destruct D as [[_ [D|D]]|D]; congruence.
  - congruence.
Qed.

(** * moving one job to another (unsettled) phase, possibly queueing its next event *)
Definition ev_ok (e : event) (p : phase) (pre : option Z) : Prop :=
  match e with
  | EvExec _ => p = PQueued
  | EvDone _ => p = PCacheQ \/ p = PReported
  | EvReject _ _ => pre = None /\ (p = PCacheQ \/ p = PReported \/ p = PEvalQ)
  | EvResolve _ v => p = PEvalQ /\ (forall v', pre = Some v' -> v' = v)
  end.

Definition enq_opt (s : state) (eo : option event) : state := match eo with Some e => enqueue s e | None => s end.

Lemma getj_setj_cases s j x y k z : getj s j = Some x -> getj (setj s j y) k = Some z ->
  (k = j /\ z = y) \/ (k <> j /\ getj s k = Some z).
Proof.
  intros Hx H. destruct (Nat.eq_dec j k) as [->|Hne].
  - rewrite (getj_setj_same _ _ _ _ Hx) in H. injection H as <-. auto.
  - rewrite getj_setj_other in H by assumption. right. split; auto.
Qed.

Lemma NoDup_app_single {A} (l : list A) a : NoDup l -> ~ In a l -> NoDup (l ++ [a]).
Proof.
  induction 1 as [|x l Hx Hl IH]; simpl; intros Hn.
  - constructor; [intros []|constructor].
  - constructor.
    + intros H. apply in_app_or in H. destruct H as [H|[H|[]]]; [contradiction|]. apply Hn. now left.
    + apply IH. intros H. apply Hn. now right.
Qed.

Lemma in_evj q e : In e q -> In (evj e) (map evj q).
Proof. intros H. apply in_map. exact H. Qed.

Lemma unsettled_dup_target t xt xt' xj :
  (forall o, jphase xt <> PSettled o) -> (forall o, jphase xt' <> PSettled o) -> dup_ok t xt xj -> dup_ok t xt' xj.
Proof.
  unfold dup_ok. intros H H'. destruct (jphase xt) as [| |t0| | | | | |o|] eqn:E; try (exfalso; eapply H; reflexivity);
    destruct (jphase xt') as [| |t1| | | | | |o'|] eqn:E'; try (exfalso; eapply H'; reflexivity); auto.
Qed.

Lemma Q_move s j x y eo :
  Q s -> getj s j = Some x -> ~ In j (map evj (queue s)) -> ~ In j (waiting s) ->
  jkey y = jkey x -> jctx y = jctx x ->
  (forall o, jphase x <> PSettled o) -> (forall o, jphase y <> PSettled o) ->
  (runph (jphase x) -> runph (jphase y) /\ jpreset y = jpreset x) ->
  (forall t xt, In (t, j) (subs s) -> getj s t = Some xt -> dup_ok t xt x -> dup_ok t xt y) ->
  (forall v, jpreset y = Some v -> jphase y = PCacheQ \/ jphase y = PEvalQ) ->
  match eo with None => True | Some e => evj e = j /\ ev_ok e (jphase y) (jpreset y) end ->
  Q (enq_opt (setj s j y) eo).
Proof.
  intros HQ Hx Hne Hnw Hk1 Hk2 Hux Huy Hrun Hdup Hpr Hev.
  assert (G : forall k z, getj (enq_opt (setj s j y) eo) k = Some z -> (k = j /\ z = y) \/ (k <> j /\ getj s k = Some z)).
  { intros k z H. apply (getj_setj_cases s j x y k z Hx). destruct eo; exact H. }
  assert (Gy : getj (enq_opt (setj s j y) eo) j = Some y).
  { destruct eo; apply (getj_setj_same _ _ _ _ Hx). }
  assert (Go : forall k, k <> j -> getj (enq_opt (setj s j y) eo) k = getj s k).
  { intros k Hk. destruct eo; apply getj_setj_other; auto. }
  assert (Hq : forall e, In e (queue (enq_opt (setj s j y) eo)) -> In e (queue s) \/ eo = Some e).
  { intros e H. destruct eo as [e0|]; simpl in H; [|left; exact H]. apply in_app_or in H. destruct H as [H|[<-|[]]]; auto. }
  assert (Hold : forall e, In e (queue s) -> evj e <> j).
  { intros e He E. apply Hne. rewrite <- E. now apply in_evj. }
  destruct HQ as [a1 a2 a3 a4 a5 a6 a7 a8 a9 a10 a11].
  constructor.
  - destruct eo as [e0|]; simpl; [|exact a1]. rewrite map_app. simpl. destruct Hev as [E _].
    apply NoDup_app_single; [exact a1|rewrite E; exact Hne].
  - intros k H. destruct (Hq _ H) as [H0|E].
    + destruct (a2 k H0) as (z & Hz & Hp). exists z. split; [|exact Hp]. rewrite Go; [exact Hz|]. exact (Hold _ H0).
    + subst eo. destruct Hev as [E1 E2]. simpl in E1, E2. subst k. exists y. auto.
  - intros k H. destruct (Hq _ H) as [H0|E].
    + destruct (a3 k H0) as (z & Hz & Hp). exists z. split; [|exact Hp]. rewrite Go; [exact Hz|]. exact (Hold _ H0).
    + subst eo. destruct Hev as [E1 E2]. simpl in E1, E2. subst k. exists y. auto.
  - intros k e H. destruct (Hq _ H) as [H0|E].
    + destruct (a4 k e H0) as (z & Hz & Hp). exists z. split; [|exact Hp]. rewrite Go; [exact Hz|]. exact (Hold _ H0).
    + subst eo. destruct Hev as [E1 E2]. simpl in E1, E2. subst k. exists y. auto.
  - intros k v H. destruct (Hq _ H) as [H0|E].
    + destruct (a5 k v H0) as (z & Hz & Hp). exists z. split; [|exact Hp]. rewrite Go; [exact Hz|]. exact (Hold _ H0).
    + subst eo. destruct Hev as [E1 E2]. simpl in E1, E2. subst k. exists y. auto.
  - intros k H. assert (Hk : k <> j) by (intros ->; apply Hnw; destruct eo; exact H).
    destruct (a6 k) as (z & Hz & Hp); [destruct eo; exact H|]. exists z. rewrite Go by exact Hk. auto.
  - destruct eo; exact a7.
  - intros k z v Hz Hv. destruct (G _ _ Hz) as [[-> ->]|[Hk Hz']].
    + destruct (Hpr v Hv) as [H|H]; auto.
    + exact (a8 k z v Hz' Hv).
  - intros k t H. assert (H0 : In (k, t) (pending s)) by (destruct eo; exact H).
    destruct (a9 k t H0) as (z & Hz & Hkk & Hr & Hp). destruct (Nat.eq_dec t j) as [->|Ht].
    + rewrite Hx in Hz. injection Hz as <-. destruct (Hrun Hr) as [R E]. exists y. split; [exact Gy|].
      split; [rewrite Hk1, Hk2; exact Hkk|]. split; [exact R|]. rewrite E. exact Hp.
    + exists z. rewrite Go by exact Ht. auto.
  - intros t k H. assert (H0 : In (t, k) (subs s)) by (destruct eo; exact H).
    assert (Es : subs (enq_opt (setj s j y) eo) = subs s) by (destruct eo; reflexivity). rewrite Es.
    destruct (a10 t k H0) as (Htk & Hnt & xt & xk & Hxt & Hxk & Hpt & Hph & Hd).
    split; [exact Htk|]. split; [exact Hnt|].
    destruct (Nat.eq_dec t j) as [->|Ht]; destruct (Nat.eq_dec k j) as [->|Hk].
    + contradiction.
    + rewrite Hx in Hxt. injection Hxt as <-. exists y, xk. rewrite Gy, (Go k Hk).
      assert (Hr : runph (jphase x)) by (destruct Hph as [Hr|(o & Ho)]; [exact Hr|exfalso; eapply Hux; eauto]).
      destruct (Hrun Hr) as [R E].
      split; [reflexivity|]. split; [exact Hxk|]. split; [rewrite E; exact Hpt|]. split; [left; exact R|].
      exact (unsettled_dup_target j x y xk Hux Huy Hd).
    + rewrite Hx in Hxk. injection Hxk as <-. exists xt, y. rewrite Gy, (Go t Ht).
      split; [exact Hxt|]. split; [reflexivity|]. split; [exact Hpt|]. split; [exact Hph|].
      exact (Hdup t xt H0 Hxt Hd).
    + exists xt, xk. rewrite (Go t Ht), (Go k Hk). repeat split; auto.
  - destruct eo; exact a11.
Qed.

(** * fields [Q] does not read *)
Lemma Q_core D s s' : jobs s' = jobs s -> queue s' = queue s -> pending s' = pending s -> waiting s' = waiting s ->
  subs s' = subs s -> Qg D s -> Qg D s'.
Proof.
  intros E1 E2 E3 E4 E5 [a1 a2 a3 a4 a5 a6 a7 a8 a9 a10 a11].
  assert (G : forall j, getj s' j = getj s j) by (intros j; unfold getj; now rewrite E1).
  constructor; try rewrite E2; try rewrite E3; try rewrite E4; try rewrite E5; auto;
    intros; repeat setoid_rewrite G; eauto.
  - rewrite G in *. eauto.
Qed.

(** a job in a phase without a queued event has no event *)
Lemma no_event D s j x : Qg D s -> getj s j = Some x ->
  jphase x <> PQueued -> jphase x <> PCacheQ -> jphase x <> PReported -> jphase x <> PEvalQ ->
  ~ In j (map evj (queue s)).
Proof.
  intros HQ Hx N1 N2 N3 N4 H. apply in_map_iff in H. destruct H as (e & E & He).
  destruct e as [k|k|k e0|k v]; simpl in E; subst k.
  - destruct (q_ex _ s HQ j He) as (z & Hz & P). congruence.
  - destruct (q_dn _ s HQ j He) as (z & Hz & [P|P]); congruence.
  - destruct (q_rj _ s HQ j e0 He) as (z & Hz & _ & [P|[P|P]]); congruence.
  - destruct (q_rs _ s HQ j v He) as (z & Hz & P & _). congruence.
Qed.

(** popping an event keeps [Q]; the popped job has no other event *)
Lemma remove_nth_in {A} (q : list A) i e : In e (remove_nth q i) -> In e q.
Proof.
  revert i. induction q as [|a q IH]; intros [|i]; simpl; auto. intros [H|H]; auto. right. eapply IH; eauto.
Qed.

Lemma remove_nth_map {A B} (f : A -> B) (q : list A) i : map f (remove_nth q i) = remove_nth (map f q) i.
Proof. revert i. induction q as [|a q IH]; intros [|i]; simpl; auto. now rewrite IH. Qed.

Lemma NoDup_remove_nth {A} (l : list A) : forall i, NoDup l -> NoDup (remove_nth l i).
Proof.
  induction l as [|a l IH]; intros [|i] H; simpl; auto; inversion H; subst; auto.
  constructor; auto. intros Hin. apply remove_nth_in in Hin. contradiction.
Qed.

Lemma NoDup_remove_nth_notin {A} (l : list A) : forall i a, NoDup l -> nth_error l i = Some a -> ~ In a (remove_nth l i).
Proof.
  induction l as [|b l IH]; intros [|i] a H Hn; simpl in *; try discriminate; inversion H; subst.
  - injection Hn as <-. assumption.
  - intros [E|Hin]; [subst; apply H2; eapply nth_error_In; eauto|eapply IH; eauto].
Qed.

Lemma Q_pop s i e : Q s -> nth_error (queue s) i = Some e ->
  Q (pop_queue s i) /\ ~ In (evj e) (map evj (queue (pop_queue s i))).
Proof.
  intros HQ Hn. split.
  - destruct HQ as [a1 a2 a3 a4 a5 a6 a7 a8 a9 a10 a11].
    constructor; simpl; auto; try (intros; match goal with H : In _ (remove_nth _ _) |- _ => apply remove_nth_in in H end; eauto).
    rewrite remove_nth_map. now apply NoDup_remove_nth.
  - simpl. rewrite remove_nth_map. apply NoDup_remove_nth_notin; [apply (q_nd _ s HQ)|].
    rewrite nth_error_map, Hn. reflexivity.
Qed.

(** * _check_jobs_pending_limits *)
Section C.
Variable c : config.

Lemma split_ready_spec s : forall w lim a b, split_ready c s w lim = (a, b) ->
  (forall k, In k a -> In k w) /\ (forall k, In k b -> In k w) /\
  (NoDup w -> NoDup a /\ NoDup b /\ forall k, In k a -> ~ In k b).
Proof.
  induction w as [|j r IH]; intros lim a b H; simpl in H.
  - injection H as <- <-. repeat split; auto; try constructor; intros k [].
  - destruct (getj s j) as [x|].
    + destruct (within c (used s) (add_limits (jlimits x) lim)).
      * destruct (split_ready c s r (add_limits (jlimits x) lim)) as [a' b'] eqn:E. injection H as <- <-.
        destruct (IH _ _ _ E) as (A & B & C). split; [|split].
        -- intros k [->|Hk]; [now left|right; auto].
        -- intros k Hk. right. auto.
        -- intros Hnd. inversion Hnd as [|? ? Hj Hr]; subst. destruct (C Hr) as (Na & Nb & D). split; [|split].
           ++ constructor; auto.
           ++ exact Nb.
           ++ intros k [->|Hk]; [intros Hb; apply Hj; auto|auto].
      * destruct (split_ready c s r lim) as [a' b'] eqn:E. injection H as <- <-.
        destruct (IH _ _ _ E) as (A & B & C). split; [|split].
        -- intros k Hk. right. auto.
        -- intros k [->|Hk]; [now left|right; auto].
        -- intros Hnd. inversion Hnd as [|? ? Hj Hr]; subst. destruct (C Hr) as (Na & Nb & D). split; [|split].
           ++ exact Na.
           ++ constructor; auto.
           ++ intros k Hk [->|Hb]; [apply Hj; auto|eapply D; eauto].
    + destruct (IH _ _ _ H) as (A & B & C). split; [|split].
      * intros k Hk. right. auto.
      * intros k Hk. right. auto.
      * intros Hnd. inversion Hnd; subst. auto.
Qed.

Lemma Q_set_waiting s w : Q s -> NoDup w -> (forall k, In k w -> In k (waiting s)) -> Q (set_waiting s w).
Proof.
  intros [a1 a2 a3 a4 a5 a6 a7 a8 a9 a10 a11] Hn Hs. constructor; simpl; auto.
  intros j Hj. destruct (a6 j (Hs j Hj)) as (x & Hx & P). exists x. auto.
Qed.

Lemma Q_requeue s k : Q s -> ~ In k (waiting s) ->
  (forall x, getj s k = Some x -> jphase x = PWaiting) -> Q (requeue s k).
Proof.
  intros HQ Hnw Hp. unfold requeue. destruct (getj s k) as [x|] eqn:Hx; [|exact HQ].
  specialize (Hp x eq_refl).
  apply (Q_move s k x (with_phase x PQueued) (Some (EvExec k))); auto.
  - apply (no_event _ s k x HQ Hx); rewrite Hp; discriminate.
  - intros o. rewrite Hp. discriminate.
  - intros o. simpl. discriminate.
  - intros R. exfalso. unfold runph in R. rewrite Hp in R. destruct R as [R|[R|[R|R]]]; discriminate.
  - intros t xt Hin Ht D. exfalso. unfold dup_ok in D. rewrite Hp in D.
    destruct (jphase xt) as [| |t0| | | | | |[v|e]|]; try discriminate. destruct D as [[_ [D|D]]|D]; discriminate.
  - intros v Hv. simpl in Hv. exfalso. destruct (q_pr _ s HQ k x v Hx Hv) as [P|[P|P]]; rewrite Hp in P; discriminate.
  - simpl. auto.
Qed.

Lemma waiting_requeue s k : waiting (requeue s k) = waiting s.
Proof. unfold requeue. destruct (getj s k); reflexivity. Qed.

Lemma getj_requeue_other s k j : j <> k -> getj (requeue s k) j = getj s j.
Proof.
  intros H. unfold requeue. destruct (getj s k) as [x|]; [|reflexivity].
  change (getj (setj s k (with_phase x PQueued)) j = getj s j). apply getj_setj_other. auto.
Qed.

Lemma Q_fold_requeue l : forall s, Q s -> NoDup l -> (forall k, In k l -> ~ In k (waiting s)) ->
  (forall k x, In k l -> getj s k = Some x -> jphase x = PWaiting) -> Q (fold_left requeue l s).
Proof.
  induction l as [|k l IH]; intros s HQ Hn Hw Hp; simpl; [exact HQ|].
  inversion Hn as [|? ? Hk Hn']; subst. apply IH; auto.
  - apply Q_requeue; auto. apply Hw. now left. intros x Hx. apply (Hp k x); auto. now left.
  - intros k' Hk'. rewrite waiting_requeue. apply Hw. now right.
  - intros k' x Hk' Hx. rewrite getj_requeue_other in Hx by (intros ->; contradiction). apply (Hp k' x); auto. now right.
Qed.

Lemma Q_check_pending s : Q s -> Q (check_pending_limits c s).
Proof.
  intros HQ. unfold check_pending_limits. destruct (split_ready c s (waiting s) []) as [a b] eqn:E.
  destruct (split_ready_spec s _ _ _ _ E) as (A & B & C). destruct (C (q_wn _ s HQ)) as (Na & Nb & D).
  apply Q_fold_requeue.
  - apply Q_set_waiting; auto.
  - exact Na.
  - intros k Hk. simpl. exact (D k Hk).
  - intros k x Hk Hx. change (getj s k = Some x) in Hx. destruct (q_wt _ s HQ k (A k Hk)) as (z & Hz & P). congruence.
Qed.

Lemma Q_skip s : Q s -> Q (skip_wakeup c s).
Proof. intros H. unfold skip_wakeup. destruct (recheck_on_skip (vr c)); [now apply Q_check_pending|exact H]. Qed.
End C.

Lemma dup_ok_to_evalq t xt x y v : dup_ok t xt x -> jphase x = PCacheQ \/ jphase x = PReported ->
  jpreset x = Some v -> jpreset y = Some v -> jphase y = PEvalQ -> dup_ok t xt y.
Proof.
  unfold dup_ok. intros D Hp Hv Hy Py. destruct (jphase xt) as [| |t0| | | | | |[v0|e0]|].
  1-8,11: destruct Hp as [E|E]; rewrite E in D; discriminate.
  - destruct D as [[Dv _]|D]; [left; split; [congruence|right; exact Py]|destruct Hp as [E|E]; congruence].
  - destruct Hp as [E|E]; congruence.
Qed.

Lemma dup_ok_no_preset t xt x : dup_ok t xt x -> jphase x = PCacheQ \/ jphase x = PReported -> jpreset x = None -> False.
Proof.
  unfold dup_ok. intros D Hp Hv. destruct (jphase xt) as [| |t0| | | | | |[v0|e0]|].
  1-8,11: destruct Hp as [E|E]; rewrite E in D; discriminate.
  - destruct D as [[Dv _]|D]; [congruence|destruct Hp as [E|E]; congruence].
  - destruct Hp as [E|E]; congruence.
Qed.

Section H.
Variable c : config.

(** a job whose phase and preset are kept *)
Lemma Q_same_phase s j x y : Q s -> getj s j = Some x -> ~ In j (waiting s) \/ True ->
  jkey y = jkey x -> jctx y = jctx x -> jphase y = jphase x -> jpreset y = jpreset x -> Q (setj s j y).
Proof.
  intros HQ Hx _ K1 K2 P R.
  assert (G : forall k z, getj (setj s j y) k = Some z -> (k = j /\ z = y) \/ (k <> j /\ getj s k = Some z))
    by (intros k z; apply (getj_setj_cases s j x y k z Hx)).
  assert (Gy : getj (setj s j y) j = Some y) by (apply (getj_setj_same _ _ _ _ Hx)).
  assert (T : forall k z, getj s k = Some z -> exists z', getj (setj s j y) k = Some z' /\ jphase z' = jphase z /\
                 jpreset z' = jpreset z /\ jkey z' = jkey z /\ jctx z' = jctx z).
  { intros k z Hz. destruct (Nat.eq_dec j k) as [<-|Hne].
    - rewrite Hx in Hz. injection Hz as <-. exists y. auto.
    - exists z. rewrite getj_setj_other by assumption. auto. }
  destruct HQ as [a1 a2 a3 a4 a5 a6 a7 a8 a9 a10 a11].
  constructor; change (queue (setj s j y)) with (queue s); change (waiting (setj s j y)) with (waiting s);
    change (pending (setj s j y)) with (pending s); change (subs (setj s j y)) with (subs s); auto.
  - intros k H. destruct (a2 k H) as (z & Hz & Pz). destruct (T k z Hz) as (z' & Hz' & E1 & _). exists z'. split; congruence.
  - intros k H. destruct (a3 k H) as (z & Hz & Pz). destruct (T k z Hz) as (z' & Hz' & E1 & _). exists z'. rewrite E1. auto.
  - intros k e H. destruct (a4 k e H) as (z & Hz & Pz & Pp). destruct (T k z Hz) as (z' & Hz' & E1 & E2 & _).
    exists z'. rewrite E1, E2. auto.
  - intros k v H. destruct (a5 k v H) as (z & Hz & Pz & Pp). destruct (T k z Hz) as (z' & Hz' & E1 & E2 & _).
    exists z'. rewrite E1, E2. auto.
  - intros k H. destruct (a6 k H) as (z & Hz & Pz). destruct (T k z Hz) as (z' & Hz' & E1 & _). exists z'. split; congruence.
  - intros k z v Hz Hv. destruct (G _ _ Hz) as [[-> ->]|[Hk Hz']].
    + rewrite P. apply (a8 j x v Hx). congruence.
    + eauto.
  - intros k t H. destruct (a9 k t H) as (z & Hz & Kz & Rz & Pz). destruct (T t z Hz) as (z' & Hz' & E1 & E2 & E3 & E4).
    exists z'. rewrite E1, E2, E3, E4. auto.
  - intros t k H. destruct (a10 t k H) as (N1 & N2 & xt & xk & Hxt & Hxk & Pt & Ph & D).
    destruct (T t xt Hxt) as (xt' & Hxt' & E1 & E2 & _). destruct (T k xk Hxk) as (xk' & Hxk' & F1 & F2 & _).
    split; [exact N1|]. split; [exact N2|]. exists xt', xk'. rewrite E1, E2. repeat split; auto.
    unfold Dstd, dup_ok in *. rewrite E1, F1, F2. exact D.
Qed.

Lemma Q_set_used s u : Q s -> Q (set_used s u).
Proof. apply Q_core; reflexivity. Qed.

Lemma Q_maybe_release s j : Q s -> Q (maybe_release c s j).
Proof.
  intros HQ. unfold maybe_release. destruct (getj s j) as [x|] eqn:Hx; [|exact HQ].
  destruct (if release_if_holds (vr c) then jholds x else negb (jcached x)); [|exact HQ].
  apply Q_check_pending. apply Q_set_used. apply (Q_same_phase s j x (bump_release x)); auto.
Qed.

Lemma getj_fold_requeue_notin l : forall s k, ~ In k l -> getj (fold_left requeue l s) k = getj s k.
Proof.
  induction l as [|a l IH]; intros s k Hn; simpl; [reflexivity|].
  rewrite IH by (intros H; apply Hn; now right). apply getj_requeue_other. intros ->. apply Hn. now left.
Qed.

Lemma getj_check_pending_notin s k : ~ In k (waiting s) -> getj (check_pending_limits c s) k = getj s k.
Proof.
  intros Hn. unfold check_pending_limits. destruct (split_ready c s (waiting s) []) as [a b] eqn:E.
  destruct (split_ready_spec c s _ _ _ _ E) as (A & _ & _).
  rewrite getj_fold_requeue_notin; [reflexivity|]. intros H. apply Hn. auto.
Qed.

Lemma getj_maybe_release s j k x : getj s k = Some x -> ~ In k (waiting s) ->
  exists y, getj (maybe_release c s j) k = Some y /\ jphase y = jphase x /\ jpreset y = jpreset x /\
            jkey y = jkey x /\ jctx y = jctx x.
Proof.
  intros Hx Hn. unfold maybe_release. destruct (getj s j) as [xj|] eqn:Hj; [|exists x; auto].
  destruct (if release_if_holds (vr c) then jholds xj else negb (jcached xj)); [|exists x; auto].
  rewrite getj_check_pending_notin by exact Hn.
  change (exists y, getj (setj s j (bump_release xj)) k = Some y /\ jphase y = jphase x /\ jpreset y = jpreset x /\
                    jkey y = jkey x /\ jctx y = jctx x).
  destruct (Nat.eq_dec j k) as [->|Hne].
  - rewrite Hj in Hx. injection Hx as <-. exists (bump_release xj). rewrite (getj_setj_same _ _ _ _ Hj). auto.
  - exists x. rewrite getj_setj_other by exact Hne. auto.
Qed.

Lemma queue_fold_requeue l : forall s e, In e (queue (fold_left requeue l s)) ->
  In e (queue s) \/ exists k, e = EvExec k /\ In k l.
Proof.
  induction l as [|a l IH]; intros s e H; simpl in H; [left; exact H|].
  destruct (IH _ _ H) as [H0|(k & E & Hk)]; [|right; exists k; split; auto; now right].
  unfold requeue in H0. destruct (getj s a); [|left; exact H0]. simpl in H0. apply in_app_or in H0.
  destruct H0 as [H0|[<-|[]]]; [left; exact H0|right; exists a; split; auto; now left].
Qed.

Lemma queue_check_pending s e : In e (queue (check_pending_limits c s)) ->
  In e (queue s) \/ exists k, e = EvExec k /\ In k (waiting s).
Proof.
  unfold check_pending_limits. destruct (split_ready c s (waiting s) []) as [a b] eqn:E.
  destruct (split_ready_spec c s _ _ _ _ E) as (A & _ & _). intros H.
  destruct (queue_fold_requeue _ _ _ H) as [H0|(k & Ek & Hk)]; [left; exact H0|right; exists k; auto].
Qed.

Lemma no_event_maybe_release s j k : ~ In k (map evj (queue s)) -> ~ In k (waiting s) ->
  ~ In k (map evj (queue (maybe_release c s j))).
Proof.
  intros Hq Hw H. apply in_map_iff in H. destruct H as (e & Ee & He).
  unfold maybe_release in He. destruct (getj s j) as [xj|]; [|apply Hq; rewrite <- Ee; now apply in_evj].
  destruct (if release_if_holds (vr c) then jholds xj else negb (jcached xj)); [|apply Hq; rewrite <- Ee; now apply in_evj].
  destruct (queue_check_pending _ _ He) as [H0|(k' & E & Hk')].
  - apply Hq. rewrite <- Ee. now apply in_evj.
  - subst e. simpl in Ee. subst k'. apply Hw. exact Hk'.
Qed.

Lemma waiting_check_pending s k : In k (waiting (check_pending_limits c s)) -> In k (waiting s).
Proof.
  unfold check_pending_limits. destruct (split_ready c s (waiting s) []) as [a b] eqn:E.
  destruct (split_ready_spec c s _ _ _ _ E) as (_ & B & _).
  assert (W : forall l s0, waiting (fold_left requeue l s0) = waiting s0).
  { induction l as [|x l IH]; intros s0; simpl; [reflexivity|]. rewrite IH. apply waiting_requeue. }
  rewrite W. simpl. apply B.
Qed.

Lemma waiting_maybe_release s j k : In k (waiting (maybe_release c s j)) -> In k (waiting s).
Proof.
  unfold maybe_release. destruct (getj s j) as [xj|]; auto.
  destruct (if release_if_holds (vr c) then jholds xj else negb (jcached xj)); auto.
  intros H. apply waiting_check_pending in H. exact H.
Qed.

Lemma subs_maybe_release s j : subs (maybe_release c s j) = subs s.
Proof.
  unfold maybe_release. destruct (getj s j) as [xj|]; auto.
  destruct (if release_if_holds (vr c) then jholds xj else negb (jcached xj)); auto.
  unfold check_pending_limits. destruct (split_ready c _ _ _) as [a b].
  assert (W : forall l s0, subs (fold_left requeue l s0) = subs s0).
  { induction l as [|x l IH]; intros s0; simpl; [reflexivity|]. rewrite IH. unfold requeue. destruct (getj s0 x); reflexivity. }
  rewrite W. reflexivity.
Qed.

(** * _done_job_main_thread *)
Lemma Q_done_job s j x : Q s -> getj s j = Some x -> ~ In j (map evj (queue s)) ->
  jphase x = PCacheQ \/ jphase x = PReported -> Q (done_job c s j).
Proof.
  intros HQ Hx Hne Hp.
  assert (Hnw : ~ In j (waiting s)).
  { intros H. destruct (q_wt _ s HQ j H) as (z & Hz & P). rewrite Hx in Hz. injection Hz as <-. destruct Hp; congruence. }
  unfold done_job. set (s1 := maybe_release c s j).
  assert (Q1 : Q s1) by (apply Q_maybe_release; exact HQ).
  destruct (getj_maybe_release s j j x Hx Hnw) as (y & Hy & P1 & P2 & K1 & K2). fold s1 in Hy. rewrite Hy.
  assert (Hne1 : ~ In j (map evj (queue s1))) by (apply no_event_maybe_release; auto).
  assert (Hnw1 : ~ In j (waiting s1)) by (intros H; apply Hnw; eapply waiting_maybe_release; eauto).
  assert (Huy : forall o, jphase y <> PSettled o) by (intros o; rewrite P1; destruct Hp as [E|E]; rewrite E; discriminate).
  destruct (jpreset y) as [v|] eqn:Ev.
  - apply (Q_move s1 j y (with_phase y PEvalQ) (Some (EvResolve j v))).
    + exact Q1.
    + exact Hy.
    + exact Hne1.
    + exact Hnw1.
    + reflexivity.
    + reflexivity.
    + exact Huy.
    + intros o. simpl. discriminate.
    + intros R. split; [unfold runph; simpl; auto|reflexivity].
    + intros t xt Hin Ht D. apply (dup_ok_to_evalq t xt y (with_phase y PEvalQ) v D); auto.
      rewrite P1. exact Hp.
    + intros v' Hv'. simpl. auto.
    + simpl. split; [reflexivity|]. split; [reflexivity|]. intros v' Hv'. congruence.
  - apply (Q_move s1 j y (with_phase y PEvaluating) None).
    + exact Q1.
    + exact Hy.
    + exact Hne1.
    + exact Hnw1.
    + reflexivity.
    + reflexivity.
    + exact Huy.
    + intros o. simpl. discriminate.
    + intros R. split; [|reflexivity]. simpl. unfold runph. auto.
    + intros t xt Hin Ht D. exfalso. apply (dup_ok_no_preset t xt y D); auto. rewrite P1. exact Hp.
    + intros v' Hv'. simpl in Hv'. congruence.
    + exact I.
Qed.
End H.

Section S.
Variable c : config.
Hypothesis Hsafe : pending_owner_safe (vr c) = true.

(** * a new job *)
Lemma Q_new s key ctx l nocse prov bad :
  Q s -> (forall e, In e (queue s) -> evj e < length (jobs s)) ->
  Q (enqueue {| jobs := jobs s ++ [new_job key ctx l nocse prov bad]; queue := queue s; pending := pending s;
                waiting := waiting s; used := used s; recorded := recorded s; subs := subs s;
                submitlog := submitlog s |} (EvExec (length (jobs s)))).
Proof.
  intros HQ Hb. set (nj := new_job key ctx l nocse prov bad). set (n := length (jobs s)).
  assert (G : forall k z, nth_error (jobs s ++ [nj]) k = Some z -> (k = n /\ z = nj) \/ getj s k = Some z).
  { intros k z. unfold getj. destruct (Nat.lt_ge_cases k (length (jobs s))) as [Hlt|Hge].
    - rewrite nth_error_app1 by assumption. auto.
    - rewrite nth_error_app2 by assumption. destruct (k - length (jobs s)) as [|m] eqn:E; simpl.
      + intros [= <-]. left. split; [unfold n; lia|reflexivity].
      + destruct m; discriminate. }
  assert (G' : forall k z, getj s k = Some z -> nth_error (jobs s ++ [nj]) k = Some z).
  { intros k z H. unfold getj in H. rewrite nth_error_app1; auto. apply nth_error_Some. congruence. }
  assert (Gn : nth_error (jobs s ++ [nj]) n = Some nj).
  { unfold n. rewrite nth_error_app2 by lia. rewrite Nat.sub_diag. reflexivity. }
  destruct HQ as [a1 a2 a3 a4 a5 a6 a7 a8 a9 a10 a11].
  constructor; unfold getj; simpl.
  - rewrite map_app. simpl. apply NoDup_app_single; auto. intros H. apply in_map_iff in H.
    destruct H as (e & E & He). specialize (Hb e He). fold n in E. unfold n in E. lia.
  - intros k H. apply in_app_or in H. destruct H as [H|[[= <-]|[]]].
    + destruct (a2 k H) as (z & Hz & P). exists z. split; auto.
    + exists nj. split; [exact Gn|reflexivity].
  - intros k H. apply in_app_or in H. destruct H as [H|[E|[]]]; [|discriminate].
    destruct (a3 k H) as (z & Hz & P). exists z. split; auto.
  - intros k e H. apply in_app_or in H. destruct H as [H|[E|[]]]; [|discriminate].
    destruct (a4 k e H) as (z & Hz & P). exists z. split; auto.
  - intros k v H. apply in_app_or in H. destruct H as [H|[E|[]]]; [|discriminate].
    destruct (a5 k v H) as (z & Hz & P). exists z. split; auto.
  - intros k H. destruct (a6 k H) as (z & Hz & P). exists z. split; auto.
  - exact a7.
  - intros k z v Hz Hv. destruct (G _ _ Hz) as [[-> ->]|Hz']; [discriminate|]. eauto.
  - intros k t H. destruct (a9 k t H) as (z & Hz & P). exists z. split; auto.
  - intros t k H. destruct (a10 t k H) as (N1 & N2 & xt & xk & Hxt & Hxk & R). split; auto. split; auto.
    exists xt, xk. split; [auto|]. split; [auto|]. exact R.
  - exact a11.
Qed.
End S.
