(** Facts about the insertion-ordered dictionaries of Model/Registry.v. *)
From Coq Require Import List ZArith NArith String Bool Arith Lia.
From RV Require Import Model.Registry.
Import ListNotations.
Open Scope list_scope.

Section DictFacts.
  Context {K V : Type} (eqb : K -> K -> bool).
  Hypothesis eqb_spec : forall a b, eqb a b = true <-> a = b.

  Lemma eqb_refl' : forall a, eqb a a = true.
  Proof. intro a. apply eqb_spec. reflexivity. Qed.

  Lemma eqb_neq' : forall a b, a <> b -> eqb a b = false.
  Proof.
    intros a b H. destruct (eqb a b) eqn:E; auto. apply eqb_spec in E. contradiction.
  Qed.

  Lemma eqb_false' : forall a b, eqb a b = false -> a <> b.
  Proof. intros a b H E. subst. rewrite eqb_refl' in H. discriminate. Qed.

  Lemma dget_In : forall k v (l : list (K * V)), dget eqb k l = Some v -> In (k, v) l.
  Proof.
    induction l as [|[k' v'] r IH]; simpl; intros H; [discriminate|].
    destruct (eqb k k') eqn:E.
    - apply eqb_spec in E. inversion H. subst. auto.
    - auto.
  Qed.

  Lemma dget_None_notin : forall k (l : list (K * V)), dget eqb k l = None -> ~ In k (map fst l).
  Proof.
    induction l as [|[k' v'] r IH]; simpl; intros H; auto.
    destruct (eqb k k') eqn:E; [discriminate|].
    intros [H1|H1]; [subst; rewrite eqb_refl' in E; discriminate | exact (IH H H1)].
  Qed.

  Lemma notin_dget_None : forall k (l : list (K * V)), ~ In k (map fst l) -> dget eqb k l = None.
  Proof.
    induction l as [|[k' v'] r IH]; simpl; intros H; auto.
    destruct (eqb k k') eqn:E.
    - apply eqb_spec in E. subst. tauto.
    - apply IH. tauto.
  Qed.

  Lemma In_dget : forall k v (l : list (K * V)), NoDup (map fst l) -> In (k, v) l -> dget eqb k l = Some v.
  Proof.
    induction l as [|[k' v'] r IH]; simpl; intros ND H; [tauto|].
    inversion ND; subst.
    destruct H as [H|H].
    - inversion H; subst. rewrite eqb_refl'. reflexivity.
    - destruct (eqb k k') eqn:E.
      + apply eqb_spec in E. subst. exfalso. apply H2. change k' with (fst (k', v)). apply in_map. exact H.
      + auto.
  Qed.

  Lemma dget_Some_in_keys : forall k v (l : list (K * V)), dget eqb k l = Some v -> In k (map fst l).
  Proof. intros. apply dget_In in H. change k with (fst (k, v)). apply in_map. exact H. Qed.

  Lemma dpop_keys_incl : forall k k' (l : list (K * V)), In k' (map fst (dpop eqb k l)) -> In k' (map fst l).
  Proof.
    induction l as [|[k1 v1] r IH]; simpl; auto.
    destruct (eqb k k1); simpl; intros; tauto.
  Qed.

  Lemma dpop_NoDup : forall k (l : list (K * V)), NoDup (map fst l) -> NoDup (map fst (dpop eqb k l)).
  Proof.
    induction l as [|[k1 v1] r IH]; simpl; intros ND; auto.
    inversion ND; subst. destruct (eqb k k1); auto.
    simpl. constructor; auto. intro H. apply H1. eapply dpop_keys_incl; eauto.
  Qed.

  Lemma dget_dpop_same : forall k (l : list (K * V)), NoDup (map fst l) -> dget eqb k (dpop eqb k l) = None.
  Proof.
    induction l as [|[k1 v1] r IH]; simpl; intros ND; auto.
    inversion ND; subst. destruct (eqb k k1) eqn:E.
    - apply eqb_spec in E. subst. apply notin_dget_None. exact H1.
    - simpl. rewrite E. auto.
  Qed.

  Lemma dget_dpop_other : forall k k' (l : list (K * V)), k <> k' -> dget eqb k' (dpop eqb k l) = dget eqb k' l.
  Proof.
    induction l as [|[k1 v1] r IH]; simpl; intros NE; auto.
    destruct (eqb k k1) eqn:E.
    - apply eqb_spec in E. subst. rewrite (eqb_neq' k' k1); auto.
    - simpl. destruct (eqb k' k1); auto.
  Qed.

  Lemma dpop_absent : forall k (l : list (K * V)), dget eqb k l = None -> dpop eqb k l = l.
  Proof.
    induction l as [|[k1 v1] r IH]; simpl; intros H; auto.
    destruct (eqb k k1); [discriminate|]. f_equal. auto.
  Qed.

  Lemma dget_dset_same : forall k v (l : list (K * V)), dget eqb k (dset eqb k v l) = Some v.
  Proof.
    induction l as [|[k1 v1] r IH]; simpl.
    - rewrite eqb_refl'. reflexivity.
    - destruct (eqb k k1) eqn:E; simpl.
      + rewrite eqb_refl'. reflexivity.
      + rewrite E. exact IH.
  Qed.

  Lemma dget_dset_other : forall k k' v (l : list (K * V)), k <> k' -> dget eqb k' (dset eqb k v l) = dget eqb k' l.
  Proof.
    induction l as [|[k1 v1] r IH]; simpl; intros NE.
    - rewrite (eqb_neq' k' k); auto.
    - destruct (eqb k k1) eqn:E; simpl.
      + apply eqb_spec in E. subst. rewrite (eqb_neq' k' k1); auto.
      + destruct (eqb k' k1); auto.
  Qed.

  Lemma dset_keys : forall k k' v (l : list (K * V)), In k' (map fst (dset eqb k v l)) -> k' = k \/ In k' (map fst l).
  Proof.
    induction l as [|[k1 v1] r IH]; simpl.
    - intros [H|[]]; auto.
    - destruct (eqb k k1) eqn:E; simpl.
      + apply eqb_spec in E. subst. tauto.
      + intros [H|H]; auto. apply IH in H. tauto.
  Qed.

  Lemma dset_NoDup : forall k v (l : list (K * V)), NoDup (map fst l) -> NoDup (map fst (dset eqb k v l)).
  Proof.
    induction l as [|[k1 v1] r IH]; simpl; intros ND.
    - constructor; auto.
    - inversion ND; subst. destruct (eqb k k1) eqn:E; simpl.
      + apply eqb_spec in E. subst. constructor; auto.
      + constructor; auto. intro H. apply dset_keys in H. destruct H; [|tauto].
        subst. rewrite eqb_refl' in E. discriminate.
  Qed.

  Lemma dset_fresh : forall k v (l : list (K * V)), dget eqb k l = None -> dset eqb k v l = l ++ [(k, v)].
  Proof.
    induction l as [|[k1 v1] r IH]; simpl; intros H; auto.
    destruct (eqb k k1); [discriminate|]. f_equal. auto.
  Qed.

  Lemma dget_ext_In : forall (l : list (K * V)) k v, NoDup (map fst l) -> (In (k, v) l <-> dget eqb k l = Some v).
  Proof. intros. split; [apply In_dget; auto | apply dget_In]. Qed.
End DictFacts.

Definition str_spec := String.eqb_eq.
Definition n_spec := N.eqb_eq.

(** heap updates *)
Lemma upd_length : forall {A} n (f : A -> A) l, List.length (upd n f l) = List.length l.
Proof. induction n; destruct l; simpl; auto. Qed.

Lemma nth_upd_other : forall {A} n m (f : A -> A) l d, n <> m -> nth m (upd n f l) d = nth m l d.
Proof.
  induction n; destruct l; destruct m; simpl; intros; auto; try congruence.
Qed.

Lemma nth_upd_same : forall {A} n (f : A -> A) l d, (n < List.length l)%nat -> nth n (upd n f l) d = f (nth n l d).
Proof.
  induction n; destruct l; simpl; intros; auto; try lia. apply IHn. lia.
Qed.
