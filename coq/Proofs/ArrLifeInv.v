(** C10 — after start() the arrayer loop runs until the next stop(): invariant for the shipped
    discipline (flag cleared in start), refutation for "cleared only in stop() when alive". *)
From Coq Require Import List Bool Arith.
From RV Require Import Model.ArrLife.
Import ListNotations.
Open Scope list_scope.

Inductive lreach (v : clear_variant) (s0 : lst) : lst -> Prop :=
| lreach_refl : lreach v s0 s0
| lreach_step : forall s a s', lreach v s0 s -> lstep v s a = Some s' -> lreach v s0 s'.

Lemma lrun_lreach : forall v sch s0 s, lrun v s0 sch = Some s -> forall s00, lreach v s00 s0 -> lreach v s00 s.
Proof.
  induction sch; simpl; intros s0 s H s00 R.
  - injection H as <-. exact R.
  - destruct (lstep v s0 a) eqn:E; [|discriminate]. eapply IHsch; eauto. eapply lreach_step; eauto.
Qed.

Record LInv (js : list (nat * bool)) (s : lst) : Prop := {
  L_armed : l_alive s = true -> l_flag s = false;        (* a live arrayer thread is never told to leave *)
  L_held : l_held s <> [] -> l_alive s = true;           (* whatever is held has a running loop *)
  L_acc : forall j b, In (j, b) js -> In (j, b) (l_todo s) \/ In j (l_held s) \/ In j (l_backend s)
}.

Lemma linv_init : forall js, LInv js (linit js).
Proof. intros js. constructor; simpl; try discriminate; auto; try (intros H; contradiction H; reflexivity). Qed.

Lemma linv_step : forall js s a s', LInv js s -> lstep ClearInStart s a = Some s' -> LInv js s'.
Proof.
  intros js s a s' I H. destruct I as [I1 I2 I3]. destruct a; simpl in H.
  - destruct (l_todo s) as [|[j [|]] r] eqn:Et; try discriminate.
    + injection H as <-. constructor; simpl; auto.
      intros x b Hx. destruct (I3 x b Hx) as [H1|[H1|H1]]; auto.
      * destruct H1 as [[= <- <-]|H1]; auto. right; right. apply in_or_app. simpl. auto.
      * right; right. apply in_or_app. auto.
    + destruct (l_alive s) eqn:Ea; injection H as <-; constructor; simpl; auto;
        intros x b Hx; (destruct (I3 x b Hx) as [H1|[H1|H1]]; auto;
          [destruct H1 as [[= <- <-]|H1]; auto; right; left; apply in_or_app; simpl; auto
          |right; left; apply in_or_app; auto]).
  - destruct (l_alive s) eqn:Ea; [|discriminate].
    rewrite (I1 eq_refl) in H.
    destruct (l_held s) as [|h t] eqn:Eh; [discriminate|]. injection H as <-.
    constructor; simpl; auto.
    intros x b Hx. destruct (I3 x b Hx) as [H1|[H1|H1]]; auto; right; right; apply in_or_app; auto.
  - destruct (l_held s) eqn:Eh; [|discriminate]. injection H as <-.
    constructor; simpl; auto; try discriminate;
      try (intros C; contradiction C; reflexivity).
Qed.

Lemma linv_reach : forall js s, lreach ClearInStart (linit js) s -> LInv js s.
Proof. induction 1; [apply linv_init|eapply linv_step; eauto]. Qed.

(** Shipped: in every reachable state a held job has a live arrayer thread whose exit flag is clear
    (so its loop keeps running until the next stop()) ... *)
Lemma armed : forall js s, lreach ClearInStart (linit js) s ->
  l_held s <> [] -> l_alive s = true /\ l_flag s = false.
Proof.
  intros js s R H. pose proof (linv_reach _ _ R) as I. pose proof (L_held _ _ I H) as A.
  split; [exact A|apply (L_armed _ _ I A)].
Qed.

(** ... hence when neither the scheduler thread nor the arrayer thread can move, every job has been
    handed to the backend. *)
Lemma all_submitted : forall js s, lreach ClearInStart (linit js) s ->
  lstep ClearInStart s LSubmit = None -> lstep ClearInStart s LTick = None ->
  forall j b, In (j, b) js -> In j (l_backend s).
Proof.
  intros js s R Hs Ht j b Hj. pose proof (linv_reach _ _ R) as I.
  assert (Etodo : l_todo s = []).
  { simpl in Hs. destruct (l_todo s) as [|[x [|]] r]; [reflexivity|discriminate|].
    destruct (l_alive s); discriminate. }
  assert (Eheld : l_held s = []).
  { destruct (l_held s) as [|h t] eqn:Eh; [reflexivity|].
    assert (Hne : l_held s <> []) by (rewrite Eh; discriminate).
    destruct (armed js s R Hne) as [A F]. simpl in Ht. rewrite A, F, Eh in Ht. discriminate. }
  destruct (L_acc _ _ I j b Hj) as [H1|[H1|H1]]; auto.
  - rewrite Etodo in H1. contradiction.
  - rewrite Eheld in H1. contradiction.
Qed.

(** Flag cleared only in stop() when a thread was joined: a stop() without a live arrayer thread
    leaves the flag set; the thread started for the next job returns at once; the job is never handed
    to the backend and nothing can move any more (except further stop()s, which need it gone). *)
Definition life_loses (v : clear_variant) : Prop :=
  exists js sch s j, lrun v (linit js) sch = Some s /\ lreach v (linit js) s /\
    (forall a, lstep v s a = None) /\ In (j, false) js /\ In j (l_held s) /\ ~ In j (l_backend s) /\
    l_alive s = false /\ l_flag s = true.

Lemma clear_in_stop_loses : life_loses ClearInStopIfAlive.
Proof.
  exists witness_life_jobs, witness_life. eexists. exists 1.
  split; [vm_compute; reflexivity|].
  split; [eapply (lrun_lreach _ witness_life (linit witness_life_jobs)); [vm_compute; reflexivity|apply lreach_refl]|].
  split; [intros [| |]; reflexivity|].
  split; [simpl; auto|].
  split; [vm_compute; auto|].
  split; [vm_compute; intuition discriminate|].
  split; reflexivity.
Qed.

Lemma shipped_never_loses : ~ life_loses ClearInStart.
Proof.
  intros (js & sch & s & j & _ & R & T & Hj & Hh & Hb & _ & _).
  apply Hb. eapply all_submitted; eauto.
Qed.
