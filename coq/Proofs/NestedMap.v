(** map_nested_value: calls func on exactly the leaves, and -- when the rebuilt sets / dict
    keys do not collide and no dataclass step raises -- returns the faithful rebuild. *)
From Coq Require Import List ZArith Bool Lia Permutation.
From RV Require Import Model.Nested Proofs.NestedSpec Proofs.NestedSubst.
Import ListNotations.
Open Scope list_scope.

Section MapFacts.
Variable A : Type.
Variable leq : A -> A -> bool.
Variable lhash : A -> bool.
Notation val := (val A).
Notation M := (M A).
Notation hashable := (hashable A lhash).
Notation py_eq := (py_eq A leq).
Notation set_put := (set_put A leq).
Notation dict_put := (dict_put A leq).
Notation distinct_from := (distinct_from leq lhash).

(** ** combinators on successful element computations *)
Lemma mapM_ok : forall X Y (g : X -> M Y) (lo : X -> list A) (h : X -> Y) l,
  Forall (fun x => g x = (lo x, Ok (h x))) l ->
  mapM A g l = (flat_map lo l, Ok (map h l)).
Proof.
  induction 1; simpl; auto. rewrite H, IHForall. simpl. now rewrite app_nil_r.
Qed.

Lemma existsb_map' : forall X Y (g : X -> Y) (p : Y -> bool) l,
  existsb p (map g l) = existsb (fun x => p (g x)) l.
Proof. induction l; simpl; congruence. Qed.

Lemma set_build_ok : forall (g : val -> M val) (lo : val -> list A) (h : val -> val) l acc,
  Forall (fun x => g x = (lo x, Ok (h x))) l ->
  distinct_from acc (map h l) = true ->
  set_build A leq lhash g l acc = (flat_map lo l, Ok (acc ++ map h l)).
Proof.
  intros g lo h l. induction l as [|x r IH]; intros acc HF HD; simpl.
  - now rewrite app_nil_r.
  - inversion HF as [|? ? Hx Hr]; subst. simpl in HD.
    apply andb_true_iff in HD as [HD H3]. apply andb_true_iff in HD as [H1 H2].
    rewrite Hx. simpl. rewrite H1. unfold Nested.set_put.
    apply negb_true_iff in H2. rewrite H2. rewrite (IH _ Hr H3). now rewrite <- app_assoc.
Qed.

Lemma dict_put_fresh : forall acc k x,
  existsb (fun y => py_eq y k) (map fst acc) = false -> dict_put acc k x = acc ++ [(k, x)].
Proof.
  induction acc as [|[k0 x0] r IH]; intros k x H; simpl in *; auto.
  apply orb_false_iff in H as [H1 H2]. rewrite H1. now rewrite IH.
Qed.

Lemma dict_build_ok : forall (gk gx : val -> M val) (lk lx : val -> list A) (hk hx : val -> val) l acc,
  Forall (fun kv => gk (fst kv) = (lk (fst kv), Ok (hk (fst kv))) /\
                    gx (snd kv) = (lx (snd kv), Ok (hx (snd kv)))) l ->
  distinct_from (map fst acc) (map (fun kv => hk (fst kv)) l) = true ->
  dict_build A leq lhash gk gx l acc
  = (flat_map (fun kv => lk (fst kv) ++ lx (snd kv)) l,
     Ok (acc ++ map (fun kv => (hk (fst kv), hx (snd kv))) l)).
Proof.
  intros gk gx lk lx hk hx l. induction l as [|[k x] r IH]; intros acc HF HD; simpl.
  - now rewrite app_nil_r.
  - inversion HF as [|? ? [Hk Hx] Hr]; subst. simpl in *.
    apply andb_true_iff in HD as [HD H3]. apply andb_true_iff in HD as [H1 H2].
    rewrite Hk. simpl. rewrite Hx. simpl. rewrite H1.
    apply negb_true_iff in H2. rewrite (dict_put_fresh _ _ _ H2).
    rewrite IH; auto.
    + simpl. rewrite <- !app_assoc. reflexivity.
    + rewrite map_app. exact H3.
Qed.

Lemma fields_build_ok : forall (keep : field -> bool) (g : val -> M val) (after : M unit)
    (lo : val -> list A) (h : val -> val) fs,
  Forall (fun p => g (snd p) = (lo (snd p), Ok (h (snd p)))) fs ->
  after = ret A tt \/ existsb (fun p => keep (fst p)) fs = false ->
  fields_build A keep g after fs
  = (flat_map (fun p => if keep (fst p) then lo (snd p) else []) fs,
     Ok (map (fun p => h (snd p)) (filter (fun p => keep (fst p)) fs))).
Proof.
  intros keep g after lo h fs HF. induction HF as [|[fd x] r Hx Hr IH]; intros HA; simpl; auto.
  simpl in *. destruct (keep fd) eqn:K.
  - destruct HA as [->|HA]; [|discriminate]. rewrite Hx. simpl. rewrite IH; auto. simpl.
    now rewrite app_nil_r.
  - simpl in HA. rewrite IH; auto.
Qed.

Lemma merge_fields_ok : forall (h : val -> val) fs,
  merge_fields A fs (map (fun p => h (snd p)) (filter (fun p => f_init (fst p)) fs))
                 (map (fun p => h (snd p)) (filter (fun p => negb (f_init (fst p))) fs))
  = map (fun p => (fst p, h (snd p))) fs.
Proof.
  induction fs as [|[fd x] r IH]; simpl; auto.
  destruct (f_init fd); simpl; now rewrite IH.
Qed.

Lemma forallb_Forall : forall X (p : X -> bool) l, forallb p l = true -> Forall (fun x => p x = true) l.
Proof. intros. apply Forall_forall. now apply forallb_forall. Qed.

Lemma Forall_and' : forall X (P Q : X -> Prop) l, Forall P l -> Forall Q l -> Forall (fun x => P x /\ Q x) l.
Proof. induction 1; intros HQ; inversion HQ; subst; constructor; auto. Qed.

(** ** Main lemma: no collision, no raising dataclass step => faithful rebuild, and the
    calls to func are [visit_order v]. *)
Lemma map_v_ok : forall s d (f : A -> val) (v : val),
  collision_free leq lhash f v = true -> dc_ok s d v = true ->
  map_v A leq lhash (cfg_of s d) f v = (visit_order v, Ok (subst f v)).
Proof.
  intros s d f. induction v using val_ind'; intros HC HD.
  - reflexivity.
  - simpl in HC, HD. cbn.
    rewrite (mapM_ok _ _ _ visit_order (subst f)); [cbn; now rewrite app_nil_r|].
    apply forallb_Forall in HC, HD.
    pose proof (Forall_and' _ _ _ _ H (Forall_and' _ _ _ _ HC HD)) as HH.
    eapply Forall_weaken; [|exact HH]. intros x (IHx & C & D). auto.
  - simpl in HC, HD. cbn.
    rewrite (mapM_ok _ _ _ visit_order (subst f)); [cbn; now rewrite app_nil_r|].
    apply forallb_Forall in HC, HD.
    pose proof (Forall_and' _ _ _ _ H (Forall_and' _ _ _ _ HC HD)) as HH.
    eapply Forall_weaken; [|exact HH]. intros x (IHx & C & D). auto.
  - simpl in HC, HD. cbn.
    rewrite (mapM_ok _ _ _ visit_order (subst f)); [cbn; now rewrite app_nil_r|].
    apply forallb_Forall in HC, HD.
    pose proof (Forall_and' _ _ _ _ H (Forall_and' _ _ _ _ HC HD)) as HH.
    eapply Forall_weaken; [|exact HH]. intros x (IHx & C & D). auto.
  - simpl in HC, HD. apply andb_true_iff in HC as [HC HN]. cbn.
    rewrite (set_build_ok _ visit_order (subst f)); [cbn; now rewrite app_nil_r| |exact HN].
    apply forallb_Forall in HC, HD.
    pose proof (Forall_and' _ _ _ _ H (Forall_and' _ _ _ _ HC HD)) as HH.
    eapply Forall_weaken; [|exact HH]. intros x (IHx & C & D). auto.
  - simpl in HC, HD. apply andb_true_iff in HC as [HC HN]. cbn.
    rewrite (dict_build_ok _ _ visit_order visit_order (subst f) (subst f)); [cbn; now rewrite app_nil_r| |exact HN].
    apply forallb_Forall in HC, HD.
    pose proof (Forall_and' _ _ _ _ H (Forall_and' _ _ _ _ HC HD)) as HH.
    eapply Forall_weaken; [|exact HH]. intros [k x] ((IHk & IHx) & C & D). simpl in *.
    apply andb_true_iff in C as [C1 C2]. apply andb_true_iff in D as [D1 D2]. auto.
  - simpl in HC, HD. apply andb_true_iff in HD as [HN HD]. cbn.
    assert (HF : Forall (fun p => map_v A leq lhash (cfg_of s d) f (snd p)
                                  = (visit_order (snd p), Ok (subst f (snd p)))) fs).
    { apply forallb_Forall in HC, HD.
      pose proof (Forall_and' _ _ _ _ H (Forall_and' _ _ _ _ HC HD)) as HH.
      eapply Forall_weaken; [|exact HH]. intros [fd x] (IHx & C & D). simpl in *. auto. }
    unfold dc_node_ok in HN. apply andb_true_iff in HN as [HS HG].
    rewrite (fields_build_ok _ _ _ visit_order (subst f) fs HF); [|now left]. cbn.
    rewrite (fields_build_ok _ _ _ visit_order (subst f) fs HF).
    + cbn. assert (HDC : dictcopy_step A (cfg_of s d) c = ret A tt).
      { unfold dictcopy_step. simpl. destruct d; auto. apply negb_true_iff in HG. now rewrite HG. }
      rewrite HDC. cbn. rewrite !app_nil_r.
      rewrite (merge_fields_ok (subst f) fs). f_equal.
      f_equal. apply flat_map_ext_F. apply Forall_forall. intros [fd x] _. simpl. now destruct (f_init fd).
    + unfold setattr_step. simpl. destruct s; auto.
      destruct (dc_frozen c); auto. right. simpl in HS. now apply negb_true_iff in HS.
Qed.

(** ** The calls to func: whenever map_nested_value returns, it has called func on
    exactly [visit_order v] -- regardless of collisions. *)
Definition logs (lo : val -> list A) (g : val -> M val) (x : val) : Prop :=
  forall log w, g x = (log, Ok w) -> log = lo x.

Lemma mapM_log : forall (g : val -> M val) lo l log ys,
  Forall (logs lo g) l -> mapM A g l = (log, Ok ys) -> log = flat_map lo l.
Proof.
  intros g lo l. induction l as [|x r IH]; intros log ys HF HM; simpl in *.
  - now inversion HM.
  - inversion HF as [|? ? Hx Hr]; subst.
    destruct (g x) as [l1 [y|e]] eqn:G; simpl in HM; [|discriminate].
    destruct (mapM A g r) as [l2 [ys'|e]] eqn:G2; simpl in HM; [|discriminate].
    inversion HM; subst. rewrite app_nil_r. f_equal; eauto.
Qed.

Lemma set_build_log : forall (g : val -> M val) lo l acc log ys,
  Forall (logs lo g) l -> set_build A leq lhash g l acc = (log, Ok ys) -> log = flat_map lo l.
Proof.
  intros g lo l. induction l as [|x r IH]; intros acc log ys HF HM; simpl in *.
  - now inversion HM.
  - inversion HF as [|? ? Hx Hr]; subst.
    destruct (g x) as [l1 [y|e]] eqn:G; simpl in HM; [|discriminate].
    destruct (hashable y); simpl in HM; [|discriminate].
    destruct (set_build A leq lhash g r (set_put acc y)) as [l2 [ys'|e]] eqn:G2; [|discriminate].
    inversion HM; subst. f_equal; eauto.
Qed.

Lemma dict_build_log : forall (gk gx : val -> M val) lk lx l acc log ys,
  Forall (fun kv => logs lk gk (fst kv) /\ logs lx gx (snd kv)) l ->
  dict_build A leq lhash gk gx l acc = (log, Ok ys) ->
  log = flat_map (fun kv => lk (fst kv) ++ lx (snd kv)) l.
Proof.
  intros gk gx lk lx l. induction l as [|[k x] r IH]; intros acc log ys HF HM; simpl in *.
  - now inversion HM.
  - inversion HF as [|? ? [Hk Hx] Hr]; subst. simpl in *.
    destruct (gk k) as [l1 [k'|e]] eqn:G; simpl in HM; [|discriminate].
    destruct (gx x) as [l2 [x'|e]] eqn:G2; simpl in HM; [|discriminate].
    destruct (hashable k'); simpl in HM.
    + destruct (dict_build A leq lhash gk gx r (dict_put acc k' x')) as [l3 [ys'|e]] eqn:G3; [|discriminate].
      inversion HM; subst. rewrite <- app_assoc. f_equal; [eauto|]. f_equal; eauto.
    + rewrite app_nil_r in HM. discriminate.
Qed.

Lemma fields_build_log : forall keep (g : val -> M val) (after : M unit) lo fs log ys,
  fst after = [] ->
  Forall (fun p => logs lo g (snd p)) fs ->
  fields_build A keep g after fs = (log, Ok ys) ->
  log = flat_map (fun p => if keep (fst p) then lo (snd p) else []) fs.
Proof.
  intros keep g after lo fs log ys HA HF. revert log ys.
  induction HF as [|[fd x] r Hx Hr IH]; intros log ys HM; simpl in *.
  - now inversion HM.
  - destruct (keep fd); [|eauto].
    destruct (g x) as [l1 [y|e]] eqn:G; simpl in HM; [|discriminate].
    destruct after as [la [[]|e]]; simpl in *; subst la.
    + destruct (fields_build A keep g ([], Ok tt) r) as [l2 [ys'|e]] eqn:G2; simpl in HM; [|discriminate].
      inversion HM; subst. rewrite app_nil_r. f_equal; eauto.
    + rewrite app_nil_r in HM. discriminate.
Qed.

Lemma map_v_log : forall s d (f : A -> val) (v : val) log w,
  map_v A leq lhash (cfg_of s d) f v = (log, Ok w) -> log = visit_order v.
Proof.
  intros s d f. induction v using val_ind'; intros log w HM.
  - cbn in HM. now inversion HM.
  - cbn in HM. destruct (mapM A _ l) as [l1 [ys|e]] eqn:G; simpl in HM; [|discriminate].
    inversion HM; subst. rewrite app_nil_r. eapply (mapM_log _ visit_order); eauto.
  - cbn in HM. destruct (mapM A _ l) as [l1 [ys|e]] eqn:G; simpl in HM; [|discriminate].
    inversion HM; subst. rewrite app_nil_r. eapply (mapM_log _ visit_order); eauto.
  - cbn in HM. destruct (mapM A _ l) as [l1 [ys|e]] eqn:G; simpl in HM; [|discriminate].
    inversion HM; subst. rewrite app_nil_r. eapply (mapM_log _ visit_order); eauto.
  - cbn in HM. destruct (set_build A leq lhash _ l []) as [l1 [ys|e]] eqn:G; simpl in HM; [|discriminate].
    inversion HM; subst. rewrite app_nil_r. eapply (set_build_log _ visit_order); eauto.
  - cbn in HM. destruct (dict_build A leq lhash _ _ kvs []) as [l1 [ys|e]] eqn:G; simpl in HM; [|discriminate].
    inversion HM; subst. rewrite app_nil_r. simpl.
    eapply (dict_build_log _ _ visit_order visit_order); eauto.
  - cbn in HM.
    destruct (fields_build A f_init _ _ fs) as [l1 [ys1|e]] eqn:G1; simpl in HM; [|discriminate].
    destruct (fields_build A (fun fd => negb (f_init fd)) _ _ fs) as [l2 [ys2|e]] eqn:G2; simpl in HM; [|discriminate].
    assert (G3 : dictcopy_step A (cfg_of s d) c = ret A tt \/ exists e, dictcopy_step A (cfg_of s d) c = raise A e).
    { unfold dictcopy_step. simpl. destruct d; [destruct (dc_slots c)|]; eauto. }
    destruct G3 as [G3|[e G3]]; rewrite G3 in HM; cbn in HM; [|discriminate].
    inversion HM; subst.
    rewrite !app_nil_r. simpl. f_equal.
    + eapply (fields_build_log f_init _ _ visit_order) in G1; eauto.
    + eapply (fields_build_log _ _ _ visit_order) in G2; eauto.
      * rewrite G2. apply flat_map_ext_F. apply Forall_forall. intros [fd x] _. simpl. now destruct (f_init fd).
      * unfold setattr_step. simpl. destruct s; [destruct (dc_frozen c)|]; reflexivity.
Qed.

(** ** The repaired dataclass steps never raise *)
Lemma dc_ok_fixed : forall v : val, dc_ok ObjSetAttr Guarded v = true.
Proof.
  induction v using val_ind'; simpl; auto.
  1-4: (apply forallb_forall; intros x Hx; eapply Forall_forall in H; eauto).
  - apply forallb_forall. intros [k x] Hx. eapply Forall_forall in H; eauto. simpl in H.
    destruct H as [-> ->]. reflexivity.
  - apply forallb_forall. intros [k x] Hx. eapply Forall_forall in H; eauto. exact H.
Qed.

(** ** Scheduler.evaluate: two passes *)
Lemma evaluate_ok : forall s d (ev rs : A -> val) (v : val),
  collision_free leq lhash ev v = true -> dc_ok s d v = true ->
  collision_free leq lhash rs (subst ev v) = true -> dc_ok s d (subst ev v) = true ->
  evaluate A leq lhash (cfg_of s d) ev rs v
  = (visit_order v ++ visit_order (subst ev v), Ok (subst (fun a => subst rs (ev a)) v)).
Proof.
  intros. unfold evaluate. rewrite map_v_ok; auto. simpl. rewrite map_v_ok; auto.
  now rewrite subst_subst.
Qed.

End MapFacts.
