(** Basic lemmas about the job machine's state accessors. *)
From Coq Require Import List ZArith Bool Arith Lia Permutation.
From RV Require Import Model.JobMachine.
Import ListNotations.
Open Scope list_scope.

Lemma nth_error_set_nth_same {A} (l : list A) n x y :
  nth_error l n = Some y -> nth_error (set_nth l n x) n = Some x.
Proof.
  revert n. induction l as [|a l IH]; intros [|n]; simpl; try discriminate; auto.
Qed.

Lemma nth_error_set_nth_other {A} (l : list A) n m x :
  n <> m -> nth_error (set_nth l n x) m = nth_error l m.
Proof.
  revert n m. induction l as [|a l IH]; intros [|n] [|m] H; simpl; auto; try congruence.
Qed.

Lemma length_set_nth {A} (l : list A) n x : length (set_nth l n x) = length l.
Proof. revert n. induction l as [|a l IH]; intros [|n]; simpl; auto. Qed.

Lemma getj_setj_same s j x y : getj s j = Some y -> getj (setj s j x) j = Some x.
Proof. unfold getj, setj. simpl. apply nth_error_set_nth_same. Qed.

Lemma getj_setj_other s j k x : j <> k -> getj (setj s j x) k = getj s k.
Proof. unfold getj, setj. simpl. apply nth_error_set_nth_other. Qed.

Lemma getj_lt s j x : getj s j = Some x -> j < length (jobs s).
Proof. unfold getj. intros H. apply nth_error_Some. congruence. Qed.

(** * exec ids of a queue *)
Definition exec_ids (q : list event) : list nat :=
  flat_map (fun e => match e with EvExec j => [j] | _ => [] end) q.

Lemma exec_ids_app q1 q2 : exec_ids (q1 ++ q2) = exec_ids q1 ++ exec_ids q2.
Proof. unfold exec_ids. apply flat_map_app. Qed.

Definition is_exec (e : event) : bool := match e with EvExec _ => true | _ => false end.

Lemma exec_ids_remove_nonexec q i e :
  nth_error q i = Some e -> is_exec e = false -> exec_ids (remove_nth q i) = exec_ids q.
Proof.
  revert i. induction q as [|a q IH]; intros [|i]; simpl; try discriminate.
  - intros [= ->] H. destruct e; simpl in *; try discriminate; reflexivity.
  - intros H1 H2. f_equal. eapply IH; eauto.
Qed.

Lemma exec_ids_remove_exec q i j :
  nth_error q i = Some (EvExec j) -> Permutation (exec_ids q) (j :: exec_ids (remove_nth q i)).
Proof.
  revert i. induction q as [|a q IH]; intros [|i]; simpl; try discriminate.
  - intros [= ->]. simpl. reflexivity.
  - intros H. apply IH in H.
    destruct a; simpl; auto.
    eapply perm_trans; [apply perm_skip; exact H|]. apply perm_swap.
Qed.

(** * demand / consume / release *)
Lemma demand_not_in l r : ~ In r (map fst l) -> demand l r = 0%Z.
Proof.
  unfold demand. induction l as [|[a b] l IH]; simpl; auto.
  intros H. destruct (Nat.eqb_spec a r) as [->|_]; [exfalso; auto|]. apply IH. tauto.
Qed.

Lemma demand_nonneg l r : Forall (fun p => (0 <= snd p)%Z) l -> (0 <= demand l r)%Z.
Proof.
  unfold demand. induction 1 as [|[a b] l H _ IH]; simpl; [lia|].
  destruct (Nat.eqb a r); simpl in *; auto.
Qed.

Lemma consume_spec l : forall u r, NoDup (map fst l) -> consume u l r = (u r + demand l r)%Z.
Proof.
  unfold consume. induction l as [|[a b] l IH]; intros u r Hnd; simpl.
  - unfold demand. simpl. lia.
  - inversion Hnd as [|? ? Hn Hnd']; subst. rewrite IH by assumption.
    unfold demand at 2. simpl. rewrite Nat.eqb_sym.
    destruct (Nat.eqb_spec a r) as [->|Hne]; simpl.
    + rewrite demand_not_in by assumption. lia.
    + fold (demand l r). reflexivity.
Qed.

Lemma release_spec l : forall u r, NoDup (map fst l) -> release u l r = (u r - demand l r)%Z.
Proof.
  unfold release. induction l as [|[a b] l IH]; intros u r Hnd; simpl.
  - unfold demand. simpl. lia.
  - inversion Hnd as [|? ? Hn Hnd']; subst. rewrite IH by assumption.
    unfold demand at 2. simpl. rewrite Nat.eqb_sym.
    destruct (Nat.eqb_spec a r) as [->|Hne]; simpl.
    + rewrite demand_not_in by assumption. lia.
    + fold (demand l r). reflexivity.
Qed.

Lemma within_spec c u l r :
  within c u l = true -> In r (map fst l) -> NoDup (map fst l) ->
  (u r + demand l r <= limit_of c r)%Z.
Proof.
  unfold within. intros H Hin Hnd. rewrite forallb_forall in H.
  induction l as [|[a b] l IH]; simpl in *; [tauto|].
  inversion Hnd as [|? ? Hn Hnd']; subst.
  unfold demand. simpl.
  destruct (Nat.eqb_spec a r) as [->|Hne]; simpl.
  - specialize (H (r, b) (or_introl eq_refl)). simpl in H. lia.
  - destruct Hin as [Heq|Hin]; [congruence|]. apply IH; auto.
Qed.

(** * held *)
Definition contrib (x : job) (r : nat) : Z := if jholds x then demand (jlimits x) r else 0%Z.

Fixpoint held_list (l : list job) (r : nat) : Z :=
  match l with [] => 0%Z | x :: t => (contrib x r + held_list t r)%Z end.

Lemma held_eq s r : held s r = held_list (jobs s) r.
Proof. unfold held. induction (jobs s) as [|x t IH]; simpl; auto. unfold contrib. now rewrite IH. Qed.

Lemma held_list_set_nth l : forall n x y r, nth_error l n = Some x ->
  held_list (set_nth l n y) r = (held_list l r - contrib x r + contrib y r)%Z.
Proof.
  induction l as [|a l IH]; intros [|n] x y r; simpl; try discriminate.
  - intros [= ->]. lia.
  - intros H. rewrite (IH n x y r H). lia.
Qed.

Lemma held_list_app l1 l2 r : held_list (l1 ++ l2) r = (held_list l1 r + held_list l2 r)%Z.
Proof. induction l1 as [|a l IH]; simpl; [lia|]. rewrite IH. lia. Qed.
