(** C20 — what the final tables say about the run: every Job row, Execution row and Tag row comes from the
    job / the finishing event it is meant for (history invariant over the event list), plus witnesses. *)
From Coq Require Import List Arith Bool Ascii Lia.
From RV Require Import Base.Decimal Model.Bencode Model.CallGraph Proofs.CallGraphHash Proofs.CallGraphInv
     Proofs.CallGraphJobs.
Import ListNotations.
Open Scope list_scope.

Section Hist.
  Variable H : bytes -> hash.
  Variable C : cfg.
  Notation step := (step H C).
  Notation run := (run H C).

  Definition job_of (evs : list ev) (row : jobrow) : Prop :=
    exists i, In (EStart i) evs /\ ji_prov i = true /\ jr_id row = ji_id i /\ jr_parent row = ji_parent i /\
              jr_exec row = ji_exec i /\ jr_task row = ji_task i.
  Definition exec_of (evs : list ev) (p : nat * nat) : Prop :=
    exists i, In (EStart i) evs /\ ji_prov i = true /\ ji_id i = snd p /\ ji_exec i = fst p /\ ji_parent i = None.
  Definition tag_of (evs : list ev) (x : tagrow) : Prop :=
    exists i ok cached a r ch vt jt et,
      In (EStart i) evs /\ In (EFinish (ji_id i) ok cached a r ch vt jt et) evs /\ ji_prov i = true /\
      In x (tag_sources i vt jt et).

  Record hist_ok (evs : list ev) (s : st) : Prop := {
    h_infos : forall i, In i (infos s) -> In (EStart i) evs;
    h_jobs : forall row, In row (jobs s) -> job_of evs row;
    h_execs : forall p, In p (execs s) -> exec_of evs p;
    h_tags : forall x, In x (tags s) -> tag_of evs x
  }.

  Lemma job_of_mono evs e row : job_of evs row -> job_of (evs ++ [e]) row.
  Proof. intros (i & A & B). exists i. split; auto. apply in_or_app. now left. Qed.
  Lemma exec_of_mono evs e p : exec_of evs p -> exec_of (evs ++ [e]) p.
  Proof. intros (i & A & B). exists i. split; auto. apply in_or_app. now left. Qed.
  Lemma tag_of_mono evs e x : tag_of evs x -> tag_of (evs ++ [e]) x.
  Proof.
    intros (i & ok & cached & a & r & ch & vt & jt & et & A & B & D).
    exists i, ok, cached, a, r, ch, vt, jt, et. repeat split; try tauto; apply in_or_app; now left.
  Qed.

  Lemma job_start_execs i s p :
    In p (execs (job_start i s)) -> In p (execs s) \/ (p = (ji_exec i, ji_id i) /\ ji_parent i = None).
  Proof.
    unfold job_start. destruct (has_job _ _); simpl; auto. destruct (ji_parent i); auto.
    rewrite in_app_iff. simpl. intros [A|[<-|[]]]; auto.
  Qed.

  Lemma job_start_hist evs i s :
    In (EStart i) evs -> ji_prov i = true ->
    (forall row, In row (jobs s) -> job_of evs row) -> (forall p, In p (execs s) -> exec_of evs p) ->
    (forall row, In row (jobs (job_start i s)) -> job_of evs row) /\
    (forall p, In p (execs (job_start i s)) -> exec_of evs p).
  Proof.
    intros Hs P Hj He. split.
    - intros row Hin. apply job_start_rows in Hin. destruct Hin as [A|(_ & A)]; auto. exists i. tauto.
    - intros p Hin. apply job_start_execs in Hin. destruct Hin as [A|[-> A]]; auto. exists i. simpl. tauto.
  Qed.

  Lemma job_end_hist evs i h c s :
    In (EStart i) evs -> ji_prov i = true ->
    (forall row, In row (jobs s) -> job_of evs row) -> (forall p, In p (execs s) -> exec_of evs p) ->
    (forall row, In row (jobs (job_end i h c s)) -> job_of evs row) /\
    (forall p, In p (execs (job_end i h c s)) -> exec_of evs p) /\
    tags (job_end i h c s) = tags s /\ infos (job_end i h c s) = infos s.
  Proof.
    intros Hs P Hj He. destruct (job_start_hist evs i s Hs P Hj He) as [J E].
    destruct (job_start_rt i s) as (_ & B & _ & _ & F & _).
    unfold job_end. destruct (match h with Some x => recorded (job_start i s) x | None => true end); simpl; auto.
    repeat split; auto. intros row Hin. apply end_row_In in Hin. destruct Hin as [A|(_ & r0 & A & B1 & B2 & B3 & B4)]; auto.
    destruct (J r0 A) as (i0 & X). exists i0. rewrite B1, B2, B3, B4. exact X.
  Qed.

  Lemma finish_hist evs i ok cached a r ch vt jt et s :
    In (EStart i) (evs ++ [EFinish (ji_id i) ok cached a r ch vt jt et]) ->
    hist_ok evs s ->
    hist_ok (evs ++ [EFinish (ji_id i) ok cached a r ch vt jt et]) (finish H C i ok cached a r ch vt jt et s).
  Proof.
    intros Hs [HI HJ HE HT]. set (e := EFinish (ji_id i) ok cached a r ch vt jt et) in *.
    assert (HJ' : forall row, In row (jobs s) -> job_of (evs ++ [e]) row) by (intros; apply job_of_mono; auto).
    assert (HE' : forall p, In p (execs s) -> exec_of (evs ++ [e]) p) by (intros; apply exec_of_mono; auto).
    assert (HT' : forall x, In x (tags s) -> tag_of (evs ++ [e]) x) by (intros; apply tag_of_mono; auto).
    assert (HI' : forall i0, In i0 (infos s) -> In (EStart i0) (evs ++ [e])) by (intros; apply in_or_app; left; auto).
    unfold finish. set (cs := child_hashes (jh s) ch). set (known := lookup_jh (ji_id i) (jh s)).
    destruct (ji_prov i) eqn:P.
    - set (keep := match known with Some _ => if ok then true else reject_adopts C | None => false end).
      set (pr := match known, keep with Some h, true => (h, s) | _, _ => record_node H C (ji_task i) a r cs s end).
      assert (D : infos (snd pr) = infos s /\ jobs (snd pr) = jobs s /\ tags (snd pr) = tags s /\ execs (snd pr) = execs s).
      { subst pr. destruct (record_node_rt H C (ji_task i) a r cs s) as (A1 & A2 & A3 & A4 & A5 & A6 & A7).
        destruct known; [destruct keep|]; simpl; auto. }
      destruct pr as [h s1]. simpl in D. destruct D as (D1 & D2 & D3 & D4).
      destruct (record_job_tags (tags_dedupe C) i vt jt et (tags (with_jh s1 (set_jh (ji_id i) h (jh s1))))) as [tb d] eqn:ET.
      assert (Htb : forall x, In x tb -> tag_of (evs ++ [e]) x).
      { intros x Hin. destruct (record_job_tags_sound _ _ _ _ _ _ _ _ _ ET Hin) as [A|A].
        - simpl in A. rewrite D3 in A. auto.
        - exists i, ok, cached, a, r, ch, vt, jt, et. repeat split; auto. apply in_or_app. right. now left. }
      destruct d.
      + constructor; simpl; rewrite ?D1, ?D2, ?D4; auto.
      + set (s3 := with_tags (with_jh s1 (set_jh (ji_id i) h (jh s1))) tb false).
        destruct (job_end_hist (evs ++ [e]) i (Some h) cached s3 Hs P) as (J & E & T & I).
        * simpl. rewrite D2. auto.
        * simpl. rewrite D4. auto.
        * constructor; auto.
          -- rewrite I. simpl. rewrite D1. auto.
          -- rewrite T. simpl. auto.
    - destruct ok; constructor; simpl; auto.
  Qed.

  Lemma step_hist evs e s : hist_ok evs s -> hist_ok (evs ++ [e]) (step s e).
  Proof.
    intros HH. assert (M : hist_ok (evs ++ [e]) s).
    { destruct HH as [HI HJ HE HT]. constructor; intros.
      - apply in_or_app. left. auto.
      - apply job_of_mono; auto.
      - apply exec_of_mono; auto.
      - apply tag_of_mono; auto. }
    unfold CallGraph.step. destruct (dead s && negb (is_newrun e)); [exact M|].
    destruct e as [i|j nocse|j ad|j ok cached a r ch vt jt et|].
    - destruct (lookup_info _ _); [exact M|]. destruct M as [HI HJ HE HT].
      assert (Hs : In (EStart i) (evs ++ [EStart i])) by (apply in_or_app; right; now left).
      destruct (ji_prov i) eqn:P.
      + match goal with |- hist_ok _ (job_start i ?x) => set (s1 := x) end.
        destruct (job_start_hist (evs ++ [EStart i]) i s1 Hs P HJ HE) as [J E].
        destruct (job_start_rt i s1) as (_ & B & _ & _ & F & _).
        constructor; auto.
        * rewrite B. simpl. intros i0 [<-|Hin]; auto.
        * rewrite F. simpl. auto.
      + constructor; simpl; auto. intros i0 [<-|Hin]; auto.
    - destruct (lookup_info _ _); [|exact M]. destruct (reg_guard C && _); [exact M|].
      destruct M as [HI HJ HE HT]. constructor; simpl; auto.
    - destruct (lookup_info _ _); [|exact M]. destruct (adopt_hash _ _); [|exact M].
      destruct M as [HI HJ HE HT]. constructor; simpl; auto.
    - destruct (lookup_info j (infos s)) as [i|] eqn:L; [|exact M].
      destruct (lookup_info_id _ _ _ L) as [<- Hin]. apply finish_hist; auto.
      apply in_or_app. left. apply (h_infos _ _ HH). exact Hin.
    - destruct M as [HI HJ HE HT]. constructor; simpl; auto. intros i [].
  Qed.

  Lemma run_app s evs e : run s (evs ++ [e]) = step (run s evs) e.
  Proof. unfold CallGraph.run. now rewrite fold_left_app. Qed.

  Theorem run_hist evs : hist_ok evs (run init evs).
  Proof.
    induction evs as [|e evs IH] using rev_ind.
    - constructor; simpl; intros; contradiction.
    - rewrite run_app. now apply step_hist.
  Qed.
End Hist.

(** Completeness of the tags of one finishing provenance job that did not die. *)
Theorem finish_tags_complete H C i ok cached a r ch vt jt et s :
  ji_prov i = true -> dead (finish H C i ok cached a r ch vt jt et s) = false -> dead s = false ->
  forall x, In x (tags s) \/ In x (tag_sources i vt jt et) -> In x (tags (finish H C i ok cached a r ch vt jt et s)).
Proof.
  intros P Hd Hs x Hx. unfold finish in *. rewrite P in *.
  set (cs := child_hashes (jh s) ch) in *. set (known := lookup_jh (ji_id i) (jh s)) in *.
  set (keep := match known with Some _ => if ok then true else reject_adopts C | None => false end) in *.
  set (pr := match known, keep with Some h, true => (h, s) | _, _ => record_node H C (ji_task i) a r cs s end) in *.
  assert (D : tags (snd pr) = tags s).
  { subst pr. destruct (record_node_rt H C (ji_task i) a r cs s) as (A1 & A2 & A3 & A4 & A5 & A6 & A7).
    destruct known; [destruct keep|]; simpl; auto. }
  destruct pr as [h s1]. simpl in D.
  destruct (record_job_tags (tags_dedupe C) i vt jt et (tags (with_jh s1 (set_jh (ji_id i) h (jh s1))))) as [tb d] eqn:ET.
  destruct d.
  - simpl in Hd. rewrite orb_true_r in Hd. discriminate.
  - assert (In x tb).
    { eapply record_job_tags_complete; [exact ET|]. simpl. rewrite D. exact Hx. }
    set (s3 := with_tags (with_jh s1 (set_jh (ji_id i) h (jh s1))) tb false) in *.
    unfold job_end. destruct (job_start_rt i s3) as (_ & _ & _ & _ & F & _).
    destruct (recorded (job_start i s3) h); simpl; rewrite F; simpl; auto.
Qed.
