(** Invariance of the repaired key: keyword order, config argument values, JobInfo
    placeholders, a defaulted parameter passed by keyword with its default. *)
From Coq Require Import List ZArith Ascii Bool Arith Permutation Lia.
From RV Require Import Base.Decimal Model.Bencode Base.HashSpec Proofs.BencodeFacts Proofs.BencodeSort
     Model.EvalKey Proofs.EvalKeyBase Proofs.EvalKeyDict Proofs.EvalKeyFixed.
Import ListNotations.
Open Scope list_scope.

(** * The relations the property talks about (Python's binding decides the parameter) *)
(** parameter that the i-th positional argument binds to *)
Definition pos_param (sg : sigt) (i : nat) : option bytes :=
  match nth_error (pos_names sg) i with Some p => Some p | None => s_var sg end.

(** two argument values in the same place that the key may not tell apart: equal, both JobInfo
    placeholders, or bound to a declared config parameter *)
Definition arg_sim (conf : list bytes) (param : option bytes) (a a' : aval) : Prop :=
  a = a' \/ (is_info a = true /\ is_info a' = true) \/ opt_mem param conf = true.

Definition calls_sim (sg : sigt) (conf : list bytes) (c c' : call) : Prop :=
  length (c_args c) = length (c_args c') /\
  (forall i a a', nth_error (c_args c) i = Some a -> nth_error (c_args c') i = Some a' ->
                  arg_sim conf (pos_param sg i) a a') /\
  Forall2 (fun ka ka' : bytes * aval =>
             fst ka = fst ka' /\ arg_sim conf (bound_kw_param sg (fst ka)) (snd ka) (snd ka'))
          (c_kwargs c) (c_kwargs c').

(** * Positional side *)
Lemma emit_sim blank a a' : a = a' \/ (is_info a = true /\ is_info a' = true) ->
  emit IBlank blank a = emit IBlank blank a'.
Proof. intros [->|[I I']]; [reflexivity|]. destruct a, a'; try discriminate. reflexivity. Qed.

Lemma flat_map_emit_sim blank : forall l l', length l = length l' ->
  (forall i a a', nth_error l i = Some a -> nth_error l' i = Some a' ->
                  a = a' \/ (is_info a = true /\ is_info a' = true)) ->
  flat_map (emit IBlank blank) l = flat_map (emit IBlank blank) l'.
Proof.
  induction l as [|a l IH]; destruct l' as [|a' l']; simpl; try discriminate; auto.
  intros [= L] S. rewrite (emit_sim blank a a' (S 0 a a' eq_refl eq_refl)). f_equal.
  apply IH; auto. intros i x x' Hx Hx'. exact (S (Datatypes.S i) x x' Hx Hx').
Qed.

Lemma args2_sim blank conf vp : forall ps args args', length args = length args' ->
  (forall i a a', nth_error args i = Some a -> nth_error args' i = Some a' ->
     arg_sim conf (match nth_error ps i with Some p => Some p | None => vp end) a a') ->
  zip_args IBlank blank conf ps args ++
    (if opt_mem vp conf then [] else flat_map (emit IBlank blank) (skipn (length ps) args)) =
  zip_args IBlank blank conf ps args' ++
    (if opt_mem vp conf then [] else flat_map (emit IBlank blank) (skipn (length ps) args')).
Proof.
  induction ps as [|p ps IH]; intros args args' L S.
  - simpl. destruct (opt_mem vp conf) eqn:V; [now destruct args, args'|].
    destruct args, args'; try discriminate; auto. simpl skipn.
    apply flat_map_emit_sim; auto. intros i x x' Hx Hx'.
    destruct (S i x x' Hx Hx') as [E|[E|E]]; auto.
    destruct i; simpl in E; congruence.
  - destruct args as [|a args], args' as [|a' args']; try discriminate; [reflexivity|].
    injection L as L. cbn [zip_args length skipn]. rewrite <- !app_assoc.
    rewrite (IH args args' L (fun i x x' Hx Hx' => S (Datatypes.S i) x x' Hx Hx')). f_equal.
    destruct (mem p conf) eqn:C; [reflexivity|].
    destruct (S 0 a a' eq_refl eq_refl) as [E|[E|E]]; [apply emit_sim; auto..|].
    simpl in E. congruence.
Qed.

(** * Keyword side *)
Lemma Forall2_keys sg conf kw kw' :
  Forall2 (fun ka ka' : bytes * aval =>
             fst ka = fst ka' /\ arg_sim conf (bound_kw_param sg (fst ka)) (snd ka) (snd ka')) kw kw' ->
  map fst kw = map fst kw'.
Proof. induction 1; simpl; auto. destruct H as [-> _]. now f_equal. Qed.

Lemma Forall2_assoc sg conf kw kw' k :
  Forall2 (fun ka ka' : bytes * aval =>
             fst ka = fst ka' /\ arg_sim conf (bound_kw_param sg (fst ka)) (snd ka) (snd ka')) kw kw' ->
  match assoc k kw, assoc k kw' with
  | None, None => True
  | Some a, Some a' => arg_sim conf (bound_kw_param sg k) a a'
  | _, _ => False
  end.
Proof.
  induction 1 as [|[k1 a1] [k2 a2] kw kw' [E S] F IH]; simpl; auto.
  simpl in E, S. subst k2. destruct (bytes_eqb_spec k k1) as [->|Ne]; auto.
Qed.

Lemma fixed_struct_ext blank sg conf c c' :
  NoDup (all_names sg) -> NoDup (map fst (c_kwargs c)) -> NoDup (map fst (c_kwargs c')) ->
  args2 fixed blank sg conf (c_args c) = args2 fixed blank sg conf (c_args c') ->
  (forall k, dict_spec sg conf c k = dict_spec sg conf c' k) ->
  call_args_struct fixed blank sg conf c = call_args_struct fixed blank sg conf c'.
Proof.
  intros N Nk Nk' EL ED. unfold call_args_struct. rewrite EL. apply args_struct_ext.
  - now apply kwargs2_NoDup, merged_fixed_NoDup.
  - now apply kwargs2_NoDup, merged_fixed_NoDup.
  - intros k. now rewrite !dict_fixed_lookup.
Qed.

Theorem fixed_invariant_sim blank sg conf c c' :
  NoDup (all_names sg) -> NoDup (map fst (c_kwargs c)) -> calls_sim sg conf c c' ->
  call_args_struct fixed blank sg conf c = call_args_struct fixed blank sg conf c'.
Proof.
  intros N Nk [L [S F]].
  assert (K := Forall2_keys _ _ _ _ F).
  apply fixed_struct_ext; auto.
  - now rewrite <- K.
  - unfold args2. cbn [pair_names args_pairing zip_info extras_info fixed].
    apply args2_sim; auto.
  - intros k. unfold dict_spec, kw_lookup. rewrite <- L.
    destruct (opt_mem (bound_kw_param sg k) conf) eqn:C; [reflexivity|].
    assert (A := Forall2_assoc _ _ _ _ k F).
    destruct (assoc k (c_kwargs c)) as [a|], (assoc k (c_kwargs c')) as [a'|]; try contradiction; auto.
    destruct A as [->|[[I I']|E]]; [reflexivity| |congruence].
    destruct a, a'; try discriminate. reflexivity.
Qed.

Theorem fixed_invariant_kworder blank sg conf c kw' :
  NoDup (all_names sg) -> NoDup (map fst (c_kwargs c)) -> Permutation (c_kwargs c) kw' ->
  call_args_struct fixed blank sg conf c =
  call_args_struct fixed blank sg conf {| c_args := c_args c; c_kwargs := kw' |}.
Proof.
  intros N Nk P. apply fixed_struct_ext; auto.
  - simpl. eapply Permutation_NoDup; [apply Permutation_map, P|auto].
  - intros k. unfold dict_spec, kw_lookup. simpl. now rewrite (assoc_perm k _ _ Nk P).
Qed.

Theorem fixed_invariant_default blank sg conf c nm d :
  NoDup (all_names sg) -> NoDup (map fst (c_kwargs c)) ->
  assoc nm (named_params sg) = Some (Some d) ->
  pos_bound sg (length (c_args c)) nm = false ->
  ~ In nm (map fst (c_kwargs c)) ->
  call_args_struct fixed blank sg conf c =
  call_args_struct fixed blank sg conf {| c_args := c_args c; c_kwargs := c_kwargs c ++ [(nm, d)] |}.
Proof.
  intros N Nk Hd Hp Hn. apply fixed_struct_ext; auto.
  - simpl. rewrite map_app. apply NoDup_app_mk; auto.
    + simpl. constructor; [tauto|constructor].
    + simpl. intros x Hx [<-|[]]. contradiction.
  - intros k. unfold dict_spec, kw_lookup. simpl. rewrite assoc_app. simpl.
    destruct (assoc k (c_kwargs c)) eqn:A; [reflexivity|].
    destruct (bytes_eqb_spec k nm) as [->|Ne]; [|reflexivity].
    rewrite Hp. unfold default_of. now rewrite Hd.
Qed.

(** from equal structures to equal hashes, for any hash function *)
Lemma struct_eq_hash_eq (H : bytes -> bytes) cfg blank sg conf th c c' :
  call_args_struct cfg blank sg conf c = call_args_struct cfg blank sg conf c' ->
  call_eval_hash H cfg blank sg conf th c = call_eval_hash H cfg blank sg conf th c' /\
  call_args_hash H cfg blank sg conf c = call_args_hash H cfg blank sg conf c'.
Proof.
  intros E. unfold call_eval_hash, call_args_hash, call_args_pre. now rewrite E.
Qed.
