(** With entries that live as long as the parent job, the parent gets exactly one child job per distinct
    demanded expression — whenever the jobs conclude and in whatever order the demands arrive. *)
From Coq Require Import List Arith Bool Lia.
From RV Require Import Model.PendingExpr.
Import ListNotations.

Lemma memb_In e l : memb e l = true <-> In e l.
Proof.
  unfold memb. rewrite existsb_exists. split.
  - intros (x & H & E). apply Nat.eqb_eq in E. now subst.
  - intro H. exists e. split; auto. apply Nat.eqb_refl.
Qed.

Lemma NoDup_snoc (l : list nat) e : NoDup l -> ~ In e l -> NoDup (l ++ [e]).
Proof.
  induction 1 as [|x l Hx ND IH]; intro N; simpl.
  - constructor; auto. constructor.
  - constructor.
    + rewrite in_app_iff. simpl. intros [H|[H|[]]]; [contradiction|]. apply N. left. congruence.
    + apply IH. intro H. apply N. now right.
Qed.

(** invariant of the until-finalized variant: the table holds exactly the created jobs, each once *)
Definition pinv (st : pstate) : Prop :=
  NoDup (created st) /\ forall e, In e (table st) <-> In e (created st).

Lemma prun_finalized evs : forall st,
    pinv st ->
    pinv (fst (prun true st evs)) /\
    forall e, In e (created (fst (prun true st evs))) <-> In e (created st) \/ In e (demands evs).
Proof.
  induction evs as [|ev evs IH]; intros st I; simpl.
  - split; auto. intro e. tauto.
  - destruct ev as [d|d]; simpl.
    + destruct (memb d (table st)) eqn:M.
      * destruct (IH st I) as [I2 E2]. destruct (prun true st evs) as [s2 t2]. simpl in *. split; auto.
        intro e. rewrite E2. apply memb_In in M. apply I in M. intuition (subst; auto).
      * assert (N : ~ In d (created st)).
        { intro H. apply I in H. apply memb_In in H. congruence. }
        set (st1 := {| table := d :: table st; created := created st ++ [d] |}).
        assert (I1 : pinv st1).
        { destruct I as [ND EQ]. split; simpl.
          - now apply NoDup_snoc.
          - intro x. rewrite in_app_iff. simpl. rewrite EQ. tauto. }
        destruct (IH st1 I1) as [I2 E2]. destruct (prun true st1 evs) as [s2 t2]. simpl in *. split; auto.
        intro e. rewrite E2, in_app_iff. simpl. tauto.
    + destruct (IH st I) as [I2 E2]. destruct (prun true st evs) as [s2 t2]. simpl in *. split; auto.
  Qed.

Lemma pinv_init : pinv pinit.
Proof. split; simpl; [constructor | tauto]. Qed.

Theorem finalized_one_job_per_expression evs e :
  count_occ Nat.eq_dec (child_jobs true evs) e = if memb e (demands evs) then 1 else 0.
Proof.
  unfold child_jobs. destruct (prun_finalized evs pinit pinv_init) as [[ND _] E].
  destruct (memb e (demands evs)) eqn:M.
  - apply memb_In in M. assert (In e (created (fst (prun true pinit evs)))) by (apply E; now right).
    rewrite (NoDup_count_occ Nat.eq_dec) in ND. specialize (ND e).
    apply (count_occ_In Nat.eq_dec) in H. lia.
  - apply count_occ_not_In. intro H. apply E in H. destruct H as [[]|H]. apply memb_In in H. congruence.
Qed.

(** hence the multiset of child jobs does not depend on when jobs conclude, nor on the order of demands *)
Theorem finalized_children_schedule_independent evs1 evs2 :
  (forall e, In e (demands evs1) <-> In e (demands evs2)) ->
  forall e, count_occ Nat.eq_dec (child_jobs true evs1) e = count_occ Nat.eq_dec (child_jobs true evs2) e.
Proof.
  intros H e. rewrite !finalized_one_job_per_expression.
  destruct (memb e (demands evs1)) eqn:M1, (memb e (demands evs2)) eqn:M2; auto.
  - apply memb_In in M1. apply H in M1. apply memb_In in M1. congruence.
  - apply memb_In in M2. apply H in M2. apply memb_In in M2. congruence.
Qed.

(** Entries released when their job concludes (seeded change C07d):  x = expensive(n); [x, cond(check(n), x, 0)].
    Expression 7 = expensive(n) is demanded eagerly and again when check(n) (8) has resolved. *)
Definition PE_check_first : list pev := [Demand 7; Demand 8; Conclude 8; Demand 7; Conclude 7].
Definition PE_expensive_first : list pev := [Demand 7; Demand 8; Conclude 7; Conclude 8; Demand 7].

Lemma released_early_refuted :
  demands PE_check_first = demands PE_expensive_first /\
  child_jobs false PE_check_first = [7; 8] /\ child_jobs false PE_expensive_first = [7; 8; 7] /\
  child_jobs true PE_check_first = [7; 8] /\ child_jobs true PE_expensive_first = [7; 8].
Proof. repeat split; vm_compute; reflexivity. Qed.
