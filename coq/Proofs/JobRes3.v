From Coq Require Import List ZArith Bool Arith Lia Permutation.
From RV Require Import Model.JobMachine Proofs.JobBase Proofs.JobRes Proofs.JobRes2.
Import ListNotations.
Open Scope list_scope.

Ltac inv_con :=
  constructor; [intros k Hk | | intros k z Hk Hz | intros k z Hk Hz | intros k z Hz Hc
               | intros r | intros r | intros k z Hz | intros k z Hz].

Section Fixed.
Variable c : config.
Hypothesis Hfix : release_if_holds (vr c) = true.
Hypothesis Hlim : forall r, (0 <= limit_of c r)%Z.

(** Popping a non-exec event keeps the invariant. *)
Lemma inv_pop_nonexec s i e :
  nth_error (queue s) i = Some e -> is_exec e = false -> Inv c s -> Inv c (pop_queue s i).
Proof.
  intros H He. apply inv_frame. repeat split; simpl; auto. eapply exec_ids_remove_nonexec; eauto.
Qed.

(** Facts about a job whose Exec event has just been popped. *)
Record Free (s : state) (j : nat) (x : job) : Prop := {
  f_get : getj s j = Some x;
  f_np : ~ In j (pend s);
  f_ns : ~ In j (map snd (subs s));
  f_c : jcached x = false; f_h : jholds x = false; f_r : jreleases x = 0; f_s : jsubmits x = 0
}.

Lemma inv_pop_exec s i j :
  nth_error (queue s) i = Some (EvExec j) -> Inv c s ->
  Inv c (pop_queue s i) /\ forall x, getj s j = Some x -> Free (pop_queue s i) j x.
Proof.
  intros H I. pose proof (exec_ids_remove_exec _ _ _ H) as Hp.
  assert (Hp2 : Permutation (pend s) (j :: pend (pop_queue s i))).
  { unfold pend. simpl. change (j :: exec_ids (remove_nth (queue s) i) ++ waiting s)
      with ((j :: exec_ids (remove_nth (queue s) i)) ++ waiting s). now apply Permutation_app_tail. }
  assert (Hnd : NoDup (j :: pend (pop_queue s i))).
  { eapply Permutation_NoDup; [exact Hp2|]. apply (i_nodup _ _ I). }
  assert (Hsub : forall k, In k (pend (pop_queue s i)) -> In k (pend s)).
  { intros k Hk. eapply Permutation_in; [apply Permutation_sym; exact Hp2|]. now right. }
  assert (Hj : In j (pend s)).
  { eapply Permutation_in; [apply Permutation_sym; exact Hp2|]. now left. }
  split.
  - destruct I as [i_bound0 i_nodup0 i_pend0 i_subs0 i_cached0 i_used0 i_le0 i_wf0 i_rel0].
    inv_con.
    + apply i_bound0. destruct Hk; auto.
    + now inversion Hnd.
    + change (getj (pop_queue s i) k) with (getj s k) in Hz.
      change (subs (pop_queue s i)) with (subs s). eauto.
    + change (getj (pop_queue s i) k) with (getj s k) in Hz. eauto.
    + change (getj (pop_queue s i) k) with (getj s k) in Hz. eauto.
    + apply i_used0.
    + apply i_le0.
    + change (getj (pop_queue s i) k) with (getj s k) in Hz. eauto.
    + change (getj (pop_queue s i) k) with (getj s k) in Hz. eauto.
  - intros x Hx. destruct (i_pend _ _ I j x Hj Hx) as (A & B & C & D & E).
    constructor; auto. now inversion Hnd.
Qed.

(** Updating the freed job arbitrarily in its phase, keeping the core. *)
Lemma inv_free_setj s j x y : Free s j x -> same_core x y -> Inv c s -> Inv c (setj s j y).
Proof. intros F. apply inv_setj_core. apply (f_get _ _ _ F). Qed.

Lemma inv_free_cached s j x v p : Free s j x -> Inv c s -> Inv c (setj s j (mark_cached x v p)).
Proof.
  intros F I. destruct F.
  assert (Hg : forall k z, getj (setj s j (mark_cached x v p)) k = Some z ->
                 (k = j /\ z = mark_cached x v p) \/ (k <> j /\ getj s k = Some z)).
  { intros k z H. destruct (Nat.eq_dec j k) as [->|Hne].
    - rewrite (getj_setj_same _ _ _ _ f_get0) in H. injection H as <-. auto.
    - rewrite getj_setj_other in H by assumption. auto. }
  assert (Hheld : forall r, held (setj s j (mark_cached x v p)) r = held s r).
  { intros r. rewrite !held_eq. simpl. unfold getj in f_get0.
    rewrite (held_list_set_nth _ _ _ (mark_cached x v p) r f_get0). unfold contrib. simpl. lia. }
  set (S' := setj s j (mark_cached x v p)).
  assert (E1 : pend S' = pend s) by reflexivity.
  assert (E2 : map snd (subs S') = map snd (subs s)) by reflexivity.
  assert (E5 : used S' = used s) by reflexivity.
  assert (E6 : length (jobs S') = length (jobs s)) by (simpl; apply length_set_nth).
  destruct I as [i_bound0 i_nodup0 i_pend0 i_subs0 i_cached0 i_used0 i_le0 i_wf0 i_rel0].
  inv_con; rewrite ?E1, ?E2, ?E5, ?E6 in *.
  - auto.
  - auto.
  - destruct (Hg _ _ Hz) as [[-> ->]|[Hne Hz']]; [contradiction|]. eauto.
  - destruct (Hg _ _ Hz) as [[-> ->]|[Hne Hz']]; [exact f_h0|]. eauto.
  - destruct (Hg _ _ Hz) as [[-> ->]|[Hne Hz']]; [exact f_h0|]. eauto.
  - rewrite Hheld. auto.
  - rewrite Hheld. auto.
  - destruct (Hg _ _ Hz) as [[-> ->]|[Hne Hz']]; [simpl; eauto|]. eauto.
  - destruct (Hg _ _ Hz) as [[-> ->]|[Hne Hz']]; [simpl; eauto|]. eauto.
Qed.

Lemma inv_free_wait s j x :
  Free s j x -> Inv c s -> Inv c (set_waiting (setj s j (with_phase x PWaiting)) (waiting s ++ [j])).
Proof.
  intros F I. pose proof (inv_free_setj s j x (with_phase x PWaiting) F (same_core_phase _ _) I) as I1.
  destruct F.
  set (S1 := setj s j (with_phase x PWaiting)) in *.
  set (S' := set_waiting S1 (waiting s ++ [j])).
  assert (Hperm : Permutation (pend S') (j :: pend S1)).
  { unfold pend. simpl. rewrite app_assoc. apply Permutation_sym. apply Permutation_cons_append. }
  assert (Hget : getj S1 j = Some (with_phase x PWaiting)) by (apply (getj_setj_same _ _ _ _ f_get0)).
  destruct I1 as [i_bound0 i_nodup0 i_pend0 i_subs0 i_cached0 i_used0 i_le0 i_wf0 i_rel0].
  inv_con.
  - change (length (jobs S')) with (length (jobs S1)). destruct Hk as [H|H]; [|apply i_bound0; now right].
    apply (Permutation_in _ Hperm) in H. destruct H as [<-|H]; [|apply i_bound0; now left].
    eapply getj_lt; eauto.
  - eapply Permutation_NoDup; [apply Permutation_sym; exact Hperm|]. constructor; auto.
  - change (getj S' k) with (getj S1 k) in Hz. change (subs S') with (subs S1).
    apply (Permutation_in _ Hperm) in Hk. destruct Hk as [<-|H]; [|eauto].
    rewrite Hget in Hz. injection Hz as <-. simpl. repeat split; auto.
  - eapply i_subs0; eauto.
  - eapply i_cached0; eauto.
  - apply i_used0.
  - apply i_le0.
  - eapply i_wf0; eauto.
  - eapply i_rel0; eauto.
Qed.

Lemma inv_free_sub s j x t :
  Free s j x -> Inv c s -> Inv c (add_sub (setj s j (with_phase x (PCollapsed t))) t j).
Proof.
  intros F I. pose proof (inv_free_setj s j x (with_phase x (PCollapsed t)) F (same_core_phase _ _) I) as I1.
  destruct F.
  set (S1 := setj s j (with_phase x (PCollapsed t))) in *.
  assert (Hget : getj S1 j = Some (with_phase x (PCollapsed t))) by (apply (getj_setj_same _ _ _ _ f_get0)).
  assert (Hs : forall k, In k (map snd (subs (add_sub S1 t j))) <-> In k (map snd (subs S1)) \/ k = j).
  { intros k. simpl. rewrite map_app, in_app_iff. simpl. intuition. }
  destruct I1 as [i_bound0 i_nodup0 i_pend0 i_subs0 i_cached0 i_used0 i_le0 i_wf0 i_rel0].
  inv_con.
  - change (length (jobs (add_sub S1 t j))) with (length (jobs S1)).
    destruct Hk as [H|H]; [apply i_bound0; now left|]. apply Hs in H. destruct H as [H| ->]; [apply i_bound0; now right|].
    eapply getj_lt; eauto.
  - exact i_nodup0.
  - change (getj (add_sub S1 t j) k) with (getj S1 k) in Hz. change (pend (add_sub S1 t j)) with (pend S1) in Hk.
    destruct (i_pend0 _ _ Hk Hz) as (A & B & C & D & E). repeat split; auto.
    intros Hin. apply Hs in Hin. destruct Hin as [Hin| ->]; [contradiction|]. apply f_np0. exact Hk.
  - change (getj (add_sub S1 t j) k) with (getj S1 k) in Hz. apply Hs in Hk. destruct Hk as [H| ->]; [eauto|].
    rewrite Hget in Hz. injection Hz as <-. exact f_h0.
  - eapply i_cached0; eauto.
  - apply i_used0.
  - apply i_le0.
  - eapply i_wf0; eauto.
  - eapply i_rel0; eauto.
Qed.

(** consuming: the freed job starts holding its units *)
Lemma inv_free_consume s j x y :
  Free s j x -> Inv c s -> within c (used s) (jlimits x) = true ->
  jholds y = true -> jcached y = false -> jlimits y = jlimits x -> jreleases y = 0 ->
  Inv c (setj (set_used s (consume (used s) (jlimits x))) j y).
Proof.
  intros F I Hw Y1 Y2 Y3 Y4. destruct F.
  destruct (i_wf _ _ I j x f_get0) as [Hnd Hnn].
  set (S0 := set_used s (consume (used s) (jlimits x))).
  assert (Hget0 : getj S0 j = Some x) by exact f_get0.
  assert (Hg : forall k z, getj (setj S0 j y) k = Some z ->
                 (k = j /\ z = y) \/ (k <> j /\ getj s k = Some z)).
  { intros k z H. destruct (Nat.eq_dec j k) as [->|Hne].
    - rewrite (getj_setj_same _ _ _ _ Hget0) in H. injection H as <-. auto.
    - rewrite getj_setj_other in H by assumption. auto. }
  assert (Hheld : forall r, held (setj S0 j y) r = (held s r + demand (jlimits x) r)%Z).
  { intros r. rewrite !held_eq. simpl. unfold getj in f_get0.
    rewrite (held_list_set_nth _ _ _ y r f_get0). unfold contrib. rewrite f_h0, Y1, Y3. lia. }
  set (S' := setj S0 j y).
  assert (E1 : pend S' = pend s) by reflexivity.
  assert (E2 : map snd (subs S') = map snd (subs s)) by reflexivity.
  assert (E5 : used S' = consume (used s) (jlimits x)) by reflexivity.
  assert (E6 : length (jobs S') = length (jobs s)) by (simpl; apply length_set_nth).
  destruct I as [i_bound0 i_nodup0 i_pend0 i_subs0 i_cached0 i_used0 i_le0 i_wf0 i_rel0].
  inv_con; rewrite ?E1, ?E2, ?E5, ?E6 in *.
  - auto.
  - auto.
  - destruct (Hg _ _ Hz) as [[-> ->]|[Hne Hz']]; [contradiction|]. eauto.
  - destruct (Hg _ _ Hz) as [[-> ->]|[Hne Hz']]; [contradiction|]. eauto.
  - destruct (Hg _ _ Hz) as [[-> ->]|[Hne Hz']]; [congruence|]. eauto.
  - rewrite Hheld, consume_spec by assumption. rewrite i_used0. reflexivity.
  - rewrite Hheld. destruct (in_dec Nat.eq_dec r (map fst (jlimits x))) as [Hin|Hnin].
    + pose proof (within_spec c (used s) (jlimits x) r Hw Hin Hnd) as H. rewrite i_used0 in H. exact H.
    + rewrite demand_not_in by assumption. pose proof (i_le0 r). lia.
  - destruct (Hg _ _ Hz) as [[-> ->]|[Hne Hz']]; [rewrite Y3; split; assumption|]. eauto.
  - destruct (Hg _ _ Hz) as [[-> ->]|[Hne Hz']]; [rewrite Y1, Y4; simpl; lia|]. eauto.
Qed.

Lemma inv_exec_job s i j co :
  nth_error (queue s) i = Some (EvExec j) -> Inv c s -> Inv c (exec_job c (pop_queue s i) j co).
Proof.
  intros Hq I. destruct (inv_pop_exec s i j Hq I) as [I0 HF].
  set (s0 := pop_queue s i) in *. unfold exec_job.
  destruct (getj s0 j) as [x|] eqn:Hx; [|exact I0].
  assert (F : Free s0 j x) by (apply HF; exact Hx).
  destruct (if jnocse x then None else lookup_pending s0 (jkey x, jctx x)) as [t|].
  { apply inv_skip_wakeup. now apply inv_free_sub. }
  match goal with |- Inv c (match ?h with _ => _ end) => destruct h as [[v|e]|] end.
  - apply inv_skip_wakeup. apply inv_enqueue_nonexec; [reflexivity|]. now apply inv_free_cached.
  - apply inv_skip_wakeup. apply inv_enqueue_nonexec; [reflexivity|]. now apply inv_free_cached.
  - destruct (dryrun c).
    + destruct (jbadexec x).
      * apply inv_enqueue_nonexec; [reflexivity|]. apply (inv_free_setj s0 j x); auto. apply same_core_phase.
      * apply (inv_free_setj s0 j x); auto. apply same_core_phase.
    + destruct (within c (used s0) (jlimits x)) eqn:Hw; simpl.
      * destruct (jbadexec x).
        -- apply inv_enqueue_nonexec; [reflexivity|].
           apply (inv_free_consume s0 j x); auto; try reflexivity. apply (f_c _ _ _ F). apply (f_r _ _ _ F).
        -- apply inv_add_submit. apply inv_set_pending.
           apply (inv_free_consume s0 j x); auto; try reflexivity. apply (f_c _ _ _ F). apply (f_r _ _ _ F).
      * exact (inv_free_wait s0 j x F I0).
Qed.

(** * ONew *)
Definition wf_op (o : op) : Prop :=
  match o with ONew _ _ l _ _ _ => wf_limits l | _ => True end.

Lemma inv_new s key ctx l nocse prov bad :
  wf_limits l -> Inv c s -> Inv c (step c s (ONew key ctx l nocse prov bad)).
Proof.
  intros Hwf I. cbn [step].
  set (nj := new_job key ctx l nocse prov bad).
  set (S' := enqueue _ _).
  assert (Hg : forall k z, getj S' k = Some z -> (k = length (jobs s) /\ z = nj) \/ getj s k = Some z).
  { intros k z. unfold S', getj. simpl. destruct (Nat.lt_ge_cases k (length (jobs s))) as [Hlt|Hge].
    - rewrite nth_error_app1 by assumption. auto.
    - rewrite nth_error_app2 by assumption. destruct (k - length (jobs s)) as [|n] eqn:E; simpl.
      + intros [= <-]. left. split; [lia|reflexivity].
      + destruct n; discriminate. }
  assert (Hp : pend S' = exec_ids (queue s) ++ length (jobs s) :: waiting s).
  { unfold pend, S'. simpl. rewrite exec_ids_app. simpl. now rewrite <- app_assoc. }
  assert (Hperm : Permutation (pend S') (length (jobs s) :: pend s)).
  { rewrite Hp. unfold pend. apply Permutation_sym, Permutation_middle. }
  assert (Hheld : forall r, held S' r = held s r).
  { intros r. rewrite !held_eq. unfold S'. simpl. rewrite held_list_app. simpl. unfold contrib. simpl. lia. }
  assert (Hfresh : ~ In (length (jobs s)) (pend s) /\ ~ In (length (jobs s)) (map snd (subs s))).
  { split; intros Hin; [assert (length (jobs s) < length (jobs s)) by (apply (i_bound _ _ I); now left)
                       |assert (length (jobs s) < length (jobs s)) by (apply (i_bound _ _ I); now right)]; lia. }
  destruct Hfresh as [Hf1 Hf2].
  assert (E2 : subs S' = subs s) by reflexivity.
  assert (E5 : used S' = used s) by reflexivity.
  assert (E6 : length (jobs S') = S (length (jobs s))) by (unfold S'; simpl; rewrite app_length; simpl; lia).
  destruct I as [i_bound0 i_nodup0 i_pend0 i_subs0 i_cached0 i_used0 i_le0 i_wf0 i_rel0].
  inv_con; rewrite ?E2, ?E5, ?E6 in *.
  - destruct Hk as [H|H].
    + apply (Permutation_in _ Hperm) in H. destruct H as [<-|H]; [lia|]. assert (k < length (jobs s)) by auto. lia.
    + assert (k < length (jobs s)) by auto. lia.
  - eapply Permutation_NoDup; [apply Permutation_sym; exact Hperm|]. constructor; auto.
  - apply (Permutation_in _ Hperm) in Hk. destruct (Hg _ _ Hz) as [[-> ->]|Hz'].
    + simpl. repeat split; auto.
    + destruct Hk as [<-|H]; [apply getj_lt in Hz'; lia|]. eauto.
  - destruct (Hg _ _ Hz) as [[-> ->]|Hz']; [reflexivity|]. eauto.
  - destruct (Hg _ _ Hz) as [[-> ->]|Hz']; [reflexivity|]. eauto.
  - rewrite Hheld. auto.
  - rewrite Hheld. auto.
  - destruct (Hg _ _ Hz) as [[-> ->]|Hz']; [exact Hwf|]. eauto.
  - destruct (Hg _ _ Hz) as [[-> ->]|Hz']; [simpl; lia|]. eauto.
Qed.

Lemma inv_init : Inv c init.
Proof.
  inv_con; try (destruct k; discriminate); try (destruct Hk as [[]|[]]); try (destruct Hk).
  - constructor.
  - rewrite held_eq. reflexivity.
  - rewrite held_eq. simpl. apply Hlim.
Qed.

Lemma inv_step s o : wf_op o -> Inv c s -> Inv c (step c s o).
Proof.
  intros Hwf I. destruct o as [key ctx l nocse prov bad|k j0 co|j ok e|j o].
  - now apply inv_new.
  - cbn [step]. set (i := find_event (queue s) k j0 0).
    destruct (nth_error (queue s) i) as [[j|j|j e|j v]|] eqn:Hq; auto.
    + now apply inv_exec_job.
    + apply inv_done_job; auto. eapply inv_pop_nonexec; eauto.
    + apply inv_reject_job; auto. eapply inv_pop_nonexec; eauto.
    + apply inv_resolve_job; auto. eapply inv_pop_nonexec; eauto.
  - cbn [step]. destruct (phase_is s j _); auto. destruct (getj s j) as [x|] eqn:Hx; auto.
    apply inv_enqueue_nonexec; [now destruct ok|].
    apply (inv_setj_core c _ j x); auto. apply same_core_phase.
  - cbn [step]. destruct (phase_is s j _); auto. destruct (getj s j) as [x|] eqn:Hx; auto.
    apply inv_enqueue_nonexec; [now destruct o|].
    apply (inv_setj_core c _ j x); auto. apply same_core_phase.
Qed.

Theorem inv_run ops : Forall wf_op ops -> Inv c (run c ops).
Proof.
  unfold run. intros H. rewrite <- fold_left_rev_right.
  apply Forall_rev in H. induction H as [|o l Ho _ IH]; simpl; [apply inv_init|].
  now apply inv_step.
Qed.
End Fixed.
