(** C36 — Schema migrations preserve recorded data.
    Only statements, closed by [exact], and their assumptions.

    Reading guide.  [preserved g fr d d'] (Proofs/MigrateBase.v): every table of [d] exists in
    [d'], its rows are -- in order, one to one -- a prefix of the rows of the table in [d'], and
    every column value [v] of an old row is [g t c v] in the new row, for every column except those
    in [fr].  [expected tz start] is the identity except on job.start_time / job.end_time when the
    upgrade crosses revision 3b0a6e67cc58, where it is the instant-preserving local -> UTC
    re-reading ([ideal_utc]: whole seconds shifted by the zone, microseconds untouched).
    [exempt start] is job.execution_id when the upgrade crosses cd2d53191748 (that revision
    recomputes the column and makes it NOT NULL; see C36_execution_id_backfilled).
    [upgrade] is RedunBackendDb.migrate(); [chain v] is the alembic revision chain regenerated from
    /repo at every run (Gen/C36Gen.v, C36_tie), [v = Truncating] as shipped. *)
From Coq Require Import List String ZArith Bool.
From RV Require Import Model.Migrate Model.MigrateChain Proofs.MigrateBase Proofs.MigratePres
  Proofs.MigrateChainThm Proofs.MigrateWitness Proofs.MigrateSchema Proofs.MigrateExtra.
Import ListNotations.
Open Scope string_scope.
Open Scope list_scope.

(** General lemma: ANY list of the modelled operation kinds -- not only today's chain -- keeps every
    recorded row, for all databases, on both dialects.  A new migration built from these kinds is
    covered as is; an unknown call or SQL text stops the translator. *)
Theorem C36_any_known_ops_preserve : forall e ops d d',
  run_ops e ops d = Ok d' -> preserved (conv_of e ops) (free_of ops) d d'.
Proof. exact run_ops_preserved. Qed.

(** Every starting revision, every populated database (no size bound), SQLite: all rows of all
    tables are kept, with the chain's own value conversion. Holds as shipped and as repaired. *)
Theorem C36_upgrade_keeps_rows : forall v e d d',
  e_dialect e = Sqlite ->
  upgrade e (chain v) db_versions d = Ok d' ->
  preserved (fun t c x => if crosses utc_rev (d_rev d) && job_time t c then utc_conv v (e_tz e) x else x)
            (exempt (d_rev d)) d d'.
Proof. exact upgrade_keeps_rows. Qed.

(** As shipped, all columns except job.start_time / end_time / execution_id keep equal values. *)
Theorem C36_other_columns_equal_partial : forall v e d d',
  e_dialect e = Sqlite ->
  upgrade e (chain v) db_versions d = Ok d' ->
  preserved id_conv (fun t c => String.eqb t "job" && (job_time_col c || String.eqb c "execution_id")) d d'.
Proof. exact upgrade_keeps_other_columns. Qed.

(** The property itself FAILS for the chain as shipped: SQLite's datetime(x, 'utc') drops the
    fraction of a second of job.start_time / end_time (and rounds up from .9995). *)
Theorem C36_refuted : exists e d d',
  e_dialect e = Sqlite /\ upgrade e (chain Truncating) db_versions d = Ok d' /\ job_times_typed d /\
  ~ preserved (expected (e_tz e) (d_rev d)) (exempt (d_rev d)) d d'.
Proof.
  exists env0, witness, witness_result.
  exact (conj eq_refl (conj witness_upgrades (conj witness_typed witness_not_preserved))).
Qed.

(** ... and HOLDS for the repaired chain (fraction re-attached after the conversion). *)
Theorem C36_holds_fixed : forall e d d',
  e_dialect e = Sqlite ->
  upgrade e (chain KeepFraction) db_versions d = Ok d' ->
  job_times_typed d ->
  preserved (expected (e_tz e) (d_rev d)) (exempt (d_rev d)) d d'.
Proof. exact upgrade_keeps_data_fixed. Qed.

(** What job.execution_id becomes when cd2d53191748 is crossed starting from 2.3 (the only
    version that has the column and crosses it): the execution of the root ancestor as computed
    by the recursive query, so a stored value that agrees with the parent pointers is kept. *)
Theorem C36_execution_id_backfilled : forall v e d d',
  e_dialect e = Sqlite -> d_rev d = "d4af139b6f53" ->
  upgrade e (chain v) db_versions d = Ok d' ->
  exists d1 J J' rs ex,
    apply_op e StubExecutions d = Ok d1 /\
    lookup "job" (d_tables d) = Some J /\ lookup "job" (d_tables d') = Some J' /\
    t_rows J' = rs ++ ex /\
    Forall2 (fun r r' => forall x, rget r "execution_id" = Some x ->
               rget r' "execution_id" = Some (exec_for (ancestors (t_rows J) (rows_of "execution" d1)) r))
            (t_rows J) rs.
Proof. exact upgrade_execution_id. Qed.

(** Accepted by the library: the result is at the newest revision, inside [MIN, MAX]. *)
Theorem C36_upgraded_is_compatible : forall v e d d',
  upgrade e (chain v) db_versions d = Ok d' ->
  d_rev d' = latest_rev /\ compatible db_versions vmin vmax d' = true.
Proof. exact upgrade_reaches_latest. Qed.

(** ... with the newest schema, from every historical schema (columns, types, nullability). *)
Theorem C36_upgraded_schema_is_latest : forall v e n d d',
  e_dialect e = Sqlite -> (n <= List.length (chain v))%nat ->
  same_schema_as_built e v n d ->
  upgrade e (chain v) db_versions d = Ok d' ->
  schema_of d' = latest_schema.
Proof. exact upgrade_schema_latest. Qed.

(** From every historical schema an upgrade can only fail for a reason in the *data*: a NOT NULL
    violation (a job whose parent chain reaches no root job -> execution_id stays NULL; a job
    without start_time) or a recorded task name that Task._validate rejects.  No schema-level
    failure (missing/duplicate table or column, unknown revision) is possible.
    (* NOT PROVED: totality -- for every database whose jobs form a forest (each parent chain ends,
       within [length jobs] steps, in a job with parent_id NULL), whose job.start_time are
       timestamps and whose task names match ^[A-Za-z_][A-Za-z_0-9]*$ (namespace likewise with
       dots), [exists d', upgrade e (chain v) db_versions d = Ok d'].  It needs the invariants of
       the job/execution tables carried through all ~60 operations; the implementation oracle
       upgrades generated forests from every version instead. *) *)
Theorem C36_upgrade_failure_modes_partial : forall v e n d x,
  e_dialect e = Sqlite -> (n <= List.length (chain v))%nat ->
  same_schema_as_built e v n d ->
  upgrade e (chain v) db_versions d = Err x -> data_error x.
Proof. exact upgrade_failure_modes. Qed.

(** Non-vacuity: a populated prototype-schema (1.0) database upgrades through all ten later
    revisions; it crosses every data migration; two companion values and one stub execution appear. *)
Example C36_nonvacuous :
  upgrade env0 (chain KeepFraction) db_versions (nv_db KeepFraction) = Ok nv_result /\
  job_times_typed (nv_db KeepFraction) /\
  d_rev (nv_db KeepFraction) = "806f5dcb11bf" /\
  crosses utc_rev (d_rev (nv_db KeepFraction)) = true /\ crosses eid_rev (d_rev (nv_db KeepFraction)) = true /\
  List.length (rows_of "job" nv_result) = 2%nat /\
  List.length (rows_of "value" nv_result) = 3%nat /\
  List.length (rows_of "execution" nv_result) = 1%nat /\
  map (fun r => rget r "execution_id") (rows_of "job" nv_result)
    = [Some (VFresh "stub" (VText "j0")); Some (VFresh "stub" (VText "j0"))] /\
  map (fun r => rget r "start_time") (rows_of "job" nv_result)
    = [Some (VTime 1600000000 999999); Some (VTime 1600000001 1)].
Proof. exact (conj nv_upgrades (conj nv_typed nv_facts)). Qed.

(** 2.3 database whose job trees are only PARTLY labelled (root labelled / child not / grandchild
    labelled / ..., and a tree without execution): every job ends with the execution of its root
    ancestor and no job row is lost -- as shipped and as repaired. *)
Example C36_partial_labels_example : forall v,
  d_rev (pl_db v) = "d4af139b6f53" /\
  job_eids (upgrade env0 (chain v) db_versions (pl_db v)) =
    [(Some (VText "j0"), Some (VText "e0")); (Some (VText "j1"), Some (VText "e0"));
     (Some (VText "j2"), Some (VText "e0")); (Some (VText "j3"), Some (VText "e0"));
     (Some (VText "k0"), Some (VFresh "stub" (VText "k0"))); (Some (VText "k1"), Some (VFresh "stub" (VText "k0")))].
Proof. exact pl_facts. Qed.

(** The companion-value back-fill (30ffbaee18cd) has two variant sites, both extracted by the
    translator: which tasks are "lonely" (no value row with the task's hash at all = [AnyValue], as
    shipped / no value row of type "redun.Task" = [TypedValue]) and how the rows are written
    (session.add = [AddRow], as shipped / session.merge = [MergeRow]).  [chain v] is
    [chain_gen AnyValue AddRow v], for which C36_holds_fixed is the preservation theorem.
    With (typed, merge) a task recorded as a Task *subclass* value (PartialTask, SchedulerTask, ...)
    is taken for lonely and its value row is overwritten by the dummy Task pickle: refuted. *)
Theorem C36_backfill_any_add_is_chain : forall v, chain v = chain_gen AnyValue AddRow v.
Proof. reflexivity. Qed.

Theorem C36_backfill_typed_merge_refuted : exists e d d',
  e_dialect e = Sqlite /\ upgrade e (chain_gen TypedValue MergeRow KeepFraction) db_versions d = Ok d' /\
  job_times_typed d /\
  ~ preserved (expected (e_tz e) (d_rev d)) (exempt (d_rev d)) d d'.
Proof.
  exists env0, (pt_db KeepFraction), (pt_result TypedValue MergeRow).
  exact (conj eq_refl (conj pt_upgrades (conj pt_typed pt_not_preserved))).
Qed.

(** Same database, other variants: kept by (any, add) and (any, merge); (typed, add) aborts the upgrade. *)
Example C36_backfill_other_variants :
  rows_of "value" (pt_result AnyValue AddRow) = [pt_value] /\
  rows_of "value" (pt_result AnyValue MergeRow) = [pt_value] /\
  upgrade env0 (chain_gen TypedValue AddRow KeepFraction) db_versions (pt_db KeepFraction) = Err (EUnique "value" "value_hash").
Proof. exact pt_other_variants. Qed.

Print Assumptions C36_backfill_typed_merge_refuted.
Print Assumptions C36_backfill_other_variants.
Print Assumptions C36_partial_labels_example.
Print Assumptions C36_any_known_ops_preserve.
Print Assumptions C36_upgrade_keeps_rows.
Print Assumptions C36_other_columns_equal_partial.
Print Assumptions C36_refuted.
Print Assumptions C36_holds_fixed.
Print Assumptions C36_execution_id_backfilled.
Print Assumptions C36_upgraded_is_compatible.
Print Assumptions C36_upgraded_schema_is_latest.
Print Assumptions C36_upgrade_failure_modes_partial.
Print Assumptions C36_nonvacuous.
