(** C10 — Remote-executor monitors never lose a submitted job.
    Only statements, closed by [exact], and their assumptions.

    Model: [Model/Monitor.v] — scheduler thread ([for j in js: _submit(j)]), monitor threads and
    (Glue) submission threads over the shared [is_running] flag and pending collections; one step
    per marked source line; all interleavings = all action sequences accepted by [run]/[reach].
    The cloud API is the fake that completes every tracked job when polled. *)
From Coq Require Import List Bool Arith ZArith.
From RV Require Import Model.ArrCounter Proofs.ArrCounterInv Model.ArrLife Proofs.ArrLifeInv.
From RV Require Import Model.GlueWaves Proofs.GlueWavesInv Model.MonWalk Proofs.MonWalkInv.
From RV Require Import Model.Monitor Proofs.MonitorBase Proofs.MonitorWitness Proofs.MonitorFixed.
Import ListNotations.
Open Scope list_scope.

(** The property, for a protocol [c]: for every job list and every interleaving, a state in which
    no thread can move any more has reported every submitted job (exactly once, in order), and such
    a state is reached after a bounded number of steps whatever the interleaving. *)
Definition no_lost_job (c : cfg) : Prop :=
  forall js s, reach c (init js) s -> terminal c s -> reported s = js /\ err s = false.

(** As shipped the property is violated for each of the five executors:
    [loses_job c] = some interleaving of submitting distinct jobs ends with all threads finished
    (no step possible) and a submitted job never passed to done_job/reject_job. *)
Theorem C10_refuted_docker : loses_job shipped_docker.
Proof. exact docker_loses. Qed.
Theorem C10_refuted_aws_batch : loses_job shipped_aws_batch.
Proof. exact aws_batch_loses. Qed.
Theorem C10_refuted_k8s : loses_job shipped_k8s.
Proof. exact k8s_loses. Qed.
Theorem C10_refuted_gcp_batch : loses_job shipped_gcp_batch.
Proof. exact gcp_batch_loses. Qed.
Theorem C10_refuted_aws_glue : loses_job shipped_aws_glue.
Proof. exact aws_glue_loses. Qed.
(** Glue loses even a single job (pop-then-insert window of the submission thread). *)
Theorem C10_refuted_aws_glue_single : loses_job shipped_aws_glue.
Proof. exact aws_glue_loses_single. Qed.

Theorem C10_loses_refutes : forall c, loses_job c -> ~ no_lost_job c.
Proof.
  intros c (js & sch & s & j & _ & _ & R & T & _ & Hin & Hnot) H.
  destruct (H js s R T) as [E _]. apply Hnot. rewrite E. exact Hin.
Qed.

(** Repaired discipline (submit = one critical section; monitor guard test + flag clear = one
    critical section of the same lock; the monitor does not call stop() afterwards):
    unbounded in the number of jobs, all interleavings. *)
Theorem C10_holds_fixed : no_lost_job fixed_cfg.
Proof. intros js s R T. destruct (fixed_terminal_reported js s R T) as (A & _ & B & _). split; assumption. Qed.

(** ... every interleaving is finite (at most 10 steps per job) ... *)
Theorem C10_fixed_bounded : forall js sch s,
  run fixed_cfg (init js) sch = Some s -> length sch <= 10 * length js.
Proof. exact fixed_bounded. Qed.

(** ... and it cannot get stuck before everything is reported: "eventually reported". *)
Theorem C10_fixed_progress : forall js s, reach fixed_cfg (init js) s ->
  reported s <> js -> exists a s', step fixed_cfg s a = Some s'.
Proof. exact fixed_progress. Qed.

(** Decidable quiescence is sound for [terminal] (used by the witnesses and the harness). *)
Theorem C10_quiescent_terminal : forall c s, quiescentb s = true -> terminal c s.
Proof. exact quiescent_terminal. Qed.

(* NOT PROVED: a repaired Glue protocol (submission thread) — [fixed_cfg] covers the four
   executors whose pending map is filled by the submitting thread; Glue additionally needs the
   submission thread's pop/insert in the critical section and a restart discipline for that
   thread, and its monitor legitimately spins while jobs wait in the queue, so the step bound
   above does not hold for it without a fairness premise. *)

(** Non-vacuity: the fixed protocol really runs — the very interleaving that loses job 1 as
    shipped (monitor leaving while job 1 is submitted) is executed to quiescence and reports
    both jobs; and the hypotheses of [no_lost_job] are met by that final state. *)
Example C10_nonvacuous :
  exists sch s, run fixed_cfg (init [0;1]) sch = Some s /\ reach fixed_cfg (init [0;1]) s /\
                terminal fixed_cfg s /\ reported s = [0;1] /\ length (mons s) = 2.
Proof.
  exists [ASched; AMon 0; AMon 0; AMon 0; AMon 0; ASched; AMon 0; AMon 1; AMon 1; AMon 1; AMon 1; AMon 1].
  eexists. split; [vm_compute; reflexivity|].
  split; [eapply (run_reach _ [ASched; AMon 0; AMon 0; AMon 0; AMon 0; ASched; AMon 0; AMon 1; AMon 1; AMon 1; AMon 1; AMon 1] (init [0;1]));
          [vm_compute; reflexivity|apply reach_refl]|].
  split; [unfold terminal; apply quiescent_terminal; vm_compute; reflexivity|].
  split; vm_compute; reflexivity.
Qed.

(** ---- The arrayer counter read by the AWS Batch / K8S / GCP Batch monitor guards ----
    [Model/ArrCounter.v]: add_job (locked), submit_pending_jobs (pop locked; submit; decrement
    locked or as an unprotected read / store), monitor poll and exit (pending map empty and
    num_pending = 0; stop() stops the arrayer).  Unbounded jobs, all interleavings. *)
Theorem C10_counter_exact : forall js s, areach arr_locked (ainit js) s ->
  a_num s = Z.of_nat (length (a_held s) + length (inflight (a_pc s))).
Proof. exact counter_exact. Qed.

Theorem C10_counter_exit_safe : forall js s, areach arr_locked (ainit js) s -> a_stopped s = true ->
  forall j, In j js -> In j (a_todo s) \/ In j (a_reported s).
Proof. exact exit_safe. Qed.

(** Decrement outside the lock: lost update, num_pending = 0 with a job still held, the monitor
    stops everything, the job is never reported. *)
Theorem C10_counter_refuted_unlocked : counter_loses arr_unlocked.
Proof. exact unlocked_loses. Qed.

Theorem C10_counter_locked_never_loses : ~ counter_loses arr_locked.
Proof. exact locked_never_loses. Qed.

(** ---- Life cycle of the arrayer thread ([Model/ArrLife.v]: _exit_flag, start, stop) ----
    Any sequence of waves (jobs through the arrayer or bypassing it), monitor shut-downs in between
    ([LStop], only when the arrayer holds nothing) and arrayer loop iterations. *)
Theorem C10_arrayer_armed : forall js s, lreach ClearInStart (linit js) s ->
  l_held s <> [] -> l_alive s = true /\ l_flag s = false.
Proof. exact armed. Qed.

Theorem C10_arrayer_all_submitted : forall js s, lreach ClearInStart (linit js) s ->
  lstep ClearInStart s LSubmit = None -> lstep ClearInStart s LTick = None ->
  forall j b, In (j, b) js -> In j (l_backend s).
Proof. exact all_submitted. Qed.

(** Exit flag cleared only by a stop() that joined a live thread: a stop() with no live arrayer
    thread poisons the next start(); the job is never handed to the backend. *)
Theorem C10_arrayer_refuted_clear_in_stop : life_loses ClearInStopIfAlive.
Proof. exact clear_in_stop_loses. Qed.

Theorem C10_arrayer_shipped_never_loses : ~ life_loses ClearInStart.
Proof. exact shipped_never_loses. Qed.

(** ---- Glue: two threads with different lifetimes, multi-wave histories ([Model/GlueWaves.v]) ----
    Any number of jobs; any order of whole-phase actions (submit, submission thread, Glue finishing a
    run, monitor iteration / exit), i.e. waves separated by drains with runs still in flight. *)
Theorem C10_glue_queue_has_submitter : forall js s, greach AlwaysCheck (ginit js) s ->
  g_queue s <> [] -> g_sub s = true /\ g_flag s = true /\ g_mon s = true.
Proof. exact queue_has_submitter. Qed.

Theorem C10_glue_waves_progress : forall js s j, greach AlwaysCheck (ginit js) s ->
  (In j (g_queue s) -> exists s', gstep AlwaysCheck s GSub = Some s' /\ In j (g_running s')) /\
  (In j (g_running s) -> gmem j (g_finished s) = false -> exists s', gstep AlwaysCheck s (GComplete j) = Some s') /\
  (In j (g_running s) -> gmem j (g_finished s) = true ->
     exists s', gstep AlwaysCheck s GPoll = Some s' /\ In j (g_reported s')).
Proof. exact waves_progress. Qed.

Theorem C10_glue_waves_quiescent : forall js s, greach AlwaysCheck (ginit js) s ->
  g_todo s = [] -> g_mon s = false -> g_sub s = false -> forall j, In j js -> In j (g_reported s).
Proof. exact waves_quiescent_reported. Qed.

(** [_start] returning early when is_running is set: after the submission thread has drained and
    returned while a run is in flight, the next job stays in pending_glue_jobs in every future. *)
Theorem C10_glue_refuted_early_return : waves_stuck EarlyReturn.
Proof. exact early_return_stuck. Qed.

Theorem C10_glue_shipped_not_stuck : ~ waves_stuck AlwaysCheck.
Proof. exact shipped_not_stuck. Qed.

(** ---- The monitor's status collection: snapshot vs live pending map ([Model/MonWalk.v]) ----
    Any number of jobs, every interleaving of submits with the item-by-item walk and the processing. *)
Theorem C10_walk_snapshot_exactly_once : forall js s, wreach Snapshot (winit js) s ->
  w_err s = false /\ (exists rest, js = w_reported s ++ rest) /\ (w_pc s = WDead -> w_reported s = js).
Proof. exact snapshot_exactly_once. Qed.

Theorem C10_walk_snapshot_progress : forall js s, wreach Snapshot (winit js) s -> w_pc s <> WDead ->
  exists a s', wstep Snapshot s a = Some s'.
Proof. exact snapshot_progress. Qed.

(** Walking the live map: a submit during the walk aborts it, the collected statuses are lost. *)
Theorem C10_walk_refuted_live : walk_loses Live.
Proof. exact live_loses. Qed.

Theorem C10_walk_snapshot_never_loses : ~ walk_loses Snapshot.
Proof. exact snapshot_never_loses. Qed.

Print Assumptions C10_walk_snapshot_exactly_once.
Print Assumptions C10_walk_snapshot_progress.
Print Assumptions C10_walk_refuted_live.
Print Assumptions C10_walk_snapshot_never_loses.
Print Assumptions C10_glue_queue_has_submitter.
Print Assumptions C10_glue_waves_progress.
Print Assumptions C10_glue_waves_quiescent.
Print Assumptions C10_glue_refuted_early_return.
Print Assumptions C10_glue_shipped_not_stuck.
Print Assumptions C10_arrayer_armed.
Print Assumptions C10_arrayer_all_submitted.
Print Assumptions C10_arrayer_refuted_clear_in_stop.
Print Assumptions C10_arrayer_shipped_never_loses.
Print Assumptions C10_counter_exact.
Print Assumptions C10_counter_exit_safe.
Print Assumptions C10_counter_refuted_unlocked.
Print Assumptions C10_counter_locked_never_loses.
Print Assumptions C10_refuted_docker.
Print Assumptions C10_refuted_aws_batch.
Print Assumptions C10_refuted_k8s.
Print Assumptions C10_refuted_gcp_batch.
Print Assumptions C10_refuted_aws_glue.
Print Assumptions C10_refuted_aws_glue_single.
Print Assumptions C10_loses_refutes.
Print Assumptions C10_holds_fixed.
Print Assumptions C10_fixed_bounded.
Print Assumptions C10_fixed_progress.
Print Assumptions C10_quiescent_terminal.
