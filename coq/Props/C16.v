(** C16 — Value hashes depend only on the value.
    A [value] (Model/ValueHash.v) is a concrete Python object whose set / frozenset nodes
    list their elements in this object's iteration order; [veq v w] says that v and w are
    the same value up to those orders (another PYTHONHASHSEED, another insertion history).
    [get_hash sorted_fn cfg v] is the pre-image handed to SHA-512 (or the exception).
    Only statements, closed by [exact], and their assumptions. *)
From Coq Require Import List ZArith NArith Ascii Bool Permutation.
From RV Require Import Base.Decimal Model.Bencode Base.HashSpec Model.ValueHash Proofs.ValueHashFacts.
From RV Require Import Model.ProxyDispatch Proofs.ProxyDispatchFacts.
Import ListNotations.
Open Scope list_scope.

(** ** The code as shipped violates the property (witnesses evaluated by vm_compute):
    two objects that are the same value get different hash pre-images. *)
Theorem C16_refuted_nested_set :          (* [{"a","b"}] *)
  exists v w, differs v w.
Proof. do 2 eexists. exact witness_nested_set. Qed.
Theorem C16_refuted_frozenset :           (* frozenset({"a","b"}) *)
  differs (VNode KFrozenset 2 [sA; sB]) (VNode KFrozenset 2 [sB; sA]).
Proof. exact witness_frozenset. Qed.
Theorem C16_refuted_dict_value :          (* {"k": {"a","b"}} *)
  exists v w, differs v w /\ exists o l, v = VNode KDict o l.
Proof. do 2 eexists. split; [exact witness_dict_value|]. do 2 eexists. reflexivity. Qed.
Theorem C16_refuted_set_of_tuples :       (* {(1, frozenset({"a","b"}))}: top-level sorting is not enough *)
  exists v w, differs v w /\ exists o l, v = VNode KSet o l.
Proof. do 2 eexists. split; [exact witness_set_of_tuples|]. do 2 eexists. reflexivity. Qed.

(** With a collision-free digest the hashes themselves differ. *)
Theorem C16_refuted_digest :
  forall (T : Type) (H : bytes -> T), (forall a b, H a = H b -> a = b) ->
  exists v w, veq v w /\ wf v /\
    digest H (get_hash_py shipped v) <> digest H (get_hash_py shipped w).
Proof.
  intros T H Hinj. destruct witness_frozenset as (Hv & Hw & p & q & Ep & Eq & Hpq).
  do 2 eexists. split; [exact Hv|]. split; [exact Hw|]. rewrite Ep, Eq. now apply digest_differs.
Qed.

(** ** What holds as shipped *)
(** values without any set / frozenset have a single concrete form *)
Theorem C16_shipped_setfree_partial :
  forall sorted_fn v w, veq v w -> setfree v = true ->
  get_hash sorted_fn shipped v = get_hash sorted_fn shipped w.
Proof. intros f v w H S. now rewrite (setfree_veq v w H S). Qed.

(** a top-level [set] of ints hashes independently of its iteration order *)
Theorem C16_shipped_int_set_partial :
  forall o l l', all_ints l -> Permutation l l' ->
  get_hash_py shipped (VNode KSet o l) = get_hash_py shipped (VNode KSet o l').
Proof. exact get_hash_shipped_int_set. Qed.

(** ** The repaired code (pickle_dumps orders set elements by their own pickle; Set.get_hash
    applies sorted() to that canonical order) satisfies the property: for every
    deterministic [sorted] (CPython's list.sort is one), every pair of concrete objects
    that are the same value — sets / frozensets at any depth, inside lists, tuples, dict
    keys and values, instance state — gets the same pre-image, hence the same hash, or
    the same exception.  No size bound.
    [wf v]: within each set of v, different elements have different (canonical) pickles. *)
Theorem C16_order_independent_fixed :
  forall sorted_fn v w, veq v w -> wf v ->
  get_hash sorted_fn fixed v = get_hash sorted_fn fixed w.
Proof. exact get_hash_fixed_invariant. Qed.

Theorem C16_digest_fixed :
  forall (T : Type) (H : bytes -> T) sorted_fn v w, veq v w -> wf v ->
  digest H (get_hash sorted_fn fixed v) = digest H (get_hash sorted_fn fixed w).
Proof. intros T H f v w Hv Hw. now rewrite (get_hash_fixed_invariant f v w Hv Hw). Qed.

(** [veq] is symmetric and [wf] is a property of the value, not of the concrete object *)
Theorem C16_veq_sym : forall v w, veq v w -> veq w v.
Proof. exact veq_sym. Qed.
Theorem C16_wf_invariant : forall v w, veq v w -> wf v -> wf w.
Proof. exact wf_invariant. Qed.

(** the repair does not change the hash of any value without sets (existing caches stay valid) *)
Theorem C16_fixed_preserves_setfree :
  forall sorted_fn v, setfree v = true -> get_hash sorted_fn fixed v = get_hash sorted_fn shipped v.
Proof. exact get_hash_fixed_setfree. Qed.

(** ** Which proxy hashes a value (TypeRegistry._get_proxy_type, Model/ProxyDispatch.v).
    With the full-MRO search of the shipped code the proxy chosen for a class does not depend
    on which classes were looked up (and memoised) earlier in the process: any registry, any
    history, any class depth. *)
Theorem C16_dispatch_history_independent :
  forall r0 hist c, dispatch FullMRO r0 hist c = dispatch FullMRO r0 [] c.
Proof. exact dispatch_full_history_independent. Qed.

(** Searching only the class and its direct bases is refuted: a class two levels below
    [set] is hashed by plain ProxyValue (pickle in iteration order) in a fresh process and
    by Set once its parent class was looked up. *)
Theorem C16_dispatch_bases_only_refuted :
  exists hist c, dispatch BasesOnly reg0 hist c <> dispatch BasesOnly reg0 [] c /\
                 dispatch BasesOnly reg0 [] c <> dispatch FullMRO reg0 [] c.
Proof. exists [c_tagset], c_sampletags. split; vm_compute; discriminate. Qed.

(** Non-vacuity: two different concrete objects (set containing a tuple containing a
    frozenset, dict with a frozenset value) that are the same value; the repaired code
    gives both one proper pre-image, the shipped code two different results. *)
Example C16_nonvacuous :
  veq nv_v nv_w /\ wf nv_v /\ nv_v <> nv_w /\
  exists p, get_hash_py fixed nv_v = HOk p /\ get_hash_py fixed nv_w = HOk p /\
            get_hash_py shipped nv_v <> get_hash_py shipped nv_w.
Proof. exact nonvacuous. Qed.

Print Assumptions C16_refuted_nested_set.
Print Assumptions C16_refuted_frozenset.
Print Assumptions C16_refuted_dict_value.
Print Assumptions C16_refuted_set_of_tuples.
Print Assumptions C16_refuted_digest.
Print Assumptions C16_shipped_setfree_partial.
Print Assumptions C16_shipped_int_set_partial.
Print Assumptions C16_order_independent_fixed.
Print Assumptions C16_digest_fixed.
Print Assumptions C16_fixed_preserves_setfree.
Print Assumptions C16_nonvacuous.
Print Assumptions C16_dispatch_history_independent.
Print Assumptions C16_dispatch_bases_only_refuted.
