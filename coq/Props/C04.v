(** C04 — Cached results with external values are replayed only while still valid.
    Statements only; proofs are in Proofs/FileValCache.v (and Proofs/FileValHash.v).
    [H]: the hash function, universally quantified.  [v : variant]: the code as shipped or repaired
    at the site that matters here, [content_missing_total] (ContentFile._calc_hash on a missing
    path), extracted from the source.  A cached result is a nested value whose leaves are plain
    values, file values of any class with their recorded hash, or Handles (validity = the
    backend's flag, property C25). *)
From Coq Require Import List ZArith Ascii Bool.
From RV Require Import Base.Decimal Base.Lit Model.Bencode Model.FileVal Proofs.FileValBase Proofs.FileValHash
  Proofs.FileValCache.
Import ListNotations.
Open Scope list_scope.

(** what "still valid" means for a leaf: immutable File/FileSet always; otherwise the current hash
    exists and equals the recorded one; a Handle by its flag *)
Theorem C04_still_valid_meaning : forall H ev v fs l, full ev ->
  leaf_valid H ev v fs l = VTrue <-> leaf_still_valid H v fs l.
Proof. exact leaf_valid_true. Qed.

(** 1. (as shipped and repaired) a backend cache hit is used only if the result is not an error and
    every external value in it is still valid *)
Theorem C04_replay_only_if_valid : forall H ev v fs ct e r, full ev -> backend_hit ct ->
  get_cache H ev v fs ct e r = GHit -> e = false /\ Forall (leaf_still_valid H v fs) (visit r).
Proof. exact replay_only_if_valid. Qed.

(** 2. (repaired ContentFile) exactly then; otherwise the lookup answers "miss" -- it never raises *)
Theorem C04_replay_iff_valid_fixed : forall H ev v fs ct r, full ev -> content_missing_total v = true -> backend_hit ct ->
  (get_cache H ev v fs ct false r = GHit <-> Forall (leaf_still_valid H v fs) (visit r)) /\
  (get_cache H ev v fs ct false r = GMiss <-> ~ Forall (leaf_still_valid H v fs) (visit r)).
Proof. exact replay_iff_valid. Qed.
Theorem C04_lookup_never_raises_fixed : forall H ev v fs ct e r, content_missing_total v = true ->
  get_cache H ev v fs ct e r <> GRaise.
Proof. exact get_cache_no_raise. Qed.

(** as shipped: a cached result holding a ContentFile whose file was deleted makes the lookup raise *)
Theorem C04_refuted_contentfile_deleted : forall H ev p h,
  get_cache H ev shipped [] CT_SINGLE false (NLeaf (LExt (mkV FContent (TFile p) (Some h)))) = GRaise.
Proof. exact contentfile_deleted_raises_shipped. Qed.
(** ... and this is the only way: the lookup raises only if some ContentFile leaf is missing *)
Theorem C04_hash_raises_only_missing_contentfile : forall H v f fs t, calc_target H v f fs t = None ->
  content_missing_total v = false /\ f = FContent /\ exists p, t = TFile p /\ fs_get fs p = None.
Proof. exact calc_none_only_missing_contentfile. Qed.

(** 1b. Expressions as cached results (a task returning `other(x, data=f)`): [leaf_still_valid] of an
    expression leaf demands that its task is registered and that every value nested in its positional
    AND keyword arguments is still valid; theorems 1-3 hold for the validity walk that covers both
    ([full ev], what translate/tr_expr.py must find in redun/expression.py).  A walk over the
    positional arguments only never looks at keyword arguments, and then a result holding a File by
    keyword whose file changed is replayed: *)
Theorem C04_expr_kwargs_unchecked_when_args_only : forall H ev v fs k kw args, walks_kwargs ev k = false ->
  leaf_valid H ev v fs (LExpr k true kw args) = vall (leaf_valid H ev v fs) args.
Proof. exact expr_kwargs_unchecked. Qed.
Theorem C04_refuted_expr_args_only : forall H ev v p, task_walks_kwargs ev = false ->
  let r := NLeaf (LExpr ETask true [LExt (stale_file H p)] []) in
  get_cache H ev v [] CT_SINGLE false r = GHit /\ ~ Forall (leaf_still_valid H v []) (visit r) /\
  leaf_valid H full_ev v [] (LExt (stale_file H p)) = VFalse.
Proof. exact expr_args_only_refuted. Qed.

(** the other branches of _get_cache: a same-execution (CSE) hit is used exactly when every Handle
    in it is still valid (Scheduler._has_valid_handles, since the C25 repair); file values are not
    re-checked within one execution -- outside this property's histories, which interleave changes
    between runs --; errors are never replayed from the backend *)
Theorem C04_cse_checks_handles_only : forall H ev v fs e r,
  get_cache H ev v fs CT_CSE e r = if handles_valid r then GHit else GMiss.
Proof. exact cse_checks_handles_only. Qed.
Theorem C04_handles_valid_meaning : forall r,
  handles_valid r = true <-> Forall (fun l => forall b, l = LHandle b -> b = true) (visit r).
Proof. exact handles_valid_spec. Qed.
Theorem C04_errors_not_replayed : forall H ev v fs ct r, ct <> CT_CSE -> get_cache H ev v fs ct true r = GMiss.
Proof. exact errors_not_replayed. Qed.

(** 3. Histories: any task writing any outputs, any state (any filesystem, any cached result --
    hence after any sequence of runs, deletions, truncations, rewrites, re-creations, touches).
    Repaired: no step raises; a run replays iff all external values are valid, else it executes
    once more; and whatever a run returns, replayed or recomputed, is valid / recorded against the
    filesystem as it is after the run. *)
Theorem C04_run_never_raises_fixed : forall H ev v tk st o st', content_missing_total v = true ->
  hstep H ev v tk st o <> HRaised st'.
Proof. exact run_never_raises. Qed.
Theorem C04_run_decides_by_validity_fixed : forall H ev v tk st mts r, full ev -> content_missing_total v = true ->
  h_cache st = Some r ->
  (Forall (leaf_still_valid H v (h_fs st)) (visit r) -> hstep H ev v tk st (HRun mts) = HReplayed st r) /\
  (~ Forall (leaf_still_valid H v (h_fs st)) (visit r) ->
     exists st' r', hstep H ev v tk st (HRun mts) = HExecuted st' r' /\ exec_task H v tk st mts = HExecuted st' r').
Proof. exact run_decides_by_validity. Qed.
Theorem C04_run_result_current_fixed : forall H ev v tk st mts, full ev -> content_missing_total v = true ->
  match hstep H ev v tk st (HRun mts) with
  | HReplayed st' r => st' = st /\ Forall (leaf_still_valid H v (h_fs st)) (visit r)
  | HExecuted st' r => Forall (leaf_recorded_now H v (h_fs st')) (visit r) /\ h_execs st' = S (h_execs st)
  | HRaised _ | HChanged _ => False
  end.
Proof. exact run_result_valid. Qed.
(** a re-execution leaves the task's bytes in the files and records hashes of that filesystem *)
Theorem C04_executed_reflects_state : forall H v tk st mts st' r,
  exec_task H v tk st mts = HExecuted st' r ->
  h_execs st' = S (h_execs st) /\ h_cache st' = Some r /\ h_fs st' = exec_fs (h_fs st) tk mts /\
  Forall (leaf_recorded_now H v (h_fs st')) (visit r).
Proof. exact executed_reflects_state. Qed.
Theorem C04_written_contents : forall fs files mts p d, NoDup (map fst files) -> In (p, d) files ->
  option_map content (fs_get (write_all fs files mts) p) = Some d.
Proof. exact (written_contents Hid). Qed.

(** as shipped: run, delete the ContentFile output, run again -> the second run raises *)
Theorem C04_run_refuted_as_shipped : forall H ev p d,
  let st0 := mkH [] None 0 in
  let st1 := hrun H ev shipped (w_task p d) st0 [HRun []; HRemove p] in
  h_execs st1 = 1%nat /\ hstep H ev shipped (w_task p d) st1 (HRun []) = HRaised st1.
Proof. exact run_raises_shipped. Qed.

(** Non-vacuity (repaired variant, identity hash): a task returning a ContentFile, a Dir and a plain
    value runs (1 execution), is replayed, and after the ContentFile is deleted runs again. *)
Definition ex_task : task :=
  [OutFile FContent (mkF [0%nat] 0%nat) (bs [97]%N);
   OutDir FBase [1%nat] [(mkF [1%nat] 0%nat, bs [98]%N); (mkF [1%nat;2%nat] 1%nat, bs [99]%N)];
   OutPlain].
Example C04_nonvacuous :
  let st1 := hrun Hid full_ev fixed ex_task (mkH [] None 0) [HRun []] in
  let st2 := hrun Hid full_ev fixed ex_task st1 [HRun []; HRemove (mkF [0%nat] 0%nat)] in
  h_execs st1 = 1%nat /\ h_execs st2 = 1%nat /\
  (exists r, h_cache st2 = Some r /\ ~ Forall (leaf_still_valid Hid fixed (h_fs st2)) (visit r)) /\
  h_execs (hrun Hid full_ev fixed ex_task st2 [HRun []]) = 2%nat /\
  option_map content (fs_get (h_fs (hrun Hid full_ev fixed ex_task st2 [HRun []])) (mkF [0%nat] 0%nat)) = Some (bs [97]%N).
Proof.
  split; [vm_compute; reflexivity|]. split; [vm_compute; reflexivity|]. split.
  - eexists. split; [vm_compute; reflexivity|]. intros F.
    apply (proj2 (all_valid_true Hid full_ev fixed _ _ (conj eq_refl eq_refl))) in F. vm_compute in F. discriminate F.
  - split; vm_compute; reflexivity.
Qed.

Print Assumptions C04_replay_only_if_valid.
Print Assumptions C04_replay_iff_valid_fixed.
Print Assumptions C04_lookup_never_raises_fixed.
Print Assumptions C04_refuted_contentfile_deleted.
Print Assumptions C04_run_never_raises_fixed.
Print Assumptions C04_run_decides_by_validity_fixed.
Print Assumptions C04_run_result_current_fixed.
Print Assumptions C04_run_refuted_as_shipped.
Print Assumptions C04_nonvacuous.
