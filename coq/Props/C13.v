(** C13 — Promises settle once and notify every callback exactly once.
    Only statements, closed by [exact] (or a two-line proof), and their assumptions.

    The model (Model/Promise.v) is a small-step machine; [reach c prog s] says that [s] is a
    state the machine passes through when running the history [prog] (any length, any nesting
    of callbacks, any re-entrant settlement/registration) under configuration [c]; a state is
    [quiescent] when the Python call stack is empty.  [regs s p] / [called s p] are the
    registrations made on promise [p] (one per then/catch call) and the registrations whose
    callback has been invoked, both in chronological order.

    [good c] fixes the two pinned behaviours (do_resolve/do_reject ignore a settled promise;
    then() ends with _notify()); both [shipped] and [fixed] are good.  [shipped] is
    promise.py as it is; [fixed] has the repaired _notify (mode Drain). *)
From Coq Require Import List ZArith Bool Arith Permutation.
From RV Require Import Model.Promise Proofs.PromiseBase Proofs.PromiseInv Proofs.PromiseThms Proofs.PromiseSettle Proofs.PromiseKinds.
Import ListNotations.
Open Scope list_scope.

Theorem C13_cfgs_good : good shipped /\ good fixed.
Proof. exact (conj good_shipped good_fixed). Qed.

(** Settle once: from ANY state, whatever runs afterwards, a settled promise keeps its outcome. *)
Theorem C13_settle_once : forall c, guard_settled c = true ->
  forall s s' t, steps c s s' -> state_of s t <> Pending -> state_of s' t = state_of s t.
Proof. exact settled_forever. Qed.

(** First settlement wins: the state of a promise is the outcome passed to the first
    do_resolve/do_reject ever called on it (Pending if none was). *)
Theorem C13_first_settlement_wins : forall c, guard_settled c = true ->
  forall prog s, reach c prog s -> forall t, state_of s t = first_try t (log s).
Proof. exact reach_FT. Qed.

(** Callbacks run only after settlement, and with the promise's outcome. *)
Theorem C13_callback_after_settlement : forall c, good c -> forall prog s, reach c prog s ->
  forall p r isres arg k, In (EvCall p r isres arg k) (log s) -> state_of s p = mk_outcome isres arg.
Proof. exact called_with_outcome. Qed.

(** What runs is what was registered: the resolver given to that then() if the promise is
    fulfilled, the rejector if it is rejected (the default propagation if none was given). Any cfg. *)
Theorem C13_called_is_registered_callback : forall c prog s, reach c prog s ->
  forall p r isres arg k, In (EvCall p r isres arg k) (log s) ->
  exists cres crej, In (EvReg r p cres crej) (log s) /\ k = if isres then cres else crej.
Proof. exact called_is_registered_callback. Qed.

Theorem C13_no_callback_while_pending : forall c, good c -> forall prog s, reach c prog s ->
  forall p, state_of s p = Pending -> called s p = [].
Proof. exact not_called_while_pending. Qed.

(** At most once, at every moment (also in the middle of nested notifications). *)
Theorem C13_callback_at_most_once : forall c, good c -> forall prog s, reach c prog s ->
  forall p, NoDup (called s p) /\ (forall r, In r (called s p) -> In r (regs s p)).
Proof. intros c G prog s R p. exact (conj (called_at_most_once c G prog s R p) (called_was_registered c G prog s R p)). Qed.

(** Exactly once: when the machine is quiescent, every registration on a settled promise --
    made before or after the settlement, at top level or from inside a callback -- has been
    invoked exactly once, and nothing is left in the promise's lists. *)
Theorem C13_callback_exactly_once : forall c, good c -> forall prog s, reach c prog s -> quiescent s ->
  forall p r, settled (state_of s p) -> In r (regs s p) -> count_occ Nat.eq_dec (called s p) r = 1.
Proof. intros c G prog s R Q p r. exact (quiescent_exactly_once c G prog s R p r Q). Qed.

Theorem C13_nothing_left_behind : forall c, good c -> forall prog s, reach c prog s -> quiescent s ->
  forall p pr, nth_error (heap s) p = Some pr -> settled (st pr) -> ress pr = [] /\ rejs pr = [].
Proof. intros c G prog s R Q p pr. exact (quiescent_lists_empty c G prog s R p pr Q). Qed.

(** Registration order. As shipped the clause is FALSE: *)
Definition C13_witness : list act :=
  [ANew;
   AThen 0 (Some (Func 1 [AThen 0 (Some (Func 3 [] (Ret EArg))) None] (Ret EArg))) None;   (* A: registers C on p *)
   AThen 0 (Some (Func 2 [] (Ret EArg))) None;                                              (* B *)
   AResolve 0 (EConst (VInt 1))].
Definition C13_witness_state := fst (run shipped 40 (init C13_witness)).

Theorem C13_order_refuted : exists prog s p,
  reach shipped prog s /\ quiescent s /\ settled (state_of s p) /\ called s p <> regs s p.
Proof.
  exists C13_witness, C13_witness_state, 0.
  assert (E : run shipped 40 (init C13_witness) = (C13_witness_state, true)) by (vm_compute; reflexivity).
  split; [exact (run_reach _ _ _ _ _ _ (reach_init _ _) E)|]. split; [exact (run_quiescent _ _ _ _ E)|].
  split; vm_compute; discriminate.
Qed.

(** The run order of the witness is A, C, B (labels 1, 3, 2); registration order is A, B, C. *)
Example C13_witness_log : user_calls (log C13_witness_state) = [(1, VInt 1); (3, VInt 1); (2, VInt 1)].
Proof. vm_compute. reflexivity. Qed.

(** With the repaired _notify (Drain) the clause holds for ALL histories: at every moment the
    invoked registrations are a prefix of the registrations, and at quiescence they are equal. *)
Theorem C13_order_fixed : forall c, good c -> mode c = Drain -> forall prog s, reach c prog s ->
  forall p, (exists rest, regs s p = called s p ++ rest) /\
            (quiescent s -> settled (state_of s p) -> called s p = regs s p).
Proof.
  intros c G M prog s R p.
  exact (conj (drain_called_prefix c G prog s R p M) (drain_quiescent_order c G prog s R p M)).
Qed.

Theorem C13_order_holds_fixed : forall prog s, reach fixed prog s -> quiescent s ->
  forall p, settled (state_of s p) -> called s p = regs s p.
Proof. intros prog s R Q p. exact (drain_quiescent_order fixed good_fixed prog s R p eq_refl Q). Qed.

(** What holds as shipped about order: the multiset of invoked registrations is right. *)
Theorem C13_order_shipped_partial : forall prog s, reach shipped prog s -> quiescent s ->
  forall p, settled (state_of s p) -> Permutation (regs s p) (called s p).
Proof. intros prog s R Q p. exact (quiescent_all_called shipped good_shipped prog s R p Q). Qed.

(* NOT PROVED (covered by the correspondence run and the implementation oracle only):
   chained_adopts : a then-child that is never settled directly ends in the state of the promise
                    returned by the callback (or fulfilled with its return value / rejected with
                    the raised error);
   all_spec       : Promise.all ps is fulfilled with the values in input order iff all ps are
                    fulfilled, and otherwise rejected with the first rejection observed;
   wait_spec      : wait_promises ps is fulfilled iff every input has settled.
   The machine implements all three through the same [then]/[settle] steps the theorems above
   are about. *)

(** Non-vacuity: a history with re-entrant registration, re-entrant settlement, a raising
    callback, a returned promise, late registration, Promise.all and wait_promises reaches a
    quiescent state in both variants, with settled promises that have several registrations. *)
Definition C13_demo : list act :=
  [ANew; ANew;
   AThen 0 (Some (Func 1 [AThen 0 (Some (Func 2 [] (Raise 7))) None; AResolve 1 EArg] (Ret (EConst (VProm 1)))))
           (Some (Func 3 [] (Ret EArg)));
   AThen 0 (Some (Func 4 [] (Ret EArg))) None;
   AAll [0; 1]; AWait [1; 0];
   AResolve 0 (EConst (VInt 5)); AReject 0 (EConst (VErr 1));
   AThen 0 (Some (Func 5 [] (Ret EArg))) None].

Example C13_nonvacuous :
  (forall c, In c [shipped; fixed] ->
     let s := fst (run c 200 (init C13_demo)) in
     reach c C13_demo s /\ quiescent s /\ state_of s 0 = Fulfilled (VInt 5) /\ length (regs s 0) = 6 /\
     Permutation (regs s 0) (called s 0)) /\
  user_calls (log (fst (run fixed 200 (init C13_demo)))) =
    [(1, VInt 5); (4, VInt 5); (2, VInt 5); (5, VInt 5)].
Proof.
  split; [|vm_compute; reflexivity].
  intros c [<-|[<-|[]]]; cbv zeta.
  - assert (E : run shipped 200 (init C13_demo) = (fst (run shipped 200 (init C13_demo)), true)) by (vm_compute; reflexivity).
    split; [exact (run_reach _ _ _ _ _ _ (reach_init _ _) E)|]. split; [exact (run_quiescent _ _ _ _ E)|].
    split; [vm_compute; reflexivity|]. split; [vm_compute; reflexivity|].
    apply (quiescent_all_called shipped good_shipped C13_demo _ (run_reach _ _ _ _ _ _ (reach_init _ _) E) 0 (run_quiescent _ _ _ _ E)).
    vm_compute. discriminate.
  - assert (E : run fixed 200 (init C13_demo) = (fst (run fixed 200 (init C13_demo)), true)) by (vm_compute; reflexivity).
    split; [exact (run_reach _ _ _ _ _ _ (reach_init _ _) E)|]. split; [exact (run_quiescent _ _ _ _ E)|].
    split; [vm_compute; reflexivity|]. split; [vm_compute; reflexivity|].
    apply (quiescent_all_called fixed good_fixed C13_demo _ (run_reach _ _ _ _ _ _ (reach_init _ _) E) 0 (run_quiescent _ _ _ _ E)).
    vm_compute. discriminate.
Qed.

Print Assumptions C13_settle_once.
Print Assumptions C13_first_settlement_wins.
Print Assumptions C13_callback_after_settlement.
Print Assumptions C13_called_is_registered_callback.
Print Assumptions C13_callback_at_most_once.
Print Assumptions C13_callback_exactly_once.
Print Assumptions C13_nothing_left_behind.
Print Assumptions C13_order_refuted.
Print Assumptions C13_order_fixed.
Print Assumptions C13_order_shipped_partial.
