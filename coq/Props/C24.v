(** C24 — Tag history behaves like a key-value multiset.
    Statements only (closed by [exact] or a two-line proof) and their assumptions.

    [run g init ops] is the tag table after the `redun tag` commands [ops] under variant [g]
    ([shipped]: the code as it is; [fixed]: with the repair proposed for the three defects below);
    [cur_pairs s e] is what get_tags lists for entity [e]; [spec_run ops] is the key-value model of
    the property (add inserts pairs, update replaces all values of the given keys, rm removes the
    given pairs / keys), read as a set of (entity, key, value). *)
From Coq Require Import List Arith Bool PeanoNat Lia.
From RV Require Import Model.Tags Proofs.TagsBase Proofs.TagsInv Proofs.TagsSweep.
Import ListNotations.
Open Scope list_scope.

(** The tag edit graph stays acyclic: all variants, all histories, no bound.  (Every edit goes
    from an older row to a newer one.) *)
Theorem C24_edit_graph_acyclic : forall g ops s, run g init ops = Some s -> acyclic s.
Proof. intros g ops s H. apply LI_acyclic. exact (run_LI g ops init s LI_init H). Qed.

(** The walk of record_tags(new=True) down the superseded versions always ends: no history makes
    the model run out of fuel (all variants, no bound).  This is the termination of the recursion
    `record_tags -> record_tags(parents=[tag_hash])`. *)
Theorem C24_walk_terminates : forall g ops, exists s, run g init ops = Some s.
Proof. intros g ops. exact (run_total g ops init LI_init). Qed.

(** What a variant needs from a history (see [op_okb]): as shipped, no command names a pair twice and
    no `rm` names a pair whose value is null; the repaired variant needs nothing. *)
Definition ok_for (g : cfg) (ops : list op) : Prop := Forall (fun o => op_okb g o = true) ops.
Definition in_scope (ops : list op) : Prop := length ops <= 4 /\ Forall (fun o => In o alphabet) ops.

Lemma spec_has_In Sp e k v : spec_has Sp e k v = true <-> In (e, k, v) Sp.
Proof.
  unfold spec_has. rewrite existsb_exists. split.
  - intros [[[e' k'] v'] [H1 H2]]. apply andb_true_iff in H2. destruct H2 as [H2 H3].
    apply andb_true_iff in H2. destruct H2 as [H2 H4]. apply Nat.eqb_eq in H2, H4. apply jval_eqb_eq in H3. now subst.
  - intros H. exists (e, k, v). split; [assumption|]. rewrite !Nat.eqb_refl. simpl. now apply jval_eqb_eq.
Qed.

Lemma pair_in_In l k v : pair_in l k v = true <-> In (k, v) l.
Proof.
  unfold pair_in. rewrite existsb_exists. split.
  - intros [[k' v'] [H1 H2]]. simpl in H2. apply andb_true_iff in H2. destruct H2 as [H2 H3].
    apply Nat.eqb_eq in H2. apply jval_eqb_eq in H3. now subst.
  - intros H. exists (k, v). split; [assumption|]. simpl. rewrite Nat.eqb_refl. simpl. now apply jval_eqb_eq.
Qed.

Lemma refines_of_sweep g strict : sweep g strict 4 init [] = true ->
  forall ops, in_scope ops -> ok_for g ops ->
  exists s, run g init ops = Some s /\ run_log g init ops = repeat 0 (length ops) /\
    forall e, In e sw_ents ->
      (forall k v, In (k, v) (cur_pairs s e) <-> spec_has (spec_run ops) e k v = true) /\
      (strict = true -> NoDup (cur_pairs s e)).
Proof.
  intros Hs ops [Hl Ha] Hok.
  destruct (sweep_sound g strict 4 init [] Hs ops Hl) as [s [H1 [H2 H3]]].
  { unfold ok_for in Hok. rewrite Forall_forall in *. intros o Ho. split; auto. }
  exists s. split; [assumption|]. split; [assumption|]. intros e He. split.
  - intros k v. destruct (agreeb_sound strict s _ H3 e He k v) as [A [B _]]. split; [exact A|].
    intros H. apply spec_has_In in H. apply B in H. now apply pair_in_In.
  - destruct (agreeb_sound strict s _ H3 e He 0 VNull) as [_ [_ C]]. exact C.
Qed.

(** Refinement to the key-value model, repaired variant: for EVERY history of at most 4 commands
    over the 30-command alphabet [alphabet] (2 entities, 2 keys, values null/1/2, single pairs, bare
    keys, the same pair twice, two values of one key, two keys at once) no command fails, the current
    tags of each entity are exactly the pairs of the model, and no pair is listed twice.
    Bound: 4 commands, by exhaustive evaluation inside Coq (810 000 histories, prefix sharing). *)
Theorem C24_refines_set_fixed_bounded : forall ops, in_scope ops ->
  exists s, run fixed init ops = Some s /\ run_log fixed init ops = repeat 0 (length ops) /\
    forall e, In e sw_ents ->
      (forall k v, In (k, v) (cur_pairs s e) <-> spec_has (spec_run ops) e k v = true) /\
      NoDup (cur_pairs s e).
Proof.
  intros ops Hs. destruct (refines_of_sweep fixed true sweep_fixed_4 ops Hs) as [s [A [B C]]].
  - apply Forall_forall. intros [? ?|? ?|? ? ?] _; reflexivity.
  - exists s. repeat split; try assumption; destruct (C e H); auto. now apply H0. now apply H0.
Qed.

(** The same as shipped, for the histories that avoid the two failing commands ([ok_for]); the
    listing may repeat a pair (see [C24_dup_listing_refuted]), the *set* of current pairs is right. *)
Theorem C24_refines_set_shipped_bounded_partial : forall ops, in_scope ops -> ok_for shipped ops ->
  exists s, run shipped init ops = Some s /\ run_log shipped init ops = repeat 0 (length ops) /\
    forall e, In e sw_ents ->
      forall k v, In (k, v) (cur_pairs s e) <-> spec_has (spec_run ops) e k v = true.
Proof.
  intros ops Hs Hok. destruct (refines_of_sweep shipped false sweep_shipped_4 ops Hs Hok) as [s [A [B C]]].
  exists s. repeat split; try assumption; destruct (C e H) as [D _]; now apply D.
Qed.

(* NOT PROVED (unbounded form of the two theorems above):
     forall g ops s, ok_for g ops -> run g init ops = Some s ->
       forall e k v, In (k, v) (cur_pairs s e) <-> spec_has (spec_run ops) e k v = true
   and, for g = fixed, NoDup (cur_pairs s e).
   The invariant needed is known (TagEdit = parent lists; a row is superseded iff it is not current;
   parents of every row are not current; see the note at the end of Proofs/TagsInv.v); the induction
   over record_tags was not completed in the time available.  The correspondence run and the
   implementation oracle test the same statement on longer histories and larger alphabets. *)

(** Re-adding a deleted pair makes it current again (both variants; any prefix of 2 commands). *)
Theorem C24_readd_after_delete : forall g, g = shipped \/ g = fixed ->
  forall ops k v, length ops <= 2 -> Forall (fun o => In o alphabet) ops -> ok_for g ops ->
  In k [0; 1] -> In v [VJ 1; VJ 2] ->
  exists s, run g init (ops ++ [TRm 0 [(k, v)] []; TAdd 0 [(k, v)]]) = Some s /\ In (k, v) (cur_pairs s 0).
Proof.
  intros g Hg ops k v Hl Ha Hok Hk Hv.
  assert (In (TRm 0 [(k, v)] []) alphabet /\ In (TAdd 0 [(k, v)]) alphabet) as [I1 I2].
  { simpl in Hk, Hv. destruct Hk as [<-|[<-|[]]], Hv as [<-|[<-|[]]]; split; vm_compute; tauto. }
  assert (in_scope (ops ++ [TRm 0 [(k, v)] []; TAdd 0 [(k, v)]])) as Sc.
  { split; [rewrite app_length; simpl; lia|]. apply Forall_app. split; [assumption|]. constructor; [assumption|]. constructor; [assumption|constructor]. }
  assert (ok_for g (ops ++ [TRm 0 [(k, v)] []; TAdd 0 [(k, v)]])) as Ok.
  { apply Forall_app. split; [assumption|].
    simpl in Hv. destruct Hg as [-> | ->], Hv as [<-|[<-|[]]]; repeat constructor. }
  assert (forall s, (forall k' v', In (k', v') (cur_pairs s 0) <->
                      spec_has (spec_run (ops ++ [TRm 0 [(k, v)] []; TAdd 0 [(k, v)]])) 0 k' v' = true) ->
                    In (k, v) (cur_pairs s 0)) as Fin.
  { intros s H. apply H. unfold spec_run. rewrite fold_left_app. simpl. rewrite Nat.eqb_refl. simpl.
    assert (jval_eqb v v = true) as -> by now apply jval_eqb_eq. reflexivity. }
  destruct Hg as [-> | ->].
  - destruct (C24_refines_set_shipped_bounded_partial _ Sc Ok) as [s [A [_ C]]]. exists s. split; [assumption|].
    apply Fin. apply C. simpl. tauto.
  - destruct (C24_refines_set_fixed_bounded _ Sc) as [s [A [_ C]]]. exists s. split; [assumption|].
    apply Fin. apply C. simpl. tauto.
Qed.

(** As shipped the listing is not a set: after `add k=1; update k=2; add k=2` get_tags lists k=2
    twice (the pair is current on the version made by update and on a fresh parentless version). *)
Theorem C24_dup_listing_refuted :
  exists ops s, ok_for shipped ops /\ run shipped init ops = Some s /\ ~ NoDup (cur_pairs s 0).
Proof.
  exists [TAdd 0 [(0, VJ 1)]; TUpdate 0 [(0, VJ 2)]; TAdd 0 [(0, VJ 2)]]. eexists.
  split; [repeat constructor|]. split; [vm_compute; reflexivity|].
  intros H. inversion H as [|? ? Hn _]. apply Hn. simpl. tauto.
Qed.

(** As shipped `rm k=null` does not remove the pair (k, null). *)
Theorem C24_null_delete_refuted :
  exists ops s, run shipped init ops = Some s /\
    In (0, VNull) (cur_pairs s 0) /\ spec_has (spec_run ops) 0 0 VNull = false.
Proof.
  exists [TAdd 0 [(0, VNull)]; TRm 0 [(0, VNull)] []]. eexists.
  split; [vm_compute; reflexivity|]. split; [simpl; tauto|reflexivity].
Qed.

(** As shipped a command that names one new pair twice fails (IntegrityError) and adds nothing. *)
Theorem C24_same_pair_twice_refuted :
  exists ops s, run shipped init ops = Some s /\ run_log shipped init ops = [1] /\
    cur_pairs s 0 = [] /\ spec_has (spec_run ops) 0 0 (VJ 1) = true.
Proof.
  exists [TAdd 0 [(0, VJ 1); (0, VJ 1)]]. eexists.
  split; [vm_compute; reflexivity|]. split; [reflexivity|]. split; reflexivity.
Qed.

(** Non-vacuity: a history in scope that exercises the superseded walk, an update over two values
    and a delete; hypotheses hold and the final state is not trivial. *)
Definition nv_ops : list op :=
  [TAdd 0 [(0, VJ 1); (0, VJ 2)]; TRm 0 [(0, VJ 1)] []; TAdd 0 [(0, VJ 1)]; TUpdate 0 [(0, VJ 1); (1, VJ 1)]].
Example C24_nonvacuous :
  in_scope nv_ops /\ ok_for shipped nv_ops /\ ok_for fixed nv_ops /\
  exists s, run shipped init nv_ops = Some s /\ length (rows s) = 6 /\ length (edits s) = 6 /\
            cur_pairs s 0 = [(0, VJ 1); (1, VJ 1)] /\ acyclic s.
Proof.
  split.
  { split; [simpl; lia|]. apply Forall_forall. intros o Ho.
    simpl in Ho. destruct Ho as [<-|[<-|[<-|[<-|[]]]]]; vm_compute; tauto. }
  split; [repeat constructor|]. split; [repeat constructor|].
  destruct (C24_walk_terminates shipped nv_ops) as [s Hs]. exists s. split; [assumption|].
  assert (A := C24_edit_graph_acyclic shipped nv_ops s Hs).
  vm_compute in Hs. injection Hs as <-. repeat split; try reflexivity. exact A.
Qed.

Print Assumptions C24_edit_graph_acyclic.
Print Assumptions C24_walk_terminates.
Print Assumptions C24_refines_set_fixed_bounded.
Print Assumptions C24_refines_set_shipped_bounded_partial.
Print Assumptions C24_readd_after_delete.
Print Assumptions C24_dup_listing_refuted.
Print Assumptions C24_null_delete_refuted.
Print Assumptions C24_same_pair_twice_refuted.
