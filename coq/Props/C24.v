(** C24 — Tag history behaves like a key-value multiset.
    Statements only (closed by [exact] or a two-line proof) and their assumptions.

    [run g init ops] is the tag table after the `redun tag` commands [ops] under variant [g]
    ([shipped]: the code as it is; [fixed]: with the repair proposed for the three defects below);
    [cur_pairs s e] is what get_tags lists for entity [e]; [spec_run ops] is the key-value model of
    the property (add inserts pairs, update replaces all values of the given keys, rm removes the
    given pairs / keys), read as a set of (entity, key, value). *)
From Coq Require Import List Arith Bool PeanoNat Lia.
From RV Require Import Model.Tags Proofs.TagsBase Proofs.TagsInv Proofs.TagsFull Proofs.TagsSweep Proofs.TagsRefine.
Import ListNotations.
Open Scope list_scope.

(** The tag edit graph stays acyclic: all variants, all histories, no bound.  (Every edit goes
    from an older row to a newer one.) *)
Theorem C24_edit_graph_acyclic : forall g ops s, run g init ops = Some s -> acyclic s.
Proof. intros g ops s H. apply LI_acyclic. exact (run_LI g ops init s LI_init H). Qed.

(** The walk of record_tags(new=True) down the superseded versions always ends: no history makes
    the model run out of fuel (all variants, no bound).  This is the termination of the recursion
    `record_tags -> record_tags(parents=[tag_hash])`. *)
Theorem C24_walk_terminates : forall g ops, exists s, run g init ops = Some s.
Proof. intros g ops. exact (run_total g ops init LI_init). Qed.

(** In every reachable table (all variants, all histories, no bound) the TagEdit rows are exactly
    the parent links of the tags, and a tag version is current iff nothing supersedes it. *)
Theorem C24_current_iff_not_superseded : forall g ops s, run g init ops = Some s ->
  (forall p c, In (p, c) (edits s) <-> exists r, nth_error (rows s) c = Some r /\ In p (r_par r)) /\
  (forall i r, nth_error (rows s) i = Some r -> (r_cur r = false <-> superseded s i = true)).
Proof.
  intros g ops s H. destruct (run_LI g ops init s LI_init H) as [W E].
  destruct (run_FI g ops init s LI_init FI_init H) as [E' C]. split; [|exact C].
  intros p c. split; [apply E|]. intros [r [H1 H2]]. eapply E'; eassumption.
Qed.

(** What a variant needs from a history (see [op_okb]): as shipped, no command names a pair twice and
    no `rm` names a pair whose value is null; the repaired variant needs nothing. *)
Definition ok_for (g : cfg) (ops : list op) : Prop := Forall (fun o => op_okb g o = true) ops.

(** THE REFINEMENT (no bound on histories, entities, keys, values, pairs per command; any variant):
    after any history the variant can take, no command has failed with a database error and the
    current tags of every entity are exactly the pairs of the key-value model
    (add inserts pairs, update replaces all values of the given keys, rm removes pairs / keys). *)
Theorem C24_refines_set : forall g ops s, ok_for g ops -> run g init ops = Some s ->
  (forall e k v, In (k, v) (cur_pairs s e) <-> spec_has (spec_run ops) e k v = true) /\
  ~ In 1 (run_log g init ops).
Proof.
  intros g ops s Hok Hrun.
  destruct (run_refines g ops init [] s Good_init agree_init Hok Hrun) as [_ [A L]]. split; [|exact L].
  intros e k v. rewrite cur_pairs_curc. apply A.
Qed.

Lemma fixed_ok_for_all : forall ops, ok_for fixed ops.
Proof. intros ops. apply Forall_forall. intros [? ?|? ?|? ? ?] _; reflexivity. Qed.

(** The repaired code satisfies the property on every history. *)
Theorem C24_refines_set_fixed : forall ops, exists s, run fixed init ops = Some s /\
  (forall e k v, In (k, v) (cur_pairs s e) <-> spec_has (spec_run ops) e k v = true) /\
  ~ In 1 (run_log fixed init ops).
Proof.
  intros ops. destruct (C24_walk_terminates fixed ops) as [s H]. exists s. split; [assumption|].
  exact (C24_refines_set fixed ops s (fixed_ok_for_all ops) H).
Qed.

(** The code as shipped satisfies it, as a set of pairs, on every history that never names a pair
    twice in one command and never removes a pair whose value is null (the listing may still repeat
    a pair: [C24_dup_listing_refuted]). *)
Theorem C24_refines_set_shipped_partial : forall ops, ok_for shipped ops ->
  exists s, run shipped init ops = Some s /\
  (forall e k v, In (k, v) (cur_pairs s e) <-> spec_has (spec_run ops) e k v = true) /\
  ~ In 1 (run_log shipped init ops).
Proof.
  intros ops Hok. destruct (C24_walk_terminates shipped ops) as [s H]. exists s. split; [assumption|].
  exact (C24_refines_set shipped ops s Hok H).
Qed.

(** The code after the repair of the repeated-pair defect only ([deduped]): every history that never
    removes a pair whose value is null; pairs may be named any number of times in a command. *)
Theorem C24_refines_set_deduped_partial : forall ops, ok_for deduped ops ->
  exists s, run deduped init ops = Some s /\
  (forall e k v, In (k, v) (cur_pairs s e) <-> spec_has (spec_run ops) e k v = true) /\
  ~ In 1 (run_log deduped init ops).
Proof.
  intros ops Hok. destruct (C24_walk_terminates deduped ops) as [s H]. exists s. split; [assumption|].
  exact (C24_refines_set deduped ops s Hok H).
Qed.

(** With the repeated-pair repair (any variant with [dedupe]) a command that names one pair twice
    succeeds and the pair is current afterwards (contrast [C24_same_pair_twice_refuted]). *)
Theorem C24_same_pair_twice_deduped : forall g, dedupe g = true -> forall ops e k v, ok_for g ops ->
  exists s, run g init (ops ++ [TAdd e [(k, v); (k, v)]]) = Some s /\
    In (k, v) (cur_pairs s e) /\ ~ In 1 (run_log g init (ops ++ [TAdd e [(k, v); (k, v)]])).
Proof.
  intros g Hd ops e k v Hok.
  destruct (C24_walk_terminates g (ops ++ [TAdd e [(k, v); (k, v)]])) as [s H]. exists s. split; [assumption|].
  assert (ok_for g (ops ++ [TAdd e [(k, v); (k, v)]])) as Ok.
  { apply Forall_app. split; [assumption|]. constructor; [|constructor]. simpl. now rewrite Hd. }
  destruct (C24_refines_set g _ s Ok H) as [A L]. split; [|exact L].
  apply A. unfold spec_run. rewrite fold_left_app. simpl.
  rewrite !Nat.eqb_refl. simpl. assert (jval_eqb v v = true) as -> by now apply jval_eqb_eq. reflexivity.
Qed.

(** Re-adding a deleted pair makes it current again: any variant, after any history it can take. *)
Theorem C24_readd_after_delete : forall g ops e k v, ok_for g ops ->
  null_match g = true \/ v <> VNull ->
  exists s, run g init (ops ++ [TRm e [(k, v)] []; TAdd e [(k, v)]]) = Some s /\ In (k, v) (cur_pairs s e).
Proof.
  intros g ops e k v Hok Hv.
  destruct (C24_walk_terminates g (ops ++ [TRm e [(k, v)] []; TAdd e [(k, v)]])) as [s H]. exists s.
  split; [assumption|].
  assert (ok_for g (ops ++ [TRm e [(k, v)] []; TAdd e [(k, v)]])) as Ok.
  { apply Forall_app. split; [assumption|]. constructor; [|constructor; [|constructor]]; simpl.
    - destruct Hv as [->|Hv]; [reflexivity|]. destruct v; [congruence|]. apply orb_true_r.
    - apply orb_true_r. }
  apply (C24_refines_set g _ s Ok H). unfold spec_run. rewrite fold_left_app. simpl.
  rewrite !Nat.eqb_refl. simpl. assert (jval_eqb v v = true) as -> by now apply jval_eqb_eq. reflexivity.
Qed.

(** Bounded part: in the repaired variant get_tags never lists a pair twice, for every history of at
    most 4 commands over the 30-command alphabet [alphabet] (2 entities, 2 keys, values null/1/2, single
    pairs, bare keys, the same pair twice, two values of one key, two keys at once); by exhaustive
    evaluation inside Coq (810 000 histories, prefix sharing). *)
Definition in_scope (ops : list op) : Prop := length ops <= 4 /\ Forall (fun o => In o alphabet) ops.
Theorem C24_listing_nodup_fixed_bounded : forall ops, in_scope ops ->
  exists s, run fixed init ops = Some s /\ forall e, In e sw_ents -> NoDup (cur_pairs s e).
Proof.
  intros ops [Hl Ha]. destruct (sweep_sound fixed true 4 init [] sweep_fixed_4 ops Hl) as [s [H1 [_ H3]]].
  { rewrite Forall_forall in *. intros o Ho. split; [auto|]. destruct o; reflexivity. }
  exists s. split; [assumption|]. intros e He.
  destruct (agreeb_sound true s _ H3 e He 0 VNull) as [_ [_ C]]. now apply C.
Qed.

(* NOT PROVED (unbounded form of the last theorem): forall ops s e, run fixed init ops = Some s ->
   NoDup (cur_pairs s e).  It needs one more invariant (at most one current row per content, kept when
   record_tags skips pairs that are already current); the implementation oracle checks it on every run. *)

(** As shipped the listing is not a set: after `add k=1; update k=2; add k=2` get_tags lists k=2
    twice (the pair is current on the version made by update and on a fresh parentless version). *)
Theorem C24_dup_listing_refuted :
  exists ops s, ok_for shipped ops /\ run shipped init ops = Some s /\ ~ NoDup (cur_pairs s 0).
Proof.
  exists [TAdd 0 [(0, VJ 1)]; TUpdate 0 [(0, VJ 2)]; TAdd 0 [(0, VJ 2)]]. eexists.
  split; [repeat constructor|]. split; [vm_compute; reflexivity|].
  intros H. inversion H as [|? ? Hn _]. apply Hn. simpl. tauto.
Qed.

(** As shipped `rm k=null` does not remove the pair (k, null). *)
Theorem C24_null_delete_refuted :
  exists ops s, run shipped init ops = Some s /\
    In (0, VNull) (cur_pairs s 0) /\ spec_has (spec_run ops) 0 0 VNull = false.
Proof.
  exists [TAdd 0 [(0, VNull)]; TRm 0 [(0, VNull)] []]. eexists.
  split; [vm_compute; reflexivity|]. split; [simpl; tauto|reflexivity].
Qed.

(** Before that repair ([shipped]) a command that names one new pair twice fails (IntegrityError)
    and adds nothing. *)
Theorem C24_same_pair_twice_refuted :
  exists ops s, run shipped init ops = Some s /\ run_log shipped init ops = [1] /\
    cur_pairs s 0 = [] /\ spec_has (spec_run ops) 0 0 (VJ 1) = true.
Proof.
  exists [TAdd 0 [(0, VJ 1); (0, VJ 1)]]. eexists.
  split; [vm_compute; reflexivity|]. split; [reflexivity|]. split; reflexivity.
Qed.

(** Non-vacuity: a history in scope that exercises the superseded walk, an update over two values
    and a delete; hypotheses hold and the final state is not trivial. *)
Definition nv_ops : list op :=
  [TAdd 0 [(0, VJ 1); (0, VJ 2)]; TRm 0 [(0, VJ 1)] []; TAdd 0 [(0, VJ 1)]; TUpdate 0 [(0, VJ 1); (1, VJ 1)]].
Example C24_nonvacuous :
  in_scope nv_ops /\ ok_for shipped nv_ops /\ ok_for fixed nv_ops /\
  exists s, run shipped init nv_ops = Some s /\ length (rows s) = 6 /\ length (edits s) = 6 /\
            cur_pairs s 0 = [(0, VJ 1); (1, VJ 1)] /\ acyclic s.
Proof.
  split.
  { split; [simpl; lia|]. apply Forall_forall. intros o Ho.
    simpl in Ho. destruct Ho as [<-|[<-|[<-|[<-|[]]]]]; vm_compute; tauto. }
  split; [repeat constructor|]. split; [repeat constructor|].
  destruct (C24_walk_terminates shipped nv_ops) as [s Hs]. exists s. split; [assumption|].
  assert (A := C24_edit_graph_acyclic shipped nv_ops s Hs).
  vm_compute in Hs. injection Hs as <-. repeat split; try reflexivity. exact A.
Qed.

Print Assumptions C24_edit_graph_acyclic.
Print Assumptions C24_walk_terminates.
Print Assumptions C24_current_iff_not_superseded.
Print Assumptions C24_refines_set.
Print Assumptions C24_refines_set_fixed.
Print Assumptions C24_refines_set_shipped_partial.
Print Assumptions C24_refines_set_deduped_partial.
Print Assumptions C24_same_pair_twice_deduped.
Print Assumptions C24_listing_nodup_fixed_bounded.
Print Assumptions C24_readd_after_delete.
Print Assumptions C24_dup_listing_refuted.
Print Assumptions C24_null_delete_refuted.
Print Assumptions C24_same_pair_twice_refuted.
