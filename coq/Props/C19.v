(** C19 -- Nested values are traversed and rebuilt faithfully.
    Only statements, closed by [exact], witnesses by [vm_compute], and assumptions.

    Model: Model/Nested.v ([iter_nested] = iter_nested_value, [map_v] = map_nested_value,
    [evaluate] = the two passes of Scheduler.evaluate), interpreted from the configuration
    the translator regenerates from redun/utils.py (coq/Gen/C19Gen.v ties it to
    [cfg_of s d]; [shipped = cfg_of SetAttr Unguarded], [fixed = cfg_of ObjSetAttr Guarded]).
    All theorems are for every leaf type [A], every function [f] (which may return a
    container), every nested value [v] of any depth and width. *)
From Coq Require Import List ZArith Bool Permutation.
From RV Require Import Model.Nested Proofs.NestedSpec Proofs.NestedSubst Proofs.NestedIter
  Proofs.NestedMap Proofs.NestedEval Proofs.NestedHazard.
Import ListNotations.
Open Scope list_scope.

(** ** The leaf iterator: the explicit-stack loop terminates after [pops v] pops and
    yields exactly the leaves (dict keys included, all dataclass fields included),
    in reverse left-to-right order; any fuel gives that answer or runs out. *)
Theorem C19_iter_yields_leaves : forall A s d (v : val A) fuel,
  pops v <= fuel -> iter_nested A (cfg_of s d) fuel v = IDone (rev (leaves v)).
Proof. exact iter_nested_leaves. Qed.

Theorem C19_iter_fuel_irrelevant : forall A s d (v : val A) fuel out,
  iter_nested A (cfg_of s d) fuel v = IDone out -> out = rev (leaves v).
Proof. exact iter_nested_any_fuel. Qed.

(** ** The leaves map_nested_value visits (calls func on) are exactly the ones the
    iterator yields -- whenever it returns, with or without collisions, as shipped or
    repaired. *)
Theorem C19_map_visits_leaves : forall A leq lhash s d (f : A -> val A) (v : val A) log w fuel out,
  map_v A leq lhash (cfg_of s d) f v = (log, Ok w) ->
  iter_nested A (cfg_of s d) fuel v = IDone out ->
  Permutation log out.
Proof.
  intros A leq lhash s d f v log w fuel out HM HI.
  rewrite (map_v_log A leq lhash s d f v log w HM), (iter_nested_any_fuel A s d v fuel out HI).
  rewrite <- Permutation_rev. apply visit_order_perm.
Qed.

Theorem C19_map_call_order : forall A leq lhash s d (f : A -> val A) (v : val A) log w,
  map_v A leq lhash (cfg_of s d) f v = (log, Ok w) -> log = visit_order v.
Proof. exact map_v_log. Qed.

(** ** Faithful rebuild.  [subst f v] is [v] with the same constructors, lengths, named
    tuple / dataclass classes, field names and extra attributes and [f a] in place of
    every leaf [a] ([rebuilt] says so as a relation and determines it); dict keys are
    rebuilt too, non-init dataclass fields are rebuilt too.
    Sets and dict keys cannot keep two equal or unhashable images, so the statement has
    the premise [collision_free f v] (in every set / dict node the rebuilt elements /
    keys are hashable and pairwise different for ==). *)
Theorem C19_map_rebuilds_fixed : forall A leq lhash (f : A -> val A) (v : val A),
  collision_free leq lhash f v = true ->
  map_v A leq lhash fixed f v = (visit_order v, Ok (subst f v)).
Proof. intros. apply map_v_ok; auto using dc_ok_fixed. Qed.

(** As shipped the same holds only away from two dataclass shapes ([dc_ok]): a frozen
    dataclass with a non-init field (setattr raises FrozenInstanceError) and a
    slots=True dataclass (value.__dict__ raises AttributeError). *)
Theorem C19_map_rebuilds_shipped_partial : forall A leq lhash (f : A -> val A) (v : val A),
  collision_free leq lhash f v = true -> dc_ok SetAttr Unguarded v = true ->
  map_v A leq lhash shipped f v = (visit_order v, Ok (subst f v)).
Proof. intros. apply map_v_ok; auto. Qed.

(** any mix of the two repairs: each removes its own premise *)
Theorem C19_map_rebuilds_any : forall A leq lhash s d (f : A -> val A) (v : val A),
  collision_free leq lhash f v = true -> dc_ok s d v = true ->
  map_v A leq lhash (cfg_of s d) f v = (visit_order v, Ok (subst f v)).
Proof. exact map_v_ok. Qed.

Theorem C19_rebuild_shape : forall A B (f : A -> val B) (v : val A),
  rebuilt f v (subst f v) /\ (forall w, rebuilt f v w -> w = subst f v).
Proof. intros. split; [apply subst_rebuilt|apply rebuilt_unique]. Qed.

Theorem C19_rebuild_leaves : forall A B (f : A -> val B) (v : val A),
  leaves (subst f v) = flat_map (fun a => leaves (f a)) (leaves v).
Proof. exact leaves_subst. Qed.

Theorem C19_rebuild_leaves_leafwise : forall A B (g : A -> B) (v : val A),
  leaves (subst (fun a => Leaf (g a)) v) = map g (leaves v).
Proof. exact leaves_subst_leaf. Qed.

Theorem C19_map_identity : forall A leq lhash (v : val A),
  wf leq lhash v = true -> map_v A leq lhash fixed (@Leaf A) v = (visit_order v, Ok v).
Proof.
  intros A leq lhash v H. rewrite <- (subst_leaf_id A v) at 3.
  apply map_v_ok; auto using dc_ok_fixed.
Qed.

(** ** The unchanged code violates the property on the two dataclass shapes. *)
Definition Zhash (_ : Z) := true.
Definition frozen_cls : dcls := {| dc_id := 1; dc_frozen := true; dc_slots := false; dc_hash := HFields |}.
Definition slots_cls : dcls := {| dc_id := 2; dc_frozen := false; dc_slots := true; dc_hash := HNone |}.
Definition frozen_noninit : val Z :=
  VData frozen_cls [({| f_name := 0; f_init := true |}, Leaf 1%Z);
                    ({| f_name := 1; f_init := false |}, Leaf 2%Z)] [].
Definition slots_value : val Z := VData slots_cls [({| f_name := 0; f_init := true |}, Leaf 1%Z)] [].
Definition incr (a : Z) : val Z := Leaf (a + 1000)%Z.

Theorem C19_shipped_refuted_frozen_noninit :
  exists v : val Z, collision_free Z.eqb Zhash incr v = true /\
    iter_nested Z shipped (pops v) v = IDone [2; 1]%Z /\
    map_v Z Z.eqb Zhash shipped incr v = ([1; 2]%Z, Err EFrozen) /\
    map_v Z Z.eqb Zhash fixed incr v = ([1; 2]%Z, Ok (subst incr v)).
Proof. exists frozen_noninit. vm_compute. repeat split. Qed.

Theorem C19_shipped_refuted_slots :
  exists v : val Z, collision_free Z.eqb Zhash incr v = true /\
    iter_nested Z shipped (pops v) v = IDone [1]%Z /\
    map_v Z Z.eqb Zhash shipped incr v = ([1]%Z, Err ENoDict) /\
    map_v Z Z.eqb Zhash fixed incr v = ([1]%Z, Ok (subst incr v)).
Proof. exists slots_value. vm_compute. repeat split. Qed.

(** ... and on every value that contains one of them, for every func, with or without
    collisions: map_nested_value returns only if no dataclass step raises ([dc_ok]), so as
    shipped it never returns on such a value although the iterator yields its leaves. *)
Theorem C19_map_returns_only_if_dc_ok : forall A leq lhash s d (f : A -> val A) (v : val A) log w,
  map_v A leq lhash (cfg_of s d) f v = (log, Ok w) -> dc_ok s d v = true.
Proof. exact map_v_returns_dc_ok. Qed.

Theorem C19_shipped_refuted_general : forall A leq lhash (f : A -> val A) (v : val A),
  dc_ok SetAttr Unguarded v = false ->
  (exists log e, map_v A leq lhash shipped f v = (log, Err e)) /\
  iter_nested A shipped (pops v) v = IDone (rev (leaves v)).
Proof.
  intros. split; [now apply map_v_never_returns_on_hazard|now apply iter_nested_leaves].
Qed.

(** ** The collision case, shown explicitly: equal images collapse (and an unhashable
    image raises), so [collision_free] cannot be dropped. *)
Example C19_collision_case :
  map_v Z Z.eqb Zhash fixed (fun _ => Leaf 0%Z) (VSet [Leaf 1%Z; Leaf 2%Z])
    = ([1; 2]%Z, Ok (VSet [Leaf 0%Z])) /\
  map_v Z Z.eqb Zhash fixed (fun a => Leaf (a mod 2)%Z)
        (VDict [(Leaf 1%Z, Leaf 10%Z); (Leaf 3%Z, Leaf 11%Z); (Leaf 2%Z, Leaf 12%Z)])
    = ([1; 10; 3; 11; 2; 12]%Z, Ok (VDict [(Leaf 1%Z, Leaf 1%Z); (Leaf 0%Z, Leaf 0%Z)])) /\
  map_v Z Z.eqb Zhash fixed (fun a => VList [Leaf a]) (VSet [Leaf 1%Z; Leaf 2%Z])
    = ([1]%Z, Err EUnhashable).
Proof. vm_compute. repeat split. Qed.

(** ** Consequence for Scheduler.evaluate (map eval_term, then map resolve_term): every
    expression nested anywhere is replaced by its result and no expression remains.
    Premises (about single leaves, proved elsewhere / by the scheduler properties):
    non-expressions are left alone by both passes; the result of an expression contains
    no expression. *)
Theorem C19_eval_replaces_all_exprs : forall A leq lhash (is_expr : A -> bool) (ev rs : A -> val A),
  (forall a, is_expr a = false -> ev a = Leaf a /\ rs a = Leaf a) ->
  (forall a, is_expr a = true -> forall b, In b (leaves (subst rs (ev a))) -> is_expr b = false) ->
  forall v : val A,
  collision_free leq lhash ev v = true ->
  collision_free leq lhash rs (subst ev v) = true ->
  exists log,
    evaluate A leq lhash fixed ev rs v = (log, Ok (subst (result_of A ev rs) v)) /\
    rebuilt (result_of A ev rs) v (subst (result_of A ev rs) v) /\
    (forall b, In b (leaves (subst (result_of A ev rs) v)) -> is_expr b = false).
Proof. exact evaluate_replaces. Qed.

(** ** Non-vacuity: a value using every container (tuple dict key, set of tuples,
    dataclass with a non-init field and an extra attribute) satisfies the premises for
    a non-trivial [f], and the conclusions are computed. *)
Definition plain_cls : dcls := {| dc_id := 3; dc_frozen := false; dc_slots := false; dc_hash := HNone |}.
Definition sample : val Z :=
  VList [ VTuple [Leaf 1; VNamed 7 [Leaf 2; Leaf 3]];
          VSet [VTuple [Leaf 4; Leaf 5]; Leaf 6];
          VDict [(VTuple [Leaf 7], VList [Leaf 8]); (Leaf 9, Leaf 10)];
          VData plain_cls [({| f_name := 0; f_init := true |}, Leaf 11);
                           ({| f_name := 1; f_init := false |}, VList [Leaf 12]);
                           ({| f_name := 2; f_init := true |}, Leaf 13)] [99] ]%Z.

Example C19_nonvacuous :
  collision_free Z.eqb Zhash incr sample = true /\ wf Z.eqb Zhash sample = true /\
  dc_ok SetAttr Unguarded sample = true /\
  iter_nested Z shipped (pops sample) sample = IDone (rev [1;2;3;4;5;6;7;9;8;10;11;12;13]%Z) /\
  fst (map_v Z Z.eqb Zhash shipped incr sample) = [1;2;3;4;5;6;7;8;9;10;11;13;12]%Z /\
  snd (map_v Z Z.eqb Zhash shipped incr sample) = Ok (subst incr sample) /\
  leaves (subst incr sample) = map (fun a => a + 1000)%Z (leaves sample) /\
  (let is_expr := fun a => (a <? 0)%Z in
   let ev := fun a => if is_expr a then Leaf (- a)%Z else Leaf a in
   let v := VList [Leaf (-5)%Z; VDict [(Leaf (-6)%Z, VSet [Leaf (-7)%Z; Leaf 1%Z])]] in
   collision_free Z.eqb Zhash ev v = true /\
   collision_free Z.eqb Zhash (@Leaf Z) (subst ev v) = true /\
   snd (evaluate Z Z.eqb Zhash fixed ev (@Leaf Z) v)
     = Ok (VList [Leaf 5%Z; VDict [(Leaf 6%Z, VSet [Leaf 7%Z; Leaf 1%Z])]])).
Proof. vm_compute. repeat split. Qed.

Print Assumptions C19_iter_yields_leaves.
Print Assumptions C19_iter_fuel_irrelevant.
Print Assumptions C19_map_visits_leaves.
Print Assumptions C19_map_call_order.
Print Assumptions C19_map_rebuilds_fixed.
Print Assumptions C19_map_rebuilds_shipped_partial.
Print Assumptions C19_map_rebuilds_any.
Print Assumptions C19_rebuild_shape.
Print Assumptions C19_rebuild_leaves.
Print Assumptions C19_rebuild_leaves_leafwise.
Print Assumptions C19_map_identity.
Print Assumptions C19_shipped_refuted_frozen_noninit.
Print Assumptions C19_shipped_refuted_slots.
Print Assumptions C19_map_returns_only_if_dc_ok.
Print Assumptions C19_shipped_refuted_general.
Print Assumptions C19_collision_case.
Print Assumptions C19_eval_replaces_all_exprs.
Print Assumptions C19_nonvacuous.
