(** C07 — Results and recorded call graph do not depend on timing.

    Model: Model/Timing.v.  The machine's ops choose which ready job enters `_exec_job_main_thread`
    next, whether it has to wait for limits (and re-enters later), which running job completes next
    and which twin a job collapses into; "for all op lists" therefore covers every completion order
    and every limit configuration from unlimited to serial.  Hashes are idealised as the structures
    they hash; [outcome s] is the returned value and the root call node (a Merkle root: it contains
    every argument list and every descendant call node), [recorded s] the call nodes recorded.

    - Handle-free programs: all complete executions agree (both call-site variants).
    - Programs passing Handles, as shipped (`_preprocess_args` on every entry): REFUTED — a job that
      waited for limits forks its Handle again (different fork key, different argument hash).
    - Repaired call site (`_preprocess_args` once per job): proved for executions in which no Handle
      state is passed to two sibling calls; the limits witness agrees.
    - Two sibling calls given the same Handle state: the fork key is the order in which they reach
      `_exec_job_main_thread`; refuted for both variants (KNOWN FINDING, no small repair). *)
From Coq Require Import List ZArith Bool Arith.
From RV Require Import Model.Timing Proofs.TimingBase Proofs.TimingSem Proofs.TimingStep Proofs.TimingInv
  Proofs.TimingHF Proofs.TimingGraph Proofs.TimingLin Proofs.TimingWit Proofs.TimingProg
  Model.PendingExpr Proofs.PendingExprFacts.
Import ListNotations.

(** What two complete executions agree on. *)
Definition same_outcome (s1 s2 : state) : Prop :=
  exists r n, outcome s1 = Some (r, n) /\ outcome s2 = Some (r, n) /\
              forall m, In m (recorded s1) <-> In m (recorded s2).

Lemma agree_same_outcome c body t0 args0 ops1 ops2 s1 s2 r1 n1 r2 n2 :
  run c body (init t0 args0) ops1 = Some s1 -> outcome s1 = Some (r1, n1) ->
  run c body (init t0 args0) ops2 = Some s2 -> outcome s2 = Some (r2, n2) ->
  r1 = r2 /\ n1 = n2 -> same_outcome s1 s2.
Proof.
  intros R1 O1 R2 O2 [-> ->]. exists r2, n2. repeat split; auto; intro H.
  - eapply recorded_is_root_tree; eauto. eapply (recorded_is_root_tree c body ops1); eauto.
  - eapply recorded_is_root_tree; eauto. eapply (recorded_is_root_tree c body ops2); eauto.
Qed.

(** Programs that never make a Handle: every two complete executions — any entry order, any
    completion order, any pattern of waiting for limits, any collapses of duplicates, either variant
    of the `_preprocess_args` call site — return the same value, record the same root call node and
    the same set of call nodes. *)
Theorem C07_handle_free_schedule_independent :
  forall (c : cfg) (body : nat -> list value -> expr) (t0 : nat) (args0 : list value),
    (forall t args, hf_l args -> hf_e (body t args) = true) -> hf_l args0 ->
    forall ops1 ops2 s1 s2 r1 n1 r2 n2,
      run c body (init t0 args0) ops1 = Some s1 -> outcome s1 = Some (r1, n1) ->
      run c body (init t0 args0) ops2 = Some s2 -> outcome s2 = Some (r2, n2) ->
      same_outcome s1 s2.
Proof.
  intros c body t0 args0 HB HA ops1 ops2 s1 s2 r1 n1 r2 n2 R1 O1 R2 O2.
  apply (agree_same_outcome c body t0 args0 ops1 ops2 s1 s2 r1 n1 r2 n2 R1 O1 R2 O2).
  exact (handle_free_runs_agree c body t0 args0 HB HA ops1 ops2 s1 s2 r1 n1 r2 n2 R1 O1 R2 O2).
Qed.

(** `_preprocess_args` once per job (repaired call site) and one fork counter per parent job, programs
    passing Handles: complete executions in which no Handle state was passed to two sibling calls agree. *)
Theorem C07_once_per_job_linear_schedule_independent :
  forall (c : cfg) (body : nat -> list value -> expr) (t0 : nat) (args0 : list value),
    pre_every_entry c = false -> forks_per_parent c = true ->
    forall ops1 ops2 s1 s2 r1 n1 r2 n2,
      run c body (init t0 args0) ops1 = Some s1 -> outcome s1 = Some (r1, n1) -> linear s1 ->
      run c body (init t0 args0) ops2 = Some s2 -> outcome s2 = Some (r2, n2) -> linear s2 ->
      same_outcome s1 s2.
Proof.
  intros c body t0 args0 HO HP ops1 ops2 s1 s2 r1 n1 r2 n2 R1 O1 L1 R2 O2 L2.
  apply (agree_same_outcome c body t0 args0 ops1 ops2 s1 s2 r1 n1 r2 n2 R1 O1 R2 O2).
  exact (linear_runs_agree c body t0 args0 HO HP ops1 ops2 s1 s2 r1 n1 r2 n2 R1 O1 L1 R2 O2 L2).
Qed.

(** The recorded call nodes of a complete execution are exactly the nodes of the root's tree. *)
Theorem C07_recorded_graph_is_root_tree :
  forall c body ops t0 args0 s r n,
    run c body (init t0 args0) ops = Some s -> outcome s = Some (r, n) ->
    forall m, In m (recorded s) <-> In m (all_sub n).
Proof. exact recorded_is_root_tree. Qed.

(** As shipped: main() = [block(), use(H)] under limit 2 and under limit 1 (use waits, is
    re-nominated, forks H a second time): different argument list, different call nodes. *)
Theorem C07_refuted_limits_as_shipped : differ shipped W1 W1_unlimited W1_serial.
Proof. exact W1_shipped_differs. Qed.

Theorem C07_limits_witness_fixed : agree fixed W1 W1_unlimited W1_serial.
Proof. exact W1_fixed_agrees. Qed.

(** the shape of notes/experiments/e7.py *)
Theorem C07_refuted_limits_e7_as_shipped : differ shipped W1b W1_unlimited W1_serial.
Proof. exact W1b_shipped_differs. Qed.

(** Once per job, a re-entry after waiting changes neither arguments nor any fork counter. *)
Theorem C07_reentry_inert_fixed :
  forall c body s j d s' jb raw pre,
    pre_every_entry c = false -> get s j = Some jb -> j_st jb = SWait raw pre ->
    step c body s (OEnter j d) = Some s' ->
    (forall k, k <> j -> get s' k = get s k) /\
    exists st', get s' j = Some (with_st jb st') /\ st_raw st' = Some raw /\ st_pre st' = Some pre.
Proof. exact once_per_job_reentry_inert. Qed.

(** main() = [use(h, arg_a()), use(h, arg_b())]: the fork keys follow the order in which arg_a / arg_b
    complete — with either call-site variant. *)
Theorem C07_refuted_sibling_order_as_shipped : differ shipped W2 W2_a_first W2_b_first.
Proof. exact W2_shipped_differs. Qed.

Theorem C07_sibling_order_remains_fixed : differ fixed W2 W2_a_first W2_b_first.
Proof. exact W2_fixed_differs. Qed.

(** One fork counter per EXECUTION (seeded change C07c): main() = [P(), Q()], each parent passing its own
    H("h0") to one child — the child of the parent that completes first gets fork key 1, the other key 2.
    Both executions satisfy the premise of C07_once_per_job_linear_schedule_independent. *)
Theorem C07_refuted_per_execution_counter : differ per_execution W4 W4_p_first W4_q_first.
Proof. exact W4_per_execution_differs. Qed.

Theorem C07_per_execution_witness_per_parent : agree fixed W4 W4_p_first W4_q_first.
Proof. exact W4_per_parent_agrees. Qed.

Theorem C07_per_execution_witness_linear :
  (exists s, run per_execution (tbody W4) (init 0 []) W4_p_first = Some s /\ linear_b s = true) /\
  (exists s, run per_execution (tbody W4) (init 0 []) W4_q_first = Some s /\ linear_b s = true).
Proof. exact W4_linear. Qed.

(** `_pending_expr`: one child job per distinct expression of a parent job, whenever the demands for it arrive
    (eagerly, or later from a cond / seq / catch branch) and whenever jobs conclude — as long as an entry lives
    until the parent is finalized (Model/PendingExpr.v). *)
Theorem C07_one_child_job_per_expression :
  forall evs e, count_occ Nat.eq_dec (child_jobs true evs) e = if memb e (demands evs) then 1 else 0.
Proof. exact finalized_one_job_per_expression. Qed.

Theorem C07_child_jobs_schedule_independent :
  forall evs1 evs2, (forall e, In e (demands evs1) <-> In e (demands evs2)) ->
    forall e, count_occ Nat.eq_dec (child_jobs true evs1) e = count_occ Nat.eq_dec (child_jobs true evs2) e.
Proof. exact finalized_children_schedule_independent. Qed.

(** entries released as soon as their job concludes (seeded change C07d): x = expensive(n); [x, cond(check(n), x, 0)]
    gets a second child job for x iff expensive(n) concludes before check(n) *)
Theorem C07_refuted_pending_expr_released_early :
  demands PE_check_first = demands PE_expensive_first /\
  child_jobs false PE_check_first = [7; 8] /\ child_jobs false PE_expensive_first = [7; 8; 7] /\
  child_jobs true PE_check_first = [7; 8] /\ child_jobs true PE_expensive_first = [7; 8].
Proof. exact released_early_refuted. Qed.

(* NOT PROVED (and false for both variants, see C07_sibling_order_remains_fixed):
   forall body t0 args0 ops1 ops2 s1 s2, complete runs -> same_outcome s1 s2   for programs in which a
   Handle state is passed to several sibling calls.
   NOT MODELLED: failing tasks / catch, scheduler tasks (seq, cond) whose children are created later,
   Handle rollback; those are compared on the implementation only (oracle). *)

(** Non-vacuity: a Handle-free program with duplicate calls, run (as shipped) with a wait and a
    collapse, and in another order, completes; the theorem's conclusion holds and is not trivial. *)
Definition NV : list texpr :=
  [TL [TCall 1 []; TCall 2 []]; TL [TCall 3 [TC (VInt 4)]]; TL [TCall 3 [TC (VInt 4)]; TC (VInt 0)];
   TL [TP 0; TCall 4 []]; TC (VInt 5)].
Definition NV_ops1 : list op :=
  [OEnter 0 DStart; ODone 0; OEnter 1 DStart; OEnter 2 DWait; ODone 1; OEnter 3 DStart; OEnter 2 DStart; ODone 2;
   OEnter 4 (DColl 3); ODone 3; OEnter 5 DStart; ODone 5; OResolve 5; OResolve 3; OResolve 4; OResolve 1;
   OResolve 2; OResolve 0].
Definition NV_ops2 : list op :=
  [OEnter 0 DStart; ODone 0; OEnter 2 DStart; ODone 2; OEnter 3 DStart; ODone 3; OEnter 4 DStart; ODone 4;
   OResolve 4; OResolve 3; OResolve 2; OEnter 1 DStart; ODone 1; OEnter 5 (DColl 3); OResolve 5; OResolve 1;
   OResolve 0].

Example C07_nonvacuous_handle_free :
  exists s1 s2, run shipped (tbody NV) (init 0 []) NV_ops1 = Some s1 /\
                run shipped (tbody NV) (init 0 []) NV_ops2 = Some s2 /\
                complete s1 = true /\ complete s2 = true /\ length s1 = 6 /\
                forallb hf_t NV = true /\ same_outcome s1 s2.
Proof.
  destruct (run shipped (tbody NV) (init 0 []) NV_ops1) as [s1|] eqn:R1; [|vm_compute in R1; discriminate].
  destruct (run shipped (tbody NV) (init 0 []) NV_ops2) as [s2|] eqn:R2; [|vm_compute in R2; discriminate].
  exists s1, s2. split; auto. split; auto.
  assert (E1 : Some s1 = run shipped (tbody NV) (init 0 []) NV_ops1) by (symmetry; exact R1).
  assert (E2 : Some s2 = run shipped (tbody NV) (init 0 []) NV_ops2) by (symmetry; exact R2).
  vm_compute in E1, E2. inversion E1. inversion E2.
  split; [vm_compute; reflexivity|]. split; [vm_compute; reflexivity|]. split; [vm_compute; reflexivity|].
  split; [vm_compute; reflexivity|].
  rewrite <- H0, <- H1.
  destruct (outcome s1) as [[r1 n1]|] eqn:O1; [|subst s1; vm_compute in O1; discriminate].
  destruct (outcome s2) as [[r2 n2]|] eqn:O2; [|subst s2; vm_compute in O2; discriminate].
  eapply (C07_handle_free_schedule_independent shipped (tbody NV) 0 []); eauto.
  - apply tbody_hf. vm_compute. reflexivity.
  - reflexivity.
Qed.

(** Non-vacuity of the repaired-variant theorem: the limits witness satisfies its hypotheses. *)
Example C07_nonvacuous_linear :
  exists s1 s2, run fixed (tbody W1) (init 0 []) W1_unlimited = Some s1 /\
                run fixed (tbody W1) (init 0 []) W1_serial = Some s2 /\
                linear s1 /\ linear s2 /\ uses s2 0 = [VHInit 0] /\ same_outcome s1 s2.
Proof.
  destruct (run fixed (tbody W1) (init 0 []) W1_unlimited) as [s1|] eqn:R1; [|vm_compute in R1; discriminate].
  destruct (run fixed (tbody W1) (init 0 []) W1_serial) as [s2|] eqn:R2; [|vm_compute in R2; discriminate].
  exists s1, s2. split; auto. split; auto.
  assert (E1 : Some s1 = run fixed (tbody W1) (init 0 []) W1_unlimited) by (symmetry; exact R1).
  assert (E2 : Some s2 = run fixed (tbody W1) (init 0 []) W1_serial) by (symmetry; exact R2).
  vm_compute in E1, E2. injection E1 as H0. injection E2 as H1.
  assert (L1 : linear s1) by (apply linear_b_sound; subst s1; vm_compute; reflexivity).
  assert (L2 : linear s2) by (apply linear_b_sound; subst s2; vm_compute; reflexivity).
  split; auto. split; auto. split; [subst s2; vm_compute; reflexivity|].
  destruct (outcome s1) as [[r1 n1]|] eqn:O1; [|subst s1; vm_compute in O1; discriminate].
  destruct (outcome s2) as [[r2 n2]|] eqn:O2; [|subst s2; vm_compute in O2; discriminate].
  eapply (C07_once_per_job_linear_schedule_independent fixed (tbody W1) 0 []); eauto.
Qed.

Print Assumptions C07_handle_free_schedule_independent.
Print Assumptions C07_once_per_job_linear_schedule_independent.
Print Assumptions C07_recorded_graph_is_root_tree.
Print Assumptions C07_refuted_limits_as_shipped.
Print Assumptions C07_limits_witness_fixed.
Print Assumptions C07_refuted_limits_e7_as_shipped.
Print Assumptions C07_reentry_inert_fixed.
Print Assumptions C07_refuted_sibling_order_as_shipped.
Print Assumptions C07_sibling_order_remains_fixed.
Print Assumptions C07_refuted_per_execution_counter.
Print Assumptions C07_per_execution_witness_per_parent.
Print Assumptions C07_per_execution_witness_linear.
Print Assumptions C07_one_child_job_per_expression.
Print Assumptions C07_child_jobs_schedule_independent.
Print Assumptions C07_refuted_pending_expr_released_early.
