(** C35 — Configuration survives conversion to a dictionary and back.
    Only statements, closed by [exact] (or a witness computed by [vm_compute]), and their assumptions.

    [shipped] is redun/config.py as it is (get_config_dict emits interpolated values verbatim),
    [fixed] the repaired variant (every '$' of an emitted value is doubled).  Which of the two the
    current source is, is decided by the translator (coq/Gen/C35Gen.v). *)
From Coq Require Import List Ascii String Bool Permutation.
From RV Require Import Model.Config Proofs.ConfigFacts Proofs.ConfigTree Proofs.ConfigRoundtrip
                       Proofs.ConfigDec Proofs.ConfigMain.
Import ListNotations.
Open Scope list_scope.

Definition lit (s : string) : str := list_ascii_of_string s.

(** Guard on the section names (see [guard]): non-empty, not starting with '.', and no section's
    dotted path is a prefix of another's.  [wf_parser] is the representation invariant of a
    ConfigParser (dict keys unique, DEFAULT is not a named section).

    [survives cfg env env2 local repl c c2]: same nested structure, same sections, same option
    names, and every access [c2[..][k]] -- in ANY environment [env2] -- gives what [c[..][k]] gave
    in [env], with the config dir replaced when [repl] is given (same exception otherwise). *)

(** Full property, repaired code: all parser states, environments, config dirs, replacements. *)
Theorem C35_roundtrip_fixed : forall env env2 local repl p c d,
  wf_parser p -> guard fixed (map fst (p_sections p)) -> load fixed p = Ok c ->
  get_config_dict fixed env (c_parser c) (c_tree c) local repl = Ok d ->
  exists c2, of_dict fixed d = Ok c2 /\ survives fixed env env2 local repl c c2.
Proof. exact roundtrip_fixed. Qed.

(** As shipped the same holds only when no (substituted) effective value contains a '$'.
    (* NOT PROVED for [shipped], and false: the statement of C35_roundtrip_fixed with [shipped]
       in place of [fixed]; see the three refutations below. *) *)
Theorem C35_roundtrip_shipped_partial : forall env env2 local repl p c d,
  wf_parser p -> guard shipped (map fst (p_sections p)) -> load shipped p = Ok c ->
  get_config_dict shipped env (c_parser c) (c_tree c) local repl = Ok d ->
  (forall s k v, get_value shipped env p s k = Ok v -> has_dollar (subst local repl v) = false) ->
  exists c2, of_dict shipped d = Ok c2 /\ survives shipped env env2 local repl c c2.
Proof. exact roundtrip_shipped_partial. Qed.

Open Scope string_scope.

(** [a.b] x = cost $$5 : the dictionary holds "cost $5", which read_dict rejects (ValueError). *)
Definition w1 : parser :=
  {| p_defaults := []; p_sections := [(lit "a.b", [(lit "x", lit "cost $$5")])] |}.

Theorem C35_roundtrip_shipped_refuted :
  exists env local p c d,
    wf_parser p /\ guard shipped (map fst (p_sections p)) /\ load shipped p = Ok c /\
    get_value shipped env p (lit "a.b") (lit "x") = Ok (lit "cost $5") /\
    get_config_dict shipped env (c_parser c) (c_tree c) local None = Ok d /\
    of_dict shipped d = Err SetValueError.
Proof.
  exists [], (lit "/tmp/rv"), w1. eexists. eexists.
  split; [apply wf_parserb_sound; vm_compute; reflexivity|].
  split; [apply guardb_sound; vm_compute; reflexivity|].
  split; [vm_compute; reflexivity|]. split; [vm_compute; reflexivity|].
  split; vm_compute; reflexivity.
Qed.

(** x = cost $$$$ 5 : effective value "cost $$ 5" silently becomes "cost $ 5". *)
Definition w2 : parser :=
  {| p_defaults := []; p_sections := [(lit "a.b", [(lit "x", lit "cost $$$$ 5")])] |}.

Theorem C35_shipped_silent_change :
  exists env local p c d c2,
    wf_parser p /\ guard shipped (map fst (p_sections p)) /\ load shipped p = Ok c /\
    get_config_dict shipped env (c_parser c) (c_tree c) local None = Ok d /\ of_dict shipped d = Ok c2 /\
    get_value shipped env p (lit "a.b") (lit "x") = Ok (lit "cost $$ 5") /\
    get_value shipped env (c_parser c2) (lit "a.b") (lit "x") = Ok (lit "cost $ 5").
Proof.
  exists [], (lit "/tmp/rv"), w2. eexists. eexists. eexists.
  split; [apply wf_parserb_sound; vm_compute; reflexivity|].
  split; [apply guardb_sound; vm_compute; reflexivity|].
  split; [vm_compute; reflexivity|]. split; [vm_compute; reflexivity|]. split; [vm_compute; reflexivity|].
  split; vm_compute; reflexivity.
Qed.

(** x = $${y}, y = 1 : the literal text "${y}" comes back as a reference and reads "1". *)
Definition w3 : parser :=
  {| p_defaults := []; p_sections := [(lit "a.b", [(lit "x", lit "$${y}"); (lit "y", lit "1")])] |}.

Theorem C35_shipped_reinterpolated :
  exists env local p c d c2,
    wf_parser p /\ guard shipped (map fst (p_sections p)) /\ load shipped p = Ok c /\
    get_config_dict shipped env (c_parser c) (c_tree c) local (Some (lit ".")) = Ok d /\ of_dict shipped d = Ok c2 /\
    get_value shipped env p (lit "a.b") (lit "x") = Ok (lit "${y}") /\
    get_value shipped env (c_parser c2) (lit "a.b") (lit "x") = Ok (lit "1").
Proof.
  exists [], (lit "/tmp/rv"), w3. eexists. eexists. eexists.
  split; [apply wf_parserb_sound; vm_compute; reflexivity|].
  split; [apply guardb_sound; vm_compute; reflexivity|].
  split; [vm_compute; reflexivity|]. split; [vm_compute; reflexivity|]. split; [vm_compute; reflexivity|].
  split; vm_compute; reflexivity.
Qed.

Close Scope string_scope.

(** Replacing the config dir only rewrites values that contain it (both variants, all strings). *)
Theorem C35_replace_only_containing : forall cfg local r v,
  contains local v = false -> emit cfg local (Some r) v = emit cfg local None v /\ subst local (Some r) v = v.
Proof. exact emit_not_containing. Qed.

(** ... and the sections / option names of the dictionary do not depend on [replace_config_dir]:
    it is the dictionary of effective values with [emit] applied to each value. *)
Theorem C35_replace_dict : forall cfg env p t local repl,
  get_config_dict cfg env p t local repl = rmap (map_vals (emit cfg local repl)) (effective_dict cfg env p t).
Proof. exact get_config_dict_factors. Qed.

(** Under the guard _parse_sections succeeds (a Config object exists). *)
Theorem C35_parse_guarded : forall cfg p,
  join_guard cfg = true -> guard cfg (map fst (p_sections p)) -> exists c, load cfg p = Ok c.
Proof. exact load_guarded. Qed.

(** The guard is needed: what _parse_sections does outside it (both variants). *)
Open Scope string_scope.
Theorem C35_prefix_clash_raises :
  parse_sections shipped {| p_defaults := []; p_sections := [(lit "a", [(lit "x", lit "1")]); (lit "a.b", [])] |}
  = Err NestError.
Proof. vm_compute. reflexivity. Qed.

Theorem C35_prefix_clash_loses_section :
  parse_sections shipped {| p_defaults := []; p_sections := [(lit "a.b", [(lit "y", lit "1")]); (lit "a", [])] |}
  = Ok [(lit "a", Leaf (lit "a"))].
Proof. vm_compute. reflexivity. Qed.

Theorem C35_leading_dot_renamed :
  let p := {| p_defaults := []; p_sections := [(lit ".a", [(lit "x", lit "1")])] |} in
  exists c, load fixed p = Ok c /\
    get_config_dict fixed [] (c_parser c) (c_tree c) (lit "/tmp/rv") None = Ok [(lit "a", [(lit "x", lit "1")])].
Proof. eexists. split; vm_compute; reflexivity. Qed.

(** Non-vacuity: a nested configuration with a DEFAULT section, references to options, to another
    section and to the environment, an escaped dollar and the config dir meets every hypothesis of
    C35_roundtrip_fixed, and the rebuilt configuration reads the expected values in an EMPTY
    environment. *)
Definition ex_parser : parser :=
  {| p_defaults := [(lit "region", lit "us-west-2")];
     p_sections :=
       [(lit "executors.batch", [(lit "role", lit "${RV_ROLE}"); (lit "queue", lit "q-${region}");
                                 (lit "price", lit "cost $$5 per ${backend:unit}")]);
        (lit "backend", [(lit "db_uri", lit "sqlite:////home/u/.redun/redun.db"); (lit "unit", lit "h")]);
        (lit "executors.default", [(lit "type", lit "local")])] |}.

Example C35_nonvacuous :
  let env := [(lit "RV_ROLE", lit "arn:role")] in
  let local := lit "/home/u/.redun" in
  exists c d c2,
    wf_parser ex_parser /\ guard fixed (map fst (p_sections ex_parser)) /\ load fixed ex_parser = Ok c /\
    get_config_dict fixed env (c_parser c) (c_tree c) local (Some (lit ".")) = Ok d /\
    of_dict fixed d = Ok c2 /\ c_tree c2 = c_tree c /\
    get_value fixed [] (c_parser c2) (lit "executors.batch") (lit "price") = Ok (lit "cost $5 per h") /\
    get_value fixed [] (c_parser c2) (lit "executors.batch") (lit "role") = Ok (lit "arn:role") /\
    get_value fixed [] (c_parser c2) (lit "executors.batch") (lit "region") = Ok (lit "us-west-2") /\
    get_value fixed [] (c_parser c2) (lit "backend") (lit "db_uri") = Ok (lit "sqlite:///./redun.db") /\
    get_value fixed [] (c_parser c2) (lit "executors.default") (lit "type") = Ok (lit "local").
Proof.
  eexists. eexists. eexists.
  split; [apply wf_parserb_sound; vm_compute; reflexivity|].
  split; [apply guardb_sound; vm_compute; reflexivity|].
  split; [vm_compute; reflexivity|]. split; [vm_compute; reflexivity|]. split; [vm_compute; reflexivity|].
  repeat split; vm_compute; reflexivity.
Qed.
Close Scope string_scope.

Print Assumptions C35_roundtrip_fixed.
Print Assumptions C35_roundtrip_shipped_partial.
Print Assumptions C35_roundtrip_shipped_refuted.
Print Assumptions C35_shipped_silent_change.
Print Assumptions C35_shipped_reinterpolated.
Print Assumptions C35_replace_only_containing.
Print Assumptions C35_replace_dict.
Print Assumptions C35_parse_guarded.
Print Assumptions C35_nonvacuous.
