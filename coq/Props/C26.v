(** C26 — Context is inherited and overridden as documented.
    Only statements, closed by [exact], and their assumptions.

    Vocabulary (Model/Context.v, Proofs/ContextJob.v):
      [dmerge a b]        the documented right-biased deep merge  a (+) b
      [dmerge_all ds]     d1 (+) d2 (+) ... (+) dn
      [merge v ds]        merge_dicts(ds) of redun/utils.py (v = AsShipped: the code as it is;
                          v = Fixed: the repaired variant)
      [shipped]/[fixed]/[fixed_uc]  the configuration extracted from the source by
                          translate/tr_context.py (tie: Gen/C26Gen.v)
      [run_execution c configured run_arg t]  all get_context results of job tree [t]
      [spec_tree root t]  the documented results: each job's context is its parent's context
                          (+) its update_context overrides; get_context reads the calling job's
                          context
      [wf]                no duplicate keys (what a Python dict is).  All theorems are unbounded. *)
From Coq Require Import List ZArith Ascii Bool.
From RV Require Import Base.Decimal Base.Lit Model.Context Proofs.ContextBase Proofs.ContextMerge Proofs.ContextJob.
Import ListNotations.
Open Scope list_scope.

(** ** what "deep-merged (later keys win, nested mappings merged)" means *)
Theorem C26_deep_merge_spec : forall la lb, exists M,
  dmerge (VDict la) (VDict lb) = VDict M /\
  map fst M = map fst la ++ filter (fun k => negb (mem_key k (map fst la))) (map fst lb) /\
  forall k, lookup k M = match lookup k la, lookup k lb with
                         | Some x, Some y => Some (dmerge x y)
                         | Some x, None => Some x
                         | None, r => r
                         end.
Proof. exact deep_merge_spec. Qed.

Theorem C26_deep_merge_later_wins : forall a b, is_dict a = false \/ is_dict b = false -> dmerge a b = b.
Proof. exact deep_merge_later_wins. Qed.

Theorem C26_deep_merge_wf : forall a b, wf a -> wf b -> wf (dmerge a b).
Proof. exact dmerge_wf. Qed.

(** ** merge_dicts *)
(** two arguments (every inheritance step, and the root context): exactly the deep merge,
    for the code as shipped and as repaired *)
Theorem C26_merge_binary : forall v a b, wf a -> wf b -> merge v [a; b] = Some (dmerge a b).
Proof. exact merge_binary. Qed.

(** exact characterisation of the n-ary function (no fuel): one argument is returned as is; if
    some argument is not a dict the last one wins outright (AsShipped) / the dicts after the last
    non-dict are merged (Fixed); otherwise keys are grouped in first-seen order and the value
    lists are merged recursively *)
Theorem C26_merge_equation : forall v ds,
  merge v ds =
  match ds with
  | [d] => Some d
  | _ =>
      if forallb is_dict ds then merge_group v ds
      else match v with
           | AsShipped => Some (last ds empty_dict)
           | Fixed =>
               match after_last_nondict ds with
               | [] => Some (last ds empty_dict)
               | [d] => Some d
               | tl => merge_group v tl
               end
           end
  end.
Proof. exact merge_equation. Qed.

Theorem C26_merge_total : forall v ds, exists r, merge v ds = Some r.
Proof. exact merge_total. Qed.

Theorem C26_group_spec : forall ds, forallb is_dict ds = true -> Forall wf ds ->
  NoDup (map fst (group ds)) /\ forall k, lookup k (group ds) = some_ne (vals k ds).
Proof. exact group_spec. Qed.

(** repaired variant: the n-ary function is the left fold of the deep merge, for all inputs *)
Theorem C26_merge_fixed_is_fold : forall ds, Forall wf ds -> merge Fixed ds = Some (dmerge_all ds).
Proof. exact merge_fixed_fold. Qed.

(** as shipped it is not: an earlier non-mapping value stops later mappings from merging *)
Theorem C26_nary_refuted : exists ds, Forall wf ds /\ forallb is_dict ds = true /\
  merge AsShipped ds <> Some (dmerge_all ds).
Proof. exact nary_refuted. Qed.

(** as shipped, three arguments of which one is {} (update_context called with a dict only,
    with keywords only, or for the first time) are still the fold *)
Theorem C26_merge3_shipped_partial : forall v p c k,
  wf p -> wf c -> wf k -> is_dict p = true -> is_dict c = true -> is_dict k = true ->
  p = empty_dict \/ c = empty_dict \/ k = empty_dict ->
  merge v [p; c; k] = Some (dmerge (dmerge p c) k).
Proof. exact merge3_with_empty. Qed.

(** ** get_context(path, default) *)
Theorem C26_get_context_spec : forall ctx path default,
  (forall y, at_path ctx (split_on dot path) y -> get_context_value ctx path default = y) /\
  (no_path ctx (split_on dot path) -> get_context_value ctx path default = default) /\
  ((exists y, at_path ctx (split_on dot path) y) \/ no_path ctx (split_on dot path)).
Proof. exact get_context_spec. Qed.

Theorem C26_path_exclusive : forall v ps y, at_path v ps y -> no_path v ps -> False.
Proof. exact path_exclusive. Qed.

Theorem C26_path_functional : forall v ps y y', at_path v ps y -> at_path v ps y' -> y = y'.
Proof. exact at_path_fun. Qed.

(** the dotted path is cut at every '.', and only there *)
Theorem C26_split_spec : forall s,
  split_on dot s <> [] /\ join dot (split_on dot s) = s /\ Forall (fun p => ~ In dot p) (split_on dot s) /\
  forall parts, parts <> [] -> Forall (fun p => ~ In dot p) parts -> join dot parts = s -> parts = split_on dot s.
Proof. exact split_spec. Qed.

(** ** job contexts: all job trees, all overrides, all paths *)
(** NOT PROVED for the unchanged code (it is false, see [C26_tree_refuted]):
      forall configured run_arg t, wf configured -> wf run_arg -> tree_wf t ->
      run_execution shipped configured run_arg t = Some (spec_tree (dmerge configured run_arg) t) *)
Theorem C26_tree_refuted : exists configured run_arg t, wf configured /\ wf run_arg /\ tree_wf t /\
  run_execution shipped configured run_arg t <> Some (spec_tree (dmerge configured run_arg) t).
Proof. exact tree_refuted. Qed.

(** repaired in merge_dicts *)
Theorem C26_tree_holds_fixed : forall configured run_arg t, wf configured -> wf run_arg -> tree_wf t ->
  run_execution fixed configured run_arg t = Some (spec_tree (dmerge configured run_arg) t).
Proof. exact tree_fixed. Qed.

(** repaired in Task.update_context (two binary merges) *)
Theorem C26_tree_holds_fixed_uc : forall configured run_arg t, wf configured -> wf run_arg -> tree_wf t ->
  run_execution fixed_uc configured run_arg t = Some (spec_tree (dmerge configured run_arg) t).
Proof. exact tree_fixed_uc. Qed.

(** as shipped: holds for every job tree in which, after a task's first update_context, each
    further update_context passes either a dict or keyword arguments, not both *)
Theorem C26_tree_shipped_partial : forall configured run_arg t, wf configured -> wf run_arg -> tree_simple t ->
  run_execution shipped configured run_arg t = Some (spec_tree (dmerge configured run_arg) t).
Proof. exact tree_shipped_simple. Qed.

(** the same, for the context of one job reached through a path of calls *)
Theorem C26_job_context_fixed : forall root path, wf root -> Forall (Forall wf_call) path ->
  job_context fixed root path = Some (spec_job_context root path).
Proof. exact job_context_fixed. Qed.

Theorem C26_job_context_fixed_uc : forall root path, wf root -> Forall (Forall wf_call) path ->
  job_context fixed_uc root path = Some (spec_job_context root path).
Proof. exact job_context_fixed_uc. Qed.

Theorem C26_job_context_shipped_partial : forall root path, wf root ->
  Forall (fun calls => Forall wf_call calls /\ simple_calls calls) path ->
  job_context shipped root path = Some (spec_job_context root path).
Proof. exact job_context_shipped_simple. Qed.

(** ** contexts computed after ancestors concluded (fork_thread, rejected parent + cond/seq):
    whatever the 'concluded' flags along the ancestor chain, the context is the merge over the
    whole chain -- because Job.clear() keeps the parent link ([clear_keeps_parent], extracted by
    the translator) *)
Theorem C26_late_context_any_flags : forall c root rev_path, clear_keeps_parent c = true ->
  late_context c root rev_path = job_context c root (rev (map snd rev_path)).
Proof. exact late_context_eq. Qed.

Theorem C26_late_context_fixed : forall root rev_path, wf root ->
  Forall (fun fc => Forall wf_call (snd fc)) rev_path ->
  late_context fixed root rev_path = Some (late_spec root rev_path).
Proof. exact late_context_fixed. Qed.

Theorem C26_late_context_fixed_uc : forall root rev_path, wf root ->
  Forall (fun fc => Forall wf_call (snd fc)) rev_path ->
  late_context fixed_uc root rev_path = Some (late_spec root rev_path).
Proof. exact late_context_fixed_uc. Qed.

Theorem C26_late_context_shipped_partial : forall root rev_path, wf root ->
  Forall (fun fc => Forall wf_call (snd fc) /\ simple_calls (snd fc)) rev_path ->
  late_context shipped root rev_path = Some (late_spec root rev_path).
Proof. exact late_context_shipped_simple. Qed.

(** and it is not, for a clear() that drops the parent link *)
Theorem C26_late_dropping_refuted : exists root rev_path, wf root /\
  Forall (fun fc => Forall wf_call (snd fc)) rev_path /\
  late_context dropping root rev_path <> Some (late_spec root rev_path).
Proof. exact late_dropping_refuted. Qed.

(** ** non-vacuity: a three-level job tree with nested overrides meets the hypotheses and the
    documented results are not trivial *)
Definition nv_cfg : value := VDict [(ka, VDict [(kb, VAtom (AInt 1)); (kc, VAtom (AInt 2))])].
Definition nv_run : value := VDict [(ka, VDict [(kb, VAtom (AInt 5))]); (kb, VAtom ANone)].
Definition nv_tree : jtree :=
  JNode [ {| uc_ctx := VDict [(ka, VDict [(kc, VAtom (AStr (bs [120]%N)))])]; uc_kw := empty_dict |} ]
        [ (bs [97; 46; 98]%N, VAtom (AInt 0)) ]
        [ JNode [ {| uc_ctx := empty_dict; uc_kw := VDict [(ka, VAtom (AInt 7))] |};
                  {| uc_ctx := VDict [(kb, VDict [(ka, VAtom (AInt 9))])]; uc_kw := empty_dict |} ]
                [ (bs [97; 46; 98]%N, VAtom (AInt 0)); (bs [98; 46; 97]%N, VAtom (AInt 0)) ]
                [ JNode [] [ (bs [98; 46; 97; 46; 99]%N, VAtom (AInt 3)); (bs [97]%N, VAtom ANone) ] [] ] ].

Example C26_nonvacuous :
  wf nv_cfg /\ wf nv_run /\ tree_wf nv_tree /\ tree_simple nv_tree /\
  run_execution shipped nv_cfg nv_run nv_tree =
    Some [VAtom (AInt 5); VAtom (AInt 0); VAtom (AInt 9); VAtom (AInt 3); VAtom (AInt 7)] /\
  run_execution fixed nv_cfg nv_run nv_tree = Some (spec_tree (dmerge nv_cfg nv_run) nv_tree) /\
  dmerge nv_cfg nv_run =
    VDict [(ka, VDict [(kb, VAtom (AInt 5)); (kc, VAtom (AInt 2))]); (kb, VAtom ANone)].
Proof.
  split; [reflexivity|]. split; [reflexivity|].
  split; [repeat (split || constructor)|].
  split; [cbn; repeat match goal with
                      | |- _ /\ _ => split
                      | |- Forall _ _ => constructor
                      | |- simple_call _ => first [left; reflexivity | right; reflexivity]
                      | |- wf_call _ => repeat split
                      | |- True => exact I
                      end|].
  split; [vm_compute; reflexivity|]. split; vm_compute; reflexivity.
Qed.

Print Assumptions C26_deep_merge_spec.
Print Assumptions C26_merge_binary.
Print Assumptions C26_merge_equation.
Print Assumptions C26_merge_fixed_is_fold.
Print Assumptions C26_nary_refuted.
Print Assumptions C26_merge3_shipped_partial.
Print Assumptions C26_get_context_spec.
Print Assumptions C26_split_spec.
Print Assumptions C26_tree_refuted.
Print Assumptions C26_tree_holds_fixed.
Print Assumptions C26_tree_holds_fixed_uc.
Print Assumptions C26_tree_shipped_partial.
Print Assumptions C26_job_context_fixed.
Print Assumptions C26_nonvacuous.
Print Assumptions C26_late_context_any_flags.
Print Assumptions C26_late_context_fixed.
Print Assumptions C26_late_context_shipped_partial.
Print Assumptions C26_late_dropping_refuted.
