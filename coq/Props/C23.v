(** C23 — Record transfer between repositories preserves the call graph.
    Only statements, closed by [exact], and their assumptions.

    [sync cfg src dst roots] is RedunClient._sync_records (push, pull) and export followed by
    import: iter_record_ids on the source, get_records, put_records on the destination.
    [cfg] is extracted from the source by translate/tr_transfer.py ([shipped] or [fixed]).
    Repositories are arbitrary finite maps id -> record bundle; no size bound anywhere. *)
From Coq Require Import List NArith Bool Arith Permutation.
From RV Require Import Model.Transfer Proofs.TransferBase Proofs.TransferWalk Proofs.TransferMain
  Proofs.TransferCache Proofs.TransferCheck.
Import ListNotations.
Open Scope list_scope.

(** ** which records are transferred: exactly the ones reachable along the ownership edges *)
Theorem C23_walk_terminates : forall r roots, iter_record_ids r roots <> WalkOutOfFuel.
Proof. exact walk_terminates. Qed.
Theorem C23_sync_total : forall cfg src dst roots, sync cfg src dst roots <> SyncOutOfFuel.
Proof. exact sync_never_out_of_fuel. Qed.

(** every visited id is reachable (typed edges), ids are visited once, existing roots are
    visited, and the visited set is closed under the edges of the records it contains.
    Premises: ids are unique, every foreign key points to a record of the expected table. *)
Theorem C23_reachable_closed : forall r roots l,
  NoDup (ids r) -> well_typed r -> iter_record_ids r roots = WalkIds l ->
  NoDup l
  /\ (forall i, In i l -> exists k, reach r roots (k, i))
  /\ (forall i, In i roots -> In i (ids r) -> In i l)
  /\ (forall i m, In i l -> In m (expand r i) -> In (snd m) l).
Proof. exact walk_sound_closed. Qed.

(** ** what arrives *)
(** a reachable record that the destination did not have arrives as deserialize (serialize e) *)
Theorem C23_transfer_new : forall cfg src dst roots d n l i e,
  sync cfg src dst roots = Synced d n -> iter_record_ids src roots = WalkIds l ->
  In i l -> find src i = Some e -> ~ In i (ids dst) ->
  exists e', find d i = Some e' /\ strip e' = canon cfg i e.
Proof. exact transfer_new. Qed.
(** records the destination had are left alone (strip: is_current of a tag may go to false) *)
Theorem C23_transfer_old : forall cfg src dst roots d n i e0,
  sync cfg src dst roots = Synced d n -> find dst i = Some e0 ->
  exists e', find d i = Some e' /\ strip e' = strip e0.
Proof. exact transfer_old. Qed.
(** nothing else is added and the reported count is the growth *)
Theorem C23_transfer_only : forall cfg src dst roots d n l i,
  sync cfg src dst roots = Synced d n -> iter_record_ids src roots = WalkIds l ->
  In i (ids d) -> In i (ids dst) \/ (In i l /\ In i (ids src)).
Proof. exact transfer_only. Qed.
Theorem C23_transfer_count : forall cfg src dst roots d n,
  sync cfg src dst roots = Synced d n -> length d = length dst + n.
Proof. exact transfer_count. Qed.

(** what deserialize (serialize e) keeps: everything for executions and jobs; all columns,
    file/task details and the set of subvalue links for values; all columns and parents for
    tags; for call nodes all columns, every argument (hash, value, position or key, upstream
    set), the multiset of children, and the subtree task set only if the serializer carries it *)
Theorem C23_canon_exec : forall cfg i x, canon cfg i (EExec x) = EExec x.
Proof. exact canon_exec. Qed.
Theorem C23_canon_job : forall cfg i j, canon cfg i (EJob j) = EJob j.
Proof. exact canon_job. Qed.
Theorem C23_canon_value : forall cfg i v, exists v',
  canon cfg i (EValue v) = EValue v' /\ v_type v' = v_type v /\ v_format v' = v_format v
  /\ v_data v' = v_data v /\ v_subtype v' = v_subtype v /\ Permutation (v_subs v) (v_subs v').
Proof. exact canon_value. Qed.
Theorem C23_canon_tag : forall cfg i t,
  canon cfg i (ETag t) = ETag (mkTag (t_etype t) (t_entity t) (t_key t) (t_value t) (t_parents t) true).
Proof. exact canon_tag. Qed.
Theorem C23_canon_call : forall cfg i c, exists c',
  canon cfg i (ECall c) = ECall c'
  /\ c_name c' = c_name c /\ c_task c' = c_task c /\ c_argsh c' = c_argsh c /\ c_value c' = c_value c
  /\ c_ts c' = c_ts c
  /\ Forall2 arg_same (c_args c) (c_args c')
  /\ Permutation (map snd (c_edges c)) (map snd (c_edges c'))
  /\ c_subtree c' = (if cfg_carry_subtree cfg then sortN (c_subtree c) else []).
Proof. exact canon_call. Qed.

(** child edges, fixed variant: the children arrive in call order, call_order = position *)
Theorem C23_children_order_fixed : forall cfg i c c',
  cfg_child_order cfg = ByCallOrder -> canon cfg i (ECall c) = ECall c' ->
  c_edges c' = enumerate_from 0 (map snd (isort edge_leb_call (c_edges c))).
Proof. exact canon_call_children. Qed.
(** child edges, as shipped: REFUTED — the children of node 10 were called in the order 12, 11
    and arrive in the order 11, 12 (primary-key index order of call_edge) *)
Theorem C23_children_order_refuted :
  children_in_call_order w_src 10%N = Some [12; 11]%N
  /\ children_in_call_order (synced shipped w_src [] [1%N]) 10%N = Some [11; 12]%N.
Proof. exact shipped_children_witness. Qed.
Theorem C23_children_order_fixed_witness :
  children_in_call_order (synced fixed w_src [] [1%N]) 10%N = Some [12; 11]%N.
Proof. exact fixed_children_witness. Qed.

(** ** the main statement (child edges in call order): after the transfer every reachable source
       record is in the destination and equal to the source record up to canonical form, i.e.
       up to row order inside set-valued sub-tables and the numbering of call_order.
       [compat]: records that both repositories already share are equal in that sense (true for
       an empty destination, preserved by every transfer — [C23_compat_preserved]) *)
Theorem C23_transfer_preserves : forall cfg src dst roots d n l i e,
  cfg_child_order cfg = ByCallOrder -> compat cfg src dst ->
  sync cfg src dst roots = Synced d n -> iter_record_ids src roots = WalkIds l ->
  In i l -> find src i = Some e ->
  exists e', find d i = Some e' /\ equiv cfg i e e'.
Proof. exact transfer_preserves. Qed.
Theorem C23_compat_preserved : forall cfg src dst roots d n,
  cfg_child_order cfg = ByCallOrder -> compat cfg src dst ->
  sync cfg src dst roots = Synced d n -> compat cfg src d.
Proof. exact compat_preserved. Qed.
Theorem C23_compat_empty : forall cfg src, compat cfg src [].
Proof. intros cfg src i e e0 _ H. discriminate. Qed.

(** ** repeating the transfer adds nothing and changes nothing (any configuration) *)
Theorem C23_transfer_idempotent : forall cfg src dst roots d n,
  sync cfg src dst roots = Synced d n -> sync cfg src d roots = Synced d 0.
Proof. exact transfer_idempotent. Qed.
(** more generally: records whose ids all exist are a no-op on a post-processed repository *)
Theorem C23_put_existing_noop : forall r recs,
  postprocess r = r -> (forall rc, In rc recs -> In (get_pk rc) (ids r)) -> put_records r recs = (r, 0).
Proof. exact put_existing_noop. Qed.

(** ** tags: current / superseded *)
(** "is_current iff no edit supersedes it" is re-established in the destination *)
Theorem C23_tags_invariant : forall cfg src dst roots d n,
  wf_tags dst -> sync cfg src dst roots = Synced d n -> wf_tags d.
Proof. exact put_wf_tags. Qed.
(** a transferred tag has the same status as in the source, provided the destination holds no
    edit of a transferred tag that the source does not know (e.g. it is empty, or was only ever
    filled from this source) *)
Theorem C23_tags_status : forall cfg src dst roots d n l i t,
  NoDup (ids src) -> wf_tags src -> wf_tags dst ->
  (forall i m, In i l -> In m (expand src i) -> In (snd m) l) ->
  compat cfg src dst ->
  (forall c e0 p, In (c, e0) dst -> In p (tag_parents e0) -> In p l ->
                  exists e, find src c = Some e /\ In p (tag_parents e)) ->
  sync cfg src dst roots = Synced d n -> iter_record_ids src roots = WalkIds l ->
  In i l -> find src i = Some (ETag t) ->
  exists t', find d i = Some (ETag t') /\ t_current t' = t_current t.
Proof. exact tags_status. Qed.

(** ** the destination's shallow cache *)
(** fixed (the lookup demands the node's own task among the recorded subtree tasks, or the
    subtree rows are carried): a transferred call node that the destination's lookup returns
    for a registry is one the source's rule accepts for the same task, arguments and registry *)
Theorem C23_cache_fixed : forall cfg src dst roots d n reg t a i,
  cfg_require_own cfg = true \/ cfg_carry_subtree cfg = true ->
  NoDup (ids dst) -> sync cfg src dst roots = Synced d n ->
  get_call_node cfg d reg t a = Some i -> ~ In i (ids dst) ->
  exists c, find src i = Some (ECall c) /\ c_task c = t /\ c_argsh c = a /\ current cfg reg c = true.
Proof. exact dest_lookup_sound. Qed.
(** as shipped: REFUTED — after the leaf task was edited the source refuses node 10, the
    destination (filled by one transfer into an empty repository) serves it *)
Theorem C23_cache_refuted :
  get_call_node shipped w_src w_reg w_task_main 40%N = None
  /\ get_call_node shipped (synced shipped w_src [] [1%N]) w_reg w_task_main 40%N = Some 10%N.
Proof. exact shipped_cache_witness. Qed.
Theorem C23_cache_fixed_witness :
  get_call_node fixed (synced fixed w_src [] [1%N]) w_reg w_task_main 40%N = None
  /\ get_call_node fixed w_src [w_task_main; w_task_leaf] w_task_main 40%N = Some 10%N.
Proof. exact fixed_cache_witness. Qed.

(** ** non-vacuity: the witness repository (execution, jobs, call nodes with arguments, upstream
       and child edges, values with file/task details and subvalues, an edited tag) satisfies
       every premise, all 14 records are reachable from the execution, are transferred, and the
       edited tag is superseded / its edit current in the destination *)
Example C23_nonvacuous :
  premisesb w_src = true /\ premisesb [] = true
  /\ (exists l, iter_record_ids w_src [1%N] = WalkIds l /\ length l = 14)
  /\ (exists d, sync fixed w_src [] [1%N] = Synced d 14 /\ premisesb d = true
        /\ (exists t, find d 60%N = Some (ETag t) /\ t_current t = false)
        /\ (exists t, find d 61%N = Some (ETag t) /\ t_current t = true)
        /\ repo_eqb (norm_repo d)
                    (norm_repo (postprocess (map (fun p => (fst p, canon fixed (fst p) (snd p))) w_src))) = true
        /\ sync fixed w_src d [1%N] = Synced d 0).
Proof.
  split; [vm_compute; reflexivity|]. split; [reflexivity|]. split; [eexists; split; [vm_compute; reflexivity|reflexivity]|].
  eexists. split; [vm_compute; reflexivity|]. split; [vm_compute; reflexivity|].
  split; [eexists; split; [vm_compute; reflexivity|reflexivity]|].
  split; [eexists; split; [vm_compute; reflexivity|reflexivity]|].
  split; vm_compute; reflexivity.
Qed.

Print Assumptions C23_walk_terminates.
Print Assumptions C23_reachable_closed.
Print Assumptions C23_transfer_new.
Print Assumptions C23_transfer_preserves.
Print Assumptions C23_transfer_idempotent.
Print Assumptions C23_tags_status.
Print Assumptions C23_cache_fixed.
Print Assumptions C23_cache_refuted.
Print Assumptions C23_children_order_refuted.
Print Assumptions C23_nonvacuous.
