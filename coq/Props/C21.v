(** C21 — Upstream dataflow of arguments is recorded.
    "For every recorded call, each argument that was produced by another task call, directly or
    through lazy operators, containers or scheduler tasks, is linked to that upstream call node,
    and the recorded argument values equal the values the task received, with defaulted
    parameters recorded as keyword arguments."

    Only statements (closed by [exact]), witnesses, a non-vacuity example and the assumptions.

    Quantification: ALL worlds [W] (what tasks and lazy operators compute, which parameters have
    defaults, truthiness, exception matching), ALL programs (expression trees over constants,
    list/dict displays, task calls with positional and keyword arguments, lazy operators, cond
    with any number of clauses, seq, catch — any size, any nesting, any structural duplication)
    and ALL histories [ps] of runs on one backend that starts empty (so that catch replays its
    cache in later runs).  [rows_complete W st]: every Argument row of every recorded call of
    [st] carries the value of its argument expression ([sem]) and links every call that produced
    that value ([prod]: the call itself; through operators and displays all operands; cond: the
    chosen branch; seq: every item; catch: the main expression or else the recover call).
    The implementation links more (a cond predicate, siblings) — allowed: the theorem is an inclusion.

    As shipped the property is VIOLATED at two sites (C21_upstream_refuted_dup,
    C21_upstream_refuted_cached):
    - a second scheduler expression (cond / seq / catch) equal to one already evaluated under the same
      parent job is not evaluated again; [_evaluate_apply] copies only [call_hash] (None for
      scheduler expressions) onto it, so its [_upstreams] still hold its own, never evaluated
      argument objects and the consuming call records no upstream at all;
    - when [catch] replays its cached expression it evaluates a deserialised copy, the objects in its
      own arguments are never evaluated, and again no upstream is recorded.
    The repaired variant [fixed] (copy [_upstreams] onto duplicate scheduler expressions; derive the
    catch expression from the evaluated cached copy) satisfies the property for all worlds, programs
    and histories (C21_upstream_complete_fixed).

    (* NOT PROVED: a positive statement for the shipped variant (e.g. completeness for programs
       without duplicated scheduler expressions on runs without catch replays).  The shipped variant is
       covered by the two refutations and by the correspondence run only. *)
    (* NOT PROVED: "every linked call occurs in the argument's expression tree and is a recorded
       call node" (upstream_sound of DESIGN.md); decided by the implementation oracle on every
       generated history instead. *) *)
From Coq Require Import List ZArith String Bool.
From RV Require Import Model.Dataflow Proofs.DataflowArgs Proofs.DataflowEval.
Import ListNotations.
Open Scope list_scope.

(** [_record_args]: the rows reproduce the received arguments — positional values in order, every
    keyword (given or defaulted) exactly once as a keyword row, defaulted parameters as keyword rows
    without upstream. *)
Theorem C21_args_recorded : forall xpos xkw epos ekw,
  args_shape xpos xkw epos ekw ->
  args_recorded (record_args_with shipped_segs xpos xkw epos ekw) xkw epos ekw.
Proof. exact record_args_with_recorded. Qed.

(** Repaired variant: the property, for all worlds, programs and histories. *)
Theorem C21_upstream_complete_fixed : forall W ps, rows_complete W (run_all W fixed ps empty_state).
Proof. exact complete_fixed. Qed.

(** Repaired variant: duplicate detection and catch replay are transparent — every run returns the
    value of its program. *)
Theorem C21_values_fixed : forall W ps, results W fixed ps empty_state = map (sem W) ps.
Proof. intros W ps. exact (results_fixed W ps empty_state (inv_empty W)). Qed.

(* ------------------------------------------------------------------ as shipped: refuted *)
Definition lit (z : Z) : expr := EConst (VInt z).
Definition call1 (t : nat) (x : expr) (tag : Z) : expr :=
  ETask t (XCons None x (XCons (Some "tag"%string) (lit tag) XNil)).

(** [[sumc(cond(pick(1), inc(1), 0), tag=10), sumc(cond(pick(1), inc(1), 0), tag=11)]] *)
Definition dup_cond : expr :=
  ECond (XCons None (call1 5 (lit 1) 1) (XCons None (call1 0 (lit 1) 2) (XCons None (lit 0) XNil))).
Definition witness_dup : list expr :=
  [ECont (XCons None (call1 4 dup_cond 10) (XCons None (call1 4 dup_cond 11) XNil))].

(** run 1: [sumc(catch(inc(1), ValueError, rec), tag=10)]; run 2: the same with [tag=11]. *)
Definition witness_cached : list expr :=
  [call1 4 (ECatch (call1 0 (lit 1) 2) 0 7) 10; call1 4 (ECatch (call1 0 (lit 1) 2) 0 7) 11].

(** A row without any upstream whose argument was produced by some call. *)
Definition unlinked (W : world) (st : state) : bool :=
  existsb (fun c => existsb (fun r => match r_ups r, prod W (r_expr r) with
                                      | [], _ :: _ => true
                                      | _, _ => false
                                      end) (c_rows c)) (s_calls st).

Lemma unlinked_refutes : forall W st, unlinked W st = true -> ~ rows_complete W st.
Proof.
  intros W st H HC. unfold unlinked in H.
  apply existsb_exists in H. destruct H as (c & Hc & H).
  apply existsb_exists in H. destruct H as (r & Hr & H).
  destruct (HC c Hc r Hr) as [_ HI].
  destruct (r_ups r); [|discriminate]. destruct (prod W (r_expr r)) as [|k l]; [discriminate|].
  exact (HI k (or_introl eq_refl)).
Qed.

Theorem C21_upstream_refuted_dup : ~ rows_complete cw (run_all cw shipped witness_dup empty_state).
Proof. apply unlinked_refutes. vm_compute. reflexivity. Qed.

Theorem C21_upstream_refuted_cached : ~ rows_complete cw (run_all cw shipped witness_cached empty_state).
Proof. apply unlinked_refutes. vm_compute. reflexivity. Qed.

(** Each repair is needed for its witness and sufficient for it. *)
Theorem C21_sites_separate :
  unlinked cw (run_all cw {| v_copy_sched := true; v_derive_cached := false; v_forget := false |} witness_dup empty_state) = false
  /\ unlinked cw (run_all cw {| v_copy_sched := true; v_derive_cached := false; v_forget := false |} witness_cached empty_state) = true
  /\ unlinked cw (run_all cw {| v_copy_sched := false; v_derive_cached := true; v_forget := false |} witness_dup empty_state) = true
  /\ unlinked cw (run_all cw {| v_copy_sched := false; v_derive_cached := true; v_forget := false |} witness_cached empty_state) = false.
Proof. vm_compute. repeat split. Qed.

(* ------------------------------------------------------------------ pickling round trip *)
(** A parent task that is a cache hit hands the scheduler its recorded result expression,
    deserialised: new objects, [call_hash = None], [_upstreams] as [__setstate__] leaves them.
    With the shape that rebuilds [_upstreams = [args, kwargs]] ([model_setstate]) evaluating the
    deserialised tree is evaluating the tree: same rows, same upstream sets, for every variant. *)
Theorem C21_roundtrip_invariant : forall W V e st, v_forget V = false ->
  run_prog W (deser_variant model_setstate V) e st = run_prog W V e st.
Proof. intros W [a b c] e st H. simpl in H. subst c. reflexivity. Qed.

Theorem C21_upstream_complete_roundtrip : forall W ps,
  rows_complete W (run_all W (deser_variant model_setstate fixed) ps empty_state).
Proof. exact complete_fixed. Qed.

(** A [__setstate__] that forgets the rebuild: a deserialised cond/seq/catch passed into a task is
    recorded without any upstream, even with both repairs in place.
    [sumc(cond(pick(1), inc(1), 0), tag=10)] read back from the cache. *)
Definition witness_deser : list expr := [call1 4 dup_cond 10].

Theorem C21_roundtrip_refuted :
  ~ rows_complete cw (run_all cw (deser_variant forgetful_setstate fixed) witness_deser empty_state).
Proof. apply unlinked_refutes. vm_compute. reflexivity. Qed.

(* ------------------------------------------------------------------ non-vacuity *)
(** The histories of the witnesses record calls, and under the repaired variant the second
    consumer's argument row links the producing calls (here: pick and inc). *)
Example C21_nonvacuous :
  List.length (s_calls (run_all cw fixed witness_dup empty_state)) = 4
  /\ List.length (s_calls (run_all cw fixed witness_cached empty_state)) = 3
  /\ (exists c r, In c (s_calls (run_all cw fixed witness_dup empty_state)) /\ In r (c_rows c)
                  /\ c_key c = (4, [VInt 2], [("tag"%string, VInt 11)])
                  /\ r_pos r = Some 0 /\ List.length (r_ups r) = 2 /\ prod cw (r_expr r) <> [])
  /\ args_shape [(lit 1, [])] [("b"%string, (lit 2, []))] [VInt 1] [("a"%string, VInt 5); ("b"%string, VInt 2)].
Proof.
  split; [vm_compute; reflexivity|]. split; [vm_compute; reflexivity|]. split.
  - eexists. eexists. split.
    + vm_compute. right. right. right. left. reflexivity.
    + split; [left; reflexivity|]. vm_compute. repeat split; discriminate.
  - exact (proj1 args_example).
Qed.

Print Assumptions C21_args_recorded.
Print Assumptions C21_upstream_complete_fixed.
Print Assumptions C21_values_fixed.
Print Assumptions C21_upstream_refuted_dup.
Print Assumptions C21_upstream_refuted_cached.
Print Assumptions C21_sites_separate.
Print Assumptions C21_roundtrip_invariant.
Print Assumptions C21_upstream_complete_roundtrip.
Print Assumptions C21_roundtrip_refuted.
Print Assumptions C21_nonvacuous.
