(** C34 — Tag values survive display and re-parsing.
    Only statements, closed by [exact], a non-vacuity example, and their assumptions.

    [py_laws E] (Proofs/TagValueFacts.v) collects what is assumed about CPython's [int],
    [float], [json.dumps], [json.loads]; it is an explicit premise, not an axiom, and every
    field is re-tested on the running interpreter by the check. *)
From Coq Require Import List NArith ZArith String Bool.
From RV Require Import Model.TagValue Proofs.TagValueFacts Proofs.TagValueToy.
Import ListNotations.
Open Scope list_scope.

(** ** tags.py as shipped violates both halves of the property *)

(** formatting fails: "[abc" is a JSON-compatible value (a string) *)
Theorem C34_format_total_refuted : forall F (E : ext F),
  json_loads E (u "[abc") = None ->                          (* "[abc" is not JSON *)
  exists v, wf v /\ format_tag_value shipped E v = FValueError.
Proof. exact @format_raises_shipped. Qed.

(** the displayed text reads back as another value: the five characters "abc" in quotes
    are displayed as they are and come back as the three characters abc *)
Theorem C34_roundtrip_refuted : forall F (E : ext F),
  json_loads E (u """abc""") = Some (JStr (u "abc")) ->      (* json.loads('"abc"') == 'abc' *)
  exists v t v', wf v /\ format_tag_value shipped E v = FOk t /\
                 parse_tag_value shipped E t = POk v' /\ ~ jeq v v'.
Proof. exact @roundtrip_refuted_shipped. Qed.

(** the whole class of strings on which the shipped code goes wrong, and how *)
Theorem C34_shipped_defect_class : forall F (E : ext F) s, shipped_bad E s ->
  (json_loads E s = None /\ format_tag_value shipped E (JStr s) = FValueError) \/
  (exists s', json_loads E s = Some (JStr s') /\ format_tag_value shipped E (JStr s) = FOk s /\
              parse_tag_value shipped E s = POk (JStr s')).
Proof. exact @shipped_bad_outcome. Qed.

(** outside that class the shipped code does satisfy the property *)
Theorem C34_roundtrip_shipped_partial : forall F (E : ext F), py_laws E -> forall v, wf v ->
  (forall s, v = JStr s -> ~ shipped_bad E s) ->
  exists t v', format_tag_value shipped E v = FOk t /\ parse_tag_value shipped E t = POk v' /\ jeq v v'.
Proof. exact @roundtrip_shipped_partial. Qed.

(** ** the repaired variant satisfies the property for every JSON-compatible value *)

(** formatting never fails (no assumption about CPython needed) *)
Theorem C34_format_total_fixed : forall F (E : ext F) v, exists t, format_tag_value fixed E v = FOk t.
Proof. exact @format_total_fixed. Qed.

(** parsing the displayed text yields the original value *)
Theorem C34_roundtrip_fixed : forall F (E : ext F), py_laws E -> forall v, wf v ->
  exists t v', format_tag_value fixed E v = FOk t /\ parse_tag_value fixed E t = POk v' /\ jeq v v'.
Proof. exact @roundtrip_fixed. Qed.

(** strings that look like numbers, literals or JSON stay strings *)
Theorem C34_strings_stay_strings_fixed : forall F (E : ext F), py_laws E -> forall s,
  exists t, format_tag_value fixed E (JStr s) = FOk t /\ parse_tag_value fixed E t = POk (JStr s).
Proof. exact @strings_stay_strings_fixed. Qed.

(** None, booleans, ints and floats come back identical, type included *)
Theorem C34_scalars_exact_fixed : forall F (E : ext F), py_laws E -> forall v, json_routed v = false ->
  exists t, format_tag_value fixed E v = FOk t /\ parse_tag_value fixed E t = POk v.
Proof. exact @scalars_exact_fixed. Qed.

(** ** Non-vacuity *)

(** the premise [py_laws] is satisfiable: a small self-contained [int]/[float]/[json]
    (Proofs/TagValueToy.v) meets every law ... *)
Theorem C34_laws_satisfiable : py_laws toy_ext.
Proof. exact toy_laws. Qed.

(** ... and on it the model runs on a nested value, on number- and JSON-looking strings,
    and reproduces both defects of the shipped guard *)
Example C34_nonvacuous :
  let v : jv unit := JDict [(u "k", JList [JInt (-12); JStr (u "[abc"); JFloat tt; JNull]);
                            (u "a b", JBool true)] in
  wf v /\
  (exists t, format_tag_value fixed toy_ext v = FOk t /\ parse_tag_value fixed toy_ext t = POk v) /\
  format_tag_value fixed toy_ext (JStr (u "12")) = FOk (json_dumps toy_ext true (JStr (u "12"))) /\
  parse_tag_value fixed toy_ext (u "12") = POk (JInt 12) /\
  format_tag_value fixed toy_ext (JStr (u "x12")) = FOk (u "x12") /\
  format_tag_value shipped toy_ext (JStr (u "[abc")) = FValueError /\
  shipped_bad toy_ext (u "[abc").
Proof.
  cbv zeta. split.
  - simpl. repeat split; try exact I.
    repeat constructor; simpl; intuition discriminate.
  - split; [eexists; split; vm_compute; reflexivity|].
    repeat split; vm_compute; try reflexivity; exact I.
Qed.

Print Assumptions C34_format_total_refuted.
Print Assumptions C34_roundtrip_refuted.
Print Assumptions C34_shipped_defect_class.
Print Assumptions C34_roundtrip_shipped_partial.
Print Assumptions C34_format_total_fixed.
Print Assumptions C34_roundtrip_fixed.
Print Assumptions C34_strings_stay_strings_fixed.
Print Assumptions C34_scalars_exact_fixed.
Print Assumptions C34_laws_satisfiable.
Print Assumptions C34_nonvacuous.
