(** C22 — Interrupted or retried recording never corrupts later runs.

    Same model as C03 (Model/Recording.v).  Every [session.commit()] attempt of a history has a
    fate: it succeeds, raises a transient OperationalError (db_retry rolls back and retries, with
    the shared attempt counter and the nested db_retry of record_value modelled as in the code),
    or is the point where the process dies.  Foreign and primary keys are enforced by the
    database.

    Parts of the statement and where they are proved:
    - "the backend remains referentially consistent", "neither duplicate ...": [C22_referential_integrity],
      all configurations, all histories without imports (transfer is C23);
    - committed records are never lost by a later operation: [C22_committed_never_lost];
    - "a later execution returns what a run on an empty backend would": at the recording layer the
      only replay whose validity depends on more than one commit is the shallow hit, so this is
      C03's theorem over histories that include crashes and retries: [C22_recovery_sound_fixed];
      refuted as shipped by [C22_refuted_crash] / [C22_refuted_retry_stale];
    - "retried operations neither duplicate nor lose records": refuted as shipped
      ([C22_refuted_retry_loses_rows], [C22_refuted_nested_retry_loses_argument]); for the repaired
      variant proved for every fault plan as far as the call node and its subtree rows go
      ([C22_retry_no_loss_fixed_partial]) and, for whole tables, exhaustively on a bounded domain
      ([C22_retry_idempotent_fixed_bounded]).

    (* NOT PROVED (full strength of the last part):
       forall R s p pl, consistent s -> pen s = db0 -> (forall f, In f pl -> f <> FCrash) ->
         forall s' pl', resolve_op (fixed R) p s pl = ROk s' pl' ->
         exists s'' , resolve_op (fixed R) p s [] = ROk s'' [] /\ com s' = com s''. *) *)
From Coq Require Import List Arith Bool.
From RV Require Import Model.Recording Proofs.RecordingBase Proofs.RecordingGen Proofs.RecordingSub
  Proofs.RecordingFk Proofs.RecordingWitness Proofs.RecordingMixed.
Import ListNotations.
Open Scope list_scope.

Theorem C22_referential_integrity : forall g es, forallb (fun e => negb (is_import e)) es = true ->
  consistent (run g es).
Proof. exact referential_integrity. Qed.

Theorem C22_committed_never_lost : forall g s e, is_import e = false -> consistent s ->
  db_le (com s) (com (step_event g s e)).
Proof. exact committed_never_lost. Qed.

Theorem C22_retry_loop_total : forall R ss p s pl, record_call_node R ss p s pl <> RFuel.
Proof. exact retry_loop_total. Qed.

Theorem C22_recovery_sound_fixed : forall R es t a rg c,
  shallow_hit (fixed R) (run (fixed R) es) t a rg = Some c -> t_task c = t /\ t_args c = a /\ incl (tasks_of c) rg.
Proof. intros R es t a rg c H. exact (proj2 (shallow_hit_sound_fixed R es t a rg c H)). Qed.

(** Any fault plan: if the repaired record_call_node returns, all subtree rows are committed and
    nothing is left pending. *)
Theorem C22_retry_no_loss_fixed_partial : forall R p s pl s' pl',
  record_call_node R rcn_fixed p s pl = ROk s' pl' ->
  pen s' = db0 /\ incl (p_subtree p) (rows (com s') (p_call p)).
Proof.
  intros R p s pl s' pl' H. unfold record_call_node in H. apply rcn_loop_ok in H.
  destruct H as (s1 & pl1 & H). exact (fixed_post R p s1 pl1 s' pl' H).
Qed.

(** Bound: retry budgets 1 and 3, the four operations of [scenarios] (existing / new argument
    values, recorded / unrecorded children, no arguments) on the state [s_base], every fate list
    over {success, OperationalError} of length <= 7 (255 lists; the operations make at most 7
    commit attempts).  Outcome: the operation returns with exactly the committed tables of the
    fault-free run, or the run dies; nothing else. *)
Theorem C22_retry_idempotent_fixed_bounded : forall R p pl, In R [1; 3] -> In p scenarios -> In pl (plans 7) ->
  idem_ok (fixed R) p (s_base (fixed R)) pl = true.
Proof. exact retry_idempotent_fixed_bounded. Qed.

(** As shipped. *)
Theorem C22_refuted_retry_loses_rows :
  idem_ok (shipped 3) (mkp topc [1; 2]) (s_base (shipped 3)) [FOk; FFail] = false /\
  ok_with_rows (resolve_op (shipped 3) (mkp topc [1; 2]) (s_base (shipped 3)) [FOk; FFail]) topc [] = true /\
  ok_with_rows (resolve_op (shipped 3) (mkp topc [1; 2]) (s_base (shipped 3)) []) topc [1; 2] = true.
Proof. exact retry_loses_rows_shipped. Qed.

Theorem C22_refuted_nested_retry_loses_argument :
  died_clean (resolve_op (shipped 3) p_two_args (s_base (shipped 3)) [FOk; FFail]) (p_call p_two_args) = true /\
  ok_with_args (resolve_op (shipped 3) p_two_args (s_base (shipped 3)) [FOk; FOk; FFail]) (p_call p_two_args) 1 = true /\
  ok_with_args (resolve_op (shipped 3) p_two_args (s_base (shipped 3)) []) (p_call p_two_args) 2 = true.
Proof. exact inner_fault_shipped. Qed.

Theorem C22_refuted_crash : exists c, shallow_hit (shipped 3) (run (shipped 3) h_crash) 1 [10] [1; 3] = Some c /\
  ~ incl (tasks_of c) [1; 3].
Proof. exact (stale_spec _ _ _ _ _ w_crash). Qed.
Theorem C22_refuted_retry_stale : exists c, shallow_hit (shipped 3) (run (shipped 3) h_retry) 1 [10] [1; 3] = Some c /\
  ~ incl (tasks_of c) [1; 3].
Proof. exact (stale_spec _ _ _ _ _ w_retry). Qed.

(** Configuration [mixed] (record_call_node as shipped, lookup and scheduler repaired): the
    record-loss witnesses carry over unchanged; recovery is sound as long as no job is replayed by CSE. *)
Theorem C22_refuted_mixed_retry_loses_records :
  idem_ok (mixed 3) (mkp topc [1; 2]) (s_base (mixed 3)) [FOk; FFail] = false /\
  ok_with_rows (resolve_op (mixed 3) (mkp topc [1; 2]) (s_base (mixed 3)) [FOk; FFail]) topc [] = true /\
  ok_with_args (resolve_op (mixed 3) p_two_args (s_base (mixed 3)) [FOk; FOk; FFail]) (p_call p_two_args) 1 = true /\
  died_clean (resolve_op (mixed 3) p_two_args (s_base (mixed 3)) [FOk; FFail]) (p_call p_two_args) = true.
Proof. exact retry_loses_rows_mixed. Qed.
Theorem C22_recovery_sound_mixed_partial : forall R es, forallb (fun e => negb (is_cse e)) es = true ->
  forall t a rg c, shallow_hit (mixed R) (run (mixed R) es) t a rg = Some c -> t_task c = t /\ t_args c = a /\ incl (tasks_of c) rg.
Proof. intros R es Hn t a rg c H. exact (proj2 (shallow_hit_sound_mixed_nocse R es Hn t a rg c H)). Qed.
Theorem C22_refuted_mixed_stale : exists c, shallow_hit (mixed 3) (run (mixed 3) h_mixed) 5 [10] [3; 4; 5; 6] = Some c /\
  ~ incl (tasks_of c) [3; 4; 5; 6].
Proof. exact (stale_spec _ _ _ _ _ (proj1 w_mixed)). Qed.

(** Non-vacuity: the repaired variant completes the witness operations with every row. *)
Example C22_nonvacuous :
  ok_with_rows (resolve_op (fixed 3) (mkp topc [1; 2]) (s_base (fixed 3)) [FOk; FFail]) topc [1; 2] = true /\
  ok_with_args (resolve_op (fixed 3) p_two_args (s_base (fixed 3)) [FOk; FFail]) (p_call p_two_args) 2 = true /\
  ok_with_args (resolve_op (fixed 3) p_two_args (s_base (fixed 3)) [FOk; FOk; FFail]) (p_call p_two_args) 2 = true.
Proof. exact (conj retry_keeps_rows_fixed inner_fault_fixed). Qed.

Print Assumptions C22_referential_integrity.
Print Assumptions C22_committed_never_lost.
Print Assumptions C22_retry_loop_total.
Print Assumptions C22_recovery_sound_fixed.
Print Assumptions C22_retry_no_loss_fixed_partial.
Print Assumptions C22_retry_idempotent_fixed_bounded.
Print Assumptions C22_refuted_retry_loses_rows.
Print Assumptions C22_refuted_nested_retry_loses_argument.
Print Assumptions C22_recovery_sound_mixed_partial.
