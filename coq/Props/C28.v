(** C28 — Dry runs execute nothing and predict the real run.
    Model: Model/JobMachine.v with [dryrun c = true]; [real_of c] is the same configuration with
    dryrun = false.  The schedule (op list) fixes the workflow shape, the completion order and the
    answers of the backend cache, so "the real run on the same backend" is the real machine on the
    same op list. *)
From Coq Require Import List ZArith Bool Arith Lia.
From RV Require Import Model.JobMachine Proofs.JobBase Proofs.JobDry Proofs.JobDry2.
Import ListNotations.
Open Scope list_scope.

(** A dry run never hands a job to an executor, never consumes a resource unit. *)
Theorem C28_dryrun_submits_nothing : forall c ops,
  dryrun c = true -> release_if_holds (vr c) = true ->
  submitlog (run c ops) = [] /\
  (forall j x, getj (run c ops) j = Some x -> jsubmits x = 0 /\ jholds x = false) /\
  (forall r, used (run c ops) r = 0%Z).
Proof.
  intros c ops H1 H2. destruct (dry_run c H1 H2 ops) as [D N]. split; [apply (d_log _ D)|]. split.
  - intros j x Hx. split; [apply (d_sub _ D j x Hx)|apply (N j x Hx)].
  - apply (d_used _ D).
Qed.

(** If the dry run never has to stop at a job (no job ends in PDryStop, at any moment), the real
    run performs exactly the same steps: same jobs, same phases, same results. *)
Theorem C28_dryrun_complete_predicts : forall c ops,
  dryrun c = true ->
  (forall n, clean (run c (firstn n ops))) ->
  run (real_of c) ops = run c ops.
Proof. intros c ops H. exact (dry_agrees c H ops). Qed.

(** If the dry run stops at a job (cache miss: no pending twin, no recorded or cached result), the
    real run hands that job to an executor. *)
Theorem C28_dryrun_stop_means_work : forall c ops j co x,
  dryrun c = true -> release_if_holds (vr c) = true ->
  getj (run c ops) j = Some x -> jbadexec x = false -> within c (fun _ => 0%Z) (jlimits x) = true ->
  miss_branch c (run c ops) x co ->
  getj (exec_job c (run c ops) j co) j = Some (with_phase x PDryStop) /\
  exists y, getj (exec_job (real_of c) (run c ops) j co) j = Some y /\
            jsubmits y = S (jsubmits x) /\ jphase y = PSubmitted.
Proof.
  intros c ops j co x H1 H2 Hx Hb Hf Hm. destruct (dry_run c H1 H2 ops) as [D _].
  exact (dry_stop_means_work c H1 (run c ops) j co x D Hx Hb Hf Hm).
Qed.

Definition c28_cfg : config := {| limit_of := fun _ => 1%Z; dryrun := true; vr := all_fixed |}.
Example C28_nonvacuous :
  let ops := [ ONew 1 0 [(0, 1%Z)] false true false; OPop 0 0 (CHitFinal 4%Z); OPop 1 0 CMiss; OPop 3 0 CMiss;
               ONew 2 0 [(0, 1%Z)] false true false; OPop 0 1 CMiss ] in
  map jphase (jobs (run c28_cfg ops)) = [PSettled (Ok 4%Z); PDryStop] /\
  map jphase (jobs (run (real_of c28_cfg) ops)) = [PSettled (Ok 4%Z); PSubmitted] /\
  run (real_of c28_cfg) (firstn 4 ops) = run c28_cfg (firstn 4 ops).
Proof. vm_compute. repeat split; reflexivity. Qed.

Print Assumptions C28_dryrun_submits_nothing.
Print Assumptions C28_dryrun_complete_predicts.
Print Assumptions C28_dryrun_stop_means_work.
