(** C09, closed programs — the termination half that the open job machine (Props/C09.v) cannot state:
    on the tree-of-calls machine (Model/EvalTree.v: a fixed finite program, no limits) every schedule makes at
    most two state-changing steps per call of the program, and a state that no step changes any more has every
    created call settled, the root included.  Together: under every schedule the execution reaches, after finitely
    many effective steps, a state in which every job has a result or an error. *)
From Coq Require Import List ZArith Bool Arith.
From RV Require Import Model.EvalTree Proofs.EvalTreeWF Proofs.EvalTreeRun Proofs.EvalTreeTerm.
Import ListNotations.
Open Scope list_scope.

Theorem C09_tree_steps_bounded : forall s ops, progressing (idle s) ops -> length ops <= 2 * ssize s.
Proof. exact run_terminates. Qed.

Theorem C09_tree_step_decreases : forall s ops o,
  step (run s ops) o = run s ops \/ pot (step (run s ops) o) < pot (run s ops).
Proof. intros s ops o. apply step_dec. apply Inv_run. Qed.

Theorem C09_tree_quiescent_settled : forall s ops,
  (forall o, step (run s ops) o = run s ops) ->
  Settled (run s ops) /\ exists o, result (run s ops) = Some o.
Proof. exact run_quiescent_settled. Qed.

(** Non-vacuity: a program with a failing sequence inside a catch_all; 12 effective steps (bound 2 * 8 = 16: the two
    calls after the failure are never created), after which nothing changes any more. *)
Example C09_tree_nonvacuous :
  let s := SAll [SSeq [SLeaf 1; SRaise 7; SLeaf 3; SLeaf 4]; SCatch (SRaise 2)] in
  let ops := [OStart []; OFinish []; OStart [1]; OStart [0]; OFinish [0]; OFinish [1]; OStart [1;0]; OStart [0;0];
              OFinish [0;0]; OFinish [1;0]; OStart [0;1]; OFinish [0;1]] in
  progressing (idle s) ops /\ ssize s = 8 /\ result (run s ops) = Some (Ko 7%Z) /\
  forallb (fun o => match o with OStart p | OFinish p => true end) ops = true.
Proof.
  split; [|vm_compute; repeat split; reflexivity].
  repeat (apply pg_cons; [vm_compute; discriminate|]). apply pg_nil.
Qed.

(** What the property's "each job created ends done, cached or failed" does NOT get from the implementation: the
    event loop stops as soon as the root has its outcome (run raises at the first failure that reaches the root), and
    the calls still in flight are never settled.  In the machine: the root is failed, a created sibling is still
    running (the real Scheduler leaves its Job row RUNNING; registered known finding). *)
Example C09_fail_fast_leaves_unsettled_refuted :
  let s := SList 0 [SRaise 1; SLeaf 2] in
  let n := run s [OStart []; OFinish []; OStart [1]; OStart [0]; OFinish [0]] in
  result n = Some (Ko 1%Z) /\ map nphase (nkids n) = [PDone (Ko 1%Z); PRun].
Proof. vm_compute. split; reflexivity. Qed.

(** The same for executions that RETURN: a failure caught by [catch] lets the root resolve with the recovery while a
    sibling of the failed call is still running; run returns and that call is never settled (registered known finding). *)
Example C09_early_return_leaves_unsettled_refuted :
  let s := SCatch (SList 0 [SRaise 1; SLeaf 2]) in
  let n := run s [OStart []; OFinish []; OStart [0]; OFinish [0]; OStart [0;1]; OStart [0;0]; OFinish [0;0]] in
  result n = Some (Ok (VRec 1%Z)) /\
  map (fun k => map nphase (nkids k)) (nkids n) = [[PDone (Ko 1%Z); PRun]].
Proof. vm_compute. split; reflexivity. Qed.

Print Assumptions C09_tree_steps_bounded.
Print Assumptions C09_tree_step_decreases.
Print Assumptions C09_tree_quiescent_settled.
