(** C18 — Expression identity matches the call it denotes.
    Statements only; proofs are in Proofs/ExprHashMain.v.

    Premises (Section hypotheses, never axioms):
      [H_inj]       the truncated SHA-512 behind Hash().hexdigest() has no collision
      [pickle_inj]  pickle_dumps of an option dict determines the dict
      [args_rt] [kwargs_rt] [value_rt]  registry.deserialize(registry.serialize(x)) = x  (pickling part only)
    [vhash] (TypeRegistry.get_hash of an argument) is an arbitrary function: "same arguments" is
    stated on the argument hashes, and on the arguments themselves when [vhash] is injective.

    The unchanged tree hashes a SchedulerExpression without its options ([C18_scheduler_options_refuted]);
    the full statement is proved for the repaired layout ([_fixed]) and, as shipped, for everything
    but the options of scheduler expressions ([_shipped_partial]). *)
From Coq Require Import String List ZArith Ascii Bool Permutation.
From RV Require Import Base.Decimal Model.Bencode Model.TaskHash Model.ExprHash Proofs.ExprHashMain.
Import ListNotations.
Open Scope list_scope.

Section C18.
  Variable H : bytes -> bytes.
  Hypothesis H_inj : forall x y, H x = H y -> x = y.
  Variable value : Type.
  Variable vhash : value -> bytes.
  Variable pickle : opts value -> bytes.
  Hypothesis pickle_inj : forall o o', pickle o = pickle o' -> o = o'.

  Notation expr := (ExprHash.expr value).
  Notation calc := (expr_calc H vhash pickle).

  (** Same hash only if same call: kind, task/operator name, arguments (by hash), call-time options,
      exported options (as a set). *)
  Theorem C18_same_hash_same_call_fixed : forall e e' : expr, wf value e -> wf value e' ->
    calc Fixed [] e = calc Fixed [] e' -> same_call value vhash e e'.
  Proof. exact (same_hash_same_call_fixed H H_inj value vhash pickle pickle_inj). Qed.

  Theorem C18_same_hash_same_call_shipped_partial : forall e e' : expr, wf value e -> wf value e' ->
    calc AsShipped [] e = calc AsShipped [] e' -> same_call_weak value vhash e e'.
  Proof. exact (same_hash_same_call_shipped H H_inj value vhash pickle pickle_inj). Qed.
  (* NOT PROVED for the shipped layout (it is false, see C18_scheduler_options_refuted):
       forall e e', wf e -> wf e' -> calc AsShipped [] e = calc AsShipped [] e' -> same_call e e' *)

  (** on the arguments themselves, given a collision-free value hash *)
  Theorem C18_same_positional_arguments : (forall v w, vhash v = vhash w -> v = w) ->
    forall e e' : expr, same_args value vhash e e' -> e_args e = e_args e'.
  Proof.
    intros Vinj e e' [A _]. revert A. generalize (e_args e) (e_args e'). clear e e'.
    induction l as [|x l IH]; intros [|y l'] E; try discriminate; auto.
    simpl in E. injection E as E0 E. apply Vinj in E0. subst. f_equal. auto.
  Qed.

  (** the pending-expression table merges two expressions of one job only if they denote the same call *)
  Theorem C18_merge_only_same_call_fixed : forall j j' (e e' : expr), wf value e -> wf value e' ->
    cache_ok H value vhash pickle Fixed [] e -> cache_ok H value vhash pickle Fixed [] e' ->
    merge_key H vhash pickle Fixed [] j e = merge_key H vhash pickle Fixed [] j' e' ->
    j = j' /\ same_call value vhash e e'.
  Proof. exact (merge_only_same_call_fixed H H_inj value vhash pickle pickle_inj). Qed.

  (** as shipped a scheduler expression's hash is blind to its options and exported options *)
  Theorem C18_scheduler_options_invisible_shipped : forall (e : expr) o ex o' ex', e_kind e = KScheduler ->
    calc AsShipped [] (with_options value e o ex) = calc AsShipped [] (with_options value e o' ex').
  Proof. exact (scheduler_options_invisible H value vhash pickle). Qed.

  (** SimpleExpression hashes its operator name verbatim; any replacement table makes an operator collide with
      the name it is mapped to on the same operands (the shape "reflected operators share the forward
      operator's hash"): *)
  Theorem C18_simple_name_map_collides : forall ve nm r f (e : expr), e_kind e = KSimple ->
    lookup_b r nm = Some f -> lookup_b f nm = None ->
    calc ve nm (with_name value e r) = calc ve nm (with_name value e f).
  Proof. exact (simple_name_map_collides H value vhash pickle). Qed.

  (** Pickling: hash, name, arguments, options, exported options survive; _hash, call_hash and
      _upstreams are reset. *)
  Variable sdata : Type.
  Variable ser_args : list value -> sdata.
  Variable deser_args : sdata -> list value.
  Variable ser_kwargs : list (bytes * value) -> sdata.
  Variable deser_kwargs : sdata -> list (bytes * value).
  Variable type_name : value -> bytes.
  Variable ser_value : value -> sdata.
  Variable deser_value : bytes -> sdata -> value.
  Hypothesis args_rt : forall a, deser_args (ser_args a) = a.
  Hypothesis kwargs_rt : forall k, deser_kwargs (ser_kwargs k) = k.
  Hypothesis value_rt : forall v, deser_value (type_name v) (ser_value v) = v.

  Theorem C18_pickle_roundtrip : forall ve nm (e : expr), class_wf value e ->
    exists e', roundtrip ser_args deser_args ser_kwargs deser_kwargs type_name ser_value deser_value e = Some e' /\
      e_kind e' = e_kind e /\ e_name e' = e_name e /\ e_args e' = e_args e /\ e_kwargs e' = e_kwargs e /\
      e_options e' = e_options e /\ e_export e' = e_export e /\ e_value e' = e_value e /\
      (match e_kind e with KTask | KScheduler => e_length e' = e_length e | _ => e_length e' = None end) /\
      cleared value e' /\
      calc ve nm e' = calc ve nm e /\
      get_hash H vhash pickle ve nm e' = calc ve nm e.
  Proof.
    exact (pickle_roundtrip H value vhash pickle sdata ser_args deser_args ser_kwargs deser_kwargs type_name
                            ser_value deser_value args_rt kwargs_rt value_rt).
  Qed.
End C18.

(** * Witness and non-vacuity (H = identity is collision-free; values are their own hashes; an option
      dict pickles to its flattened text) *)
Definition Hid (x : bytes) : bytes := x.
Definition pflat (o : opts bytes) : bytes :=
  concat (map (fun kv : bytes * bytes => fst kv ++ b "=" ++ snd kv ++ b ";") o).

Definition cond_expr (o : opts bytes) : expr bytes :=
  {| e_kind := KScheduler; e_name := b "redun.cond"; e_args := [b "True"; b "1"; b "2"]; e_kwargs := [];
     e_options := o; e_export := []; e_value := None; e_length := None;
     e_hash := None; e_call_hash := None; e_upstreams := UArgs |}.

(** cond.options(cache_scope="NONE")(True, 1, 2) and cond(True, 1, 2): same hash as shipped, hence
    merged by the pending-expression table of a job; different hashes once options are hashed. *)
Theorem C18_scheduler_options_refuted :
  let e1 := cond_expr [(b "cache_scope", b "NONE")] in
  let e2 := cond_expr [] in
  e_options e1 <> e_options e2 /\
  expr_calc Hid Hid pflat AsShipped [] e1 = expr_calc Hid Hid pflat AsShipped [] e2 /\
  merge_key Hid Hid pflat AsShipped [] 7 e1 = merge_key Hid Hid pflat AsShipped [] 7 e2 /\
  bytes_eqb (expr_calc Hid Hid pflat Fixed [] e1) (expr_calc Hid Hid pflat Fixed [] e2) = false /\
  expr_calc Hid Hid pflat Fixed [] e2 = expr_calc Hid Hid pflat AsShipped [] e2.
Proof. vm_compute. repeat split; try reflexivity. discriminate. Qed.

(** x + "a" is add(x, "a"), "a" + x is radd(x, "a"): same operands, different operator. Hashed verbatim they
    differ; with radd hashed as add they collide (and are merged by the pending-expression table). *)
Definition op_expr (n : bytes) : expr bytes :=
  {| e_kind := KSimple; e_name := n; e_args := [b "x"; b "'a'"]; e_kwargs := [];
     e_options := []; e_export := []; e_value := None; e_length := None;
     e_hash := None; e_call_hash := None; e_upstreams := UArgs |}.
Definition reflected_map : list (bytes * bytes) :=
  [(b "radd", b "add"); (b "rmul", b "mul"); (b "rand", b "and"); (b "ror", b "or")].

Theorem C18_simple_name_map_refuted :
  e_name (op_expr (b "add")) <> e_name (op_expr (b "radd")) /\
  expr_calc Hid Hid pflat Fixed reflected_map (op_expr (b "add")) = expr_calc Hid Hid pflat Fixed reflected_map (op_expr (b "radd")) /\
  merge_key Hid Hid pflat Fixed reflected_map 7 (op_expr (b "add")) = merge_key Hid Hid pflat Fixed reflected_map 7 (op_expr (b "radd")) /\
  bytes_eqb (expr_calc Hid Hid pflat Fixed [] (op_expr (b "add"))) (expr_calc Hid Hid pflat Fixed [] (op_expr (b "radd"))) = false.
Proof. vm_compute. repeat split; try reflexivity. discriminate. Qed.

Example C18_nonvacuous :
  (forall x y, Hid x = Hid y -> x = y) /\
  (let e := {| e_kind := KTask; e_name := b "ns.f"; e_args := [b "1"]; e_kwargs := [(b "k", b "3")];
               e_options := [(b "memory", b "1")]; e_export := [b "prov"; b "cache_scope"]; e_value := None;
               e_length := Some 2; e_hash := Some (b "stale"); e_call_hash := Some (b "zzz");
               e_upstreams := UOther 1 |} in
   wf bytes e /\ class_wf bytes e /\
   (forall a, da (sa a) = a) /\ (forall v, dv (b "builtins.str") (sv v) = v) /\
   exists e', rt_bytes (fun _ => b "builtins.str") e = Some e' /\
              e_hash e' = None /\ e_call_hash e' = None /\ e_upstreams e' = UArgs /\ e_length e' = Some 2 /\
              expr_calc Hid Hid pflat Fixed [] e' = expr_calc Hid Hid pflat Fixed [] e) /\
  (let v := {| e_kind := KValue; e_name := []; e_args := []; e_kwargs := []; e_options := []; e_export := [];
               e_value := Some (b "10"); e_length := None; e_hash := None; e_call_hash := None;
               e_upstreams := UEmpty |} in
   wf bytes v /\ class_wf bytes v).
Proof.
  split; [intros x y E; exact E|]. split.
  - split; [intros K; discriminate|]. split; [reflexivity|].
    split; [intros a; unfold da, sa; rewrite map_map; apply map_id|]. split; [reflexivity|].
    eexists. split; [vm_compute; reflexivity|]. vm_compute. repeat split.
  - split; [intros _; discriminate|]. vm_compute. repeat split. discriminate.
Qed.

Print Assumptions C18_same_hash_same_call_fixed.
Print Assumptions C18_same_hash_same_call_shipped_partial.
Print Assumptions C18_merge_only_same_call_fixed.
Print Assumptions C18_pickle_roundtrip.
Print Assumptions C18_scheduler_options_refuted.
Print Assumptions C18_simple_name_map_refuted.
Print Assumptions C18_nonvacuous.
