(** C20 — Recorded call graphs are a consistent Merkle record of the run.
    Statements only (closed by [exact]); the model is Model/CallGraph.v, driven by ANY list of events
    (job starts, submissions, adoptions of a call hash from the cache or a twin, finishing events in any
    completion order, further executions on the same database).
    Premise of the hash theorems: H (truncated SHA-512) is injective — a Section hypothesis, never an axiom. *)
From Coq Require Import List Arith Bool Ascii Permutation.
From RV Require Import Base.Decimal Model.Bencode Model.CallGraph Proofs.CallGraphHash Proofs.CallGraphInv
     Proofs.CallGraphJobs Proofs.CallGraphRun Proofs.CallGraphWitness.
Import ListNotations.
Open Scope list_scope.

Section C20.
  Variable H : bytes -> hash.
  Hypothesis H_inj : forall a b, H a = H b -> a = b.
  Variable C : cfg.
  Hypothesis C_layout : layout C = shipped_layout.

  (** The call hash is a Merkle hash: equal hashes <-> same task, arguments, result and the same child
      call hashes up to order. *)
  Theorem C20_call_hash_merkle : forall t a r cs t' a' r' cs',
    call_hash H C t a r cs = call_hash H C t' a' r' cs' <-> t = t' /\ a = a' /\ r = r' /\ Permutation cs cs'.
  Proof. exact (call_hash_merkle H H_inj C C_layout). Qed.
End C20.

(** For every event sequence (any tree, any completion order, any number of executions), any variant:
    every CallNode row is the hash of its task, args, result and a child list [cs]; each of its edges
    (p, c, i) is position i of that list and points to a recorded node; edge parents are recorded nodes;
    call hashes are unique. *)
Theorem C20_nodes_merkle : forall H C evs,
  graph_ok H C (cns (run H C init evs)) (edges (run H C init evs)).
Proof. exact nodes_merkle. Qed.

(** Edges = the children recorded at the first recording of the node, and they never change afterwards. *)
Theorem C20_edges_at_first_recording : forall H C t a r cs s,
  graph_ok H C (cns s) (edges s) -> recorded s (call_hash H C t a r cs) = false ->
  edges_of (call_hash H C t a r cs) (edges (snd (record_node H C t a r cs s))) =
  new_edges (map cn_hash (cns s)) (call_hash H C t a r cs) 0 cs.
Proof. exact record_node_edges_new. Qed.
Theorem C20_edges_positions : forall known p cs i c,
  In (p, c, i) (new_edges known p 0 cs) <-> nth_error cs i = Some c /\ In c known.
Proof.
  intros known p cs i c. split.
  - intros Hin. apply new_edges_spec in Hin. destruct Hin as (_ & i0 & -> & A & B). auto.
  - intros [A B]. exact (new_edges_complete known p 0 cs i c A B).
Qed.
Theorem C20_edges_stable : forall H C evs s p,
  graph_ok H C (cns s) (edges s) -> In p (map cn_hash (cns s)) ->
  edges_of p (edges (run H C s evs)) = edges_of p (edges s).
Proof. exact edges_stable. Qed.

(** Job rows never name an unrecorded node (the guarded registration of the current code). *)
Theorem C20_job_rows_fk : forall H C, reg_guard C = true -> forall evs row h,
  In row (jobs (run H C init evs)) -> jr_call row = Some h -> In h (map cn_hash (cns (run H C init evs))).
Proof. exact job_rows_fk. Qed.

(** Every Job row, Execution row and Tag row in the final tables belongs to the job it is meant for:
    a Job row carries the parent / execution / task of a started provenance job; an Execution row names its
    parentless job; a tag row is a tag source (value / job / execution / task entity) of a finishing
    provenance job. *)
Theorem C20_rows_mirror_run : forall H C evs, hist_ok evs (run H C init evs).
Proof. exact run_hist. Qed.

(** ... and nothing is lost: a provenance job that finishes (without the scheduler dying) has all its tags recorded. *)
Theorem C20_tags_complete : forall H C i ok cached a r ch vt jt et s,
  ji_prov i = true -> dead (finish H C i ok cached a r ch vt jt et s) = false -> dead s = false ->
  forall x, In x (tags s) \/ In x (tag_sources i vt jt et) -> In x (tags (finish H C i ok cached a r ch vt jt et s)).
Proof. exact finish_tags_complete. Qed.

(** prov=False jobs record nothing, but a successful one carries the Merkle hash of its unrecorded call. *)
Theorem C20_noprov_records_nothing : forall H C i ok cached a r ch vt jt et s,
  ji_prov i = false ->
  let s' := finish H C i ok cached a r ch vt jt et s in
  cns s' = cns s /\ edges s' = edges s /\ jobs s' = jobs s /\ execs s' = execs s /\ tags s' = tags s /\ dead s' = dead s.
Proof. exact noprov_records_nothing. Qed.
Theorem C20_noprov_hash : forall H C i cached a r ch vt jt et s,
  ji_prov i = false -> lookup_jh (ji_id i) (jh s) = None ->
  lookup_jh (ji_id i) (jh (finish H C i true cached a r ch vt jt et s)) =
  Some (call_hash H C (ji_task i) a r (child_hashes (jh s) ch)).
Proof. exact noprov_hash. Qed.

(** As shipped, the property is violated in two places (H = identity on pre-images, an injective hash): *)
(** 1. one pair listed twice among a job's tags kills the scheduler (IntegrityError on tag.tag_hash). *)
Theorem C20_tags_twice_refuted : exists evs, dead (run idH shipped_cfg init evs) = true.
Proof. exists w_tags. exact tags_twice_dies_shipped. Qed.
(** 2. a duplicate of a FAILED call that collapsed into its twin is recorded as a second, childless
       CallNode: the two Job rows of the same call name different nodes. *)
Theorem C20_failed_twin_refuted : exists evs,
  let s := run idH shipped_cfg init evs in
  dead s = false /\ lookup_jh 1 (jh s) <> lookup_jh 2 (jh s) /\ call_of 1 s <> call_of 2 s /\
  length (cns s) = 3 /\ length (edges s) = 1.
Proof. exists w_twin. exact failed_twin_shipped. Qed.

(** Repaired variant: the scheduler never dies, and a finishing job keeps the hash it adopted. *)
Theorem C20_never_dies_fixed : forall H C, reg_guard C = true -> tags_dedupe C = true ->
  forall evs, dead (run H C init evs) = false.
Proof. intros H C G D evs. exact (never_dead H C G evs D). Qed.
Theorem C20_failed_twin_fixed : forall H C i ok cached a r ch vt jt et s h,
  reject_adopts C = true -> ji_prov i = true -> lookup_jh (ji_id i) (jh s) = Some h ->
  lookup_jh (ji_id i) (jh (finish H C i ok cached a r ch vt jt et s)) = Some h /\
  cns (finish H C i ok cached a r ch vt jt et s) = cns s.
Proof. exact adopted_hash_kept. Qed.
Theorem C20_witnesses_fixed :
  (dead (run idH fixed_cfg init w_tags) = false /\ tags (run idH fixed_cfg init w_tags) = [(EntJob 0, 5)]) /\
  (let s := run idH fixed_cfg init w_twin in
   dead s = false /\ call_of 1 s = call_of 2 s /\ length (cns s) = 2 /\ length (edges s) = 1).
Proof. exact (conj tags_twice_fine_fixed failed_twin_fixed). Qed.

(** Historical (already repaired in /repo): unguarded _pending_jobs registration lets a provenance job adopt
    the hash of a prov=False twin -> FOREIGN KEY violation in record_job_end. *)
Theorem C20_unguarded_twin_refuted :
  dead (run idH unguarded_cfg init w_unguarded) = true /\ dead (run idH shipped_cfg init w_unguarded) = false.
Proof. exact (conj unguarded_twin_dies guarded_twin_fine). Qed.

(** Non-vacuity: a run with a duplicate, a prov=False child and tags on all four entity kinds. *)
Example C20_nonvacuous :
  let s := run idH shipped_cfg init w_run in
  dead s = false /\ length (cns s) = 2 /\ length (jobs s) = 3 /\ execs s = [(0, 0)] /\
  map (fun e => snd e) (edges s) = [0; 2] /\
  tags s = [(EntValue ["v"%char], 4); (EntJob 1, 5); (EntExec 0, 6); (EntTask ["T"%char], 7)] /\
  call_of 1 s = call_of 3 s /\
  (exists h, lookup_jh 2 (jh s) = Some h /\ recorded s h = false).
Proof. exact w_run_facts. Qed.

Print Assumptions C20_call_hash_merkle.
Print Assumptions C20_nodes_merkle.
Print Assumptions C20_edges_at_first_recording.
Print Assumptions C20_edges_stable.
Print Assumptions C20_job_rows_fk.
Print Assumptions C20_rows_mirror_run.
Print Assumptions C20_tags_complete.
Print Assumptions C20_never_dies_fixed.
Print Assumptions C20_failed_twin_refuted.
Print Assumptions C20_failed_twin_fixed.
