(** C15 — Cache keys separate every distinct call and only those.
    Only statements (closed by [exact] or a two-line proof) and their assumptions.

    Vocabulary (Model/EvalKey.v): a call is a list of positional argument values and a
    keyword dict; a value is its value hash ([AVal h]) or a JobInfo instance ([AInfo]).
    [arg_hash sg conf c s] is the hash that Python's binding rules put into argument slot [s]
    (a named parameter, the i-th element of *var, a keyword collected by **var) — [None] when
    the slot is empty, bound to a declared config parameter, or holds a JobInfo placeholder.
    [call_eval_hash H cfg blank sg conf th c] is the eval_hash computed by
    get_arg_defaults + hash_args_eval + hash_eval for configuration [cfg]:
    [shipped] = the code as found, [fixed] = the proposed repair.  [H] is the hash function
    (premise: injective — collision resistance of truncated SHA-512); [blank] is the value hash
    of a blank JobInfo() (used by [fixed] only; premise: no ordinary argument hashes to it). *)
From Coq Require Import List ZArith Ascii Bool Arith Permutation String.
From RV Require Import Base.Decimal Model.Bencode Base.HashSpec Model.EvalKey Model.EvalKeyTags
     Proofs.EvalKeyBase Proofs.EvalKeyDict Proofs.EvalKeyFixed Proofs.EvalKeyInv Proofs.EvalKeyShipped
     Proofs.EvalKeyPartial Proofs.EvalKeyTags.
Import ListNotations.
Open Scope list_scope.

Definition injective (H : bytes -> bytes) : Prop := forall a b, H a = H b -> a = b.

(** * 1. The key changes whenever the task hash or a non-config argument hash changes *)

(** repaired code: all signatures, all calls (no size bound) *)
Theorem C15_key_sensitive_fixed : forall H, injective H -> forall blank sg conf th th' c c',
  NoDup (all_names sg) -> NoDup (map fst (c_kwargs c)) -> NoDup (map fst (c_kwargs c')) ->
  Forall (blank_ok blank) (c_args c) -> Forall (blank_ok blank) (c_args c') ->
  (th <> th' \/ exists s, arg_hash sg conf c s <> arg_hash sg conf c' s) ->
  call_eval_hash H fixed blank sg conf th c <> call_eval_hash H fixed blank sg conf th' c'.
Proof.
  intros H Hi blank sg conf th th' c c' N Nk Nk' B B' D E.
  destruct (fixed_key_determines H Hi blank sg conf th th' c c' N Nk Nk' B B' E) as [Et Es].
  destruct D as [D|[s D]]; [exact (D Et)|exact (D (Es s))].
Qed.

(** code as shipped: f(a, *rest, cfg=None) with config_args=["cfg"]: f(1,2,3) and f(1,2,4)
    differ in a non-config argument and get the same key, for every hash function *)
Theorem C15_key_sensitive_refuted :
  sig_ok w1_sig = true /\ bind_ok w1_sig w1_c = true /\ bind_ok w1_sig w1_c' = true /\
  arg_hash w1_sig [nm "cfg"] w1_c (SExtra 1) <> arg_hash w1_sig [nm "cfg"] w1_c' (SExtra 1) /\
  forall H blank th,
    call_eval_hash H shipped blank w1_sig [nm "cfg"] th w1_c = call_eval_hash H shipped blank w1_sig [nm "cfg"] th w1_c'.
Proof. exact shipped_sensitive_refuted. Qed.

(** code as shipped: p(x, y): p(JobInfo(), 1) and p(1, JobInfo()) get the same key *)
Theorem C15_placeholder_shift_refuted :
  sig_ok w4_sig = true /\ bind_ok w4_sig w4_c = true /\ bind_ok w4_sig w4_c' = true /\
  arg_hash w4_sig [] w4_c (SNamed (nm "x")) <> arg_hash w4_sig [] w4_c' (SNamed (nm "x")) /\
  forall H blank th,
    call_eval_hash H shipped blank w4_sig [] th w4_c = call_eval_hash H shipped blank w4_sig [] th w4_c'.
Proof. exact shipped_placeholder_shift_refuted. Qed.

(** code as shipped, simple calls (no *var parameter, config_args name ordinary parameters,
    no JobInfo passed positionally): sensitivity holds *)
Theorem C15_key_sensitive_shipped_partial : forall H, injective H -> forall blank sg conf th th' c c',
  NoDup (all_names sg) -> NoDup (map fst (c_kwargs c)) -> NoDup (map fst (c_kwargs c')) ->
  simple_call sg conf c -> simple_call sg conf c' ->
  (th <> th' \/ exists s, arg_hash sg conf c s <> arg_hash sg conf c' s) ->
  call_eval_hash H shipped blank sg conf th c <> call_eval_hash H shipped blank sg conf th' c'.
Proof.
  intros H Hi blank sg conf th th' c c' N Nk Nk' S S' D E.
  destruct (shipped_simple_sensitive H Hi blank sg conf th th' c c' N Nk Nk' S S' E) as [Et Es].
  destruct D as [D|[s D]]; [exact (D Et)|exact (D (Es s))].
Qed.
(* NOT PROVED (false, see the two _refuted theorems above): the same statement for [shipped]
   without the [simple_call] hypotheses. *)

(** * 2. The key stays the same for calls that differ only in ... *)

(** ... keyword order *)
Theorem C15_kwarg_order_fixed : forall H blank sg conf th c kw',
  NoDup (all_names sg) -> NoDup (map fst (c_kwargs c)) -> Permutation (c_kwargs c) kw' ->
  let c' := {| c_args := c_args c; c_kwargs := kw' |} in
  call_eval_hash H fixed blank sg conf th c = call_eval_hash H fixed blank sg conf th c' /\
  call_args_hash H fixed blank sg conf c = call_args_hash H fixed blank sg conf c'.
Proof.
  intros H blank sg conf th c kw' N Nk P. apply struct_eq_hash_eq. now apply fixed_invariant_kworder.
Qed.

(** ... config argument values and JobInfo placeholders ([calls_sim]: same shape; arguments in
    the same place are equal, both JobInfo, or bound to a declared config parameter) *)
Theorem C15_config_and_placeholder_values_fixed : forall H blank sg conf th c c',
  NoDup (all_names sg) -> NoDup (map fst (c_kwargs c)) -> calls_sim sg conf c c' ->
  call_eval_hash H fixed blank sg conf th c = call_eval_hash H fixed blank sg conf th c' /\
  call_args_hash H fixed blank sg conf c = call_args_hash H fixed blank sg conf c'.
Proof.
  intros H blank sg conf th c c' N Nk S. apply struct_eq_hash_eq. now apply fixed_invariant_sim.
Qed.

(** ... passing a defaulted parameter by keyword with its default value *)
Theorem C15_default_by_keyword_fixed : forall H blank sg conf th c p d,
  NoDup (all_names sg) -> NoDup (map fst (c_kwargs c)) ->
  assoc p (named_params sg) = Some (Some d) ->          (* p is a parameter with default d *)
  pos_bound sg (List.length (c_args c)) p = false ->          (* not already given positionally *)
  ~ In p (map fst (c_kwargs c)) ->                       (* nor by keyword *)
  let c' := {| c_args := c_args c; c_kwargs := c_kwargs c ++ [(p, d)] |} in
  call_eval_hash H fixed blank sg conf th c = call_eval_hash H fixed blank sg conf th c' /\
  call_args_hash H fixed blank sg conf c = call_args_hash H fixed blank sg conf c'.
Proof.
  intros H blank sg conf th c p d N Nk Hd Hp Hn. apply struct_eq_hash_eq. now apply fixed_invariant_default.
Qed.

(** code as shipped: g(a, *rest, k=5): g(1,2,3) and g(1,2,3,k=5) get different keys *)
Theorem C15_default_by_keyword_refuted :
  sig_ok w2_sig = true /\ bind_ok w2_sig w2_c = true /\
  assoc (nm "k") (named_params w2_sig) = Some (Some (hv "h5")) /\
  pos_bound w2_sig (List.length (c_args w2_c)) (nm "k") = false /\
  ~ In (nm "k") (map fst (c_kwargs w2_c)) /\
  forall H, injective H -> forall blank th,
    call_eval_hash H shipped blank w2_sig [] th w2_c <>
    call_eval_hash H shipped blank w2_sig [] th
      {| c_args := c_args w2_c; c_kwargs := c_kwargs w2_c ++ [(nm "k", hv "h5")] |}.
Proof. exact shipped_default_refuted. Qed.

(** code as shipped: h( *rest, b=0) with config_args=["rest"]: h(1,2,3) and h(1,5,3) differ
    only in a config argument and get different keys *)
Theorem C15_config_values_refuted :
  sig_ok w3_sig = true /\ bind_ok w3_sig w3_c = true /\ bind_ok w3_sig w3_c' = true /\
  calls_sim w3_sig [nm "rest"] w3_c w3_c' /\
  forall H, injective H -> forall blank th,
    call_eval_hash H shipped blank w3_sig [nm "rest"] th w3_c <>
    call_eval_hash H shipped blank w3_sig [nm "rest"] th w3_c'.
Proof. exact shipped_config_refuted. Qed.

(** code as shipped: r(a, **kw) with config_args=["kw"]: r(1, x=2) and r(1, x=3) *)
Theorem C15_config_varkw_refuted :
  sig_ok w6_sig = true /\ bind_ok w6_sig w6_c = true /\ bind_ok w6_sig w6_c' = true /\
  calls_sim w6_sig [nm "kw"] w6_c w6_c' /\
  forall H, injective H -> forall blank th,
    call_eval_hash H shipped blank w6_sig [nm "kw"] th w6_c <>
    call_eval_hash H shipped blank w6_sig [nm "kw"] th w6_c'.
Proof. exact shipped_config_varkw_refuted. Qed.

(** code as shipped: q(a, *rest): q(1,2,JobInfo(..)) with two different JobInfo objects *)
Theorem C15_placeholder_extras_refuted :
  sig_ok w5_sig = true /\ bind_ok w5_sig w5_c = true /\ bind_ok w5_sig w5_c' = true /\
  calls_sim w5_sig [] w5_c w5_c' /\
  forall H, injective H -> forall blank th,
    call_eval_hash H shipped blank w5_sig [] th w5_c <> call_eval_hash H shipped blank w5_sig [] th w5_c'.
Proof. exact shipped_placeholder_extras_refuted. Qed.

(** code as shipped, simple calls: the three invariances hold *)
Theorem C15_invariant_shipped_partial : forall H blank sg conf th c,
  NoDup (all_names sg) -> NoDup (map fst (c_kwargs c)) -> simple_call sg conf c ->
  (forall kw', Permutation (c_kwargs c) kw' ->
     call_eval_hash H shipped blank sg conf th c =
     call_eval_hash H shipped blank sg conf th {| c_args := c_args c; c_kwargs := kw' |}) /\
  (forall c', simple_call sg conf c' -> calls_sim sg conf c c' ->
     call_eval_hash H shipped blank sg conf th c = call_eval_hash H shipped blank sg conf th c') /\
  (forall p d, assoc p (named_params sg) = Some (Some d) -> pos_bound sg (List.length (c_args c)) p = false ->
     ~ In p (map fst (c_kwargs c)) ->
     call_eval_hash H shipped blank sg conf th c =
     call_eval_hash H shipped blank sg conf th {| c_args := c_args c; c_kwargs := c_kwargs c ++ [(p, d)] |}).
Proof.
  intros H blank sg conf th c N Nk S. repeat split.
  - intros kw' P. now apply struct_eq_hash_eq, shipped_simple_invariant_kworder.
  - intros c' S' Sim. now apply struct_eq_hash_eq, shipped_simple_invariant_sim.
  - intros p d Hd Hp Hn. now apply struct_eq_hash_eq, shipped_simple_invariant_default.
Qed.

(** * 3. Different record kinds: distinct leading type tags *)

(** any two tagged pre-images (hash_struct([tag, ...]) or hash_tag_bytes(tag, ...)) that are
    equal as byte strings have the same tag — for all fields and payloads *)
Theorem C15_leading_tag_inj : forall f f' t t' fs fs' p p',
  f <> FUntagged -> f' <> FUntagged -> pre_of f t fs p = pre_of f' t' fs' p' -> t = t'.
Proof. exact leading_tag_inj. Qed.

(** the record kinds of redun (list regenerated from the source by the translator; finite,
    swept by the kernel): different kinds have different tags ... *)
Theorem C15_tags_distinct : forall s1 s2,
  In s1 shipped_sites -> In s2 shipped_sites -> tagged s1 = true -> tagged s2 = true ->
  ts_kind s1 <> ts_kind s2 -> tag_bytes s1 <> tag_bytes s2.
Proof. exact shipped_tags_distinct. Qed.

(** ... hence different pre-images and, under the premise on [H], different hashes *)
Theorem C15_kinds_hashes_differ : forall H, injective H -> forall s1 s2 fs1 p1 fs2 p2,
  In s1 shipped_sites -> In s2 shipped_sites -> tagged s1 = true -> tagged s2 = true ->
  ts_kind s1 <> ts_kind s2 ->
  H (pre_of (ts_form s1) (tag_bytes s1) fs1 p1) <> H (pre_of (ts_form s2) (tag_bytes s2) fs2 p2).
Proof.
  intros H Hi s1 s2 fs1 p1 fs2 p2 I1 I2 T1 T2 K E. apply Hi in E.
  exact (shipped_kinds_pre_images_differ s1 s2 fs1 p1 fs2 p2 I1 I2 T1 T2 K E).
Qed.

(** the pre-images of the key itself are instances of these layouts *)
Theorem C15_key_layouts : forall cfg pos kw th ah, cfg = shipped \/ cfg = fixed ->
  exists fs fs',
    pre_struct (args_struct cfg pos kw) = pre_of FStruct TaskArguments_tag fs [] /\
    pre_struct (eval_struct cfg th ah) = pre_of FStruct Eval_tag fs' [].
Proof. intros cfg pos kw th ah [->| ->]; eexists; eexists; split; reflexivity. Qed.

(** * Non-vacuity *)
Example C15_nonvacuous :
  (* the witnesses are calls Python accepts, on well-formed signatures, and the repaired key
     separates / identifies them as the property demands *)
  NoDup (all_names w1_sig) /\ bind_ok w1_sig w1_c = true /\
  Forall (blank_ok (nm "blank")) (c_args w1_c) /\
  call_args_struct fixed (nm "blank") w1_sig [nm "cfg"] w1_c <> call_args_struct fixed (nm "blank") w1_sig [nm "cfg"] w1_c' /\
  call_args_struct fixed (nm "blank") w3_sig [nm "rest"] w3_c = call_args_struct fixed (nm "blank") w3_sig [nm "rest"] w3_c' /\
  (* a simple call on a signature with a config argument, a default and a keyword *)
  (let sg := {| s_pos := [(nm "x", None); (nm "mem", Some (hv "h9"))]; s_var := None; s_kwonly := []; s_varkw := None |} in
   let c := {| c_args := [hv "h1"]; c_kwargs := [(nm "mem", hv "h7")] |} in
   simple_call sg [nm "mem"] c /\ bind_ok sg c = true /\ arg_hash sg [nm "mem"] c (SNamed (nm "x")) = Some (nm "h1")) /\
  (* the kind table really contains different kinds *)
  (exists s1 s2, In s1 shipped_sites /\ In s2 shipped_sites /\ tagged s1 = true /\ tagged s2 = true /\ ts_kind s1 <> ts_kind s2).
Proof.
  split; [apply nodupb_NoDup; vm_compute; reflexivity|].
  split; [vm_compute; reflexivity|].
  split; [repeat constructor; vm_compute; discriminate|].
  split; [vm_compute; discriminate|].
  split; [vm_compute; reflexivity|].
  split.
  - unfold simple_call. repeat split; try (vm_compute; reflexivity).
    + intros x [<-|[]]. vm_compute. auto.
    + simpl. auto.
    + repeat constructor.
  - exists (S_ "Eval" "redun.hashing:hash_eval" FStruct "Eval"),
           (S_ "Task" "redun.task:Task._calc_hash" FStruct "Task").
    repeat split; try (vm_compute; tauto). vm_compute. discriminate.
Qed.

Print Assumptions C15_key_sensitive_fixed.
Print Assumptions C15_key_sensitive_refuted.
Print Assumptions C15_placeholder_shift_refuted.
Print Assumptions C15_key_sensitive_shipped_partial.
Print Assumptions C15_kwarg_order_fixed.
Print Assumptions C15_config_and_placeholder_values_fixed.
Print Assumptions C15_default_by_keyword_fixed.
Print Assumptions C15_default_by_keyword_refuted.
Print Assumptions C15_config_values_refuted.
Print Assumptions C15_config_varkw_refuted.
Print Assumptions C15_placeholder_extras_refuted.
Print Assumptions C15_invariant_shipped_partial.
Print Assumptions C15_leading_tag_inj.
Print Assumptions C15_tags_distinct.
Print Assumptions C15_kinds_hashes_differ.
Print Assumptions C15_key_layouts.
