(** C17 — Task hashes track code identity.
    Statements only (closed by [exact]); proofs are in Proofs/TaskHash*.v.

    Premises (Section hypotheses, never axioms):
      [H_inj]  the truncated SHA-512 behind Hash().hexdigest() has no collision
    Abstract functions: [vhash] (TypeRegistry.get_hash of a value), [ohash] (get_hash of an option
    dict), [sanitize] (Task._validate's rewrite of option dicts).  Where a statement speaks of the
    *data* rather than of its hash, injectivity of [vhash]/[ohash] is an explicit premise.

    All statements are about tasks without a [compat] pin ([C17_compat_pins] says what the pin does:
    "Not currently implemented" in the docstring of [task()], and not among the mutations the
    property quantifies over).

    Two defects of the unchanged tree are stated as [_refuted] and the repaired variants as [_fixed]:
      - Task.options / export_options do not forward hash_includes   (variant [vf])
      - get_func_source trims decorators only in front of "^ *def "  (variant [vt]) *)
From Coq Require Import String List ZArith Ascii Bool Permutation.
From RV Require Import Base.Decimal Model.Bencode Model.TaskHash
  Proofs.TaskHashSort Proofs.TaskHashTrim Proofs.TaskHashMain.
Import ListNotations.
Open Scope list_scope.

Section C17.
  Variable H : bytes -> bytes.
  Hypothesis H_inj : forall x y, H x = H y -> x = y.
  Variable value : Type.
  Variable vhash : value -> bytes.
  Variable ohash : opts value -> bytes.
  Variable sanitize : opts value -> opts value.
  Variable vt : variant.

  Notation task := (TaskHash.task value).
  Notation thash := (task_hash H vhash ohash vt).
  Notation ihashes t := (map (item_hash vhash) (incl_list value t)).
  Notation ohs := (options_hashes ohash).

  (** The exact condition for two hashes to be equal: same full name, same source (unversioned) or
      same version (versioned), and the same flat list  sorted(include hashes) ++ [options hash]?. *)
  Theorem C17_hash_eq_iff : forall t t' : task, t_compat t = [] -> t_compat t' = [] ->
    (thash t = thash t' <->
     same_identity value vt t t' /\
     includes_hashes vhash t ++ ohs (t_override t) = includes_hashes vhash t' ++ ohs (t_override t')).
  Proof. exact (hash_eq_iff H H_inj value vhash ohash vt). Qed.

  (** *** changes whenever ... *)
  Theorem C17_fullname_changes : forall t t' : task, t_compat t = [] -> t_compat t' = [] ->
    fullname t <> fullname t' -> thash t <> thash t'.
  Proof. exact (name_changes H H_inj value vhash ohash vt). Qed.

  Theorem C17_name_or_namespace_changes : forall t t' : task, t_compat t = [] -> t_compat t' = [] ->
    ~ In dot (t_name t) -> ~ In dot (t_name t') ->
    (t_namespace t, t_name t) <> (t_namespace t', t_name t') -> thash t <> thash t'.
  Proof.
    intros t t' C C' D D' N. apply (name_changes H H_inj value vhash ohash vt); auto.
    intros E. apply fullname_inj in E; auto. destruct E; apply N; congruence.
  Qed.

  Theorem C17_source_changes : forall t t' : task, t_compat t = [] -> t_compat t' = [] ->
    t_version t = None -> t_version t' = None -> eff_source vt t <> eff_source vt t' -> thash t <> thash t'.
  Proof. exact (source_changes H H_inj value vhash ohash vt). Qed.

  Theorem C17_version_changes : forall t t' : task, t_compat t = [] -> t_compat t' = [] ->
    t_version t <> t_version t' -> thash t <> thash t'.
  Proof. exact (version_changes H H_inj value vhash ohash vt). Qed.

  Theorem C17_includes_change : forall t t' : task, t_compat t = [] -> t_compat t' = [] ->
    ohs (t_override t) = ohs (t_override t') ->
    ~ Permutation (ihashes t) (ihashes t') -> thash t <> thash t'.
  Proof. exact (includes_change H H_inj value vhash ohash vt). Qed.

  (** on the data itself, given a collision-free value hash *)
  Theorem C17_includes_data_change : (forall v w, vhash v = vhash w -> v = w) ->
    forall (t t' : task) (l l' : list value), t_compat t = [] -> t_compat t' = [] ->
    t_override t = t_override t' ->
    t_includes t = Some (map IVal l) -> t_includes t' = Some (map IVal l') ->
    ~ Permutation l l' -> thash t <> thash t'.
  Proof.
    intros Vinj t t' l l' C C' O I I' NP.
    apply (includes_change H H_inj value vhash ohash vt); auto; [now rewrite O|].
    unfold incl_list. rewrite I, I', !map_map. cbn [item_hash]. intros P. apply NP.
    clear - P Vinj. revert l' P. induction l as [|x l IH]; intros l' P.
    - apply Permutation_nil in P. destruct l'; [constructor|discriminate].
    - assert (Hin : In (vhash x) (map vhash l')) by (eapply Permutation_in; [exact P|now left]).
      apply in_map_iff in Hin. destruct Hin as [y [Ey Hy]]. apply Vinj in Ey. subst y.
      apply in_split in Hy. destruct Hy as [l1 [l2 ->]].
      apply Permutation_cons_app. apply IH.
      rewrite map_app in *. simpl in P. apply Permutation_cons_app_inv in P. exact P.
  Qed.

  Theorem C17_options_change : forall t t' : task, t_compat t = [] -> t_compat t' = [] ->
    Permutation (ihashes t) (ihashes t') ->
    ohs (t_override t) <> ohs (t_override t') -> thash t <> thash t'.
  Proof. exact (options_change H H_inj value vhash ohash vt). Qed.

  Theorem C17_options_data_change : (forall o o', ohash o = ohash o' -> o = o') ->
    forall t t' : task, t_compat t = [] -> t_compat t' = [] ->
    Permutation (ihashes t) (ihashes t') -> t_override t <> t_override t' -> thash t <> thash t'.
  Proof.
    intros Oinj t t' C C' P N. apply (options_change H H_inj value vhash ohash vt); auto.
    intros E. apply N. now apply (ohs_inj H H_inj value ohash Oinj).
  Qed.

  (** *** unaffected by ... *)
  Theorem C17_ignores_definition_time_options : forall (t : task) base export script,
    thash (with_definition_time value t base export script) = thash t.
  Proof. exact (ignores_definition_time H value vhash ohash vt). Qed.

  Theorem C17_includes_order : forall (t : task) l l', Permutation l l' ->
    thash (with_includes value t (Some l)) = thash (with_includes value t (Some l')).
  Proof. exact (includes_order H H_inj value vhash ohash vt). Qed.

  (** decorator lines = the lines of inspect.getsource(func) before the def line; none of them may
      itself look like a def line to [get_func_source] *)
  Theorem C17_decorator_lines_ignored :
    forall fname fns decos decos' defl body name namespace version compat script base override export
           (includes : option (list (item value))),
    Forall no_nl (decos ++ defl :: body) -> Forall no_nl decos' ->
    Forall (fun l => is_def_line vt l = false) decos ->
    Forall (fun l => is_def_line vt l = false) decos' ->
    is_def_line vt defl = true ->
    thash (mk_task vt (func_of fname fns (decos ++ defl :: body)) name namespace version compat script
                   base override export includes None)
    = thash (mk_task vt (func_of fname fns (decos' ++ defl :: body)) name namespace version compat script
                     base override export includes None).
  Proof. exact (decorator_lines_ignored H value vhash ohash vt). Qed.

  (** ... and everything from the def line on counts *)
  Theorem C17_body_changes :
    forall fname fns decos decos' defl defl' body body' name namespace script base override export
           (includes : option (list (item value))),
    Forall no_nl (decos ++ defl :: body) -> Forall no_nl (decos' ++ defl' :: body') ->
    Forall (fun l => is_def_line vt l = false) decos ->
    Forall (fun l => is_def_line vt l = false) decos' ->
    is_def_line vt defl = true -> is_def_line vt defl' = true ->
    defl :: body <> defl' :: body' ->
    thash (mk_task vt (func_of fname fns (decos ++ defl :: body)) name namespace None None script
                   base override export includes None)
    <> thash (mk_task vt (func_of fname fns (decos' ++ defl' :: body')) name namespace None None script
                      base override export includes None).
  Proof. exact (body_change_changes_hash H H_inj value vhash ohash vt). Qed.

  (** *** tasks cloned with .options() / .export_options() / .update_context() *)
  Theorem C17_options_fixed : forall (t : task) upd, t_name t <> [] ->
    thash (options sanitize vt Fixed t upd) = task_calc_with H vhash ohash vt t (new_override sanitize t upd)
    /\ thash (export_options sanitize vt Fixed t upd) = task_calc_with H vhash ohash vt t (new_override sanitize t upd).
  Proof.
    intros t upd N. split.
    - exact (options_fixed_is_override H value vhash ohash sanitize vt t upd N).
    - exact (export_options_fixed_is_override H value vhash ohash sanitize vt t upd N).
  Qed.

  Theorem C17_options_tracks_includes_fixed : forall (t : task) l l' upd, t_name t <> [] -> t_compat t = [] ->
    ~ Permutation (map (item_hash vhash) l) (map (item_hash vhash) l') ->
    thash (options sanitize vt Fixed (with_includes value t (Some l)) upd)
    <> thash (options sanitize vt Fixed (with_includes value t (Some l')) upd).
  Proof. exact (options_fixed_tracks_includes H H_inj value vhash ohash sanitize vt). Qed.

  (** as shipped the clone has no hash_includes: clones of tasks that differ only there collide *)
  Theorem C17_options_drops_includes_shipped : forall (t : task) i i' upd, t_name t <> [] ->
    thash (options sanitize vt AsShipped (with_includes value t i) upd)
    = thash (options sanitize vt AsShipped (with_includes value t i') upd)
    /\ thash (export_options sanitize vt AsShipped (with_includes value t i) upd)
       = thash (export_options sanitize vt AsShipped (with_includes value t i') upd).
  Proof.
    intros t i i' upd N. split.
    - exact (options_shipped_collide H value vhash ohash sanitize vt t i i' upd N).
    - rewrite !export_options_shipped_drops_includes by exact N. reflexivity.
  Qed.

  (** *** wrapped tasks *)
  Theorem C17_wrapped_tracks_inner : forall wf wi wb (inner inner' : task),
    thash inner <> thash inner' ->
    thash (wrap H vhash ohash vt wf wi wb inner) <> thash (wrap H vhash ohash vt wf wi wb inner').
  Proof.
    intros wf wi wb inner inner' N E. apply N.
    exact (wrapped_tracks_inner H H_inj value vhash ohash vt wf wi wb inner inner' E).
  Qed.

  Theorem C17_wrapped_options_tracks_inner_fixed : forall wf wi wb (inner inner' : task) upd,
    t_name inner <> [] -> t_name inner' <> [] -> thash inner <> thash inner' ->
    thash (options sanitize vt Fixed (wrap H vhash ohash vt wf wi wb inner) upd)
    <> thash (options sanitize vt Fixed (wrap H vhash ohash vt wf wi wb inner') upd).
  Proof.
    intros wf wi wb inner inner' upd N1 N2 N E. apply N.
    exact (wrapped_options_fixed_tracks_inner H H_inj value vhash ohash sanitize vt wf wi wb inner inner' upd N1 N2 E).
  Qed.

  Theorem C17_wrapped_options_blind_shipped : forall wf wi wb (inner inner' : task) upd,
    t_name inner = t_name inner' -> t_namespace inner = t_namespace inner' -> t_name inner <> [] ->
    thash (options sanitize vt AsShipped (wrap H vhash ohash vt wf wi wb inner) upd)
    = thash (options sanitize vt AsShipped (wrap H vhash ohash vt wf wi wb inner') upd).
  Proof. exact (wrapped_options_shipped_blind H value vhash ohash sanitize vt). Qed.

  (** *** partial tasks *)
  Theorem C17_partial_reflects_args : forall p p' : ptask value,
    partial_hash H vhash ohash sanitize vt p = partial_hash H vhash ohash sanitize vt p' ->
    task_calc_now H vhash ohash sanitize vt (p_task p) = task_calc_now H vhash ohash sanitize vt (p_task p') /\
    map vhash (p_args p) = map vhash (p_args p') /\
    Permutation (hashed_kwargs vhash (p_kwargs p)) (hashed_kwargs vhash (p_kwargs p')).
  Proof. exact (partial_hash_inj H H_inj value vhash ohash sanitize vt). Qed.

  Theorem C17_partial_args_change : forall (t : task) a a' k, map vhash a <> map vhash a' ->
    partial_hash H vhash ohash sanitize vt (partial t a k) <> partial_hash H vhash ohash sanitize vt (partial t a' k).
  Proof. exact (partial_args_change H H_inj value vhash ohash sanitize vt). Qed.

  (** *** what does not hold: includes and options share one flat list *)
  Theorem C17_joint_refuted : forall (t : task) o, o <> [] ->
    thash (with_override value (with_includes value t (Some [ITask (ohash o)])) [])
    = thash (with_override value (with_includes value t None) o).
  Proof. exact (joint_collision H value vhash ohash vt). Qed.

  Theorem C17_compat_pins : forall (t : task) c r, t_compat t = c :: r -> thash t = c.
  Proof. exact (compat_pins H value vhash ohash vt). Qed.
End C17.

(** * Witnesses for the defects (concrete, by computation).
    Instance: H = identity (collision-free), values are their own hashes, an option dict hashes to
    its flattened text. *)
Definition Hid (x : bytes) : bytes := x.
Definition oflat (o : opts bytes) : bytes :=
  concat (map (fun kv : bytes * bytes => fst kv ++ b "=" ++ snd kv ++ b ";") o).
Definition sid (o : opts bytes) : opts bytes := o.

Lemma Hid_inj : forall x y, Hid x = Hid y -> x = y.
Proof. intros x y E. exact E. Qed.

Definition ex_func (src : list bytes) : pyfunc :=
  {| f_name := b "h"; f_namespace := b "ns"; f_getsource := join_nl src |}.
Definition ex_task (vt : variant) (src : list bytes) (inc : option (list (item bytes))) : task bytes :=
  mk_task vt (ex_func src) None None None None false None None None inc None.
Definition plain_src : list bytes := [b "@task()"; b "def h(x):"; b "    return x"; []].
Definition ex_upd : opts bytes := [(b "memory", b "1")].
Definition hsh (vt : variant) (t : task bytes) : bytes := task_hash Hid Hid oflat vt t.

(** hash_includes=["v1"] versus ["v2"]: the tasks differ, their .options(memory=1) clones do not;
    with hash_includes forwarded they do. *)
Theorem C17_options_includes_refuted :
  let t1 := ex_task AsShipped plain_src (Some [IVal (b "v1")]) in
  let t2 := ex_task AsShipped plain_src (Some [IVal (b "v2")]) in
  bytes_eqb (hsh AsShipped t1) (hsh AsShipped t2) = false /\
  hsh AsShipped (options sid AsShipped AsShipped t1 ex_upd) = hsh AsShipped (options sid AsShipped AsShipped t2 ex_upd) /\
  bytes_eqb (hsh AsShipped (options sid AsShipped Fixed t1 ex_upd))
            (hsh AsShipped (options sid AsShipped Fixed t2 ex_upd)) = false.
Proof. vm_compute. auto. Qed.

(** a wrapper around two different inner tasks: the wrappers differ, their .options() clones do not *)
Theorem C17_wrapped_options_refuted :
  let i1 := ex_task AsShipped [b "def h(x):"; b "    return x + 1"] None in
  let i2 := ex_task AsShipped [b "def h(x):"; b "    return x + 2"] None in
  let wf := ex_func [b "def do(*a, **k):"; b "    return 2 * inner.func(*a, **k)"] in
  let w1 := wrap Hid Hid oflat AsShipped wf [] [] i1 in
  let w2 := wrap Hid Hid oflat AsShipped wf [] [] i2 in
  bytes_eqb (hsh AsShipped w1) (hsh AsShipped w2) = false /\
  hsh AsShipped (options sid AsShipped AsShipped w1 ex_upd) = hsh AsShipped (options sid AsShipped AsShipped w2 ex_upd) /\
  bytes_eqb (hsh AsShipped (options sid AsShipped Fixed w1 ex_upd))
            (hsh AsShipped (options sid AsShipped Fixed w2 ex_upd)) = false.
Proof. vm_compute. auto. Qed.

(** async def: the decorator line stays in the hashed source (a definition-time option changes the
    hash) ... *)
Definition async_src (mem : bytes) : list bytes :=
  [b "@task(cache=False, memory=" ++ mem ++ b ")"; b "async def h(x):"; b "    return x"; []].
Theorem C17_async_decorator_refuted :
  bytes_eqb (hsh AsShipped (ex_task AsShipped (async_src (b "1")) None))
            (hsh AsShipped (ex_task AsShipped (async_src (b "2")) None)) = false /\
  hsh Fixed (ex_task Fixed (async_src (b "1")) None) = hsh Fixed (ex_task Fixed (async_src (b "2")) None).
Proof. vm_compute. auto. Qed.

(** ... and with a nested def everything before the nested def is dropped: a body edit does not
    change the hash *)
Definition async_nested_src (k : bytes) : list bytes :=
  [b "@task(cache=False)"; b "async def h(x):"; b "    y = x + " ++ k; b "    def g(): return y";
   b "    return g()"; []].
Theorem C17_async_body_refuted :
  hsh AsShipped (ex_task AsShipped (async_nested_src (b "1")) None)
  = hsh AsShipped (ex_task AsShipped (async_nested_src (b "2")) None) /\
  bytes_eqb (hsh Fixed (ex_task Fixed (async_nested_src (b "1")) None))
            (hsh Fixed (ex_task Fixed (async_nested_src (b "2")) None)) = false.
Proof. vm_compute. auto. Qed.

(** tab-indented definition: the decorator line stays *)
Definition tab_src (mem : bytes) : list bytes :=
  [tab :: b "@task(memory=" ++ mem ++ b ")"; tab :: b "def h(x):"; tab :: tab :: b "return x"; []].
Theorem C17_tab_decorator_refuted :
  bytes_eqb (hsh AsShipped (ex_task AsShipped (tab_src (b "1")) None))
            (hsh AsShipped (ex_task AsShipped (tab_src (b "2")) None)) = false /\
  hsh Fixed (ex_task Fixed (tab_src (b "1")) None) = hsh Fixed (ex_task Fixed (tab_src (b "2")) None).
Proof. vm_compute. auto. Qed.

(** Non-vacuity: the premises are satisfiable together on a non-trivial instance, and the
    conclusions are the expected concrete facts. *)
Example C17_nonvacuous :
  (forall x y, Hid x = Hid y -> x = y) /\
  (let t := ex_task Fixed plain_src (Some [IVal (b "v1"); IVal (b "v0")]) in
   t_compat t = [] /\ t_name t <> [] /\ ~ In dot (t_name t) /\
   eff_source Fixed t = join_nl [b "def h(x):"; b "    return x"; []] /\
   includes_hashes Hid t = [b "v0"; b "v1"]) /\
  (Forall no_nl plain_src /\
   Forall (fun l => is_def_line AsShipped l = false) [b "@task()"] /\
   is_def_line AsShipped (b "def h(x):") = true /\ is_def_line Fixed (b "async  def h(x):") = true /\
   is_def_line Fixed (b "@task(name='def x')") = false) /\
  bytes_eqb (partial_hash Hid Hid oflat sid Fixed (partial (ex_task Fixed plain_src None) [b "1"] []))
            (partial_hash Hid Hid oflat sid Fixed (partial (ex_task Fixed plain_src None) [b "2"] [])) = false.
Proof.
  split; [exact Hid_inj|]. split.
  - vm_compute. repeat split; try discriminate. intros [E|[]]. discriminate.
  - split; [|vm_compute; reflexivity]. split.
    + unfold plain_src, no_nl. repeat constructor.
    + vm_compute. repeat split. repeat constructor.
Qed.

Print Assumptions C17_hash_eq_iff.
Print Assumptions C17_name_or_namespace_changes.
Print Assumptions C17_includes_data_change.
Print Assumptions C17_options_data_change.
Print Assumptions C17_decorator_lines_ignored.
Print Assumptions C17_body_changes.
Print Assumptions C17_options_tracks_includes_fixed.
Print Assumptions C17_wrapped_tracks_inner.
Print Assumptions C17_wrapped_options_tracks_inner_fixed.
Print Assumptions C17_partial_reflects_args.
Print Assumptions C17_options_includes_refuted.
Print Assumptions C17_async_body_refuted.
Print Assumptions C17_nonvacuous.
