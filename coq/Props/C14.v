(** C14 — The canonical structure encoding behind every hash is injective.
    Only statements, closed by [exact], and their assumptions. *)
From Coq Require Import List ZArith Ascii Bool Permutation.
From RV Require Import Base.Decimal Model.Bencode Proofs.BencodeFacts Proofs.BencodeDec Proofs.BencodeSort Proofs.BencodePy.
Import ListNotations.
Open Scope list_scope.

(** Prefix-freeness on *all* abstract structures, hence injectivity. Unbounded. *)
Theorem C14_prefix_free : forall x y r r', enc x ++ r = enc y ++ r' -> x = y /\ r = r'.
Proof. exact enc_prefix_free. Qed.

Theorem C14_injective : forall v w b, enc_py v = Some b -> enc_py w = Some b -> abstract v = abstract w.
Proof. exact enc_py_injective. Qed.

(** [abstract] only identifies str with its UTF-8 bytes, list with tuple, and
    mappings that agree as key -> value maps (see [C14_key_order]); it keeps
    integers, byte contents, lengths and element order. *)
Theorem C14_abstract_int : forall z z', abstract (PInt z) = abstract (PInt z') -> z = z'.
Proof. intros z z' [= H]. exact H. Qed.
Theorem C14_abstract_str : forall a b, abstract (PStr a) = abstract (PBytes b) -> a = b.
Proof. intros a b [= H]. exact H. Qed.
Theorem C14_abstract_list : forall l l' d, abstract (PList l) = Some d -> abstract (PList l') = Some d ->
  Forall2 (fun a b => abstract a = abstract b) l l'.
Proof. exact abstract_list_eq. Qed.
Definition kind (d : data) : nat :=
  match d with BInt _ => 0 | BStr _ => 1 | BList _ => 2 | BDict _ => 3 end.
Theorem C14_abstract_kinds : forall v d, abstract v = Some d ->
  kind d = match v with PInt _ => 0 | PStr _ | PBytes _ => 1 | PList _ | PTuple _ => 2 | PDict _ => 3
           | _ => 4 end.
Proof.
  intros v d. destruct v; cbn [abstract]; try discriminate; try (intros [= <-]; reflexivity).
  - destruct (all_some _); simpl; [intros [= <-]; reflexivity|discriminate].
  - destruct (all_some _); simpl; [intros [= <-]; reflexivity|discriminate].
  - destruct (keys_homogeneous kvs); [|discriminate].
    destruct (all_some _); simpl; [intros [= <-]; reflexivity|discriminate].
Qed.

Theorem C14_key_order : forall kvs kvs',
  NoDup (map (fun kv => key_bytes (fst kv)) kvs) -> Permutation kvs kvs' ->
  enc_py (PDict kvs) = enc_py (PDict kvs').
Proof. intros kvs kvs' H1 H2. unfold enc_py. f_equal. exact (abstract_dict_perm kvs kvs' H1 H2). Qed.

Theorem C14_roundtrip : forall v d, abstract v = Some d ->
  exists b, enc_py v = Some b /\ bdecode b = DOk d [].
Proof. exact enc_py_roundtrip. Qed.

Theorem C14_rejects : forall b, enc_py (PBool b) = None /\ enc_py PNone = None /\ enc_py PFloat = None.
Proof. intros b. repeat split. Qed.
Theorem C14_rejects_nested_list : forall l w, In w l -> enc_py w = None ->
  enc_py (PList l) = None /\ enc_py (PTuple l) = None.
Proof. exact enc_py_list_rejects. Qed.
Theorem C14_rejects_nested_dict : forall kvs k w, In (k, w) kvs -> enc_py w = None -> enc_py (PDict kvs) = None.
Proof. exact enc_py_dict_rejects. Qed.

(** Non-vacuity: a concrete nested structure meets the hypotheses. *)
Open Scope char_scope.
Example C14_nonvacuous :
  let v := PDict [(KStr ["b"], PList [PInt (-12); PStr ["x"; "y"]]); (KStr ["a"], PTuple [])] in
  exists d b, abstract v = Some d /\ canonical d = true /\ enc_py v = Some b /\ bdecode b = DOk d [] /\
              NoDup (map (fun kv => key_bytes (fst kv))
                         [(KStr ["b"], PList [PInt (-12); PStr ["x"; "y"]]); (KStr ["a"], PTuple [])]).
Proof.
  eexists. eexists. split; [vm_compute; reflexivity|]. split; [vm_compute; reflexivity|].
  split; [vm_compute; reflexivity|]. split; [vm_compute; reflexivity|].
  repeat constructor; simpl; intuition discriminate.
Qed.

Print Assumptions C14_prefix_free.
Print Assumptions C14_injective.
Print Assumptions C14_abstract_list.
Print Assumptions C14_abstract_kinds.
Print Assumptions C14_key_order.
Print Assumptions C14_roundtrip.
Print Assumptions C14_rejects_nested_list.
Print Assumptions C14_rejects_nested_dict.
