(** C09 — Executions terminate with every job settled (the resource-queue half: no lost wake-up).
    Model: Model/JobMachine.v.  Proved for every op sequence (every workflow shape, completion
    order, cache content): whenever a job waits for resources, either some job currently holds
    units (its completion releases them and re-examines the waiting list) or a (re-)nomination
    event is already queued.  Hence the state "a job waits, nothing holds anything, no nomination
    queued" — the only way a feasible job can wait forever — is unreachable.

    NOT PROVED here (kept visible, reached by the correspondence run and the implementation's
    quiescence oracle only):
    (1) holder => the job is with an executor or its completion event is queued;
    (2) a termination measure for finite workflows (number of events processed is bounded). *)
From Coq Require Import List ZArith Bool Arith Lia.
From RV Require Import Model.JobMachine Proofs.JobBase Proofs.JobRes Proofs.JobRes3 Proofs.JobWake Proofs.JobWake2.
Import ListNotations.
Open Scope list_scope.

Theorem C09_waiting_has_waker_partial : forall c ops,
  release_if_holds (vr c) = true -> recheck_on_skip (vr c) = true -> dryrun c = false ->
  (forall r, (0 <= limit_of c r)%Z) ->
  Forall wf_op ops -> Forall (feas_op c) ops ->
  waiting (run c ops) <> [] ->
  has_holder (run c ops) = true \/ exec_ids (queue (run c ops)) <> [].
Proof.
  intros c ops H1 H2 H3 H4 H5 H6. exact (proj1 (wake_run c H1 H2 H3 H4 ops H5 H6)).
Qed.

(** Without the re-check on the collapse / cache-hit early returns (the code as shipped, with the
    C08 repair): a feasible run ends with job 3 waiting forever — nothing queued, nothing running,
    nothing held. *)
Definition c09_variant : variant :=
  {| release_if_holds := true; recheck_on_skip := false; ctx_strict := false; pop_own_only := false |}.
Definition c09_cfg (v : variant) : config := {| limit_of := fun _ => 1%Z; dryrun := false; vr := v |}.
Definition c09_witness : list op :=
  [ ONew 0 0 [(0, 1%Z)] false true false; ONew 1 0 [(0, 1%Z)] false true false;
    ONew 1 0 [(0, 1%Z)] false true false; ONew 2 0 [(0, 1%Z)] false true false;
    OPop 0 0 CMiss; OPop 0 1 CMiss; OPop 0 2 CMiss; OPop 0 3 CMiss;
    OComplete 0 true 0%Z; OPop 1 0 CMiss; OEval 0 (Ok 0%Z); OPop 3 0 CMiss;
    OPop 0 1 CMiss; OComplete 1 true 0%Z; OPop 1 1 CMiss;
    OPop 0 2 CMiss;                      (* the nominated twin collapses: consumes nothing, wakes nobody *)
    OEval 1 (Ok 7%Z); OPop 3 1 CMiss; OPop 1 2 CMiss; OPop 3 2 CMiss ].

Definition quiescent (s : state) : bool :=
  match queue s with [] => true | _ => false end &&
  forallb (fun x => match jphase x with PSubmitted | PReported | PEvaluating => false | _ => true end) (jobs s).

Theorem C09_refuted_without_recheck :
  Forall wf_op c09_witness /\ Forall (feas_op (c09_cfg c09_variant)) c09_witness /\
  let s := run (c09_cfg c09_variant) c09_witness in
  waiting s = [3] /\ quiescent s = true /\ has_holder s = false /\ used s 0 = 0%Z.
Proof.
  split; [|split; [|vm_compute; repeat split; reflexivity]].
  - repeat constructor; simpl; try lia; intuition discriminate.
  - repeat constructor.
Qed.

(** The same schedule with the re-check: job 3 is nominated again and nobody is left waiting. *)
Example C09_witness_fixed :
  let s := run (c09_cfg all_fixed) c09_witness in
  waiting s = [] /\ exec_ids (queue s) = [3].
Proof. vm_compute. split; reflexivity. Qed.

Print Assumptions C09_waiting_has_waker_partial.
Print Assumptions C09_refuted_without_recheck.
