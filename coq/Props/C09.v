(** C09 — Executions terminate with every job settled (the resource-queue half: no lost wake-up).
    Model: Model/JobMachine.v.  Proved for every op sequence (every workflow shape, completion
    order, cache content): whenever a job waits for resources, either some job currently holds
    units (its completion releases them and re-examines the waiting list) or a (re-)nomination
    event is already queued.  Hence the state "a job waits, nothing holds anything, no nomination
    queued" — the only way a feasible job can wait forever — is unreachable.

    Together with [C09_holder_is_running] (a job that holds units is with an executor or its
    completion event is queued) this gives [C09_no_stuck_waiting]: in a state where the event
    queue is empty and no job is with an executor, no job waits for resources.

    No event is lost ([C09_no_lost_event], Proofs/JobQuiesce.v): in every reachable state each job that
    has not ended is accounted for — its Exec / Done / Reject / Resolve event is in the queue, or it is
    in the waiting list, or it is registered with the twin it collapsed into, or it is with an executor
    or being evaluated.  With the deadlock-freedom statement this gives [C09_quiescent_all_settled]:
    in a state where the event queue is empty and no job is with an executor or being evaluated,
    EVERY job created has ended (settled with a value or an error; PDryStop in a dry run).

    Termination measure ([C09_events_bounded], Proofs/JobTerm.v): in every run — every workflow shape,
    completion order, cache content, resource demand — the number of events the scheduler's loop
    processes is at most (7 + N) * N for N jobs created: a potential (phase rank of every job, plus a
    budget of N for each job that can still cause one re-examination of the waiting list) drops by at
    least 1 with every processed event ([C09_event_lowers_potential]), rises by 7 + N when a job is
    created and never rises on executor completions or evaluation results.  So the loop cannot spin:
    with finitely many jobs created (the premise "every task function terminates" — the open machine
    leaves job creation to the schedule; Props/C09Tree.v closes that for programs) only finitely many
    events are processed, and the quiescent state reached has every job ended. *)
From Coq Require Import List ZArith Bool Arith Lia.
From RV Require Import Model.JobMachine Proofs.JobBase Proofs.JobRes Proofs.JobRes3 Proofs.JobWake Proofs.JobWake2
  Proofs.JobLive Proofs.JobLive4 Proofs.JobDup2 Proofs.JobQuiesce Proofs.JobTerm Proofs.JobNoDry.
Import ListNotations.
Open Scope list_scope.

Theorem C09_waiting_has_waker_partial : forall c ops,
  release_if_holds (vr c) = true -> recheck_on_skip (vr c) = true -> dryrun c = false ->
  (forall r, (0 <= limit_of c r)%Z) ->
  Forall wf_op ops -> Forall (feas_op c) ops ->
  waiting (run c ops) <> [] ->
  has_holder (run c ops) = true \/ exec_ids (queue (run c ops)) <> [].
Proof.
  intros c ops H1 H2 H3 H4 H5 H6. exact (proj1 (wake_run c H1 H2 H3 H4 ops H5 H6)).
Qed.

Theorem C09_holder_is_running : forall c ops j x,
  release_if_holds (vr c) = true -> (forall r, (0 <= limit_of c r)%Z) -> Forall wf_op ops ->
  getj (run c ops) j = Some x -> jholds x = true ->
  jphase x = PSubmitted \/ In (EvDone j) (queue (run c ops)) \/ exists e, In (EvReject j e) (queue (run c ops)).
Proof.
  intros c ops j x H1 H2 H3 Hx Hh. destruct (live_run c H1 H2 ops H3) as [L _].
  apply (l_hold _ _ L j x Hx Hh). discriminate.
Qed.

(** Deadlock freedom of the limits queue: event queue empty and nothing with an executor
    => nobody waits for resources. *)
Theorem C09_no_stuck_waiting : forall c ops,
  release_if_holds (vr c) = true -> recheck_on_skip (vr c) = true -> dryrun c = false ->
  (forall r, (0 <= limit_of c r)%Z) ->
  Forall wf_op ops -> Forall (feas_op c) ops ->
  queue (run c ops) = [] ->
  (forall j x, getj (run c ops) j = Some x -> jphase x <> PSubmitted) ->
  waiting (run c ops) = [].
Proof.
  intros c ops H1 H2 H3 H4 H5 H6 Hq Hs.
  destruct (waiting (run c ops)) as [|w ws] eqn:Ew; [reflexivity|exfalso].
  assert (Hne : waiting (run c ops) <> []) by (rewrite Ew; discriminate).
  destruct (C09_waiting_has_waker_partial c ops H1 H2 H3 H4 H5 H6 Hne) as [Hh|Hx].
  - unfold has_holder in Hh. apply existsb_exists in Hh. destruct Hh as (x & Hin & Hh).
    apply In_nth_error in Hin. destruct Hin as (j & Hj).
    destruct (C09_holder_is_running c ops j x H1 H4 H5 Hj Hh) as [P|[P|(e & P)]].
    + exact (Hs j x Hj P).
    + rewrite Hq in P. exact P.
    + rewrite Hq in P. exact P.
  - apply Hx. rewrite Hq. reflexivity.
Qed.

(** Without the re-check on the collapse / cache-hit early returns (the code as shipped, with the
    C08 repair): a feasible run ends with job 3 waiting forever — nothing queued, nothing running,
    nothing held. *)
Definition c09_variant : variant :=
  {| release_if_holds := true; recheck_on_skip := false; ctx_strict := false; pending_owner_safe := false;
     ctx_exact := false |}.
Definition c09_cfg (v : variant) : config := {| limit_of := fun _ => 1%Z; dryrun := false; vr := v |}.
Definition c09_witness : list op :=
  [ ONew 0 0 [(0, 1%Z)] false true false; ONew 1 0 [(0, 1%Z)] false true false;
    ONew 1 0 [(0, 1%Z)] false true false; ONew 2 0 [(0, 1%Z)] false true false;
    OPop 0 0 CMiss; OPop 0 1 CMiss; OPop 0 2 CMiss; OPop 0 3 CMiss;
    OComplete 0 true 0%Z; OPop 1 0 CMiss; OEval 0 (Ok 0%Z); OPop 3 0 CMiss;
    OPop 0 1 CMiss; OComplete 1 true 0%Z; OPop 1 1 CMiss;
    OPop 0 2 CMiss;                      (* the nominated twin collapses: consumes nothing, wakes nobody *)
    OEval 1 (Ok 7%Z); OPop 3 1 CMiss; OPop 1 2 CMiss; OPop 3 2 CMiss ].

Definition quiescent (s : state) : bool :=
  match queue s with [] => true | _ => false end &&
  forallb (fun x => match jphase x with PSubmitted | PReported | PEvaluating => false | _ => true end) (jobs s).

Theorem C09_refuted_without_recheck :
  Forall wf_op c09_witness /\ Forall (feas_op (c09_cfg c09_variant)) c09_witness /\
  let s := run (c09_cfg c09_variant) c09_witness in
  waiting s = [3] /\ quiescent s = true /\ has_holder s = false /\ used s 0 = 0%Z.
Proof.
  split; [|split; [|vm_compute; repeat split; reflexivity]].
  - repeat constructor; simpl; try lia; intuition discriminate.
  - repeat constructor.
Qed.

(** The same schedule with the re-check: job 3 is nominated again and nobody is left waiting. *)
Example C09_witness_fixed :
  let s := run (c09_cfg all_fixed) c09_witness in
  waiting s = [] /\ exec_ids (queue s) = [3].
Proof. vm_compute. split; reflexivity. Qed.

(** No lost event: whatever its phase promises is really there. *)
Theorem C09_no_lost_event : forall c ops j x,
  pending_owner_safe (vr c) = true -> getj (run c ops) j = Some x ->
  match jphase x with
  | PQueued => In (EvExec j) (queue (run c ops))
  | PCacheQ | PReported => In (EvDone j) (queue (run c ops)) \/ exists e, In (EvReject j e) (queue (run c ops))
  | PEvalQ => (exists v, In (EvResolve j v) (queue (run c ops))) \/ exists e, In (EvReject j e) (queue (run c ops))
  | PWaiting => In j (waiting (run c ops))
  | PCollapsed t => In (t, j) (subs (run c ops))
  | _ => True
  end.
Proof.
  intros c ops j x Hs Hx. apply (R_run c Hs ops j x Hx). discriminate.
Qed.

(** Quiescent => every job created has ended. *)
Theorem C09_quiescent_all_settled : forall c ops,
  release_if_holds (vr c) = true -> recheck_on_skip (vr c) = true -> pending_owner_safe (vr c) = true ->
  dryrun c = false -> (forall r, (0 <= limit_of c r)%Z) ->
  Forall wf_op ops -> Forall (feas_op c) ops ->
  queue (run c ops) = [] ->
  (forall j x, getj (run c ops) j = Some x -> jphase x <> PSubmitted /\ jphase x <> PEvaluating) ->
  forall j x, getj (run c ops) j = Some x -> ended x.
Proof.
  intros c ops H1 H2 H3 H4 H5 H6 H7 Hq Hrun.
  apply (quiescent_all_ended c H3 ops Hq); [|exact Hrun].
  apply (C09_no_stuck_waiting c ops H1 H2 H4 H5 H6 H7 Hq). intros j x Hx. apply (Hrun j x Hx).
Qed.

(** ... and outside dry runs "ended" means settled with a value or an error: "each job created ends done, cached or
    failed". *)
Theorem C09_quiescent_every_job_settled : forall c ops,
  release_if_holds (vr c) = true -> recheck_on_skip (vr c) = true -> pending_owner_safe (vr c) = true ->
  dryrun c = false -> (forall r, (0 <= limit_of c r)%Z) ->
  Forall wf_op ops -> Forall (feas_op c) ops ->
  queue (run c ops) = [] ->
  (forall j x, getj (run c ops) j = Some x -> jphase x <> PSubmitted /\ jphase x <> PEvaluating) ->
  forall j x, getj (run c ops) j = Some x -> exists o, jphase x = PSettled o.
Proof.
  intros c ops H1 H2 H3 H4 H5 H6 H7 Hq Hrun j x Hx.
  destruct (C09_quiescent_all_settled c ops H1 H2 H3 H4 H5 H6 H7 Hq Hrun j x Hx) as [E|E]; [exact E|].
  exfalso. exact (ND_run c H4 ops j x Hx E).
Qed.

(** Non-vacuity: the repaired witness schedule, run to quiescence, meets every premise and has 4 settled jobs. *)
Definition c09_full : list op :=
  c09_witness ++ [ OPop 0 3 CMiss; OComplete 3 true 0%Z; OPop 1 3 CMiss; OEval 3 (Ok 1%Z); OPop 3 3 CMiss ].
Example C09_quiescent_nonvacuous :
  let s := run (c09_cfg all_fixed) c09_full in
  queue s = [] /\ length (jobs s) = 4 /\
  forallb (fun x => match jphase x with PSettled _ => true | _ => false end) (jobs s) = true.
Proof. vm_compute. repeat split; reflexivity. Qed.

(** Every processed event lowers the potential; creating a job raises it by 7 + K. *)
Theorem C09_event_lowers_potential : forall c ops o K,
  release_if_holds (vr c) = true -> pending_owner_safe (vr c) = true -> (forall r, (0 <= limit_of c r)%Z) ->
  Forall wf_op ops -> (Z.of_nat (count_new ops) <= K)%Z ->
  (phi K (step c (run c ops) o) + (if effective (run c ops) o then 1 else 0)
   <= phi K (run c ops) + (if is_new o then 7 + K else 0))%Z.
Proof.
  intros c ops o K H1 H2 H3 Hwf HK. destruct (live_run c H1 H3 ops Hwf) as [_ HI].
  apply (phi_step c H1 H2 K (run c ops) o (Q_run c H2 ops) HI). rewrite (length_jobs_run c H2). exact HK.
Qed.

(** The event loop processes at most (7 + N) * N events for N jobs created. *)
Theorem C09_events_bounded : forall c ops,
  release_if_holds (vr c) = true -> pending_owner_safe (vr c) = true -> (forall r, (0 <= limit_of c r)%Z) ->
  Forall wf_op ops ->
  (Z.of_nat (pops c init ops) <= (7 + Z.of_nat (count_new ops)) * Z.of_nat (count_new ops))%Z.
Proof. intros c ops H1 H2 H3 Hwf. exact (pops_bounded c H1 H2 H3 ops Hwf). Qed.

Example C09_events_bounded_nonvacuous :
  pops (c09_cfg all_fixed) init c09_full = 15%nat /\ count_new c09_full = 4%nat /\
  phi 4 (run (c09_cfg all_fixed) c09_full) = 0%Z.
Proof. vm_compute. repeat split; reflexivity. Qed.

Print Assumptions C09_event_lowers_potential.
Print Assumptions C09_events_bounded.
Print Assumptions C09_no_lost_event.
Print Assumptions C09_quiescent_all_settled.
Print Assumptions C09_quiescent_every_job_settled.
Print Assumptions C09_waiting_has_waker_partial.
Print Assumptions C09_no_stuck_waiting.
Print Assumptions C09_refuted_without_recheck.
