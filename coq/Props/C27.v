(** C27 — Task options follow the documented precedence.
    Only statements, closed by [exact], and their assumptions.

    Vocabulary (Model/Options.v, Proofs/OptionsJob.v, Proofs/OptionsChain.v):
      [mk_job ev c nocache parent n]   the job the scheduler creates for call [n] under [parent]
                          (Job.__init__, get_raw_options, _evaluate_apply): the options it runs
                          with, the names it exports, the option expressions evaluated for it
      [walk ev c nocache parent t p]   the job at path [p] of job tree [t]
      [spec_job ev nocache parent def call decl]   the documented meaning, per option name: the
                          first that defines it of  scheduler-imposed, call-time, exported by
                          the parent, definition;  exported names = [decl] plus the parent's
      [spec_imposed]      prov=False under a parent that records no provenance, cache_scope=CSE
                          under run(cache=False); on top, cache_scope=NONE for a job whose own
                          prov is false
      [ev]                the scheduler's evaluation of an option expression (any function)
      [c : opt_cfg]       what translate/tr_options.py extracts (tie: Gen/C27Gen.v): the order of
                          the `**` items in Job.get_raw_options and three switches, one per
                          deviation of the code as shipped ([shipped] all false, [fixed] all true)
    All theorems are for all job trees, paths, option dicts and evaluation functions. *)
From Coq Require Import List ZArith NArith Bool.
From RV Require Import Model.Options Proofs.OptionsBase Proofs.OptionsJob Proofs.OptionsChain Proofs.OptionsWitness.
Import ListNotations.
Open Scope list_scope.

(** ** precedence *)
(** one job: given a parent that runs with what the documented meaning says, the job runs with what
    the documented meaning says (options, name by name, and exported names).  [base] are the
    task's definition options, [call] the call-time options. *)
Theorem C27_options_precedence : forall ev c nocache parent ps n st es,
  merge_order c = std_order -> agrees_opt parent ps ->
  mk_job ev c nocache parent n = Ok (st, es) ->
  exists base call cex,
    td_base (nd_def n) = Ok base /\
    chain_run c base ([], td_exports c (nd_def n) base) (nd_chain n) = Ok (call, cex) /\
    agrees st (spec_job ev nocache ps base call (td_exports c (nd_def n) base ++ cex)).
Proof. exact mk_job_spec. Qed.

(** every job of every job tree *)
Theorem C27_tree_precedence : forall ev c nocache p t parent ps uid st es par,
  merge_order c = std_order -> agrees_opt parent ps ->
  walk ev c nocache parent t p = Ok (uid, st, es, par) ->
  exists ss, spec_walk ev c nocache ps t p = Some ss /\ agrees st ss.
Proof. exact walk_spec. Qed.

(** the four layers, spelled out: a scheduler-imposed setting wins ... *)
Theorem C27_imposed_wins : forall ev nocache parent def call decl k a,
  spec_imposed nocache parent k = Some a ->
  ss_opt (spec_job ev nocache parent def call decl) k =
    if N.eqb k k_cache_scope && negb (truthy_default (spec_pre ev nocache parent def call k_prov))
    then Some (AScope SNone) else Some a.
Proof. exact spec_imposed_wins. Qed.

(** ... then the call-time value, then the value the parent runs with if the parent exports the
    name, then the definition; and whichever of call-time / definition wins has been evaluated
    ([evv ev v]: [v] itself if it is a literal, [ev e] if it is the expression [e]) *)
Theorem C27_options_evaluated : forall ev nocache parent def call decl k,
  spec_imposed nocache parent k = None ->
  (N.eqb k k_cache_scope && negb (truthy_default (spec_pre ev nocache parent def call k_prov))) = false ->
  (forall v, lookup k call = Some v -> ss_opt (spec_job ev nocache parent def call decl) k = Some (evv ev v)) /\
  (lookup k call = None -> spec_inherited parent k = None ->
   ss_opt (spec_job ev nocache parent def call decl) k = option_map (evv ev) (lookup k def)).
Proof.
  intros. split; intros.
  - apply spec_call_wins; assumption.
  - apply spec_definition_last; assumption.
Qed.

Theorem C27_exported_value_is_parents : forall ev nocache p def call decl k a,
  spec_imposed nocache (Some p) k = None -> lookup k call = None ->
  ss_exp p k = true -> ss_opt p k = Some a ->
  (N.eqb k k_cache_scope && negb (truthy_default (spec_pre ev nocache (Some p) def call k_prov))) = false ->
  ss_opt (spec_job ev nocache (Some p) def call decl) k = Some a.
Proof. exact spec_exported_wins. Qed.

(** ** exported names accumulate down the job tree: a job exports exactly the names declared by
    some call on the path from the root to it (and what the tree's parent exported) *)
Theorem C27_export_names_accumulate : forall ev c nocache p t parent uid st es par,
  walk ev c nocache parent t p = Ok (uid, st, es, par) ->
  forall k, mem k (js_export st) =
            existsb (fun n => mem k (node_decl c n)) (nodes_on t p)
            || match parent with Some q => mem k (js_export q) | None => false end.
Proof. exact walk_exports. Qed.

(** ** what a call declares *)
(** call-time options: later calls in the chain win, name by name; cache=v is cache_scope *)
Theorem C27_chain_options : forall c base o e op o' e',
  chain_step c base (o, e) op = Ok (o', e') ->
  (forall k, N.eqb k k_cache = false -> N.eqb k k_cache_scope = false ->
     lookup k o' = lookup k (op_kvs op) <|> lookup k o) /\
  (forall a, lookup k_cache (op_kvs op) = Some (OLit a) ->
     lookup k_cache_scope o' = Some (OLit (AScope (if truthy a then SBackend else SCse)))).
Proof.
  intros. split; intros.
  - eapply chain_step_options; eassumption.
  - eapply chain_step_cache; eassumption.
Qed.

(** REFUTED as shipped: t.export_options(a=1).options(b=2)(...) -- the name handed to
    export_options() is not exported and the child does not inherit it; with Task.options()
    passing the export set on ([fixed]) it does *)
Theorem C27_export_refuted : forall ev,
  In (CExport [(k_a, OLit (AInt 1))]) (nd_chain (root_node w_d1)) /\
  (exists uid st es par, walk ev shipped false None w_d1 [0%nat] = Ok (uid, st, es, par) /\
                         lookup k_a (js_opts st) = None /\ mem k_a (js_export st) = false) /\
  (exists uid st es par, walk ev fixed false None w_d1 [0%nat] = Ok (uid, st, es, par) /\
                         lookup k_a (js_opts st) = Some (AInt 1) /\ mem k_a (js_export st) = true).
Proof. exact d1_refuted. Qed.

(** repaired variant (Task.options() keeps the export set): along any chain the exported names
    only grow, every name handed to export_options() anywhere in the chain is exported (and
    `cache` brings `cache_scope`), and nothing else is except `prov` / `cache_scope` *)
Theorem C27_chain_exports_fixed : forall c base ops o e over ex,
  keeps_exports c = true ->
  chain_run c base (o, e) ops = Ok (over, ex) ->
  (forall k, mem k e = true -> mem k ex = true) /\
  (forall kvs k, In (CExport kvs) ops -> mem k (keys kvs) = true ->
     mem k ex = true /\ (k = k_cache -> mem k_cache_scope ex = true)) /\
  (forall k, mem k ex = true ->
     mem k e = true \/ mem k (chain_decl ops) = true \/ k = k_cache_scope \/ k = k_prov).
Proof.
  intros c base ops o e over ex K H. split; [|split]; intros.
  - eapply chain_run_mono; eassumption.
  - eapply chain_run_declared; eassumption.
  - eapply chain_run_weak_converse; eassumption.
Qed.

(** REFUTED as shipped: @task(export_options={"cache": False}) runs with cache_scope=CSE but its
    children do not inherit it; with the synonym handled in the decorator ([fixed]) they do *)
Theorem C27_deco_synonym_refuted : forall ev,
  (exists uid st es par, walk ev shipped false None w_d2 [] = Ok (uid, st, es, par) /\
                         lookup k_cache_scope (js_opts st) = Some (AScope SCse)) /\
  (exists uid st es par, walk ev shipped false None w_d2 [0%nat] = Ok (uid, st, es, par) /\
                         lookup k_cache_scope (js_opts st) = None) /\
  (exists uid st es par, walk ev fixed false None w_d2 [0%nat] = Ok (uid, st, es, par) /\
                         lookup k_cache_scope (js_opts st) = Some (AScope SCse)).
Proof. exact d2_refuted. Qed.

Theorem C27_deco_synonym_fixed : forall c td base, deco_synonym c = true ->
  forall k, mem k (td_exports c td base) =
            (N.eqb k k_prov && has_key k_prov base) || mem k (keys (td_export td))
            || (N.eqb k k_cache_scope && mem k_cache (keys (td_export td))).
Proof. exact td_exports_fixed. Qed.

(** ** option expressions are evaluated before use -- also for the root call *)
(** REFUTED as shipped: a root call whose task has an expression-valued option is not run at all
    (the expression is evaluated without a parent job and the scheduler crashes); with
    needs_root_task looking at the options ([fixed]) it runs with the evaluated value, the
    expression being evaluated by a job of its own *)
Theorem C27_root_expr_refuted : forall ev,
  run_execution ev shipped false false w_d3 = Err ERootExpr /\
  run_execution ev fixed false false w_d3 = Ok [(1%N, [(k_memory, ev 3%N)], []); (3%N, [], [])].
Proof. exact d3_refuted. Qed.

Theorem C27_root_expr_fixed : forall ev c nocache wrap t,
  merge_order c = std_order -> root_checks_options c = true ->
  run_execution ev c nocache wrap t <> Err ERootExpr.
Proof. intros. apply run_no_root_err; auto. Qed.

(** as shipped: no crash when the root call is wrapped anyway (its arguments hold expressions, or
    it is not a single task call) or when neither its definition nor its call-time options hold an
    expression *)
Theorem C27_root_expr_shipped_partial : forall ev c nocache wrap t,
  merge_order c = std_order ->
  (wrap = true \/
   (forall base st, td_base (nd_def (root_node t)) = Ok base ->
      chain_run c base ([], td_exports c (nd_def (root_node t)) base) (nd_chain (root_node t)) = Ok st ->
      has_expr base = false /\ has_expr (fst st) = false)) ->
  run_execution ev c nocache wrap t <> Err ERootExpr.
Proof. intros ev c nocache wrap t Hc [H|H]; apply run_no_root_err; auto. Qed.

(** ** non-vacuity: a three-generation tree with options at definition, call and export level, an
    expression-valued exported option, prov=False and run(cache=False); the model's run is the
    expected one and the grandchild satisfies the hypotheses of the tree theorems *)
Example C27_nonvacuous :
  res_obs_match (run_execution ex_ev shipped true true ex_tree) (Ok ex_expected) = true /\
  exists uid st es par, walk ex_ev shipped true None ex_tree [0%nat; 0%nat] = Ok (uid, st, es, par)
  /\ lookup k_memory (js_opts st) = Some (AInt 2) /\ lookup k_a (js_opts st) = Some (AInt 0)
  /\ lookup k_cache_scope (js_opts st) = Some (AScope SNone) /\ lookup k_prov (js_opts st) = Some (ABool false).
Proof. exact (conj ex_run ex_walk). Qed.

Print Assumptions C27_options_precedence.
Print Assumptions C27_tree_precedence.
Print Assumptions C27_imposed_wins.
Print Assumptions C27_options_evaluated.
Print Assumptions C27_exported_value_is_parents.
Print Assumptions C27_export_names_accumulate.
Print Assumptions C27_chain_options.
Print Assumptions C27_export_refuted.
Print Assumptions C27_chain_exports_fixed.
Print Assumptions C27_deco_synonym_refuted.
Print Assumptions C27_deco_synonym_fixed.
Print Assumptions C27_root_expr_refuted.
Print Assumptions C27_root_expr_fixed.
Print Assumptions C27_root_expr_shipped_partial.
Print Assumptions C27_nonvacuous.
