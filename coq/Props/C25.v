(** C25 — Handle lineage and rollback follow the state model.
    Statements only (closed by [exact] or a witness) and their assumptions.

    [lin] / [ref] (Model/Handles.v) is the reference lineage model: a set of valid states [V] and a
    lineage relation [E]; an advance records parent -> child lineage and makes the states it names
    valid, a rollback to [h] removes exactly [tc E h] (every state derived from [h]).
    [std_cfg valid_only cse_checks] is the code: [valid_only] = rollback_handle's query keeps only
    valid parent rows (as shipped: true), [cse_checks] = _get_cache validates the handles of a CSE
    hit (as shipped: false).  [shipped = std_cfg true false], [fixed = std_cfg false true]. *)
From Coq Require Import List NArith Bool.
From RV Require Import Model.Handles Proofs.HandlesDfs Proofs.HandlesRefine.
Import ListNotations.
Open Scope list_scope.
Open Scope N_scope.

(** ** Repaired rollback query: exact refinement, for every well-formed history (unbounded). *)
Theorem C25_refines_fixed : forall cse hist, Forall wf_op hist ->
  exists d, run (std_cfg false cse) hist = Done d /\
            (forall s, is_valid_handle d s = true <-> V (ref hist) s) /\
            (forall a b, In (a, b) (edges d) <-> E (ref hist) a b).
Proof. exact refine_fixed. Qed.

Theorem C25_rollback_invalidates_descendants_fixed : forall cse hist h, Forall wf_op hist ->
  exists d, run (std_cfg false cse) (hist ++ [Rb h]) = Done d /\
            forall s, tc (E (ref hist)) (oid h) s -> is_valid_handle d s = false.
Proof. exact rollback_invalidates_descendants. Qed.

Theorem C25_rollback_frame_fixed : forall cse hist h, Forall wf_op hist ->
  exists d0 d, run (std_cfg false cse) hist = Done d0 /\ run (std_cfg false cse) (hist ++ [Rb h]) = Done d /\
               forall s, ~ tc (E (ref hist)) (oid h) s -> is_valid_handle d s = is_valid_handle d0 s.
Proof. exact rollback_frame. Qed.

(** ** Both variants, every history (no well-formedness needed). *)
(** Re-deriving a state makes it (and the parents it is derived from) valid again. *)
Theorem C25_rederive_revalidates : forall vo cse hist ps c,
  exists d, run (std_cfg vo cse) (hist ++ [Adv ps c]) = Done d /\
            is_valid_handle d (oid c) = true /\ forall p, In p ps -> is_valid_handle d (oid p) = true.
Proof. exact rederive_revalidates. Qed.

(** The tables never invalidate a state the reference keeps, the lineage is recorded exactly, and
    the traversal never runs out of fuel. *)
Theorem C25_sound_partial : forall vo cse hist,
  exists d, run (std_cfg vo cse) hist = Done d /\
            (forall s, V (ref hist) s -> is_valid_handle d s = true) /\
            (forall a b, In (a, b) (edges d) <-> E (ref hist) a b).
Proof. exact sound_any. Qed.

(** What the shipped query still invalidates: everything reachable through currently valid states. *)
Theorem C25_shipped_rollback_valid_paths_partial : forall cse d h, exists d',
  rollback (std_cfg true cse) h d = Done d' /\
  forall s, tc (fun a b => In (a, b) (edges d) /\ fst a = fst h /\ is_valid_handle d a = true) h s ->
            is_valid_handle d' s = false.
Proof. exact shipped_rollback_valid_paths. Qed.

(* NOT PROVED (false as shipped, see C25_rollback_refuted):
   forall hist, Forall wf_op hist -> exists d, run shipped hist = Done d /\
     forall s, is_valid_handle d s = true <-> V (ref hist) s. *)

(** ** The shipped rollback query violates the property. *)
Definition st (n : N) : hobj := HObj (0, n) true None.
(** h -> a -> b; roll back to h; re-derive c from b (b, c valid again, a still invalid);
    roll back to h again: the query skips the invalid row a, so b and c stay valid. *)
Definition witness_chain : list op :=
  [Adv [st 0] (st 1); Adv [st 1] (st 2); Rb (st 0); Adv [st 2] (st 3); Rb (st 0)].
(** The merge shape reached by real workflows (merge_handles([ca, cb]) records cb -> ca):
    h -> cb -> ca, x -> ca; roll back to h; re-derive ca from x; roll back to h again. *)
Definition witness_merge : list op :=
  [Adv [st 0] (st 1); Adv [st 1] (st 2); Adv [st 9] (st 2); Rb (st 0); Adv [st 9] (st 2); Rb (st 0)].

Lemma wf_chain : Forall wf_op witness_chain.
Proof. repeat constructor; simpl; intros p [<-|[]]; reflexivity. Qed.
Lemma wf_merge : Forall wf_op witness_merge.
Proof. repeat constructor; simpl; intros p [<-|[]]; reflexivity. Qed.

Theorem C25_rollback_refuted : exists hist s, Forall wf_op hist /\
  forall cse, exists d, run (std_cfg true cse) hist = Done d /\
                        is_valid_handle d s = true /\ ~ V (ref hist) s.
Proof.
  exists witness_chain, (0, 2). split; [exact wf_chain|]. intros cse.
  eexists. split; [vm_compute; reflexivity|]. split; [vm_compute; reflexivity|].
  unfold ref, ref_from, witness_chain. simpl. intros [_ N]. apply N.
  eapply tc_cons; [|apply tc_one]; simpl; auto 10.
Qed.

Theorem C25_rollback_refuted_merge : exists hist s, Forall wf_op hist /\
  forall cse, exists d, run (std_cfg true cse) hist = Done d /\
                        is_valid_handle d s = true /\ ~ V (ref hist) s.
Proof.
  exists witness_merge, (0, 2). split; [exact wf_merge|]. intros cse.
  eexists. split; [vm_compute; reflexivity|]. split; [vm_compute; reflexivity|].
  unfold ref, ref_from, witness_merge. simpl. intros [_ N]. apply N.
  eapply tc_cons; [|apply tc_one]; simpl; auto 10.
Qed.

(** ** Scheduler._perform_rollbacks: a job that executes rolls back to *every* Handle state among
    its arguments; afterwards every state derived from any of them is invalid. *)
Theorem C25_perform_rollbacks_all_fixed : forall cse hist hs, Forall wf_op hist ->
  exists d0 d, run (std_cfg false cse) hist = Done d0 /\
               perform_rollbacks (std_cfg false cse) hs d0 = Done d /\
               forall h s, In h hs -> tc (E (ref hist)) (oid h) s -> is_valid_handle d s = false.
Proof. exact perform_rollbacks_all. Qed.

(** Rolling back only the first Handle of each fullname (a `seen_names` shortcut) violates it: a job
    receives the two forks s1, s2 of s0; s3 was derived from s2; only s1 is rolled back. *)
Definition first_per_name_cfg (vo cse : bool) : cfg := mkCfg true true true true true vo cse true.
Theorem C25_first_per_name_refuted : exists hist hs h s, Forall wf_op hist /\ In h hs /\ tc (E (ref hist)) (oid h) s /\
  forall vo cse, exists d0 d, run (first_per_name_cfg vo cse) hist = Done d0 /\
                              perform_rollbacks (first_per_name_cfg vo cse) hs d0 = Done d /\
                              is_valid_handle d s = true.
Proof.
  exists [Adv [st 0] (st 1); Adv [st 0] (st 2); Adv [st 2] (st 3)], [st 1; st 2], (st 2), (0, 3).
  split; [repeat constructor; simpl; intros p [<-|[]]; reflexivity|].
  split; [simpl; auto|]. split; [apply tc_one; simpl; auto 10|].
  intros vo cse. eexists. eexists. split; [destruct vo; vm_compute; reflexivity|].
  split; destruct vo; vm_compute; reflexivity.
Qed.

(** ** Replay decision (_get_cache). *)
(** Whenever the validity of the result is consulted (always in the repaired code; for every
    non-CSE hit as shipped) a replayed result contains only valid handle states. *)
Theorem C25_replay_checked_partial : forall c d t ls i ok,
  (cse_checks_valid c = true \/ t <> CSE) ->
  get_cache c d t (CVal ls) = true -> In (LHandle i ok) ls -> is_valid_handle d i = true.
Proof. exact replay_checked. Qed.

(** Repaired code: after any history, a replayed result contains no state that the reference
    lineage model has invalidated. *)
Theorem C25_no_invalid_replay_fixed : forall hist, Forall wf_op hist ->
  exists d, run fixed hist = Done d /\
    forall t ls i ok, get_cache fixed d t (CVal ls) = true -> In (LHandle i ok) ls -> V (ref hist) i.
Proof. exact no_invalid_replay_fixed. Qed.

(** As shipped a CSE hit is replayed without looking at the handle it contains. *)
Theorem C25_replay_cse_refuted : exists hist i, Forall wf_op hist /\
  forall vo, exists d, run (std_cfg vo false) hist = Done d /\
    is_valid_handle d i = false /\ ~ V (ref hist) i /\
    get_cache (std_cfg vo false) d CSE (CVal [LHandle i true]) = true.
Proof.
  exists [Adv [st 0] (st 1); Rb (st 0)], (0, 1). split.
  - repeat constructor; simpl; intros p [<-|[]]; reflexivity.
  - intros vo. eexists. split; [destruct vo; vm_compute; reflexivity|].
    split; [destruct vo; vm_compute; reflexivity|]. split; [|reflexivity].
    unfold ref, ref_from. simpl. intros [_ N]. apply N. apply tc_one. simpl. auto.
Qed.

(** ** Non-vacuity: a well-formed history with an unrecorded fork chain, a merge, a rollback and a
    re-derivation; the repaired tables and the reference agree on a mixed valid/invalid state. *)
Example C25_nonvacuous :
  let root := HObj (0, 0) false None in
  let f1 := HObj (0, 1) false (Some root) in
  let hist := [Adv [f1] (st 2); Adv [st 2] (st 3); Adv [st 0] (st 4); Adv [st 4] (st 3);
               Rb (st 0); Adv [st 2] (st 3); Adv [st 3] (st 5); Rb (st 2)] in
  Forall wf_op hist /\
  exists d, run fixed hist = Done d /\
            map (is_valid_handle d) [(0,0); (0,1); (0,2); (0,3); (0,4); (0,5)]
            = [true; true; true; false; false; false] /\
            V (ref hist) (0, 2) /\ ~ V (ref hist) (0, 5) /\
            get_cache fixed d ULTIMATE (CVal [LHandle (0, 2) true; LOther true]) = true /\
            get_cache fixed d CSE (CVal [LHandle (0, 5) true]) = false.
Proof.
  cbv zeta. split.
  - repeat constructor; simpl; intros p [<-|[]]; reflexivity.
  - destruct (refine_fixed true
      [Adv [HObj (0, 1) false (Some (HObj (0, 0) false None))] (st 2); Adv [st 2] (st 3); Adv [st 0] (st 4);
       Adv [st 4] (st 3); Rb (st 0); Adv [st 2] (st 3); Adv [st 3] (st 5); Rb (st 2)]) as [d [H [A _]]].
    { repeat constructor; simpl; intros p [<-|[]]; reflexivity. }
    exists d. split; [exact H|].
    vm_compute in H. injection H as <-.
    split; [vm_compute; reflexivity|].
    split; [apply A; vm_compute; reflexivity|].
    split; [intros K; apply A in K; vm_compute in K; discriminate|].
    split; vm_compute; reflexivity.
Qed.

Print Assumptions C25_refines_fixed.
Print Assumptions C25_rollback_invalidates_descendants_fixed.
Print Assumptions C25_rollback_frame_fixed.
Print Assumptions C25_rederive_revalidates.
Print Assumptions C25_sound_partial.
Print Assumptions C25_shipped_rollback_valid_paths_partial.
Print Assumptions C25_rollback_refuted.
Print Assumptions C25_rollback_refuted_merge.
Print Assumptions C25_replay_checked_partial.
Print Assumptions C25_no_invalid_replay_fixed.
Print Assumptions C25_replay_cse_refuted.
Print Assumptions C25_nonvacuous.
Print Assumptions C25_perform_rollbacks_all_fixed.
Print Assumptions C25_first_per_name_refuted.
