(** C03 — Shallow (ultimate-reduction) cache hits respect code changes in the subtree.

    Model: Model/Recording.v.  A call hash is the Merkle tree it hashes, so "every task that ran
    anywhere beneath the call in the recorded call tree" is [tasks_of c].  A history is any list of
    events: executions starting with any registry (= edits), jobs that ran (record_value +
    record_call_node, each commit succeeding, failing with OperationalError, or being the point of
    process death, per an arbitrary fate list), shallow hits, CSE hits, imports of call graphs.
    [shallow_hit g s t a rg] is what the next check_valid="shallow" lookup of t(a) replays under
    registry rg.

    The unchanged code ([shipped]) violates the property in four ways (all confirmed on the real
    code by the check's oracle); the repaired configuration ([fixed]: record_call_node records all
    values first and commits the CallNode atomically with its edges, arguments and subtree rows,
    completing rows of an existing CallNode; _get_call_node requires the node's own task hash among
    its rows; jobs replayed from a call node take their subtree tasks from the backend) satisfies
    it for all histories.  translate/tr_record.py decides which configuration the code is in. *)
From Coq Require Import List Arith Bool.
From RV Require Import Model.Recording Proofs.RecordingBase Proofs.RecordingGen Proofs.RecordingSub Proofs.RecordingWitness
  Proofs.RecordingMixed.
Import ListNotations.
Open Scope list_scope.

(** Full strength, repaired variant: every history, every retry budget, every lookup. *)
Theorem C03_shallow_hit_sound_fixed : forall R es t a rg c,
  shallow_hit (fixed R) (run (fixed R) es) t a rg = Some c ->
  In c (nodes (com (run (fixed R) es))) /\ t_task c = t /\ t_args c = a /\ incl (tasks_of c) rg.
Proof. exact shallow_hit_sound_fixed. Qed.

(** The state invariant behind it: subtree rows of a call node are absent or cover its whole call
    tree (committed and pending), no row is pending between operations, and every finished job's
    subtree set covers its call tree and is recorded. *)
Theorem C03_invariant_fixed : forall R es, Inv (run (fixed R) es).
Proof. exact Inv_run. Qed.

(** What holds as shipped too: one record_call_node, any step list, any fault plan, any outcome,
    leaves the rows of every call node all-or-nothing, provided the scheduler passed a complete
    subtree set (which the shipped scheduler does not always do: [C03_refuted_cse]). *)
Theorem C03_rows_all_or_nothing_partial : forall R ss p s pl, good s -> incl (tasks_of (p_call p)) (p_subtree p) ->
  match record_call_node R ss p s pl with
  | ROk s' _ | RRaise s' _ | RDied s' => atomic (com s')
  | RFuel => False
  end.
Proof. exact rows_all_or_nothing. Qed.

(** As shipped: a stale hit (the replayed call tree contains task 2 = leaf, the registry has 3). *)
Theorem C03_refuted_retry : exists c, shallow_hit (shipped 3) (run (shipped 3) h_retry) 1 [10] [1; 3] = Some c /\
  ~ incl (tasks_of c) [1; 3].
Proof. exact (stale_spec _ _ _ _ _ w_retry). Qed.
Theorem C03_refuted_crash : exists c, shallow_hit (shipped 3) (run (shipped 3) h_crash) 1 [10] [1; 3] = Some c /\
  ~ incl (tasks_of c) [1; 3].
Proof. exact (stale_spec _ _ _ _ _ w_crash). Qed.
Theorem C03_refuted_import : exists c, shallow_hit (shipped 3) (run (shipped 3) h_import) 1 [10] [1; 3] = Some c /\
  ~ incl (tasks_of c) [1; 3].
Proof. exact (stale_spec _ _ _ _ _ w_import). Qed.
(** no fault at all: a child replayed by CSE contributes only its own task *)
Theorem C03_refuted_cse : exists c, shallow_hit (shipped 3) (run (shipped 3) h_cse) 5 [10] [3; 4; 5; 6] = Some c /\
  ~ incl (tasks_of c) [3; 4; 5; 6].
Proof. exact (stale_spec _ _ _ _ _ w_cse). Qed.

(** Configuration [mixed] (the lookup requires the node's own task, replayed jobs inherit the recorded
    subtree tasks, record_call_node as shipped): sound for every history in which no job is replayed
    by CSE ... *)
Theorem C03_shallow_hit_sound_mixed_partial : forall R es, forallb (fun e => negb (is_cse e)) es = true ->
  forall t a rg c, shallow_hit (mixed R) (run (mixed R) es) t a rg = Some c ->
  In c (nodes (com (run (mixed R) es))) /\ t_task c = t /\ t_args c = a /\ incl (tasks_of c) rg.
Proof. exact shallow_hit_sound_mixed_nocse. Qed.
(** ... the four witnesses above no longer apply ... *)
Theorem C03_mixed_old_witnesses_closed :
  stale (mixed 3) h_retry 1 [10] [1; 3] = false /\ stale (mixed 3) h_crash 1 [10] [1; 3] = false /\
  stale (mixed 3) h_import 1 [10] [1; 3] = false /\ stale (mixed 3) h_cse 5 [10] [3; 4; 5; 6] = false /\
  shallow_hit (mixed 3) (run (mixed 3) h_cse) 5 [10] [2; 4; 5; 6] = Some pc.
Proof. exact mixed_old_witnesses. Qed.
(** ... but the full property is still refuted: rows lost by a retried record_call_node(mid), then a
    job replayed by CSE from mid's call node inherits nothing, and its shallow parent is stale. *)
Theorem C03_refuted_mixed : exists c, shallow_hit (mixed 3) (run (mixed 3) h_mixed) 5 [10] [3; 4; 5; 6] = Some c /\
  ~ incl (tasks_of c) [3; 4; 5; 6].
Proof. exact (stale_spec _ _ _ _ _ (proj1 w_mixed)). Qed.

(** Configuration [guarded] (a replayed job fetches its recorded subtree tasks only when its parent job was not
    itself served from the cache): refuted without any fault by two edits in a row. *)
Theorem C03_refuted_guarded : exists c, shallow_hit (guarded 3) (run (guarded 3) h_guarded) 1 [10] [1; 3; 7; 6] = Some c /\
  ~ incl (tasks_of c) [1; 3; 7; 6].
Proof. exact (stale_spec _ _ _ _ _ (proj1 w_guarded)). Qed.

(** Non-vacuity: in the repaired variant the witness histories give no stale hit, and the hit is
    still taken when nothing was edited. *)
Example C03_nonvacuous :
  (stale (fixed 3) h_retry 1 [10] [1; 3] = false /\
   shallow_hit (fixed 3) (run (fixed 3) h_retry) 1 [10] [1; 2] = Some topc) /\
  (stale (fixed 3) h_cse 5 [10] [3; 4; 5; 6] = false /\
   shallow_hit (fixed 3) (run (fixed 3) h_cse) 5 [10] [2; 4; 5; 6] = Some pc).
Proof. exact (conj f_retry f_cse). Qed.

Print Assumptions C03_shallow_hit_sound_fixed.
Print Assumptions C03_invariant_fixed.
Print Assumptions C03_rows_all_or_nothing_partial.
Print Assumptions C03_refuted_retry.
Print Assumptions C03_refuted_crash.
Print Assumptions C03_refuted_import.
Print Assumptions C03_refuted_cse.
Print Assumptions C03_shallow_hit_sound_mixed_partial.
Print Assumptions C03_refuted_mixed.
Print Assumptions C03_refuted_guarded.
