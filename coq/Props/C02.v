(** C02 — Cached executions return what an uncached run would return.
    Only statements, closed by [exact], and their assumptions.

    Model: Model/CacheHist.v (history machine over a program family; Evaluation rows keyed by
    (task hash, args hash); Scheduler._get_cache's decision chain and validity check; catch()'s
    private entry keyed by the hash of the catch expression, which contains task NAMES).
    [shipped] = the code as it is; [fixed] = validity check looks inside SimpleExpressions and
    catch() has no private entry.  Which variant the current source is in is decided by
    translate/tr_cache.py (Gen/C02Gen.v). *)
From Coq Require Import List Arith Bool.
From RV Require Import Model.CacheHist Proofs.CacheHistBase Proofs.CacheHistInv Proofs.CacheHistLang Proofs.CacheHistWitness.
Import ListNotations.
Open Scope list_scope.

(** The property, at full strength, for the repaired variant: for EVERY program of the family,
    EVERY history of executions / body edits / version bumps / reverts / argument changes /
    input-file rewrites (any length), every execution on the shared backend returns exactly what
    the same execution returns on an empty backend (value, error, or out-of-fuel at the same fuel).
    [content]: the stamp (size, mtime) of a file identifies its content. *)
Theorem C02_holds_fixed : forall content (P : program) fuel ops,
  map fst (run_hist fixed code_chain content P fuel h0 ops) = map fst (run_fresh fixed code_chain content P fuel h0 ops).
Proof. intros. apply (hist_cached_eq_fresh content P fixed eq_refl eq_refl). constructor. Qed.

(** ... and from any backend state that satisfies the invariant, not only the empty one. *)
Theorem C02_holds_fixed_from : forall content (P : program) fuel ops h,
  InvC (lang_sem content P) (h_cache h) ->
  map fst (run_hist fixed code_chain content P fuel h ops) = map fst (run_fresh fixed code_chain content P fuel h ops).
Proof. intros. now apply (hist_cached_eq_fresh content P fixed eq_refl eq_refl). Qed.

(** The invariant (every Evaluation row maps its key to the single reduction of that call under
    the code identified in the key) is preserved by every recording step of every history — also
    with catch's private entry in use, as long as the validity check is the repaired one. *)
Theorem C02_invariant_preserved : forall V, v_proj_valid V = true -> forall content (P : program) fuel ops h,
  InvC (lang_sem content P) (h_cache h) ->
  InvC (lang_sem content P) (h_cache (fold_left (fun h o => fst (step V code_chain content P fuel h o)) ops h)).
Proof. intros V HV content P fuel ops h. exact (hist_inv content P V HV fuel ops h). Qed.

(** The one-execution statement for an arbitrary task semantics that respects redun's file
    contract (premises spelled out; the program family of the model satisfies them:
    [lang_fresh], [lang_local]). *)
Theorem C02_cached_eq_fresh_any_semantics : forall V, v_proj_valid V = true -> v_catch_cache V = false ->
  forall sem : semantics,
  (forall t c a E0 d0 r, sem t c a E0 d0 = Ret r -> cur_val d0 a = true -> cur d0 r = true) ->
  (forall t c a E0 d0 E1 d1 r, sem t c a E0 d0 = Ret r -> cur_val d0 a = true -> cur_val d1 a = true -> cur d1 r = true ->
     exists r', sem t c a E1 d1 = Ret r' /\ sim r r') ->
  forall E d n C e, InvC sem C -> cur d e = true ->
  fst (eval V code_chain sem E d n (mkSt C []) e) = fst (eval V code_chain sem E d n (mkSt [] []) e) /\
  InvC sem (s_cache (snd (eval V code_chain sem E d n (mkSt C []) e))).
Proof. exact cached_eq_fresh. Qed.

(** As shipped the property is FALSE.  (1) catch replays recover(error) from its private entry
    after the failing task was edited (DESIGN §7, notes/experiments/e8.py) — for every variant
    that keeps the private entry, whatever the validity check does. *)
Theorem C02_refuted_catch : forall V, v_catch_cache V = true ->
  exists P ops, map fst (run_hist V code_chain content_id P 30 h0 ops) <> map fst (run_fresh V code_chain content_id P 30 h0 ops).
Proof. exact refuted_catch. Qed.

Theorem C02_refuted_catch_witness :
  results shipped Wc_prog Wc_ops = [Ok (VNum 9); Ok (VNum 9)] /\ fresh_results shipped Wc_prog Wc_ops = [Ok (VNum 9); Ok (VNum 7)].
Proof. exact Wc_shipped. Qed.

(** (1') the same entry is stale after an input-file rewrite, without any code edit, when the
    failing task reads a File created inside the caught subtree. *)
Theorem C02_refuted_catch_rewrite : forall V, v_catch_cache V = true ->
  map fst (run_hist V code_chain content_id Wf_prog 30 h0 Wf_ops) <> map fst (run_fresh V code_chain content_id Wf_prog 30 h0 Wf_ops).
Proof. exact refuted_catch_rewrite. Qed.

(** (2) a File inside a lazy x[i] of a cached single reduction is never validated — for every
    variant with the shipped validity check, with or without catch's entry. *)
Theorem C02_refuted_proj : forall V, v_proj_valid V = false ->
  exists P ops, map fst (run_hist V code_chain content_id P 30 h0 ops) <> map fst (run_fresh V code_chain content_id P 30 h0 ops).
Proof. exact refuted_proj. Qed.

Theorem C02_refuted_proj_witness :
  results shipped Wp_prog Wp_ops = [Ok (VNum 0); Ok (VNum 0)] /\ fresh_results shipped Wp_prog Wp_ops = [Ok (VNum 0); Ok (VNum 5)].
Proof. exact Wp_shipped. Qed.

(* NOT PROVED: C02_holds_without_stale_catch — with catch's private entry in use (variant
   [proj_fixed_only]), if every catch row (KCatch e r c |-> recover(x)) of the backend is still
   accurate (e still raises x under the current code and files, and recover(x) still succeeds),
   then every execution returns what an empty backend returns.  The hit path of catch() also
   differs from the miss path in that a failure of the replayed recover(x) is caught AGAIN
   (.catch(promise_catch) on the cached expression), so accuracy must cover the recover call
   too; this needs fuel-monotonicity of [eval], which is not developed.
   What is proved for that variant is [C02_invariant_preserved] (the Evaluation rows stay correct,
   only catch rows go stale), and the refutations above show the accuracy premise is necessary. *)

(** Non-vacuity: in the repaired variant the cache is really used on a history with a version bump
    and a revert (fewer bodies run than on an empty backend), and the answers agree. *)
Example C02_nonvacuous :
  results fixed Wv_prog Wv_ops = [Ok (VErr 1); Ok (VNum 7); Ok (VErr 1)] /\
  results fixed Wv_prog Wv_ops = fresh_results fixed Wv_prog Wv_ops /\
  executed fixed Wv_prog Wv_ops = [3; 1; 1] /\ fresh_executed fixed Wv_prog Wv_ops = [3; 2; 3] /\
  results shipped Wv_prog Wv_ops = [Ok (VErr 1); Ok (VErr 1); Ok (VErr 1)].
Proof. vm_compute. repeat split; reflexivity. Qed.

Print Assumptions C02_holds_fixed.
Print Assumptions C02_holds_fixed_from.
Print Assumptions C02_invariant_preserved.
Print Assumptions C02_cached_eq_fresh_any_semantics.
Print Assumptions C02_refuted_catch.
Print Assumptions C02_refuted_catch_rewrite.
Print Assumptions C02_refuted_proj.
