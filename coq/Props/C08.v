(** C08 — Resource limits are never exceeded.
    Model: Model/JobMachine.v (open job machine, every schedule = every op list).
    [held s r] = units of [r] consumed by jobs and not yet released (consume happens exactly when a
    job is handed to an executor, or rejected for an unknown executor right after consuming). *)
From Coq Require Import List ZArith Bool Arith Lia.
From RV Require Import Model.JobMachine Proofs.JobBase Proofs.JobRes Proofs.JobRes2 Proofs.JobRes3.
Import ListNotations.
Open Scope list_scope.

(** Repaired variant (release iff the job still holds its units), any setting of the other switches,
    any limits >= 0, any op sequence whose job demands are well formed (unique names, counts >= 0):
    limits_used equals the units held, and never exceeds the limit. *)
Theorem C08_limits_never_exceeded : forall c ops r,
  release_if_holds (vr c) = true -> (forall r, (0 <= limit_of c r)%Z) -> Forall wf_op ops ->
  used (run c ops) r = held (run c ops) r /\ (held (run c ops) r <= limit_of c r)%Z.
Proof.
  intros c ops r Hf Hl Hw. pose proof (inv_run c Hf Hl ops Hw) as I.
  split; [apply (i_used _ _ I)|apply (i_le _ _ I)].
Qed.

(** No leak: once no job holds units any more (everything submitted has been reported), nothing is counted as used —
    the counterpart of the oracle's end-of-run check (seeded change C09d leaked the units of a job rejected before it
    reached an executor). *)
Theorem C08_no_units_leaked : forall c ops r,
  release_if_holds (vr c) = true -> (forall r, (0 <= limit_of c r)%Z) -> Forall wf_op ops ->
  (forall j x, getj (run c ops) j = Some x -> jholds x = false) ->
  used (run c ops) r = 0%Z.
Proof.
  intros c ops r Hf Hl Hw Hn. destruct (C08_limits_never_exceeded c ops r Hf Hl Hw) as [E _]. rewrite E.
  rewrite held_eq. unfold getj in Hn. generalize dependent (jobs (run c ops)). clear.
  induction l as [|x t IH]; intros Hn; simpl; [reflexivity|].
  rewrite IH; [|intros j y Hy; apply (Hn (S j) y Hy)].
  unfold contrib. rewrite (Hn 0%nat x eq_refl). reflexivity.
Qed.

(** Jobs served from the cache or by deduplication hold no units. *)
Theorem C08_cached_hold_nothing : forall c ops j x,
  release_if_holds (vr c) = true -> (forall r, (0 <= limit_of c r)%Z) -> Forall wf_op ops ->
  getj (run c ops) j = Some x -> jcached x = true -> jholds x = false.
Proof. intros c ops j x Hf Hl Hw. exact (i_cached _ _ (inv_run c Hf Hl ops Hw) j x). Qed.

Theorem C08_collapsed_hold_nothing : forall c ops j x,
  release_if_holds (vr c) = true -> (forall r, (0 <= limit_of c r)%Z) -> Forall wf_op ops ->
  In j (map snd (subs (run c ops))) -> getj (run c ops) j = Some x -> jholds x = false.
Proof. intros c ops j x Hf Hl Hw. exact (i_subs _ _ (inv_run c Hf Hl ops Hw) j x). Qed.

(** Units are returned at most once, and exactly once or still held for a job that was handed to an executor. *)
Theorem C08_released_once : forall c ops j x,
  release_if_holds (vr c) = true -> (forall r, (0 <= limit_of c r)%Z) -> Forall wf_op ops ->
  getj (run c ops) j = Some x ->
  jreleases x + b2n (jholds x) <= 1 /\ (1 <= jsubmits x -> jreleases x + b2n (jholds x) = 1).
Proof. intros c ops j x Hf Hl Hw. exact (i_rel _ _ (inv_run c Hf Hl ops Hw) j x). Qed.

(** A job is handed to an executor at most once (it never re-enters the pending set). *)

(** As shipped (release iff not was_cached): a job that ran, was reported done (release #1) and whose
    result expression then fails is rejected (release #2).  limits_used becomes negative and two
    jobs then run concurrently under a limit of 1. *)
Definition c08_witness : list op :=
  [ ONew 0 0 [(0, 1%Z)] false true false; OPop 0 0 CMiss; OComplete 0 true 0%Z; OPop 1 0 CMiss;
    OEval 0 (Ko 1%Z); OPop 2 0 CMiss;
    ONew 1 0 [(0, 1%Z)] false true false; ONew 2 0 [(0, 1%Z)] false true false;
    OPop 0 1 CMiss; OPop 0 2 CMiss ].

Definition c08_cfg (v : variant) : config := {| limit_of := fun _ => 1%Z; dryrun := false; vr := v |}.

Definition submitted_units (s : state) (r : nat) : Z :=
  fold_right (fun x a => ((if in_flight x then demand (jlimits x) r else 0) + a)%Z) 0%Z (jobs s).

Theorem C08_refuted_as_shipped :
  Forall wf_op c08_witness /\
  (used (run (c08_cfg as_shipped) (firstn 6 c08_witness)) 0 < 0)%Z /\
  (submitted_units (run (c08_cfg as_shipped) c08_witness) 0 = 2)%Z /\
  (limit_of (c08_cfg as_shipped) 0 = 1)%Z.
Proof.
  split; [|vm_compute; repeat split; reflexivity].
  repeat constructor; simpl; try lia; intuition discriminate.
Qed.

(** The same schedule on the repaired variant keeps the second job waiting. *)
Example C08_witness_fixed :
  (used (run (c08_cfg all_fixed) c08_witness) 0 = 1)%Z /\
  (submitted_units (run (c08_cfg all_fixed) c08_witness) 0 = 1)%Z /\
  waiting (run (c08_cfg all_fixed) c08_witness) = [2].
Proof. vm_compute. repeat split; reflexivity. Qed.

(** Non-vacuity: a run in which a job waits for limits, is re-nominated after a release, a twin
    collapses, and jobs finish (limit 2 for every resource). *)
Example C08_nonvacuous :
  let c := {| limit_of := fun _ => 2%Z; dryrun := false; vr := all_fixed |} in
  let ops := [ ONew 0 0 [(0, 2%Z)] false true false; ONew 0 0 [(0, 2%Z)] false true false;
               ONew 1 0 [(0, 1%Z); (1, 2%Z)] false true false;
               OPop 0 0 CMiss; OPop 0 1 CMiss; OPop 0 2 CMiss; OComplete 0 true 0%Z; OPop 1 0 CMiss;
               OEval 0 (Ok 5%Z); OPop 0 2 CMiss; OPop 3 0 CMiss ] in
  Forall wf_op ops /\ (held (run c ops) 0%nat = 1%Z) /\ (held (run c ops) 1%nat = 2%Z) /\
  map jsubmits (jobs (run c ops)) = [1; 0; 1].
Proof.
  split; [repeat constructor; simpl; try lia; intuition discriminate|]. vm_compute. repeat split; reflexivity.
Qed.

Print Assumptions C08_limits_never_exceeded.
Print Assumptions C08_no_units_leaked.
Print Assumptions C08_cached_hold_nothing.
Print Assumptions C08_released_once.
Print Assumptions C08_refuted_as_shipped.
