(** C37 — The task registry stays consistent.
    Only statements, closed by [exact] (or a two-line proof), and their assumptions.

    A history is any list of [Define] (task definition / redefinition), [Wrap] (wraps_task applied
    to any Task object ever created, registered or not), [Rename] and [ReAdd] (the registry's
    public rename / add called directly); ops that raise leave the state they reached and the
    history goes on.  No bound on length, names, hashes.  [shipped] is the configuration the
    translator must regenerate from redun/task.py (Gen/C37Gen.v). *)
From Coq Require Import List ZArith NArith String Bool Arith Lia.
From RV Require Import Model.Registry Proofs.RegistryDict Proofs.RegistryInv Proofs.RegistryWrap.
Import ListNotations.
Open Scope list_scope.

Definition reach (ops : list op) : state := run shipped init ops.

(** (1) hash counts are exact: the count of h is the number of held tasks whose hash is h ... *)
Theorem C37_counts_exact : forall ops h,
  getc h (counts (reach ops)) =
  Z.of_nat (List.length (filter (fun ko => N.eqb (t_hash (obj (reach ops) (snd ko))) h) (tasks (reach ops)))).
Proof. intros. apply counts_exact_Inv. apply run_Inv. Qed.

(** ... no entry is zero or negative (the assert in task_hashes never fires) ... *)
Theorem C37_counts_positive : forall ops h c, In (h, c) (counts (reach ops)) -> (c >= 1)%Z.
Proof.
  intros ops h c H. pose proof (run_Inv ops) as I.
  apply (In_dget N.eqb n_spec) in H; [|apply I]. apply (inv_pos _ I) in H. lia.
Qed.

(** ... so task_hashes returns, without duplicates, exactly the hashes of the held tasks. *)
Theorem C37_task_hashes_exact : forall ops,
  exists l, task_hashes shipped (reach ops) = Some l /\ NoDup l /\
            forall h, In h l <-> exists k o, In (k, o) (tasks (reach ops)) /\ t_hash (obj (reach ops) o) = h.
Proof. intros. apply task_hashes_Inv. apply run_Inv. Qed.

(** (2) every held task is filed under, and found under, its current full name; the held tasks
    are distinct objects. *)
Theorem C37_found_under_fullname : forall ops k o, In (k, o) (tasks (reach ops)) ->
  fullname (reach ops) o = k /\ reg_get (reach ops) (fullname (reach ops) o) = Some o.
Proof. intros. apply found_Inv; auto. apply run_Inv. Qed.

Theorem C37_held_distinct : forall ops, NoDup (reg_iter (reach ops)).
Proof. intros. apply held_distinct_Inv. apply run_Inv. Qed.

(** (3) wrapping a registered task whose wrapped_task chain is intact ([good_chain]: every link
    names a registered task, full names get longer down the chain) succeeds; the new wrapper has
    the visible name and namespace and is what the visible name resolves to; every task of the
    chain ([in_chain]), the original first, keeps its name and hash, has moved to
    [inner_ns namespace wrapper_name], is found under its new full name, and its wrapped_task
    names the new full name of the next task ([moved1]). *)
Theorem C37_wrap_moves_inner : forall ops o n w h,
  good_chain (reach ops) o n -> w <> ""%string ->
  exists st', let o' := List.length (heap (reach ops)) in
    step shipped (reach ops) (Wrap o w h) = (st', Done o') /\
    obj st' o' = mkT (t_ns (obj (reach ops) o)) (t_name (obj (reach ops) o)) h (Some (fullname st' o)) /\
    reg_get st' (fullname (reach ops) o) = Some o' /\
    (forall x, in_chain (reach ops) o x -> moved1 (reach ops) st' w x).
Proof.
  intros ops o n w h G Hw. destruct (wrap_good _ o n w h (run_Inv ops) G Hw) as (st' & A & _ & B).
  exists st'. exact (conj A B).
Qed.

(** the plain case spelled out: a registered task that wraps nothing *)
Theorem C37_wrap_plain : forall ops o w h,
  registered (reach ops) o -> t_wrapped (obj (reach ops) o) = None -> w <> ""%string ->
  exists st', let st := reach ops in let o' := List.length (heap st) in
    step shipped st (Wrap o w h) = (st', Done o') /\
    t_ns (obj st' o') = t_ns (obj st o) /\ t_name (obj st' o') = t_name (obj st o) /\
    reg_get st' (fullname st o) = Some o' /\
    t_ns (obj st' o) = inner_ns (t_ns (obj st o)) w /\ t_name (obj st' o) = t_name (obj st o) /\
    reg_get st' (fullname st' o) = Some o /\
    t_wrapped (obj st' o') = Some (fullname st' o).
Proof.
  intros ops o w h R W Hw.
  destruct (C37_wrap_moves_inner ops o 0 w h (gc_plain _ _ R W) Hw) as (st' & A & B & C & D).
  destruct (D o (ic_here _ _)) as (E & F & _ & G & _).
  exists st'. cbv zeta. rewrite B. simpl. auto 10.
Qed.

(* NOT PROVED (and not claimed by the property): that every registered task of every history built
   from Define and Wrap-of-a-registered-task alone satisfies [good_chain].  It is false when a
   wrapper name contains a dot (see [C37_note_dotted_wrapper_dangling]); the harness reports how
   often generated histories satisfy it. *)

(** Non-vacuity: a reachable state with a hash held twice and a wrapper over a moved task, to
    which (3) applies. *)
Definition ex_ops : list op :=
  [Define "" "f" 1; Wrap 0 "w" 2; Define "a" "f" 1]%string.

Example C37_nonvacuous :
  getc 1 (counts (reach ex_ops)) = 2%Z /\ good_chain (reach ex_ops) 1 1 /\
  tasks (reach ex_ops) = [("w.f", 0); ("f", 1); ("a.f", 2)]%string%nat.
Proof.
  split; [vm_compute; reflexivity|]. split; [|vm_compute; reflexivity].
  eapply (gc_link _ 1 "w.f"%string 0 0); try (vm_compute; reflexivity).
  - vm_compute. lia.
  - apply gc_plain; vm_compute; reflexivity.
Qed.

(** Notes (behaviour outside the hypotheses of (3); (1) and (2) still hold there).
    Wrapping a Task object that a redefinition has replaced moves the *replacement* and leaves a
    wrapper whose wrapped_task names itself; wrapping that wrapper recurses forever. *)
Example C37_note_stale_wrap_self_reference :
  let ops := [Define "" "f" 1; Define "" "f" 2; Wrap 0 "w" 3]%string in
  t_wrapped (obj (reach ops) 2) = Some (fullname (reach ops) 2) /\
  snd (step shipped (reach ops) (Wrap 2 "v" 4)) = Raised OutOfFuel.
Proof. split; vm_compute; reflexivity. Qed.

(** With a dotted wrapper name two registered wrappers can come to name the same inner task;
    wrapping one leaves the other dangling, and wrapping that one raises AttributeError. *)
Example C37_note_dotted_wrapper_dangling :
  let ops := [Define "" "f" 1; Wrap 0 "a.b" 2; Define "a" "f" 1; Wrap 2 "b" 3; Wrap 1 "c" 4]%string in
  snd (step shipped (reach ops) (Wrap 3 "d" 5)) = Raised AttributeError.
Proof. vm_compute. reflexivity. Qed.

Print Assumptions C37_counts_exact.
Print Assumptions C37_counts_positive.
Print Assumptions C37_task_hashes_exact.
Print Assumptions C37_found_under_fullname.
Print Assumptions C37_held_distinct.
Print Assumptions C37_wrap_moves_inner.
Print Assumptions C37_wrap_plain.
Print Assumptions C37_nonvacuous.
