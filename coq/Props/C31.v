(** C31 — Value storage location is transparent.
    Only statements, closed by [exact], and their assumptions.

    Model: [Model/ValueStore.v].  All theorems are about [shipped], the code shape that
    translate/tr_valuestore.py re-extracts from /repo (tie: Gen/C31Gen.v).  A history is ANY list
    of events: record a value, read a hash, the value-store file of a hash disappears, a FileCache
    file disappears.  [conf] = (value store configured?, value_store_min_size, max_value_size),
    all three arbitrary integers / booleans.

    Premises (Section hypotheses of the proofs, visible below as antecedents — not axioms):
      roundtrip      pickle_loads (pickle_dumps v) = v
      nonempty       pickle_dumps v <> b""        (see [C31_empty_serialization_edge])
      hb_nonempty    hash_bytes d <> ""
      hash_compat    equal value hashes => same deserializer, same serialized length, and for
                     FileCache values the same file name (collision resistance of the hash). *)
From Coq Require Import List ZArith Bool Ascii String.
From RV Require Import Base.Decimal Base.Lit Model.ValueStore Proofs.ValueStoreBase Proofs.ValueStoreInv
  Proofs.ValueStoreMain Proofs.ValueStoreWitness.
Import ListNotations.
Open Scope list_scope.

(** 1. Read-back.  Under any configuration, after any history, a value that [record_value]
    accepts reads back as a value with the hash it was recorded under, and that hash is
    [rhash v], which mentions neither the configuration nor the state: the same whether the
    bytes stay in the row, go to the value store, or (FileCache) to a file. *)
Theorem C31_read_back_same_hash :
  forall V (pickle : V -> bytes) unpickle kind_of H Hb,
  (forall v, unpickle (pickle v) = Some v) -> (forall v, pickle v <> []) -> (forall d, Hb d <> []) ->
  hash_compat V pickle kind_of H Hb ->
  forall cf evs v s' h,
  record V pickle kind_of H Hb shipped cf (run V pickle unpickle kind_of H Hb shipped cf evs init) v = (s', RHash h) ->
  h = rhash V pickle kind_of H Hb v
  /\ exists v', get V unpickle shipped cf s' h = RValue v' /\ rhash V pickle kind_of H Hb v' = h.
Proof. exact read_back_same_hash. Qed.

Theorem C31_location_transparent :
  forall V (pickle : V -> bytes) unpickle kind_of H Hb,
  (forall v, unpickle (pickle v) = Some v) -> (forall v, pickle v <> []) -> (forall d, Hb d <> []) ->
  hash_compat V pickle kind_of H Hb ->
  forall cf1 cf2 evs1 evs2 v s1 s2 h1 h2,
  record V pickle kind_of H Hb shipped cf1 (run V pickle unpickle kind_of H Hb shipped cf1 evs1 init) v = (s1, RHash h1) ->
  record V pickle kind_of H Hb shipped cf2 (run V pickle unpickle kind_of H Hb shipped cf2 evs2 init) v = (s2, RHash h2) ->
  h1 = h2 /\ exists v1 v2, get V unpickle shipped cf1 s1 h1 = RValue v1 /\ get V unpickle shipped cf2 s2 h2 = RValue v2
                           /\ rhash V pickle kind_of H Hb v1 = h1 /\ rhash V pickle kind_of H Hb v2 = h1.
Proof. exact location_transparent. Qed.

(** 2. Never a different value.  In every state reachable by any events — with the thresholds
    allowed to change at every event, only the presence of a value store constant — reading any
    hash gives a value with that hash or "absent"; never another value, never an exception. *)
Theorem C31_read_sound :
  forall V (pickle : V -> bytes) unpickle kind_of H Hb,
  (forall v, unpickle (pickle v) = Some v) -> (forall v, pickle v <> []) -> (forall d, Hb d <> []) ->
  hash_compat V pickle kind_of H Hb ->
  forall b s cf h, reach V pickle unpickle kind_of H Hb b s -> has_store cf = b ->
  match get V unpickle shipped cf s h with
  | RValue v => rhash V pickle kind_of H Hb v = h
  | RAbsent => True
  | _ => False
  end.
Proof. exact read_sound. Qed.

(** 3. Missing offloaded bytes read as absent (value store file; FileCache file). *)
Theorem C31_missing_offload_reads_absent :
  forall V (pickle : V -> bytes) unpickle kind_of H Hb,
  (forall v, pickle v <> []) -> (forall d, Hb d <> []) ->
  forall b cf s h r, reach V pickle unpickle kind_of H Hb b s -> has_store cf = b ->
  lookup h (rows s) = Some r -> r_value r = [] ->
  get V unpickle shipped cf (fst (step V pickle unpickle kind_of H Hb shipped cf s (ELoseStored h))) h = RAbsent.
Proof. exact missing_store_reads_absent. Qed.

Theorem C31_missing_cache_file_reads_absent :
  forall V (pickle : V -> bytes) unpickle kind_of H Hb,
  (forall v, unpickle (pickle v) = Some v) -> hash_compat V pickle kind_of H Hb ->
  forall b cf s h v bs, reach V pickle unpickle kind_of H Hb b s -> has_store cf = b ->
  get V unpickle shipped cf s h = RValue v -> kind_of v = KFileCache bs ->
  get V unpickle shipped cf
    (fst (step V pickle unpickle kind_of H Hb shipped cf s (ELoseFile (fc_path V pickle Hb bs v)))) h = RAbsent.
Proof. exact missing_file_reads_absent. Qed.

(** ... and as long as no bytes are lost a readable value stays readable, with its hash,
    through any further recordings and reads. *)
Theorem C31_persists :
  forall V (pickle : V -> bytes) unpickle kind_of H Hb,
  (forall v, unpickle (pickle v) = Some v) -> (forall v, pickle v <> []) -> (forall d, Hb d <> []) ->
  hash_compat V pickle kind_of H Hb ->
  forall b cf evs s h, reach V pickle unpickle kind_of H Hb b s -> has_store cf = b ->
  forallb (not_loss V) evs = true -> readable V unpickle cf s h ->
  exists v', get V unpickle shipped cf (run V pickle unpickle kind_of H Hb shipped cf evs s) h = RValue v'
             /\ rhash V pickle kind_of H Hb v' = h.
Proof. exact persists. Qed.

(** 4. Larger than the maximum: rejected, and neither a row nor a value-store file is written.
    Not larger: accepted, and (fresh hash) kept whole in exactly one place — never truncated. *)
Theorem C31_too_large_rejected :
  forall V (pickle : V -> bytes) kind_of H Hb cf s v,
  (blen (ser_data V pickle kind_of Hb v) > max_size cf)%Z ->
  snd (record V pickle kind_of H Hb shipped cf s v) = RTooLarge
  /\ rows (fst (record V pickle kind_of H Hb shipped cf s v)) = rows s
  /\ store (fst (record V pickle kind_of H Hb shipped cf s v)) = store s.
Proof. exact too_large_rejected. Qed.

Theorem C31_within_limit_accepted :
  forall V (pickle : V -> bytes) kind_of H Hb cf s v,
  (blen (ser_data V pickle kind_of Hb v) <= max_size cf)%Z ->
  snd (record V pickle kind_of H Hb shipped cf s v) = RHash (rhash V pickle kind_of H Hb v).
Proof. exact within_limit_accepted. Qed.

Theorem C31_stored_whole :
  forall V (pickle : V -> bytes) kind_of H Hb cf s v s' h,
  record V pickle kind_of H Hb shipped cf s v = (s', RHash h) ->
  lookup h (rows s) = None -> lookup h (store s) = None ->
  (offload shipped cf (ser_data V pickle kind_of Hb v) = false /\
     lookup h (rows s') = Some {| r_tag := tag_of V kind_of v; r_value := ser_data V pickle kind_of Hb v |} /\
     lookup h (store s') = None)
  \/ (offload shipped cf (ser_data V pickle kind_of Hb v) = true /\
     lookup h (rows s') = Some {| r_tag := tag_of V kind_of v; r_value := [] |} /\
     lookup h (store s') = Some (ser_data V pickle kind_of Hb v)).
Proof. exact stored_whole. Qed.

(** 5. Recorded twice: the second recording changes nothing and returns the same result. *)
Theorem C31_record_twice_idempotent :
  forall V (pickle : V -> bytes) kind_of H Hb cf s v,
  record V pickle kind_of H Hb shipped cf (fst (record V pickle kind_of H Hb shipped cf s v)) v
  = record V pickle kind_of H Hb shipped cf s v.
Proof. exact record_twice_idempotent. Qed.

(** Non-vacuity: an instance (plain, FileCache and own-hash value) satisfying all premises, with
    a history in which bytes go missing (reads absent), are recorded again and read back. *)
Example C31_nonvacuous :
  ((forall v, Inst.unpickle (Inst.pickle v) = Some v) /\ (forall v, Inst.pickle v <> []) /\
   (forall d, Inst.Hb d <> []) /\ hash_compat Inst.val Inst.pickle Inst.kind_of Inst.H Inst.Hb)
  /\ offload shipped Inst.cf (ser_data Inst.val Inst.pickle Inst.kind_of Inst.Hb Inst.A) = true
  /\ get Inst.val Inst.unpickle shipped Inst.cf
       (run Inst.val Inst.pickle Inst.unpickle Inst.kind_of Inst.H Inst.Hb shipped Inst.cf
            [ERecord Inst.A; ELoseStored (rhash Inst.val Inst.pickle Inst.kind_of Inst.H Inst.Hb Inst.A)] init)
       (rhash Inst.val Inst.pickle Inst.kind_of Inst.H Inst.Hb Inst.A) = RAbsent
  /\ get Inst.val Inst.unpickle shipped Inst.cf
       (run Inst.val Inst.pickle Inst.unpickle Inst.kind_of Inst.H Inst.Hb shipped Inst.cf Inst.hist init)
       (rhash Inst.val Inst.pickle Inst.kind_of Inst.H Inst.Hb Inst.A) = RValue Inst.A.
Proof.
  split; [exact (conj Inst.roundtrip (conj Inst.pickle_nonempty (conj Inst.Hb_nonempty Inst.compat)))|].
  destruct Inst.facts as [F1 [_ [F3 [F4 _]]]]. exact (conj F1 (conj F3 F4)).
Qed.

(** The premise "serializations are never empty" is necessary: an empty serialization is taken
    for the placeholder of an offloaded value (AssertionError without a store, absent with one). *)
Theorem C31_empty_serialization_edge :
  snd (record nat (tbl_pickle EdgeEmpty.t) (tbl_kind EdgeEmpty.t) (tbl_hash EdgeEmpty.ht) (tbl_hash [])
         shipped EdgeEmpty.nostore init 0) = RHash (lit "hash-of-empty")
  /\ get nat (tbl_unpickle EdgeEmpty.t) shipped EdgeEmpty.nostore
       (fst (record nat (tbl_pickle EdgeEmpty.t) (tbl_kind EdgeEmpty.t) (tbl_hash EdgeEmpty.ht) (tbl_hash [])
               shipped EdgeEmpty.nostore init 0)) (lit "hash-of-empty") = RAssert
  /\ get nat (tbl_unpickle EdgeEmpty.t) shipped EdgeEmpty.withstore
       (fst (record nat (tbl_pickle EdgeEmpty.t) (tbl_kind EdgeEmpty.t) (tbl_hash EdgeEmpty.ht) (tbl_hash [])
               shipped EdgeEmpty.withstore init 0)) (lit "hash-of-empty") = RAbsent.
Proof. exact EdgeEmpty.edge. Qed.

(** Read-back is per configuration: if value_store_min_size is raised after offloaded bytes were
    lost, recording the value again leaves the placeholder row and the value reads absent (with
    the thresholds unchanged the second recording restores it).  Outside the property's
    quantifier (one threshold per history); kept as a documented limit of [C31_read_back_same_hash]. *)
Theorem C31_threshold_change_edge :
  snd (record Inst.val Inst.pickle Inst.kind_of Inst.H Inst.Hb shipped EdgeThreshold.large EdgeThreshold.s1 Inst.A)
    = RHash (rhash Inst.val Inst.pickle Inst.kind_of Inst.H Inst.Hb Inst.A)
  /\ get Inst.val Inst.unpickle shipped EdgeThreshold.large
       (fst (record Inst.val Inst.pickle Inst.kind_of Inst.H Inst.Hb shipped EdgeThreshold.large EdgeThreshold.s1 Inst.A))
       (rhash Inst.val Inst.pickle Inst.kind_of Inst.H Inst.Hb Inst.A) = RAbsent
  /\ get Inst.val Inst.unpickle shipped EdgeThreshold.small
       (fst (record Inst.val Inst.pickle Inst.kind_of Inst.H Inst.Hb shipped EdgeThreshold.small EdgeThreshold.s1 Inst.A))
       (rhash Inst.val Inst.pickle Inst.kind_of Inst.H Inst.Hb Inst.A) = RValue Inst.A.
Proof. exact EdgeThreshold.edge. Qed.

Print Assumptions C31_read_back_same_hash.
Print Assumptions C31_location_transparent.
Print Assumptions C31_read_sound.
Print Assumptions C31_missing_offload_reads_absent.
Print Assumptions C31_missing_cache_file_reads_absent.
Print Assumptions C31_persists.
Print Assumptions C31_too_large_rejected.
Print Assumptions C31_within_limit_accepted.
Print Assumptions C31_stored_whole.
Print Assumptions C31_record_twice_idempotent.
Print Assumptions C31_nonvacuous.
